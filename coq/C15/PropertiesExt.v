(** C15 - property theorems of the extension (statements only; proofs in C15/ProofsRepaired.v, C15/ProofsExt.v).

    (1) the repaired Gaussian recurrence (C15/ModelRepaired.v = design-notes/fixes/C15_F12.diff, NOT the code as
        committed: the main model C15/Model.v keeps finding F12 and Properties.gnb_smoothing_refuted) satisfies
        `gnb_history_eq_batch` for every var_smoothing >= 0, without the equal-epsilon hypothesis;
    (2) the FTRL weight denominator: positive exactly outside beta = 0, l2 = 0, n = 0; the zero-weight clause
        holds outside that corner over the reals and its (<=) half in every arithmetic; inside the corner the
        binary64 model (tied to the code bit for bit, corner stream of the harness) leaves the finite floats
        (finding F-C15-1). *)
From Coq Require Import List NArith Reals Floats SpecFloat.
From LinfaVerif Require Import Common.Num Common.NdSum Common.B32 C09.Model C15.Model C15.ModelRepaired C15.Spec
  C15.ProofsT2 C15.ProofsRepaired C15.ProofsExt.
Import ListNotations.
Local Open Scope R_scope.

(** ** repaired Gaussian naive Bayes *)

(** a first fit is, in every arithmetic, exactly the `fit` of the current code *)
Theorem gnb_repaired_single_fit_unchanged : forall F (o : NumOps F) fma vs d (X : list (list F)) y,
  gnb_fit_with_repaired o fma vs d [] X y = gnb_fit o fma vs d X y.
Proof. intros F o fma vs d X y. exact (repaired_first d o fma vs X y). Qed.

(** after ANY history of well-formed batches and for EVERY var_smoothing >= 0 every class holds the textbook
    estimates of the whole data, the variances smoothed by the epsilon of the whole data ... *)
Theorem gnb_repaired_history_is_textbook : forall vs d (bs : list (list (list R) * list N)),
  0 <= vs -> Forall wf_batch bs ->
  forall c, look c (gnb_history_repaired R_ops Rfma vs d bs) =
            g_textbook (gnb_epsilon R_ops Rfma vs d (all_X bs)) d (all_X bs) (all_y bs) c.
Proof. intros vs d bs. exact (gnb_repaired_textbook d vs bs). Qed.

(** ... hence every way of cutting a dataset into ordered non-empty batches gives the model of the single fit *)
Theorem gnb_repaired_history_eq_batch : forall vs d (bs : list (list (list R) * list N)),
  0 <= vs -> Forall wf_batch bs ->
  forall c, look c (gnb_history_repaired R_ops Rfma vs d bs) =
            look c (gnb_fit R_ops Rfma vs d (all_X bs) (all_y bs)).
Proof. intros vs d bs. exact (gnb_repaired_eq_batch d vs bs). Qed.

(** ** FTRL weight denominator *)

(** |z| <= l1 (as the code tests it) gives a weight that is exactly zero in every arithmetic *)
Theorem ftrl_zero_weight_every_arithmetic : forall F (o : NumOps F) (p : @fparams F) z n,
  leb o (mul o z (sgn o z)) (f_l1 p) = true -> prox o p z n = zero o.
Proof. exact @prox_zero_any. Qed.

(** for guarded hyper-parameters the denominator (sqrt n + beta)/alpha + l2 is positive exactly outside the
    corner beta = 0, l2 = 0, n = 0 ... *)
Theorem ftrl_denominator_positive_iff : forall (p : @fparams R) n, ftrl_guard p -> 0 <= n ->
  (0 < ftrl_den p n <-> ~ (f_beta p = 0 /\ f_l2 p = 0 /\ n = 0)).
Proof. exact ftrl_den_pos_iff. Qed.

(** ... which the guard admits *)
Theorem ftrl_guard_admits_zero_denominator : exists p : @fparams R, ftrl_guard p /\ ftrl_den p 0 = 0.
Proof. exists corner_p. exact corner_guard. Qed.

(** outside the corner a weight is exactly zero iff |z| does not exceed the l1 strength *)
Theorem ftrl_weight_zero_iff_outside_known : forall (p : @fparams R) z n, ftrl_guard p -> 0 <= n ->
  ~ (f_beta p = 0 /\ f_l2 p = 0 /\ n = 0) ->
  (prox R_ops p z n = 0 <-> Rabs z <= f_l1 p).
Proof. exact ftrl_zero_iff_outside_corner. Qed.

(** inside it the binary64 model gives an infinite weight and a non-finite state after one update *)
Theorem ftrl_finite_state_refuted :
  exists (p : @fparams float) (z n g : float),
    f_beta p = 0%float /\ f_l2 p = 0%float /\ n = 0%float /\
    ftrl_weights B64_ops p [z] [n] = [neg_infinity] /\
    ftrl_apply B64_ops p ([z], [n]) [g] = ([infinity], [0.25%float]).
Proof.
  exists corner64, 0x1.3333333333333p-1%float, 0%float, 0.5%float.
  split; [reflexivity|split; [reflexivity|split; [reflexivity|split; [exact corner64_weight|exact corner64_state]]]].
Qed.

(** ** memory layouts *)

(** the FTRL gradient over the reals is  g_j = sum_i (p_i - y_i) x_ij  whichever dot kernel the layout of the
    record matrix selects (contiguous columns: 8-lane unrolled; otherwise sequential): the update is a function
    of the logical batch alone *)
Theorem ftrl_gradient_layout_independent : forall contig d (X : list (list R)) (y : list bool) (ps : list R),
  ftrl_gradient_lay R_ops contig d X y ps = ftrl_gradient R_ops d X y ps.
Proof. intros. rewrite ftrl_gradient_lay_R, ftrl_gradient_R. reflexivity. Qed.

(** in every arithmetic the layout-aware models specialise to the standard-layout ones *)
Theorem layout_models_extend_standard : forall F (o : NumOps F),
  (forall d (X : list (list F)) y ps,
     ftrl_gradient o d X y ps = ftrl_gradient_lay o (orb (Nat.eqb d 1) (Nat.leb (length X) 1)) d X y ps) /\
  (forall m tol st (X : list (list F)), km_fit_with_lay o false m tol st X = km_fit_with o m tol st X).
Proof. intros F o. split; intros; reflexivity. Qed.
