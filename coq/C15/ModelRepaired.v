(** C15 - model variant of the repair proposed for finding F12 (design-notes/fixes/C15_F12.diff).  The main
    model (C15/Model.v gnb_fit_with) is the code as it is; this file transliterates the repaired
    `GaussianNbValidParams::fit_with`:

      epsilon_batch = var_smoothing * max_j Var(X_batch)_j                  (as before; also the error path)
      model_in = Some(m):  epsilon_old = var_smoothing / (1 + var_smoothing) * max_pooled_variance(m)
                           every sigma -= epsilon_old
      per class update_mean_variance                                          (unchanged)
      epsilon = first fit ? epsilon_batch : var_smoothing * max_pooled_variance(updated model)
      every sigma += epsilon;  priors                                         (unchanged)

    `max_pooled_variance` pools the class means and variances of each feature over the classes in sorted
    order (law of total variance) and takes the largest.  A single `fit` is bit for bit what it was. *)
From Coq Require Import List NArith Bool.
From LinfaVerif Require Import Common.Num Common.NdSum C09.Model C15.Model.
Import ListNotations.

Section Repaired.
Context {F : Type} (o : NumOps F).
Variable fma : F -> F -> F -> F.
Notation "a + b" := (add o a b).
Notation "a - b" := (sub o a b).
Notation "a * b" := (mul o a b).
Notation "a / b" := (div o a b).

Definition g_total_count (st : @gstate F) : N := fold_left (fun s ci => (s + g_count (snd ci))%N) st 0%N.

(* one feature: weighted mean of the class means, then pooled sum of squared deviations / total *)
Definition pooled_var_j (st : @gstate F) (tot : F) (j : nat) : F :=
  let wsum := fold_left (fun s ci => s + nth j (g_theta (snd ci)) (zero o) * of_N o (g_count (snd ci))) st (zero o) in
  let mean := wsum / tot in
  let ssd := fold_left (fun s ci =>
                          let delta := nth j (g_theta (snd ci)) (zero o) - mean in
                          s + (nth j (g_sigma (snd ci)) (zero o) + delta * delta) * of_N o (g_count (snd ci)))
                       st (zero o) in
  ssd / tot.

(* `if j == 0 || largest < variance { largest = variance }` from zero = fold_max *)
Definition max_pooled_var (d : nat) (st : @gstate F) : F :=
  fold_max o (map (pooled_var_j st (of_N o (g_total_count st))) (seq 0 d)).

Definition gnb_fit_with_repaired (vs : F) (d : nat) (st : @gstate F) (X : list (list F)) (y : list N) : @gstate F :=
  let eps_batch := gnb_epsilon o fma vs d X in
  let st1 := match st with
             | [] => st
             | _ => let eps_old := vs / (one o + vs) * max_pooled_var d st in g_map_sigma (fun s => s - eps_old) st
             end in
  let st2 := fold_left (g_class_step o fma d X y) (labels y) st1 in
  let eps := match st with [] => eps_batch | _ => vs * max_pooled_var d st2 end in
  g_set_priors o (g_map_sigma (fun s => s + eps) st2).

Definition gnb_history_repaired (vs : F) (d : nat) (bs : list (list (list F) * list N)) : @gstate F :=
  fold_left (fun st b => gnb_fit_with_repaired vs d st (fst b) (snd b)) bs [].

End Repaired.
