(** C15 - the repaired Gaussian recurrence (C15/ModelRepaired.v, design-notes/fixes/C15_F12.diff): after ANY
    history of well-formed batches and for EVERY var_smoothing >= 0 the state holds the textbook estimates
    smoothed with the epsilon of the whole data, i.e. it is the single fit.  The new ingredient is the law of
    total variance over the partition of the data by class. *)
From Coq Require Import List NArith Reals Lra Lia Arith Sorting.Sorted Bool.
From LinfaVerif Require Import Common.Num Common.NdSum C09.Model C15.Model C15.ModelRepaired C15.Spec
  C15.ProofsStat C15.ProofsAssoc C15.ProofsHist C15.Proofs.
Import ListNotations.
Local Open Scope R_scope.

(** * sums over a partition by class *)
Lemma fold_left_Rplus_map {A} (f : A -> R) (l : list A) (a : R) :
  fold_left (fun s x => s + f x) l a = a + Rsum (map f l).
Proof. revert a. induction l as [|x l IH]; intros a; cbn [fold_left map Rsum fold_right]; [lra|]. rewrite IH. fold (Rsum (map f l)). lra. Qed.

Lemma Rsum_indicator (K : list N) (a : N) (v : R) : NoDup K -> In a K ->
  Rsum (map (fun c => if N.eqb a c then v else 0) K) = v.
Proof.
  induction K as [|k K IH]; intros Hn Hin; [destruct Hin|].
  inversion Hn as [|? ? Hk Hn']; subst. cbn [map Rsum fold_right].
  fold (Rsum (map (fun c => if N.eqb a c then v else 0) K)).
  destruct Hin as [->|Hin].
  - rewrite N.eqb_refl.
    assert (E : Rsum (map (fun c => if N.eqb a c then v else 0) K) = 0).
    { clear IH Hn Hn'. induction K as [|k K IH]; [reflexivity|]. cbn [map Rsum fold_right].
      fold (Rsum (map (fun c => if N.eqb a c then v else 0) K)).
      destruct (N.eqb a k) eqn:E; [apply N.eqb_eq in E; subst; exfalso; apply Hk; left; reflexivity|].
      rewrite IH; [lra|]. intros H. apply Hk. right. exact H. }
    rewrite E. lra.
  - destruct (N.eqb a k) eqn:E; [apply N.eqb_eq in E; subst; contradiction|].
    rewrite IH by assumption. lra.
Qed.

Lemma Rsum_map_plus {A} (f g : A -> R) (l : list A) :
  Rsum (map (fun c => f c + g c) l) = Rsum (map f l) + Rsum (map g l).
Proof.
  induction l as [|k l IH]; cbn [map Rsum fold_right]; [lra|].
  fold (Rsum (map (fun c => f c + g c) l)). fold (Rsum (map f l)). fold (Rsum (map g l)). rewrite IH. lra.
Qed.

(** every row belongs to exactly one class: a row-wise sum is the sum of the per-class sums *)
Lemma partition_Rsum (g : list R -> R) (K : list N) (X : list (list R)) (y : list N) :
  NoDup K -> length X = length y -> (forall c, In c y -> In c K) ->
  Rsum (map (fun c => Rsum (map g (rows_of c X y))) K) = Rsum (map g X).
Proof.
  intros Hn. revert y. induction X as [|x X IH]; intros [|a y] Hl Hin; try discriminate.
  - unfold rows_of. cbn. clear. induction K as [|k K IHK]; [reflexivity|]. cbn [map Rsum fold_right].
    fold (Rsum (map (fun _ : N => 0) K)). cbn in IHK. rewrite IHK. lra.
  - assert (E : forall c, Rsum (map g (rows_of c (x :: X) (a :: y))) =
                        (if N.eqb a c then g x else 0) + Rsum (map g (rows_of c X y))).
    { intros c. unfold rows_of. cbn [combine filter snd]. unfold Rsum. destruct (N.eqb a c); cbn [map fst fold_right]; lra. }
    rewrite (map_ext _ _ E), Rsum_map_plus.
    rewrite Rsum_indicator; [|exact Hn|apply Hin; left; reflexivity].
    rewrite IH; [reflexivity|simpl in Hl; lia|]. intros c Hc. apply Hin. right. exact Hc.
Qed.

Lemma Rsum_const_e (h : R -> R) (e : R) (l : list R) :
  Rsum (map (fun x => h x + e) l) = Rsum (map h l) + INR (length l) * e.
Proof.
  induction l as [|x l IH]; [simpl; lra|]. cbn [map Rsum fold_right length].
  fold (Rsum (map (fun x => h x + e) l)). fold (Rsum (map h l)). rewrite IH, S_INR. lra.
Qed.

(** the per-class term of the pooled sum of squared deviations is a row-wise sum *)
Lemma class_term (l : list R) (m e : R) : l <> [] ->
  (rpvar l + e + (rmean l - m) * (rmean l - m)) * INR (length l) =
  Rsum (map (fun x => (x - m) * (x - m) + e) l).
Proof.
  intros H. rewrite (Rsum_const_e (fun x => (x - m) * (x - m))), sumsq_dev, (rpvar_alt _ H). unfold rmean.
  pose proof (INR_len_pos l H). field. lra.
Qed.

Lemma total_term (l : list R) (e : R) : l <> [] ->
  Rsum (map (fun x => (x - rmean l) * (x - rmean l) + e) l) / INR (length l) = rpvar l + e.
Proof.
  intros H. rewrite (Rsum_const_e (fun x => (x - rmean l) * (x - rmean l))). unfold rpvar.
  pose proof (INR_len_pos l H). field. lra.
Qed.

Lemma nth_map_seq {T} (f : nat -> T) (d j : nat) (dflt : T) : (j < d)%nat -> nth j (map f (seq 0 d)) dflt = f j.
Proof.
  intros H. rewrite (nth_indep _ dflt (f 0%nat)) by (rewrite map_length, seq_length; exact H).
  rewrite map_nth, seq_nth by exact H. reflexivity.
Qed.

(** * fold_max *)
Lemma fold_max_step_shift (f : nat -> R) (e : R) (t : list nat) : forall v,
  fold_left (fun acc x => if Rltb acc x then x else acc) (map (fun j => f j + e) t) (v + e) =
  fold_left (fun acc x => if Rltb acc x then x else acc) (map f t) v + e.
Proof.
  induction t as [|j t IH]; intros v; cbn [map fold_left]; [reflexivity|].
  destruct (Rltb (v + e) (f j + e)) eqn:E1; destruct (Rltb v (f j)) eqn:E2;
    try apply Rltb_true in E1; try apply Rltb_false in E1; try apply Rltb_true in E2; try apply Rltb_false in E2;
    try lra; apply IH.
Qed.
Lemma fold_max_shift (f : nat -> R) (e : R) (js : list nat) : (js = [] -> e = 0) ->
  fold_max R_ops (map (fun j => f j + e) js) = fold_max R_ops (map f js) + e.
Proof.
  intros H. destruct js as [|j t]; cbn [map fold_max].
  - cbn [zero R_ops]. rewrite (H eq_refl). lra.
  - cbn [ltb R_ops]. apply fold_max_step_shift.
Qed.

Section Repaired.
Variable d : nat.

Definition eps_of (vs : R) (X : list (list R)) : R := gnb_epsilon R_ops Rfma vs d X.
Definition maxvar (X : list (list R)) : R := fold_max R_ops (map (fun j => rpvar (col R_ops j X)) (seq 0 d)).

Lemma eps_of_R vs X : eps_of vs X = vs * maxvar X.
Proof.
  unfold eps_of, gnb_epsilon, maxvar. cbn [mul R_ops]. f_equal. f_equal. rewrite cols_map. apply map_ext.
  intros j. apply var0_R.
Qed.
Lemma maxvar_d0 X : d = 0%nat -> maxvar X = 0.
Proof. intros E. unfold maxvar. rewrite E. reflexivity. Qed.

(** ** the pooled variance of a state that holds the textbook statistics smoothed by [e] *)
Definition core_inv (e : R) (st : @gstate R) (X : list (list R)) (y : list N) : Prop :=
  StronglySorted N.lt (map fst st) /\
  (forall c, option_map g_core (look c st) = g_core_rows d e (rows_of c X y)) /\
  length X = length y.

Lemma core_in e st X y c i : core_inv e st X y -> In (c, i) st ->
  let rows := rows_of c X y in
  rows <> [] /\ g_count i = N.of_nat (length rows) /\
  g_theta i = map rmean (cols R_ops d rows) /\ g_sigma i = map (fun v => rpvar v + e) (cols R_ops d rows).
Proof.
  intros [Hs [Hc HX]] Hin. cbv zeta. pose proof (sorted_nodup _ Hs) as Hn.
  specialize (Hc c). rewrite (in_look c i st Hn Hin) in Hc. cbn [option_map] in Hc.
  destruct (rows_of c X y) as [|r rows] eqn:E; [discriminate|].
  cbn [g_core_rows] in Hc. unfold g_core in Hc. inversion Hc as [[H1 H2 H3]]. repeat split; congruence.
Qed.

Lemma core_keys e st X y : core_inv e st X y -> forall c, In c y -> In c (map fst st).
Proof.
  intros [Hs [Hc HX]] c Hin. destruct (in_dec N.eq_dec c (map fst st)) as [i|n]; [exact i|]. exfalso.
  apply look_none_keys in n. specialize (Hc c). rewrite n in Hc. cbn [option_map] in Hc.
  pose proof (rows_of_in_nonempty c X y HX Hin) as Hne. destruct (rows_of c X y); [congruence|discriminate].
Qed.

Lemma core_total e st X y : core_inv e st X y -> g_total_count st = N.of_nat (length X).
Proof. intros [Hs [Hc HX]]. unfold g_total_count. apply (g_total d e st X y Hs Hc HX). Qed.

Lemma core_nonempty e st X y : core_inv e st X y -> X <> [] -> st <> [].
Proof.
  intros H HX. destruct X as [|x X]; [congruence|]. destruct H as [Hs [Hc Hl]].
  destruct y as [|a y]; [discriminate|]. specialize (Hc a). intros ->. cbn [look option_map] in Hc.
  unfold rows_of in Hc. cbn [combine filter snd] in Hc. rewrite N.eqb_refl in Hc. discriminate.
Qed.

Lemma col_as_map j (rows : list (list R)) : col R_ops j rows = map (fun r => nth j r 0) rows.
Proof. reflexivity. Qed.

Lemma pooled_var_total e st X y j : core_inv e st X y -> X <> [] -> (j < d)%nat ->
  pooled_var_j R_ops st (INR (length X)) j = rpvar (col R_ops j X) + e.
Proof.
  intros H HX Hj. pose proof H as [Hs [Hc Hl]]. pose proof (sorted_nodup _ Hs) as Hn.
  unfold pooled_var_j. cbn [add sub mul div zero R_ops].
  (* the weighted sum of the class means is the column sum *)
  assert (E1 : fold_left (fun s ci => s + nth j (g_theta (snd ci)) 0 * of_N R_ops (g_count (snd ci))) st 0
               = Rsum (col R_ops j X)).
  { rewrite fold_left_Rplus_map, Rplus_0_l.
    rewrite (map_ext_in _ (fun ci => Rsum (map (fun r => nth j r 0) (rows_of (fst ci) X y)))).
    - rewrite <- (map_map fst (fun c => Rsum (map (fun r => nth j r 0) (rows_of c X y)))).
      rewrite (partition_Rsum (fun r => nth j r 0) (map fst st) X y Hn Hl (core_keys e st X y H)). reflexivity.
    - intros [c i] Hin. cbn [fst snd]. destruct (core_in e st X y c i H Hin) as [Hr [H1 [H2 _]]].
      rewrite H1, H2, of_N_nat, cols_map, (nth_map_seq _ d j 0 Hj), <- col_as_map. unfold rmean.
      rewrite col_length. pose proof (INR_len_pos _ Hr). field. lra. }
  rewrite E1.
  assert (Em : Rsum (col R_ops j X) / INR (length X) = rmean (col R_ops j X)).
  { unfold rmean. rewrite col_length. reflexivity. }
  rewrite Em. set (m := rmean (col R_ops j X)).
  assert (E2 : fold_left (fun s ci => s + (nth j (g_sigma (snd ci)) 0
                                            + (nth j (g_theta (snd ci)) 0 - m) * (nth j (g_theta (snd ci)) 0 - m))
                                           * of_N R_ops (g_count (snd ci))) st 0
               = Rsum (map (fun x => (x - m) * (x - m) + e) (col R_ops j X))).
  { rewrite fold_left_Rplus_map, Rplus_0_l.
    rewrite (map_ext_in _ (fun ci => Rsum (map (fun r => (nth j r 0 - m) * (nth j r 0 - m) + e) (rows_of (fst ci) X y)))).
    - rewrite <- (map_map fst (fun c => Rsum (map (fun r => (nth j r 0 - m) * (nth j r 0 - m) + e) (rows_of c X y)))).
      rewrite (partition_Rsum (fun r => (nth j r 0 - m) * (nth j r 0 - m) + e) (map fst st) X y Hn Hl
                 (core_keys e st X y H)).
      rewrite col_as_map, map_map. reflexivity.
    - intros [c i] Hin. cbn [fst snd]. destruct (core_in e st X y c i H Hin) as [Hr [H1 [H2 H3]]].
      rewrite H1, H2, H3, of_N_nat, !cols_map, (nth_map_seq _ d j 0 Hj), (nth_map_seq _ d j 0 Hj).
      rewrite <- (col_length j (rows_of c X y)).
      rewrite (class_term _ m e (col_nonempty j _ Hr)). rewrite col_as_map, map_map. reflexivity. }
  rewrite E2. unfold m. rewrite <- (col_length j X). apply total_term. apply col_nonempty. exact HX.
Qed.

Lemma max_pooled_total e st X y : core_inv e st X y -> X <> [] -> (d = 0%nat -> e = 0) ->
  max_pooled_var R_ops d st = maxvar X + e.
Proof.
  intros H HX Hd. unfold max_pooled_var, maxvar. rewrite (core_total e st X y H), of_N_nat.
  rewrite (map_ext_in _ (fun j => rpvar (col R_ops j X) + e)).
  - apply fold_max_shift. intros E. apply Hd. destruct d; [reflexivity|discriminate].
  - intros j Hin. apply in_seq in Hin. apply (pooled_var_total e st X y j H HX). lia.
Qed.

(** ** the state between the two epsilon adjustments *)
Definition g_mid (e1 : R) (st : @gstate R) (Xb : list (list R)) (yb : list N) : @gstate R :=
  fold_left (g_class_step R_ops Rfma d Xb yb) (labels yb) (g_map_sigma (fun s => s - e1) st).

Lemma g_pre_mid e st Xb yb : g_pre d e st Xb yb = g_map_sigma (fun s => s + e) (g_mid e st Xb yb).
Proof. reflexivity. Qed.

Lemma g_mid_sorted e st Xb yb :
  StronglySorted N.lt (map fst st) -> StronglySorted N.lt (map fst (g_mid e st Xb yb)).
Proof.
  intros Hs. pose proof (g_pre_sorted d e st Xb yb Hs) as H. rewrite g_pre_mid in H.
  unfold g_map_sigma in H. rewrite (keys_map (Fp e)) in H. exact H.
Qed.

Lemma map_shift_inj (f : list R -> R) (e : R) (l : list (list R)) : forall a,
  map (fun s => s + e) a = map (fun v => f v + e) l -> a = map (fun v => f v + 0) l.
Proof.
  induction l as [|v l IH]; intros [|s a] H; cbn [map] in *; try discriminate; [reflexivity|].
  injection H as H1 H2. f_equal; [lra|apply IH; exact H2].
Qed.

Lemma g_mid_core e st X y Xb yb : core_inv e st X y -> length Xb = length yb ->
  core_inv 0 (g_mid e st Xb yb) (X ++ Xb) (y ++ yb).
Proof.
  intros [Hs [Hc HX]] HXb. split; [apply g_mid_sorted; exact Hs|split].
  - intros c. pose proof (g_pre_core d e st X y Xb yb Hc HX HXb c) as H. rewrite g_pre_mid in H.
    unfold g_map_sigma in H. rewrite (look_map (Fp e)) in H.
    destruct (look c (g_mid e st Xb yb)) as [i|]; cbn [option_map] in *.
    + destruct (rows_of c (X ++ Xb) (y ++ yb)) as [|r rows]; [discriminate|].
      cbn [g_core_rows] in *. unfold g_core, Fp in *. cbn [g_count g_theta g_sigma] in H.
      inversion H as [[H1 H2 H3]]. rewrite (map_shift_inj rpvar e _ _ H3), H1. reflexivity.
    + destruct (rows_of c (X ++ Xb) (y ++ yb)); [reflexivity|discriminate].
  - rewrite !app_length. lia.
Qed.

Lemma g_inv_core e st X y : g_inv d e st X y -> core_inv e st X y.
Proof.
  intros [Hs [Hl HX]]. split; [exact Hs|split; [|exact HX]]. intros c. rewrite Hl. apply g_textbook_core.
Qed.

Lemma g_add_eps_inv e' st X y : core_inv 0 st X y ->
  g_inv d e' (g_set_priors R_ops (g_map_sigma (fun s => s + e') st)) X y.
Proof.
  intros [Hs [Hc HX]].
  assert (Hs' : StronglySorted N.lt (map fst (g_map_sigma (fun s => s + e') st))).
  { unfold g_map_sigma. rewrite (keys_map (Fp e')). exact Hs. }
  split; [rewrite g_set_priors_keys; exact Hs'|split; [|exact HX]].
  apply (g_set_priors_look d e'); [exact Hs'| |exact HX].
  intros c. unfold g_map_sigma. rewrite (look_map (Fp e')). specialize (Hc c).
  destruct (look c st) as [i|]; cbn [option_map] in *.
  - destruct (rows_of c X y) as [|r rows]; [discriminate|]. cbn [g_core_rows] in *.
    unfold g_core, Fp in *. cbn [g_count g_theta g_sigma]. inversion Hc as [[H1 H2 H3]].
    rewrite H3, H1, map_map. f_equal. f_equal. apply map_ext. intros v. lra.
  - destruct (rows_of c X y); [reflexivity|discriminate].
Qed.

(** ** one repaired update *)
Lemma repaired_first {F} (o : NumOps F) fma vs (Xb : list (list F)) yb :
  gnb_fit_with_repaired o fma vs d [] Xb yb = gnb_fit o fma vs d Xb yb.
Proof. reflexivity. Qed.

Lemma repaired_unfold vs (st : @gstate R) Xb yb : st <> [] ->
  gnb_fit_with_repaired R_ops Rfma vs d st Xb yb =
    let mid := g_mid (vs / (1 + vs) * max_pooled_var R_ops d st) st Xb yb in
    g_set_priors R_ops (g_map_sigma (fun s => s + vs * max_pooled_var R_ops d mid) mid).
Proof. intros H. destruct st as [|p st]; [congruence|reflexivity]. Qed.

Lemma repaired_step vs st X y Xb yb : 1 + vs <> 0 -> X <> [] ->
  g_inv d (eps_of vs X) st X y -> length Xb = length yb ->
  g_inv d (eps_of vs (X ++ Xb)) (gnb_fit_with_repaired R_ops Rfma vs d st Xb yb) (X ++ Xb) (y ++ yb).
Proof.
  intros Hvs HX Hi HXb. pose proof (g_inv_core _ _ _ _ Hi) as Hc.
  rewrite (repaired_unfold vs st Xb yb (core_nonempty _ _ _ _ Hc HX)). cbv zeta.
  assert (Hd : d = 0%nat -> eps_of vs X = 0).
  { intros E. rewrite eps_of_R, (maxvar_d0 X E). lra. }
  rewrite (max_pooled_total _ st X y Hc HX Hd).
  assert (E : vs / (1 + vs) * (maxvar X + eps_of vs X) = eps_of vs X).
  { rewrite eps_of_R. field. exact Hvs. }
  rewrite E.
  pose proof (g_mid_core _ st X y Xb yb Hc HXb) as Hm.
  assert (HXX : X ++ Xb <> []) by (destruct X; [congruence|cbn; congruence]).
  rewrite (max_pooled_total 0 _ (X ++ Xb) (y ++ yb) Hm HXX (fun _ => eq_refl)).
  replace (vs * (maxvar (X ++ Xb) + 0)) with (eps_of vs (X ++ Xb)) by (rewrite eps_of_R; lra).
  apply g_add_eps_inv. exact Hm.
Qed.

(** ** histories *)
Definition rep_inv (vs : R) (st : @gstate R) (X : list (list R)) (y : list N) : Prop :=
  (X = [] /\ y = [] /\ st = []) \/ (X <> [] /\ g_inv d (eps_of vs X) st X y).

Lemma rep_fit_with_inv vs st X y Xb yb : 1 + vs <> 0 -> rep_inv vs st X y -> wf_batch (Xb, yb) ->
  rep_inv vs (gnb_fit_with_repaired R_ops Rfma vs d st Xb yb) (X ++ Xb) (y ++ yb).
Proof.
  intros Hvs [[-> [-> ->]]|[HX Hi]] [Hl Hne]; cbn [fst snd] in *; right.
  - cbn [app]. split; [exact Hne|]. rewrite repaired_first.
    apply (g_fit_with_inv d (eps_of vs Xb) vs [] [] [] Xb yb (g_inv_nil d _) Hl eq_refl).
  - split; [destruct X; [congruence|cbn; congruence]|]. apply repaired_step; assumption.
Qed.

Lemma rep_history_inv vs (bs : list (list (list R) * list N)) : 1 + vs <> 0 -> forall st X y,
  rep_inv vs st X y -> Forall wf_batch bs ->
  rep_inv vs (fold_left (fun st b => gnb_fit_with_repaired R_ops Rfma vs d st (fst b) (snd b)) bs st)
          (X ++ all_X bs) (y ++ all_y bs).
Proof.
  intros Hvs. induction bs as [|b bs IH]; intros st X y Hi Hf; cbn [fold_left].
  - unfold all_X, all_y. cbn. rewrite !app_nil_r. exact Hi.
  - inversion Hf as [|? ? Hw Hf']; subst.
    unfold all_X, all_y. cbn [map concat]. rewrite !app_assoc.
    apply IH; [|exact Hf']. apply rep_fit_with_inv; [exact Hvs|exact Hi|]. destruct b; exact Hw.
Qed.

Theorem gnb_repaired_textbook vs (bs : list (list (list R) * list N)) : 0 <= vs -> Forall wf_batch bs ->
  forall c, look c (gnb_history_repaired R_ops Rfma vs d bs) =
            g_textbook (gnb_epsilon R_ops Rfma vs d (all_X bs)) d (all_X bs) (all_y bs) c.
Proof.
  intros Hvs Hf c. unfold gnb_history_repaired.
  assert (H0 : rep_inv vs [] [] []) by (left; auto).
  assert (Hv : 1 + vs <> 0) by lra.
  destruct (rep_history_inv vs bs Hv [] [] [] H0 Hf) as [[E1 [E2 E3]]|[_ [_ [H _]]]]; cbn [app] in *.
  - rewrite E1, E2, E3. reflexivity.
  - apply H.
Qed.
End Repaired.

(** the repaired history is the single fit of the unchanged `fit` on the concatenated data *)
Lemma gnb_repaired_eq_batch d vs (bs : list (list (list R) * list N)) : 0 <= vs -> Forall wf_batch bs ->
  forall c, look c (gnb_history_repaired R_ops Rfma vs d bs) =
            look c (gnb_fit R_ops Rfma vs d (all_X bs) (all_y bs)).
Proof.
  intros Hvs Hw c. destruct bs as [|b0 bs0] eqn:Eb; [reflexivity|]. rewrite <- Eb in *.
  assert (Hne : bs <> []) by (rewrite Eb; congruence).
  rewrite (gnb_repaired_textbook d vs bs Hvs Hw c).
  rewrite gnb_fit_as_history.
  rewrite (gnb_history_textbook_eps d (gnb_epsilon R_ops Rfma vs d (all_X bs)) vs [(all_X bs, all_y bs)]).
  - rewrite all_X_single, all_y_single. reflexivity.
  - constructor; [|constructor]. split; [split|reflexivity]; cbn [fst snd].
    + apply all_len. exact Hw.
    + apply all_X_nonempty; assumption.
Qed.

(** non-vacuity: the two batches that refute the equivalence for the current code (Proofs.f12_*: history
    sigma 21/4, single fit 11/2) give the single-fit variance under the repaired recurrence *)
Example ex_repaired_f12 :
  option_map (@g_sigma R) (look 0%N (gnb_history_repaired R_ops Rfma 1 1 [f12_b1; f12_b2])) = Some [11 / 2].
Proof.
  rewrite (gnb_repaired_eq_batch 1 1 [f12_b1; f12_b2] ltac:(lra) f12_wf 0%N). exact f12_batch_sigma.
Qed.
