(** C15 - executable models of the four incremental learners (transliterations of the Rust code):
      linfa-bayes   gaussian_nb.rs   GaussianNbValidParams::fit_with / update_mean_variance / joint_log_likelihood
      linfa-bayes   multinomial_nb.rs MultinomialNbValidParams::fit_with / update_feature_log_prob / joint_log_likelihood
      linfa-bayes   base_nb.rs       NaiveBayes::predict_inplace (classes in sorted order, first maximum), filter
      linfa-clustering k_means/algorithm.rs  KMeansValidParams::fit_with / compute_centroids_incremental
      linfa-ftrl    algorithm.rs     Ftrl::{get_weights, calculate_sigma, update_params, update}, calculate_gradient
    Everything is polymorphic in [NumOps F]; the two operations NumOps does not have enter as section
    variables: [fma] (ndarray's var_axis uses `mul_add`) and [ln] (natural logarithm), and the constant
    [twopi] (`F::cast(2. * PI)`).  R instance: theorems; binary64 instance: run against the Rust code.

    ndarray facts used (ndarray 0.15.6, read from the sources):
      var_axis(Axis(0), 0)   Welford per column over the rows in order, `(x - mean).mul_add(delta, sum_sq)`, / n
      mean_axis(Axis(0))     `res = res + row` from zeros (row-major data: axis 0 is not the min-stride axis), / n
      sum_axis(Axis(0))      the same sequential column sums;  sum_axis(Axis(1)) = `.sum()` of every row
      .sum() on a 1-d array  unrolled_fold (Common/NdSum.usum)
      A2.dot(v1)             per row `row.dot(v)`: unrolled_dot when both are contiguous, else a sequential loop
      v1.dot(A2)             = A2.t().dot(v1): the "rows" are the columns of A2 (contiguous only if A2 has one
                             column or one row)
      QuantileExt::max       fold from the first element, replaced when an element compares Greater
      QuantileExt::argmax    first maximum; an error (-> `unwrap` panic in predict) when a NaN is met *)
From Coq Require Import List NArith Bool.
From LinfaVerif Require Import Common.Num Common.NdSum C09.Model.
Import ListNotations.

(** * association lists keyed by the class label, kept sorted (the Rust code keeps a HashMap; the only
      places where an enumeration order is observable are sorted explicitly by the Rust code) *)
Fixpoint ins {A} (c : N) (v : A) (l : list (N * A)) : list (N * A) :=
  match l with
  | [] => [(c, v)]
  | (k, w) :: t =>
      if N.ltb c k then (c, v) :: l
      else if N.eqb c k then (c, v) :: t
      else (k, w) :: ins c v t
  end.
Fixpoint look {A} (c : N) (l : list (N * A)) : option A :=
  match l with
  | [] => None
  | (k, w) :: t => if N.eqb c k then Some w else look c t
  end.
(** `dataset.labels()`: the distinct labels of the batch *)
Definition labels (y : list N) : list N := map fst (fold_left (fun l c => ins c tt l) y []).

Section Models.
Context {F : Type} (o : NumOps F).
Variable fma : F -> F -> F -> F.      (* fma a b c = a * b + c, rounded once *)
Variable ln : F -> F.
Variable twopi : F.
Notation "a + b" := (add o a b).
Notation "a - b" := (sub o a b).
Notation "a * b" := (mul o a b).
Notation "a / b" := (div o a b).
Notation row := (list F).

Definition nN (n : nat) : F := of_N o (N.of_nat n).
Definition half : F := one o / (one o + one o).

Definition col (j : nat) (X : list row) : list F := map (fun r => nth j r (zero o)) X.
Definition cols (d : nat) (X : list row) : list (list F) := map (fun j => col j X) (seq 0 d).
(** base_nb.rs `filter`: the rows whose label is [c], in order *)
Definition rows_of (c : N) (X : list row) (y : list N) : list row :=
  map fst (filter (fun p => N.eqb (snd p) c) (combine X y)).

Definition map2 {A B C} (f : A -> B -> C) (a : list A) (b : list B) : list C :=
  map (fun p => f (fst p) (snd p)) (combine a b).

(** ** ndarray reductions *)
Fixpoint welford (xs : list F) (i : N) (mean ssq : F) : F * F :=
  match xs with
  | [] => (mean, ssq)
  | x :: t =>
      let delta := x - mean in
      let mean' := mean + delta / of_N o i in
      welford t (N.succ i) mean' (fma (x - mean') delta ssq)
  end.
Definition var0 (xs : list F) : F := snd (welford xs 1%N (zero o) (zero o)) / nN (length xs).
Definition mean0 (xs : list F) : F := seq_sum o xs / nN (length xs).
Definition fold_max (xs : list F) : F :=
  match xs with
  | [] => zero o                    (* Rust: Err(EmptyInput) - zero columns are excluded *)
  | v :: t => fold_left (fun acc e => if ltb o acc e then e else acc) t v
  end.

(* unrolled_dot *)
Fixpoint dchunks8 (xs ys : list F) (p : list F) {struct xs} : list F * (list F * list F) :=
  match xs, ys with
  | x0 :: x1 :: x2 :: x3 :: x4 :: x5 :: x6 :: x7 :: xt, y0 :: y1 :: y2 :: y3 :: y4 :: y5 :: y6 :: y7 :: yt =>
      dchunks8 xt yt (map2 (fun q xy => q + xy) p
                          [x0 * y0; x1 * y1; x2 * y2; x3 * y3; x4 * y4; x5 * y5; x6 * y6; x7 * y7])
  | _, _ => (p, (xs, ys))
  end.
Definition udot (xs ys : list F) : F :=
  let z := zero o in
  let '(p, (rx, ry)) := dchunks8 xs ys [z; z; z; z; z; z; z; z] in
  match p with
  | [p0; p1; p2; p3; p4; p5; p6; p7] =>
      let acc := z + (p0 + p4) in
      let acc := acc + (p1 + p5) in
      let acc := acc + (p2 + p6) in
      let acc := acc + (p3 + p7) in
      fold_left (fun s xy => s + fst xy * snd xy) (combine rx ry) acc
  | _ => z
  end.
Definition sdot (xs ys : list F) : F := fold_left (fun s xy => s + fst xy * snd xy) (combine xs ys) (zero o).

(** ** Gaussian naive Bayes *)
Record ginfo := { g_count : N; g_prior : F; g_theta : list F; g_sigma : list F }.
Definition gstate := list (N * ginfo).
Definition g_default : ginfo := {| g_count := 0; g_prior := zero o; g_theta := []; g_sigma := [] |}.

(* update_mean_variance *)
Definition update_mv (d : nat) (i : ginfo) (rows : list row) : list F * list F :=
  match rows with
  | [] => (g_theta i, g_sigma i)
  | _ =>
      let cn := N.of_nat (length rows) in
      let mu_new := map mean0 (cols d rows) in
      let var_new := map var0 (cols d rows) in
      if N.eqb (g_count i) 0 then (mu_new, var_new)
      else
        let co := g_count i in
        let tot := of_N o (co + cn)%N in
        let mu_new_w := map (fun m => m * of_N o cn) mu_new in
        let mu_old_w := map (fun m => m * of_N o co) (g_theta i) in
        let mu_w := map (fun s => s / tot) (map2 (fun a b => a + b) mu_new_w mu_old_w) in
        let ssd_old := map (fun v => v * of_N o co) (g_sigma i) in
        let ssd_new := map (fun v => v * of_N o cn) var_new in
        let weight := of_N o (cn * co)%N / tot in
        let dm := map2 (fun a b => a - b) (g_theta i) mu_new in
        let ssd_w := map2 (fun a b => a + b) (map2 (fun a b => a + b) ssd_old ssd_new)
                          (map (fun x => weight * (x * x)) dm) in
        (mu_w, map (fun x => x / tot) ssd_w)
  end.

Definition g_map_sigma (f : F -> F) (st : gstate) : gstate :=
  map (fun ci => (fst ci, {| g_count := g_count (snd ci); g_prior := g_prior (snd ci);
                              g_theta := g_theta (snd ci); g_sigma := map f (g_sigma (snd ci)) |})) st.

Definition g_class_step (d : nat) (X : list row) (y : list N) (st : gstate) (c : N) : gstate :=
  let rows := rows_of c X y in
  let i := match look c st with Some i => i | None => g_default end in
  let '(th, sg) := update_mv d i rows in
  ins c {| g_count := (g_count i + N.of_nat (length rows))%N; g_prior := g_prior i;
           g_theta := th; g_sigma := sg |} st.

Definition g_set_priors (st : gstate) : gstate :=
  let tot := fold_left (fun s ci => (s + g_count (snd ci))%N) st 0%N in
  map (fun ci => (fst ci, {| g_count := g_count (snd ci);
                              g_prior := of_N o (g_count (snd ci)) / of_N o tot;
                              g_theta := g_theta (snd ci); g_sigma := g_sigma (snd ci) |})) st.

Definition gnb_epsilon (vs : F) (d : nat) (X : list row) : F := vs * fold_max (map var0 (cols d X)).

(* fit_with: finding F12 is in the model - the epsilon of the *current* batch is subtracted from a
   sigma that carries the epsilon of the previous one *)
Definition gnb_fit_with (vs : F) (d : nat) (st : gstate) (X : list row) (y : list N) : gstate :=
  let eps := gnb_epsilon vs d X in
  let st1 := g_map_sigma (fun s => s - eps) st in
  let st2 := fold_left (g_class_step d X y) (labels y) st1 in
  let st3 := g_map_sigma (fun s => s + eps) st2 in
  g_set_priors st3.

Definition gnb_fit (vs : F) (d : nat) (X : list row) (y : list N) : gstate := gnb_fit_with vs d [] X y.
Definition gnb_history (vs : F) (d : nat) (bs : list (list row * list N)) : gstate :=
  fold_left (fun st b => gnb_fit_with vs d st (fst b) (snd b)) bs [].

Fixpoint zip3 {A B C} (a : list A) (b : list B) (c : list C) : list (A * B * C) :=
  match a, b, c with
  | x :: a', y :: b', z :: c' => (x, y, z) :: zip3 a' b' c'
  | _, _, _ => []
  end.

Definition gnb_jll (i : ginfo) (q : row) : F :=
  let jointi := ln (g_prior i) in
  let nij := opp o half * usum o (map (fun s => ln (twopi * s)) (g_sigma i)) in
  let s := usum o (map (fun t => let '(x, th, sg) := t in ((x - th) * (x - th)) / sg)
                       (zip3 q (g_theta i) (g_sigma i))) in
  (nij - s * half) + jointi.

(** ** prediction (base_nb.rs): classes in sorted order, `argmax` = first maximum, NaN -> panic (None) *)
Definition isnan (v : F) : bool := negb (eqb o v v).
Fixpoint argmax_go (l : list (N * F)) (best : N) (bv : F) : N :=
  match l with
  | [] => best
  | (c, v) :: t => if ltb o bv v then argmax_go t c v else argmax_go t best bv
  end.
Definition argmax (l : list (N * F)) : option N :=
  match l with
  | [] => None
  | (c, v) :: t => if existsb isnan (map snd l) then None else Some (argmax_go t c v)
  end.
Definition gnb_predict (st : gstate) (q : row) : option N :=
  argmax (map (fun ci => (fst ci, gnb_jll (snd ci) q)) st).

(** ** multinomial naive Bayes *)
Record minfo := { m_count : N; m_prior : F; m_fcount : list F; m_flp : list F }.
Definition mstate := list (N * minfo).
Definition m_default : minfo := {| m_count := 0; m_prior := zero o; m_fcount := []; m_flp := [] |}.

(* update_feature_log_prob: (feature_log_prob, feature_count) *)
Definition update_flp (alpha : F) (d : nat) (i : minfo) (rows : list row) : list F * list F :=
  match rows with
  | [] => (m_flp i, m_fcount i)
  | _ =>
      let fc_new := map (seq_sum o) (cols d rows) in
      let fc := if N.ltb 0 (m_count i) then map2 (fun a b => a + b) (m_fcount i) fc_new else fc_new in
      let sm := map (fun v => v + alpha) fc in
      let cnt := usum o sm in
      (map (fun x => ln x - ln cnt) sm, fc)
  end.

Definition m_class_step (alpha : F) (d : nat) (X : list row) (y : list N) (st : mstate) (c : N) : mstate :=
  let rows := rows_of c X y in
  let i := match look c st with Some i => i | None => m_default end in
  let '(flp, fc) := update_flp alpha d i rows in
  ins c {| m_count := (m_count i + N.of_nat (length rows))%N; m_prior := m_prior i;
           m_fcount := fc; m_flp := flp |} st.

Definition m_set_priors (st : mstate) : mstate :=
  let tot := fold_left (fun s ci => (s + m_count (snd ci))%N) st 0%N in
  map (fun ci => (fst ci, {| m_count := m_count (snd ci);
                              m_prior := of_N o (m_count (snd ci)) / of_N o tot;
                              m_fcount := m_fcount (snd ci); m_flp := m_flp (snd ci) |})) st.

Definition mnb_fit_with (alpha : F) (d : nat) (st : mstate) (X : list row) (y : list N) : mstate :=
  m_set_priors (fold_left (m_class_step alpha d X y) (labels y) st).
Definition mnb_fit (alpha : F) (d : nat) (X : list row) (y : list N) : mstate := mnb_fit_with alpha d [] X y.
Definition mnb_history (alpha : F) (d : nat) (bs : list (list row * list N)) : mstate :=
  fold_left (fun st b => mnb_fit_with alpha d st (fst b) (snd b)) bs [].

(* x.dot(feature_log_prob) + ln prior; the product with alpha = 1 inside general_mat_vec_mul is exact and omitted *)
Definition mnb_jll (i : minfo) (q : row) : F := udot q (m_flp i) + ln (m_prior i).
Definition mnb_predict (st : mstate) (q : row) : option N :=
  argmax (map (fun ci => (fst ci, mnb_jll (snd ci) q)) st).

(** ** mini-batch k-means (fit_with on an existing model; the first call builds the model from the
       initial centroids with cluster_count = 0, inertia = 0) *)
Record kstate := { k_centroids : list row; k_counts : list F; k_inertia : F }.
Definition k_init (cs : list row) : kstate :=
  {| k_centroids := cs; k_counts := map (fun _ => zero o) cs; k_inertia := zero o |}.

(* one observation of compute_centroids_incremental *)
Definition incr_obs (st : list row * list F) (x : row) (c : nat) : list row * list F :=
  let cnt' := upd (snd st) c (fun v => v + one o) in
  let n := nth c cnt' (zero o) in
  let cen := nth c (fst st) [] in
  let shift := map2 (fun a b => (a - b) / n) x cen in
  (upd (fst st) c (fun ce => vadd o ce shift), cnt').
Definition compute_incr (X : list row) (ms : list nat) (cs : list row) (cnt : list F) : list row * list F :=
  fold_left (fun st xm => incr_obs st (fst xm) (snd xm)) (combine X ms) (cs, cnt).

(* returns the new model and `true` for Ok(model), `false` for Err(NotConverged(model)) *)
Definition km_fit_with (m : metric) (tol : F) (st : kstate) (X : list row) : kstate * bool :=
  let a := assign o m (k_centroids st) X in
  let nc := compute_incr X (map fst a) (k_centroids st) (k_counts st) in
  let inertia := usum o (map snd a) / nN (length X) in
  let dst := dist o m (concat (k_centroids st)) (concat (fst nc)) in
  ({| k_centroids := fst nc; k_counts := snd nc; k_inertia := inertia |}, ltb o dst tol).

Definition km_history (m : metric) (tol : F) (init : list row) (bs : list (list row)) : kstate :=
  fold_left (fun st X => fst (km_fit_with m tol st X)) bs (k_init init).

(** ** FTRL-proximal *)
Record fparams := { f_alpha : F; f_beta : F; f_l1 : F; f_l2 : F }.

(* `z.signum()`: -1 for negative numbers (and -0.0), 1 otherwise.  [sgn] returns 1 at -0.0; the only use
   is `z * sign <= l1`, `(sign * l1 - z) / ...`, which give the same results for z = -0.0 whenever l1 >= 0
   (enforced by the parameter guard): both take the first branch. *)
Definition sgn (z : F) : F := if ltb o z (zero o) then opp o (one o) else one o.
(* apply_proximal_to_weights *)
Definition prox (p : fparams) (z n : F) : F :=
  let s := sgn z in
  if leb o (z * s) (f_l1 p) then zero o
  else (s * f_l1 p - z) / ((sqrt o n + f_beta p) / f_alpha p + f_l2 p).
Definition ftrl_weights (p : fparams) (zs ns : list F) : list F := map2 (prox p) zs ns.
(* calculate_weight_in_average *)
Definition sigma1 (alpha n g : F) : F := (sqrt o (n + g * g) - sqrt o n) / alpha.

(* calculate_gradient: diff.dot(x) = x.t().dot(diff); [ps] are the f32 probabilities widened to F *)
Definition ftrl_gradient (d : nat) (X : list row) (y : list bool) (ps : list F) : list F :=
  let diff := map2 (fun pr (t : bool) => pr - (if t then one o else zero o)) ps y in
  map (fun c => if orb (Nat.eqb d 1) (Nat.leb (length X) 1) then udot c diff else sdot c diff) (cols d X).

(* update_params after calculate_sigma *)
Definition ftrl_apply (p : fparams) (st : list F * list F) (g : list F) : list F * list F :=
  let '(zs, ns) := st in
  let sg := map2 (fun n gr => sigma1 (f_alpha p) n gr) ns g in
  let w := ftrl_weights p zs ns in
  let z1 := map2 (fun z gr => z + gr) zs g in
  let z2 := map2 (fun z sw => z - sw) z1 (map2 (fun s wt => s * wt) sg w) in
  (z2, map2 (fun n gr => n + gr * gr) ns g).

(* Ftrl::update(dataset, probabilities); fit_with is the same with probabilities = predict(records) *)
Definition ftrl_update (p : fparams) (d : nat) (st : list F * list F)
           (b : list row * list bool * list F) : list F * list F :=
  let '(X, y, ps) := b in ftrl_apply p st (ftrl_gradient d X y ps).
Definition ftrl_history (p : fparams) (d : nat) (z0 : list F) (bs : list (list row * list bool * list F))
  : list F * list F :=
  fold_left (ftrl_update p d) bs (z0, map (fun _ => zero o) z0).

(** ** memory layouts of the record matrix (robustness sweep "layout x scale")
    Only two places of the four learners have an arithmetic order that depends on the layout of their inputs:
    - FTRL `diff.dot(x)` = `x.t().dot(diff)`: per column of x `unrolled_dot` when the column view is contiguous
      (`as_slice()` succeeds: stride 1, or at most one row), the sequential loop otherwise.  For standard
      row-major records that is [d = 1 or n <= 1] (ftrl_gradient above); column-major records have contiguous
      columns whatever d; reversed, strided and row-major (d > 1) ones have not.
    - k-means `dist_fn.distance(old_centroids, new_centroids)` folds a `Zip` over two matrices that share the
      layout of the Precomputed initial centroids: column-major centroids are walked in memory order, i.e.
      column by column.
    Everything else (class filtering, Welford variance, row views in the assignment and in the incremental
    update, row sums of fewer than 8 features) visits the elements in logical order. *)
Definition ftrl_gradient_lay (contig : bool) (d : nat) (X : list row) (y : list bool) (ps : list F) : list F :=
  let diff := map2 (fun pr (t : bool) => pr - (if t then one o else zero o)) ps y in
  map (fun c => if contig then udot c diff else sdot c diff) (cols d X).
Definition ftrl_update_lay (p : fparams) (d : nat) (st : list F * list F)
           (b : bool * list row * list bool * list F) : list F * list F :=
  let '(contig, X, y, ps) := b in ftrl_apply p st (ftrl_gradient_lay contig d X y ps).

(* the flattening `Zip` walks: row by row, or column by column for column-major centroids *)
Definition flat (colmajor : bool) (cs : list row) : list F :=
  if colmajor then concat (cols (match cs with [] => 0%nat | c0 :: _ => length c0 end) cs) else concat cs.
Definition km_fit_with_lay (colmajor : bool) (m : metric) (tol : F) (st : kstate) (X : list row) : kstate * bool :=
  let a := assign o m (k_centroids st) X in
  let nc := compute_incr X (map fst a) (k_centroids st) (k_counts st) in
  let inertia := usum o (map snd a) / nN (length X) in
  let dst := dist o m (flat colmajor (k_centroids st)) (flat colmajor (fst nc)) in
  ({| k_centroids := fst nc; k_counts := snd nc; k_inertia := inertia |}, ltb o dst tol).

End Models.
