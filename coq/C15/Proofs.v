(** C15 - lemmas behind the property theorems (collects ProofsStat / ProofsAssoc / ProofsHist / ProofsKF / ProofsT2) and
    the corollaries quoted by Properties.v, with non-vacuity examples. *)
From Coq Require Import List NArith Reals Lra Lia Arith Bool Sorting.Sorted.
From LinfaVerif Require Import Common.Num Common.NdSum C09.Model C15.Model C15.Spec.
From LinfaVerif Require Export C15.ProofsStat C15.ProofsAssoc C15.ProofsHist C15.ProofsKF C15.ProofsT2.
Import ListNotations.
Local Open Scope R_scope.

Lemma all_len {A} (bs : list (list (list A) * list N)) :
  Forall wf_batch bs -> length (all_X bs) = length (all_y bs).
Proof.
  unfold all_X, all_y. induction bs as [|b bs IH]; intros H; [reflexivity|].
  inversion H as [|? ? [H1 H2] H']; subst. cbn [map concat]. rewrite !app_length, H1, IH by exact H'. reflexivity.
Qed.
Lemma all_X_nonempty {A} (bs : list (list (list A) * list N)) :
  Forall wf_batch bs -> bs <> [] -> all_X bs <> [].
Proof.
  intros H Hn. destruct bs as [|b bs]; [congruence|]. inversion H as [|? ? [H1 H2] H']; subst.
  unfold all_X. cbn [map concat]. destruct (fst b); [congruence|cbn; congruence].
Qed.

Lemma all_X_single {A} (X : list (list A)) y : all_X [(X, y)] = X.
Proof. unfold all_X. cbn. apply app_nil_r. Qed.
Lemma all_y_single {A} (X : list (list A)) y : all_y [(X, y)] = y.
Proof. unfold all_y. cbn. apply app_nil_r. Qed.

Lemma eps_zero d (X : list (list R)) : gnb_epsilon R_ops Rfma 0 d X = 0.
Proof. unfold gnb_epsilon. cbn [mul R_ops]. ring. Qed.

Lemma gnb_fit_as_history vs d (X : list (list R)) y :
  gnb_fit R_ops Rfma vs d X y = gnb_history R_ops Rfma vs d [(X, y)].
Proof. reflexivity. Qed.
Lemma mnb_fit_as_history ln alpha d (X : list (list R)) y :
  mnb_fit R_ops ln alpha d X y = mnb_history R_ops ln alpha d [(X, y)].
Proof. reflexivity. Qed.

(** equal epsilons (in particular var_smoothing = 0): the incremental history and the single fit agree *)
Lemma gnb_eq_batch_eps vs d e (bs : list (list (list R) * list N)) :
  Forall (fun b => wf_batch b /\ gnb_epsilon R_ops Rfma vs d (fst b) = e) bs ->
  gnb_epsilon R_ops Rfma vs d (all_X bs) = e ->
  forall c, look c (gnb_history R_ops Rfma vs d bs) = look c (gnb_fit R_ops Rfma vs d (all_X bs) (all_y bs)).
Proof.
  intros Hf He c.
  assert (Hw : Forall wf_batch bs) by (eapply Forall_impl; [|exact Hf]; intros b [H _]; exact H).
  destruct bs as [|b0 bs0] eqn:Eb; [reflexivity|]. rewrite <- Eb in *.
  assert (Hne : bs <> []) by (rewrite Eb; congruence).
  rewrite (gnb_history_textbook_eps d e vs bs Hf c).
  rewrite gnb_fit_as_history.
  rewrite (gnb_history_textbook_eps d e vs [(all_X bs, all_y bs)]).
  - rewrite all_X_single, all_y_single. reflexivity.
  - constructor; [|constructor]. split; [split|exact He]; cbn [fst snd].
    + apply all_len. exact Hw.
    + apply all_X_nonempty; assumption.
Qed.

Lemma gnb_eq_batch_vs0 d (bs : list (list (list R) * list N)) :
  Forall wf_batch bs ->
  forall c, look c (gnb_history R_ops Rfma 0 d bs) = look c (gnb_fit R_ops Rfma 0 d (all_X bs) (all_y bs)).
Proof.
  intros Hw. apply (gnb_eq_batch_eps 0 d 0).
  - eapply Forall_impl; [|exact Hw]. intros b H. split; [exact H|apply eps_zero].
  - apply eps_zero.
Qed.

Lemma gnb_textbook_vs0 d (bs : list (list (list R) * list N)) :
  Forall wf_batch bs ->
  forall c, look c (gnb_history R_ops Rfma 0 d bs) = g_textbook 0 d (all_X bs) (all_y bs) c.
Proof.
  intros Hw. apply gnb_history_textbook_eps.
  eapply Forall_impl; [|exact Hw]. intros b H. split; [exact H|apply eps_zero].
Qed.

Lemma mnb_eq_batch ln alpha d (bs : list (list (list R) * list N)) :
  Forall wf_batch bs ->
  forall c, look c (mnb_history R_ops ln alpha d bs) = look c (mnb_fit R_ops ln alpha d (all_X bs) (all_y bs)).
Proof.
  intros Hw c. destruct bs as [|b0 bs0] eqn:Eb; [reflexivity|]. rewrite <- Eb in *.
  assert (Hne : bs <> []) by (rewrite Eb; congruence).
  rewrite (mnb_history_textbook_all d ln alpha bs Hw c).
  rewrite mnb_fit_as_history.
  rewrite (mnb_history_textbook_all d ln alpha [(all_X bs, all_y bs)]).
  - rewrite all_X_single, all_y_single. reflexivity.
  - constructor; [|constructor]. split; cbn [fst snd]; [apply all_len; exact Hw|apply all_X_nonempty; assumption].
Qed.

(** the smoothed log-frequencies are the logarithms of the additively smoothed relative frequencies *)
Lemma Rsum_map_add alpha (fc : list R) : Rsum (map (fun v => v + alpha) fc) = Rsum fc + INR (length fc) * alpha.
Proof.
  induction fc as [|x fc IH]; [simpl; lra|]. cbn [map Rsum fold_right length]. fold (Rsum (map (fun v => v + alpha) fc)).
  fold (Rsum fc). rewrite IH, S_INR. lra.
Qed.
Lemma nth_map' {A B} (f : A -> B) (l : list A) j da db :
  (j < length l)%nat -> nth j (map f l) db = f (nth j l da).
Proof. revert j; induction l as [|a l IH]; intros [|j] H; simpl in *; try lia; auto. apply IH. lia. Qed.
Lemma m_flp_textbook alpha (fc : list R) j :
  (j < length fc)%nat -> 0 < nth j fc 0 + alpha -> 0 < Rsum fc + INR (length fc) * alpha ->
  nth j (m_flp_of ln alpha fc) 0 = ln ((nth j fc 0 + alpha) / (Rsum fc + INR (length fc) * alpha)).
Proof.
  intros Hj H1 H2. unfold m_flp_of. rewrite Rsum_map_add.
  rewrite (nth_map' _ _ j 0 0) by (rewrite map_length; exact Hj).
  rewrite (nth_map' _ _ j 0 0) by exact Hj.
  unfold Rdiv at 1. rewrite ln_mult by (try assumption; apply Rinv_0_lt_compat; assumption).
  rewrite ln_Rinv by assumption. lra.
Qed.

(** * finding F12: with var_smoothing > 0 and batches of different epsilon the history is not the single fit *)
Definition f12_b1 : list (list R) * list N := ([[0]; [2]], [0%N; 0%N]).
Definition f12_b2 : list (list R) * list N := ([[0]; [4]], [0%N; 0%N]).

Lemma f12_history_sigma :
  option_map (@g_sigma R) (look 0%N (gnb_history R_ops Rfma 1 1 [f12_b1; f12_b2])) = Some [21 / 4].
Proof.
  unfold gnb_history, f12_b1, f12_b2. cbn [fold_left fst snd].
  unfold gnb_fit_with, gnb_epsilon, g_set_priors, g_map_sigma, labels, g_class_step, rows_of, update_mv, cols, col,
    var0, mean0, fold_max, seq_sum, nN, map2, Rfma.
  cbn -[Rplus Rminus Rmult Rdiv INR Rinv]. f_equal. f_equal. simpl. field.
Qed.
Lemma f12_batch_sigma :
  option_map (@g_sigma R) (look 0%N (gnb_fit R_ops Rfma 1 1 (all_X [f12_b1; f12_b2]) (all_y [f12_b1; f12_b2])))
  = Some [11 / 2].
Proof.
  unfold gnb_fit, all_X, all_y, f12_b1, f12_b2. cbn [map concat app fst snd].
  unfold gnb_fit_with, gnb_epsilon, g_set_priors, g_map_sigma, labels, g_class_step, rows_of, update_mv, cols, col,
    var0, mean0, fold_max, seq_sum, nN, map2, Rfma.
  cbn -[Rplus Rminus Rmult Rdiv INR Rinv]. f_equal. f_equal. simpl. field.
Qed.

Lemma f12_wf : Forall wf_batch [f12_b1; f12_b2].
Proof. repeat constructor; cbn; congruence. Qed.

Lemma gnb_smoothing_refuted_lemma :
  exists (vs : R) (d : nat) (bs : list (list (list R) * list N)),
    0 < vs /\ Forall wf_batch bs /\
    exists c, look c (gnb_history R_ops Rfma vs d bs) <> look c (gnb_fit R_ops Rfma vs d (all_X bs) (all_y bs)).
Proof.
  exists 1, 1%nat, [f12_b1; f12_b2]. split; [lra|split; [exact f12_wf|]]. exists 0%N. intros H.
  pose proof f12_history_sigma as H1. pose proof f12_batch_sigma as H2. rewrite H in H1. rewrite H1 in H2.
  injection H2 as H2. lra.
Qed.

(** * predictions *)
Lemma predict_argmax {I} (jll : I -> R) (st : list (N * I)) c :
  argmax R_ops (map (fun ci => (fst ci, jll (snd ci))) st) = Some c ->
  exists i, In (c, i) st /\ forall c' i', In (c', i') st -> jll i' <= jll i.
Proof.
  intros H. destruct (argmax_R _ c H) as [v [Hin Hmax]].
  apply in_map_iff in Hin. destruct Hin as [[c0 i] [E Hin]]. cbn [fst snd] in E. inversion E; subst.
  exists i. split; [exact Hin|]. intros c' i' Hin'. apply (Hmax c' (jll i')).
  apply in_map_iff. exists (c', i'). split; [reflexivity|exact Hin'].
Qed.

Lemma predict_unique {I} (jll : I -> R) (st : list (N * I)) c i :
  In (c, i) st -> (forall c' i', In (c', i') st -> c' <> c -> jll i' < jll i) ->
  argmax R_ops (map (fun ci => (fst ci, jll (snd ci))) st) = Some c.
Proof.
  intros Hin Hu. apply (argmax_unique _ c (jll i)).
  - apply in_map_iff. exists (c, i). split; [reflexivity|exact Hin].
  - intros c' v' Hin' Hne. apply in_map_iff in Hin'. destruct Hin' as [[c0 i0] [E Hin0]]. cbn [fst snd] in E.
    inversion E; subst. apply (Hu c' i0 Hin0 Hne).
Qed.

(** * histories compose: the state after a history is a function of the history alone *)
Lemma gnb_history_app {F} (o : NumOps F) fma vs d (bs1 bs2 : list (list (list F) * list N)) :
  gnb_history o fma vs d (bs1 ++ bs2) =
  fold_left (fun st b => gnb_fit_with o fma vs d st (fst b) (snd b)) bs2 (gnb_history o fma vs d bs1).
Proof. unfold gnb_history. apply fold_left_app. Qed.
Lemma mnb_history_app {F} (o : NumOps F) ln alpha d (bs1 bs2 : list (list (list F) * list N)) :
  mnb_history o ln alpha d (bs1 ++ bs2) =
  fold_left (fun st b => mnb_fit_with o ln alpha d st (fst b) (snd b)) bs2 (mnb_history o ln alpha d bs1).
Proof. unfold mnb_history. apply fold_left_app. Qed.
Lemma km_history_app {F} (o : NumOps F) m tol init (bs1 bs2 : list (list (list F))) :
  km_history o m tol init (bs1 ++ bs2) =
  fold_left (fun st X => fst (km_fit_with o m tol st X)) bs2 (km_history o m tol init bs1).
Proof. unfold km_history. apply fold_left_app. Qed.
Lemma ftrl_history_app {F} (o : NumOps F) p d z0 (bs1 bs2 : list (list (list F) * list bool * list F)) :
  ftrl_history o p d z0 (bs1 ++ bs2) = fold_left (ftrl_update o p d) bs2 (ftrl_history o p d z0 bs1).
Proof. unfold ftrl_history. apply fold_left_app. Qed.

Lemma km_history_log {F} (o : NumOps F) m tol init (bs : list (list (list F))) :
  (k_centroids (km_history o m tol init bs), k_counts (km_history o m tol init bs)) =
  incr_fold o (km_log o m tol (k_init o init) bs) (init, map (fun _ => zero o) init).
Proof. unfold km_history. apply (km_history_log_gen o m tol bs (k_init o init)). Qed.

(** * non-vacuity examples *)
Example ex_wf : Forall wf_batch [([[1; 2]; [3; 4]], [0%N; 1%N]); ([[5; 6]], [1%N])].
Proof. repeat constructor; cbn; congruence. Qed.

(* a class-incomplete history: the second batch lacks class 0; the theorem gives the class-1 mean of the
   three rows 3, 5 (feature 0) ... *)
Example ex_gnb_history :
  option_map (@g_theta R)
    (look 1%N (gnb_history R_ops Rfma 0 2 [([[1; 2]; [3; 4]], [0%N; 1%N]); ([[5; 6]], [1%N])]))
  = Some [(3 + (5 + 0)) / INR 2; (4 + (6 + 0)) / INR 2].
Proof. rewrite (gnb_textbook_vs0 2 _ ex_wf). reflexivity. Qed.

(* equal epsilons with var_smoothing = 1: two copies of the same block *)
Example ex_equal_eps :
  Forall (fun b => wf_batch b /\ gnb_epsilon R_ops Rfma 1 1 (fst b) = 1) [f12_b1; f12_b1] /\
  gnb_epsilon R_ops Rfma 1 1 (all_X [f12_b1; f12_b1]) = 1.
Proof.
  assert (E1 : gnb_epsilon R_ops Rfma 1 1 (fst f12_b1) = 1).
  { unfold gnb_epsilon, f12_b1, cols, col, var0, fold_max, nN, Rfma. cbn -[Rplus Rminus Rmult Rdiv INR Rinv]. simpl. field. }
  split.
  - repeat constructor; cbn [fst snd f12_b1 length]; try congruence; exact E1.
  - unfold gnb_epsilon, all_X, f12_b1, cols, col, var0, fold_max, nN, Rfma. cbn -[Rplus Rminus Rmult Rdiv INR Rinv]. simpl. field.
Qed.

Example ex_prox_zero : prox R_ops {| f_alpha := 1; f_beta := 1; f_l1 := 1 / 2; f_l2 := 0 |} (1 / 4) 0 = 0.
Proof.
  apply ftrl_zero_iff; cbn [f_alpha f_beta f_l1 f_l2].
  - rewrite sqrt_0. lra.
  - rewrite Rabs_right; lra.
Qed.
Example ex_prox_nonzero : prox R_ops {| f_alpha := 1; f_beta := 1; f_l1 := 1 / 2; f_l2 := 0 |} 1 0 <> 0.
Proof.
  intros H. apply ftrl_zero_iff in H; cbn [f_alpha f_beta f_l1 f_l2] in *.
  - rewrite Rabs_right in H; lra.
  - rewrite sqrt_0. lra.
Qed.

Example ex_kmeans_log :
  Forall (fun xm : list R * nat => length (fst xm) = 1%nat /\ (snd xm < length [[0]; [10]])%nat)
         [([1], 0%nat); ([3], 0%nat)].
Proof. repeat constructor. Qed.

(* the hypotheses of the k-means history theorem are satisfiable: two centroids, two batches on the line *)
Example ex_kmeans_history :
  let st := km_history R_ops L2 1 [[0]; [10]] [[[1]; [3]]; [[9]]] in
  let log := km_log R_ops L2 1 (k_init R_ops [[0]; [10]]) [[[1]; [3]]; [[9]]] in
  nth 1 (k_counts st) 0 = INR (length (assigned_pts 1 log)).
Proof.
  cbv zeta.
  destruct (kmeans_history_mean L2 1 1%nat [[0]; [10]] [[[1]; [3]]; [[9]]]) with (c := 1%nat) as [H1 H2];
    [congruence|repeat constructor|repeat constructor|cbn; lia|exact H1].
Qed.

Example ex_pooled :
  update_mv R_ops Rfma 1 {| g_count := 2; g_prior := 0; g_theta := map rmean (cols R_ops 1 [[0]; [2]]);
                            g_sigma := map rpvar (cols R_ops 1 [[0]; [2]]) |} [[4]; [7]]
  = (map rmean (cols R_ops 1 [[0]; [2]; [4]; [7]]), map rpvar (cols R_ops 1 [[0]; [2]; [4]; [7]])).
Proof. apply (update_mv_pooled 1 _ [[0]; [2]] [[4]; [7]]); try reflexivity; congruence. Qed.

Example ex_mnb_history :
  option_map (@m_fcount R)
    (look 1%N (mnb_history R_ops ln 1 2 [([[1; 2]; [3; 4]], [0%N; 1%N]); ([[5; 6]], [1%N])]))
  = Some [3 + (5 + 0); 4 + (6 + 0)].
Proof. rewrite (mnb_history_textbook_all 2 ln 1 _ ex_wf). reflexivity. Qed.

Example ex_argmax_strict : argmax R_ops [(1%N, 0); (2%N, 1); (5%N, 1 / 2)] = Some 2%N.
Proof.
  apply (argmax_unique _ 2%N 1); [right; left; reflexivity|].
  intros c' v' [H|[H|[H|[]]]] Hne; inversion H; subst; try congruence; lra.
Qed.

Example ex_ftrl_step :
  let p := {| f_alpha := 1; f_beta := 1; f_l1 := 1 / 2; f_l2 := 0 |} in
  nth 0 (snd (ftrl_apply R_ops p ([1], [0]) [3])) 0 = 0 + 3 * 3.
Proof.
  cbv zeta.
  pose proof (ftrl_step {| f_alpha := 1; f_beta := 1; f_l1 := 1 / 2; f_l2 := 0 |} [1] [0] [3] 1 0
                        eq_refl eq_refl eq_refl (Nat.lt_0_1)) as H.
  cbv zeta in H. destruct H as [_ [_ [_ H]]]. exact H.
Qed.
