(** C15 - prediction arg-max, mini-batch k-means recurrence, FTRL-proximal recurrence. *)
From Coq Require Import List NArith Reals Lra Lia Arith Bool.
From LinfaVerif Require Import Common.Num Common.NdSum C09.Model C15.Model C15.Spec C15.ProofsStat.
Import ListNotations.
Local Open Scope R_scope.

(** * arg-max of the joint log-likelihood *)
Lemma argmax_go_spec (l : list (N * R)) : forall best bv,
  exists v, In (argmax_go R_ops l best bv, v) ((best, bv) :: l) /\
            forall c' v', In (c', v') ((best, bv) :: l) -> v' <= v.
Proof.
  induction l as [|[c v] t IH]; intros best bv; cbn [argmax_go].
  - exists bv. split; [left; reflexivity|]. intros c' v' [H|[]]. inversion H. lra.
  - cbn [ltb R_ops]. destruct (Rltb bv v) eqn:E.
    + apply Rltb_true in E. destruct (IH c v) as [w [Hin Hmax]]. exists w. split.
      * right. exact Hin.
      * intros c' v' [H|H]; [|apply (Hmax c' v' H)]. inversion H; subst.
        specialize (Hmax c v (or_introl eq_refl)). lra.
    + apply Rltb_false in E. destruct (IH best bv) as [w [Hin Hmax]]. exists w. split.
      * destruct Hin as [Hin|Hin]; [left; exact Hin|right; right; exact Hin].
      * intros c' v' [H|[H|H]].
        -- apply (Hmax c' v'). left. exact H.
        -- inversion H; subst. specialize (Hmax best bv (or_introl eq_refl)). lra.
        -- apply (Hmax c' v'). right. exact H.
Qed.

Lemma no_nan_R (l : list R) : existsb (isnan R_ops) l = false.
Proof.
  induction l as [|x l IH]; [reflexivity|]. cbn [existsb]. rewrite IH.
  unfold isnan. cbn [eqb R_ops]. replace (Reqb x x) with true; [reflexivity|].
  symmetry. apply Reqb_true. reflexivity.
Qed.

Lemma argmax_R (l : list (N * R)) c : argmax R_ops l = Some c ->
  exists v, In (c, v) l /\ forall c' v', In (c', v') l -> v' <= v.
Proof.
  unfold argmax. destruct l as [|[c0 v0] t]; [discriminate|]. rewrite no_nan_R. intros H. inversion H; subst.
  apply argmax_go_spec.
Qed.

Lemma argmax_R_some (l : list (N * R)) : l <> [] -> exists c, argmax R_ops l = Some c.
Proof. destruct l as [|[c0 v0] t]; [congruence|]. intros _. unfold argmax. rewrite no_nan_R. eauto. Qed.

(** a strict maximiser is returned whatever the enumeration order *)
Lemma argmax_unique (l : list (N * R)) c v :
  In (c, v) l -> (forall c' v', In (c', v') l -> c' <> c -> v' < v) -> argmax R_ops l = Some c.
Proof.
  intros Hin Hu. destruct (argmax_R_some l) as [r Hr]; [destruct l; [destruct Hin|congruence]|].
  rewrite Hr. f_equal. destruct (argmax_R l r Hr) as [w [Hw Hmax]].
  destruct (N.eq_dec r c) as [E|E]; [exact E|]. exfalso.
  specialize (Hu r w Hw E). specialize (Hmax c v Hin). lra.
Qed.

(** * k-means *)
Lemma upd_length {A} (l : list A) k f : length (upd l k f) = length l.
Proof. revert k; induction l as [|a l IH]; intros [|k]; simpl; auto. Qed.
Lemma nth_upd_same {A} (l : list A) k f dflt : (k < length l)%nat -> nth k (upd l k f) dflt = f (nth k l dflt).
Proof. revert k; induction l as [|a l IH]; intros [|k] H; simpl in *; try lia; auto. apply IH. lia. Qed.
Lemma nth_upd_other {A} (l : list A) k k' f dflt : k <> k' -> nth k (upd l k' f) dflt = nth k l dflt.
Proof. revert k k'; induction l as [|a l IH]; intros [|k] [|k'] H; simpl; auto; try congruence. Qed.

Section KMeansAny.
Context {F : Type} (o : NumOps F).

Lemma compute_incr_fold (X : list (list F)) ms cs cnt :
  compute_incr o X ms cs cnt = incr_fold o (combine X ms) (cs, cnt).
Proof. reflexivity. Qed.

Lemma incr_fold_app (l1 l2 : list (list F * nat)) st :
  incr_fold o (l1 ++ l2) st = incr_fold o l2 (incr_fold o l1 st).
Proof. unfold incr_fold. apply fold_left_app. Qed.

(** the centroids and cumulative counts after a history are the per-observation recurrence folded over the
    assignment log of that history *)
Lemma km_history_log_gen m tol (bs : list (list (list F))) : forall st,
  let st' := fold_left (fun st X => fst (km_fit_with o m tol st X)) bs st in
  (k_centroids st', k_counts st') = incr_fold o (km_log o m tol st bs) (k_centroids st, k_counts st).
Proof.
  induction bs as [|X bs IH]; intros st; cbn [fold_left km_log]; [reflexivity|].
  cbv zeta in IH. rewrite IH. rewrite incr_fold_app. f_equal.
  unfold km_fit_with. cbn [fst k_centroids k_counts]. rewrite compute_incr_fold.
  destruct (incr_fold o _ _). reflexivity.
Qed.
End KMeansAny.

Lemma list_as_map_nth (x : list R) d : length x = d -> x = map (fun j => nth j x 0) (seq 0 d).
Proof.
  intros H. subst d. apply nth_ext with (d := 0) (d' := 0); [rewrite map_length, seq_length; reflexivity|].
  intros n Hn. set (f := fun j => nth j x 0).
  rewrite (nth_indep (map f (seq 0 (length x))) 0 (f 0%nat)) by (rewrite map_length, seq_length; exact Hn).
  rewrite map_nth, seq_nth by exact Hn. reflexivity.
Qed.

Lemma vadd_map2 (a b : list R) : vadd R_ops a b = map2 Rplus a b.
Proof. reflexivity. Qed.

Lemma rmean_snoc (l : list R) a : rmean (l ++ [a]) = (Rsum l + a) / (INR (length l) + 1).
Proof. unfold rmean. rewrite Rsum_app, app_length, plus_INR. simpl. f_equal. lra. Qed.

Lemma assigned_pts_snoc (c : nat) (log : list (list R * nat)) x c0 :
  assigned_pts c (log ++ [(x, c0)]) = if Nat.eqb c0 c then assigned_pts c log ++ [x] else assigned_pts c log.
Proof.
  unfold assigned_pts. rewrite filter_app, map_app. cbn [filter snd].
  destruct (Nat.eqb c0 c); cbn; [reflexivity|apply app_nil_r].
Qed.

(** one observation moves its centroid to the mean of the points it has received *)
Lemma running_mean_step d (cen x : list R) (pts : list (list R)) (init_c : list R) :
  length x = d -> length init_c = d ->
  cen = match pts with [] => init_c | _ => map rmean (cols R_ops d pts) end ->
  vadd R_ops cen (map2 (fun a b => (a - b) / (INR (length pts) + 1)) x cen)
    = map rmean (cols R_ops d (pts ++ [x])).
Proof.
  intros Hx Hi Hc. rewrite vadd_map2. rewrite (list_as_map_nth x d Hx) at 1.
  rewrite !cols_map. destruct pts as [|p pts'] eqn:Ep.
  - subst cen. rewrite (list_as_map_nth init_c d Hi) at 1 2. rewrite !map2_map.
    apply map_ext. intros j. cbn [app col map length INR]. unfold rmean, Rsum. cbn [zero R_ops fold_right length INR]. replace (0 + 1) with 1 by lra. unfold Rdiv. rewrite Rinv_1. lra.
  - rewrite <- Ep in *. assert (Hne : pts <> []) by (rewrite Ep; congruence).
    subst cen. rewrite cols_map, !map2_map. apply map_ext. intros j.
    rewrite col_app. cbn [col map]. rewrite rmean_snoc, col_length. unfold rmean. rewrite col_length.
    pose proof (INR_len_pos pts Hne). cbn [zero R_ops]. field. lra.
Qed.

Lemma nth_const_zero {A} (l : list A) c : nth c (map (fun _ => 0) l) 0 = 0.
Proof. revert c; induction l as [|a l IH]; intros [|c]; simpl; auto. Qed.

Theorem kmeans_running_mean d (init : list (list R)) (log : list (list R * nat)) :
  Forall (fun c => length c = d) init ->
  Forall (fun xm => length (fst xm) = d /\ (snd xm < length init)%nat) log ->
  let st := incr_fold R_ops log (init, map (fun _ => 0) init) in
  length (fst st) = length init /\ length (snd st) = length init /\
  forall c, (c < length init)%nat ->
    nth c (snd st) 0 = INR (length (assigned_pts c log)) /\
    nth c (fst st) [] = match assigned_pts c log with
                        | [] => nth c init []
                        | pts => map rmean (cols R_ops d pts)
                        end.
Proof.
  intros Hinit. induction log as [|[x c0] log IH] using rev_ind; intros Hlog; cbv zeta.
  - cbn. split; [reflexivity|split; [apply map_length|]]. intros c Hc. split; [|reflexivity].
    rewrite nth_const_zero. reflexivity.
  - apply Forall_app in Hlog. destruct Hlog as [Hlog Hx]. apply Forall_inv in Hx. destruct Hx as [Hxd Hc0].
    cbn [fst snd] in Hxd, Hc0. specialize (IH Hlog). cbv zeta in IH. destruct IH as [L1 [L2 IH]].
    rewrite incr_fold_app. cbn [incr_fold fold_left]. unfold incr_obs. cbn [fst snd].
    set (st := incr_fold R_ops log (init, map (fun _ => 0) init)) in *.
    split; [rewrite upd_length; exact L1|split; [rewrite upd_length; exact L2|]].
    intros c Hc. rewrite assigned_pts_snoc. destruct (Nat.eqb c0 c) eqn:E.
    + apply Nat.eqb_eq in E. subst c0. destruct (IH c Hc) as [I1 I2].
      rewrite !nth_upd_same by lia. cbn [add one zero R_ops]. split.
      * rewrite I1, app_length, plus_INR. reflexivity.
      * rewrite I1.
        assert (Hne : assigned_pts c log ++ [x] <> []) by (destruct (assigned_pts c log); cbn; congruence).
        destruct (assigned_pts c log ++ [x]) eqn:E2; [congruence|]. rewrite <- E2.
        apply running_mean_step with (init_c := nth c init []); [exact Hxd| |rewrite I2; destruct (assigned_pts c log); reflexivity].
        rewrite Forall_forall in Hinit. apply Hinit. apply nth_In. exact Hc.
    + apply Nat.eqb_neq in E. rewrite !nth_upd_other by congruence. apply IH. exact Hc.
Qed.

Lemma kmeans_flag m tol (st : @kstate R) X :
  snd (km_fit_with R_ops m tol st X) = true <->
  dist R_ops m (concat (k_centroids st)) (concat (k_centroids (fst (km_fit_with R_ops m tol st X)))) < tol.
Proof. unfold km_fit_with. cbn [fst snd k_centroids ltb R_ops]. apply Rltb_true. Qed.

(** * FTRL *)
Lemma sgn_abs z : z * sgn R_ops z = Rabs z.
Proof.
  unfold sgn. cbn [ltb zero one opp R_ops]. destruct (Rltb z 0) eqn:E.
  - apply Rltb_true in E. rewrite Rabs_left by exact E. ring.
  - apply Rltb_false in E. rewrite Rabs_right by lra. ring.
Qed.

Lemma ftrl_zero_iff (p : @fparams R) z n :
  0 < (R_sqrt.sqrt n + f_beta p) / f_alpha p + f_l2 p ->
  (prox R_ops p z n = 0 <-> Rabs z <= f_l1 p).
Proof.
  intros Hden. unfold prox. cbn [leb mul sub div add zero R_ops Num.sqrt].
  rewrite sgn_abs. destruct (Rleb (Rabs z) (f_l1 p)) eqn:E.
  - apply Rleb_true in E. tauto.
  - apply Rleb_false in E. split; [|lra]. intros H. exfalso.
    assert (Hnum : sgn R_ops z * f_l1 p - z <> 0).
    { unfold sgn. cbn [ltb zero one opp R_ops]. destruct (Rltb z 0) eqn:E2.
      - apply Rltb_true in E2. rewrite Rabs_left in E by exact E2. lra.
      - apply Rltb_false in E2. rewrite Rabs_right in E by lra. lra. }
    apply Hnum. apply (Rmult_eq_reg_r (/ ((R_sqrt.sqrt n + f_beta p) / f_alpha p + f_l2 p))).
    + rewrite Rmult_0_l. exact H.
    + apply Rinv_neq_0_compat. lra.
Qed.

Lemma nth_map2 {A B C} (f : A -> B -> C) (a : list A) (b : list B) j da db dc :
  (j < length a)%nat -> (j < length b)%nat -> nth j (map2 f a b) dc = f (nth j a da) (nth j b db).
Proof.
  unfold map2. revert b j. induction a as [|x a IH]; intros [|y b] [|j] Ha Hb; simpl in *; try lia; auto.
  apply IH; lia.
Qed.
Lemma map2_length {A B C} (f : A -> B -> C) (a : list A) (b : list B) :
  length (map2 f a b) = Nat.min (length a) (length b).
Proof. unfold map2. rewrite map_length, combine_length. reflexivity. Qed.

(** the documented per-coordinate update of z and n *)
Lemma ftrl_step (p : @fparams R) (zs ns g : list R) d j :
  length zs = d -> length ns = d -> length g = d -> (j < d)%nat ->
  let st' := ftrl_apply R_ops p (zs, ns) g in
  let z := nth j zs 0 in let n := nth j ns 0 in let gr := nth j g 0 in
  length (fst st') = d /\ length (snd st') = d /\
  nth j (fst st') 0 = z + gr - (R_sqrt.sqrt (n + gr * gr) - R_sqrt.sqrt n) / f_alpha p * prox R_ops p z n /\
  nth j (snd st') 0 = n + gr * gr.
Proof.
  intros Hz Hn Hg Hj. cbv zeta. unfold ftrl_apply, ftrl_weights.
  cbn [fst snd]. repeat split.
  - rewrite !map2_length. lia.
  - rewrite !map2_length. lia.
  - rewrite (nth_map2 _ _ _ j 0 0 0) by (rewrite ?map2_length; lia).
    rewrite (nth_map2 _ _ _ j 0 0 0) by (rewrite ?map2_length; lia).
    rewrite (nth_map2 _ _ _ j 0 0 0) by (rewrite ?map2_length; lia).
    rewrite (nth_map2 _ _ _ j 0 0 0) by (rewrite ?map2_length; lia).
    rewrite (nth_map2 _ _ _ j 0 0 0) by (rewrite ?map2_length; lia).
    unfold sigma1. cbn [add sub mul div R_ops Num.sqrt]. reflexivity.
  - rewrite (nth_map2 _ _ _ j 0 0 0) by lia. cbn [add mul R_ops]. reflexivity.
Qed.

(** the gradient is the exact sum  sum_i (p_i - y_i) x_ij  whichever ndarray dot kernel is taken *)
Lemma fold_left_dot (l : list (R * R)) a :
  fold_left (fun s xy => s + fst xy * snd xy) l a = a + Rsum (map (fun p => fst p * snd p) l).
Proof. revert a; induction l as [|x l IH]; intros a; simpl; [lra|]. rewrite IH. lra. Qed.

Lemma sdot_R (a b : list R) : sdot R_ops a b = Rsum (map (fun p => fst p * snd p) (combine a b)).
Proof. unfold sdot. cbn [add mul zero R_ops]. rewrite fold_left_dot. lra. Qed.
