(** C15 - correspondence (model vs implementation, bit for bit) and property oracles (exact rational
    recomputation of the textbook estimates / of the documented recurrences on the implementation's own
    outputs).  Does not depend on the proofs.

    One generic evaluator [fops T], instantiated with binary64 (PrimFloat, against the `f64` learners) and
    with binary32 (SpecFloat at precision 24, against the `f32` learners).  Case values always cross as
    binary64 literals: every f32 is an f64, [x_in] brings it back exactly. *)
From Coq Require Import List NArith ZArith QArith Bool Floats SpecFloat.
From LinfaVerif Require Export Common.Num Common.NdSum Common.Run Common.QF Common.B32 Common.Fma
  C09.Model C15.Model C15.ModelRepaired.
Import ListNotations.

Record fops (T : Type) := mkFops {
  x_o : NumOps T;             (* the arithmetic of the element type *)
  x_okm : NumOps T;           (* k-means: `L2Dist::distance` takes its square root in f64 (C09) *)
  x_fma : T -> T -> T -> T;
  x_twopi : T;                (* F::cast(2 * PI) *)
  x_eq : T -> T -> bool;      (* bit equality (all NaNs identified) *)
  x_in : float -> T;          (* exact on the values of a case *)
  x_out : T -> float;         (* exact *)
  x_tsc : Q;                  (* scale of the rational tolerances: 1 at binary64, 2^26 at binary32 *)
  x_rel : float               (* relative tie window of the batch-vs-history prediction oracle *)
}.
Arguments x_o {T}. Arguments x_okm {T}. Arguments x_fma {T}. Arguments x_twopi {T}. Arguments x_eq {T}.
Arguments x_in {T}. Arguments x_out {T}. Arguments x_tsc {T}. Arguments x_rel {T}.

Definition x64 : fops float :=
  {| x_o := B64_ops; x_okm := B64_ops; x_fma := fma64; x_twopi := 0x1.921fb54442d18p+2%float;
     x_eq := f64_biteq; x_in := fun v => v; x_out := fun v => v; x_tsc := 1%Q; x_rel := 0x1p-20%float |}.

(** `L2Dist::distance` at f32 is `F::from(a.l2_dist(&b).unwrap())`: ndarray-stats widens the f32 squared
    distance to f64 (exact), takes the f64 square root, linfa-nn rounds the result back to f32 *)
Definition sqrt32_via64 (v : spec_float) : spec_float := b32_of_b64 (SFsqrt 53 1024 v).
Definition B32km_ops : NumOps spec_float :=
  {| zero := zero B32_ops; one := one B32_ops;
     add := add B32_ops; sub := sub B32_ops; mul := mul B32_ops; div := div B32_ops;
     opp := opp B32_ops; abs := abs B32_ops; sqrt := sqrt32_via64;
     ltb := ltb B32_ops; leb := leb B32_ops; eqb := eqb B32_ops; of_N := of_N B32_ops |}.
Definition x32 : fops spec_float :=
  {| x_o := B32_ops; x_okm := B32km_ops; x_fma := fma32;
     x_twopi := S754_finite false 13176795 (-21);      (* 2 pi rounded to binary32 = 0x40C90FDB *)
     x_eq := sf_eqb; x_in := fun v => b32_of_b64 (Prim2SF v); x_out := SF2Prim;
     x_tsc := 67108864%Q; x_rel := 0x1p-8%float |}.

Fixpoint list_eqb2 {A B} (e : A -> B -> bool) (l1 : list A) (l2 : list B) : bool :=
  match l1, l2 with
  | [], [] => true
  | a :: l1', b :: l2' => e a b && list_eqb2 e l1' l2'
  | _, _ => false
  end.
Definition lorl (l : list N) : N := fold_left N.lor l 0%N.
Definition optN_eqb (a b : option N) : bool :=
  match a, b with Some x, Some y => N.eqb x y | None, None => true | _, _ => false end.
Fixpoint cut {A} (cuts : list N) (l : list A) : list (list A) :=
  match cuts with
  | [] => []
  | c :: t => firstn (N.to_nat c) l :: cut t (skipn (N.to_nat c) l)
  end.

(** * case records (shared by both element types) *)
Record nbinfo := { i_label : N; i_count : N; i_prior : float; i_v1 : list float; i_v2 : list float }.
(* gaussian: v1 = theta, v2 = sigma; multinomial: v1 = feature_count, v2 = feature_log_prob *)
Record nbhist := { h_cuts : list N; h_final : list nbinfo; h_pred : list (option N) }.
Record nbcase := {
  n_f32 : bool;                         (* the learner was instantiated at f32 *)
  n_repaired : bool;                    (* the checked-out gaussian_nb.rs carries the repair of F12 *)
  n_multinomial : bool; n_param : float; n_d : N;
  n_X : list (list float); n_y : list N;
  n_batch : list nbinfo; n_batch_pred : list (option N);
  n_query : list (list float); n_ln : list (float * float);
  n_exact : bool;                       (* multinomial: integer data, sums are exact *)
  n_hists : list nbhist }.

Record kstep := { ks_X : list (list float); ks_centroids : list (list float); ks_counts : list float;
                  ks_inertia : float; ks_ok : bool }.
Record kcase := { kc_f32 : bool; kc_initF : bool (* Precomputed centroids in column-major order *); kc_metric : metric; kc_tol : float; kc_init : list (list float);
                  kc_steps : list kstep }.

Record fstep := { fs_contig : bool (* the columns of the record matrix are contiguous views *); fs_X : list (list float); fs_y : list bool; fs_p : list float;
                  fs_z : list float; fs_n : list float; fs_w : list float }.
Record fcase := { fc_f32 : bool; fc_alpha : float; fc_beta : float; fc_l1 : float; fc_l2 : float; fc_d : N;
                  fc_z0 : list float; fc_n0 : list float; fc_w0 : list float; fc_steps : list fstep }.

(** * exact rational helpers.  Every float is m * 2^e; all data of a case are scaled to integers by the
      smallest exponent [emin] met, sums and sums of squares are formed over Z (no gcd anywhere), and only the
      final comparisons go through Q. *)
Definition f64_me (x : float) : Z * Z :=
  match Prim2SF x with
  | S754_finite s m e => ((if s then Zneg m else Zpos m), e)
  | _ => (0%Z, 0%Z)
  end.
Definition emin_of (xs : list float) : Z := fold_left (fun a x => Z.min a (snd (f64_me x))) xs 0%Z.
Definition toZ (emin : Z) (x : float) : Z := let '(m, e) := f64_me x in Z.shiftl m (e - emin).
Definition Zsum (l : list Z) : Z := fold_left Z.add l 0%Z.
Definition Zcol (emin : Z) (j : nat) (X : list (list float)) : list Z := map (fun r => toZ emin (nth j r 0%float)) X.
Definition posn (n : nat) : positive := Pos.of_nat n.
(* exact mean and population variance of the floats whose scaled integers are [zs] *)
Definition mean_q (emin : Z) (zs : list Z) : Q := (Zsum zs # posn (length zs)) * Qpow2 emin.
Definition var_q (emin : Z) (zs : list Z) : Q :=
  let n := Z.of_nat (length zs) in
  let s1 := Zsum zs in
  let s2 := Zsum (map (fun z => z * z)%Z zs) in
  ((n * s2 - s1 * s1)%Z # posn (length zs * length zs)) * Qpow2 (2 * emin).
Definition sum_q (emin : Z) (zs : list Z) : Q := inject_Z (Zsum zs) * Qpow2 emin.
Definition Qmaxl (l : list Q) : Q := fold_left (fun a b => if Qle_bool a b then b else a) l 0%Q.
Definition Qclose (tol : Q) (x : float) (q : Q) : bool :=
  f64_finite x && Qle_bool (Qabs' (f64_Q x - q)) tol.
Definition tol32 : Q := 1 # 4294967296.
Definition tol40 : Q := 1 # 1099511627776.
Definition tol44 : Q := 1 # 17592186044416.

Definition rows_c (c : N) (X : list (list float)) (y : list N) : list (list float) :=
  map fst (filter (fun p => N.eqb (snd p) c) (combine X y)).
Definition absmax (X : list (list float)) : Q :=
  let xs := concat X in
  let emin := emin_of xs in
  inject_Z (fold_left (fun a x => Z.max a (Z.abs (toZ emin x))) xs 0%Z) * Qpow2 emin.
Definition fabs (x : float) := PrimFloat.abs x.
Definition near (rel : float) (a b : float) : bool :=
  PrimFloat.leb (fabs (PrimFloat.sub a b)) (PrimFloat.mul rel (PrimFloat.add 1 (PrimFloat.add (fabs a) (fabs b)))).

Record truth := { t_label : N; t_count : nat; t_m : list Q; t_v : list Q }.
(* per class: exact count, exact means (multinomial: exact feature sums), exact smoothed variances *)
Definition nb_truth (c : nbcase) (emin : Z) (eps : Q) : list truth :=
  let js := seq 0 (N.to_nat (n_d c)) in
  map (fun l => let rows := rows_c l (n_X c) (n_y c) in
                {| t_label := l; t_count := length rows;
                   t_m := map (fun j => if n_multinomial c then sum_q emin (Zcol emin j rows)
                                        else mean_q emin (Zcol emin j rows)) js;
                   t_v := map (fun j => if n_multinomial c then 0%Q else (var_q emin (Zcol emin j rows) + eps)%Q) js |})
      (labels (n_y c)).

Definition count_eq (ms : list nat) (c : nat) : N := N.of_nat (length (filter (Nat.eqb c) ms)).
Definition assigned (c : nat) (log : list (nat * list float)) : list (list float) :=
  map snd (filter (fun p => Nat.eqb (fst p) c) log).

Section Generic.
Context {T : Type} (X : fops T).
Let o := x_o X.
Let okm := x_okm X.
Let cv (v : float) : T := x_in X v.
Let cvl (l : list float) : list T := map (x_in X) l.
Let cvm (m : list (list float)) : list (list T) := map (map (x_in X)) m.
Definition vec_eqb (a b : list T) : bool := list_eqb (x_eq X) a b.
Definition mat_eqb (a b : list (list T)) : bool := list_eqb vec_eqb a b.
Definition fin (v : T) : bool := f64_finite (x_out X v).

(* the logarithm enters as a table computed by the harness with the very `ln` the library calls *)
Fixpoint tab_ln (tab : list (T * T)) (x : T) : T :=
  match tab with
  | [] => cv nan
  | (a, b) :: t => if eqb o a x then b else tab_ln t x
  end.
Definition ln_of (c : nbcase) : T -> T := tab_ln (map (fun p => (cv (fst p), cv (snd p))) (n_ln c)).

(** ** naive Bayes *)
Definition ginfo_eqb (a : N * @ginfo T) (b : nbinfo) : bool :=
  N.eqb (fst a) (i_label b) && N.eqb (g_count (snd a)) (i_count b) && x_eq X (g_prior (snd a)) (cv (i_prior b))
  && vec_eqb (g_theta (snd a)) (cvl (i_v1 b)) && vec_eqb (g_sigma (snd a)) (cvl (i_v2 b)).
Definition minfo_eqb (a : N * @minfo T) (b : nbinfo) : bool :=
  N.eqb (fst a) (i_label b) && N.eqb (m_count (snd a)) (i_count b) && x_eq X (m_prior (snd a)) (cv (i_prior b))
  && vec_eqb (m_fcount (snd a)) (cvl (i_v1 b)) && vec_eqb (m_flp (snd a)) (cvl (i_v2 b)).

Definition to_g (l : list nbinfo) : gstate (F := T) :=
  map (fun b => (i_label b, {| g_count := i_count b; g_prior := cv (i_prior b);
                               g_theta := cvl (i_v1 b); g_sigma := cvl (i_v2 b) |})) l.
Definition to_m (l : list nbinfo) : mstate (F := T) :=
  map (fun b => (i_label b, {| m_count := i_count b; m_prior := cv (i_prior b);
                               m_fcount := cvl (i_v1 b); m_flp := cvl (i_v2 b) |})) l.

Definition nb_state_corr (c : nbcase) (ln : T -> T) (bs : list (list (list T) * list N)) (impl : list nbinfo) : bool :=
  let d := N.to_nat (n_d c) in
  if n_multinomial c
  then list_eqb2 minfo_eqb (mnb_history o ln (cv (n_param c)) d bs) impl
  else if n_repaired c
       then list_eqb2 ginfo_eqb (gnb_history_repaired o (x_fma X) (cv (n_param c)) d bs) impl
       else list_eqb2 ginfo_eqb (gnb_history o (x_fma X) (cv (n_param c)) d bs) impl.

Definition nb_jll (c : nbcase) (ln : T -> T) (impl : list nbinfo) (q : list T) : list (N * T) :=
  if n_multinomial c then map (fun ci => (fst ci, mnb_jll o ln (snd ci) q)) (to_m impl)
  else map (fun ci => (fst ci, gnb_jll o ln (x_twopi X) (snd ci) q)) (to_g impl).
Definition nb_predict (c : nbcase) (ln : T -> T) (impl : list nbinfo) (q : list T) : option N :=
  argmax o (nb_jll c ln impl q).

(* corr bits: 1 batch-fit state, 2 history state, 4 prediction *)
Definition nb_corr (c : nbcase) : N :=
  let ln := ln_of c in
  let Xs := cvm (n_X c) in
  let qs := cvm (n_query c) in
  let batches_of cuts := combine (cut cuts Xs) (cut cuts (n_y c)) in
  (flag (nb_state_corr c ln [(Xs, n_y c)] (n_batch c)) 1
   + flag (forallb (fun h => nb_state_corr c ln (batches_of (h_cuts h)) (h_final h)) (n_hists c)) 2
   + flag (list_eqb optN_eqb (map (nb_predict c ln (n_batch c)) qs) (n_batch_pred c)
           && forallb (fun h => match h_pred h with
                                | [] => true
                                | p => list_eqb optN_eqb (map (nb_predict c ln (h_final h)) qs) p
                                end) (n_hists c)) 4)%N.

(* oracle bits (naive Bayes): 1 classes/counts, 2 priors, 4 mean / feature count, 8 variance of the single fit /
   log-prob relation, 65536 variance after an incremental history, 16 prediction is not a maximiser of the
   joint log-likelihood, 32 history and batch predictions differ away from a tie, 64 shape *)
Definition nb_info_ok (c : nbcase) (ln : T -> T) (vbit : N) (n : nat) (M tolm tolv : Q) (tb : truth * nbinfo) : N :=
  let '(t, b) := tb in
  let d := N.to_nat (n_d c) in
  (flag (N.eqb (i_label b) (t_label t) && N.eqb (i_count b) (N.of_nat (t_count t)) && negb (N.eqb (i_count b) 0)) 1
   + flag (x_eq X (cv (i_prior b)) (div o (of_N o (i_count b)) (of_N o (N.of_nat n)))) 2
   + flag (Nat.eqb (length (i_v1 b)) d && Nat.eqb (length (i_v2 b)) d) 64
   + (if n_multinomial c then
        let sm := map (fun v => add o v (cv (n_param c))) (cvl (i_v1 b)) in
        let cnt := usum o sm in
        flag (forallb (fun xq => if n_exact c then f64_finite (fst xq) && Qeq_bool (f64_Q (fst xq)) (snd xq)
                                 else Qclose (x_tsc X * tol32 * M * inject_Z (Z.of_nat n)) (fst xq) (snd xq))
                      (combine (i_v1 b) (t_m t))) 4
        + flag (vec_eqb (map (fun x => sub o (ln x) (ln cnt)) sm) (cvl (i_v2 b))) 8
      else
        flag (forallb (fun xq => Qclose tolm (fst xq) (snd xq)) (combine (i_v1 b) (t_m t))) 4
        + flag (forallb (fun xq => Qclose tolv (fst xq) (snd xq)) (combine (i_v2 b) (t_v t))) vbit))%N.

(* tolerances: means 2^-40 of the data scale M; variances 2^-32 of the largest exact variance + 2^-44 M^2
   (binary32: 2^-14, 2^-6 and 2^-18) *)
Definition nb_state_ok (c : nbcase) (ln : T -> T) (vbit : N) (M : Q) (tr : list truth) (impl : list nbinfo) : N :=
  let n := length (n_X c) in
  let tolm := (x_tsc X * tol40 * M)%Q in
  let tolv := (x_tsc X * (tol32 * Qmaxl (concat (map t_v tr)) + tol44 * M * M))%Q in
  N.lor (flag (list_eqb N.eqb (map i_label impl) (map t_label tr)) 1)
        (lorl (map (nb_info_ok c ln vbit n M tolm tolv) (combine tr impl))).

(* the predicted class attains the maximal joint log-likelihood of the implementation's own state, ties go
   to the smallest label; a NaN likelihood is answered by a panic (None) *)
Definition pred_ok (jl : list (N * T)) (p : option N) : bool :=
  let hasnan := existsb (fun kv => negb (eqb o (snd kv) (snd kv))) jl in
  match p with
  | None => hasnan || match jl with [] => true | _ => false end
  | Some k =>
      negb hasnan &&
      match look k jl with
      | None => false
      | Some v => forallb (fun kv => leb o (snd kv) v && (negb (eqb o (snd kv) v) || N.leb k (fst kv))) jl
      end
  end.

Definition pred_same (jl : list (N * T)) (pb ph : option N) : bool :=
  match pb, ph with
  | Some a, Some b =>
      N.eqb a b || match look a jl, look b jl with
                   | Some va, Some vb => near (x_rel X) (x_out X va) (x_out X vb)
                   | _, _ => false
                   end
  | None, None => true
  | _, _ => false
  end.

Definition nb_oracle (c : nbcase) : N :=
  let ln := ln_of c in
  let qs := cvm (n_query c) in
  let M := absmax (n_X c) in
  let d := N.to_nat (n_d c) in
  let emin := emin_of (concat (n_X c)) in
  let eps := if n_multinomial c then 0%Q
             else (f64_Q (n_param c) * Qmaxl (map (fun j => var_q emin (Zcol emin j (n_X c))) (seq 0 d)))%Q in
  let tr := nb_truth c emin eps in
  let jb := map (nb_jll c ln (n_batch c)) qs in
  (N.lor (nb_state_ok c ln 8 M tr (n_batch c)) (lorl (map (fun h => nb_state_ok c ln 65536 M tr (h_final h)) (n_hists c)))
   + flag (forallb (fun jp => pred_ok (fst jp) (snd jp)) (combine jb (n_batch_pred c))
           && Nat.eqb (length (n_batch_pred c)) (length (n_query c))
           && forallb (fun h => match h_pred h with
                                | [] => true
                                | p => forallb (fun jp => pred_ok (fst jp) (snd jp))
                                               (combine (map (nb_jll c ln (h_final h)) qs) p)
                                end) (n_hists c)) 16
   + flag (forallb (fun h => match h_pred h with
                             | [] => true
                             | p => forallb (fun t => let '(jl, pb, ph) := t in pred_same jl pb ph)
                                            (zip3 jb (n_batch_pred c) p)
                             end) (n_hists c)) 32)%N.

(** ** mini-batch k-means *)
Definition kstate_eqb (s : kstate (F := T) * bool) (k : kstep) : bool :=
  mat_eqb (k_centroids (fst s)) (cvm (ks_centroids k)) && vec_eqb (k_counts (fst s)) (cvl (ks_counts k))
  && x_eq X (k_inertia (fst s)) (cv (ks_inertia k)) && Bool.eqb (snd s) (ks_ok k).

(* corr bit 8: some step of the history differs from the model run on the same history *)
Fixpoint km_corr_go (cm : bool) (m : metric) (tol : T) (st : kstate) (steps : list kstep) : bool :=
  match steps with
  | [] => true
  | k :: r => let s := km_fit_with_lay okm cm m tol st (cvm (ks_X k)) in kstate_eqb s k && km_corr_go cm m tol (fst s) r
  end.
Definition km_corr (c : kcase) : N :=
  flag (km_corr_go (kc_initF c) (kc_metric c) (cv (kc_tol c)) (k_init okm (cvm (kc_init c))) (kc_steps c)) 8.

(* oracle bits (k-means): 128 counts not cumulative, 256 centroid is not the running mean of the points
   assigned so far / untouched centroid moved, 512 converged flag untruthful, 1024 inertia is not the mean
   distance of the batch, 2048 shape / non-finite *)
Fixpoint km_oracle_go (cm : bool) (m : metric) (tol : float) (init prev : list (list float)) (pcnt : list float)
         (log : list (nat * list float)) (M : Q) (emin : Z) (steps : list kstep) : N :=
  match steps with
  | [] => 0%N
  | k :: r =>
      let a := assign okm m (cvm prev) (cvm (ks_X k)) in
      let ms := map fst a in
      let log' := log ++ combine ms (ks_X k) in
      let kk := length init in
      let d := match init with [] => 0%nat | c0 :: _ => length c0 end in
      let shape := Nat.eqb (length (ks_centroids k)) kk && Nat.eqb (length (ks_counts k)) kk
                   && forallb (fun c => Nat.eqb (length c) d && forallb f64_finite c) (ks_centroids k) in
      let cum := forallb (fun c => x_eq X (cv (nth c (ks_counts k) nan))
                                     (add o (cv (nth c pcnt nan)) (of_N o (count_eq ms c))))
                         (seq 0 kk)
                 && x_eq X (seq_sum o (cvl (ks_counts k))) (of_N o (N.of_nat (length log'))) in
      let mean_ok := forallb (fun c =>
                       let pts := assigned c log' in
                       let cen := nth c (ks_centroids k) [] in
                       match pts with
                       | [] => list_eqb f64_biteq cen (nth c init [])
                       | _ => forallb (fun j => Qclose (x_tsc X * tol40 * M) (nth j cen nan) (mean_q emin (Zcol emin j pts)))
                                      (seq 0 d)
                       end) (seq 0 kk) in
      let flag_ok := Bool.eqb (ks_ok k) (ltb o (dist okm m (flat okm cm (cvm prev)) (flat okm cm (cvm (ks_centroids k)))) (cv tol)) in
      let inertia_ok := x_eq X (cv (ks_inertia k))
                          (div o (usum o (map snd a)) (of_N o (N.of_nat (length (ks_X k))))) in
      N.lor (flag shape 2048 + flag cum 128 + flag mean_ok 256 + flag flag_ok 512 + flag inertia_ok 1024)%N
            (km_oracle_go cm m tol init (ks_centroids k) (ks_counts k) log' M emin r)
  end.
Definition km_oracle (c : kcase) : N :=
  (* the data scale, no absolute floor: the tolerance of the running-mean check is relative at every magnitude *)
  let M := Qmaxl [absmax (kc_init c); absmax (concat (map ks_X (kc_steps c)))] in
  km_oracle_go (kc_initF c) (kc_metric c) (kc_tol c) (kc_init c) (kc_init c) (map (fun _ => 0%float) (kc_init c)) [] M
               (emin_of (concat (concat (map ks_X (kc_steps c))))) (kc_steps c).

(** ** FTRL *)
Definition fpar (c : fcase) : fparams (F := T) :=
  {| f_alpha := cv (fc_alpha c); f_beta := cv (fc_beta c); f_l1 := cv (fc_l1 c); f_l2 := cv (fc_l2 c) |}.

(* corr bits: 16 z/n after some update differ from the model, 32 get_weights differs *)
Fixpoint ftrl_corr_go (p : fparams) (d : nat) (st : list T * list T) (steps : list fstep) : N :=
  match steps with
  | [] => 0%N
  | s :: r =>
      let st' := ftrl_update_lay o p d st (fs_contig s, cvm (fs_X s), fs_y s, cvl (fs_p s)) in
      N.lor (flag (vec_eqb (fst st') (cvl (fs_z s)) && vec_eqb (snd st') (cvl (fs_n s))) 16
             + flag (vec_eqb (ftrl_weights o p (cvl (fs_z s)) (cvl (fs_n s))) (cvl (fs_w s))) 32)%N
            (ftrl_corr_go p d st' r)
  end.
Definition ftrl_corr (c : fcase) : N :=
  N.lor (flag (vec_eqb (ftrl_weights o (fpar c) (cvl (fc_z0 c)) (cvl (fc_n0 c))) (cvl (fc_w0 c))) 32)
        (ftrl_corr_go (fpar c) (N.to_nat (fc_d c)) (cvl (fc_z0 c), cvl (fc_n0 c)) (fc_steps c)).
End Generic.

(** FTRL oracles: the values are binary64 literals in both instantiations (comparisons and exact rationals do
    not depend on the element type); only the tolerance scale [tsc] does.
    oracle bits (FTRL): 4096 a weight is zero although |z| > l1, or non-zero although |z| <= l1;
    8192 n' is not n + g^2; 16384 z' is not z + g - sigma w (g recomputed exactly from the batch);
    32768 shape / non-finite state; 16777216 a non-zero weight is not the proximal closed form *)
(* [tiny] = half the smallest subnormal of the element type (2^-1075, 2^-150): a quotient below it rounds to zero.
   The only IEEE constants of the oracle; they matter for |z| - l1 around 1e-300 only. *)
Definition ftrl_den (c : fcase) (n : float) : Q :=
  ((f64_Q (PrimFloat.sqrt n) + f64_Q (fc_beta c)) / f64_Q (fc_alpha c) + f64_Q (fc_l2 c))%Q.
Definition zero_iff (tiny : Q) (c : fcase) (z n w : float) : bool :=
  let l1 := fc_l1 c in
  if PrimFloat.leb (fabs z) l1 then PrimFloat.eqb w 0
  else negb (PrimFloat.eqb w 0)
       || (* underflow: the exact closed form is below half the smallest subnormal *)
          (f64_finite z && f64_finite n &&
           Qle_bool (Qabs' ((if PrimFloat.ltb z 0 then (-1)%Q else 1%Q) * f64_Q l1 - f64_Q z)) (tiny * ftrl_den c n)).
Definition zero_iff_all (tiny : Q) (c : fcase) (z n w : list float) : bool :=
  forallb (fun t => let '(zj, nj, wj) := t in zero_iff tiny c zj nj wj) (zip3 z n w).
(* a non-zero weight is the documented closed form (sgn z * l1 - z) / ((sqrt n + beta) / alpha + l2):
   w * denominator is compared with the numerator over Q (the square root is the correctly rounded float one).
   Where the denominator is exactly zero (beta = 0, l2 = 0, n = 0: finding F-C15-2) the IEEE value of the closed
   form is the infinity of the numerator's sign, and that is what is demanded - the state it leads to is
   rejected by bit 32768. *)
Definition prox_ok (tsc tiny : Q) (l1 beta alpha l2 : float) (z n w : float) : bool :=
  if negb (f64_finite z) then true        (* a non-finite state is reported by bit 32768 *)
  else if PrimFloat.leb (fabs z) l1 then PrimFloat.eqb w 0
  else
    let s : Q := if PrimFloat.ltb z 0 then (-1)%Q else 1%Q in
    let den := ((f64_Q (PrimFloat.sqrt n) + f64_Q beta) / f64_Q alpha + f64_Q l2)%Q in
    if Qeq_bool den 0 then f64_biteq w (if PrimFloat.ltb z 0 then infinity else neg_infinity)
    else
      f64_finite w &&
      Qle_bool (Qabs' (f64_Q w * den - (s * f64_Q l1 - f64_Q z))) (tsc * tol32 * (Qabs' (f64_Q z) + f64_Q l1) + tiny * den).
Definition prox_all (tsc tiny : Q) (c : fcase) (z n w : list float) : bool :=
  forallb (fun t => let '(zj, nj, wj) := t in prox_ok tsc tiny (fc_l1 c) (fc_beta c) (fc_alpha c) (fc_l2 c) zj nj wj) (zip3 z n w).

Definition Qgrad (j : nat) (s : fstep) : Q :=
  let ep := emin_of (fs_p s) in
  let ex := emin_of (concat (fs_X s)) in
  let one_p := Z.shiftl 1 (- ep) in
  inject_Z (Zsum (map (fun t => let '(r, y, p) := t in
                                ((toZ ep p - (if y : bool then one_p else 0)) * toZ ex (nth j r 0%float))%Z)
                      (zip3 (fs_X s) (fs_y s) (fs_p s)))) * Qpow2 (ep + ex).
(* sum of the magnitudes of the gradient's terms: the floating-point gradient is within a few ulps of THIS (not of
   the possibly cancelled exact gradient) *)
Definition QgradAbs (j : nat) (s : fstep) : Q :=
  let ep := emin_of (fs_p s) in
  let ex := emin_of (concat (fs_X s)) in
  let one_p := Z.shiftl 1 (- ep) in
  inject_Z (Zsum (map (fun t => let '(r, y, p) := t in
                                Z.abs ((toZ ep p - (if y : bool then one_p else 0)) * toZ ex (nth j r 0%float))%Z)
                      (zip3 (fs_X s) (fs_y s) (fs_p s)))) * Qpow2 (ep + ex).
Fixpoint ftrl_oracle_go (tsc tiny : Q) (c : fcase) (z n w : list float) (steps : list fstep) : N :=
  match steps with
  | [] => 0%N
  | s :: r =>
      let d := N.to_nat (fc_d c) in
      let js := seq 0 d in
      let shape := Nat.eqb (length (fs_z s)) d && Nat.eqb (length (fs_n s)) d && Nat.eqb (length (fs_w s)) d
                   && forallb f64_finite (fs_z s) && forallb f64_finite (fs_n s) in
      let wz := zero_iff_all tiny c (fs_z s) (fs_n s) (fs_w s) in
      let nq := forallb (fun j => let g := Qgrad j s in
                                  let ga := QgradAbs j s in
                                  f64_finite (nth j (fs_n s) nan) &&
                                  Qle_bool (Qabs' (f64_Q (nth j (fs_n s) nan) - (f64_Q (nth j n nan) + g * g)))
                                           (* + gradual underflow of g*g and of the terms of g *)
                                           (tsc * tol32 * (f64_Q (nth j n nan) + ga * ga) + 4 * tiny)) js in
      let zq := forallb (fun j =>
                  let g := Qgrad j s in
                  let ga := QgradAbs j s in
                  let nj := nth j n nan in
                  let zj := nth j z nan in
                  let wj := nth j w nan in
                  (* sigma * alpha = sqrt(n + g^2) - sqrt n, enclosed through the float square roots *)
                  let sg := PrimFloat.div (PrimFloat.sub (PrimFloat.sqrt (nth j (fs_n s) nan)) (PrimFloat.sqrt nj))
                                          (fc_alpha c) in
                  let expect := (f64_Q zj + g - f64_Q sg * f64_Q wj)%Q in
                  f64_finite sg && f64_finite wj && f64_finite zj && f64_finite (nth j (fs_z s) nan) &&
                  Qle_bool (Qabs' (f64_Q (nth j (fs_z s) nan) - expect))
                           (* relative to the terms and to the cancellation inside sigma: sqrt(n')/alpha * |w| *)
                           (tsc * tol32 * (Qabs' (f64_Q zj) + ga
                                           + Qabs' (f64_Q (PrimFloat.div (PrimFloat.sqrt (nth j (fs_n s) nan)) (fc_alpha c))
                                                    * f64_Q wj))
                            (* gradual underflow of the terms of g and of sigma * w *)
                            + inject_Z (Z.of_nat (length (fs_X s)) + 4) * tiny)) js in
      N.lor (flag shape 32768 + flag wz 4096 + flag nq 8192 + flag zq 16384
             + flag (prox_all tsc tiny c (fs_z s) (fs_n s) (fs_w s)) 16777216)%N
            (ftrl_oracle_go tsc tiny c (fs_z s) (fs_n s) (fs_w s) r)
  end.
Definition ftrl_oracle (tsc tiny : Q) (c : fcase) : N :=
  N.lor (flag (zero_iff_all tiny c (fc_z0 c) (fc_n0 c) (fc_w0 c)) 4096
         + flag (prox_all tsc tiny c (fc_z0 c) (fc_n0 c) (fc_w0 c)) 16777216)%N
        (ftrl_oracle_go tsc tiny c (fc_z0 c) (fc_n0 c) (fc_w0 c) (fc_steps c)).

(** * cases *)
Inductive body := NB (c : nbcase) | KM (c : kcase) | FT (c : fcase).
Record case := { c_id : N; c_body : body }.

Definition run_case (c : case) : verdict :=
  (c_id c,
   match c_body c with
   | NB b => if n_f32 b then (nb_corr x32 b, nb_oracle x32 b) else (nb_corr x64 b, nb_oracle x64 b)
   | KM b => if kc_f32 b then (km_corr x32 b, km_oracle x32 b) else (km_corr x64 b, km_oracle x64 b)
   | FT b => if fc_f32 b then (ftrl_corr x32 b, ftrl_oracle (x_tsc x32) (Qpow2 (-150)) b)
             else (ftrl_corr x64 b, ftrl_oracle (x_tsc x64) (Qpow2 (-1075)) b)
   end).
Definition run_cases (cs : list case) : list N := report (map run_case cs).
