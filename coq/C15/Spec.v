(** C15 - specification vocabulary over the reals: textbook estimates the theorems compare the models with.
    Definitions only. *)
From Coq Require Import List NArith Reals.
From LinfaVerif Require Import Common.Num Common.NdSum C09.Model C15.Model.
Import ListNotations.
Local Open Scope R_scope.

(** the real-number reading of `mul_add` *)
Definition Rfma (a b c : R) : R := a * b + c.

Definition Rsum (l : list R) : R := fold_right Rplus 0 l.
(** sample mean and population variance (ddof = 0) *)
Definition rmean (l : list R) : R := Rsum l / INR (length l).
Definition rpvar (l : list R) : R := Rsum (map (fun x => (x - rmean l) * (x - rmean l)) l) / INR (length l).

(** textbook Gaussian class statistics of the dataset (X, y) for class c: count, relative frequency,
    per-feature mean and population variance (+ the smoothing term e) of the rows labelled c *)
Definition g_textbook (e : R) (d : nat) (X : list (list R)) (y : list N) (c : N) : option (@ginfo R) :=
  match rows_of c X y with
  | [] => None
  | rows => Some {| g_count := N.of_nat (length rows);
                    g_prior := INR (length rows) / INR (length X);
                    g_theta := map rmean (cols R_ops d rows);
                    g_sigma := map (fun v => rpvar v + e) (cols R_ops d rows) |}
  end.

(** additively smoothed log-frequencies of a vector of feature totals *)
Definition m_flp_of (ln : R -> R) (alpha : R) (fc : list R) : list R :=
  let sm := map (fun v => v + alpha) fc in map (fun x => ln x - ln (Rsum sm)) sm.
Definition m_textbook (ln : R -> R) (alpha : R) (d : nat) (X : list (list R)) (y : list N) (c : N)
  : option (@minfo R) :=
  match rows_of c X y with
  | [] => None
  | rows => let fc := map Rsum (cols R_ops d rows) in
            Some {| m_count := N.of_nat (length rows);
                    m_prior := INR (length rows) / INR (length X);
                    m_fcount := fc;
                    m_flp := m_flp_of ln alpha fc |}
  end.

(** a batch is well formed when records and targets have the same number of rows and there is a row *)
Definition wf_batch {A} (b : list (list A) * list N) : Prop :=
  length (fst b) = length (snd b) /\ fst b <> [].
Definition all_X {A} (bs : list (list (list A) * list N)) : list (list A) := concat (map fst bs).
Definition all_y {A} (bs : list (list (list A) * list N)) : list N := concat (map snd bs).

(** k-means: the sequence of (observation, cluster it was assigned to) a history goes through *)
Definition incr_fold {F} (o : NumOps F) (log : list (list F * nat)) (st : list (list F) * list F)
  : list (list F) * list F :=
  fold_left (fun st xm => incr_obs o st (fst xm) (snd xm)) log st.
Fixpoint km_log {F} (o : NumOps F) (m : metric) (tol : F) (st : @kstate F) (bs : list (list (list F)))
  : list (list F * nat) :=
  match bs with
  | [] => []
  | X :: r => combine X (map fst (assign o m (k_centroids st) X))
              ++ km_log o m tol (fst (km_fit_with o m tol st X)) r
  end.
Definition assigned_pts {F} (c : nat) (log : list (list F * nat)) : list (list F) :=
  map fst (filter (fun xm => Nat.eqb (snd xm) c) log).
