(** C15 - incremental naive Bayes: after any history of batches the state holds the textbook estimates of
    the concatenated data (Gaussian: for equal per-batch epsilons, in particular var_smoothing = 0). *)
From Coq Require Import List NArith Reals Lra Lia Arith Sorting.Sorted Bool.
From LinfaVerif Require Import Common.Num Common.NdSum C09.Model C15.Model C15.Spec C15.ProofsStat C15.ProofsAssoc.
Import ListNotations.
Local Open Scope R_scope.

Lemma fold_left_ext {A B} (f g : A -> B -> A) (l : list B) (a : A) :
  (forall a b, f a b = g a b) -> fold_left f l a = fold_left g l a.
Proof. intros H. revert a. induction l as [|b l IH]; intros a; cbn; [reflexivity|]. rewrite H. apply IH. Qed.

Lemma fold_count_sum {A} (f : A -> N) (l : list A) (a : N) :
  fold_left (fun s x => (s + f x)%N) l a = (a + N.of_nat (list_sum (map (fun x => N.to_nat (f x)) l)))%N.
Proof.
  revert a. induction l as [|x l IH]; intros a; cbn [fold_left map]; [cbn; lia|].
  rewrite IH, list_sum_cons. lia.
Qed.

(** * Gaussian *)
Section Gaussian.
Variable d : nat.
Variable e : R.       (* the common epsilon of all batches *)

Definition g_core (i : @ginfo R) : N * list R * list R := (g_count i, g_theta i, g_sigma i).
Definition g_core_rows (rows : list (list R)) : option (N * list R * list R) :=
  match rows with
  | [] => None
  | _ => Some (N.of_nat (length rows), map rmean (cols R_ops d rows), map (fun v => rpvar v + e) (cols R_ops d rows))
  end.

Lemma g_textbook_core X y c : option_map g_core (g_textbook e d X y c) = g_core_rows (rows_of c X y).
Proof. unfold g_textbook, g_core_rows. destruct (rows_of c X y); reflexivity. Qed.

Lemma g_core_rows_nonempty rows : rows <> [] ->
  g_core_rows rows = Some (N.of_nat (length rows), map rmean (cols R_ops d rows), map (fun v => rpvar v + e) (cols R_ops d rows)).
Proof. destruct rows; [congruence|reflexivity]. Qed.

Definition Fm (i : @ginfo R) : @ginfo R :=
  {| g_count := g_count i; g_prior := g_prior i; g_theta := g_theta i; g_sigma := map (fun s => s - e) (g_sigma i) |}.
Definition Fp (i : @ginfo R) : @ginfo R :=
  {| g_count := g_count i; g_prior := g_prior i; g_theta := g_theta i; g_sigma := map (fun s => s + e) (g_sigma i) |}.

Definition g_new (X : list (list R)) (y : list N) (c : N) (oi : option (@ginfo R)) : @ginfo R :=
  let rows := rows_of c X y in
  let i := match oi with Some i => i | None => g_default R_ops end in
  {| g_count := (g_count i + N.of_nat (length rows))%N; g_prior := g_prior i;
     g_theta := fst (update_mv R_ops Rfma d i rows); g_sigma := snd (update_mv R_ops Rfma d i rows) |}.

Lemma g_class_step_eq X y st c :
  g_class_step R_ops Rfma d X y st c = ins c (g_new X y c (look c st)) st.
Proof. unfold g_class_step, g_new. destruct (update_mv _ _ _ _ _). reflexivity. Qed.

(* the state before the priors are refreshed *)
Definition g_pre (st : @gstate R) (X : list (list R)) (y : list N) : @gstate R :=
  g_map_sigma (fun s => s + e)
    (fold_left (g_class_step R_ops Rfma d X y) (labels y) (g_map_sigma (fun s => s - e) st)).

Lemma g_pre_look st Xb yb c :
  look c (g_pre st Xb yb) =
    option_map Fp (if in_dec N.eq_dec c (labels yb)
                   then Some (g_new Xb yb c (option_map Fm (look c st)))
                   else option_map Fm (look c st)).
Proof.
  unfold g_pre, g_map_sigma.
  rewrite (look_map Fp).
  rewrite (fold_left_ext _ (fun s k => ins k (g_new Xb yb k (look k s)) s)) by (intros; apply g_class_step_eq).
  rewrite (fold_step_look (g_new Xb yb) (labels yb) (labels_nodup yb)).
  rewrite (look_map Fm). reflexivity.
Qed.

Lemma g_pre_sorted st Xb yb :
  StronglySorted N.lt (map fst st) -> StronglySorted N.lt (map fst (g_pre st Xb yb)).
Proof.
  intros Hs. unfold g_pre, g_map_sigma. rewrite (keys_map Fp).
  rewrite (fold_left_ext _ (fun s k => ins k (g_new Xb yb k (look k s)) s)) by (intros; apply g_class_step_eq).
  apply fold_step_sorted. rewrite (keys_map Fm). exact Hs.
Qed.

Lemma map_sub_add (l : list (list R)) :
  map (fun s => s - e) (map (fun v => rpvar v + e) l) = map rpvar l.
Proof. rewrite map_map. apply map_ext. intros v. ring. Qed.
Lemma map_add_rpvar (l : list (list R)) :
  map (fun s => s + e) (map rpvar l) = map (fun v => rpvar v + e) l.
Proof. rewrite map_map. reflexivity. Qed.

Lemma g_pre_core st X y Xb yb :
  (forall c, option_map g_core (look c st) = g_core_rows (rows_of c X y)) ->
  length X = length y -> length Xb = length yb ->
  forall c, option_map g_core (look c (g_pre st Xb yb)) = g_core_rows (rows_of c (X ++ Xb) (y ++ yb)).
Proof.
  intros H HX HXb c. rewrite g_pre_look, rows_of_app by exact HX.
  specialize (H c). set (A := rows_of c X y) in *. set (B := rows_of c Xb yb).
  destruct (in_dec N.eq_dec c (labels yb)) as [Hin|Hnin].
  - assert (HB : B <> []) by (apply rows_of_in_nonempty; [exact HXb|apply labels_in; exact Hin]).
    assert (HAB : A ++ B <> []) by (destruct A; [exact HB|cbn; congruence]).
    rewrite (g_core_rows_nonempty _ HAB). cbn [option_map].
    destruct (look c st) as [i|] eqn:El; cbn [option_map] in *.
    + destruct A as [|a A'] eqn:EA; [discriminate|]. rewrite <- EA in *.
      assert (HA : A <> []) by (rewrite EA; congruence).
      rewrite (g_core_rows_nonempty _ HA) in H. inversion H as [[H1 H2 H3]].
      unfold g_new, g_core, Fp. cbn [g_count g_theta g_sigma g_prior]. fold B.
      rewrite (update_mv_pooled d (Fm i) A B HA HB); cbn [Fm g_count g_theta g_sigma fst snd];
        [|exact H1|exact H2|rewrite H3; apply map_sub_add].
      rewrite H1, map_add_rpvar, app_length, Nnat.Nat2N.inj_add. reflexivity.
    + destruct A as [|a A']; [|discriminate].
      unfold g_new, g_core, Fp. cbn [g_count g_theta g_sigma g_prior]. fold B.
      rewrite (update_mv_first d (g_default R_ops) B eq_refl HB). cbn [fst snd g_default g_count app].
      rewrite map_add_rpvar. reflexivity.
  - assert (HB : B = []).
    { destruct B eqn:EB; [reflexivity|]. exfalso. apply Hnin. apply labels_in.
      apply (rows_of_nonempty_in c Xb yb). fold B. rewrite EB. congruence. }
    rewrite HB, app_nil_r. rewrite <- H.
    destruct (look c st) as [i|] eqn:El; cbn [option_map] in *; [|reflexivity].
    destruct A as [|a A'] eqn:EA; [discriminate|]. rewrite <- EA in *.
    assert (HA : A <> []) by (rewrite EA; congruence).
    rewrite (g_core_rows_nonempty _ HA) in H. inversion H as [[H1 H2 H3]].
    unfold g_core, Fp, Fm. cbn [g_count g_theta g_sigma]. rewrite H3.
    rewrite map_sub_add, map_add_rpvar. reflexivity.
Qed.

Lemma g_total (st : @gstate R) X y :
  StronglySorted N.lt (map fst st) ->
  (forall c, option_map g_core (look c st) = g_core_rows (rows_of c X y)) ->
  length X = length y ->
  fold_left (fun s ci => (s + g_count (snd ci))%N) st 0%N = N.of_nat (length X).
Proof.
  intros Hs H HX. rewrite fold_count_sum. cbn [N.add]. f_equal.
  pose proof (sorted_nodup _ Hs) as Hn.
  rewrite <- (partition_count (map fst st) X y Hn HX).
  - rewrite map_map. f_equal. apply map_ext_in. intros [c i] Hin. cbn [fst snd].
    specialize (H c). rewrite (in_look c i st Hn Hin) in H. cbn [option_map] in H.
    destruct (rows_of c X y) as [|r rows] eqn:E; [discriminate|].
    cbn [g_core_rows] in H. inversion H as [[H1 H2 H3]]. rewrite H1. cbn [length]. lia.
  - intros c Hc. destruct (in_dec N.eq_dec c (map fst st)) as [i|n]; [exact i|]. exfalso.
    apply look_none_keys in n. specialize (H c). rewrite n in H. cbn [option_map] in H.
    pose proof (rows_of_in_nonempty c X y HX Hc) as Hne. destruct (rows_of c X y); [congruence|discriminate].
Qed.

Lemma g_set_priors_look (st : @gstate R) X y :
  StronglySorted N.lt (map fst st) ->
  (forall c, option_map g_core (look c st) = g_core_rows (rows_of c X y)) ->
  length X = length y ->
  forall c, look c (g_set_priors R_ops st) = g_textbook e d X y c.
Proof.
  intros Hs H HX c. unfold g_set_priors. rewrite (g_total st X y Hs H HX).
  rewrite (look_map (fun i => {| g_count := g_count i;
                                  g_prior := div R_ops (of_N R_ops (g_count i)) (of_N R_ops (N.of_nat (length X)));
                                  g_theta := g_theta i; g_sigma := g_sigma i |})).
  specialize (H c). unfold g_textbook. set (rs := rows_of c X y) in *. clearbody rs.
  destruct (look c st) as [i|]; cbn [option_map] in *.
  - assert (Hr : rs <> []) by (intros ->; discriminate).
    rewrite (g_core_rows_nonempty _ Hr) in H.
    destruct i as [cnt pr th sg]. unfold g_core in H. cbn [g_count g_theta g_sigma g_prior] in *.
    injection H as H1 H2 H3. subst cnt th sg. rewrite !of_N_nat.
    destruct rs; [congruence|reflexivity].
  - destruct rs; [reflexivity|discriminate].
Qed.

Lemma g_set_priors_keys (st : @gstate R) : map fst (g_set_priors R_ops st) = map fst st.
Proof.
  unfold g_set_priors.
  apply (keys_map (fun i => {| g_count := g_count i;
                               g_prior := div R_ops (of_N R_ops (g_count i))
                                            (of_N R_ops (fold_left (fun s ci => (s + g_count (snd ci))%N) st 0%N));
                               g_theta := g_theta i; g_sigma := g_sigma i |})).
Qed.

Definition g_inv (st : @gstate R) (X : list (list R)) (y : list N) : Prop :=
  StronglySorted N.lt (map fst st) /\ (forall c, look c st = g_textbook e d X y c) /\ length X = length y.

Lemma g_fit_with_inv vs st X y Xb yb :
  g_inv st X y -> length Xb = length yb -> gnb_epsilon R_ops Rfma vs d Xb = e ->
  g_inv (gnb_fit_with R_ops Rfma vs d st Xb yb) (X ++ Xb) (y ++ yb).
Proof.
  intros [Hs [Hl HX]] HXb He.
  assert (E : gnb_fit_with R_ops Rfma vs d st Xb yb = g_set_priors R_ops (g_pre st Xb yb)).
  { unfold gnb_fit_with, g_pre. rewrite He. reflexivity. }
  rewrite E.
  assert (Hc : forall c, option_map g_core (look c st) = g_core_rows (rows_of c X y)).
  { intros c. rewrite Hl. apply g_textbook_core. }
  assert (HXX : length (X ++ Xb) = length (y ++ yb)) by (rewrite !app_length; lia).
  split; [|split].
  - rewrite g_set_priors_keys. apply g_pre_sorted. exact Hs.
  - apply g_set_priors_look; [apply g_pre_sorted; exact Hs | apply g_pre_core; assumption | exact HXX].
  - exact HXX.
Qed.

Lemma g_history_inv vs (bs : list (list (list R) * list N)) : forall st X y,
  g_inv st X y ->
  Forall (fun b => wf_batch b /\ gnb_epsilon R_ops Rfma vs d (fst b) = e) bs ->
  g_inv (fold_left (fun st b => gnb_fit_with R_ops Rfma vs d st (fst b) (snd b)) bs st)
        (X ++ all_X bs) (y ++ all_y bs).
Proof.
  induction bs as [|b bs IH]; intros st X y Hi Hf; cbn [fold_left].
  - unfold all_X, all_y. cbn. rewrite !app_nil_r. exact Hi.
  - inversion Hf as [|? ? [[Hw1 Hw2] He] Hf']; subst.
    unfold all_X, all_y. cbn [map concat]. rewrite !app_assoc.
    apply IH; [|exact Hf']. apply g_fit_with_inv; assumption.
Qed.

Lemma g_inv_nil : g_inv [] [] [].
Proof. split; [constructor|split; [|reflexivity]]. intros c. reflexivity. Qed.

Theorem gnb_history_textbook_eps vs (bs : list (list (list R) * list N)) :
  Forall (fun b => wf_batch b /\ gnb_epsilon R_ops Rfma vs d (fst b) = e) bs ->
  forall c, look c (gnb_history R_ops Rfma vs d bs) = g_textbook e d (all_X bs) (all_y bs) c.
Proof.
  intros Hf. unfold gnb_history. destruct (g_history_inv vs bs [] [] [] g_inv_nil Hf) as [_ [H _]]. exact H.
Qed.
End Gaussian.

(** * multinomial *)
Section Multinomial.
Variable d : nat.
Variable ln : R -> R.
Variable alpha : R.

Definition m_core (i : @minfo R) : N * list R * list R := (m_count i, m_fcount i, m_flp i).
Definition m_core_rows (rows : list (list R)) : option (N * list R * list R) :=
  match rows with
  | [] => None
  | _ => Some (N.of_nat (length rows), map Rsum (cols R_ops d rows),
               m_flp_of ln alpha (map Rsum (cols R_ops d rows)))
  end.

Lemma m_textbook_core X y c : option_map m_core (m_textbook ln alpha d X y c) = m_core_rows (rows_of c X y).
Proof. unfold m_textbook, m_core_rows. destruct (rows_of c X y); reflexivity. Qed.

Lemma m_core_rows_nonempty rows : rows <> [] ->
  m_core_rows rows = Some (N.of_nat (length rows), map Rsum (cols R_ops d rows),
                           m_flp_of ln alpha (map Rsum (cols R_ops d rows))).
Proof. destruct rows; [congruence|reflexivity]. Qed.

Definition m_new (X : list (list R)) (y : list N) (c : N) (oi : option (@minfo R)) : @minfo R :=
  let rows := rows_of c X y in
  let i := match oi with Some i => i | None => m_default R_ops end in
  {| m_count := (m_count i + N.of_nat (length rows))%N; m_prior := m_prior i;
     m_fcount := snd (update_flp R_ops ln alpha d i rows); m_flp := fst (update_flp R_ops ln alpha d i rows) |}.

Lemma m_class_step_eq X y st c :
  m_class_step R_ops ln alpha d X y st c = ins c (m_new X y c (look c st)) st.
Proof. unfold m_class_step, m_new. destruct (update_flp _ _ _ _ _ _). reflexivity. Qed.

Definition m_pre (st : @mstate R) (X : list (list R)) (y : list N) : @mstate R :=
  fold_left (m_class_step R_ops ln alpha d X y) (labels y) st.

Lemma m_pre_look st Xb yb c :
  look c (m_pre st Xb yb) =
    if in_dec N.eq_dec c (labels yb) then Some (m_new Xb yb c (look c st)) else look c st.
Proof.
  unfold m_pre.
  rewrite (fold_left_ext _ (fun s k => ins k (m_new Xb yb k (look k s)) s)) by (intros; apply m_class_step_eq).
  apply (fold_step_look (m_new Xb yb) (labels yb) (labels_nodup yb)).
Qed.

Lemma m_pre_sorted st Xb yb :
  StronglySorted N.lt (map fst st) -> StronglySorted N.lt (map fst (m_pre st Xb yb)).
Proof.
  intros Hs. unfold m_pre.
  rewrite (fold_left_ext _ (fun s k => ins k (m_new Xb yb k (look k s)) s)) by (intros; apply m_class_step_eq).
  apply fold_step_sorted. exact Hs.
Qed.

Lemma m_pre_core st X y Xb yb :
  (forall c, option_map m_core (look c st) = m_core_rows (rows_of c X y)) ->
  length X = length y -> length Xb = length yb ->
  forall c, option_map m_core (look c (m_pre st Xb yb)) = m_core_rows (rows_of c (X ++ Xb) (y ++ yb)).
Proof.
  intros H HX HXb c. rewrite m_pre_look, rows_of_app by exact HX.
  specialize (H c). set (A := rows_of c X y) in *. set (B := rows_of c Xb yb).
  destruct (in_dec N.eq_dec c (labels yb)) as [Hin|Hnin].
  - assert (HB : B <> []) by (apply rows_of_in_nonempty; [exact HXb|apply labels_in; exact Hin]).
    assert (HAB : A ++ B <> []) by (destruct A; [exact HB|cbn; congruence]).
    rewrite (m_core_rows_nonempty _ HAB). cbn [option_map].
    destruct (look c st) as [i|] eqn:El; cbn [option_map] in *.
    + assert (HA : A <> []) by (intros E; rewrite E in H; discriminate).
      rewrite (m_core_rows_nonempty _ HA) in H. unfold m_core in H. injection H as H1 H2 H3.
      unfold m_new, m_core. cbn [m_count m_fcount m_flp m_prior]. fold B.
      rewrite (update_flp_spec ln alpha d i A B HB H1 (fun _ => H2)). cbn [fst snd].
      rewrite H1, app_length, Nnat.Nat2N.inj_add. reflexivity.
    + assert (HA : A = []) by (destruct A; [reflexivity|discriminate]).
      unfold m_new, m_core. cbn [m_count m_fcount m_flp m_prior]. fold B.
      rewrite (update_flp_spec ln alpha d (m_default R_ops) [] B HB eq_refl (fun E => False_ind _ (E eq_refl))).
      rewrite HA. cbn [fst snd m_default m_count app length]. reflexivity.
  - assert (HB : B = []).
    { destruct B eqn:EB; [reflexivity|]. exfalso. apply Hnin. apply labels_in.
      apply (rows_of_nonempty_in c Xb yb). fold B. rewrite EB. congruence. }
    rewrite HB, app_nil_r. exact H.
Qed.

Lemma m_total (st : @mstate R) X y :
  StronglySorted N.lt (map fst st) ->
  (forall c, option_map m_core (look c st) = m_core_rows (rows_of c X y)) ->
  length X = length y ->
  fold_left (fun s ci => (s + m_count (snd ci))%N) st 0%N = N.of_nat (length X).
Proof.
  intros Hs H HX. rewrite fold_count_sum. cbn [N.add]. f_equal.
  pose proof (sorted_nodup _ Hs) as Hn.
  rewrite <- (partition_count (map fst st) X y Hn HX).
  - rewrite map_map. f_equal. apply map_ext_in. intros [c i] Hin. cbn [fst snd].
    specialize (H c). rewrite (in_look c i st Hn Hin) in H. cbn [option_map] in H.
    set (rs := rows_of c X y) in *. clearbody rs.
    assert (Hr : rs <> []) by (intros ->; discriminate).
    rewrite (m_core_rows_nonempty _ Hr) in H. unfold m_core in H. injection H as H1 H2 H3.
    rewrite H1, Nnat.Nat2N.id. reflexivity.
  - intros c Hc. destruct (in_dec N.eq_dec c (map fst st)) as [i|n]; [exact i|]. exfalso.
    apply look_none_keys in n. specialize (H c). rewrite n in H. cbn [option_map] in H.
    pose proof (rows_of_in_nonempty c X y HX Hc) as Hne. destruct (rows_of c X y); [congruence|discriminate].
Qed.

Lemma m_set_priors_look (st : @mstate R) X y :
  StronglySorted N.lt (map fst st) ->
  (forall c, option_map m_core (look c st) = m_core_rows (rows_of c X y)) ->
  length X = length y ->
  forall c, look c (m_set_priors R_ops st) = m_textbook ln alpha d X y c.
Proof.
  intros Hs H HX c. unfold m_set_priors. rewrite (m_total st X y Hs H HX).
  rewrite (look_map (fun i => {| m_count := m_count i;
                                  m_prior := div R_ops (of_N R_ops (m_count i)) (of_N R_ops (N.of_nat (length X)));
                                  m_fcount := m_fcount i; m_flp := m_flp i |})).
  specialize (H c). unfold m_textbook. set (rs := rows_of c X y) in *. clearbody rs.
  destruct (look c st) as [i|]; cbn [option_map] in *.
  - assert (Hr : rs <> []) by (intros ->; discriminate).
    rewrite (m_core_rows_nonempty _ Hr) in H.
    destruct i as [cnt pr fc fl]. unfold m_core in H. cbn [m_count m_fcount m_flp m_prior] in *.
    injection H as H1 H2 H3. subst cnt fc fl. rewrite !of_N_nat.
    destruct rs; [congruence|reflexivity].
  - destruct rs; [reflexivity|discriminate].
Qed.

Lemma m_set_priors_keys (st : @mstate R) : map fst (m_set_priors R_ops st) = map fst st.
Proof.
  unfold m_set_priors.
  apply (keys_map (fun i => {| m_count := m_count i;
                               m_prior := div R_ops (of_N R_ops (m_count i))
                                            (of_N R_ops (fold_left (fun s ci => (s + m_count (snd ci))%N) st 0%N));
                               m_fcount := m_fcount i; m_flp := m_flp i |})).
Qed.

Definition m_inv (st : @mstate R) (X : list (list R)) (y : list N) : Prop :=
  StronglySorted N.lt (map fst st) /\ (forall c, look c st = m_textbook ln alpha d X y c) /\ length X = length y.

Lemma m_fit_with_inv st X y Xb yb :
  m_inv st X y -> length Xb = length yb ->
  m_inv (mnb_fit_with R_ops ln alpha d st Xb yb) (X ++ Xb) (y ++ yb).
Proof.
  intros [Hs [Hl HX]] HXb.
  change (mnb_fit_with R_ops ln alpha d st Xb yb) with (m_set_priors R_ops (m_pre st Xb yb)).
  assert (Hc : forall c, option_map m_core (look c st) = m_core_rows (rows_of c X y)).
  { intros c. rewrite Hl. apply m_textbook_core. }
  assert (HXX : length (X ++ Xb) = length (y ++ yb)) by (rewrite !app_length; lia).
  split; [|split].
  - rewrite m_set_priors_keys. apply m_pre_sorted. exact Hs.
  - apply m_set_priors_look; [apply m_pre_sorted; exact Hs | apply m_pre_core; assumption | exact HXX].
  - exact HXX.
Qed.

Lemma m_history_inv (bs : list (list (list R) * list N)) : forall st X y,
  m_inv st X y -> Forall wf_batch bs ->
  m_inv (fold_left (fun st b => mnb_fit_with R_ops ln alpha d st (fst b) (snd b)) bs st)
        (X ++ all_X bs) (y ++ all_y bs).
Proof.
  induction bs as [|b bs IH]; intros st X y Hi Hf; cbn [fold_left].
  - unfold all_X, all_y. cbn. rewrite !app_nil_r. exact Hi.
  - inversion Hf as [|? ? [Hw1 Hw2] Hf']; subst.
    unfold all_X, all_y. cbn [map concat]. rewrite !app_assoc.
    apply IH; [|exact Hf']. apply m_fit_with_inv; assumption.
Qed.

Theorem mnb_history_textbook_all (bs : list (list (list R) * list N)) :
  Forall wf_batch bs ->
  forall c, look c (mnb_history R_ops ln alpha d bs) = m_textbook ln alpha d (all_X bs) (all_y bs) c.
Proof.
  intros Hf. unfold mnb_history.
  assert (H0 : m_inv [] [] []).
  { split; [constructor|split; [|reflexivity]]. intros c. reflexivity. }
  destruct (m_history_inv bs [] [] [] H0 Hf) as [_ [H _]]. exact H.
Qed.
End Multinomial.
