(** C15 - sorted association lists, class labels and the partition of a batch by label. *)
From Coq Require Import List NArith Lia Arith Sorting.Sorted Bool.
From LinfaVerif Require Import Common.Num C15.Model.
Import ListNotations.

Section Assoc.
Context {A : Type}.
Implicit Types (l : list (N * A)) (c k : N) (v : A).

Lemma look_ins_same c v l : look c (ins c v l) = Some v.
Proof.
  induction l as [|[k w] t IH]; cbn [ins look].
  - rewrite N.eqb_refl. reflexivity.
  - destruct (N.ltb c k) eqn:E1.
    + cbn [look]. rewrite N.eqb_refl. reflexivity.
    + destruct (N.eqb c k) eqn:E2; cbn [look].
      * rewrite N.eqb_refl. reflexivity.
      * rewrite E2. exact IH.
Qed.

Lemma look_ins_other c c' v l : c' <> c -> look c' (ins c v l) = look c' l.
Proof.
  intros Hn. assert (Hn' : N.eqb c' c = false) by (apply N.eqb_neq; exact Hn).
  induction l as [|[k w] t IH]; cbn [ins look].
  - rewrite Hn'. reflexivity.
  - destruct (N.ltb c k) eqn:E1.
    + cbn [look]. rewrite Hn'. reflexivity.
    + destruct (N.eqb c k) eqn:E2; cbn [look].
      * apply N.eqb_eq in E2. subst k. rewrite Hn'. reflexivity.
      * destruct (N.eqb c' k); [reflexivity|exact IH].
Qed.

Lemma ins_keys c v l x : In x (map fst (ins c v l)) -> x = c \/ In x (map fst l).
Proof.
  induction l as [|[k w] t IH]; cbn [ins map fst In].
  - intros [H|[]]; auto.
  - destruct (N.ltb c k) eqn:E1; [|destruct (N.eqb c k) eqn:E2]; cbn [map fst In]; intros H.
    + destruct H as [H|H]; auto.
    + apply N.eqb_eq in E2. subst k. destruct H as [H|H]; auto.
    + destruct H as [H|H]; auto. destruct (IH H); auto.
Qed.

Lemma ins_sorted c v l :
  StronglySorted N.lt (map fst l) -> StronglySorted N.lt (map fst (ins c v l)).
Proof.
  induction l as [|[k w] t IH]; cbn [ins map fst]; intros Hs.
  - constructor; constructor.
  - destruct (N.ltb c k) eqn:E1; [|destruct (N.eqb c k) eqn:E2]; cbn [map fst].
    + apply N.ltb_lt in E1. constructor; [exact Hs|].
      constructor; [exact E1|]. apply StronglySorted_inv in Hs. destruct Hs as [_ Hf].
      eapply Forall_impl; [|exact Hf]. intros a Ha. cbn [fst] in *. lia.
    + apply N.eqb_eq in E2. subst k. exact Hs.
    + apply StronglySorted_inv in Hs. destruct Hs as [Hs Hf]. constructor; [apply IH; exact Hs|].
      apply Forall_forall. intros x Hx. apply ins_keys in Hx. destruct Hx as [->|Hx].
      * apply N.ltb_ge in E1. apply N.eqb_neq in E2. cbn [fst]. lia.
      * rewrite Forall_forall in Hf. apply Hf. exact Hx.
Qed.

Lemma sorted_nodup (ks : list N) : StronglySorted N.lt ks -> NoDup ks.
Proof.
  induction ks as [|k t IH]; intros Hs; [constructor|].
  apply StronglySorted_inv in Hs. destruct Hs as [Hs Hf]. constructor; [|apply IH; exact Hs].
  intros Hin. rewrite Forall_forall in Hf. specialize (Hf k Hin). lia.
Qed.

Lemma look_in c v l : look c l = Some v -> In (c, v) l.
Proof.
  induction l as [|[k w] t IH]; cbn [look]; [discriminate|].
  destruct (N.eqb c k) eqn:E; intros H.
  - apply N.eqb_eq in E. subst k. inversion H. left. reflexivity.
  - right. apply IH. exact H.
Qed.

Lemma in_look c v l : NoDup (map fst l) -> In (c, v) l -> look c l = Some v.
Proof.
  induction l as [|[k w] t IH]; cbn [look map fst]; intros Hn Hin; [destruct Hin|].
  inversion Hn as [|? ? Hk Hn']; subst. destruct Hin as [Hin|Hin].
  - inversion Hin; subst. rewrite N.eqb_refl. reflexivity.
  - destruct (N.eqb c k) eqn:E.
    + apply N.eqb_eq in E. subst k. exfalso. apply Hk. apply in_map_iff. exists (c, v). auto.
    + apply IH; assumption.
Qed.

Lemma look_none_keys c l : look c l = None <-> ~ In c (map fst l).
Proof.
  induction l as [|[k w] t IH]; cbn [look map fst In]; [tauto|].
  destruct (N.eqb c k) eqn:E.
  - apply N.eqb_eq in E. subst k. split; [discriminate|]. intros H. exfalso. apply H. auto.
  - apply N.eqb_neq in E. rewrite IH. split; intros H; [intros [H1|H1]; [congruence|auto]|tauto].
Qed.
End Assoc.

Lemma look_map {A B} (f : A -> B) (c : N) (l : list (N * A)) :
  look c (map (fun ci => (fst ci, f (snd ci))) l) = option_map f (look c l).
Proof.
  induction l as [|[k w] t IH]; cbn [look map fst snd option_map]; [reflexivity|].
  destruct (N.eqb c k); [reflexivity|exact IH].
Qed.
Lemma keys_map {A B} (f : A -> B) (l : list (N * A)) :
  map fst (map (fun ci => (fst ci, f (snd ci))) l) = map fst l.
Proof. rewrite map_map. apply map_ext. intros [k w]. reflexivity. Qed.

(** folding a per-class step that rewrites only its own key, over distinct classes *)
Lemma fold_step_look {A} (g : N -> option A -> A) (L : list N) : NoDup L ->
  forall (st : list (N * A)) (c : N),
  look c (fold_left (fun s k => ins k (g k (look k s)) s) L st) =
    if in_dec N.eq_dec c L then Some (g c (look c st)) else look c st.
Proof.
  induction L as [|a L IH]; intros Hn st c; cbn [fold_left]; [reflexivity|].
  inversion Hn as [|? ? Ha Hn']; subst. rewrite (IH Hn').
  destruct (in_dec N.eq_dec c L) as [i|n]; destruct (in_dec N.eq_dec c (a :: L)) as [i'|n'].
  - destruct (N.eq_dec c a) as [->|Hne]; [contradiction|]. rewrite look_ins_other by exact Hne. reflexivity.
  - exfalso. apply n'. right. exact i.
  - destruct i' as [->|i']; [|contradiction]. apply look_ins_same.
  - rewrite look_ins_other; [reflexivity|]. intros ->. apply n'. left. reflexivity.
Qed.
Lemma fold_step_sorted {A} (g : N -> option A -> A) (L : list N) : forall (st : list (N * A)),
  StronglySorted N.lt (map fst st) ->
  StronglySorted N.lt (map fst (fold_left (fun s k => ins k (g k (look k s)) s) L st)).
Proof. induction L as [|a L IH]; intros st Hs; cbn [fold_left]; [exact Hs|]. apply IH. apply ins_sorted. exact Hs. Qed.

(** labels of a batch *)
Lemma labels_fold_in (y : list N) : forall (l : list (N * unit)) c,
  In c (map fst (fold_left (fun l c => ins c tt l) y l)) <-> In c y \/ In c (map fst l).
Proof.
  induction y as [|a y IH]; intros l c; cbn [fold_left In]; [tauto|].
  rewrite IH. split.
  - intros [H|H]; [tauto|]. apply ins_keys in H. destruct H as [->|H]; tauto.
  - intros [[->|H]|H]; [| tauto |].
    + right. destruct (look_none_keys c (ins c tt l)) as [H1 _].
      destruct (in_dec N.eq_dec c (map fst (ins c tt l))) as [i|n]; [exact i|].
      exfalso. rewrite <- look_none_keys in n. rewrite look_ins_same in n. discriminate.
    + right. destruct (N.eq_dec c a) as [->|Hne].
      * destruct (in_dec N.eq_dec a (map fst (ins a tt l))) as [i|n]; [exact i|].
        exfalso. rewrite <- look_none_keys in n. rewrite look_ins_same in n. discriminate.
      * destruct (in_dec N.eq_dec c (map fst (ins a tt l))) as [i|n]; [exact i|].
        exfalso. rewrite <- look_none_keys in n. rewrite look_ins_other in n by exact Hne.
        rewrite look_none_keys in n. contradiction.
Qed.
Lemma labels_in (y : list N) c : In c (labels y) <-> In c y.
Proof. unfold labels. rewrite labels_fold_in. cbn. tauto. Qed.
Lemma labels_fold_sorted (y : list N) : forall (l : list (N * unit)),
  StronglySorted N.lt (map fst l) -> StronglySorted N.lt (map fst (fold_left (fun l c => ins c tt l) y l)).
Proof. induction y as [|a y IH]; intros l Hs; cbn [fold_left]; [exact Hs|]. apply IH. apply ins_sorted. exact Hs. Qed.
Lemma labels_nodup (y : list N) : NoDup (labels y).
Proof. unfold labels. apply sorted_nodup. apply labels_fold_sorted. constructor. Qed.

(** the rows of a class; partition of a batch by class *)
Lemma combine_app' {A B} (a a' : list A) (b b' : list B) : length a = length b ->
  combine (a ++ a') (b ++ b') = combine a b ++ combine a' b'.
Proof.
  revert b. induction a as [|x a IH]; intros [|z b] H; try discriminate; cbn; [reflexivity|].
  rewrite IH; [reflexivity|]. simpl in H. lia.
Qed.
Lemma rows_of_app {F} c (X X' : list (list F)) (y y' : list N) : length X = length y ->
  rows_of c (X ++ X') (y ++ y') = rows_of c X y ++ rows_of c X' y'.
Proof.
  intros H. unfold rows_of. rewrite combine_app' by exact H. rewrite filter_app, map_app. reflexivity.
Qed.
Lemma rows_of_nonempty_in {F} c (X : list (list F)) (y : list N) : rows_of c X y <> [] -> In c y.
Proof.
  unfold rows_of. revert y. induction X as [|x X IH]; intros [|a y]; cbn [combine filter map]; try congruence.
  cbn [snd]. destruct (N.eqb a c) eqn:E.
  - intros _. apply N.eqb_eq in E. left. exact E.
  - intros H. right. apply IH. exact H.
Qed.
Lemma rows_of_in_nonempty {F} c (X : list (list F)) (y : list N) :
  length X = length y -> In c y -> rows_of c X y <> [].
Proof.
  unfold rows_of. revert y. induction X as [|x X IH]; intros [|a y] Hl Hin; cbn [combine filter map snd]; try (destruct Hin; fail); try discriminate.
  destruct (N.eqb a c) eqn:E; [cbn; congruence|].
  apply IH; [simpl in Hl; lia|]. destruct Hin as [->|Hin]; [rewrite N.eqb_refl in E; discriminate|exact Hin].
Qed.

Lemma list_sum_cons (a : nat) l : list_sum (a :: l) = (a + list_sum l)%nat.
Proof. reflexivity. Qed.

Lemma indicator_sum (L : list N) (a : N) : NoDup L -> In a L ->
  list_sum (map (fun c => if N.eqb a c then 1 else 0)%nat L) = 1%nat.
Proof.
  induction L as [|k L IH]; intros Hn Hin; [destruct Hin|].
  inversion Hn as [|? ? Hk Hn']; subst. cbn [map]; rewrite ?list_sum_cons.
  destruct Hin as [->|Hin].
  - rewrite N.eqb_refl. assert (E : list_sum (map (fun c => if N.eqb a c then 1 else 0)%nat L) = 0%nat).
    { clear IH Hn Hn'. induction L as [|k L IH]; [reflexivity|]. cbn [map]; rewrite ?list_sum_cons.
      destruct (N.eqb a k) eqn:E; [apply N.eqb_eq in E; subst; exfalso; apply Hk; left; reflexivity|].
      rewrite IH; [reflexivity|]. intros H. apply Hk. right. exact H. }
    rewrite E. reflexivity.
  - destruct (N.eqb a k) eqn:E; [apply N.eqb_eq in E; subst; contradiction|].
    rewrite IH by assumption. reflexivity.
Qed.

Lemma partition_count {F} (L : list N) (X : list (list F)) (y : list N) :
  NoDup L -> length X = length y -> (forall c, In c y -> In c L) ->
  list_sum (map (fun c => length (rows_of c X y)) L) = length X.
Proof.
  intros Hn. revert y. induction X as [|x X IH]; intros [|a y] Hl Hin; try discriminate.
  - unfold rows_of. cbn. clear. induction L; [reflexivity|]. cbn. exact IHL.
  - assert (E : forall c, length (rows_of c (x :: X) (a :: y)) =
                        ((if N.eqb a c then 1 else 0) + length (rows_of c X y))%nat).
    { intros c. unfold rows_of. cbn [combine filter snd]. destruct (N.eqb a c); reflexivity. }
    rewrite (map_ext _ _ E).
    assert (S : forall (f g : N -> nat) (l : list N),
               list_sum (map (fun c => (f c + g c)%nat) l) = (list_sum (map f l) + list_sum (map g l))%nat).
    { intros f g l. induction l as [|k l IHl]; [reflexivity|]. cbn [map]; rewrite ?list_sum_cons. rewrite IHl. lia. }
    rewrite S. rewrite indicator_sum; [|exact Hn|apply Hin; left; reflexivity].
    rewrite IH; [reflexivity| simpl in Hl; lia |]. intros c Hc. apply Hin. right. exact Hc.
Qed.
