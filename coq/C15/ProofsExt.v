(** C15 - extension lemmas: the FTRL weight denominator (finding F-C15-1: it vanishes exactly at beta = 0, l2 = 0,
    n = 0, inside the guarded parameter ranges) and the zero-weight clause in every arithmetic. *)
From Coq Require Import List NArith Reals Lra Lia Arith Bool Floats SpecFloat.
From LinfaVerif Require Import Common.Num Common.NdSum Common.B32 Common.Fma C09.Model C15.Model C15.Spec C15.ProofsStat C15.ProofsKF C15.ProofsT2.
Import ListNotations.
Local Open Scope R_scope.

(** the (<=) half of the zero-weight clause is definitional: it holds in every arithmetic, binary32 and
    binary64 included, zero denominators included *)
Lemma prox_zero_any {F} (o : NumOps F) (p : @fparams F) z n :
  leb o (mul o z (sgn o z)) (f_l1 p) = true -> prox o p z n = zero o.
Proof. intros H. unfold prox. rewrite H. reflexivity. Qed.

(** what `FtrlParams::check_ref` accepts (alpha > 0 is documented; the guard itself also lets alpha = 0 through,
    which is C04's subject) *)
Definition ftrl_guard (p : @fparams R) : Prop :=
  0 < f_alpha p /\ 0 <= f_beta p /\ 0 <= f_l1 p <= 1 /\ 0 <= f_l2 p <= 1.
Definition ftrl_den (p : @fparams R) (n : R) : R := (R_sqrt.sqrt n + f_beta p) / f_alpha p + f_l2 p.

Lemma ftrl_den_pos_iff (p : @fparams R) n : ftrl_guard p -> 0 <= n ->
  (0 < ftrl_den p n <-> ~ (f_beta p = 0 /\ f_l2 p = 0 /\ n = 0)).
Proof.
  intros [Ha [Hb [_ [Hl2 _]]]] Hn. unfold ftrl_den.
  pose proof (sqrt_pos n) as Hs.
  assert (Hq : 0 <= (R_sqrt.sqrt n + f_beta p) / f_alpha p).
  { apply Rmult_le_pos; [lra|]. left. apply Rinv_0_lt_compat. exact Ha. }
  split.
  - intros Hd [E1 [E2 E3]]. rewrite E1, E2, E3, sqrt_0 in Hd. unfold Rdiv in Hd. rewrite Rplus_0_l, Rmult_0_l in Hd. lra.
  - intros Hc.
    destruct (Rle_lt_or_eq_dec _ _ Hl2) as [H2|H2]; [lra|].
    destruct (Rle_lt_or_eq_dec _ _ Hb) as [H1|H1].
    + assert (0 < (R_sqrt.sqrt n + f_beta p) / f_alpha p); [|lra].
      apply Rmult_lt_0_compat; [lra|apply Rinv_0_lt_compat; exact Ha].
    + destruct (Rle_lt_or_eq_dec _ _ Hn) as [H3|H3].
      * assert (0 < (R_sqrt.sqrt n + f_beta p) / f_alpha p); [|lra].
        apply Rmult_lt_0_compat; [|apply Rinv_0_lt_compat; exact Ha].
        pose proof (sqrt_lt_R0 n H3). lra.
      * exfalso. apply Hc. repeat split; congruence.
Qed.

Lemma ftrl_zero_iff_outside_corner (p : @fparams R) z n : ftrl_guard p -> 0 <= n ->
  ~ (f_beta p = 0 /\ f_l2 p = 0 /\ n = 0) ->
  (prox R_ops p z n = 0 <-> Rabs z <= f_l1 p).
Proof. intros Hg Hn Hc. apply ftrl_zero_iff. apply (ftrl_den_pos_iff p n Hg Hn). exact Hc. Qed.

(** the guard does not exclude the corner *)
Definition corner_p : @fparams R := {| f_alpha := 1; f_beta := 0; f_l1 := 0; f_l2 := 0 |}.
Lemma corner_guard : ftrl_guard corner_p /\ ftrl_den corner_p 0 = 0.
Proof.
  unfold ftrl_guard, ftrl_den, corner_p. cbn [f_alpha f_beta f_l1 f_l2]. rewrite sqrt_0.
  unfold Rdiv. rewrite Rplus_0_l, Rmult_0_l. repeat split; lra.
Qed.

(** in the corner the IEEE arithmetic gives an infinite weight and the next update a non-finite state: the
    binary64 and binary32 runs of the very model the correspondence ties to the code (fresh model of one
    feature, n = 0, z = 0.6 > l1 = 0.1, alpha 0.1, gradient 0.5) *)
Definition corner64 : @fparams float :=
  {| f_alpha := 0x1.999999999999ap-4%float; f_beta := 0%float; f_l1 := 0x1.999999999999ap-4%float; f_l2 := 0%float |}.
Lemma corner64_weight : ftrl_weights B64_ops corner64 [0x1.3333333333333p-1%float] [0%float] = [neg_infinity].
Proof. vm_compute. reflexivity. Qed.
Lemma corner64_state :
  ftrl_apply B64_ops corner64 ([0x1.3333333333333p-1%float], [0%float]) [0.5%float] = ([infinity], [0.25%float]).
Proof. vm_compute. reflexivity. Qed.

Definition b32r (x : float) : spec_float := b32_of_b64 (Prim2SF x).
Definition corner32 : @fparams spec_float :=
  {| f_alpha := b32r 0x1.99999ap-4%float; f_beta := S754_zero false; f_l1 := b32r 0x1.99999ap-4%float;
     f_l2 := S754_zero false |}.
Lemma corner32_weight :
  ftrl_weights B32_ops corner32 [b32r 0x1.333334p-1%float] [S754_zero false] = [S754_infinity true].
Proof. vm_compute. reflexivity. Qed.
Lemma corner32_state :
  fst (ftrl_apply B32_ops corner32 ([b32r 0x1.333334p-1%float], [S754_zero false]) [b32r 0.5%float])
  = [S754_infinity false].
Proof. vm_compute. reflexivity. Qed.

(** non-vacuity of the outside-corner theorem: the default hyper-parameters (beta = 0, l2 = 0.5) on a fresh model *)
Example ex_default_outside_corner :
  let p := {| f_alpha := 5 / 1000; f_beta := 0; f_l1 := 1 / 2; f_l2 := 1 / 2 |} in
  ftrl_guard p /\ ~ (f_beta p = 0 /\ f_l2 p = 0 /\ 0 = 0).
Proof.
  cbv zeta. unfold ftrl_guard. cbn [f_alpha f_beta f_l1 f_l2]. split; [repeat split; lra|]. intros [_ [H _]]. lra.
Qed.

(** * memory layouts (robustness sweep): the layout-aware variants extend the standard-layout models, and over
      the reals the layout-dependent dot kernel does not change the gradient *)
Lemma ftrl_gradient_lay_std {F} (o : NumOps F) d (X : list (list F)) y ps :
  ftrl_gradient o d X y ps = ftrl_gradient_lay o (orb (Nat.eqb d 1) (Nat.leb (length X) 1)) d X y ps.
Proof. reflexivity. Qed.
Lemma km_fit_with_lay_std {F} (o : NumOps F) m tol st (X : list (list F)) :
  km_fit_with_lay o false m tol st X = km_fit_with o m tol st X.
Proof. reflexivity. Qed.
Lemma ftrl_gradient_lay_R contig d (X : list (list R)) (y : list bool) (ps : list R) :
  ftrl_gradient_lay R_ops contig d X y ps =
    map (fun j => dotsum (col R_ops j X) (map2 (fun pr (t : bool) => pr - (if t then 1 else 0)) ps y)) (seq 0 d).
Proof.
  unfold ftrl_gradient_lay. rewrite cols_map. apply map_ext. intros j.
  destruct contig; [apply udot_R|apply sdot_R].
Qed.
