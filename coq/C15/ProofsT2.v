(** C15 - further lemmas: the k-means assignment log is well formed (so the running-mean theorem applies to
    every real history), unrolled dot products over R, the FTRL gradient. *)
From Coq Require Import List NArith Reals Lra Lia Arith Bool.
From LinfaVerif Require Import Common.Num Common.NdSum C09.Model C09.Proofs C15.Model C15.Spec C15.ProofsStat C15.ProofsKF.
Import ListNotations.
Local Open Scope R_scope.

Section Any.
Context {F : Type} (o : NumOps F).

Lemma incr_obs_len st x c : length (fst (incr_obs o st x c)) = length (fst st).
Proof. unfold incr_obs. cbn [fst]. apply ProofsKF.upd_length. Qed.
Lemma incr_fold_len (log : list (list F * nat)) : forall st, length (fst (incr_fold o log st)) = length (fst st).
Proof.
  induction log as [|[x c] log IH]; intros st; [reflexivity|]. unfold incr_fold in *. cbn [fold_left].
  rewrite IH. apply incr_obs_len.
Qed.
Lemma km_fit_with_len m tol (st : @kstate F) X :
  length (k_centroids (fst (km_fit_with o m tol st X))) = length (k_centroids st).
Proof. unfold km_fit_with. cbn [fst k_centroids]. rewrite compute_incr_fold. apply incr_fold_len. Qed.

Lemma combine_map_self {A B} (g : A -> B) (X : list A) : combine X (map g X) = map (fun x => (x, g x)) X.
Proof. induction X as [|x X IH]; cbn; [reflexivity|]. rewrite IH. reflexivity. Qed.

Lemma km_log_wf m tol d (bs : list (list (list F))) : forall (st : @kstate F),
  k_centroids st <> [] ->
  Forall (Forall (fun x => length x = d)) bs ->
  Forall (fun xm => length (fst xm) = d /\ (snd xm < length (k_centroids st))%nat) (km_log o m tol st bs).
Proof.
  induction bs as [|X bs IH]; intros st Hne Hb; cbn [km_log]; [constructor|].
  inversion Hb as [|? ? HX Hb']; subst. apply Forall_app. split.
  - unfold assign. rewrite map_map, combine_map_self. apply Forall_forall. intros xm Hin.
    apply in_map_iff in Hin. destruct Hin as [x [E Hx]]. subst xm. cbn [fst snd]. split.
    + rewrite Forall_forall in HX. apply HX. exact Hx.
    + apply (closest_index o m (k_centroids st) x Hne).
  - pose proof (km_fit_with_len m tol st X) as Hl.
    assert (Hne' : k_centroids (fst (km_fit_with o m tol st X)) <> []).
    { intros E. rewrite E in Hl. cbn in Hl. destruct (k_centroids st); [congruence|discriminate]. }
    specialize (IH _ Hne' Hb'). rewrite Hl in IH. exact IH.
Qed.
End Any.

(** the running-mean theorem for the real history of `fit_with` calls *)
Lemma kmeans_history_mean m tol d (init : list (list R)) (bs : list (list (list R))) :
  init <> [] -> Forall (fun c => length c = d) init -> Forall (Forall (fun x => length x = d)) bs ->
  let st := km_history R_ops m tol init bs in
  let log := km_log R_ops m tol (k_init R_ops init) bs in
  forall c, (c < length init)%nat ->
    nth c (k_counts st) 0 = INR (length (assigned_pts c log)) /\
    nth c (k_centroids st) [] = match assigned_pts c log with
                                | [] => nth c init []
                                | pts => map rmean (cols R_ops d pts)
                                end.
Proof.
  intros Hne Hinit Hbs st log c Hc.
  pose proof (km_log_wf R_ops m tol d bs (k_init R_ops init) Hne Hbs) as Hw. cbn [k_init k_centroids] in Hw.
  destruct (kmeans_running_mean d init log Hinit Hw) as [_ [_ H]]. specialize (H c Hc).
  pose proof (km_history_log_gen R_ops m tol bs (k_init R_ops init)) as E. cbv zeta in E.
  cbn [k_init k_centroids k_counts zero R_ops] in E. fold (km_history R_ops m tol init bs) in E. fold st in E.
  fold log in E. rewrite <- E in H. cbn [fst snd] in H. exact H.
Qed.

(** unrolled dot product over R *)
Definition dotsum (a b : list R) : R := Rsum (map (fun p => fst p * snd p) (combine a b)).

Lemma dchunks8_short (xs ys p : list R) : (length xs < 8)%nat -> dchunks8 R_ops xs ys p = (p, (xs, ys)).
Proof.
  intros H. destruct xs as [|x0 [|x1 [|x2 [|x3 [|x4 [|x5 [|x6 [|x7 t]]]]]]]]; try reflexivity.
  simpl in H; lia.
Qed.
Lemma dchunks8_short_r (xs ys p : list R) : (length ys < 8)%nat -> dchunks8 R_ops xs ys p = (p, (xs, ys)).
Proof.
  intros H. destruct xs as [|x0 [|x1 [|x2 [|x3 [|x4 [|x5 [|x6 [|x7 t]]]]]]]]; try reflexivity.
  destruct ys as [|y0 [|y1 [|y2 [|y3 [|y4 [|y5 [|y6 [|y7 u]]]]]]]]; try reflexivity.
  simpl in H; lia.
Qed.

Lemma dchunks8_sum xs : forall ys p, length p = 8%nat ->
  let r := dchunks8 R_ops xs ys p in
  length (fst r) = 8%nat /\
  Rsum (fst r) + dotsum (fst (snd r)) (snd (snd r)) = Rsum p + dotsum xs ys.
Proof.
  induction xs as [xs Hs | x0 x1 x2 x3 x4 x5 x6 x7 t IH] using list_ind8; intros ys p Hp; cbv zeta.
  - rewrite dchunks8_short by exact Hs. cbn [fst snd]. split; [exact Hp|lra].
  - destruct (le_lt_dec 8 (length ys)) as [Hl|Hl].
    + destruct ys as [|y0 [|y1 [|y2 [|y3 [|y4 [|y5 [|y6 [|y7 u]]]]]]]]; simpl in Hl; try lia.
      destruct p as [|p0 [|p1 [|p2 [|p3 [|p4 [|p5 [|p6 [|p7 [|p8 pt]]]]]]]]]; simpl in Hp; try lia.
      cbn [dchunks8 map2 combine map fst snd add mul R_ops].
      specialize (IH u [p0 + x0 * y0; p1 + x1 * y1; p2 + x2 * y2; p3 + x3 * y3;
                        p4 + x4 * y4; p5 + x5 * y5; p6 + x6 * y6; p7 + x7 * y7] eq_refl).
      cbv zeta in IH. destruct IH as [IH1 IH2]. split; [exact IH1|]. rewrite IH2. unfold dotsum. simpl. lra.
    + rewrite dchunks8_short_r by exact Hl. cbn [fst snd]. split; [exact Hp|lra].
Qed.

Lemma udot_R (a b : list R) : udot R_ops a b = dotsum a b.
Proof.
  unfold udot. cbn [zero R_ops].
  destruct (dchunks8_sum a b [0; 0; 0; 0; 0; 0; 0; 0] eq_refl) as [H1 H2].
  destruct (dchunks8 R_ops a b [0; 0; 0; 0; 0; 0; 0; 0]) as [p [rx ry]]. cbn [fst snd] in H1, H2.
  destruct p as [|p0 [|p1 [|p2 [|p3 [|p4 [|p5 [|p6 [|p7 [|p8 pt]]]]]]]]]; simpl in H1; try lia.
  cbn [add mul R_ops]. rewrite fold_left_dot. unfold dotsum in *. simpl in H2. simpl. lra.
Qed.

(** the FTRL gradient is  g_j = sum_i (p_i - y_i) x_ij  whichever dot kernel ndarray takes *)
Lemma ftrl_gradient_R d (X : list (list R)) (y : list bool) (ps : list R) :
  ftrl_gradient R_ops d X y ps =
    map (fun j => dotsum (col R_ops j X) (map2 (fun pr (t : bool) => pr - (if t then 1 else 0)) ps y)) (seq 0 d).
Proof.
  unfold ftrl_gradient. rewrite cols_map. apply map_ext. intros j.
  destruct (orb _ _); [apply udot_R|apply sdot_R].
Qed.

(** multinomial joint log-likelihood: sum_j x_j * log-prob_j + ln prior *)
Lemma mnb_jll_R (ln : R -> R) (i : @minfo R) q : mnb_jll R_ops ln i q = dotsum q (m_flp i) + ln (m_prior i).
Proof. unfold mnb_jll. rewrite udot_R. reflexivity. Qed.
