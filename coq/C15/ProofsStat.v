(** C15 - real-number facts about the ndarray reductions of the model and the pooled-moments (Chan) update. *)
From Coq Require Import List NArith Reals Lra Lia Arith.
From LinfaVerif Require Import Common.Num Common.NdSum C09.Model C15.Model C15.Spec.
Import ListNotations.
Local Open Scope R_scope.

(** * sums *)
Lemma fold_left_Rplus l a : fold_left Rplus l a = a + Rsum l.
Proof. revert a; induction l as [|x l IH]; intros a; simpl; [lra|]. rewrite IH. lra. Qed.

Lemma seq_sum_R (l : list R) : seq_sum R_ops l = Rsum l.
Proof. unfold seq_sum. cbn [add zero R_ops]. rewrite fold_left_Rplus. lra. Qed.

Lemma Rsum_app a b : Rsum (a ++ b) = Rsum a + Rsum b.
Proof. induction a as [|x a IH]; simpl; [lra|]. rewrite IH. lra. Qed.

Lemma list_ind8 {A} (P : list A -> Prop) :
  (forall xs, (length xs < 8)%nat -> P xs) ->
  (forall x0 x1 x2 x3 x4 x5 x6 x7 t, P t -> P (x0 :: x1 :: x2 :: x3 :: x4 :: x5 :: x6 :: x7 :: t)) ->
  forall xs, P xs.
Proof.
  intros Hs Hc xs. remember (length xs) as n eqn:E. revert xs E.
  induction n as [n IH] using lt_wf_ind. intros xs E.
  destruct xs as [|x0 [|x1 [|x2 [|x3 [|x4 [|x5 [|x6 [|x7 t]]]]]]]]; try (apply Hs; simpl; lia).
  apply Hc. apply (IH (length t)); simpl in E; [lia|reflexivity].
Qed.

Lemma chunks8_short (xs p : list R) : (length xs < 8)%nat -> chunks8 R_ops xs p = (p, xs).
Proof.
  intros H.
  destruct xs as [|x0 [|x1 [|x2 [|x3 [|x4 [|x5 [|x6 [|x7 t]]]]]]]]; try reflexivity.
  simpl in H; lia.
Qed.

Lemma chunks8_sum xs : forall p, length p = 8%nat ->
  length (fst (chunks8 R_ops xs p)) = 8%nat /\
  Rsum (fst (chunks8 R_ops xs p)) + Rsum (snd (chunks8 R_ops xs p)) = Rsum p + Rsum xs.
Proof.
  induction xs as [xs Hs | x0 x1 x2 x3 x4 x5 x6 x7 t IH] using list_ind8; intros p Hp.
  - rewrite chunks8_short by exact Hs. simpl. split; [exact Hp|lra].
  - destruct p as [|p0 [|p1 [|p2 [|p3 [|p4 [|p5 [|p6 [|p7 [|p8 pt]]]]]]]]]; simpl in Hp; try lia.
    cbn [chunks8 combine map fst snd add R_ops].
    specialize (IH [p0 + x0; p1 + x1; p2 + x2; p3 + x3; p4 + x4; p5 + x5; p6 + x6; p7 + x7] eq_refl).
    destruct IH as [IH1 IH2]. split; [exact IH1|]. rewrite IH2. simpl. lra.
Qed.

Lemma usum_R (l : list R) : usum R_ops l = Rsum l.
Proof.
  unfold usum. cbn [zero R_ops].
  destruct (chunks8_sum l [0; 0; 0; 0; 0; 0; 0; 0] eq_refl) as [H1 H2].
  destruct (chunks8 R_ops l [0; 0; 0; 0; 0; 0; 0; 0]) as [p rest]. simpl in H1, H2.
  destruct p as [|p0 [|p1 [|p2 [|p3 [|p4 [|p5 [|p6 [|p7 [|p8 pt]]]]]]]]]; simpl in H1; try lia.
  cbn [add R_ops]. rewrite fold_left_Rplus. simpl in H2. lra.
Qed.

(** * mean and variance *)
Definition S2 (l : list R) : R := Rsum (map (fun x => x * x) l).
Lemma S2_app a b : S2 (a ++ b) = S2 a + S2 b.
Proof. unfold S2. rewrite map_app, Rsum_app. reflexivity. Qed.

Lemma INR_len_pos {A} (l : list A) : l <> [] -> 0 < INR (length l).
Proof. destruct l; [congruence|]. intros _. apply lt_0_INR. simpl. lia. Qed.

Lemma of_N_nat (n : nat) : of_N R_ops (N.of_nat n) = INR n.
Proof. cbn [of_N R_ops]. rewrite Nnat.Nat2N.id. reflexivity. Qed.

Lemma mean0_R (l : list R) : mean0 R_ops l = rmean l.
Proof. unfold mean0, rmean, nN. rewrite seq_sum_R, of_N_nat. reflexivity. Qed.

Lemma sumsq_dev l m :
  Rsum (map (fun x => (x - m) * (x - m)) l) = S2 l - 2 * m * Rsum l + INR (length l) * (m * m).
Proof.
  unfold S2. induction l as [|x l IH]; [simpl; lra|].
  cbn [map Rsum fold_right length]. fold (Rsum (map (fun x => (x - m) * (x - m)) l)).
  fold (Rsum (map (fun x => x * x) l)). fold (Rsum l). rewrite IH, S_INR. lra.
Qed.

Lemma rpvar_alt l : l <> [] ->
  rpvar l = S2 l / INR (length l) - (Rsum l / INR (length l)) * (Rsum l / INR (length l)).
Proof.
  intros H. unfold rpvar, rmean. rewrite sumsq_dev. pose proof (INR_len_pos l H). field. lra.
Qed.

Lemma welford_inv xs : forall p mean ssq, p <> [] ->
  mean = Rsum p / INR (length p) ->
  ssq = S2 p - Rsum p * Rsum p / INR (length p) ->
  welford R_ops Rfma xs (N.of_nat (length p) + 1)%N mean ssq =
    (Rsum (p ++ xs) / INR (length (p ++ xs)),
     S2 (p ++ xs) - Rsum (p ++ xs) * Rsum (p ++ xs) / INR (length (p ++ xs))).
Proof.
  induction xs as [|x t IH]; intros p mean ssq Hp Hm Hs.
  - rewrite app_nil_r. simpl. rewrite Hm, Hs. reflexivity.
  - cbn [welford].
    replace (N.succ (N.of_nat (length p) + 1))%N with (N.of_nat (length (p ++ [x])) + 1)%N
      by (rewrite app_length; simpl; lia).
    replace (p ++ x :: t) with ((p ++ [x]) ++ t) by (rewrite <- app_assoc; reflexivity).
    pose proof (INR_len_pos p Hp) as Hk.
    assert (Hi : of_N R_ops (N.of_nat (length p) + 1) = INR (length p) + 1).
    { replace (N.of_nat (length p) + 1)%N with (N.of_nat (S (length p))) by lia.
      rewrite of_N_nat, S_INR. reflexivity. }
    apply IH.
    + destruct p; simpl; congruence.
    + cbn [add sub div R_ops]. rewrite Hi, Rsum_app, app_length, plus_INR. simpl. subst mean. field. lra.
    + cbn [add sub div mul R_ops]. unfold Rfma. rewrite Hi, Rsum_app, S2_app, app_length, plus_INR.
      unfold S2 at 2. simpl. subst mean ssq. field. lra.
Qed.

Lemma welford_R l : l <> [] ->
  welford R_ops Rfma l 1%N 0 0 = (Rsum l / INR (length l), S2 l - Rsum l * Rsum l / INR (length l)).
Proof.
  destruct l as [|x t]; [congruence|]. intros _. cbn [welford].
  change (N.succ 1) with (N.of_nat (length [x]) + 1)%N.
  change (x :: t) with ([x] ++ t).
  apply welford_inv; [congruence| |]; cbn [add sub div mul of_N R_ops zero]; unfold Rfma, S2; simpl; field.
Qed.

Lemma var0_R (l : list R) : var0 R_ops Rfma l = rpvar l.
Proof.
  unfold var0, nN. rewrite of_N_nat. destruct l as [|x t].
  - unfold rpvar. simpl. unfold Rdiv. ring.
  - assert (H : x :: t <> []) by congruence.
    rewrite welford_R by exact H. cbn [snd div R_ops]. rewrite rpvar_alt by exact H.
    pose proof (INR_len_pos _ H). field. lra.
Qed.

Lemma rmean_alt l : rmean l = Rsum l / INR (length l).
Proof. reflexivity. Qed.

(** Chan's pooled moments, scalar form *)
Lemma pooled_mean (a b : list R) : a <> [] -> b <> [] ->
  rmean (a ++ b) = (rmean b * INR (length b) + rmean a * INR (length a)) / INR (length a + length b).
Proof.
  intros Ha Hb. unfold rmean. rewrite Rsum_app, app_length, plus_INR.
  pose proof (INR_len_pos a Ha). pose proof (INR_len_pos b Hb). field. lra.
Qed.

Lemma pooled_var (a b : list R) : a <> [] -> b <> [] ->
  rpvar (a ++ b) = (rpvar a * INR (length a) + rpvar b * INR (length b)
                    + INR (length b * length a) / INR (length a + length b)
                      * ((rmean a - rmean b) * (rmean a - rmean b)))
                   / INR (length a + length b).
Proof.
  intros Ha Hb.
  assert (Hab : a ++ b <> []) by (destruct a; simpl; congruence).
  rewrite (rpvar_alt _ Hab), (rpvar_alt _ Ha), (rpvar_alt _ Hb). unfold rmean.
  rewrite Rsum_app, S2_app, app_length, plus_INR, mult_INR.
  pose proof (INR_len_pos a Ha). pose proof (INR_len_pos b Hb). field. lra.
Qed.

(** * vector level: columns *)
Lemma map2_map {A B C D} (f : B -> C -> D) (g : A -> B) (h : A -> C) (l : list A) :
  map2 f (map g l) (map h l) = map (fun j => f (g j) (h j)) l.
Proof. unfold map2. induction l as [|a l IH]; simpl; [reflexivity|]. rewrite IH. reflexivity. Qed.

Lemma col_app j (A B : list (list R)) : col R_ops j (A ++ B) = col R_ops j A ++ col R_ops j B.
Proof. unfold col. apply map_app. Qed.
Lemma col_length j (X : list (list R)) : length (col R_ops j X) = length X.
Proof. unfold col. apply map_length. Qed.
Lemma col_nonempty j (X : list (list R)) : X <> [] -> col R_ops j X <> [].
Proof. destruct X; [congruence|]. simpl. congruence. Qed.

Lemma cols_app d (A B : list (list R)) :
  cols R_ops d (A ++ B) = map2 (@app R) (cols R_ops d A) (cols R_ops d B).
Proof. unfold cols. rewrite map2_map. apply map_ext. intros j. apply col_app. Qed.

Lemma cols_map {T} (f : list R -> T) d (X : list (list R)) :
  map f (cols R_ops d X) = map (fun j => f (col R_ops j X)) (seq 0 d).
Proof. unfold cols. apply map_map. Qed.

Lemma update_mv_first d (i : @ginfo R) (B : list (list R)) :
  g_count i = 0%N -> B <> [] ->
  update_mv R_ops Rfma d i B = (map rmean (cols R_ops d B), map rpvar (cols R_ops d B)).
Proof.
  intros Hc HB. unfold update_mv. destruct B as [|r B']; [congruence|].
  rewrite Hc. cbn [N.eqb]. f_equal; apply map_ext; intros l; [apply mean0_R | apply var0_R].
Qed.

Lemma update_mv_pooled d (i : @ginfo R) (A B : list (list R)) :
  A <> [] -> B <> [] ->
  g_count i = N.of_nat (length A) ->
  g_theta i = map rmean (cols R_ops d A) ->
  g_sigma i = map rpvar (cols R_ops d A) ->
  update_mv R_ops Rfma d i B = (map rmean (cols R_ops d (A ++ B)), map rpvar (cols R_ops d (A ++ B))).
Proof.
  intros HA HB Hc Ht Hs. unfold update_mv. destruct B as [|r B']; [congruence|].
  set (B := r :: B') in *.
  assert (Hne : N.eqb (g_count i) 0 = false).
  { rewrite Hc. apply N.eqb_neq. destruct A; [congruence|]. simpl. lia. }
  rewrite Hne, Hc, Ht, Hs.
  rewrite <- Nnat.Nat2N.inj_add, <- Nnat.Nat2N.inj_mul. rewrite !of_N_nat.
  repeat (progress rewrite ?cols_map, ?map_map, ?map2_map).
  f_equal; apply map_ext; intros j; rewrite col_app; cbn [add sub mul div R_ops];
    rewrite ?mean0_R, ?var0_R.
  - rewrite pooled_mean by (apply col_nonempty; assumption). rewrite !col_length. reflexivity.
  - rewrite pooled_var by (apply col_nonempty; assumption). rewrite !col_length. reflexivity.
Qed.

(** multinomial: feature totals are additive, the log-probabilities are a function of the totals *)
Lemma update_flp_spec (ln : R -> R) alpha d (i : @minfo R) (A B : list (list R)) :
  B <> [] ->
  m_count i = N.of_nat (length A) ->
  (A <> [] -> m_fcount i = map Rsum (cols R_ops d A)) ->
  update_flp R_ops ln alpha d i B =
    (m_flp_of ln alpha (map Rsum (cols R_ops d (A ++ B))), map Rsum (cols R_ops d (A ++ B))).
Proof.
  intros HB Hc Hf. unfold update_flp. destruct B as [|r B']; [congruence|].
  set (B := r :: B') in *.
  assert (E : (if N.ltb 0 (m_count i)
               then map2 (fun a b => add R_ops a b) (m_fcount i) (map (seq_sum R_ops) (cols R_ops d B))
               else map (seq_sum R_ops) (cols R_ops d B)) = map Rsum (cols R_ops d (A ++ B))).
  { rewrite Hc. destruct A as [|a A'].
    - simpl. apply map_ext. intros l. apply seq_sum_R.
    - replace (N.ltb 0 (N.of_nat (length (a :: A')))) with true by (symmetry; apply N.ltb_lt; simpl; lia).
      rewrite Hf by congruence. rewrite !cols_map, map2_map. apply map_ext. intros j.
      rewrite col_app, Rsum_app, seq_sum_R. reflexivity. }
  rewrite E. unfold m_flp_of. rewrite usum_R. reflexivity.
Qed.
