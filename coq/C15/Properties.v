(** C15 - property theorems (statements only; proofs are in C15/Proofs*.v).
    R_ops = exact real arithmetic, Rfma a b c = a*b+c, [look c st] = the statistics a state holds for class c,
    [all_X bs]/[all_y bs] = the concatenation of the batches, [wf_batch] = as many targets as rows, >= 1 row.
    Class-incomplete batches are ordinary well-formed batches. *)
From Coq Require Import List NArith Reals.
From LinfaVerif Require Import Common.Num Common.NdSum C09.Model C15.Model C15.Spec C15.Proofs.
Import ListNotations.
Local Open Scope R_scope.

(** ** Gaussian naive Bayes *)

(** Chan's pooled update: the stored (count, mean, population variance) of the rows A of a class, updated by
    `update_mean_variance` with further rows B, are the statistics of A ++ B *)
Theorem pooled_mean_var : forall d (i : @ginfo R) (A B : list (list R)),
  A <> [] -> B <> [] ->
  g_count i = N.of_nat (length A) ->
  g_theta i = map rmean (cols R_ops d A) ->
  g_sigma i = map rpvar (cols R_ops d A) ->
  update_mv R_ops Rfma d i B = (map rmean (cols R_ops d (A ++ B)), map rpvar (cols R_ops d (A ++ B))).
Proof. exact update_mv_pooled. Qed.

(** after ANY history of well-formed batches (var_smoothing = 0) every class holds the textbook estimates of the
    whole data: count, prior = class frequency, per-feature mean and population variance; classes never seen
    are absent *)
Theorem gnb_history_is_textbook : forall d (bs : list (list (list R) * list N)),
  Forall wf_batch bs ->
  forall c, look c (gnb_history R_ops Rfma 0 d bs) = g_textbook 0 d (all_X bs) (all_y bs) c.
Proof. exact gnb_textbook_vs0. Qed.

(** hence every way of cutting a dataset into ordered non-empty batches gives the model of the single fit *)
Theorem gnb_history_eq_batch : forall d (bs : list (list (list R) * list N)),
  Forall wf_batch bs ->
  forall c, look c (gnb_history R_ops Rfma 0 d bs) = look c (gnb_fit R_ops Rfma 0 d (all_X bs) (all_y bs)).
Proof. exact gnb_eq_batch_vs0. Qed.

(** finding F12: with var_smoothing > 0 the equivalence fails (two batches of different maximal variance) ... *)
Theorem gnb_smoothing_refuted :
  exists (vs : R) (d : nat) (bs : list (list (list R) * list N)),
    0 < vs /\ Forall wf_batch bs /\
    exists c, look c (gnb_history R_ops Rfma vs d bs) <> look c (gnb_fit R_ops Rfma vs d (all_X bs) (all_y bs)).
Proof. exact gnb_smoothing_refuted_lemma. Qed.

(** ... and holds outside that class: whenever all batches and the whole data have the same epsilon e, the
    history holds the textbook estimates with smoothed variance (variance + e) and equals the single fit *)
Theorem gnb_smoothing_outside_known : forall vs d e (bs : list (list (list R) * list N)),
  Forall (fun b => wf_batch b /\ gnb_epsilon R_ops Rfma vs d (fst b) = e) bs ->
  (forall c, look c (gnb_history R_ops Rfma vs d bs) = g_textbook e d (all_X bs) (all_y bs) c) /\
  (gnb_epsilon R_ops Rfma vs d (all_X bs) = e ->
   forall c, look c (gnb_history R_ops Rfma vs d bs) = look c (gnb_fit R_ops Rfma vs d (all_X bs) (all_y bs))).
Proof.
  intros vs d e bs H. split; [exact (gnb_history_textbook_eps d e vs bs H)|exact (gnb_eq_batch_eps vs d e bs H)].
Qed.

(** ** multinomial naive Bayes *)

(** after any history: count, class frequency, cumulative feature totals and their smoothed log-frequencies
    (for any logarithm function) *)
Theorem mnb_history_is_textbook : forall (ln : R -> R) alpha d (bs : list (list (list R) * list N)),
  Forall wf_batch bs ->
  forall c, look c (mnb_history R_ops ln alpha d bs) = m_textbook ln alpha d (all_X bs) (all_y bs) c.
Proof. intros ln alpha d bs. exact (mnb_history_textbook_all d ln alpha bs). Qed.

Theorem mnb_history_eq_batch : forall (ln : R -> R) alpha d (bs : list (list (list R) * list N)),
  Forall wf_batch bs ->
  forall c, look c (mnb_history R_ops ln alpha d bs) = look c (mnb_fit R_ops ln alpha d (all_X bs) (all_y bs)).
Proof. exact mnb_eq_batch. Qed.

(** with the real logarithm the stored log-probabilities are ln((N_cj + alpha) / (N_c + d alpha)) *)
Theorem mnb_textbook : forall alpha (fc : list R) j,
  (j < length fc)%nat -> 0 < nth j fc 0 + alpha -> 0 < Rsum fc + INR (length fc) * alpha ->
  nth j (m_flp_of ln alpha fc) 0 = ln ((nth j fc 0 + alpha) / (Rsum fc + INR (length fc) * alpha)).
Proof. exact m_flp_textbook. Qed.

(** ** prediction *)

(** the predicted class maximises the joint log-likelihood over the classes of the model ... *)
Theorem nb_predict_argmax : forall (ln : R -> R) twopi (st : @gstate R) q c,
  gnb_predict R_ops ln twopi st q = Some c ->
  exists i, In (c, i) st /\
            forall c' i', In (c', i') st -> gnb_jll R_ops ln twopi i' q <= gnb_jll R_ops ln twopi i q.
Proof. intros ln twopi st q c. exact (predict_argmax (fun i => gnb_jll R_ops ln twopi i q) st c). Qed.

Theorem mnb_predict_argmax : forall (ln : R -> R) (st : @mstate R) q c,
  mnb_predict R_ops ln st q = Some c ->
  exists i, In (c, i) st /\ forall c' i', In (c', i') st -> mnb_jll R_ops ln i' q <= mnb_jll R_ops ln i q.
Proof. intros ln st q c. exact (predict_argmax (fun i => mnb_jll R_ops ln i q) st c). Qed.

(** ... and a strict maximiser is predicted whatever the order in which the classes are enumerated *)
Theorem nb_predict_order_independent : forall (ln : R -> R) twopi (st : @gstate R) q c i,
  In (c, i) st ->
  (forall c' i', In (c', i') st -> c' <> c -> gnb_jll R_ops ln twopi i' q < gnb_jll R_ops ln twopi i q) ->
  gnb_predict R_ops ln twopi st q = Some c.
Proof. intros ln twopi st q c i. exact (predict_unique (fun i => gnb_jll R_ops ln twopi i q) st c i). Qed.

(** ** mini-batch k-means *)

(** in every arithmetic the centroids and counts after a history are the per-observation recurrence
    `count_c += 1; centroid_c += (x - centroid_c) / count_c` folded over the history's assignment log *)
Theorem kmeans_history_is_recurrence : forall F (o : NumOps F) m tol init (bs : list (list (list F))),
  (k_centroids (km_history o m tol init bs), k_counts (km_history o m tol init bs)) =
  incr_fold o (km_log o m tol (k_init o init) bs) (init, map (fun _ => zero o) init).
Proof. exact @km_history_log. Qed.

(** counts are cumulative and a centroid that has received points is the mean of ALL points assigned to it so
    far (its initial position is forgotten); a centroid that never received a point keeps its initial value *)
Theorem kmeans_incr_running_mean : forall d (init : list (list R)) (log : list (list R * nat)),
  Forall (fun c => length c = d) init ->
  Forall (fun xm => length (fst xm) = d /\ (snd xm < length init)%nat) log ->
  let st := incr_fold R_ops log (init, map (fun _ => 0) init) in
  length (fst st) = length init /\ length (snd st) = length init /\
  forall c, (c < length init)%nat ->
    nth c (snd st) 0 = INR (length (assigned_pts c log)) /\
    nth c (fst st) [] = match assigned_pts c log with
                        | [] => nth c init []
                        | pts => map rmean (cols R_ops d pts)
                        end.
Proof. exact kmeans_running_mean. Qed.

(** the same for the real history of `fit_with` calls: the assignment log of a history satisfies the hypotheses
    above (every membership is a valid centroid index), so after ANY history of batches of d-dimensional rows
    every centroid is the mean of all the points it was assigned, or its untouched initial value *)
Theorem kmeans_history_running_mean : forall m tol d (init : list (list R)) (bs : list (list (list R))),
  init <> [] -> Forall (fun c => length c = d) init -> Forall (Forall (fun x => length x = d)) bs ->
  let st := km_history R_ops m tol init bs in
  let log := km_log R_ops m tol (k_init R_ops init) bs in
  forall c, (c < length init)%nat ->
    nth c (k_counts st) 0 = INR (length (assigned_pts c log)) /\
    nth c (k_centroids st) [] = match assigned_pts c log with
                                | [] => nth c init []
                                | pts => map rmean (cols R_ops d pts)
                                end.
Proof. exact kmeans_history_mean. Qed.

(** `Ok` is returned exactly when the centroids moved by less than the tolerance *)
Theorem kmeans_converged_flag : forall m tol (st : @kstate R) X,
  snd (km_fit_with R_ops m tol st X) = true <->
  dist R_ops m (concat (k_centroids st)) (concat (k_centroids (fst (km_fit_with R_ops m tol st X)))) < tol.
Proof. exact kmeans_flag. Qed.

(** ** FTRL-proximal *)

(** one update applies the documented per-coordinate recurrence to the previous state *)
Theorem ftrl_step_spec : forall (p : @fparams R) (zs ns g : list R) d j,
  length zs = d -> length ns = d -> length g = d -> (j < d)%nat ->
  let st' := ftrl_apply R_ops p (zs, ns) g in
  let z := nth j zs 0 in let n := nth j ns 0 in let gr := nth j g 0 in
  length (fst st') = d /\ length (snd st') = d /\
  nth j (fst st') 0 = z + gr - (R_sqrt.sqrt (n + gr * gr) - R_sqrt.sqrt n) / f_alpha p * prox R_ops p z n /\
  nth j (snd st') 0 = n + gr * gr.
Proof. exact ftrl_step. Qed.

(** the gradient fed into it is  g_j = sum_i (p_i - y_i) x_ij  for either ndarray dot kernel *)
Theorem ftrl_gradient_spec : forall d (X : list (list R)) (y : list bool) (ps : list R),
  ftrl_gradient R_ops d X y ps =
    map (fun j => dotsum (col R_ops j X) (map2 (fun pr (t : bool) => pr - (if t then 1 else 0)) ps y)) (seq 0 d).
Proof. exact ftrl_gradient_R. Qed.

(** a weight is exactly zero iff |z| does not exceed the l1 strength (for a positive denominator) *)
Theorem ftrl_weight_zero_iff : forall (p : @fparams R) z n,
  0 < (R_sqrt.sqrt n + f_beta p) / f_alpha p + f_l2 p ->
  (prox R_ops p z n = 0 <-> Rabs z <= f_l1 p).
Proof. exact ftrl_zero_iff. Qed.

(** the state after a history is the fold of the update over that history alone *)
Theorem history_is_function : forall F (o : NumOps F) p d z0 (bs1 bs2 : list (list (list F) * list bool * list F)),
  ftrl_history o p d z0 (bs1 ++ bs2) = fold_left (ftrl_update o p d) bs2 (ftrl_history o p d z0 bs1).
Proof. exact @ftrl_history_app. Qed.
