(** C04 - every numeric field of every checked parameter struct is accounted for (goal: completeness of the
    guards).  The records, setters and guards are the ones REGENERATED from the sources (gen/C04_fields.v);
    the classification is Fields.field_table.

    [field_constrained]: there is an accepted parameter set that becomes rejected by changing only this field;
    [field_free]:        the verdict (and the error) never depends on this field.
    A new numeric field, a guard that stops looking at a field, or a guard that starts looking at a field
    listed as free makes [every_field_accounted] fail (the message names the field). *)
From Coq Require Import List NArith ZArith Bool String SpecFloat Lia.
From LinfaVerif Require Import Common.Num C04.Model gen.C04_guards gen.C04_fields C04.Fields.
Import ListNotations.
Open Scope string_scope.
Definition field_constrained (gp : guard_pack) (fd : field_desc (gp_P gp)) : Prop :=
  exists (v : fd_ty fd) (p : gp_P gp), gp_guard gp fmt64 p = None /\ gp_guard gp fmt64 (fd_set fd v p) <> None.
Definition field_free (gp : guard_pack) (fd : field_desc (gp_P gp)) : Prop :=
  forall fm (v : fd_ty fd) (p : gp_P gp), gp_guard gp fm (fd_set fd v p) = gp_guard gp fm p.
Definition field_accounted (gp : guard_pack) (fd : field_desc (gp_P gp)) : Prop :=
  match status_of (gp_builder gp) (fd_name fd) with
  | Some (Constrained _) => field_constrained gp fd
  | Some (FreeDocumented _) | Some (FreeKnown _ _) => field_free gp fd
  | None => False
  end.

Lemma accounted_by_witness gp fd : constrained_witness_ok gp fd = true -> field_accounted gp fd.
Proof.
  unfold constrained_witness_ok, field_accounted.
  destruct (status_of (gp_builder gp) (fd_name fd)) as [[bad|w|f w]|]; try discriminate.
  intros H. apply andb_true_iff in H. destruct H as [H1 H2].
  exists (fd_dec fd bad), (gp_of_env gp (default_env (gp_builder gp))). split.
  - destruct (gp_guard gp fmt64 _); [discriminate | reflexivity].
  - intro E. rewrite E in H2. discriminate.
Qed.
Lemma accounted_free gp fd : free_status gp fd = true -> field_free gp fd -> field_accounted gp fd.
Proof.
  unfold free_status, field_accounted.
  destruct (status_of (gp_builder gp) (fd_name fd)) as [[bad|w|f w]|]; try discriminate; auto.
Qed.

Ltac forall_hnf tac :=
  match goal with
  | |- Forall ?P ?l =>
      let l' := eval hnf in l in
      change (Forall P l');
      first [ apply Forall_nil | apply Forall_cons; [ tac | forall_hnf tac ] ]
  end.

Ltac field_tac :=
  cbv beta;
  match goal with
  | |- fd_numeric ?fd = true -> _ =>
      let b := eval vm_compute in (fd_numeric fd) in
      match b with
      | false => let H := fresh in intros H; vm_compute in H; discriminate H
      | true =>
          intros _;
          first [ apply accounted_by_witness; vm_compute; reflexivity
                | apply accounted_free; [ vm_compute; reflexivity | intros fm v p; reflexivity ]
                | match goal with |- field_accounted ?gp ?f =>
                    let b := eval vm_compute in (gp_builder gp) in
                    let n := eval vm_compute in (fd_name f) in
                    fail 100 "numeric field" n "of" b "is neither constrained by the guard (with the witness of Fields.field_table) nor free and listed there" end ]
      end
  end.

Definition pack_accounted (gp : guard_pack) : Prop :=
  Forall (fun fd => fd_numeric fd = true -> field_accounted gp fd) (gp_fields gp).

Lemma every_field_accounted : Forall pack_accounted guard_packs.
Proof.
  forall_hnf ltac:(unfold pack_accounted; forall_hnf field_tac).
Qed.

(** the table has no stale entry: every (builder, field) it names is a numeric field of that builder's struct *)
Definition table_entries_exist : bool :=
  forallb (fun be =>
    existsb (fun gp => String.eqb (gp_builder gp) (fst be)
       && forallb (fun fe => existsb (fun fd => String.eqb (fd_name fd) (fst fe) && fd_numeric fd) (gp_fields gp)) (snd be))
      guard_packs) field_table.
Lemma field_table_has_no_stale_entry : table_entries_exist = true.
Proof. vm_compute. reflexivity. Qed.

(** cross-check of the translator: the fields `check_ref` mentions (syntactic) are exactly the numeric fields
    classified as constrained (semantic, by witness), plus the regex pseudo-field of the count vectoriser *)
Definition reads_match_classification : bool :=
  forallb (fun gp =>
    forallb (fun fd =>
      negb (fd_numeric fd)
      || Bool.eqb (existsb (String.eqb (fd_name fd)) (gp_reads gp))
                  (match status_of (gp_builder gp) (fd_name fd) with Some (Constrained _) => true | _ => false end))
      (gp_fields gp)) guard_packs.
Lemma syntactic_reads_are_the_constrained_fields : reads_match_classification = true.
Proof. vm_compute. reflexivity. Qed.

(** the fields outside the translated subset are the recorded ones (none of them is a number) *)
Definition untranslated_as_recorded : bool :=
  forallb (fun gp =>
    match assoc untranslated_table (gp_builder gp) with
    | Some l => list_eqb (fun a b => String.eqb (fst a) (fst b) && String.eqb (snd a) (snd b)) (gp_untranslated gp) l
    | None => false
    end) guard_packs.
Lemma untranslated_fields_are_the_recorded_ones : untranslated_as_recorded = true.
Proof. vm_compute. reflexivity. Qed.

Lemma untranslated_recorded gp : In gp guard_packs ->
  assoc untranslated_table (gp_builder gp) = Some (gp_untranslated gp).
Proof.
  intros H. pose proof untranslated_fields_are_the_recorded_ones as U. unfold untranslated_as_recorded in U.
  rewrite forallb_forall in U. specialize (U gp H).
  destruct (assoc untranslated_table (gp_builder gp)) as [l|]; [|discriminate]. f_equal. symmetry.
  revert U. apply list_eqb_eq. intros [a1 a2] [b1 b2] E. cbn in E.
  apply andb_true_iff in E. destruct E as [E1 E2]. apply String.eqb_eq in E1, E2. now subst.
Qed.

(** non-vacuity *)
Example counts_of_fields :
  List.length guard_packs = 21%nat
  /\ fold_right (fun gp n => (List.length (filter (fun fd => fd_numeric fd) (gp_fields gp)) + n)%nat) 0%nat guard_packs = 66%nat
  /\ List.length (flat_map snd field_table) = 66%nat.
Proof. vm_compute. repeat split. Qed.

(* a field listed as free is not provably constrained and vice versa: the two notions exclude each other *)
Lemma free_not_constrained gp fd : field_free gp fd -> ~ field_constrained gp fd.
Proof. intros F (v & p & A & R). apply R. rewrite F. exact A. Qed.
