(** C04 - correspondence and property oracle.

    A case is one parameter set of one builder, built by the harness through the public setters,
    with what the implementation did: `check_ref()` (verdict and error), `check_ref()` again,
    `check()`, `check_ref()` on the same set with every -0.0 replaced by +0.0, the parameters read
    back, and every `fit` / `fit_with` / `transform` entry point called on the UNCHECKED builder.

    corr   : the translated guard (gen/C04_guards.v), the blanket-impl model (Model.v) and the table of
             entry points read off the sources (C04/Entry.v: every entry point of the builder must have the
             `check_ref`-first shape and must have been called by the harness) against the implementation;
    oracle : the documented ranges (Spec.v) and the by-value / by-reference / unchecked-call
             clauses of the property against the implementation's output. *)
From Coq Require Import List NArith ZArith Bool Ascii String SpecFloat QArith.
From LinfaVerif Require Export Common.Num Common.B32 Common.QF Common.Run C04.Model gen.C04_guards C04.Spec C04.Entry.
Import ListNotations.
Open Scope string_scope.

(** what the harness saw of an error: the identifiers of its `Debug` rendering (variant names,
    outermost first) and the string / number literals in it, in order of appearance *)
(* a number is shipped twice: its rendering parsed as f64 and parsed as f32 (the payload's width is not
   visible in the text) *)
Inductive oitem := OStr (s : string) | ONum (x64 x32 : spec_float) | ONat (n : N).
Record verdict_obs := { v_ok : bool; v_names : list string; v_items : list oitem }.

(** one call of an entry point on the unchecked builder.
    outcome 0 = returned Ok; 1 = returned exactly the (converted) guard error; 2 = returned another
    error; 3 = panicked; 4 = did not return within the harness' time limit.  [k_eq]: the result is identical to the one of the same call on the checked
    parameters (only meaningful when `check_ref` accepted). *)
Record call_obs := { k_kind : string; k_outcome : N; k_eq : bool }.

Record case := {
  c_id : N;
  c_builder : string;
  c_f32 : bool;                 (* the builder's float type parameter is f32 *)
  c_env : env;                  (* the values handed to the setters *)
  c_ref : verdict_obs;          (* check_ref() *)
  c_ref_again : bool;           (* a second check_ref() gave the same result *)
  c_val : verdict_obs;          (* check() on an identical builder *)
  c_norm_ok : bool;             (* check_ref() accepted the set with -0.0 replaced by +0.0 *)
  c_readback : bool;            (* checked parameters (by ref and by value) read back equal to the
                                   values set, and check_ref left the builder unchanged *)
  c_calls : list call_obs
}.

Definition fmt_of (c : case) : fmt := if c_f32 c then fmt32 else fmt64.

(** * comparing a model error with an observed one *)
Definition last_segment (s : string) : string :=
  (fix go (s acc : string) : string :=
     match s with
     | EmptyString => acc
     | String ":"%char (String ":"%char r) => go r r
     | String _ r => go r acc
     end) s s.

(* an error of a foreign crate (regex) is a GErr with an empty path: it contributes no name *)
Fixpoint gerr_names (e : gerr) : list string :=
  match e with
  | GErr p _ => if String.eqb p "" then [] else [last_segment p]
  | GFrom o i => last_segment o :: gerr_names i
  end.
Fixpoint gerr_payload (e : gerr) : list pitem :=
  match e with GErr _ l => l | GFrom _ i => gerr_payload i end.

Fixpoint is_prefix {A} (eqA : A -> A -> bool) (a b : list A) : bool :=
  match a, b with
  | [], _ => true
  | x :: a', y :: b' => eqA x y && is_prefix eqA a' b'
  | _ :: _, [] => false
  end.
Fixpoint str_prefix (a b : string) : bool :=
  match a, b with
  | EmptyString, _ => true
  | String x a', String y b' => Ascii.eqb x y && str_prefix a' b'
  | String _ _, EmptyString => false
  end.

(* equality of float values across formats (an f32 payload arrives widened to f64) *)
Definition sf_val_eqb (a b : spec_float) : bool :=
  match SF2Q a, SF2Q b with
  | Some x, Some y => Qeq_bool x y
  | None, None => match a, b with
                  | S754_nan, S754_nan => true
                  | S754_infinity s, S754_infinity t => Bool.eqb s t
                  | _, _ => false
                  end
  | _, _ => false
  end.

Fixpoint payload_matches (m : list pitem) (o : list oitem) : bool :=
  match m with
  | [] => match o with [] => true | _ => false end
  | PSkip :: _ => true
  | PStr s :: m' => match o with OStr t :: o' => str_prefix s t && payload_matches m' o' | _ => false end
  | PFlt x :: m' => match o with ONum y z :: o' => (sf_val_eqb x y || sf_val_eqb x z) && payload_matches m' o' | _ => false end
  | PNat n :: m' => match o with ONat k :: o' => N.eqb n k && payload_matches m' o' | _ => false end
  end.

Definition error_matches (e : gerr) (o : verdict_obs) : bool :=
  is_prefix String.eqb (gerr_names e) (v_names o) && payload_matches (gerr_payload e) (v_items o).

Definition oitem_eqb (a b : oitem) : bool :=
  match a, b with
  | OStr s, OStr t => String.eqb s t
  | ONum x x', ONum y y' => sf_eqb x y && sf_eqb x' y'
  | ONat n, ONat k => N.eqb n k
  | _, _ => false
  end.
Definition verdict_eqb (a b : verdict_obs) : bool :=
  Bool.eqb (v_ok a) (v_ok b) && list_eqb String.eqb (v_names a) (v_names b)
  && list_eqb oitem_eqb (v_items a) (v_items b).

Definition lookup_fact (l : list (string * bool)) (b : string) : bool :=
  (fix go l := match l with [] => false | (k, v) :: r => if String.eqb k b then v else go r end) l.

(** * correspondence *)
(* the prediction of the blanket-impl model for a call on the unchecked builder, given the MODEL's
   guard verdict: an error of the guard comes back converted and nothing runs; otherwise the result
   is the one of the checked parameters *)
Definition call_agrees (m : option gerr) (k : call_obs) : bool :=
  match blanket_fit (fun e : gerr => e) m (fun _ : unit => tt) with
  | UGuardErr _ => N.eqb (k_outcome k) 1
  | UDelegated _ => negb (N.eqb (k_outcome k) 1) && k_eq k
  end.

Definition calls_cover (c : case) : bool :=
  match c_calls c with
  | [] => true                                           (* no entry point was called on this parameter set *)
  | ks => existsb (fun k => N.eqb (k_outcome k) 4) ks    (* the first call did not come back: the others were not made *)
          || forallb (fun key => existsb (fun k => String.eqb (k_kind k) key) ks) (required_calls (c_builder c))
  end.

Definition corr_code (c : case) : N :=
  match check_ref_dispatch (c_builder c) (fmt_of c) (c_env c) with
  | None => 1%N
  | Some m =>
      (flag (Bool.eqb (match m with None => true | Some _ => false end) (v_ok (c_ref c))) 1
       + flag (match m with
               | Some e => v_ok (c_ref c) || error_matches e (c_ref c)
               | None => true
               end) 2
       + flag (forallb (call_agrees m) (c_calls c)) 4
       + flag (lookup_fact check_is_check_ref_then_unwrap (c_builder c) && entry_points_ok (c_builder c)) 8
       + flag (calls_cover c) 16)%N
  end.

(** * property oracle *)
Definition doc_code (c : case) : N :=
  if negb (env_forall sf_is_finite (c_env c)) then 0%N   (* the property speaks of finite values *)
  else
    match spec_dispatch (c_builder c) (fmt_of c) (env_norm (c_env c)) with
    | None => 1%N
    | Some s =>
        let acc := c_norm_ok c in
        let dev := (g_strict s && negb acc) || (negb (g_loose s) && acc) in
        let f8 := if Bool.eqb (v_ok (c_ref c)) acc then 0%N else 2%N in
        ((if dev then
            (if negb (N.eqb (g_known s) 0) && Bool.eqb acc (g_act s) then g_known s else 1%N)
          else 0%N) + f8)%N
    end.

Definition oracle_code (c : case) : N :=
  let ok := v_ok (c_ref c) in
  (doc_code c
   + flag (verdict_eqb (c_ref c) (c_val c)) 64
   + flag (c_readback c) 128
   + flag (ok || forallb (fun k => N.eqb (k_outcome k) 1 || N.eqb (k_outcome k) 3) (c_calls c)) 256
   + flag (ok || forallb (fun k => negb (N.eqb (k_outcome k) 3)) (c_calls c)) 512
   + flag (negb ok || forallb k_eq (c_calls c)) 1024
   + flag (c_ref_again c) 2048)%N.

Definition run_case (c : case) : verdict := (c_id c, (corr_code c, oracle_code c)).
Definition run_cases (cs : list case) : list N := report (map run_case cs).
