(** C04 - extension theorems: the syntactic and structural facts the property rests on, established on
    every run over what the translator reads off the sources (gen/C04_guards.v, gen/C04_fields.v).

    1. [no_entry_point_bypasses_the_guard]: every impl of Fit / FitWith / Transformer / PredictInplace /
       Predict in the workspace and every self-method of a type with a ParamGuard impl is in the table
       [entry_points]; whenever the receiver is an unchecked parameter type - or the type variable of the three
       blanket impls of src/param_guard.rs - each method body is `check_ref` first and then the same call on
       the checked parameters, with the error forwarded (`?`: converted by From; `map` / `and_then`: as it is).
       Fit, FitWith and the predicting traits are never implemented directly for an unchecked type.
    2. [every_field_is_constrained_or_documented_free]: every numeric field of every checked parameter struct
       is either constrained by the guard (witness: the default set is accepted, the same set with one value
       changed is rejected) or the guard is independent of it AND Fields.field_table records why (no
       documented range, or a known finding when a range is documented).
    3. [nonfinite_rejected_or_listed], [nan_rejected_or_listed]: for NaN / +inf / -inf at every float of every
       struct: rejected whatever the (finite) other values are, or listed in Fields.nonfinite_table with an
       accepted witness. *)
From Coq Require Import List NArith ZArith Bool String SpecFloat.
From LinfaVerif Require Import C04.Model gen.C04_guards gen.C04_fields C04.Entry C04.Fields
  C04.EntryProofs C04.FieldProofs C04.NonFinite.
Import ListNotations.
Open Scope string_scope.

(** * 1. entry points *)
Theorem no_entry_point_bypasses_the_guard :
  (* the three blanket impls are there *)
  (forall t, In t ["Fit"; "FitWith"; "Transformer"] ->
     exists e, In e entry_points /\ ep_cls e = EpBlanket /\ ep_trait e = t)
  /\ forall e, In e entry_points -> ep_cls e = EpUnchecked \/ ep_cls e = EpBlanket ->
       (* only Transformer (and inherent methods) are written by hand for an unchecked type: Fit and FitWith
          reach it through the blanket impls alone, the predicting traits not at all *)
       (ep_cls e = EpUnchecked -> ep_trait e = "" \/ ep_trait e = "Transformer")
       (* and every method either only reads a field (inherent getters) or is `check_ref` first: its meaning
          is the blanket-impl model [blanket_fit] applied to method [m] of the checked parameters, where [m]
          is the method itself for a trait impl *)
       /\ forall fn s, In (fn, s) (ep_fns e) ->
            (ep_trait e = "" /\ s = EpGetter)
            \/ exists m, ep_target s = Some m /\ (ep_trait e <> "" -> m = fn)
                 /\ forall (Err Res E : Type) (conv : Err -> E) (cr : option Err) (call : string -> unit -> Res),
                      ep_denote s conv cr call = Some (blanket_fit conv cr (call m)).
Proof.
  split.
  - intros t Ht. pose proof blanket_impls_present as B. rewrite forallb_forall in B. specialize (B t Ht).
    apply existsb_exists in B. destruct B as (e & He & B). apply andb_true_iff in B. destruct B as [B1 B2].
    exists e. split; [exact He|]. split; [|apply String.eqb_eq; exact B2].
    unfold ep_is in B1. destruct (ep_cls e); try discriminate; reflexivity.
  - intros e He C. destruct (guarded_entry e He) as [G D]. split.
    + intros U. unfold ep_direct_allowed, ep_is in D. rewrite U in D. cbn in D.
      apply orb_true_iff in D. destruct D as [D|D]; apply String.eqb_eq in D; auto.
    + intros fn s Hf. pose proof (ep_guarded_forwards e G C) as F. rewrite Forall_forall in F.
      destruct (F (fn, s) Hf) as [[T S]|(m & T & M & Dn)]; cbn [fst snd] in *.
      * left. split; [|exact S]. apply negb_false_iff in T. apply String.eqb_eq in T. exact T.
      * right. exists m. split; [exact T|]. split; [|exact Dn].
        intros NE. apply M. apply negb_true_iff. apply String.eqb_neq. exact NE.
Qed.

(* what [blanket_fit] is: the guard's error comes back (converted) and nothing runs; otherwise the call on the
   checked parameters *)
Theorem forwarding_returns_the_guard_error :
  forall (Err Res E : Type) (conv : Err -> E) (cr : option Err) (f : unit -> Res),
    match cr with
    | Some e => blanket_fit conv cr f = UGuardErr (conv e)
    | None => blanket_fit conv cr f = UDelegated (f tt)
    end.
Proof. intros. destruct cr; reflexivity. Qed.

(** * 2. completeness of the guards *)
Theorem every_field_is_constrained_or_documented_free :
  Forall (fun gp =>
    Forall (fun fd => fd_numeric fd = true ->
      match status_of (gp_builder gp) (fd_name fd) with
      | Some (Constrained _) => field_constrained gp fd
      | Some (FreeDocumented _) | Some (FreeKnown _ _) => field_free gp fd
      | None => False
      end) (gp_fields gp)) guard_packs.
Proof. exact every_field_accounted. Qed.

Theorem fields_outside_the_translated_subset_are_the_recorded_ones :
  forall gp, In gp guard_packs -> assoc untranslated_table (gp_builder gp) = Some (gp_untranslated gp).
Proof. exact untranslated_recorded. Qed.

(** * 3. non-finite values *)
Theorem nonfinite_rejected_or_listed :
  Forall (fun gp => Forall (fun l => forall s,
      if nonfinite_listed (gp_builder gp) (fst l) s
      then leaf_accepts gp (fst l) (snd l) s
      else leaf_rejects gp (fst l) (snd l) s) (gp_leaves gp)) guard_packs.
Proof.
  eapply Forall_impl; [|exact every_leaf_documented]. intros gp H.
  eapply Forall_impl; [|exact H]. intros l (A & B & C) s. destruct s; assumption.
Qed.

Theorem nan_rejected_or_listed :
  Forall (fun gp => Forall (fun l =>
      if nonfinite_listed (gp_builder gp) (fst l) SNaN
      then leaf_accepts gp (fst l) (snd l) SNaN
      else leaf_rejects gp (fst l) (snd l) SNaN) (gp_leaves gp)) guard_packs.
Proof.
  eapply Forall_impl; [|exact nonfinite_rejected_or_listed]. intros gp H.
  eapply Forall_impl; [|exact H]. intros l A. exact (A SNaN).
Qed.
