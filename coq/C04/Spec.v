(** C04 - the DOCUMENTED ranges of every parameter builder, written by hand from the doc comments,
    the range tables of the builders and the error texts of the anchored files (quoted next to each bound),
    and - separately - the exact accept set of the guard on the current tree where it is known to
    differ from the documentation (known findings).

    Reading rules (they are the "Gap" of DESIGN.md section 4, C04):
    R1  an explicit interval or an explicit statement about an end point is taken literally
        ("[0, inf)", "(0, inf)", "greater than 0", "cannot be 0", "must lie in 0..=1",
        "should not be negative", "a value of 0 disables ...", "(0; 1)", "should not be in (0, 1)");
    R2  "positive" / "negative" without any statement about zero is AMBIGUOUS at zero: the code base
        itself uses "positive" for "not negative" (FTRL `beta` "must be positive", default 0.0; GMM
        `reg_covar` documented "Non-negative", message "must be positive") and for "> 0"
        (logistic `gradient_tolerance`).  Such a bound has a strict reading (> 0) and a loose one
        (>= 0); the property is checked as
             strict range  ->  accepted        and        accepted  ->  loose range,
        which is the full "if and only if" wherever the documentation is explicit;
    R3  a guarded parameter with no documented range at all (SVM `eps` and `C`, hierarchical
        stopping distance, t-SNE perplexity) is read like R2 from the name of its error
        ("Negative C value", "negative perplexity"): negative values must be rejected, positive ones
        accepted, zero is not decided; counts that make no sense at 0 must be >= 1;
    R4  the value of a float is what is documented, not its bit pattern: -0.0 is 0.  Whether the
        verdict depends on the sign of a zero is checked separately (finding F8) by comparing the
        verdict on a parameter set with the verdict on the same set with every -0.0 replaced by +0.0;
        the documented range is always compared with the latter.

    Every function below is executable: Corr.v evaluates them on the harness' cases; Proofs.v proves
    their real-number meaning and relates them to the generated guards. *)
From Coq Require Import List NArith ZArith Bool String SpecFloat.
From LinfaVerif Require Import C04.Model gen.C04_guards.
Import ListNotations.
Open Scope string_scope.

(** * Atoms (value-based: they do not distinguish -0.0 from +0.0) *)
Definition ge0 (x : spec_float) : bool := fle fzero x.                 (* 0 <= x *)
Definition gt0 (x : spec_float) : bool := flt fzero x.                 (* 0 <  x *)
Definition le1 (fm : fmt) (x : spec_float) : bool := fle x (f_one fm). (* x <= 1 *)
Definition lt1 (fm : fmt) (x : spec_float) : bool := flt x (f_one fm). (* x <  1 *)
Definition in01 (fm : fmt) (x : spec_float) : bool := ge0 x && le1 fm x.
Definition nonneg_bit (x : spec_float) : bool := negb (sf_sign x).      (* what a sign-bit test accepts *)
Definition is_zero (x : spec_float) : bool := match x with S754_zero _ => true | _ => false end.
Definition ge1 (n : N) : bool := N.leb 1 n.
Definition ge2 (n : N) : bool := N.leb 2 n.

(** A specification: strict and loose documented range (equal when the documentation is explicit),
    the accept set of the guard as it is on the current tree, and the known-finding regions the
    parameter set lies in (bit mask, same bits as the oracle codes of props/C04.json). *)
Record gspec := { g_strict : bool; g_loose : bool; g_act : bool; g_known : N }.
Definition exact (b : bool) : gspec := {| g_strict := b; g_loose := b; g_act := b; g_known := 0 |}.

Definition K_F21 : N := 4.    (* decision tree: min_impurity_decrease in (0, eps) rejected *)
Definition K_ENIT : N := 8.   (* elastic net: max_iterations = 0 accepted, table says [1, inf) *)
Definition K_NU0 : N := 16.   (* SVM: nu = 0 rejected, doc says [0, 1] *)
Definition K_CVF : N := 32.   (* count vectoriser: max_freq > 1 accepted, doc says 0..=1 *)

(** * k-means  (k_means/errors.rs: "n_clusters cannot be 0", "n_runs cannot be 0",
      "tolerance must be greater than 0", "max_n_iterations cannot be 0") *)
Definition spec_KMeansParams (fm : fmt) (p : r_KMeansValidParams) : gspec :=
  exact (ge1 (KMeansValidParams_n_clusters p) && ge1 (KMeansValidParams_n_runs p)
         && gt0 (KMeansValidParams_tolerance p) && ge1 (KMeansValidParams_max_n_iterations p)).

(** * DBSCAN, OPTICS  ("min_points must be greater than 1", "tolerance must be greater than 0").
      `AppxDbscan` is a public alias of `Dbscan`; the files under linfa-clustering/src/appx_dbscan are
      not part of the crate's module tree (dead code) and are ignored by the translator. *)
Definition spec_DbscanParams (fm : fmt) (p : r_DbscanValidParams) : gspec :=
  exact (ge2 (DbscanValidParams_min_points p) && gt0 (DbscanValidParams_tolerance p)).
Definition spec_OpticsParams (fm : fmt) (p : r_OpticsValidParams) : gspec :=
  exact (gt0 (OpticsValidParams_tolerance p) && ge2 (OpticsValidParams_min_points p)).

(** * Gaussian mixture  ("`n_clusters` cannot be 0!", "`tolerance` must be greater than 0!",
      reg_covariance: "Non-negative regularization added to the diagonal of covariance",
      "`n_runs` cannot be 0!", "`max_n_iterations` cannot be 0!") *)
Definition spec_GmmParams (fm : fmt) (p : r_GmmValidParams) : gspec :=
  exact (ge1 (GmmValidParams_n_clusters p) && gt0 (GmmValidParams_tolerance p)
         && ge0 (GmmValidParams_reg_covar p) && ge1 (GmmValidParams_n_runs p)
         && ge1 (GmmValidParams_max_n_iter p)).

(** * Elastic net, single and multi-task  (table of `ElasticNetParams`:
      penalty `[0, inf)`, l1_ratio `[0.0, 1.0]`, tolerance `(0, inf)`, max_iterations `[1, inf)`;
      the "Errors" paragraph says "if the tolerance is negative": the two statements disagree at 0,
      so tolerance = 0 is not decided (R2)).
      Guard: sign-bit tests on penalty and tolerance, max_iterations not looked at. *)
Definition spec_ElasticNetParamsBase (fm : fmt) (p : r_ElasticNetValidParamsBase) : gspec :=
  let pen := ElasticNetValidParamsBase_penalty p in
  let l1 := ElasticNetValidParamsBase_l1_ratio p in
  let tol := ElasticNetValidParamsBase_tolerance p in
  let it := ElasticNetValidParamsBase_max_iterations p in
  {| g_strict := ge0 pen && in01 fm l1 && gt0 tol && ge1 it;
     g_loose := ge0 pen && in01 fm l1 && ge0 tol && ge1 it;
     g_act := nonneg_bit pen && in01 fm l1 && nonneg_bit tol;
     g_known := if N.eqb it 0 then K_ENIT else 0 |}.

(** * Logistic regression  ("alpha must be a positive, finite number",
      "gradient_tolerance must be a positive, finite number": R2 for both) *)
Definition spec_LogisticRegressionParams (fm : fmt) (p : r_LogisticRegressionValidParams) : gspec :=
  let a := LogisticRegressionValidParams_alpha p in
  let g := LogisticRegressionValidParams_gradient_tolerance p in
  {| g_strict := gt0 a && gt0 g; g_loose := ge0 a && ge0 g;
     g_act := ge0 a && gt0 g; g_known := 0 |}.

(** * Tweedie GLM  (alpha: "`alpha` set to 0 is equivalent to unpenalized GLM",
      "penalty should be positive"  => [0, inf);
      power: "tweedie distribution power should not be in (0, 1)") *)
Definition spec_TweedieRegressorParams (fm : fmt) (p : r_TweedieRegressorValidParams) : gspec :=
  let a := TweedieRegressorValidParams_alpha p in
  let w := TweedieRegressorValidParams_power p in
  let pw := negb (gt0 w && lt1 fm w) in
  {| g_strict := ge0 a && pw; g_loose := ge0 a && pw; g_act := nonneg_bit a && pw; g_known := 0 |}.

(** * Platt scaling  ("maxiter should be larger than zero", "minstep should be positive",
      "sigma should be positive": R2) *)
Definition spec_PlattParams (fm : fmt) (p : r_PlattValidParams) : gspec :=
  let m := PlattValidParams_minstep p in
  let s := PlattValidParams_sigma p in
  let it := ge1 (PlattValidParams_maxiter p) in
  {| g_strict := it && gt0 m && gt0 s; g_loose := it && ge0 m && ge0 s;
     g_act := it && nonneg_bit m && nonneg_bit s; g_known := 0 |}.

(** * SVM  (eps: "Invalid epsilon" only: R3;  C: "Negative C value": R3;
      nu_weight: "The Nu value should lie in range [0, 1]", "Nu should be in unit range": [0, 1];
      the Platt parameters are checked first).
      Guard: eps sign bit / NaN / inf; both C > 0; 0 < nu <= 1 (so nu = 0 is rejected: K_NU0). *)
Definition spec_SvmParams (fm : fmt) (p : r_SvmValidParams) : gspec :=
  let e := SolverParams_eps (SvmValidParams_solver_params p) in
  let pl := spec_PlattParams fm (SvmValidParams_platt p) in
  let c_s := match SvmValidParams_c p with Some (a, b) => gt0 a && gt0 b | None => true end in
  let c_l := match SvmValidParams_c p with Some (a, b) => ge0 a && ge0 b | None => true end in
  let nu_d := match SvmValidParams_nu p with Some (n, _) => in01 fm n | None => true end in
  let nu_a := match SvmValidParams_nu p with Some (n, _) => gt0 n && le1 fm n | None => true end in
  {| g_strict := g_strict pl && gt0 e && c_s && nu_d;
     g_loose := g_loose pl && ge0 e && c_l && nu_d;
     g_act := g_act pl && nonneg_bit e && c_s && nu_a;
     g_known := match SvmValidParams_nu p with Some (n, _) => if is_zero n then K_NU0 else 0 | None => 0 end |}.

(** * Decision tree  ("Minimum impurity decrease should be greater than zero").
      Guard: `< F::epsilon()` (finding F21: values in (0, eps) are rejected). *)
Definition spec_DecisionTreeParams (fm : fmt) (p : r_DecisionTreeValidParams) : gspec :=
  let d := DecisionTreeValidParams_min_impurity_decrease p in
  {| g_strict := gt0 d; g_loose := gt0 d; g_act := fle (f_eps fm) d;
     g_known := if gt0 d && flt d (f_eps fm) then K_F21 else 0 |}.

(** * Naive Bayes  (tables: var_smoothing `[0, inf)`, alpha `[0, inf)`) *)
Definition spec_GaussianNbParams (fm : fmt) (p : r_GaussianNbValidParams) : gspec :=
  let v := GaussianNbValidParams_var_smoothing p in
  {| g_strict := ge0 v; g_loose := ge0 v; g_act := nonneg_bit v; g_known := 0 |}.
Definition spec_MultinomialNbParams (fm : fmt) (p : r_MultinomialNbValidParams) : gspec :=
  let v := MultinomialNbValidParams_alpha p in
  {| g_strict := ge0 v; g_loose := ge0 v; g_act := nonneg_bit v; g_known := 0 |}.

(** * FTRL  ("`l1_ratio` must be between `0.0` and `1.0`", same for l2_ratio;
      "`alpha` must be positive and finite": R2;
      "`beta` must be positive and finite", "Defaults to `0.0`": 0 is in range => [0, inf)) *)
Definition spec_FtrlParams (fm : fmt) (p : r_FtrlValidParams) : gspec :=
  let a := FtrlValidParams_alpha p in
  let b := FtrlValidParams_beta p in
  let r := in01 fm (FtrlValidParams_l1_ratio p) && in01 fm (FtrlValidParams_l2_ratio p) in
  {| g_strict := r && gt0 a && ge0 b; g_loose := r && ge0 a && ge0 b;
     g_act := r && nonneg_bit a && nonneg_bit b; g_known := 0 |}.

(** * PLS  ("The tolerance is should not be negative, NaN or inf",
      "The maximal number of iterations should be positive" / variant `ZeroMaxIter`) *)
Definition spec_Pls (p : r_PlsValidParams) : gspec :=
  let t := PlsValidParams_tolerance p in
  let it := ge1 (PlsValidParams_max_iter p) in
  {| g_strict := ge0 t && it; g_loose := ge0 t && it; g_act := nonneg_bit t && it; g_known := 0 |}.
Definition spec_PlsParams (fm : fmt) := spec_Pls.
Definition spec_PlsXParams (fm : fmt) := spec_Pls.

(** * t-SNE  (approx_threshold: "This threshold lies in range (0, inf) where a value of 0 disables
      approximation" => [0, inf);  perplexity: "negative perplexity" only: R3) *)
Definition spec_TSneParams (fm : fmt) (p : r_TSneValidParams) : gspec :=
  let x := TSneValidParams_perplexity p in
  let t := TSneValidParams_approx_threshold p in
  {| g_strict := gt0 x && ge0 t; g_loose := ge0 x && ge0 t;
     g_act := nonneg_bit x && nonneg_bit t; g_known := 0 |}.

(** * FastICA  ("tolerance should be positive": R2;
      fast_ica.rs, `# Errors` of Fit::fit: "If the `alpha` value set for [`GFunc::Logcosh`] is not between 1 and 2
      inclusive"; error variant InvalidValue: "When any of the hyperparameters are set the wrong value").
      Guard (since /repo 6e23381, the repair of finding F-C04-1): the alpha of Logcosh (an f64 whatever the data
      type) must lie in [1, 2], then `tol < 0` is rejected.  Before the repair the guard looked at `tol` only and
      alpha was tested inside the first iteration of fit: [check_ref_FastIcaParams_before_FC041] keeps that guard
      for the refutation statement. *)
Definition two64 : spec_float := S754_finite false 4503599627370496 (-51).
Definition logcosh_ok (g : e_GFunc) : bool :=
  match g with GFunc_Logcosh a => fle one64 a && fle a two64 | _ => true end.
Definition spec_FastIcaParams (fm : fmt) (p : r_FastIcaValidParams) : gspec :=
  let t := FastIcaValidParams_tol p in
  let a := logcosh_ok (FastIcaValidParams_gfunc p) in
  {| g_strict := gt0 t && a; g_loose := ge0 t && a; g_act := ge0 t && a; g_known := 0 |}.
(* the guard as it was before 6e23381 (finding F-C04-1, fixed) *)
Definition check_ref_FastIcaParams_before_FC041 (fm : fmt) (p : r_FastIcaValidParams) : option gerr :=
  if flt (FastIcaValidParams_tol p) fzero
  then Some (GErr "FastIcaError::InvalidTolerance" [PFlt (cast_f32 fm (FastIcaValidParams_tol p))])
  else None.

(** * Diffusion map  ("Number of steps zero in diffusion map operator"; an embedding of size 0: R3) *)
Definition spec_DiffusionMapParams (fm : fmt) (p : r_DiffusionMapValidParams) : gspec :=
  exact (ge1 (DiffusionMapValidParams_steps p) && ge1 (DiffusionMapValidParams_embedding_size p)).

(** * Random projection  ("Target dimension of the projection must be positive",
      "Precision parameter must be in the interval (0; 1)"; `eps` is an f64) *)
Definition spec_RandomProjectionParams (fm : fmt) (p : r_RandomProjectionValidParams) : gspec :=
  exact (match RandomProjectionValidParams_params p with
         | RandomProjectionParamsInner_Dimension d => ge1 d
         | RandomProjectionParamsInner_Epsilon e => gt0 e && lt1 fmt64 e
         end).

(** * Hierarchical clustering  ("The stopping condition {0:?} is not valid" only: R3) *)
Definition spec_HierarchicalCluster (fm : fmt) (p : r_ValidHierarchicalCluster) : gspec :=
  match ValidHierarchicalCluster_stopping p with
  | Criterion_NumClusters n => exact (ge1 n)
  | Criterion_Distance x =>
      {| g_strict := gt0 x; g_loose := ge0 x; g_act := nonneg_bit x; g_known := 0 |}
  end.

(** * Count vectoriser  ("n_gram boundaries cannot be zero", "`min_n` should not be greater than
      `max_n`", "`min_freq` and `max_freq` must lie in `0..=1` and `min_freq` should not be greater
      than `max_freq`", "document frequencies have to be between 0 and 1", an invalid split regex is
      an error; frequencies are f32).
      Guard: no upper bound on the frequencies (K_CVF). *)
Definition spec_CountVectorizerParams (fm : fmt) (p : r_CountVectorizerValidParams) : gspec :=
  let '(n1, n2) := CountVectorizerValidParams_n_gram_range p in
  let '(f1, f2) := CountVectorizerValidParams_document_frequency p in
  let a := ge1 n1 && ge1 n2 && N.leb n1 n2 && ge0 f1 && ge0 f2 && fle f1 f2
           && CountVectorizerValidParams_split_regex_expr_compiles p in
  {| g_strict := a && le1 fmt32 f2; g_loose := a && le1 fmt32 f2; g_act := a;
     g_known := if flt one32 f2 then K_CVF else 0 |}.

(** dispatch by builder name on the transport form *)
Definition spec_dispatch (b : string) (fm : fmt) (e : env) : option gspec :=
  if String.eqb b "KMeansParams" then Some (spec_KMeansParams fm (of_env_KMeansValidParams e)) else
  if String.eqb b "DbscanParams" then Some (spec_DbscanParams fm (of_env_DbscanValidParams e)) else
  if String.eqb b "OpticsParams" then Some (spec_OpticsParams fm (of_env_OpticsValidParams e)) else
  if String.eqb b "GmmParams" then Some (spec_GmmParams fm (of_env_GmmValidParams e)) else
  if String.eqb b "ElasticNetParamsBase" then Some (spec_ElasticNetParamsBase fm (of_env_ElasticNetValidParamsBase e)) else
  if String.eqb b "LogisticRegressionParams" then Some (spec_LogisticRegressionParams fm (of_env_LogisticRegressionValidParams e)) else
  if String.eqb b "TweedieRegressorParams" then Some (spec_TweedieRegressorParams fm (of_env_TweedieRegressorValidParams e)) else
  if String.eqb b "PlattParams" then Some (spec_PlattParams fm (of_env_PlattValidParams e)) else
  if String.eqb b "SvmParams" then Some (spec_SvmParams fm (of_env_SvmValidParams e)) else
  if String.eqb b "DecisionTreeParams" then Some (spec_DecisionTreeParams fm (of_env_DecisionTreeValidParams e)) else
  if String.eqb b "GaussianNbParams" then Some (spec_GaussianNbParams fm (of_env_GaussianNbValidParams e)) else
  if String.eqb b "MultinomialNbParams" then Some (spec_MultinomialNbParams fm (of_env_MultinomialNbValidParams e)) else
  if String.eqb b "FtrlParams" then Some (spec_FtrlParams fm (of_env_FtrlValidParams e)) else
  if String.eqb b "PlsParams" then Some (spec_PlsParams fm (of_env_PlsValidParams e)) else
  if String.eqb b "PlsXParams" then Some (spec_PlsXParams fm (of_env_PlsValidParams e)) else
  if String.eqb b "TSneParams" then Some (spec_TSneParams fm (of_env_TSneValidParams e)) else
  if String.eqb b "FastIcaParams" then Some (spec_FastIcaParams fm (of_env_FastIcaValidParams e)) else
  if String.eqb b "DiffusionMapParams" then Some (spec_DiffusionMapParams fm (of_env_DiffusionMapValidParams e)) else
  if String.eqb b "RandomProjectionParams" then Some (spec_RandomProjectionParams fm (of_env_RandomProjectionValidParams e)) else
  if String.eqb b "HierarchicalCluster" then Some (spec_HierarchicalCluster fm (of_env_ValidHierarchicalCluster e)) else
  if String.eqb b "CountVectorizerParams" then Some (spec_CountVectorizerParams fm (of_env_CountVectorizerValidParams e)) else
  None.

(** every builder the translator found must have a specification (checked by computation in Proofs.v) *)
Definition all_builders_specified : bool :=
  forallb (fun b => match spec_dispatch b fmt64 [] with Some _ => true | None => false end) guard_builders.
