(** C04 - lemmas about the entry-point table read off the sources (gen/C04_guards.v [entry_points]):
    no training / transforming / predicting trait and no method reaches an unchecked parameter type
    except through `check_ref` first.  A changed or added impl changes the table and makes
    [every_entry_point_is_guarded] fail. *)
From Coq Require Import List NArith Bool String.
From LinfaVerif Require Import C04.Model gen.C04_guards C04.Entry.
Import ListNotations.
Open Scope string_scope.

(** the table satisfies the executable requirement (recomputed on every run) *)
Lemma every_entry_point_is_guarded :
  forallb (fun e => ep_guarded e && ep_direct_allowed e) entry_points = true.
Proof. vm_compute. reflexivity. Qed.

Lemma blanket_impls_present :
  forallb (fun t => existsb (fun e => ep_is EpBlanket e && String.eqb (ep_trait e) t) entry_points)
    ["Fit"; "FitWith"; "Transformer"] = true.
Proof. vm_compute. reflexivity. Qed.

Lemma entry_points_ok_every_builder : forallb entry_points_ok guard_builders = true.
Proof. vm_compute. reflexivity. Qed.

(** what the executable requirement means *)
Lemma ep_target_denote (s : ep_shape) (m : string) : ep_target s = Some m ->
  forall (Err Res E : Type) (conv : Err -> E) (cr : option Err) (call : string -> unit -> Res),
    ep_denote s conv cr call = Some (blanket_fit conv cr (call m)).
Proof.
  destruct s as [m' [|]|m' [|]|m' [|]| |b]; simpl; try discriminate;
    intros H; inversion H; subst; intros; destruct cr; reflexivity.
Qed.

Definition forwards (is_trait : bool) (f : string * ep_shape) : Prop :=
  (is_trait = false /\ snd f = EpGetter)
  \/ exists m, ep_target (snd f) = Some m /\ (is_trait = true -> m = fst f)
       /\ forall (Err Res E : Type) (conv : Err -> E) (cr : option Err) (call : string -> unit -> Res),
            ep_denote (snd f) conv cr call = Some (blanket_fit conv cr (call m)).

Lemma ep_fn_ok_forwards is_trait f : ep_fn_ok is_trait f = true -> forwards is_trait f.
Proof.
  unfold ep_fn_ok, forwards. destruct f as [fn s]; cbn [fst snd].
  destruct s as [m [|]|m [|]|m [|]| |b]; cbn [ep_target]; try discriminate; intros H.
  1-3: right; exists m; split; [reflexivity|]; split;
    [ intros ->; cbn in H; apply String.eqb_eq in H; exact H
    | apply ep_target_denote; reflexivity ].
  left. split; [|reflexivity]. destruct is_trait; [discriminate H | reflexivity].
Qed.

Lemma ep_guarded_forwards e : ep_guarded e = true -> ep_cls e = EpUnchecked \/ ep_cls e = EpBlanket ->
  Forall (forwards (negb (String.eqb (ep_trait e) ""))) (ep_fns e).
Proof.
  unfold ep_guarded. intros H C. apply Forall_forall. intros f Hf. apply ep_fn_ok_forwards.
  destruct C as [C|C]; rewrite C in H; rewrite forallb_forall in H; apply H; exact Hf.
Qed.

Lemma guarded_entry e : In e entry_points -> ep_guarded e = true /\ ep_direct_allowed e = true.
Proof.
  intros H. pose proof every_entry_point_is_guarded as G. rewrite forallb_forall in G.
  specialize (G e H). apply andb_true_iff in G. exact G.
Qed.

(** non-vacuity: the table has entries of every kind, and the requirement does reject a bypass *)
Example table_has_direct_and_blanket_entries :
  List.length (filter (ep_is EpUnchecked) entry_points) = 5%nat      (* t-SNE transform x 2, count vectoriser fit x 3 *)
  /\ List.length (filter (ep_is EpBlanket) entry_points) = 3%nat
  /\ List.length (filter (ep_is EpChecked) entry_points) >= 30.
Proof. vm_compute. repeat split; repeat constructor. Qed.

Example a_bypass_is_rejected :
  ep_guarded {| ep_file := "x.rs"; ep_trait := "Transformer"; ep_recv := "TSneParams"; ep_cls := EpUnchecked;
                ep_builder := "TSneParams"; ep_records := "Array2<F>";
                ep_fns := [("transform", EpOpaque "self.0.transform(x)")] |} = false
  /\ ep_direct_allowed {| ep_file := "x.rs"; ep_trait := "Fit"; ep_recv := "KMeansParams"; ep_cls := EpUnchecked;
                          ep_builder := "KMeansParams"; ep_records := "ArrayBase<D,Ix2>";
                          ep_fns := [("fit", EpTry "fit" true)] |} = false
  /\ ep_guarded {| ep_file := "x.rs"; ep_trait := "Transformer"; ep_recv := "TSneParams"; ep_cls := EpUnchecked;
                   ep_builder := "TSneParams"; ep_records := "Array2<F>";
                   ep_fns := [("transform", EpTry "transform" false)] |} = false.
Proof. repeat split. Qed.

(** the scope of the property: parameter types that implement a training trait WITHOUT any ParamGuard (they
    have no checked / unchecked split, so nothing is validated before fit) - recorded here so that a builder
    losing its guard, or a new unguarded trainer, shows up as a broken obligation.  (MockFittable is a test
    double of src/dataset/mod.rs.) *)
Fixpoint dedup (l : list string) : list string :=
  match l with
  | [] => []
  | a :: r => if existsb (String.eqb a) r then dedup r else a :: dedup r
  end.
Definition unguarded_trainers : list string :=
  dedup (map ep_recv (filter (fun e => ep_is EpOther e && String.eqb (ep_trait e) "Fit") entry_points)).
Example unguarded_trainers_are_the_recorded_ones :
  unguarded_trainers
  = ["MockFittable"; "IsotonicRegression"; "LinearRegression"; "PlsSvdParams"; "LinearScalerParams"; "Whitener"; "PcaParams"].
Proof. vm_compute. reflexivity. Qed.
