(** C04 - lemmas.  Everything about the guards is proved over the definitions REGENERATED from the
    Rust sources (gen/C04_guards.v); a changed guard makes the corresponding lemma fail.

    Floats are [spec_float]; a lemma about a float parameter assumes [wf prec emax x]: x is a valid,
    finite number of the binary format (prec, emax) - (53, 1024) is f64, (24, 128) is f32.  The real
    value is [val x] = Flocq's SF2R; the link between SpecFloat's comparisons and the order of the
    reals is Flocq's Bltb_correct / Bleb_correct. *)
From Coq Require Import List NArith ZArith Bool String SpecFloat Reals Lra Lia.
From Flocq Require Import Core.Core IEEE754.BinarySingleNaN.
From LinfaVerif Require Import C04.Model gen.C04_guards C04.Spec.
Import ListNotations.
Local Open Scope R_scope.

Definition val (x : spec_float) : R := SF2R radix2 x.
Definition negzero : spec_float := S754_zero true.

Definition wf (prec emax : Z) (x : spec_float) : Prop :=
  valid_binary prec emax x = true /\ sf_is_finite x = true.
(* the constants of a format: F::one() is 1, F::epsilon() is some positive number *)
Definition fmt_ok (prec emax : Z) (fm : fmt) : Prop :=
  wf prec emax (f_one fm) /\ val (f_one fm) = 1 /\ wf prec emax (f_eps fm) /\ 0 < val (f_eps fm).

Section Fmt.
Variable prec emax : Z.
Notation wf := (wf prec emax).
Notation fmt_ok := (fmt_ok prec emax).

Lemma wf_fzero : wf fzero.
Proof. split; reflexivity. Qed.

Lemma flt_R x y : wf x -> wf y -> flt x y = Rlt_bool (val x) (val y).
Proof.
  intros [Vx Fx] [Vy Fy]. unfold flt, val.
  rewrite <- (B2SF_SF2B prec emax x Vx) at 1. rewrite <- (B2SF_SF2B prec emax y Vy) at 1.
  change (Bltb (SF2B x Vx) (SF2B y Vy) = Rlt_bool (SF2R radix2 x) (SF2R radix2 y)).
  rewrite Bltb_correct.
  - now rewrite !B2R_SF2B.
  - rewrite is_finite_SF2B. destruct x; try discriminate; reflexivity.
  - rewrite is_finite_SF2B. destruct y; try discriminate; reflexivity.
Qed.
Lemma fle_R x y : wf x -> wf y -> fle x y = Rle_bool (val x) (val y).
Proof.
  intros [Vx Fx] [Vy Fy]. unfold fle, val.
  rewrite <- (B2SF_SF2B prec emax x Vx) at 1. rewrite <- (B2SF_SF2B prec emax y Vy) at 1.
  change (Bleb (SF2B x Vx) (SF2B y Vy) = Rle_bool (SF2R radix2 x) (SF2R radix2 y)).
  rewrite Bleb_correct.
  - now rewrite !B2R_SF2B.
  - rewrite is_finite_SF2B. destruct x; try discriminate; reflexivity.
  - rewrite is_finite_SF2B. destruct y; try discriminate; reflexivity.
Qed.
Lemma fgt_R x y : wf x -> wf y -> fgt x y = Rlt_bool (val y) (val x).
Proof. intros; unfold fgt; fold (flt y x); now apply flt_R. Qed.
Lemma fge_R x y : wf x -> wf y -> fge x y = Rle_bool (val y) (val x).
Proof. intros; unfold fge; fold (fle y x); now apply fle_R. Qed.
Lemma ge0_R x : wf x -> ge0 x = Rle_bool 0 (val x).
Proof. intros; unfold ge0; rewrite fle_R; auto using wf_fzero. Qed.
Lemma gt0_R x : wf x -> gt0 x = Rlt_bool 0 (val x).
Proof. intros; unfold gt0; rewrite flt_R; auto using wf_fzero. Qed.
Lemma le1_R fm x : fmt_ok fm -> wf x -> le1 fm x = Rle_bool (val x) 1.
Proof. intros (H1 & H2 & _) Hx; unfold le1; rewrite fle_R, H2; auto. Qed.
Lemma lt1_R fm x : fmt_ok fm -> wf x -> lt1 fm x = Rlt_bool (val x) 1.
Proof. intros (H1 & H2 & _) Hx; unfold lt1; rewrite flt_R, H2; auto. Qed.
Lemma wf_finite x : wf x -> sf_is_finite x = true.
Proof. now intros []. Qed.
Lemma wf_nan x : wf x -> sf_is_nan x = false.
Proof. intros [_ H]; destruct x; try discriminate; reflexivity. Qed.
Lemma wf_inf x : wf x -> sf_is_infinite x = false.
Proof. intros [_ H]; destruct x; try discriminate; reflexivity. Qed.

(* the sign bit of a finite number: negative value, or the negative zero *)
Lemma sign_R x : wf x -> sf_sign x = true <-> (val x < 0 \/ x = negzero).
Proof.
  intros [Vx Fx]. destruct x as [s|s| |s m e]; try discriminate; unfold val, negzero; simpl.
  - split; [intros ->; now right | intros [H|H]; [lra | now inversion H]].
  - destruct s; simpl.
    + split; [intros _; left; apply F2R_lt_0; reflexivity | reflexivity].
    + split; [discriminate|]. intros [H|H]; [|discriminate].
      assert (0 < F2R (Float radix2 (Z.pos m) e)) by (apply F2R_gt_0; reflexivity). lra.
Qed.
Lemma sign_true_R x : wf x -> sf_sign x = true -> val x < 0 \/ x = negzero.
Proof. intros H; apply sign_R; exact H. Qed.
Lemma sign_false_R x : wf x -> sf_sign x = false -> 0 <= val x /\ x <> negzero.
Proof.
  intros H S. split.
  - destruct (Rle_lt_dec 0 (val x)) as [L|L]; [exact L|].
    assert (sf_sign x = true) by (apply sign_R; auto). congruence.
  - intro E. assert (sf_sign x = true) by (apply sign_R; auto). congruence.
Qed.
Lemma val_negzero : val negzero = 0.
Proof. reflexivity. Qed.
Lemma is_zero_R x : wf x -> is_zero x = true <-> val x = 0.
Proof.
  intros [Vx Fx]. destruct x as [s|s| |s m e]; try discriminate; unfold val; simpl.
  - tauto.
  - split; [discriminate|]. destruct s; simpl; intro H.
    + assert (F2R (Float radix2 (Z.neg m) e) < 0) by (apply F2R_lt_0; reflexivity). lra.
    + assert (0 < F2R (Float radix2 (Z.pos m) e)) by (apply F2R_gt_0; reflexivity). lra.
Qed.

End Fmt.

(** * Tactics: every float comparison becomes a comparison of reals, then case analysis *)
Ltac wfs :=
  solve [ assumption | apply wf_fzero
        | match goal with H : fmt_ok _ _ _ |- _ => apply H end ].
Ltac toR :=
  match goal with H : fmt_ok ?pr ?em ?fm |- _ =>
    repeat first
      [ rewrite (flt_R pr em) by wfs | rewrite (fle_R pr em) by wfs
      | rewrite (fgt_R pr em) by wfs | rewrite (fge_R pr em) by wfs
      | rewrite (ge0_R pr em) by wfs | rewrite (gt0_R pr em) by wfs
      | match goal with |- context [le1 fm ?x] => rewrite (le1_R pr em fm x H) by wfs end
      | match goal with |- context [lt1 fm ?x] => rewrite (lt1_R pr em fm x H) by wfs end
      | rewrite (wf_finite pr em) by wfs | rewrite (wf_nan pr em) by wfs | rewrite (wf_inf pr em) by wfs ];
    change (val fzero) with 0 in *;
    let E := fresh "E1" in pose proof (proj1 (proj2 H)) as E; rewrite ?E in *; clear E
  end.
Ltac red_bool := cbn [negb andb orb seqf option_map g_strict g_loose g_act g_known exact].
Ltac sign_facts :=
  repeat match goal with
  | W : wf ?pr ?em ?x, S : sf_sign ?x = true |- _ => apply (sign_true_R pr em x W) in S
  | W : wf ?pr ?em ?x, S : sf_sign ?x = false |- _ => apply (sign_false_R pr em x W) in S; destruct S
  end.
Ltac split_atoms :=
  repeat (red_bool;
    match goal with
    | |- context [Rlt_bool ?a ?b] => destruct (Rlt_bool_spec a b)
    | |- context [Rle_bool ?a ?b] => destruct (Rle_bool_spec a b)
    | |- context [N.eqb ?a ?b] => destruct (N.eqb_spec a b)
    | |- context [N.leb ?a ?b] => destruct (N.leb_spec a b)
    | |- context [N.ltb ?a ?b] => destruct (N.ltb_spec a b)
    | |- context [sf_sign ?a] => destruct (sf_sign a) eqn:?
    end).
Ltac close :=
  red_bool; sign_facts;
  repeat match goal with H : _ \/ _ |- _ => destruct H end;
  subst; rewrite ?val_negzero in *;
  first [ reflexivity | discriminate | congruence | lra | lia | tauto
        | exfalso; first [ lra | lia | congruence ] ].
(* guard = None <-> boolean specification *)
Ltac leaf := red_bool; split; intro; try reflexivity; try discriminate; exfalso; solve [ lra | lia ].
Ltac guard_tac := toR; split_atoms; leaf.
(* boolean specification = true <-> proposition over the reals *)
Ltac refl_tac := toR; split_atoms; red_bool; sign_facts; split; intro;
  repeat match goal with H : _ /\ _ |- _ => destruct H end;
  repeat match goal with |- _ /\ _ => split end;
  try solve [ close ].

Definition accepts {A} (r : option A) : Prop := r = None.

(** ------------------------------------------------------------------------------------------ *)
(** * Exact characterisation of every translated guard by the [g_act] of its specification *)
Section Guards.
Variable prec emax : Z.
Notation wf := (wf prec emax).
Notation fmt_ok := (fmt_ok prec emax).
Variable fm : fmt.
Hypothesis Hfm : fmt_ok fm.

Lemma exact_KMeans p : wf (KMeansValidParams_tolerance p) ->
  check_ref_KMeansParams fm p = None <-> g_act (spec_KMeansParams fm p) = true.
Proof. intros H. unfold check_ref_KMeansParams, spec_KMeansParams, ge1. guard_tac. Qed.

Lemma exact_Dbscan p : wf (DbscanValidParams_tolerance p) ->
  check_ref_DbscanParams fm p = None <-> g_act (spec_DbscanParams fm p) = true.
Proof. intros H. unfold check_ref_DbscanParams, spec_DbscanParams, ge2. guard_tac. Qed.

Lemma exact_Optics p : wf (OpticsValidParams_tolerance p) ->
  check_ref_OpticsParams fm p = None <-> g_act (spec_OpticsParams fm p) = true.
Proof. intros H. unfold check_ref_OpticsParams, spec_OpticsParams, ge2. guard_tac. Qed.

Lemma exact_Gmm p : wf (GmmValidParams_tolerance p) -> wf (GmmValidParams_reg_covar p) ->
  check_ref_GmmParams fm p = None <-> g_act (spec_GmmParams fm p) = true.
Proof. intros H1 H2. unfold check_ref_GmmParams, spec_GmmParams, ge1. guard_tac. Qed.

Lemma exact_ElasticNet p :
  wf (ElasticNetValidParamsBase_penalty p) -> wf (ElasticNetValidParamsBase_l1_ratio p) ->
  wf (ElasticNetValidParamsBase_tolerance p) ->
  check_ref_ElasticNetParamsBase fm p = None <-> g_act (spec_ElasticNetParamsBase fm p) = true.
Proof.
  intros H1 H2 H3.
  unfold check_ref_ElasticNetParamsBase, spec_ElasticNetParamsBase, in01, nonneg_bit, range_incl_contains.
  guard_tac.
Qed.

Lemma existsb_nonfinite l : Forall wf l -> existsb (fun x => negb (sf_is_finite x)) l = false.
Proof.
  induction 1 as [|x l Hx _ IH]; simpl; [reflexivity|]. rewrite (wf_finite _ _ x Hx), IH. reflexivity.
Qed.

Lemma exact_Logistic p :
  wf (LogisticRegressionValidParams_alpha p) -> wf (LogisticRegressionValidParams_gradient_tolerance p) ->
  match LogisticRegressionValidParams_initial_params p with Some l => Forall wf l | None => True end ->
  check_ref_LogisticRegressionParams fm p = None <-> g_act (spec_LogisticRegressionParams fm p) = true.
Proof.
  intros H1 H2 H3. unfold check_ref_LogisticRegressionParams, spec_LogisticRegressionParams.
  destruct (LogisticRegressionValidParams_initial_params p) as [l|];
    [rewrite (existsb_nonfinite l H3)|]; guard_tac.
Qed.

Lemma exact_Tweedie p :
  wf (TweedieRegressorValidParams_alpha p) -> wf (TweedieRegressorValidParams_power p) ->
  check_ref_TweedieRegressorParams fm p = None <-> g_act (spec_TweedieRegressorParams fm p) = true.
Proof.
  intros H1 H2. unfold check_ref_TweedieRegressorParams, spec_TweedieRegressorParams, nonneg_bit. guard_tac.
Qed.

Lemma exact_Platt p : wf (PlattValidParams_minstep p) -> wf (PlattValidParams_sigma p) ->
  check_ref_PlattParams fm p = None <-> g_act (spec_PlattParams fm p) = true.
Proof. intros H1 H2. unfold check_ref_PlattParams, spec_PlattParams, nonneg_bit, ge1. guard_tac. Qed.

Definition wf_pair_opt (o : option (spec_float * spec_float)) : Prop :=
  match o with Some (a, b) => wf a /\ wf b | None => True end.

Lemma exact_Svm p :
  wf (PlattValidParams_minstep (SvmValidParams_platt p)) -> wf (PlattValidParams_sigma (SvmValidParams_platt p)) ->
  wf (SolverParams_eps (SvmValidParams_solver_params p)) ->
  wf_pair_opt (SvmValidParams_c p) -> wf_pair_opt (SvmValidParams_nu p) ->
  check_ref_SvmParams fm p = None <-> g_act (spec_SvmParams fm p) = true.
Proof.
  intros H1 H2 H3 H4 H5. unfold check_ref_SvmParams, spec_SvmParams.
  pose proof (exact_Platt (SvmValidParams_platt p) H1 H2) as HP. cbn [g_act].
  destruct (check_ref_PlattParams fm (SvmValidParams_platt p)) as [e|].
  - destruct (g_act (spec_PlattParams fm (SvmValidParams_platt p))).
    + destruct HP as [_ HP]. specialize (HP eq_refl). discriminate.
    + cbn. split; discriminate.
  - destruct (g_act (spec_PlattParams fm (SvmValidParams_platt p))).
    2:{ destruct HP as [HP _]. specialize (HP eq_refl). discriminate. }
    clear HP. unfold nonneg_bit.
    destruct (SvmValidParams_c p) as [[c1 c2]|]; destruct (SvmValidParams_nu p) as [[n1 n2]|];
      cbn in H4, H5; repeat match goal with H : _ /\ _ |- _ => destruct H end; guard_tac.
Qed.

Lemma exact_DecisionTree p : wf (DecisionTreeValidParams_min_impurity_decrease p) ->
  check_ref_DecisionTreeParams fm p = None <-> g_act (spec_DecisionTreeParams fm p) = true.
Proof. intros H. unfold check_ref_DecisionTreeParams, spec_DecisionTreeParams. guard_tac. Qed.

Lemma exact_GaussianNb p : wf (GaussianNbValidParams_var_smoothing p) ->
  check_ref_GaussianNbParams fm p = None <-> g_act (spec_GaussianNbParams fm p) = true.
Proof. intros H. unfold check_ref_GaussianNbParams, spec_GaussianNbParams, nonneg_bit. guard_tac. Qed.

Lemma exact_MultinomialNb p : wf (MultinomialNbValidParams_alpha p) ->
  check_ref_MultinomialNbParams fm p = None <-> g_act (spec_MultinomialNbParams fm p) = true.
Proof. intros H. unfold check_ref_MultinomialNbParams, spec_MultinomialNbParams, nonneg_bit. guard_tac. Qed.

Lemma exact_Ftrl p :
  wf (FtrlValidParams_alpha p) -> wf (FtrlValidParams_beta p) ->
  wf (FtrlValidParams_l1_ratio p) -> wf (FtrlValidParams_l2_ratio p) ->
  check_ref_FtrlParams fm p = None <-> g_act (spec_FtrlParams fm p) = true.
Proof.
  intros H1 H2 H3 H4.
  unfold check_ref_FtrlParams, spec_FtrlParams, in01, nonneg_bit, range_incl_contains. guard_tac.
Qed.

Lemma exact_Pls p : wf (PlsValidParams_tolerance p) ->
  check_ref_PlsParams fm p = None <-> g_act (spec_PlsParams fm p) = true.
Proof. intros H. unfold check_ref_PlsParams, spec_PlsParams, spec_Pls, nonneg_bit, ge1. guard_tac. Qed.
Lemma exact_PlsX p : wf (PlsValidParams_tolerance p) ->
  check_ref_PlsXParams fm p = None <-> g_act (spec_PlsXParams fm p) = true.
Proof. intros H. unfold check_ref_PlsXParams, spec_PlsXParams, spec_Pls, nonneg_bit, ge1. guard_tac. Qed.

Lemma exact_TSne p : wf (TSneValidParams_perplexity p) -> wf (TSneValidParams_approx_threshold p) ->
  check_ref_TSneParams fm p = None <-> g_act (spec_TSneParams fm p) = true.
Proof. intros H1 H2. unfold check_ref_TSneParams, spec_TSneParams, nonneg_bit. guard_tac. Qed.

Lemma exact_FastIca p : wf (FastIcaValidParams_tol p) ->
  check_ref_FastIcaParams fm p = None <-> g_act (spec_FastIcaParams fm p) = true.
Proof.
  intros H. unfold check_ref_FastIcaParams, spec_FastIcaParams. cbn [g_act].
  destruct (FastIcaValidParams_gfunc p) as [a| |]; cbn [logcosh_ok].
  - change (range_incl_contains one64 (S754_finite false 4503599627370496 (-51)) a) with (fle one64 a && fle a two64).
    destruct (fle one64 a && fle a two64); cbn [negb seqf].
    + rewrite andb_true_r. guard_tac.
    + rewrite andb_false_r. split; discriminate.
  - rewrite andb_true_r. guard_tac.
  - rewrite andb_true_r. guard_tac.
Qed.

Lemma exact_DiffusionMap p :
  check_ref_DiffusionMapParams fm p = None <-> g_act (spec_DiffusionMapParams fm p) = true.
Proof. unfold check_ref_DiffusionMapParams, spec_DiffusionMapParams, ge1. guard_tac. Qed.

Lemma exact_Hierarchical p :
  match ValidHierarchicalCluster_stopping p with Criterion_Distance x => wf x | _ => True end ->
  check_ref_HierarchicalCluster fm p = None <-> g_act (spec_HierarchicalCluster fm p) = true.
Proof.
  intros H. unfold check_ref_HierarchicalCluster, spec_HierarchicalCluster, nonneg_bit, ge1.
  destruct (ValidHierarchicalCluster_stopping p); guard_tac.
Qed.

End Guards.

(** the two guards on fixed float types: `eps: f64` and `document_frequency: (f32, f32)` *)
Lemma fmt64_ok : fmt_ok 53 1024 fmt64.
Proof.
  unfold fmt_ok, wf, val, fmt64, one64, eps64; cbn [f_one f_eps].
  repeat split; try reflexivity; unfold SF2R, F2R; simpl; lra.
Qed.
Lemma fmt32_ok : fmt_ok 24 128 fmt32.
Proof.
  unfold fmt_ok, wf, val, fmt32, one32, eps32; cbn [f_one f_eps].
  repeat split; try reflexivity; unfold SF2R, F2R; simpl; lra.
Qed.

Lemma exact_RandomProjection fm p :
  match RandomProjectionValidParams_params p with RandomProjectionParamsInner_Epsilon e => wf 53 1024 e | _ => True end ->
  check_ref_RandomProjectionParams fm p = None <-> g_act (spec_RandomProjectionParams fm p) = true.
Proof.
  intros H. pose proof fmt64_ok as Hfm.
  unfold check_ref_RandomProjectionParams, spec_RandomProjectionParams, ge1.
  destruct (RandomProjectionValidParams_params p).
  - guard_tac.
  - change one64 with (f_one fmt64). fold (lt1 fmt64 s). unfold fge.
    change (SFleb (f_one fmt64) s) with (fle (f_one fmt64) s). guard_tac.
Qed.

Lemma exact_CountVectorizer fm p :
  wf 24 128 (fst (CountVectorizerValidParams_document_frequency p)) ->
  wf 24 128 (snd (CountVectorizerValidParams_document_frequency p)) ->
  check_ref_CountVectorizerParams fm p = None <-> g_act (spec_CountVectorizerParams fm p) = true.
Proof.
  intros H1 H2. pose proof fmt32_ok as Hfm.
  unfold check_ref_CountVectorizerParams, spec_CountVectorizerParams, ge1.
  destruct (CountVectorizerValidParams_n_gram_range p) as [n1 n2].
  destruct (CountVectorizerValidParams_document_frequency p) as [f1 f2]. cbn [fst snd] in H1, H2.
  destruct (CountVectorizerValidParams_split_regex_expr_compiles p); guard_tac.
Qed.

(** ------------------------------------------------------------------------------------------ *)
(** * Syntactic facts read from the sources (recomputed on every run) *)
Lemma every_builder_has_a_spec : all_builders_specified = true.
Proof. vm_compute. reflexivity. Qed.
Lemma every_check_is_canonical : forallb (fun t => snd t) check_is_check_ref_then_unwrap = true.
Proof. vm_compute. reflexivity. Qed.
Lemma check_by_value_spec {Err P} (cr : P -> option Err) (p : P) :
  match check_by_value cr p with
  | inl e => cr p = Some e
  | inr q => cr p = None /\ q = p
  end.
Proof. unfold check_by_value. destruct (cr p); auto. Qed.

Lemma blanket_fit_spec {Err Res E} (conv : Err -> E) (cr : option Err) (f : unit -> Res) :
  match cr with
  | Some e => blanket_fit conv cr f = UGuardErr (conv e)
  | None => blanket_fit conv cr f = UDelegated (f tt)
  end.
Proof. destruct cr; reflexivity. Qed.
