(** C04 - the checked parameter structs field by field (hand-written reading of the documentation, checked
    against the records / guards / entry points REGENERATED from the sources: gen/C04_guards.v, gen/C04_fields.v).

    1. [field_table]: for every numeric field of every checked parameter struct, what the guard does with it:
         [Constrained bad]       the guard looks at it: the default parameter set is accepted and the same set
                                 with [bad] at this field is rejected;
         [FreeDocumented why]    the guard never looks at it and the documentation states no range (quoted);
         [FreeKnown f why]       the guard never looks at it ALTHOUGH a range is documented: a known finding
                                 (F42; F-C04-1 was one until the repair 6e23381).
       A numeric field that is not in the table (a new field) makes FieldProofs.every_field_accounted fail.
    2. [untranslated_table]: the fields whose Rust type is outside the translated subset (generators, distance
       functions, markers, kernels, tokenisers): none of them is a number the guard could look at.
    3. [nonfinite_table]: for every float inside those fields, which of NaN / +inf / -inf check_ref lets
       through when every other value is finite (the property itself speaks of finite values only: this is
       the documentation of its boundary), with the parameter set that shows it.
       The block between the two marker comments is also read by harness/src/bin/c04.rs, which compares it
       with what the compiled check_ref does: keep one entry per line in exactly this form. *)
From Coq Require Import List NArith ZArith Bool String SpecFloat.
From LinfaVerif Require Import C04.Model gen.C04_guards gen.C04_fields.
Import ListNotations.
Open Scope string_scope.

(** * constants (binary64 unless stated) *)
Definition k_m1 : spec_float := S754_finite true 4503599627370496 (-52).     (* -1.0 *)
Definition k_2 : spec_float := S754_finite false 4503599627370496 (-51).      (* 2.0 *)
Definition k_half : spec_float := S754_finite false 4503599627370496 (-53).   (* 0.5 *)
Definition k_1em4 : spec_float := S754_finite false 7378697629483821 (-66).   (* 0.0001 *)
Definition k_1em3 : spec_float := S754_finite false 4611686018427388 (-62).   (* 0.001 *)
Definition k_1em5 : spec_float := S754_finite false 5902958103587057 (-69).   (* 1e-05 *)
Definition k_1em6 : spec_float := S754_finite false 4722366482869645 (-72).   (* 1e-06 *)
Definition k_1em7 : spec_float := S754_finite false 7555786372591432 (-76).   (* 1e-07 *)
Definition k_1em9 : spec_float := S754_finite false 4835703278458517 (-82).   (* 1e-09 *)
Definition k_1em10 : spec_float := S754_finite false 7737125245533627 (-86).  (* 1e-10 *)
Definition k_1em12 : spec_float := S754_finite false 4951760157141521 (-92).  (* 1e-12 *)
Definition k_5 : spec_float := S754_finite false 5629499534213120 (-50).      (* 5.0 *)
Definition k_0005 : spec_float := S754_finite false 5764607523034235 (-60).   (* 0.005 *)
Definition k_01 : spec_float := S754_finite false 7205759403792794 (-56).     (* 0.1 *)
Definition k32_m1 : spec_float := S754_finite true 8388608 (-23).             (* -1.0f32 *)
Definition k32_2 : spec_float := S754_finite false 8388608 (-22).             (* 2.0f32 *)
Definition pairv (a b : spec_float) : pval := VSome (VTup [VF a; VF b]).

(** * the documented default parameter set of every builder (the one Reading.v shows to be in range) *)
Definition default_envs : list (string * env) :=
  [("KMeansParams", [("n_runs", VN 10); ("tolerance", VF k_1em4); ("max_n_iterations", VN 300); ("n_clusters", VN 3);
                     ("init", VCtor "KMeansPlusPlus" [])]);
   ("DbscanParams", [("tolerance", VF k_1em4); ("min_points", VN 2)]);
   ("OpticsParams", [("tolerance", VF one64); ("min_points", VN 2)]);
   ("GmmParams", [("n_clusters", VN 2); ("tolerance", VF k_1em3); ("reg_covar", VF k_1em6); ("n_runs", VN 1); ("max_n_iter", VN 100)]);
   ("ElasticNetParamsBase", [("penalty", VF one64); ("l1_ratio", VF k_half); ("max_iterations", VN 1000); ("tolerance", VF k_1em4)]);
   ("LogisticRegressionParams", [("alpha", VF one64); ("max_iterations", VN 100); ("gradient_tolerance", VF k_1em4); ("initial_params", VNone)]);
   ("TweedieRegressorParams", [("alpha", VF one64); ("power", VF one64); ("max_iter", VN 100); ("tol", VF k_1em4)]);
   ("PlattParams", [("maxiter", VN 100); ("minstep", VF k_1em10); ("sigma", VF k_1em12)]);
   ("SvmParams", [("c", pairv one64 one64); ("nu", VNone); ("solver_params", VRec [("eps", VF k_1em7)]);
                  ("platt", VRec [("maxiter", VN 100); ("minstep", VF k_1em10); ("sigma", VF k_1em12)])]);
   ("DecisionTreeParams", [("min_impurity_decrease", VF k_1em5); ("min_weight_split", VF k32_2); ("min_weight_leaf", VF one32);
                           ("max_depth", VNone)]);
   ("GaussianNbParams", [("var_smoothing", VF k_1em9)]);
   ("MultinomialNbParams", [("alpha", VF one64)]);
   ("FtrlParams", [("alpha", VF k_0005); ("beta", VF fzero); ("l1_ratio", VF k_half); ("l2_ratio", VF k_half)]);
   ("PlsParams", [("n_components", VN 2); ("max_iter", VN 500); ("tolerance", VF k_1em6)]);
   ("PlsXParams", [("n_components", VN 2); ("max_iter", VN 500); ("tolerance", VF k_1em6)]);
   ("TSneParams", [("embedding_size", VN 2); ("approx_threshold", VF k_half); ("perplexity", VF k_5); ("max_iter", VN 2000);
                   ("preliminary_iter", VNone)]);
   ("FastIcaParams", [("ncomponents", VNone); ("gfunc", VCtor "Logcosh" [VF one64]); ("max_iter", VN 200); ("tol", VF k_1em4);
                      ("random_state", VNone)]);
   ("DiffusionMapParams", [("steps", VN 1); ("embedding_size", VN 2)]);
   ("RandomProjectionParams", [("params", VCtor "Epsilon" [VF k_01])]);
   ("HierarchicalCluster", [("stopping", VCtor "NumClusters" [VN 2])]);
   ("CountVectorizerParams", [("n_gram_range", VTup [VN 1; VN 1]); ("document_frequency", VTup [VF fzero; VF one32]);
                              ("max_features", VNone); ("split_regex_expr_compiles", VB true)])].

Fixpoint assoc {A} (l : list (string * A)) (k : string) : option A :=
  match l with
  | [] => None
  | (k', v) :: r => if String.eqb k k' then Some v else assoc r k
  end.
Definition default_env (b : string) : env := match assoc default_envs b with Some e => e | None => [] end.

(** * 1. every numeric field *)
Inductive field_status :=
| Constrained (bad : pval)
| FreeDocumented (why : string)
| FreeKnown (finding why : string).

Definition field_table : list (string * list (string * field_status)) :=
  [("GaussianNbParams", [("var_smoothing", Constrained (VF k_m1))]);
   ("MultinomialNbParams", [("alpha", Constrained (VF k_m1))]);
   ("DbscanParams", [("tolerance", Constrained (VF k_m1)); ("min_points", Constrained (VN 1))]);
   ("GmmParams", [("n_clusters", Constrained (VN 0)); ("tolerance", Constrained (VF fzero)); ("reg_covar", Constrained (VF k_m1));
                  ("n_runs", Constrained (VN 0)); ("max_n_iter", Constrained (VN 0))]);
   ("KMeansParams", [("n_runs", Constrained (VN 0)); ("tolerance", Constrained (VF fzero)); ("max_n_iterations", Constrained (VN 0));
                     ("n_clusters", Constrained (VN 0));
                     ("init", FreeDocumented "KMeansInit::Precomputed: `Precomputed list of centroids, represented as an array of (n_centroids, n_features)` - data, no range")]);
   ("OpticsParams", [("tolerance", Constrained (VF fzero)); ("min_points", Constrained (VN 1))]);
   ("ElasticNetParamsBase",
     [("penalty", Constrained (VF k_m1)); ("l1_ratio", Constrained (VF k_2)); ("tolerance", Constrained (VF k_m1));
      ("max_iterations", FreeKnown "F42" "parameter table of ElasticNetParams: max_iterations `[1, inf)`")]);
   ("FtrlParams", [("alpha", Constrained (VF k_m1)); ("beta", Constrained (VF k_m1)); ("l1_ratio", Constrained (VF k_2));
                   ("l2_ratio", Constrained (VF k_2))]);
   ("HierarchicalCluster", [("stopping", Constrained (VCtor "NumClusters" [VN 0]))]);
   ("FastIcaParams",
     [("tol", Constrained (VF k_m1));
      (* fast_ica.rs `# Errors`: alpha of GFunc::Logcosh between 1 and 2 inclusive (guarded since 6e23381, finding F-C04-1 fixed) *)
      ("gfunc", Constrained (VCtor "Logcosh" [VF k_5]));
      ("ncomponents", FreeDocumented "`Set the number of components to use, if not set all are used`; compared with the data by fit");
      ("max_iter", FreeDocumented "`Set maximum number of iterations during fit` - no range");
      ("random_state", FreeDocumented "`Set seed for random number generator for reproducible results.` - any value")]);
   ("TweedieRegressorParams",
     [("alpha", Constrained (VF k_m1)); ("power", Constrained (VF k_half));
      ("max_iter", FreeDocumented "`Maximum number of iterations for the LBFGS solver` - no range");
      ("tol", FreeDocumented "`Stopping criterion for the LBFGS solver` - no range")]);
   ("LogisticRegressionParams",
     [("alpha", Constrained (VF k_m1)); ("gradient_tolerance", Constrained (VF fzero));
      ("initial_params", Constrained (VSome (VTup [VF S754_nan])));
      ("max_iterations", FreeDocumented "`Configure the maximum number of iterations that the solver should perform, defaults to 100` - no range")]);
   ("PlsParams", [("tolerance", Constrained (VF k_m1)); ("max_iter", Constrained (VN 0));
                  ("n_components", FreeDocumented "constructor argument; bounded by the data (rank / number of features) in fit")]);
   ("PlsXParams", [("tolerance", Constrained (VF k_m1)); ("max_iter", Constrained (VN 0));
                   ("n_components", FreeDocumented "constructor argument; bounded by the data (rank / number of features) in fit")]);
   ("CountVectorizerParams",
     [("n_gram_range", Constrained (VTup [VN 0; VN 1])); ("document_frequency", Constrained (VTup [VF k32_m1; VF one32]));
      ("max_features", FreeDocumented "`only consider the top max_features (by term frequency). If None, all features are used.` - no range")]);
   ("DiffusionMapParams", [("steps", Constrained (VN 0)); ("embedding_size", Constrained (VN 0))]);
   ("RandomProjectionParams", [("params", Constrained (VCtor "Dimension" [VN 0]))]);
   ("PlattParams", [("maxiter", Constrained (VN 0)); ("minstep", Constrained (VF k_m1)); ("sigma", Constrained (VF k_m1))]);
   ("SvmParams", [("c", Constrained (pairv k_m1 one64)); ("nu", Constrained (pairv k_2 one64));
                  ("solver_params", Constrained (VRec [("eps", VF k_m1)]));
                  ("platt", Constrained (VRec [("maxiter", VN 0); ("minstep", VF k_1em10); ("sigma", VF k_1em12)]))]);
   ("DecisionTreeParams",
     [("min_impurity_decrease", Constrained (VF fzero));
      ("max_depth", FreeDocumented "`Sets the optional limit to the depth of the decision tree` - no range");
      ("min_weight_split", FreeDocumented "`Sets the minimum weight of samples required to split a node.` - no range stated");
      ("min_weight_leaf", FreeDocumented "`Sets the minimum weight of samples that a split has to place in each leaf` - no range stated")]);
   ("TSneParams",
     [("approx_threshold", Constrained (VF k_m1)); ("perplexity", Constrained (VF k_m1));
      ("embedding_size", FreeDocumented "constructor argument; compared with the number of features by transform (EmbeddingSizeTooLarge)");
      ("max_iter", FreeDocumented "`Set the maximal number of iterations` - no range");
      ("preliminary_iter", FreeDocumented "`the number of iterations after which the true P distribution is used ... If None the number is estimated.` - no range")])].

Definition status_of (b f : string) : option field_status :=
  match assoc field_table b with Some l => assoc l f | None => None end.

(** * 2. fields outside the translated subset: (builder, [(field, Rust type)]) *)
Definition untranslated_table : list (string * list (string * string)) :=
  [("GaussianNbParams", [("label", "PhantomData<L>")]);
   ("MultinomialNbParams", [("label", "PhantomData<L>")]);
   ("DbscanParams", [("dist_fn", "D"); ("nn_algo", "N")]);
   ("GmmParams", [("rng", "R")]);
   ("KMeansParams", [("rng", "R"); ("dist_fn", "D")]);
   ("OpticsParams", [("dist_fn", "D"); ("nn_algo", "N")]);
   ("ElasticNetParamsBase", []);
   ("FtrlParams", [("rng", "R")]);
   ("HierarchicalCluster", [("method", "Method")]);
   ("FastIcaParams", []);
   ("TweedieRegressorParams", []);
   ("LogisticRegressionParams", []);
   ("PlsParams", []);
   ("PlsXParams", []);
   ("CountVectorizerParams", [("split_regex_expr", "String"); ("split_regex", "RefCell<Option<SerdeRegex>>");
                              ("stopwords", "Option<HashSet<String>>"); ("tokenizer_function", "Option<Tokenizerfp>")]);
   ("DiffusionMapParams", []);
   ("RandomProjectionParams", [("rng", "R"); ("marker", "PhantomData<Proj>")]);
   ("PlattParams", [("phantom", "PhantomData<O>")]);
   (* the kernel parameters belong to linfa-kernel, which has no parameter guard at all: outside this property *)
   ("SvmParams", [("phantom", "PhantomData<T>"); ("kernel", "KernelParams<F>")]);
   ("DecisionTreeParams", [("label_marker", "PhantomData<L>")]);
   ("TSneParams", [("rng", "R")])].

(** * 3. non-finite values *)
Inductive special := SNaN | SPInf | SNInf.
Definition sval (s : special) : spec_float :=
  match s with SNaN => S754_nan | SPInf => S754_infinity false | SNInf => S754_infinity true end.
Definition special_eqb (a b : special) : bool :=
  match a, b with SNaN, SNaN | SPInf, SPInf | SNInf, SNInf => true | _, _ => false end.
Definition all_specials : list special := [SNaN; SPInf; SNInf].

(* (builder, float leaf, the special values check_ref accepts there, the fields to override in the default
   set so that the leaf holds the value [x]) *)
Definition nonfinite_table : list (string * string * list special * (spec_float -> env)) :=
  (* BEGIN nonfinite_table *)
  [("GaussianNbParams", "var_smoothing", [SNaN; SPInf], fun x => [("var_smoothing", VF x)]);
   ("MultinomialNbParams", "alpha", [SNaN; SPInf], fun x => [("alpha", VF x)]);
   ("DbscanParams", "tolerance", [SNaN; SPInf], fun x => [("tolerance", VF x)]);
   ("GmmParams", "tolerance", [SNaN; SPInf], fun x => [("tolerance", VF x)]);
   ("GmmParams", "reg_covar", [SNaN; SPInf], fun x => [("reg_covar", VF x)]);
   ("KMeansParams", "tolerance", [SNaN; SPInf], fun x => [("tolerance", VF x)]);
   ("KMeansParams", "init.Precomputed.*", [SNaN; SPInf; SNInf], fun x => [("init", VCtor "Precomputed" [VTup [VF x]])]);
   ("OpticsParams", "tolerance", [SNaN; SPInf], fun x => [("tolerance", VF x)]);
   ("ElasticNetParamsBase", "penalty", [SNaN; SPInf], fun x => [("penalty", VF x)]);
   ("ElasticNetParamsBase", "l1_ratio", [], fun x => [("l1_ratio", VF x)]);
   ("ElasticNetParamsBase", "tolerance", [SNaN; SPInf], fun x => [("tolerance", VF x)]);
   ("FtrlParams", "alpha", [], fun x => [("alpha", VF x)]);
   ("FtrlParams", "beta", [], fun x => [("beta", VF x)]);
   ("FtrlParams", "l1_ratio", [], fun x => [("l1_ratio", VF x)]);
   ("FtrlParams", "l2_ratio", [], fun x => [("l2_ratio", VF x)]);
   ("HierarchicalCluster", "stopping.Distance", [], fun x => [("stopping", VCtor "Distance" [VF x])]);
   ("FastIcaParams", "gfunc.Logcosh", [], fun x => [("gfunc", VCtor "Logcosh" [VF x])]);
   ("FastIcaParams", "tol", [SNaN; SPInf], fun x => [("tol", VF x)]);
   ("TweedieRegressorParams", "alpha", [SNaN; SPInf], fun x => [("alpha", VF x)]);
   ("TweedieRegressorParams", "power", [SNaN; SPInf; SNInf], fun x => [("power", VF x)]);
   ("TweedieRegressorParams", "tol", [SNaN; SPInf; SNInf], fun x => [("tol", VF x)]);
   ("LogisticRegressionParams", "alpha", [], fun x => [("alpha", VF x)]);
   ("LogisticRegressionParams", "gradient_tolerance", [], fun x => [("gradient_tolerance", VF x)]);
   ("LogisticRegressionParams", "initial_params.*", [], fun x => [("initial_params", VSome (VTup [VF fzero; VF x]))]);
   ("PlsParams", "tolerance", [], fun x => [("tolerance", VF x)]);
   ("PlsXParams", "tolerance", [], fun x => [("tolerance", VF x)]);
   ("CountVectorizerParams", "document_frequency.0", [SNaN], fun x => [("document_frequency", VTup [VF x; VF one32])]);
   ("CountVectorizerParams", "document_frequency.1", [SNaN; SPInf], fun x => [("document_frequency", VTup [VF fzero; VF x])]);
   ("RandomProjectionParams", "params.Epsilon", [SNaN], fun x => [("params", VCtor "Epsilon" [VF x])]);
   ("PlattParams", "minstep", [SNaN; SPInf], fun x => [("minstep", VF x)]);
   ("PlattParams", "sigma", [SNaN; SPInf], fun x => [("sigma", VF x)]);
   ("SvmParams", "c.0", [SNaN; SPInf], fun x => [("c", pairv x one64)]);
   ("SvmParams", "c.1", [SNaN; SPInf], fun x => [("c", pairv one64 x)]);
   ("SvmParams", "nu.0", [SNaN], fun x => [("c", VNone); ("nu", pairv x one64)]);
   ("SvmParams", "nu.1", [SNaN; SPInf; SNInf], fun x => [("c", VNone); ("nu", pairv k_half x)]);
   ("SvmParams", "solver_params.eps", [], fun x => [("solver_params", VRec [("eps", VF x)])]);
   ("SvmParams", "platt.minstep", [SNaN; SPInf], fun x => [("platt", VRec [("maxiter", VN 100); ("minstep", VF x); ("sigma", VF k_1em12)])]);
   ("SvmParams", "platt.sigma", [SNaN; SPInf], fun x => [("platt", VRec [("maxiter", VN 100); ("minstep", VF k_1em10); ("sigma", VF x)])]);
   ("DecisionTreeParams", "min_weight_split", [SNaN; SPInf; SNInf], fun x => [("min_weight_split", VF x)]);
   ("DecisionTreeParams", "min_weight_leaf", [SNaN; SPInf; SNInf], fun x => [("min_weight_leaf", VF x)]);
   ("DecisionTreeParams", "min_impurity_decrease", [SNaN; SPInf], fun x => [("min_impurity_decrease", VF x)]);
   ("TSneParams", "approx_threshold", [SNaN; SPInf], fun x => [("approx_threshold", VF x)]);
   ("TSneParams", "perplexity", [SNaN; SPInf], fun x => [("perplexity", VF x)])
  (* END nonfinite_table *)
  ].

Definition nonfinite_entry (b leaf : string) : option (list special * (spec_float -> env)) :=
  (fix go (l : list (string * string * list special * (spec_float -> env))) :=
     match l with
     | [] => None
     | (b', leaf', acc, ov) :: r => if String.eqb b b' && String.eqb leaf leaf' then Some (acc, ov) else go r
     end) nonfinite_table.
Definition nonfinite_listed (b leaf : string) (s : special) : bool :=
  match nonfinite_entry b leaf with Some (acc, _) => existsb (special_eqb s) acc | None => false end.

(** * executable checks (evaluated in FieldProofs.v) *)
Definition acceptsb {A} (r : option A) : bool := match r with None => true | Some _ => false end.

(* the witness of a constrained field: the default set is accepted, the same set with [bad] at the field is rejected *)
Definition constrained_witness_ok (gp : guard_pack) (fd : field_desc (gp_P gp)) : bool :=
  match status_of (gp_builder gp) (fd_name fd) with
  | Some (Constrained bad) =>
      let base := gp_of_env gp (default_env (gp_builder gp)) in
      acceptsb (gp_guard gp fmt64 base) && negb (acceptsb (gp_guard gp fmt64 (fd_set fd (fd_dec fd bad) base)))
  | _ => false
  end.
Definition free_status (gp : guard_pack) (fd : field_desc (gp_P gp)) : bool :=
  match status_of (gp_builder gp) (fd_name fd) with
  | Some (FreeDocumented _) | Some (FreeKnown _ _) => true
  | _ => false
  end.

(* the witness of an accepted special value: it sits at the leaf, every other float of the set is finite, and
   the guard accepts *)
Definition nonfinite_witness (gp : guard_pack) (leaf : string) (s : special) : option (gp_P gp) :=
  match nonfinite_entry (gp_builder gp) leaf with
  | Some (_, ov) => Some (gp_of_env gp (List.app (ov (sval s)) (default_env (gp_builder gp))))
  | None => None
  end.
Definition sf_eqb_exact (a b : spec_float) : bool :=
  match a, b with
  | S754_nan, S754_nan => true
  | S754_infinity s, S754_infinity t => Bool.eqb s t
  | _, _ => false
  end.
Definition accepted_witness_ok (gp : guard_pack) (leaf : string) (get : gp_P gp -> list spec_float) (s : special) : bool :=
  match nonfinite_witness gp leaf s with
  | Some p =>
      existsb (sf_eqb_exact (sval s)) (get p)
      && forallb (fun l => String.eqb (fst l) leaf || forallb sf_is_finite (snd l p)) (gp_leaves gp)
      && acceptsb (gp_guard gp fmt64 p)
  | None => false
  end.
