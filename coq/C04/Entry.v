(** C04 - what the entry-point table read off the sources (gen/C04_guards.v [entry_points]) has to satisfy,
    as executable definitions shared by the correspondence (Corr.v) and the theorems (EntryProofs.v). *)
From Coq Require Import List NArith Bool String.
From LinfaVerif Require Import C04.Model gen.C04_guards.
Import ListNotations.
Open Scope string_scope.

(** the entry points of a builder, from the table the translator reads off the sources on every run
    (gen/C04_guards.v [entry_points]) *)
Definition ep_is (c : ep_class) (e : entry_point) : bool := ep_class_eqb (ep_cls e) c.
(* Fit / FitWith reach an unchecked type only through the blanket impls (a direct impl is a bypass), the
   predicting traits not at all *)
Definition ep_direct_allowed (e : entry_point) : bool :=
  negb (ep_is EpUnchecked e)
  || String.eqb (ep_trait e) "" || String.eqb (ep_trait e) "Transformer".
(* every method of the blanket impls and of the builder itself is `check_ref` first, then the same call *)
Definition entry_points_ok (b : string) : bool :=
  forallb (fun e => negb (ep_is EpBlanket e || (ep_is EpUnchecked e && String.eqb (ep_builder e) b))
                    || (ep_guarded e && ep_direct_allowed e)) entry_points
  && forallb (fun t => existsb (fun e => ep_is EpBlanket e && String.eqb (ep_trait e) t) entry_points)
       ["Fit"; "FitWith"; "Transformer"].

(* the calls the harness has to make on builder [b]: one per trait that reaches it through a blanket impl
   (key = method name), one per hand-written method on the builder itself (key = method:first parameter type) *)
Definition required_calls (b : string) : list string :=
  flat_map (fun e =>
    if negb (String.eqb (ep_builder e) b) then [] else
    match ep_cls e with
    | EpUnchecked => map (fun f => ep_key (fst f) (ep_records e))
                       (filter (fun f => match snd f with EpGetter => false | _ => true end) (ep_fns e))
    | EpChecked =>
        if String.eqb (ep_trait e) "Fit" then ["fit"]
        else if String.eqb (ep_trait e) "FitWith" then ["fit_with"]
        else if String.eqb (ep_trait e) "Transformer" && existsb (String.eqb b) transform_guard_impls then ["transform"]
        else []
    | _ => []
    end) entry_points.

