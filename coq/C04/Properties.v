(** C04 - property theorems.  "Invalid hyper-parameters are rejected with an error before any training".

    [check_ref_X] are the guards REGENERATED from the Rust sources on every run (gen/C04_guards.v);
    [None] is `Ok(&self.0)`.  [wf prec emax x]: x is a finite number of the binary format (prec, emax)
    ((53, 1024) = f64, (24, 128) = f32); [fmt_ok prec emax fm]: `F::one()` is 1 and `F::epsilon()` is
    positive in that format; [val x] is the real value; [negzero] is -0.0.

    - guard_iff_X: the documentation is explicit and the guard accepts exactly the documented range;
    - guard_exact_X: the exact set a guard accepts, where it differs from or is finer than the
      documentation (sign-bit tests also reject -0.0);
    - guard_X_vs_documentation: outside the known-finding classes (hypotheses marked F..), the
      documented range in its strict reading is accepted and everything accepted lies in the loose
      reading (the two coincide - giving "if and only if" - where the documentation is explicit;
      reading rules in Spec.v);
    - guard_X_refuted_F..: the witness that the faithful model violates the property there;
    - check_agrees_with_check_ref, unchecked_entry_points_return_the_guard_error: by-value checking
      and the blanket Fit / FitWith / Transformer impls, from the syntactic facts read off the sources. *)
From Coq Require Import List NArith ZArith Bool String SpecFloat Reals Lra Lia.
From LinfaVerif Require Import C04.Model gen.C04_guards C04.Spec C04.Proofs C04.Reading.
Import ListNotations.
Local Open Scope R_scope.

(** * Builders with explicit documentation that the guard implements exactly *)

Theorem guard_iff_KMeansParams : forall prec emax fm p, fmt_ok prec emax fm ->
  wf prec emax (KMeansValidParams_tolerance p) ->
  (check_ref_KMeansParams fm p = None <->
   (1 <= KMeansValidParams_n_clusters p)%N /\ (1 <= KMeansValidParams_n_runs p)%N
   /\ 0 < val (KMeansValidParams_tolerance p) /\ (1 <= KMeansValidParams_max_n_iterations p)%N).
Proof. intros. rewrite (exact_KMeans prec emax), (read_KMeans prec emax) by assumption. reflexivity. Qed.

Theorem guard_iff_DbscanParams : forall prec emax fm p, fmt_ok prec emax fm ->
  wf prec emax (DbscanValidParams_tolerance p) ->
  (check_ref_DbscanParams fm p = None <->
   (2 <= DbscanValidParams_min_points p)%N /\ 0 < val (DbscanValidParams_tolerance p)).
Proof. intros. rewrite (exact_Dbscan prec emax), (read_Dbscan prec emax) by assumption. reflexivity. Qed.

Theorem guard_iff_OpticsParams : forall prec emax fm p, fmt_ok prec emax fm ->
  wf prec emax (OpticsValidParams_tolerance p) ->
  (check_ref_OpticsParams fm p = None <->
   0 < val (OpticsValidParams_tolerance p) /\ (2 <= OpticsValidParams_min_points p)%N).
Proof. intros. rewrite (exact_Optics prec emax), (read_Optics prec emax) by assumption. reflexivity. Qed.

Theorem guard_iff_GmmParams : forall prec emax fm p, fmt_ok prec emax fm ->
  wf prec emax (GmmValidParams_tolerance p) -> wf prec emax (GmmValidParams_reg_covar p) ->
  (check_ref_GmmParams fm p = None <->
   (1 <= GmmValidParams_n_clusters p)%N /\ 0 < val (GmmValidParams_tolerance p)
   /\ 0 <= val (GmmValidParams_reg_covar p) /\ (1 <= GmmValidParams_n_runs p)%N
   /\ (1 <= GmmValidParams_max_n_iter p)%N).
Proof. intros. rewrite (exact_Gmm prec emax), (read_Gmm prec emax) by assumption. reflexivity. Qed.

Theorem guard_iff_DiffusionMapParams : forall prec emax fm p, fmt_ok prec emax fm ->
  (check_ref_DiffusionMapParams fm p = None <->
   (1 <= DiffusionMapValidParams_steps p)%N /\ (1 <= DiffusionMapValidParams_embedding_size p)%N).
Proof. intros. rewrite (exact_DiffusionMap prec emax), (read_DiffusionMap prec emax) by assumption. reflexivity. Qed.

(* `eps` is an f64 whatever the data type *)
Theorem guard_iff_RandomProjectionParams : forall fm p,
  match RandomProjectionValidParams_params p with RandomProjectionParamsInner_Epsilon e => wf 53 1024 e | _ => True end ->
  (check_ref_RandomProjectionParams fm p = None <->
   match RandomProjectionValidParams_params p with
   | RandomProjectionParamsInner_Dimension d => (1 <= d)%N
   | RandomProjectionParamsInner_Epsilon e => 0 < val e < 1
   end).
Proof. intros. rewrite exact_RandomProjection, read_RandomProjection by assumption. reflexivity. Qed.

(** * Builders whose documentation leaves zero undecided ("positive"), no known finding *)

Theorem guard_exact_LogisticRegressionParams : forall prec emax fm p, fmt_ok prec emax fm ->
  wf prec emax (LogisticRegressionValidParams_alpha p) ->
  wf prec emax (LogisticRegressionValidParams_gradient_tolerance p) ->
  match LogisticRegressionValidParams_initial_params p with Some l => Forall (wf prec emax) l | None => True end ->
  (check_ref_LogisticRegressionParams fm p = None <->
   0 <= val (LogisticRegressionValidParams_alpha p) /\ 0 < val (LogisticRegressionValidParams_gradient_tolerance p)).
Proof. intros. rewrite (exact_Logistic prec emax), (act_Logistic prec emax) by assumption. reflexivity. Qed.

(* "alpha / gradient_tolerance must be a positive, finite number" *)
Theorem guard_LogisticRegressionParams_vs_documentation : forall prec emax fm p, fmt_ok prec emax fm ->
  wf prec emax (LogisticRegressionValidParams_alpha p) ->
  wf prec emax (LogisticRegressionValidParams_gradient_tolerance p) ->
  match LogisticRegressionValidParams_initial_params p with Some l => Forall (wf prec emax) l | None => True end ->
  (0 < val (LogisticRegressionValidParams_alpha p) /\ 0 < val (LogisticRegressionValidParams_gradient_tolerance p)
   -> check_ref_LogisticRegressionParams fm p = None)
  /\ (check_ref_LogisticRegressionParams fm p = None ->
      0 <= val (LogisticRegressionValidParams_alpha p) /\ 0 <= val (LogisticRegressionValidParams_gradient_tolerance p)).
Proof. intros. rewrite (guard_exact_LogisticRegressionParams prec emax) by assumption. split; intros; lra. Qed.

Theorem guard_exact_FastIcaParams : forall prec emax fm p, fmt_ok prec emax fm ->
  wf prec emax (FastIcaValidParams_tol p) ->
  (check_ref_FastIcaParams fm p = None <->
   0 <= val (FastIcaValidParams_tol p) /\ logcosh_ok (FastIcaValidParams_gfunc p) = true).
Proof. intros. rewrite (exact_FastIca prec emax), (act_FastIca prec emax) by assumption. reflexivity. Qed.

(* "tolerance should be positive"; "If the alpha value set for GFunc::Logcosh is not between 1 and 2 inclusive" *)
Theorem guard_FastIcaParams_vs_documentation : forall prec emax fm p, fmt_ok prec emax fm ->
  wf prec emax (FastIcaValidParams_tol p) ->
  (0 < val (FastIcaValidParams_tol p) /\ logcosh_ok (FastIcaValidParams_gfunc p) = true -> check_ref_FastIcaParams fm p = None)
  /\ (check_ref_FastIcaParams fm p = None ->
      0 <= val (FastIcaValidParams_tol p) /\ logcosh_ok (FastIcaValidParams_gfunc p) = true).
Proof. intros. rewrite (guard_exact_FastIcaParams prec emax) by assumption. split; intros; [split; [lra | tauto] | assumption]. Qed.

(* the boolean above over the reals (alpha is an f64) *)
Theorem logcosh_alpha_range : forall g, match g with GFunc_Logcosh a => wf 53 1024 a | _ => True end ->
  (logcosh_ok g = true <-> match g with GFunc_Logcosh a => 1 <= val a <= 2 | _ => True end).
Proof. exact logcosh_ok_R. Qed.

(** * Builders with a sign-bit test (finding F8: -0.0 is rejected where +0.0 is accepted) *)

Theorem guard_exact_ElasticNetParamsBase : forall prec emax fm p, fmt_ok prec emax fm ->
  wf prec emax (ElasticNetValidParamsBase_penalty p) -> wf prec emax (ElasticNetValidParamsBase_l1_ratio p) ->
  wf prec emax (ElasticNetValidParamsBase_tolerance p) ->
  (check_ref_ElasticNetParamsBase fm p = None <->
   (0 <= val (ElasticNetValidParamsBase_penalty p) /\ ElasticNetValidParamsBase_penalty p <> negzero)
   /\ (0 <= val (ElasticNetValidParamsBase_l1_ratio p) <= 1)
   /\ (0 <= val (ElasticNetValidParamsBase_tolerance p) /\ ElasticNetValidParamsBase_tolerance p <> negzero)).
Proof. intros. rewrite (exact_ElasticNet prec emax), (act_ElasticNet prec emax) by assumption. reflexivity. Qed.

(* table: penalty [0, inf), l1_ratio [0, 1], tolerance (0, inf) / "negative", max_iterations [1, inf) *)
Theorem guard_ElasticNetParamsBase_vs_documentation : forall prec emax fm p, fmt_ok prec emax fm ->
  wf prec emax (ElasticNetValidParamsBase_penalty p) -> wf prec emax (ElasticNetValidParamsBase_l1_ratio p) ->
  wf prec emax (ElasticNetValidParamsBase_tolerance p) ->
  ElasticNetValidParamsBase_penalty p <> negzero -> ElasticNetValidParamsBase_tolerance p <> negzero ->   (* F8 *)
  ElasticNetValidParamsBase_max_iterations p <> 0%N ->                                                    (* F42 *)
  (0 <= val (ElasticNetValidParamsBase_penalty p) /\ 0 <= val (ElasticNetValidParamsBase_l1_ratio p) <= 1
   /\ 0 < val (ElasticNetValidParamsBase_tolerance p) /\ (1 <= ElasticNetValidParamsBase_max_iterations p)%N
   -> check_ref_ElasticNetParamsBase fm p = None)
  /\ (check_ref_ElasticNetParamsBase fm p = None ->
      0 <= val (ElasticNetValidParamsBase_penalty p) /\ 0 <= val (ElasticNetValidParamsBase_l1_ratio p) <= 1
      /\ 0 <= val (ElasticNetValidParamsBase_tolerance p) /\ (1 <= ElasticNetValidParamsBase_max_iterations p)%N).
Proof.
  intros. rewrite (guard_exact_ElasticNetParamsBase prec emax) by assumption.
  split; intros; repeat split; try tauto; try lra; lia.
Qed.

Theorem guard_exact_TweedieRegressorParams : forall prec emax fm p, fmt_ok prec emax fm ->
  wf prec emax (TweedieRegressorValidParams_alpha p) -> wf prec emax (TweedieRegressorValidParams_power p) ->
  (check_ref_TweedieRegressorParams fm p = None <->
   (0 <= val (TweedieRegressorValidParams_alpha p) /\ TweedieRegressorValidParams_alpha p <> negzero)
   /\ ~ (0 < val (TweedieRegressorValidParams_power p) < 1)).
Proof. intros. rewrite (exact_Tweedie prec emax), (act_Tweedie prec emax) by assumption. reflexivity. Qed.

(* "`alpha` set to 0 is equivalent to unpenalized GLM"; "power should not be in (0, 1)" *)
Theorem guard_iff_TweedieRegressorParams_outside_known : forall prec emax fm p, fmt_ok prec emax fm ->
  wf prec emax (TweedieRegressorValidParams_alpha p) -> wf prec emax (TweedieRegressorValidParams_power p) ->
  TweedieRegressorValidParams_alpha p <> negzero ->                                                       (* F8 *)
  (check_ref_TweedieRegressorParams fm p = None <->
   0 <= val (TweedieRegressorValidParams_alpha p) /\ ~ (0 < val (TweedieRegressorValidParams_power p) < 1)).
Proof. intros. rewrite (guard_exact_TweedieRegressorParams prec emax) by assumption. tauto. Qed.

Theorem guard_exact_GaussianNbParams : forall prec emax fm p, fmt_ok prec emax fm ->
  wf prec emax (GaussianNbValidParams_var_smoothing p) ->
  (check_ref_GaussianNbParams fm p = None <->
   0 <= val (GaussianNbValidParams_var_smoothing p) /\ GaussianNbValidParams_var_smoothing p <> negzero).
Proof. intros. rewrite (exact_GaussianNb prec emax), (act_GaussianNb prec emax) by assumption. reflexivity. Qed.

(* table: var_smoothing [0, inf) *)
Theorem guard_iff_GaussianNbParams_outside_known : forall prec emax fm p, fmt_ok prec emax fm ->
  wf prec emax (GaussianNbValidParams_var_smoothing p) ->
  GaussianNbValidParams_var_smoothing p <> negzero ->                                                     (* F8 *)
  (check_ref_GaussianNbParams fm p = None <-> 0 <= val (GaussianNbValidParams_var_smoothing p)).
Proof. intros. rewrite (guard_exact_GaussianNbParams prec emax) by assumption. tauto. Qed.

Theorem guard_exact_MultinomialNbParams : forall prec emax fm p, fmt_ok prec emax fm ->
  wf prec emax (MultinomialNbValidParams_alpha p) ->
  (check_ref_MultinomialNbParams fm p = None <->
   0 <= val (MultinomialNbValidParams_alpha p) /\ MultinomialNbValidParams_alpha p <> negzero).
Proof. intros. rewrite (exact_MultinomialNb prec emax), (act_MultinomialNb prec emax) by assumption. reflexivity. Qed.

(* table: alpha [0, inf) *)
Theorem guard_iff_MultinomialNbParams_outside_known : forall prec emax fm p, fmt_ok prec emax fm ->
  wf prec emax (MultinomialNbValidParams_alpha p) ->
  MultinomialNbValidParams_alpha p <> negzero ->                                                          (* F8 *)
  (check_ref_MultinomialNbParams fm p = None <-> 0 <= val (MultinomialNbValidParams_alpha p)).
Proof. intros. rewrite (guard_exact_MultinomialNbParams prec emax) by assumption. tauto. Qed.

Theorem guard_exact_FtrlParams : forall prec emax fm p, fmt_ok prec emax fm ->
  wf prec emax (FtrlValidParams_alpha p) -> wf prec emax (FtrlValidParams_beta p) ->
  wf prec emax (FtrlValidParams_l1_ratio p) -> wf prec emax (FtrlValidParams_l2_ratio p) ->
  (check_ref_FtrlParams fm p = None <->
   (0 <= val (FtrlValidParams_l1_ratio p) <= 1) /\ (0 <= val (FtrlValidParams_l2_ratio p) <= 1)
   /\ (0 <= val (FtrlValidParams_alpha p) /\ FtrlValidParams_alpha p <> negzero)
   /\ (0 <= val (FtrlValidParams_beta p) /\ FtrlValidParams_beta p <> negzero)).
Proof. intros. rewrite (exact_Ftrl prec emax), (act_Ftrl prec emax) by assumption. reflexivity. Qed.

(* ratios "between 0.0 and 1.0"; alpha "positive and finite"; beta "positive and finite", default 0.0 *)
Theorem guard_FtrlParams_vs_documentation : forall prec emax fm p, fmt_ok prec emax fm ->
  wf prec emax (FtrlValidParams_alpha p) -> wf prec emax (FtrlValidParams_beta p) ->
  wf prec emax (FtrlValidParams_l1_ratio p) -> wf prec emax (FtrlValidParams_l2_ratio p) ->
  FtrlValidParams_alpha p <> negzero -> FtrlValidParams_beta p <> negzero ->                              (* F8 *)
  (0 <= val (FtrlValidParams_l1_ratio p) <= 1 /\ 0 <= val (FtrlValidParams_l2_ratio p) <= 1
   /\ 0 < val (FtrlValidParams_alpha p) /\ 0 <= val (FtrlValidParams_beta p)
   -> check_ref_FtrlParams fm p = None)
  /\ (check_ref_FtrlParams fm p = None ->
      0 <= val (FtrlValidParams_l1_ratio p) <= 1 /\ 0 <= val (FtrlValidParams_l2_ratio p) <= 1
      /\ 0 <= val (FtrlValidParams_alpha p) /\ 0 <= val (FtrlValidParams_beta p)).
Proof.
  intros. rewrite (guard_exact_FtrlParams prec emax) by assumption.
  split; intros; repeat split; try tauto; lra.
Qed.

Theorem guard_exact_PlsXParams : forall prec emax fm p, fmt_ok prec emax fm ->
  wf prec emax (PlsValidParams_tolerance p) ->
  (check_ref_PlsXParams fm p = None <->
   (0 <= val (PlsValidParams_tolerance p) /\ PlsValidParams_tolerance p <> negzero)
   /\ (1 <= PlsValidParams_max_iter p)%N).
Proof.
  intros prec emax fm p Hfm Hw. rewrite (exact_PlsX prec emax fm Hfm) by assumption.
  unfold spec_PlsXParams. rewrite (act_Pls prec emax fm Hfm) by assumption. reflexivity.
Qed.

(* "should not be negative, NaN or inf"; "The maximal number of iterations should be positive" *)
Theorem guard_iff_PlsXParams_outside_known : forall prec emax fm p, fmt_ok prec emax fm ->
  wf prec emax (PlsValidParams_tolerance p) ->
  PlsValidParams_tolerance p <> negzero ->                                                                (* F8 *)
  (check_ref_PlsXParams fm p = None <->
   0 <= val (PlsValidParams_tolerance p) /\ (1 <= PlsValidParams_max_iter p)%N).
Proof. intros. rewrite (guard_exact_PlsXParams prec emax) by assumption. tauto. Qed.

(* the crate-private generic builder carries the same guard *)
Theorem guard_exact_PlsParams : forall prec emax fm p, fmt_ok prec emax fm ->
  wf prec emax (PlsValidParams_tolerance p) ->
  (check_ref_PlsParams fm p = None <-> check_ref_PlsXParams fm p = None).
Proof. intros. rewrite (exact_Pls prec emax), (exact_PlsX prec emax) by assumption. reflexivity. Qed.

Theorem guard_exact_TSneParams : forall prec emax fm p, fmt_ok prec emax fm ->
  wf prec emax (TSneValidParams_perplexity p) -> wf prec emax (TSneValidParams_approx_threshold p) ->
  (check_ref_TSneParams fm p = None <->
   (0 <= val (TSneValidParams_perplexity p) /\ TSneValidParams_perplexity p <> negzero)
   /\ (0 <= val (TSneValidParams_approx_threshold p) /\ TSneValidParams_approx_threshold p <> negzero)).
Proof. intros. rewrite (exact_TSne prec emax), (act_TSne prec emax) by assumption. reflexivity. Qed.

(* "negative perplexity"; threshold "a value of 0 disables approximation" *)
Theorem guard_TSneParams_vs_documentation : forall prec emax fm p, fmt_ok prec emax fm ->
  wf prec emax (TSneValidParams_perplexity p) -> wf prec emax (TSneValidParams_approx_threshold p) ->
  TSneValidParams_perplexity p <> negzero -> TSneValidParams_approx_threshold p <> negzero ->             (* F8 *)
  (0 < val (TSneValidParams_perplexity p) /\ 0 <= val (TSneValidParams_approx_threshold p)
   -> check_ref_TSneParams fm p = None)
  /\ (check_ref_TSneParams fm p = None ->
      0 <= val (TSneValidParams_perplexity p) /\ 0 <= val (TSneValidParams_approx_threshold p)).
Proof.
  intros. rewrite (guard_exact_TSneParams prec emax) by assumption.
  split; intros; repeat split; try tauto; lra.
Qed.

Theorem guard_exact_PlattParams : forall prec emax fm p, fmt_ok prec emax fm ->
  wf prec emax (PlattValidParams_minstep p) -> wf prec emax (PlattValidParams_sigma p) ->
  (check_ref_PlattParams fm p = None <->
   (1 <= PlattValidParams_maxiter p)%N
   /\ (0 <= val (PlattValidParams_minstep p) /\ PlattValidParams_minstep p <> negzero)
   /\ (0 <= val (PlattValidParams_sigma p) /\ PlattValidParams_sigma p <> negzero)).
Proof. intros. rewrite (exact_Platt prec emax), (act_Platt prec emax) by assumption. reflexivity. Qed.

(* "maxiter should be larger than zero", "minstep should be positive", "sigma should be positive" *)
Theorem guard_PlattParams_vs_documentation : forall prec emax fm p, fmt_ok prec emax fm ->
  wf prec emax (PlattValidParams_minstep p) -> wf prec emax (PlattValidParams_sigma p) ->
  PlattValidParams_minstep p <> negzero -> PlattValidParams_sigma p <> negzero ->                         (* F8 *)
  ((1 <= PlattValidParams_maxiter p)%N /\ 0 < val (PlattValidParams_minstep p) /\ 0 < val (PlattValidParams_sigma p)
   -> check_ref_PlattParams fm p = None)
  /\ (check_ref_PlattParams fm p = None ->
      (1 <= PlattValidParams_maxiter p)%N /\ 0 <= val (PlattValidParams_minstep p) /\ 0 <= val (PlattValidParams_sigma p)).
Proof.
  intros. rewrite (guard_exact_PlattParams prec emax) by assumption.
  split; intros; repeat split; try tauto; lra.
Qed.

Theorem guard_exact_HierarchicalCluster : forall prec emax fm p, fmt_ok prec emax fm ->
  match ValidHierarchicalCluster_stopping p with Criterion_Distance x => wf prec emax x | _ => True end ->
  (check_ref_HierarchicalCluster fm p = None <->
   match ValidHierarchicalCluster_stopping p with
   | Criterion_NumClusters n => (1 <= n)%N
   | Criterion_Distance x => 0 <= val x /\ x <> negzero
   end).
Proof. intros. rewrite (exact_Hierarchical prec emax), (act_Hierarchical prec emax) by assumption. reflexivity. Qed.

(* no documented range: at least one cluster; a negative distance is invalid, a positive one valid *)
Theorem guard_HierarchicalCluster_vs_documentation : forall prec emax fm p, fmt_ok prec emax fm ->
  match ValidHierarchicalCluster_stopping p with Criterion_Distance x => wf prec emax x /\ x <> negzero (* F8 *) | _ => True end ->
  match ValidHierarchicalCluster_stopping p with
  | Criterion_NumClusters n => check_ref_HierarchicalCluster fm p = None <-> (1 <= n)%N
  | Criterion_Distance x =>
      (0 < val x -> check_ref_HierarchicalCluster fm p = None)
      /\ (check_ref_HierarchicalCluster fm p = None -> 0 <= val x)
  end.
Proof.
  intros prec emax fm p Hfm H.
  pose proof (guard_exact_HierarchicalCluster prec emax fm p Hfm) as E.
  destruct (ValidHierarchicalCluster_stopping p); [apply E; exact I|].
  destruct H as [H1 H2]. specialize (E H1). rewrite E. split; intros; repeat split; try tauto; lra.
Qed.

(** * SVM: nested Platt parameters, solver eps, C, nu (F8 on eps and the Platt values, F43 on nu) *)
Theorem guard_exact_SvmParams : forall prec emax fm p, fmt_ok prec emax fm ->
  wf prec emax (PlattValidParams_minstep (SvmValidParams_platt p)) ->
  wf prec emax (PlattValidParams_sigma (SvmValidParams_platt p)) ->
  wf prec emax (SolverParams_eps (SvmValidParams_solver_params p)) ->
  wf_pair_opt prec emax (SvmValidParams_c p) -> wf_pair_opt prec emax (SvmValidParams_nu p) ->
  (check_ref_SvmParams fm p = None <->
   check_ref_PlattParams fm (SvmValidParams_platt p) = None
   /\ (0 <= val (SolverParams_eps (SvmValidParams_solver_params p))
       /\ SolverParams_eps (SvmValidParams_solver_params p) <> negzero)
   /\ match SvmValidParams_c p with Some (a, b) => 0 < val a /\ 0 < val b | None => True end
   /\ match SvmValidParams_nu p with Some (n, _) => 0 < val n <= 1 | None => True end).
Proof.
  intros. rewrite (exact_Svm prec emax), (act_Svm prec emax), (exact_Platt prec emax) by assumption. reflexivity.
Qed.

(* "Invalid epsilon", "Negative C value", "The Nu value should lie in range [0, 1]" *)
Theorem guard_SvmParams_vs_documentation : forall prec emax fm p, fmt_ok prec emax fm ->
  wf prec emax (PlattValidParams_minstep (SvmValidParams_platt p)) ->
  wf prec emax (PlattValidParams_sigma (SvmValidParams_platt p)) ->
  wf prec emax (SolverParams_eps (SvmValidParams_solver_params p)) ->
  wf_pair_opt prec emax (SvmValidParams_c p) -> wf_pair_opt prec emax (SvmValidParams_nu p) ->
  SolverParams_eps (SvmValidParams_solver_params p) <> negzero ->                                         (* F8 *)
  match SvmValidParams_nu p with Some (n, _) => val n <> 0 | None => True end ->                          (* F43 *)
  (check_ref_PlattParams fm (SvmValidParams_platt p) = None
   /\ 0 < val (SolverParams_eps (SvmValidParams_solver_params p))
   /\ match SvmValidParams_c p with Some (a, b) => 0 < val a /\ 0 < val b | None => True end
   /\ match SvmValidParams_nu p with Some (n, _) => 0 <= val n <= 1 | None => True end
   -> check_ref_SvmParams fm p = None)
  /\ (check_ref_SvmParams fm p = None ->
      check_ref_PlattParams fm (SvmValidParams_platt p) = None
      /\ 0 <= val (SolverParams_eps (SvmValidParams_solver_params p))
      /\ match SvmValidParams_c p with Some (a, b) => 0 <= val a /\ 0 <= val b | None => True end
      /\ match SvmValidParams_nu p with Some (n, _) => 0 <= val n <= 1 | None => True end).
Proof.
  intros prec emax fm p Hfm H1 H2 H3 H4 H5 Z NU.
  rewrite (guard_exact_SvmParams prec emax) by assumption.
  destruct (SvmValidParams_c p) as [[a b]|]; destruct (SvmValidParams_nu p) as [[n m]|];
    split; intros; repeat split; try tauto; lra.
Qed.

(** * Decision tree (finding F21) *)
Theorem guard_exact_DecisionTreeParams : forall prec emax fm p, fmt_ok prec emax fm ->
  wf prec emax (DecisionTreeValidParams_min_impurity_decrease p) ->
  (check_ref_DecisionTreeParams fm p = None <->
   val (f_eps fm) <= val (DecisionTreeValidParams_min_impurity_decrease p)).
Proof. intros. rewrite (exact_DecisionTree prec emax), (act_DecisionTree prec emax) by assumption. reflexivity. Qed.

(* "Minimum impurity decrease should be greater than zero" *)
Theorem guard_iff_DecisionTreeParams_outside_known : forall prec emax fm p, fmt_ok prec emax fm ->
  wf prec emax (DecisionTreeValidParams_min_impurity_decrease p) ->
  ~ (0 < val (DecisionTreeValidParams_min_impurity_decrease p) < val (f_eps fm)) ->                       (* F21 *)
  (check_ref_DecisionTreeParams fm p = None <-> 0 < val (DecisionTreeValidParams_min_impurity_decrease p)).
Proof.
  intros prec emax fm p Hfm H K. rewrite (guard_exact_DecisionTreeParams prec emax) by assumption.
  destruct Hfm as (_ & _ & _ & E). split; intros; lra.
Qed.

(** * Count vectoriser (f32 frequencies; F44: no upper bound) *)
Theorem guard_exact_CountVectorizerParams : forall fm p,
  wf 24 128 (fst (CountVectorizerValidParams_document_frequency p)) ->
  wf 24 128 (snd (CountVectorizerValidParams_document_frequency p)) ->
  (check_ref_CountVectorizerParams fm p = None <->
   (1 <= fst (CountVectorizerValidParams_n_gram_range p) <= snd (CountVectorizerValidParams_n_gram_range p))%N
   /\ 0 <= val (fst (CountVectorizerValidParams_document_frequency p)) <= val (snd (CountVectorizerValidParams_document_frequency p))
   /\ CountVectorizerValidParams_split_regex_expr_compiles p = true).
Proof. intros. rewrite exact_CountVectorizer, act_CountVectorizer by assumption. reflexivity. Qed.

(* "`min_freq` and `max_freq` must lie in `0..=1` and `min_freq` should not be greater than `max_freq`" *)
Theorem guard_iff_CountVectorizerParams_outside_known : forall fm p,
  wf 24 128 (fst (CountVectorizerValidParams_document_frequency p)) ->
  wf 24 128 (snd (CountVectorizerValidParams_document_frequency p)) ->
  val (snd (CountVectorizerValidParams_document_frequency p)) <= 1 ->                                     (* F44 *)
  (check_ref_CountVectorizerParams fm p = None <->
   (1 <= fst (CountVectorizerValidParams_n_gram_range p) <= snd (CountVectorizerValidParams_n_gram_range p))%N
   /\ 0 <= val (fst (CountVectorizerValidParams_document_frequency p)) <= val (snd (CountVectorizerValidParams_document_frequency p))
   /\ val (snd (CountVectorizerValidParams_document_frequency p)) <= 1
   /\ CountVectorizerValidParams_split_regex_expr_compiles p = true).
Proof. intros. rewrite guard_exact_CountVectorizerParams by assumption. tauto. Qed.

(** * Refutations: the faithful model violates the property inside the known classes *)

(* F8: two parameter sets with the same real values, one accepted and one rejected *)
Theorem guard_GaussianNbParams_refuted_F8 : exists p q,
  wf 53 1024 (GaussianNbValidParams_var_smoothing p) /\ wf 53 1024 (GaussianNbValidParams_var_smoothing q)
  /\ val (GaussianNbValidParams_var_smoothing p) = val (GaussianNbValidParams_var_smoothing q)
  /\ check_ref_GaussianNbParams fmt64 p = None /\ check_ref_GaussianNbParams fmt64 q <> None.
Proof. exact refuted_F8_GaussianNb. Qed.

Theorem guard_sign_bit_sites_refuted_F8 :
  (* each line: the guard rejects the parameter set although all its values lie in the documented
     range (value 0 at the site, every other parameter at its default) *)
  check_ref_ElasticNetParamsBase fmt64 (wit_ElasticNet negzero d_1em4) <> None
  /\ check_ref_ElasticNetParamsBase fmt64 (wit_ElasticNet fzero d_1em4) = None
  /\ check_ref_TweedieRegressorParams fmt64 (wit_Tweedie negzero) <> None
  /\ check_ref_TweedieRegressorParams fmt64 (wit_Tweedie fzero) = None
  /\ check_ref_MultinomialNbParams fmt64 {| MultinomialNbValidParams_alpha := negzero |} <> None
  /\ check_ref_MultinomialNbParams fmt64 {| MultinomialNbValidParams_alpha := fzero |} = None
  /\ check_ref_FtrlParams fmt64 (wit_Ftrl negzero) <> None
  /\ check_ref_FtrlParams fmt64 (wit_Ftrl fzero) = None
  /\ check_ref_PlsXParams fmt64 (wit_Pls negzero) <> None
  /\ check_ref_PlsXParams fmt64 (wit_Pls fzero) = None
  /\ check_ref_TSneParams fmt64 (wit_TSne negzero) <> None
  /\ check_ref_TSneParams fmt64 (wit_TSne fzero) = None
  /\ check_ref_PlattParams fmt64 (wit_Platt negzero) <> None
  /\ check_ref_PlattParams fmt64 (wit_Platt fzero) = None
  /\ check_ref_SvmParams fmt64 (wit_Svm negzero None) <> None
  /\ check_ref_SvmParams fmt64 (wit_Svm fzero None) = None
  /\ check_ref_HierarchicalCluster fmt64 {| ValidHierarchicalCluster_stopping := Criterion_Distance negzero |} <> None
  /\ check_ref_HierarchicalCluster fmt64 {| ValidHierarchicalCluster_stopping := Criterion_Distance fzero |} = None.
Proof. exact refuted_F8_sites. Qed.

(* F21: 1e-20 is greater than zero and is rejected *)
Theorem guard_DecisionTreeParams_refuted_F21 : exists p,
  wf 53 1024 (DecisionTreeValidParams_min_impurity_decrease p)
  /\ 0 < val (DecisionTreeValidParams_min_impurity_decrease p)
  /\ check_ref_DecisionTreeParams fmt64 p <> None.
Proof. exact refuted_F21. Qed.

(* F-C04-1 (fixed in /repo 6e23381): Logcosh(10) is outside the documented [1, 2]; the guard as it was before the
   repair (Spec.check_ref_FastIcaParams_before_FC041) accepted it, the current guard rejects it *)
Theorem guard_FastIcaParams_refuted_FC041 :
  (exists a, FastIcaValidParams_gfunc wit_FC041 = GFunc_Logcosh a /\ wf 53 1024 a /\ 2 < val a)
  /\ check_ref_FastIcaParams_before_FC041 fmt64 wit_FC041 = None
  /\ check_ref_FastIcaParams fmt64 wit_FC041 <> None.
Proof. exact refuted_FC041. Qed.

(* F42: max_iterations = 0 is outside the documented [1, inf) and is accepted *)
Theorem guard_ElasticNetParamsBase_refuted_F42 : exists p,
  ElasticNetValidParamsBase_max_iterations p = 0%N /\ check_ref_ElasticNetParamsBase fmt64 p = None.
Proof. exact refuted_F42. Qed.

(* F43: nu = 0 lies in the documented [0, 1] and is rejected *)
Theorem guard_SvmParams_refuted_F43 :
  check_ref_SvmParams fmt64 (wit_Svm d_1em7 (Some (fzero, fzero))) <> None
  /\ check_ref_SvmParams fmt64 (wit_Svm d_1em7 (Some (d_half, fzero))) = None.
Proof. exact refuted_F43. Qed.

(* F44: max_freq = 2 is outside the documented 0..=1 and is accepted *)
Theorem guard_CountVectorizerParams_refuted_F44 : exists p,
  wf 24 128 (snd (CountVectorizerValidParams_document_frequency p))
  /\ 1 < val (snd (CountVectorizerValidParams_document_frequency p))
  /\ check_ref_CountVectorizerParams fmt32 p = None.
Proof. exact refuted_F44. Qed.

(** * What the run-time oracle's boolean ranges (Spec.v, evaluated by Corr.v on every case) mean *)

(* builders declared [exact]: the three components are the same boolean *)
Theorem oracle_ranges_exact_builders : forall fm,
  (forall p, g_strict (spec_KMeansParams fm p) = g_act (spec_KMeansParams fm p) /\ g_loose (spec_KMeansParams fm p) = g_act (spec_KMeansParams fm p) /\ g_known (spec_KMeansParams fm p) = 0%N)
  /\ (forall p, g_strict (spec_DbscanParams fm p) = g_act (spec_DbscanParams fm p) /\ g_loose (spec_DbscanParams fm p) = g_act (spec_DbscanParams fm p) /\ g_known (spec_DbscanParams fm p) = 0%N)
  /\ (forall p, g_strict (spec_OpticsParams fm p) = g_act (spec_OpticsParams fm p) /\ g_loose (spec_OpticsParams fm p) = g_act (spec_OpticsParams fm p) /\ g_known (spec_OpticsParams fm p) = 0%N)
  /\ (forall p, g_strict (spec_GmmParams fm p) = g_act (spec_GmmParams fm p) /\ g_loose (spec_GmmParams fm p) = g_act (spec_GmmParams fm p) /\ g_known (spec_GmmParams fm p) = 0%N)
  /\ (forall p, g_strict (spec_DiffusionMapParams fm p) = g_act (spec_DiffusionMapParams fm p) /\ g_loose (spec_DiffusionMapParams fm p) = g_act (spec_DiffusionMapParams fm p) /\ g_known (spec_DiffusionMapParams fm p) = 0%N)
  /\ (forall p, g_strict (spec_RandomProjectionParams fm p) = g_act (spec_RandomProjectionParams fm p) /\ g_loose (spec_RandomProjectionParams fm p) = g_act (spec_RandomProjectionParams fm p) /\ g_known (spec_RandomProjectionParams fm p) = 0%N).
Proof. intros fm. repeat split. Qed.

Theorem oracle_ranges_ElasticNetParamsBase : forall prec emax fm p, fmt_ok prec emax fm ->
  wf prec emax (ElasticNetValidParamsBase_penalty p) -> wf prec emax (ElasticNetValidParamsBase_l1_ratio p) ->
  wf prec emax (ElasticNetValidParamsBase_tolerance p) ->
  (g_strict (spec_ElasticNetParamsBase fm p) = true <->
   0 <= val (ElasticNetValidParamsBase_penalty p) /\ (0 <= val (ElasticNetValidParamsBase_l1_ratio p) <= 1)
   /\ 0 < val (ElasticNetValidParamsBase_tolerance p) /\ (1 <= ElasticNetValidParamsBase_max_iterations p)%N)
  /\ (g_loose (spec_ElasticNetParamsBase fm p) = true <->
   0 <= val (ElasticNetValidParamsBase_penalty p) /\ (0 <= val (ElasticNetValidParamsBase_l1_ratio p) <= 1)
   /\ 0 <= val (ElasticNetValidParamsBase_tolerance p) /\ (1 <= ElasticNetValidParamsBase_max_iterations p)%N)
  /\ (g_known (spec_ElasticNetParamsBase fm p) = 0%N <-> ElasticNetValidParamsBase_max_iterations p <> 0%N).
Proof.
  intros prec emax fm p Hfm H1 H2 H3.
  split; [exact (strict_ElasticNet prec emax fm Hfm p H1 H2 H3)|].
  split; [exact (loose_ElasticNet prec emax fm Hfm p H1 H2 H3) | exact (known_ElasticNet fm p)].
Qed.

Theorem oracle_ranges_LogisticRegressionParams : forall prec emax fm p, fmt_ok prec emax fm ->
  wf prec emax (LogisticRegressionValidParams_alpha p) -> wf prec emax (LogisticRegressionValidParams_gradient_tolerance p) ->
  (g_strict (spec_LogisticRegressionParams fm p) = true <->
   0 < val (LogisticRegressionValidParams_alpha p) /\ 0 < val (LogisticRegressionValidParams_gradient_tolerance p))
  /\ (g_loose (spec_LogisticRegressionParams fm p) = true <->
   0 <= val (LogisticRegressionValidParams_alpha p) /\ 0 <= val (LogisticRegressionValidParams_gradient_tolerance p))
  /\ g_known (spec_LogisticRegressionParams fm p) = 0%N.
Proof.
  intros prec emax fm p Hfm H1 H2.
  split; [exact (strict_Logistic prec emax fm Hfm p H1 H2)|]. split; [exact (loose_Logistic prec emax fm Hfm p H1 H2) | reflexivity].
Qed.

Theorem oracle_ranges_TweedieRegressorParams : forall prec emax fm p, fmt_ok prec emax fm ->
  wf prec emax (TweedieRegressorValidParams_alpha p) -> wf prec emax (TweedieRegressorValidParams_power p) ->
  (g_strict (spec_TweedieRegressorParams fm p) = true <->
   0 <= val (TweedieRegressorValidParams_alpha p) /\ ~ (0 < val (TweedieRegressorValidParams_power p) < 1))
  /\ g_loose (spec_TweedieRegressorParams fm p) = g_strict (spec_TweedieRegressorParams fm p)
  /\ g_known (spec_TweedieRegressorParams fm p) = 0%N.
Proof. intros prec emax fm p Hfm H1 H2. split; [exact (doc_Tweedie prec emax fm Hfm p H1 H2) | split; reflexivity]. Qed.

Theorem oracle_ranges_PlattParams : forall prec emax fm p, fmt_ok prec emax fm ->
  wf prec emax (PlattValidParams_minstep p) -> wf prec emax (PlattValidParams_sigma p) ->
  (g_strict (spec_PlattParams fm p) = true <->
   (1 <= PlattValidParams_maxiter p)%N /\ 0 < val (PlattValidParams_minstep p) /\ 0 < val (PlattValidParams_sigma p))
  /\ (g_loose (spec_PlattParams fm p) = true <->
   (1 <= PlattValidParams_maxiter p)%N /\ 0 <= val (PlattValidParams_minstep p) /\ 0 <= val (PlattValidParams_sigma p))
  /\ g_known (spec_PlattParams fm p) = 0%N.
Proof.
  intros prec emax fm p Hfm H1 H2.
  split; [exact (strict_Platt prec emax fm Hfm p H1 H2)|]. split; [exact (loose_Platt prec emax fm Hfm p H1 H2) | reflexivity].
Qed.

Theorem oracle_ranges_SvmParams : forall prec emax fm p, fmt_ok prec emax fm ->
  wf prec emax (PlattValidParams_minstep (SvmValidParams_platt p)) -> wf prec emax (PlattValidParams_sigma (SvmValidParams_platt p)) ->
  wf prec emax (SolverParams_eps (SvmValidParams_solver_params p)) ->
  wf_pair_opt prec emax (SvmValidParams_c p) -> wf_pair_opt prec emax (SvmValidParams_nu p) ->
  (g_strict (spec_SvmParams fm p) = true <->
   g_strict (spec_PlattParams fm (SvmValidParams_platt p)) = true
   /\ 0 < val (SolverParams_eps (SvmValidParams_solver_params p))
   /\ match SvmValidParams_c p with Some (a, b) => 0 < val a /\ 0 < val b | None => True end
   /\ match SvmValidParams_nu p with Some (n, _) => 0 <= val n <= 1 | None => True end)
  /\ (g_loose (spec_SvmParams fm p) = true <->
   g_loose (spec_PlattParams fm (SvmValidParams_platt p)) = true
   /\ 0 <= val (SolverParams_eps (SvmValidParams_solver_params p))
   /\ match SvmValidParams_c p with Some (a, b) => 0 <= val a /\ 0 <= val b | None => True end
   /\ match SvmValidParams_nu p with Some (n, _) => 0 <= val n <= 1 | None => True end)
  /\ (g_known (spec_SvmParams fm p) = 0%N <-> match SvmValidParams_nu p with Some (n, _) => val n <> 0 | None => True end).
Proof.
  intros prec emax fm p Hfm H1 H2 H3 H4 H5.
  split; [exact (strict_Svm prec emax fm Hfm p H1 H2 H3 H4 H5)|].
  split; [exact (loose_Svm prec emax fm Hfm p H1 H2 H3 H4 H5) | exact (known_Svm prec emax fm p H5)].
Qed.

Theorem oracle_ranges_DecisionTreeParams : forall prec emax fm p, fmt_ok prec emax fm ->
  wf prec emax (DecisionTreeValidParams_min_impurity_decrease p) ->
  (g_strict (spec_DecisionTreeParams fm p) = true <-> 0 < val (DecisionTreeValidParams_min_impurity_decrease p))
  /\ g_loose (spec_DecisionTreeParams fm p) = g_strict (spec_DecisionTreeParams fm p)
  /\ (g_known (spec_DecisionTreeParams fm p) = 0%N <->
      ~ (0 < val (DecisionTreeValidParams_min_impurity_decrease p) < val (f_eps fm))).
Proof.
  intros prec emax fm p Hfm H. split; [exact (doc_DecisionTree prec emax fm Hfm p H)|].
  split; [reflexivity | exact (known_DecisionTree prec emax fm Hfm p H)].
Qed.

Theorem oracle_ranges_naive_Bayes : forall prec emax fm, fmt_ok prec emax fm ->
  (forall p, wf prec emax (GaussianNbValidParams_var_smoothing p) ->
     (g_strict (spec_GaussianNbParams fm p) = true <-> 0 <= val (GaussianNbValidParams_var_smoothing p))
     /\ g_loose (spec_GaussianNbParams fm p) = g_strict (spec_GaussianNbParams fm p)
     /\ g_known (spec_GaussianNbParams fm p) = 0%N)
  /\ (forall p, wf prec emax (MultinomialNbValidParams_alpha p) ->
     (g_strict (spec_MultinomialNbParams fm p) = true <-> 0 <= val (MultinomialNbValidParams_alpha p))
     /\ g_loose (spec_MultinomialNbParams fm p) = g_strict (spec_MultinomialNbParams fm p)
     /\ g_known (spec_MultinomialNbParams fm p) = 0%N).
Proof.
  intros prec emax fm Hfm. split; intros p H.
  - split; [exact (doc_GaussianNb prec emax fm Hfm p H) | split; reflexivity].
  - split; [exact (doc_MultinomialNb prec emax fm Hfm p H) | split; reflexivity].
Qed.

Theorem oracle_ranges_FtrlParams : forall prec emax fm p, fmt_ok prec emax fm ->
  wf prec emax (FtrlValidParams_alpha p) -> wf prec emax (FtrlValidParams_beta p) ->
  wf prec emax (FtrlValidParams_l1_ratio p) -> wf prec emax (FtrlValidParams_l2_ratio p) ->
  (g_strict (spec_FtrlParams fm p) = true <->
   (0 <= val (FtrlValidParams_l1_ratio p) <= 1) /\ (0 <= val (FtrlValidParams_l2_ratio p) <= 1)
   /\ 0 < val (FtrlValidParams_alpha p) /\ 0 <= val (FtrlValidParams_beta p))
  /\ (g_loose (spec_FtrlParams fm p) = true <->
   (0 <= val (FtrlValidParams_l1_ratio p) <= 1) /\ (0 <= val (FtrlValidParams_l2_ratio p) <= 1)
   /\ 0 <= val (FtrlValidParams_alpha p) /\ 0 <= val (FtrlValidParams_beta p))
  /\ g_known (spec_FtrlParams fm p) = 0%N.
Proof.
  intros prec emax fm p Hfm H1 H2 H3 H4.
  split; [exact (strict_Ftrl prec emax fm Hfm p H1 H2 H3 H4)|]. split; [exact (loose_Ftrl prec emax fm Hfm p H1 H2 H3 H4) | reflexivity].
Qed.

Theorem oracle_ranges_Pls : forall prec emax fm p, fmt_ok prec emax fm -> wf prec emax (PlsValidParams_tolerance p) ->
  (g_strict (spec_PlsXParams fm p) = true <-> 0 <= val (PlsValidParams_tolerance p) /\ (1 <= PlsValidParams_max_iter p)%N)
  /\ g_loose (spec_PlsXParams fm p) = g_strict (spec_PlsXParams fm p)
  /\ g_known (spec_PlsXParams fm p) = 0%N
  /\ spec_PlsParams fm p = spec_PlsXParams fm p.
Proof. intros prec emax fm p Hfm H. split; [exact (doc_Pls prec emax fm Hfm p H) | repeat split]. Qed.

Theorem oracle_ranges_TSneParams : forall prec emax fm p, fmt_ok prec emax fm ->
  wf prec emax (TSneValidParams_perplexity p) -> wf prec emax (TSneValidParams_approx_threshold p) ->
  (g_strict (spec_TSneParams fm p) = true <->
   0 < val (TSneValidParams_perplexity p) /\ 0 <= val (TSneValidParams_approx_threshold p))
  /\ (g_loose (spec_TSneParams fm p) = true <->
   0 <= val (TSneValidParams_perplexity p) /\ 0 <= val (TSneValidParams_approx_threshold p))
  /\ g_known (spec_TSneParams fm p) = 0%N.
Proof.
  intros prec emax fm p Hfm H1 H2.
  split; [exact (strict_TSne prec emax fm Hfm p H1 H2)|]. split; [exact (loose_TSne prec emax fm Hfm p H1 H2) | reflexivity].
Qed.

Theorem oracle_ranges_FastIcaParams : forall prec emax fm p, fmt_ok prec emax fm -> wf prec emax (FastIcaValidParams_tol p) ->
  (g_strict (spec_FastIcaParams fm p) = true <->
   0 < val (FastIcaValidParams_tol p) /\ logcosh_ok (FastIcaValidParams_gfunc p) = true)
  /\ (g_loose (spec_FastIcaParams fm p) = true <->
   0 <= val (FastIcaValidParams_tol p) /\ logcosh_ok (FastIcaValidParams_gfunc p) = true)
  /\ g_known (spec_FastIcaParams fm p) = 0%N.
Proof.
  intros prec emax fm p Hfm H.
  split; [exact (strict_FastIca prec emax fm Hfm p H)|]. split; [exact (loose_FastIca prec emax fm Hfm p H) | reflexivity].
Qed.

Theorem oracle_ranges_HierarchicalCluster : forall prec emax fm p, fmt_ok prec emax fm ->
  match ValidHierarchicalCluster_stopping p with Criterion_Distance x => wf prec emax x | _ => True end ->
  (g_strict (spec_HierarchicalCluster fm p) = true <->
   match ValidHierarchicalCluster_stopping p with Criterion_NumClusters n => (1 <= n)%N | Criterion_Distance x => 0 < val x end)
  /\ (g_loose (spec_HierarchicalCluster fm p) = true <->
   match ValidHierarchicalCluster_stopping p with Criterion_NumClusters n => (1 <= n)%N | Criterion_Distance x => 0 <= val x end)
  /\ g_known (spec_HierarchicalCluster fm p) = 0%N.
Proof.
  intros prec emax fm p Hfm H.
  split; [exact (strict_Hierarchical prec emax fm Hfm p H)|]. split; [exact (loose_Hierarchical prec emax fm Hfm p H)|].
  unfold spec_HierarchicalCluster. destruct (ValidHierarchicalCluster_stopping p); reflexivity.
Qed.

Theorem oracle_ranges_CountVectorizerParams : forall fm p,
  wf 24 128 (fst (CountVectorizerValidParams_document_frequency p)) ->
  wf 24 128 (snd (CountVectorizerValidParams_document_frequency p)) ->
  (g_strict (spec_CountVectorizerParams fm p) = true <->
   (1 <= fst (CountVectorizerValidParams_n_gram_range p) <= snd (CountVectorizerValidParams_n_gram_range p))%N
   /\ 0 <= val (fst (CountVectorizerValidParams_document_frequency p)) <= val (snd (CountVectorizerValidParams_document_frequency p))
   /\ val (snd (CountVectorizerValidParams_document_frequency p)) <= 1
   /\ CountVectorizerValidParams_split_regex_expr_compiles p = true)
  /\ g_loose (spec_CountVectorizerParams fm p) = g_strict (spec_CountVectorizerParams fm p)
  /\ (g_known (spec_CountVectorizerParams fm p) = 0%N <-> val (snd (CountVectorizerValidParams_document_frequency p)) <= 1).
Proof.
  intros fm p H1 H2. split; [exact (doc_CountVectorizer fm p H1 H2)|].
  split; [| exact (known_CountVectorizer fm p H2)].
  unfold spec_CountVectorizerParams. destruct (CountVectorizerValidParams_n_gram_range p), (CountVectorizerValidParams_document_frequency p). reflexivity.
Qed.

(** * Checking by value, and the entry points on unchecked parameters *)

(* every `check` in the workspace is literally `self.check_ref()?; Ok(self.0)`; such a function gives
   the verdict and error of check_ref and hands the parameters back unchanged *)
Theorem check_agrees_with_check_ref :
  forallb (fun t => snd t) check_is_check_ref_then_unwrap = true
  /\ forall (Err P : Type) (check_ref : P -> option Err) (p : P),
       match check_by_value check_ref p with
       | inl e => check_ref p = Some e
       | inr q => check_ref p = None /\ q = p
       end.
Proof. split; [exact every_check_is_canonical | intros; apply check_by_value_spec]. Qed.

(* the model of `check_ref` first, then the same call on the checked parameters: such a function returns
   exactly the (converted) guard error without running anything when the guard fails, and otherwise is the
   call on the checked parameters.  That every entry point on an unchecked builder in the sources has this
   shape is PropertiesExt.no_entry_point_bypasses_the_guard. *)
Theorem unchecked_entry_points_return_the_guard_error :
  forall (Err Res E : Type) (conv : Err -> E) (check_ref : option Err) (checked_call : unit -> Res),
    match check_ref with
    | Some e => blanket_fit conv check_ref checked_call = UGuardErr (conv e)
    | None => blanket_fit conv check_ref checked_call = UDelegated (checked_call tt)
    end.
Proof. intros; apply blanket_fit_spec. Qed.

(* every guard the translator found in the workspace has a documented range in Spec.v *)
Theorem spec_covers_every_translated_builder : all_builders_specified = true.
Proof. exact every_builder_has_a_spec. Qed.
