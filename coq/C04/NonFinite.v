(** C04 - what the guards do with NaN, +infinity and -infinity (the property speaks of finite values: this
    documents its boundary).  For every float inside every checked parameter struct (the leaves of
    gen/C04_fields.v) and each of the three special values, either

      [leaf_rejects]  every parameter set that has the value there and finite numbers everywhere else is
                      rejected by the translated guard (for f32 and f64), or
      [leaf_accepts]  the pair is listed in Fields.nonfinite_table and the witness given there - the default
                      parameter set with the value at that leaf - is accepted.

    A NaN carries no sign in [spec_float] (Model.v): "NaN" is the positive quiet NaN; a sign-bit test
    (`is_sign_negative`) rejects the NaNs whose sign bit is set, which this model cannot express. *)
From Coq Require Import List NArith ZArith Bool String SpecFloat Lia.
From LinfaVerif Require Import C04.Model gen.C04_guards gen.C04_fields C04.Fields.
Import ListNotations.
Open Scope string_scope.
Definition finite_all (l : list spec_float) : Prop := Forall (fun x => sf_is_finite x = true) l.
Definition others_finite (gp : guard_pack) (leaf : string) (p : gp_P gp) : Prop :=
  Forall (fun l => fst l <> leaf -> finite_all (snd l p)) (gp_leaves gp).
Definition leaf_rejects (gp : guard_pack) (leaf : string) (get : gp_P gp -> list spec_float) (s : special) : Prop :=
  forall fm p, fm = fmt32 \/ fm = fmt64 -> In (sval s) (get p) -> others_finite gp leaf p -> gp_guard gp fm p <> None.
Definition leaf_accepts (gp : guard_pack) (leaf : string) (get : gp_P gp -> list spec_float) (s : special) : Prop :=
  exists p, In (sval s) (get p) /\ others_finite gp leaf p /\ gp_guard gp fmt64 p = None.
Definition leaf_documented (gp : guard_pack) (l : string * (gp_P gp -> list spec_float)) (s : special) : Prop :=
  if nonfinite_listed (gp_builder gp) (fst l) s then leaf_accepts gp (fst l) (snd l) s else leaf_rejects gp (fst l) (snd l) s.

Lemma sf_eqb_exact_eq a b : sf_eqb_exact a b = true -> a = b.
Proof. destruct a, b; simpl; try discriminate; auto. intros H. apply Bool.eqb_prop in H. now subst. Qed.

Lemma accepts_by_witness gp leaf get s : accepted_witness_ok gp leaf get s = true -> leaf_accepts gp leaf get s.
Proof.
  unfold accepted_witness_ok, leaf_accepts. destruct (nonfinite_witness gp leaf s) as [p|]; [|discriminate].
  intros H. apply andb_true_iff in H. destruct H as [H H3]. apply andb_true_iff in H. destruct H as [H1 H2].
  exists p. split; [|split].
  - apply existsb_exists in H1. destruct H1 as (x & Hx & E). apply sf_eqb_exact_eq in E. now subst.
  - unfold others_finite. apply Forall_forall. intros l Hl Hne.
    rewrite forallb_forall in H2. specialize (H2 l Hl). apply orb_true_iff in H2. destruct H2 as [H2|H2].
    + apply String.eqb_eq in H2. contradiction.
    + unfold finite_all. apply Forall_forall. rewrite forallb_forall in H2. exact H2.
  - destruct (gp_guard gp fmt64 p); [discriminate | reflexivity].
Qed.

(* comparisons with a NaN *)
Lemma flt_nan_l y : flt S754_nan y = false. Proof. reflexivity. Qed.
Lemma fle_nan_l y : fle S754_nan y = false. Proof. reflexivity. Qed.
Lemma flt_nan_r y : flt y S754_nan = false. Proof. destruct y; reflexivity. Qed.
Lemma fle_nan_r y : fle y S754_nan = false. Proof. destruct y; reflexivity. Qed.
Lemma fgt_nan_l y : fgt S754_nan y = false. Proof. destruct y; reflexivity. Qed.
Lemma fge_nan_l y : fge S754_nan y = false. Proof. destruct y; reflexivity. Qed.
Lemma fgt_nan_r y : fgt y S754_nan = false. Proof. reflexivity. Qed.
Lemma fge_nan_r y : fge y S754_nan = false. Proof. reflexivity. Qed.
Lemma existsb_in_true {A} (f : A -> bool) l x : In x l -> f x = true -> existsb f l = true.
Proof. intros. apply existsb_exists. eauto. Qed.

Ltac eval_atom t :=
  let v := eval hnf in t in
  match v with
  | true => let H := fresh in assert (H : t = true) by reflexivity; rewrite H; clear H
  | false => let H := fresh in assert (H : t = false) by reflexivity; rewrite H; clear H
  end.
Ltac eval_atoms :=
  repeat match goal with
  | |- context [flt ?a ?b] => eval_atom (flt a b)
  | |- context [fle ?a ?b] => eval_atom (fle a b)
  | |- context [fgt ?a ?b] => eval_atom (fgt a b)
  | |- context [fge ?a ?b] => eval_atom (fge a b)
  | |- context [range_incl_contains ?a ?b ?c] => eval_atom (range_incl_contains a b c)
  | |- context [sf_sign ?a] => eval_atom (sf_sign a)
  | |- context [sf_is_nan ?a] => eval_atom (sf_is_nan a)
  | |- context [sf_is_infinite ?a] => eval_atom (sf_is_infinite a)
  | |- context [sf_is_finite ?a] => eval_atom (sf_is_finite a)
  end.
Ltac simp_bool :=
  cbn [negb orb andb seqf option_map f_one f_eps fmt32 fmt64];
  rewrite ?Bool.orb_true_r, ?Bool.orb_true_l, ?Bool.orb_false_r, ?Bool.orb_false_l,
          ?Bool.andb_false_r, ?Bool.andb_false_l, ?Bool.andb_true_r, ?Bool.andb_true_l.
Ltac split_ifs :=
  repeat (simp_bool;
    match goal with
    | |- context [if ?c then _ else _] => destruct c
    | |- context [match ?x with _ => _ end] => is_var x; destruct x
    end).


Ltac open_guard :=
  match goal with |- gp_guard ?gp ?fm ?p <> None =>
    let g := eval hnf in (gp_guard gp) in change (g fm p <> None); cbv beta
  end;
  autounfold with c04_guards.

(* bring the hypothesis "the special value is at this leaf" into the goal *)
Ltac plug H :=
  cbn in H;
  repeat match type of H with
  | In _ (match ?e with _ => _ end) =>
      let E := fresh "E" in destruct e eqn:E; cbn in H; try rewrite ?E
  end;
  repeat match type of H with
  | _ \/ _ => destruct H as [H|H]
  | False => destruct H
  end;
  try match type of H with
  | fst ?o = _ => destruct o; cbn in H
  | snd ?o = _ => destruct o; cbn in H
  end;
  try match type of H with
  | ?t = _ => first [ subst t | rewrite ?H ]
  | In ?x ?l =>
      repeat match goal with
      | |- context [existsb ?f l] => rewrite (existsb_in_true f l x H eq_refl)
      end
  end.

Lemma ric_nan a b : range_incl_contains a b S754_nan = false.
Proof. unfold range_incl_contains. destruct a; reflexivity. Qed.
Ltac nan_rw :=
  repeat match goal with
  | |- context [flt S754_nan ?y] => change (flt S754_nan y) with false
  | |- context [fle S754_nan ?y] => change (fle S754_nan y) with false
  | |- context [fgt ?y S754_nan] => change (fgt y S754_nan) with false
  | |- context [fge ?y S754_nan] => change (fge y S754_nan) with false
  | |- context [flt ?y S754_nan] => rewrite (flt_nan_r y)
  | |- context [fle ?y S754_nan] => rewrite (fle_nan_r y)
  | |- context [fgt S754_nan ?y] => rewrite (fgt_nan_l y)
  | |- context [fge S754_nan ?y] => rewrite (fge_nan_l y)
  | |- context [range_incl_contains ?a ?b S754_nan] => rewrite (ric_nan a b)
  end.

Ltac split_all :=
  repeat (simp_bool; cbn iota beta;
    match goal with
    | |- context [if ?c then _ else _] => destruct c
    | |- context [match ?x with _ => _ end] => destruct x eqn:?
    end).

Ltac finish_reject :=
  nan_rw; eval_atoms; simp_bool;
  split_all; simp_bool; cbn iota beta; solve [ discriminate | congruence ].

(* the finiteness of the other leaves, as hypotheses [sf_is_finite x = true] *)
Ltac use_others Hot :=
  unfold others_finite in Hot; cbn in Hot;
  match type of Hot with Forall ?P ?l => let l' := eval hnf in l in change (Forall P l') in Hot end;
  repeat match type of Hot with
  | Forall _ (_ :: _) =>
      let H := fresh "Hfin" in
      apply Forall_cons_iff in Hot; destruct Hot as [H Hot]; cbn in H;
      first [ specialize (H ltac:(discriminate)) | clear H ]
  end;
  repeat match goal with
  | H : finite_all (_ :: _) |- _ => apply Forall_cons_iff in H; destruct H as [? H]
  | H : finite_all [] |- _ => clear H
  | H : finite_all (match ?e with _ => _ end) |- _ => destruct e eqn:?
  end.
Ltac case_finite :=
  cbn [fst snd] in *;
  repeat match goal with
  | H : sf_is_finite ?x = true |- _ => is_var x; destruct x; try discriminate H; clear H
  | H : sf_is_finite (fst ?o) = true |- _ => destruct o; cbn in H
  | H : sf_is_finite (snd ?o) = true |- _ => destruct o; cbn in H
  end.

Ltac reject_tac :=
  let fm := fresh "fm" in let p := fresh "p" in let Hfm := fresh "Hfm" in let Hin := fresh "Hin" in let Hot := fresh "Hot" in
  intros fm p Hfm Hin Hot;
  open_guard;
  first
    [ solve [ plug Hin; destruct Hfm; subst fm; cbn [f_one f_eps fmt32 fmt64 f_is64]; finish_reject ]
    | solve [ use_others Hot; plug Hin; case_finite; destruct Hfm; subst fm; cbn [f_one f_eps fmt32 fmt64 f_is64]; finish_reject ] ].

Ltac leaf_tac :=
  match goal with
  | |- leaf_documented ?gp ?l ?s =>
      unfold leaf_documented;
      let b := eval vm_compute in (nonfinite_listed (gp_builder gp) (fst l) s) in
      change (nonfinite_listed (gp_builder gp) (fst l) s) with b; cbv iota;
      match b with
      | true => apply accepts_by_witness; vm_compute; reflexivity
      | false => cbn [fst snd]; reject_tac
      end
  end.

Ltac forall_hnf tac :=
  match goal with
  | |- Forall ?P ?l =>
      let l' := eval hnf in l in
      change (Forall P l');
      first [ apply Forall_nil | apply Forall_cons; [ tac | forall_hnf tac ] ]
  end.

Definition pack_nonfinite (gp : guard_pack) : Prop :=
  Forall (fun l => leaf_documented gp l SNaN /\ leaf_documented gp l SPInf /\ leaf_documented gp l SNInf) (gp_leaves gp).


Lemma every_leaf_documented : Forall pack_nonfinite guard_packs.
Proof.
  forall_hnf ltac:(unfold pack_nonfinite;
    forall_hnf ltac:(cbv beta; split; [solve [leaf_tac] | split; solve [leaf_tac]])).
Qed.

(** the table names exactly the float leaves of the translated records *)
Definition nonfinite_table_complete : bool :=
  forallb (fun gp => forallb (fun l => match nonfinite_entry (gp_builder gp) (fst l) with Some _ => true | None => false end)
                       (gp_leaves gp)) guard_packs
  && forallb (fun e => let '(b, leaf, _, _) := e in
       existsb (fun gp => String.eqb (gp_builder gp) b && existsb (fun l => String.eqb (fst l) leaf) (gp_leaves gp)) guard_packs)
       nonfinite_table.
Lemma nonfinite_table_names_the_leaves : nonfinite_table_complete = true.
Proof. vm_compute. reflexivity. Qed.

(** non-vacuity: 43 float leaves, 129 (leaf, special value) pairs, 63 of them accepted *)
Example counts_of_leaves :
  fold_right (fun gp n => (List.length (gp_leaves gp) + n)%nat) 0%nat guard_packs = 43%nat
  /\ List.length nonfinite_table = 43%nat
  /\ fold_right (fun e n => (List.length (snd (fst e)) + n)%nat) 0%nat nonfinite_table = 63%nat.
Proof. vm_compute. repeat split. Qed.

(* the two alternatives exclude each other *)
Lemma accepts_not_rejects gp leaf get s : leaf_accepts gp leaf get s -> ~ leaf_rejects gp leaf get s.
Proof. intros (p & I & O & A) R. exact (R fmt64 p (or_intror eq_refl) I O A). Qed.
