(** C04 - executable base of the hyper-parameter guard models.

    The guards themselves ([check_ref_X], one per `impl ParamGuard for X`) are NOT written by hand:
    tools/c04_guard2coq.py regenerates gen/C04_guards.v from the Rust sources on every run.  This
    file holds what the generated definitions are written in terms of:

    - [fmt]: the float format of the builder's type parameter `F` (binary32 or binary64) with the
      constants `F::one()` and `F::epsilon()`;  floats are [spec_float] (Coq's executable IEEE-754
      specification), so one guard definition serves f32 and f64;
    - the primitive tests of the Rust subset (`is_negative`, `is_sign_negative`, `is_nan`,
      `is_infinite`, `is_finite`, comparisons, `RangeInclusive::contains`);
    - errors ([gerr]: enum path + payload), untyped transport values ([pval]) in which the harness
      ships a parameter set, and their decoders;
    - the model of src/param_guard.rs: the blanket `Fit` / `FitWith` / `Transformer` impls. *)
From Coq Require Import List NArith ZArith Bool String SpecFloat.
From LinfaVerif Require Import Common.Num Common.B32.
Import ListNotations.
Open Scope string_scope.

(** * Float formats *)
Record fmt := { f_is64 : bool; f_one : spec_float; f_eps : spec_float }.

Definition fzero : spec_float := S754_zero false.
Definition one64 : spec_float := S754_finite false 4503599627370496 (-52).
Definition eps64 : spec_float := S754_finite false 4503599627370496 (-104).   (* f64::EPSILON = 2^-52 *)
Definition one32 : spec_float := S754_finite false 8388608 (-23).
Definition eps32 : spec_float := S754_finite false 8388608 (-46).             (* f32::EPSILON = 2^-23 *)
Definition fmt64 : fmt := {| f_is64 := true; f_one := one64; f_eps := eps64 |}.
Definition fmt32 : fmt := {| f_is64 := false; f_one := one32; f_eps := eps32 |}.

(** * Primitive tests (num_traits::Float / Signed on f32, f64) *)
(* `is_sign_negative` and `Signed::is_negative` both read the sign bit (so they are true for -0.0).
   A NaN carries no sign in [spec_float]; the harness only feeds the positive quiet NaN. *)
Definition sf_sign (x : spec_float) : bool :=
  match x with
  | S754_zero s | S754_infinity s | S754_finite s _ _ => s
  | S754_nan => false
  end.
Definition sf_is_nan (x : spec_float) : bool := match x with S754_nan => true | _ => false end.
Definition sf_is_infinite (x : spec_float) : bool := match x with S754_infinity _ => true | _ => false end.
Definition sf_is_finite (x : spec_float) : bool :=
  match x with S754_zero _ | S754_finite _ _ _ => true | _ => false end.

(* PartialOrd on floats *)
Definition flt (a b : spec_float) : bool := SFltb a b.
Definition fle (a b : spec_float) : bool := SFleb a b.
Definition fgt (a b : spec_float) : bool := SFltb b a.
Definition fge (a b : spec_float) : bool := SFleb b a.
Definition feq (a b : spec_float) : bool := SFeqb a b.
Definition fne (a b : spec_float) : bool := negb (SFeqb a b).
(* `(a..=b).contains(&x)` is `a <= x && x <= b` *)
Definition range_incl_contains (a b x : spec_float) : bool := SFleb a x && SFleb x b.

(* `to_f32()` / `to_f64()` of a value of format [fm] (only used in error payloads) *)
Definition cast_f32 (fm : fmt) (x : spec_float) : spec_float := if f_is64 fm then b32_of_b64 x else x.
Definition cast_f64 (fm : fmt) (x : spec_float) : spec_float := x.   (* exact widening: same value *)

(** * Errors *)
Inductive pitem :=
| PStr (s : string)          (* string payload; for `format!` only the text before the first `{` *)
| PFlt (x : spec_float)
| PNat (n : N)
| PSkip.                     (* payload not modelled from here on (enum value, formatted number) *)

Inductive gerr :=
| GErr (path : string) (payload : list pitem)
| GFrom (outer : string) (inner : gerr).     (* `?` conversion through `From`: outer = target enum *)

(* sequencing of statements that may return early: the first error wins *)
Definition seqf (a b : option gerr) : option gerr :=
  match a with Some e => Some e | None => b end.

(** * Untyped transport of parameter sets *)
Inductive pval :=
| VF (x : spec_float)
| VN (n : N)
| VB (b : bool)
| VNone
| VSome (v : pval)
| VTup (l : list pval)
| VCtor (c : string) (l : list pval)
| VRec (l : list (string * pval)).

Definition env := list (string * pval).

Fixpoint lookup (e : env) (k : string) : pval :=
  match e with
  | [] => VNone
  | (k', v) :: r => if String.eqb k k' then v else lookup r k
  end.

Definition as_F (v : pval) : spec_float := match v with VF x => x | _ => S754_nan end.
Definition as_N (v : pval) : N := match v with VN n => n | _ => 0%N end.
Definition as_B (v : pval) : bool := match v with VB b => b | _ => false end.
Definition as_opt {A} (f : pval -> A) (v : pval) : option A :=
  match v with VSome x => Some (f x) | _ => None end.
Definition as_pair {A B} (f : pval -> A) (g : pval -> B) (v : pval) : A * B :=
  match v with VTup [a; b] => (f a, g b) | _ => (f VNone, g VNone) end.
Definition as_list {A} (f : pval -> A) (v : pval) : list A :=
  match v with VTup l => map f l | _ => [] end.
Definition as_env (v : pval) : env := match v with VRec l => l | _ => [] end.

(** * values in the transport form *)
Fixpoint pv_forall (f : spec_float -> bool) (v : pval) : bool :=
  match v with
  | VF x => f x
  | VSome w => pv_forall f w
  | VTup l => (fix go (l : list pval) := match l with [] => true | a :: r => pv_forall f a && go r end) l
  | VCtor _ l => (fix go (l : list pval) := match l with [] => true | a :: r => pv_forall f a && go r end) l
  | VRec l => (fix go (l : list (string * pval)) := match l with [] => true | (_, a) :: r => pv_forall f a && go r end) l
  | _ => true
  end.
Definition env_forall (f : spec_float -> bool) (e : env) : bool := pv_forall f (VRec e).
Definition is_negzero (x : spec_float) : bool := match x with S754_zero true => true | _ => false end.

Fixpoint pv_map (f : spec_float -> spec_float) (v : pval) : pval :=
  match v with
  | VF x => VF (f x)
  | VSome w => VSome (pv_map f w)
  | VTup l => VTup ((fix go (l : list pval) := match l with [] => [] | a :: r => pv_map f a :: go r end) l)
  | VCtor c l => VCtor c ((fix go (l : list pval) := match l with [] => [] | a :: r => pv_map f a :: go r end) l)
  | VRec l => VRec ((fix go (l : list (string * pval)) := match l with [] => [] | (k, a) :: r => (k, pv_map f a) :: go r end) l)
  | _ => v
  end.
Definition pos_zero (x : spec_float) : spec_float := match x with S754_zero _ => S754_zero false | _ => x end.
Definition env_norm (e : env) : env := as_env (pv_map pos_zero (VRec e)).

(** * src/param_guard.rs : the blanket impls on unchecked parameters

      fn fit(&self, dataset) -> Result<Object, E> { let checked = self.check_ref()?; checked.fit(dataset) }
      fn fit_with(&self, model, dataset)          { let checked = self.check_ref()?; checked.fit_with(model, dataset) }
      fn transform(&self, x) -> Result<T, P::Error> { self.check_ref().map(|p| p.transform(x)) }

    [Err] is the guard's error type, [Res] what the call on the *checked* parameters returns (for
    Fit/FitWith a `Result<_, E>` already), [conv] is `E::from`.  The checked call is a thunk: the
    model makes visible that it is not run when the guard fails. *)
Section Blanket.
Context {Err Res E : Type}.

Inductive unchecked_result :=
| UGuardErr (e : E)          (* `?` / `map` returned the (converted) guard error: nothing was trained *)
| UDelegated (r : Res).      (* the result of the same call on the checked parameters *)

Definition blanket_fit (conv : Err -> E) (check_ref : option Err) (checked_fit : unit -> Res)
  : unchecked_result :=
  match check_ref with
  | Some e => UGuardErr (conv e)
  | None => UDelegated (checked_fit tt)
  end.

(* `fit_with` has the same shape as `fit` *)
Definition blanket_fit_with := blanket_fit.
End Blanket.

(* `Transformer` through `TransformGuard`: the error is returned as is *)
Definition blanket_transform {Err Res} (check_ref : option Err) (checked_transform : unit -> Res)
  : @unchecked_result Res Err :=
  blanket_fit (fun e => e) check_ref checked_transform.

(* `check(self)`: `self.check_ref()?; Ok(self.0)` - same verdict, parameters returned as they are *)
Definition check_by_value {Err P} (check_ref : P -> option Err) (p : P) : Err + P :=
  match check_ref p with Some e => inl e | None => inr p end.

(** * Entry points: every `impl Fit / FitWith / Transformer / PredictInplace / Predict ... for T` and every
      method with a `self` receiver of a type that has a ParamGuard impl, as read from the sources by the
      translator (gen/C04_guards.v [entry_points]).

    class of the receiver:
      [EpUnchecked]  a type with an `impl ParamGuard` (the builder before checking);
      [EpChecked]    the `Checked` type of some ParamGuard impl (or a type alias of it);
      [EpBlanket]    the type variable `P` of the three generic impls of src/param_guard.rs;
      [EpOther]      anything else (fitted models, scalers, parameter types without a guard, test doubles).

    The body of every method of an [EpUnchecked] / [EpBlanket] receiver is translated to an [ep_shape]:
      [EpTry m a]      `self.check_ref()?.m(args)`  or  `let c = self.check_ref()?; c.m(args)`
      [EpMap m a]      `self.check_ref().map(|c| c.m(args))`
      [EpAndThen m a]  `self.check_ref().and_then(|c| c.m(args))`
      [EpGetter]       `&self.0.field` / `self.0.field` / `self.0.field.clone()` (reads a value, runs nothing)
      [EpOpaque body]  anything else (the text is kept so that the report can show it)
    [a] is true when `args` are exactly the method's own parameters, in order. *)
Inductive ep_class := EpUnchecked | EpChecked | EpBlanket | EpOther.
Inductive ep_shape :=
| EpTry (m : string) (same_args : bool)
| EpMap (m : string) (same_args : bool)
| EpAndThen (m : string) (same_args : bool)
| EpGetter
| EpOpaque (body : string).

Record entry_point := {
  ep_file : string;
  ep_trait : string;             (* "" for an inherent impl block *)
  ep_recv : string;              (* receiver type name (type aliases resolved, macro names normalised) *)
  ep_cls : ep_class;
  ep_builder : string;           (* EpUnchecked: the receiver; EpChecked: the builder it is the Checked type of; else "" *)
  ep_records : string;           (* trait impl: first type argument of the trait; inherent: type of the first parameter *)
  ep_fns : list (string * ep_shape)   (* methods with a self receiver; bodies translated for EpUnchecked / EpBlanket *)
}.

Definition ep_class_eqb (a b : ep_class) : bool :=
  match a, b with
  | EpUnchecked, EpUnchecked | EpChecked, EpChecked | EpBlanket, EpBlanket | EpOther, EpOther => true
  | _, _ => false
  end.

(* the meaning of the three forwarding shapes: `?` returns the (converted) error, `map` / `and_then` return
   it as it is (E = Err, conv = identity); otherwise method [m] of the checked parameters runs on the same
   arguments.  An opaque body has no meaning in the model. *)
Definition ep_denote {Err Res E : Type} (s : ep_shape) (conv : Err -> E) (check_ref : option Err)
    (checked_call : string -> unit -> Res) : option (@unchecked_result Res E) :=
  match s with
  | EpTry m true | EpMap m true | EpAndThen m true =>
      Some (match check_ref with
            | Some e => UGuardErr (conv e)
            | None => UDelegated (checked_call m tt)
            end)
  | _ => None
  end.

(* the method a forwarding shape delegates to *)
Definition ep_target (s : ep_shape) : option string :=
  match s with
  | EpTry m true | EpMap m true | EpAndThen m true => Some m
  | _ => None
  end.

(* a method of an unchecked receiver is fine when it forwards (a trait method: to the method of the same
   name) or only reads a field *)
Definition ep_fn_ok (is_trait : bool) (f : string * ep_shape) : bool :=
  match snd f with
  | EpGetter => negb is_trait
  | s => match ep_target s with
         | Some m => negb is_trait || String.eqb m (fst f)
         | None => false
         end
  end.

Definition ep_guarded (e : entry_point) : bool :=
  match ep_cls e with
  | EpUnchecked | EpBlanket => forallb (ep_fn_ok (negb (String.eqb (ep_trait e) ""))) (ep_fns e)
  | _ => true
  end.

(* the key under which the harness reports a call of an entry point *)
Definition ep_key (m records : string) : string := m ++ ":" ++ records.

(** * Parameter records as data: fields with setters, float leaves with getters (gen/C04_fields.v) *)
Record field_desc (P : Type) := {
  fd_name : string;
  fd_rust_type : string;
  fd_numeric : bool;             (* the type contains a float or an unsigned integer *)
  fd_ty : Type;
  fd_set : fd_ty -> P -> P;
  fd_dec : pval -> fd_ty         (* from the transport form (Spec.v writes witness values in it) *)
}.
Arguments fd_name {P}. Arguments fd_rust_type {P}. Arguments fd_numeric {P}.
Arguments fd_ty {P}. Arguments fd_set {P}. Arguments fd_dec {P}.

Record guard_pack := {
  gp_builder : string;
  gp_P : Type;
  gp_guard : fmt -> gp_P -> option gerr;
  gp_of_env : env -> gp_P;
  gp_fields : list (field_desc gp_P);                       (* every translated field of the checked struct *)
  gp_leaves : list (string * (gp_P -> list spec_float));    (* every float inside those fields, by path *)
  gp_untranslated : list (string * string);                 (* fields whose type is outside the subset: (name, type) *)
  gp_reads : list string                                    (* fields the body of check_ref mentions (syntactic) *)
}.
