(** C04 - the real-number meaning of the boolean specifications of Spec.v (what Corr.v evaluates),
    builder by builder: [g_act] (what the guard accepts), [g_strict] / [g_loose] (documented range). *)
From Coq Require Import List NArith ZArith Bool String SpecFloat Reals Lra Lia.
From Flocq Require Import Core.Core IEEE754.BinarySingleNaN.
From LinfaVerif Require Import C04.Model gen.C04_guards C04.Spec C04.Proofs.
Import ListNotations.
Local Open Scope R_scope.

Notation nz x := (x <> negzero).

Section Readings.
Variable prec emax : Z.
Notation wf := (wf prec emax).
Notation fmt_ok := (fmt_ok prec emax).
Variable fm : fmt.
Hypothesis Hfm : fmt_ok fm.

(** ** builders whose documentation is explicit and whose guard agrees: strict = loose = act *)
Lemma read_KMeans p : wf (KMeansValidParams_tolerance p) ->
  g_act (spec_KMeansParams fm p) = true <->
  (1 <= KMeansValidParams_n_clusters p)%N /\ (1 <= KMeansValidParams_n_runs p)%N
  /\ 0 < val (KMeansValidParams_tolerance p) /\ (1 <= KMeansValidParams_max_n_iterations p)%N.
Proof. intros H. unfold spec_KMeansParams, ge1. refl_tac. Qed.

Lemma read_Dbscan p : wf (DbscanValidParams_tolerance p) ->
  g_act (spec_DbscanParams fm p) = true <->
  (2 <= DbscanValidParams_min_points p)%N /\ 0 < val (DbscanValidParams_tolerance p).
Proof. intros H. unfold spec_DbscanParams, ge2. refl_tac. Qed.

Lemma read_Optics p : wf (OpticsValidParams_tolerance p) ->
  g_act (spec_OpticsParams fm p) = true <->
  0 < val (OpticsValidParams_tolerance p) /\ (2 <= OpticsValidParams_min_points p)%N.
Proof. intros H. unfold spec_OpticsParams, ge2. refl_tac. Qed.

Lemma read_Gmm p : wf (GmmValidParams_tolerance p) -> wf (GmmValidParams_reg_covar p) ->
  g_act (spec_GmmParams fm p) = true <->
  (1 <= GmmValidParams_n_clusters p)%N /\ 0 < val (GmmValidParams_tolerance p)
  /\ 0 <= val (GmmValidParams_reg_covar p) /\ (1 <= GmmValidParams_n_runs p)%N
  /\ (1 <= GmmValidParams_max_n_iter p)%N.
Proof. intros H1 H2. unfold spec_GmmParams, ge1. refl_tac. Qed.

Lemma read_DiffusionMap p :
  g_act (spec_DiffusionMapParams fm p) = true <->
  (1 <= DiffusionMapValidParams_steps p)%N /\ (1 <= DiffusionMapValidParams_embedding_size p)%N.
Proof. unfold spec_DiffusionMapParams, ge1. refl_tac. Qed.

(** ** elastic net *)
Lemma act_ElasticNet p :
  wf (ElasticNetValidParamsBase_penalty p) -> wf (ElasticNetValidParamsBase_l1_ratio p) ->
  wf (ElasticNetValidParamsBase_tolerance p) ->
  g_act (spec_ElasticNetParamsBase fm p) = true <->
  (0 <= val (ElasticNetValidParamsBase_penalty p) /\ nz (ElasticNetValidParamsBase_penalty p))
  /\ (0 <= val (ElasticNetValidParamsBase_l1_ratio p) <= 1)
  /\ (0 <= val (ElasticNetValidParamsBase_tolerance p) /\ nz (ElasticNetValidParamsBase_tolerance p)).
Proof. intros H1 H2 H3. unfold spec_ElasticNetParamsBase, in01, nonneg_bit. refl_tac. Qed.

Lemma strict_ElasticNet p :
  wf (ElasticNetValidParamsBase_penalty p) -> wf (ElasticNetValidParamsBase_l1_ratio p) ->
  wf (ElasticNetValidParamsBase_tolerance p) ->
  g_strict (spec_ElasticNetParamsBase fm p) = true <->
  0 <= val (ElasticNetValidParamsBase_penalty p) /\ (0 <= val (ElasticNetValidParamsBase_l1_ratio p) <= 1)
  /\ 0 < val (ElasticNetValidParamsBase_tolerance p) /\ (1 <= ElasticNetValidParamsBase_max_iterations p)%N.
Proof. intros H1 H2 H3. unfold spec_ElasticNetParamsBase, in01, ge1. refl_tac. Qed.

Lemma loose_ElasticNet p :
  wf (ElasticNetValidParamsBase_penalty p) -> wf (ElasticNetValidParamsBase_l1_ratio p) ->
  wf (ElasticNetValidParamsBase_tolerance p) ->
  g_loose (spec_ElasticNetParamsBase fm p) = true <->
  0 <= val (ElasticNetValidParamsBase_penalty p) /\ (0 <= val (ElasticNetValidParamsBase_l1_ratio p) <= 1)
  /\ 0 <= val (ElasticNetValidParamsBase_tolerance p) /\ (1 <= ElasticNetValidParamsBase_max_iterations p)%N.
Proof. intros H1 H2 H3. unfold spec_ElasticNetParamsBase, in01, ge1. refl_tac. Qed.

(** ** logistic regression *)
Lemma act_Logistic p :
  wf (LogisticRegressionValidParams_alpha p) -> wf (LogisticRegressionValidParams_gradient_tolerance p) ->
  g_act (spec_LogisticRegressionParams fm p) = true <->
  0 <= val (LogisticRegressionValidParams_alpha p) /\ 0 < val (LogisticRegressionValidParams_gradient_tolerance p).
Proof. intros H1 H2. unfold spec_LogisticRegressionParams. refl_tac. Qed.

(** ** Tweedie GLM *)
Lemma act_Tweedie p :
  wf (TweedieRegressorValidParams_alpha p) -> wf (TweedieRegressorValidParams_power p) ->
  g_act (spec_TweedieRegressorParams fm p) = true <->
  (0 <= val (TweedieRegressorValidParams_alpha p) /\ nz (TweedieRegressorValidParams_alpha p))
  /\ ~ (0 < val (TweedieRegressorValidParams_power p) < 1).
Proof. intros H1 H2. unfold spec_TweedieRegressorParams, nonneg_bit. refl_tac. Qed.

Lemma doc_Tweedie p :
  wf (TweedieRegressorValidParams_alpha p) -> wf (TweedieRegressorValidParams_power p) ->
  g_strict (spec_TweedieRegressorParams fm p) = true <->
  0 <= val (TweedieRegressorValidParams_alpha p) /\ ~ (0 < val (TweedieRegressorValidParams_power p) < 1).
Proof. intros H1 H2. unfold spec_TweedieRegressorParams. refl_tac. Qed.

(** ** Platt scaling *)
Lemma act_Platt p : wf (PlattValidParams_minstep p) -> wf (PlattValidParams_sigma p) ->
  g_act (spec_PlattParams fm p) = true <->
  (1 <= PlattValidParams_maxiter p)%N
  /\ (0 <= val (PlattValidParams_minstep p) /\ nz (PlattValidParams_minstep p))
  /\ (0 <= val (PlattValidParams_sigma p) /\ nz (PlattValidParams_sigma p)).
Proof. intros H1 H2. unfold spec_PlattParams, nonneg_bit, ge1. refl_tac. Qed.

(** ** SVM *)
Lemma act_Svm p :
  wf (PlattValidParams_minstep (SvmValidParams_platt p)) -> wf (PlattValidParams_sigma (SvmValidParams_platt p)) ->
  wf (SolverParams_eps (SvmValidParams_solver_params p)) ->
  wf_pair_opt prec emax (SvmValidParams_c p) -> wf_pair_opt prec emax (SvmValidParams_nu p) ->
  g_act (spec_SvmParams fm p) = true <->
  g_act (spec_PlattParams fm (SvmValidParams_platt p)) = true
  /\ (0 <= val (SolverParams_eps (SvmValidParams_solver_params p)) /\ nz (SolverParams_eps (SvmValidParams_solver_params p)))
  /\ match SvmValidParams_c p with Some (a, b) => 0 < val a /\ 0 < val b | None => True end
  /\ match SvmValidParams_nu p with Some (n, _) => 0 < val n <= 1 | None => True end.
Proof.
  intros H1 H2 H3 H4 H5. unfold spec_SvmParams, nonneg_bit. cbn [g_act].
  destruct (g_act (spec_PlattParams fm (SvmValidParams_platt p)));
    [| cbn; split; [discriminate | intros [E _]; discriminate]].
  destruct (SvmValidParams_c p) as [[c1 c2]|]; destruct (SvmValidParams_nu p) as [[n1 n2]|];
    cbn in H4, H5; repeat match goal with H : _ /\ _ |- _ => destruct H end; refl_tac.
Qed.

(** ** decision tree *)
Lemma act_DecisionTree p : wf (DecisionTreeValidParams_min_impurity_decrease p) ->
  g_act (spec_DecisionTreeParams fm p) = true <->
  val (f_eps fm) <= val (DecisionTreeValidParams_min_impurity_decrease p).
Proof. intros H. unfold spec_DecisionTreeParams. refl_tac. Qed.
Lemma doc_DecisionTree p : wf (DecisionTreeValidParams_min_impurity_decrease p) ->
  g_strict (spec_DecisionTreeParams fm p) = true <-> 0 < val (DecisionTreeValidParams_min_impurity_decrease p).
Proof. intros H. unfold spec_DecisionTreeParams. refl_tac. Qed.

(** ** naive Bayes *)
Lemma act_GaussianNb p : wf (GaussianNbValidParams_var_smoothing p) ->
  g_act (spec_GaussianNbParams fm p) = true <->
  0 <= val (GaussianNbValidParams_var_smoothing p) /\ nz (GaussianNbValidParams_var_smoothing p).
Proof. intros H. unfold spec_GaussianNbParams, nonneg_bit. refl_tac. Qed.
Lemma act_MultinomialNb p : wf (MultinomialNbValidParams_alpha p) ->
  g_act (spec_MultinomialNbParams fm p) = true <->
  0 <= val (MultinomialNbValidParams_alpha p) /\ nz (MultinomialNbValidParams_alpha p).
Proof. intros H. unfold spec_MultinomialNbParams, nonneg_bit. refl_tac. Qed.

(** ** FTRL *)
Lemma act_Ftrl p :
  wf (FtrlValidParams_alpha p) -> wf (FtrlValidParams_beta p) ->
  wf (FtrlValidParams_l1_ratio p) -> wf (FtrlValidParams_l2_ratio p) ->
  g_act (spec_FtrlParams fm p) = true <->
  (0 <= val (FtrlValidParams_l1_ratio p) <= 1) /\ (0 <= val (FtrlValidParams_l2_ratio p) <= 1)
  /\ (0 <= val (FtrlValidParams_alpha p) /\ nz (FtrlValidParams_alpha p))
  /\ (0 <= val (FtrlValidParams_beta p) /\ nz (FtrlValidParams_beta p)).
Proof. intros H1 H2 H3 H4. unfold spec_FtrlParams, in01, nonneg_bit. refl_tac. Qed.

(** ** PLS *)
Lemma act_Pls p : wf (PlsValidParams_tolerance p) ->
  g_act (spec_Pls p) = true <->
  (0 <= val (PlsValidParams_tolerance p) /\ nz (PlsValidParams_tolerance p)) /\ (1 <= PlsValidParams_max_iter p)%N.
Proof. intros H. unfold spec_Pls, nonneg_bit, ge1. refl_tac. Qed.

(** ** t-SNE *)
Lemma act_TSne p : wf (TSneValidParams_perplexity p) -> wf (TSneValidParams_approx_threshold p) ->
  g_act (spec_TSneParams fm p) = true <->
  (0 <= val (TSneValidParams_perplexity p) /\ nz (TSneValidParams_perplexity p))
  /\ (0 <= val (TSneValidParams_approx_threshold p) /\ nz (TSneValidParams_approx_threshold p)).
Proof. intros H1 H2. unfold spec_TSneParams, nonneg_bit. refl_tac. Qed.

(** ** FastICA *)
Lemma act_FastIca p : wf (FastIcaValidParams_tol p) ->
  g_act (spec_FastIcaParams fm p) = true <->
  0 <= val (FastIcaValidParams_tol p) /\ logcosh_ok (FastIcaValidParams_gfunc p) = true.
Proof.
  intros H. unfold spec_FastIcaParams; cbn [g_act].
  destruct (logcosh_ok (FastIcaValidParams_gfunc p)); rewrite ?andb_true_r, ?andb_false_r;
    [| split; [discriminate | intros [_ X]; discriminate X]].
  toR. destruct (Rle_bool_spec 0 (val (FastIcaValidParams_tol p))); split; intros; try tauto; try discriminate.
  exfalso; lra.
Qed.

(** ** hierarchical clustering *)
Lemma act_Hierarchical p :
  match ValidHierarchicalCluster_stopping p with Criterion_Distance x => wf x | _ => True end ->
  g_act (spec_HierarchicalCluster fm p) = true <->
  match ValidHierarchicalCluster_stopping p with
  | Criterion_NumClusters n => (1 <= n)%N
  | Criterion_Distance x => 0 <= val x /\ nz x
  end.
Proof.
  intros H. unfold spec_HierarchicalCluster, nonneg_bit, ge1.
  destruct (ValidHierarchicalCluster_stopping p); refl_tac.
Qed.

(** ** documented ranges (strict and loose readings) of the builders whose specification is not [exact] *)
Lemma strict_Logistic p :
  wf (LogisticRegressionValidParams_alpha p) -> wf (LogisticRegressionValidParams_gradient_tolerance p) ->
  g_strict (spec_LogisticRegressionParams fm p) = true <->
  0 < val (LogisticRegressionValidParams_alpha p) /\ 0 < val (LogisticRegressionValidParams_gradient_tolerance p).
Proof. intros H1 H2. unfold spec_LogisticRegressionParams. refl_tac. Qed.
Lemma loose_Logistic p :
  wf (LogisticRegressionValidParams_alpha p) -> wf (LogisticRegressionValidParams_gradient_tolerance p) ->
  g_loose (spec_LogisticRegressionParams fm p) = true <->
  0 <= val (LogisticRegressionValidParams_alpha p) /\ 0 <= val (LogisticRegressionValidParams_gradient_tolerance p).
Proof. intros H1 H2. unfold spec_LogisticRegressionParams. refl_tac. Qed.

Lemma strict_Platt p : wf (PlattValidParams_minstep p) -> wf (PlattValidParams_sigma p) ->
  g_strict (spec_PlattParams fm p) = true <->
  (1 <= PlattValidParams_maxiter p)%N /\ 0 < val (PlattValidParams_minstep p) /\ 0 < val (PlattValidParams_sigma p).
Proof. intros H1 H2. unfold spec_PlattParams, ge1. refl_tac. Qed.
Lemma loose_Platt p : wf (PlattValidParams_minstep p) -> wf (PlattValidParams_sigma p) ->
  g_loose (spec_PlattParams fm p) = true <->
  (1 <= PlattValidParams_maxiter p)%N /\ 0 <= val (PlattValidParams_minstep p) /\ 0 <= val (PlattValidParams_sigma p).
Proof. intros H1 H2. unfold spec_PlattParams, ge1. refl_tac. Qed.

Lemma doc_GaussianNb p : wf (GaussianNbValidParams_var_smoothing p) ->
  g_strict (spec_GaussianNbParams fm p) = true <-> 0 <= val (GaussianNbValidParams_var_smoothing p).
Proof. intros H. unfold spec_GaussianNbParams. refl_tac. Qed.
Lemma doc_MultinomialNb p : wf (MultinomialNbValidParams_alpha p) ->
  g_strict (spec_MultinomialNbParams fm p) = true <-> 0 <= val (MultinomialNbValidParams_alpha p).
Proof. intros H. unfold spec_MultinomialNbParams. refl_tac. Qed.

Lemma strict_Ftrl p :
  wf (FtrlValidParams_alpha p) -> wf (FtrlValidParams_beta p) ->
  wf (FtrlValidParams_l1_ratio p) -> wf (FtrlValidParams_l2_ratio p) ->
  g_strict (spec_FtrlParams fm p) = true <->
  (0 <= val (FtrlValidParams_l1_ratio p) <= 1) /\ (0 <= val (FtrlValidParams_l2_ratio p) <= 1)
  /\ 0 < val (FtrlValidParams_alpha p) /\ 0 <= val (FtrlValidParams_beta p).
Proof. intros H1 H2 H3 H4. unfold spec_FtrlParams, in01. refl_tac. Qed.
Lemma loose_Ftrl p :
  wf (FtrlValidParams_alpha p) -> wf (FtrlValidParams_beta p) ->
  wf (FtrlValidParams_l1_ratio p) -> wf (FtrlValidParams_l2_ratio p) ->
  g_loose (spec_FtrlParams fm p) = true <->
  (0 <= val (FtrlValidParams_l1_ratio p) <= 1) /\ (0 <= val (FtrlValidParams_l2_ratio p) <= 1)
  /\ 0 <= val (FtrlValidParams_alpha p) /\ 0 <= val (FtrlValidParams_beta p).
Proof. intros H1 H2 H3 H4. unfold spec_FtrlParams, in01. refl_tac. Qed.

Lemma doc_Pls p : wf (PlsValidParams_tolerance p) ->
  g_strict (spec_Pls p) = true <-> 0 <= val (PlsValidParams_tolerance p) /\ (1 <= PlsValidParams_max_iter p)%N.
Proof. intros H. unfold spec_Pls, ge1. refl_tac. Qed.

Lemma strict_TSne p : wf (TSneValidParams_perplexity p) -> wf (TSneValidParams_approx_threshold p) ->
  g_strict (spec_TSneParams fm p) = true <->
  0 < val (TSneValidParams_perplexity p) /\ 0 <= val (TSneValidParams_approx_threshold p).
Proof. intros H1 H2. unfold spec_TSneParams. refl_tac. Qed.
Lemma loose_TSne p : wf (TSneValidParams_perplexity p) -> wf (TSneValidParams_approx_threshold p) ->
  g_loose (spec_TSneParams fm p) = true <->
  0 <= val (TSneValidParams_perplexity p) /\ 0 <= val (TSneValidParams_approx_threshold p).
Proof. intros H1 H2. unfold spec_TSneParams. refl_tac. Qed.

Lemma strict_FastIca p : wf (FastIcaValidParams_tol p) ->
  g_strict (spec_FastIcaParams fm p) = true <->
  0 < val (FastIcaValidParams_tol p) /\ logcosh_ok (FastIcaValidParams_gfunc p) = true.
Proof.
  intros H. unfold spec_FastIcaParams; cbn [g_strict].
  destruct (logcosh_ok (FastIcaValidParams_gfunc p)); rewrite ?andb_true_r, ?andb_false_r;
    [| split; [discriminate | intros [_ X]; discriminate X]].
  toR. destruct (Rlt_bool_spec 0 (val (FastIcaValidParams_tol p))); split; intros; try tauto; try discriminate.
  exfalso; lra.
Qed.
Lemma loose_FastIca p : wf (FastIcaValidParams_tol p) ->
  g_loose (spec_FastIcaParams fm p) = true <->
  0 <= val (FastIcaValidParams_tol p) /\ logcosh_ok (FastIcaValidParams_gfunc p) = true.
Proof.
  intros H. unfold spec_FastIcaParams; cbn [g_loose].
  destruct (logcosh_ok (FastIcaValidParams_gfunc p)); rewrite ?andb_true_r, ?andb_false_r;
    [| split; [discriminate | intros [_ X]; discriminate X]].
  toR. destruct (Rle_bool_spec 0 (val (FastIcaValidParams_tol p))); split; intros; try tauto; try discriminate.
  exfalso; lra.
Qed.
Lemma strict_Hierarchical p :
  match ValidHierarchicalCluster_stopping p with Criterion_Distance x => wf x | _ => True end ->
  g_strict (spec_HierarchicalCluster fm p) = true <->
  match ValidHierarchicalCluster_stopping p with
  | Criterion_NumClusters n => (1 <= n)%N
  | Criterion_Distance x => 0 < val x
  end.
Proof. intros H. unfold spec_HierarchicalCluster, ge1. destruct (ValidHierarchicalCluster_stopping p); refl_tac. Qed.
Lemma loose_Hierarchical p :
  match ValidHierarchicalCluster_stopping p with Criterion_Distance x => wf x | _ => True end ->
  g_loose (spec_HierarchicalCluster fm p) = true <->
  match ValidHierarchicalCluster_stopping p with
  | Criterion_NumClusters n => (1 <= n)%N
  | Criterion_Distance x => 0 <= val x
  end.
Proof. intros H. unfold spec_HierarchicalCluster, ge1. destruct (ValidHierarchicalCluster_stopping p); refl_tac. Qed.

Lemma strict_Svm p :
  wf (PlattValidParams_minstep (SvmValidParams_platt p)) -> wf (PlattValidParams_sigma (SvmValidParams_platt p)) ->
  wf (SolverParams_eps (SvmValidParams_solver_params p)) ->
  wf_pair_opt prec emax (SvmValidParams_c p) -> wf_pair_opt prec emax (SvmValidParams_nu p) ->
  g_strict (spec_SvmParams fm p) = true <->
  g_strict (spec_PlattParams fm (SvmValidParams_platt p)) = true
  /\ 0 < val (SolverParams_eps (SvmValidParams_solver_params p))
  /\ match SvmValidParams_c p with Some (a, b) => 0 < val a /\ 0 < val b | None => True end
  /\ match SvmValidParams_nu p with Some (n, _) => 0 <= val n <= 1 | None => True end.
Proof.
  intros H1 H2 H3 H4 H5. unfold spec_SvmParams, in01. cbn [g_strict].
  destruct (g_strict (spec_PlattParams fm (SvmValidParams_platt p)));
    [| cbn; split; [discriminate | intros [E _]; discriminate]].
  destruct (SvmValidParams_c p) as [[c1 c2]|]; destruct (SvmValidParams_nu p) as [[n1 n2]|];
    cbn in H4, H5; repeat match goal with H : _ /\ _ |- _ => destruct H end; refl_tac.
Qed.
Lemma loose_Svm p :
  wf (PlattValidParams_minstep (SvmValidParams_platt p)) -> wf (PlattValidParams_sigma (SvmValidParams_platt p)) ->
  wf (SolverParams_eps (SvmValidParams_solver_params p)) ->
  wf_pair_opt prec emax (SvmValidParams_c p) -> wf_pair_opt prec emax (SvmValidParams_nu p) ->
  g_loose (spec_SvmParams fm p) = true <->
  g_loose (spec_PlattParams fm (SvmValidParams_platt p)) = true
  /\ 0 <= val (SolverParams_eps (SvmValidParams_solver_params p))
  /\ match SvmValidParams_c p with Some (a, b) => 0 <= val a /\ 0 <= val b | None => True end
  /\ match SvmValidParams_nu p with Some (n, _) => 0 <= val n <= 1 | None => True end.
Proof.
  intros H1 H2 H3 H4 H5. unfold spec_SvmParams, in01. cbn [g_loose].
  destruct (g_loose (spec_PlattParams fm (SvmValidParams_platt p)));
    [| cbn; split; [discriminate | intros [E _]; discriminate]].
  destruct (SvmValidParams_c p) as [[c1 c2]|]; destruct (SvmValidParams_nu p) as [[n1 n2]|];
    cbn in H4, H5; repeat match goal with H : _ /\ _ |- _ => destruct H end; refl_tac.
Qed.

End Readings.

(** ** the two builders with fixed float types *)
Lemma read_RandomProjection fm p :
  match RandomProjectionValidParams_params p with RandomProjectionParamsInner_Epsilon e => wf 53 1024 e | _ => True end ->
  g_act (spec_RandomProjectionParams fm p) = true <->
  match RandomProjectionValidParams_params p with
  | RandomProjectionParamsInner_Dimension d => (1 <= d)%N
  | RandomProjectionParamsInner_Epsilon e => 0 < val e < 1
  end.
Proof.
  intros H. pose proof fmt64_ok as Hfm. unfold spec_RandomProjectionParams, ge1.
  destruct (RandomProjectionValidParams_params p); refl_tac.
Qed.

Lemma act_CountVectorizer fm p :
  wf 24 128 (fst (CountVectorizerValidParams_document_frequency p)) ->
  wf 24 128 (snd (CountVectorizerValidParams_document_frequency p)) ->
  g_act (spec_CountVectorizerParams fm p) = true <->
  (1 <= fst (CountVectorizerValidParams_n_gram_range p) <= snd (CountVectorizerValidParams_n_gram_range p))%N
  /\ 0 <= val (fst (CountVectorizerValidParams_document_frequency p)) <= val (snd (CountVectorizerValidParams_document_frequency p))
  /\ CountVectorizerValidParams_split_regex_expr_compiles p = true.
Proof.
  intros H1 H2. pose proof fmt32_ok as Hfm. unfold spec_CountVectorizerParams, ge1.
  destruct (CountVectorizerValidParams_n_gram_range p) as [n1 n2].
  destruct (CountVectorizerValidParams_document_frequency p) as [f1 f2]. cbn [fst snd] in *.
  destruct (CountVectorizerValidParams_split_regex_expr_compiles p); refl_tac.
Qed.
Lemma doc_CountVectorizer fm p :
  wf 24 128 (fst (CountVectorizerValidParams_document_frequency p)) ->
  wf 24 128 (snd (CountVectorizerValidParams_document_frequency p)) ->
  g_strict (spec_CountVectorizerParams fm p) = true <->
  (1 <= fst (CountVectorizerValidParams_n_gram_range p) <= snd (CountVectorizerValidParams_n_gram_range p))%N
  /\ 0 <= val (fst (CountVectorizerValidParams_document_frequency p)) <= val (snd (CountVectorizerValidParams_document_frequency p))
  /\ val (snd (CountVectorizerValidParams_document_frequency p)) <= 1
  /\ CountVectorizerValidParams_split_regex_expr_compiles p = true.
Proof.
  intros H1 H2. pose proof fmt32_ok as Hfm. unfold spec_CountVectorizerParams, ge1.
  destruct (CountVectorizerValidParams_n_gram_range p) as [n1 n2].
  destruct (CountVectorizerValidParams_document_frequency p) as [f1 f2]. cbn [fst snd] in *.
  destruct (CountVectorizerValidParams_split_regex_expr_compiles p); refl_tac.
Qed.

(** * The known-finding regions of Spec.v ([g_known]) over the reals *)
Section K.
Variable prec emax : Z.
Notation wf := (wf prec emax).
Notation fmt_ok := (fmt_ok prec emax).
Variable fm : fmt.
Hypothesis Hfm : fmt_ok fm.

Lemma known_DecisionTree p : wf (DecisionTreeValidParams_min_impurity_decrease p) ->
  g_known (spec_DecisionTreeParams fm p) = 0%N <->
  ~ (0 < val (DecisionTreeValidParams_min_impurity_decrease p) < val (f_eps fm)).
Proof.
  intros H. unfold spec_DecisionTreeParams. cbn [g_known]. toR.
  destruct (Rlt_bool_spec 0 (val (DecisionTreeValidParams_min_impurity_decrease p)));
  destruct (Rlt_bool_spec (val (DecisionTreeValidParams_min_impurity_decrease p)) (val (f_eps fm)));
  cbn; unfold K_F21; (split; [intro; try lra; try discriminate | intro C; try reflexivity; exfalso; apply C; lra]).
Qed.

Lemma known_ElasticNet p :
  g_known (spec_ElasticNetParamsBase fm p) = 0%N <-> ElasticNetValidParamsBase_max_iterations p <> 0%N.
Proof.
  unfold spec_ElasticNetParamsBase. cbn [g_known].
  destruct (N.eqb_spec (ElasticNetValidParamsBase_max_iterations p) 0); unfold K_ENIT; split; intro; try congruence; try discriminate; try reflexivity.
Qed.

Lemma known_Svm p : wf_pair_opt prec emax (SvmValidParams_nu p) ->
  g_known (spec_SvmParams fm p) = 0%N <->
  match SvmValidParams_nu p with Some (n, _) => val n <> 0 | None => True end.
Proof.
  intros H. unfold spec_SvmParams. cbn [g_known].
  destruct (SvmValidParams_nu p) as [[n m]|]; [|tauto]. destruct H as [H _].
  pose proof (is_zero_R prec emax n H) as Z. destruct (is_zero n); unfold K_NU0.
  - split; [discriminate|]. intros C. exfalso. apply C. apply Z. reflexivity.
  - split; [|reflexivity]. intros _ C. apply Z in C. discriminate.
Qed.
End K.

Lemma known_CountVectorizer fm p :
  wf 24 128 (snd (CountVectorizerValidParams_document_frequency p)) ->
  g_known (spec_CountVectorizerParams fm p) = 0%N <-> val (snd (CountVectorizerValidParams_document_frequency p)) <= 1.
Proof.
  intros H. pose proof fmt32_ok as Hfm. unfold spec_CountVectorizerParams.
  destruct (CountVectorizerValidParams_n_gram_range p) as [n1 n2].
  destruct (CountVectorizerValidParams_document_frequency p) as [f1 f2]. cbn [snd g_known] in *.
  change one32 with (f_one fmt32). rewrite (flt_R 24 128) by wfs.
  rewrite (proj1 (proj2 Hfm)).
  destruct (Rlt_bool_spec 1 (val f2)); unfold K_CVF; split; intro; try lra; try discriminate; reflexivity.
Qed.

(** ------------------------------------------------------------------------------------------ *)
(** * Witnesses: the known findings, by computation on the translated guards (binary64) *)
Open Scope string_scope.
Definition d_1em4 : spec_float := S754_finite false 7378697629483821 (-66).   (* 0.0001 *)
Definition d_1em7 : spec_float := S754_finite false 7555786372591432 (-76).   (* 1e-07 *)
Definition d_half : spec_float := S754_finite false 4503599627370496 (-53).   (* 0.5 *)
Definition d_1em20 : spec_float := S754_finite false 6646139978924579 (-119). (* 1e-20 *)
Definition d_1em3 : spec_float := S754_finite false 4611686018427388 (-62).   (* 0.001 *)
Definition d_1em6 : spec_float := S754_finite false 4722366482869645 (-72).   (* 1e-06 *)
Definition d_1em9 : spec_float := S754_finite false 4835703278458517 (-82).   (* 1e-09 *)
Definition d_1em10 : spec_float := S754_finite false 7737125245533627 (-86).  (* 1e-10 *)
Definition d_1em12 : spec_float := S754_finite false 4951760157141521 (-92).  (* 1e-12 *)
Definition d_5 : spec_float := S754_finite false 5629499534213120 (-50).      (* 5.0 *)
Definition d_0005 : spec_float := S754_finite false 5764607523034235 (-60).   (* 0.005 *)
Definition d_1em5 : spec_float := S754_finite false 5902958103587057 (-69).   (* 1e-05 *)
Definition d_01 : spec_float := S754_finite false 7205759403792794 (-56).     (* 0.1 *)
Definition s_2 : spec_float := S754_finite false 8388608 (-22).               (* 2.0 as f32 *)
Definition s_quarter : spec_float := S754_finite false 8388608 (-25).         (* 0.25 as f32 *)

(* parameter sets are built through the decoders, so that a new field of a struct does not break them *)
Definition wit_ElasticNet (pen tol : spec_float) : r_ElasticNetValidParamsBase :=
  of_env_ElasticNetValidParamsBase [("penalty", VF pen); ("l1_ratio", VF d_half); ("with_intercept", VB true);
                                    ("max_iterations", VN 1000); ("tolerance", VF tol)].
Definition wit_Tweedie (a : spec_float) : r_TweedieRegressorValidParams :=
  of_env_TweedieRegressorValidParams [("alpha", VF a); ("fit_intercept", VB true); ("power", VF one64);
                                      ("max_iter", VN 100); ("tol", VF d_1em4)].
Definition wit_Ftrl (b : spec_float) : r_FtrlValidParams :=
  of_env_FtrlValidParams [("alpha", VF d_0005); ("beta", VF b); ("l1_ratio", VF d_half); ("l2_ratio", VF d_half)].
Definition wit_Pls (t : spec_float) : r_PlsValidParams :=
  of_env_PlsValidParams [("n_components", VN 2); ("max_iter", VN 500); ("tolerance", VF t); ("scale", VB true)].
Definition wit_TSne (t : spec_float) : r_TSneValidParams :=
  of_env_TSneValidParams [("embedding_size", VN 2); ("approx_threshold", VF t); ("perplexity", VF d_5); ("max_iter", VN 2000)].
Definition wit_Platt (s : spec_float) : r_PlattValidParams :=
  of_env_PlattValidParams [("maxiter", VN 100); ("minstep", VF d_1em10); ("sigma", VF s)].
Definition wit_Svm (eps : spec_float) (nu : option (spec_float * spec_float)) : r_SvmValidParams :=
  of_env_SvmValidParams
    [("c", match nu with None => VSome (VTup [VF one64; VF one64]) | Some _ => VNone end);
     ("nu", match nu with Some (a, b) => VSome (VTup [VF a; VF b]) | None => VNone end);
     ("solver_params", VRec [("eps", VF eps); ("shrinking", VB false)]);
     ("platt", VRec [("maxiter", VN 100); ("minstep", VF d_1em10); ("sigma", VF d_1em12)])].

Lemma refuted_F8_GaussianNb : exists p q,
  wf 53 1024 (GaussianNbValidParams_var_smoothing p) /\ wf 53 1024 (GaussianNbValidParams_var_smoothing q)
  /\ val (GaussianNbValidParams_var_smoothing p) = val (GaussianNbValidParams_var_smoothing q)
  /\ check_ref_GaussianNbParams fmt64 p = None /\ check_ref_GaussianNbParams fmt64 q <> None.
Proof.
  exists {| GaussianNbValidParams_var_smoothing := fzero |}, {| GaussianNbValidParams_var_smoothing := negzero |}.
  repeat split; try reflexivity; vm_compute; discriminate.
Qed.

Lemma refuted_F8_sites :
  check_ref_ElasticNetParamsBase fmt64 (wit_ElasticNet negzero d_1em4) <> None
  /\ check_ref_ElasticNetParamsBase fmt64 (wit_ElasticNet fzero d_1em4) = None
  /\ check_ref_TweedieRegressorParams fmt64 (wit_Tweedie negzero) <> None
  /\ check_ref_TweedieRegressorParams fmt64 (wit_Tweedie fzero) = None
  /\ check_ref_MultinomialNbParams fmt64 {| MultinomialNbValidParams_alpha := negzero |} <> None
  /\ check_ref_MultinomialNbParams fmt64 {| MultinomialNbValidParams_alpha := fzero |} = None
  /\ check_ref_FtrlParams fmt64 (wit_Ftrl negzero) <> None
  /\ check_ref_FtrlParams fmt64 (wit_Ftrl fzero) = None
  /\ check_ref_PlsXParams fmt64 (wit_Pls negzero) <> None
  /\ check_ref_PlsXParams fmt64 (wit_Pls fzero) = None
  /\ check_ref_TSneParams fmt64 (wit_TSne negzero) <> None
  /\ check_ref_TSneParams fmt64 (wit_TSne fzero) = None
  /\ check_ref_PlattParams fmt64 (wit_Platt negzero) <> None
  /\ check_ref_PlattParams fmt64 (wit_Platt fzero) = None
  /\ check_ref_SvmParams fmt64 (wit_Svm negzero None) <> None
  /\ check_ref_SvmParams fmt64 (wit_Svm fzero None) = None
  /\ check_ref_HierarchicalCluster fmt64 {| ValidHierarchicalCluster_stopping := Criterion_Distance negzero |} <> None
  /\ check_ref_HierarchicalCluster fmt64 {| ValidHierarchicalCluster_stopping := Criterion_Distance fzero |} = None.
Proof. repeat split; vm_compute; try reflexivity; discriminate. Qed.

Lemma val_pos_finite m e : 0 < val (S754_finite false m e).
Proof. unfold val, SF2R. apply F2R_gt_0. reflexivity. Qed.

Lemma refuted_F21 : exists p,
  wf 53 1024 (DecisionTreeValidParams_min_impurity_decrease p)
  /\ 0 < val (DecisionTreeValidParams_min_impurity_decrease p)
  /\ check_ref_DecisionTreeParams fmt64 p <> None.
Proof.
  exists (of_env_DecisionTreeValidParams [("min_impurity_decrease", VF d_1em20)]).
  split; [split; reflexivity|]. split; [apply val_pos_finite | vm_compute; discriminate].
Qed.

Lemma refuted_F42 : exists p,
  ElasticNetValidParamsBase_max_iterations p = 0%N /\ check_ref_ElasticNetParamsBase fmt64 p = None.
Proof.
  exists (of_env_ElasticNetValidParamsBase [("penalty", VF one64); ("l1_ratio", VF d_half); ("max_iterations", VN 0); ("tolerance", VF d_1em4)]).
  split; reflexivity.
Qed.

Lemma refuted_F43 :
  check_ref_SvmParams fmt64 (wit_Svm d_1em7 (Some (fzero, fzero))) <> None
  /\ check_ref_SvmParams fmt64 (wit_Svm d_1em7 (Some (d_half, fzero))) = None.
Proof. split; vm_compute; [discriminate | reflexivity]. Qed.

Lemma val_s_2 : val s_2 = 2.
Proof. unfold val, s_2, SF2R, F2R; simpl; lra. Qed.

Lemma refuted_F44 : exists p,
  wf 24 128 (snd (CountVectorizerValidParams_document_frequency p))
  /\ 1 < val (snd (CountVectorizerValidParams_document_frequency p))
  /\ check_ref_CountVectorizerParams fmt32 p = None.
Proof.
  exists (of_env_CountVectorizerValidParams [("n_gram_range", VTup [VN 1; VN 1]); ("document_frequency", VTup [VF s_quarter; VF s_2]);
                                            ("split_regex_expr_compiles", VB true)]).
  split; [split; reflexivity|]. split; [| reflexivity].
  match goal with |- 1 < val ?t => replace t with s_2 by reflexivity end. rewrite val_s_2; lra.
Qed.

(** FastICA: the alpha of `GFunc::Logcosh` is an f64 *)
Lemma logcosh_ok_R g : match g with GFunc_Logcosh a => wf 53 1024 a | _ => True end ->
  logcosh_ok g = true <-> match g with GFunc_Logcosh a => 1 <= val a <= 2 | _ => True end.
Proof.
  destruct g as [a| |]; cbn; try tauto. intros H.
  assert (W1 : wf 53 1024 one64) by (split; reflexivity).
  assert (W2 : wf 53 1024 two64) by (split; reflexivity).
  rewrite (fle_R 53 1024 one64 a W1 H), (fle_R 53 1024 a two64 H W2).
  replace (val one64) with 1 by (unfold val, one64, SF2R, F2R; simpl; lra).
  replace (val two64) with 2 by (unfold val, two64, SF2R, F2R; simpl; lra).
  destruct (Rle_bool_spec 1 (val a)), (Rle_bool_spec (val a) 2); cbn; split; intros; try lra; try discriminate; reflexivity.
Qed.

Definition d_10 : spec_float := S754_finite false 5629499534213120 (-49).     (* 10.0 *)
Lemma val_d_10 : val d_10 = 10.
Proof. unfold val, d_10, SF2R, F2R; simpl; lra. Qed.
(* F-C04-1 (fixed in /repo 6e23381): Logcosh(10) - the value of the crate's own test test_logcosh_alpha_err -
   passed the guard as it was before the repair, and is rejected by the current one *)
Definition wit_FC041 : r_FastIcaValidParams :=
  {| FastIcaValidParams_ncomponents := None; FastIcaValidParams_gfunc := GFunc_Logcosh d_10;
     FastIcaValidParams_max_iter := 200; FastIcaValidParams_tol := d_1em4; FastIcaValidParams_random_state := None |}.
Lemma refuted_FC041 :
  (exists a, FastIcaValidParams_gfunc wit_FC041 = GFunc_Logcosh a /\ wf 53 1024 a /\ 2 < val a)
  /\ check_ref_FastIcaParams_before_FC041 fmt64 wit_FC041 = None
  /\ check_ref_FastIcaParams fmt64 wit_FC041 <> None.
Proof.
  split; [| split; [reflexivity | discriminate]].
  exists d_10. split; [reflexivity|]. split; [split; reflexivity|]. rewrite val_d_10; lra.
Qed.

(** * Non-vacuity: the documented default parameter set of every builder (binary64; f32 for the count
      vectoriser's frequencies) consists of finite numbers of the format, lies in the strict documented
      range and outside every known-finding region, and is accepted by the translated guard.
      (OPTICS' default tolerance is +infinity, which is not a finite value: 1.0 is used.) *)
Definition vb (prec emax : Z) (x : spec_float) : bool := valid_binary prec emax x && sf_is_finite x.
Definition default_ok (prec emax : Z) (fm : fmt) (b : string) (e : env) : bool :=
  env_forall (vb prec emax) e
  && match check_ref_dispatch b fm e, spec_dispatch b fm e with
     | Some None, Some s => g_strict s && g_loose s && g_act s && N.eqb (g_known s) 0
     | _, _ => false
     end.
Definition pair_f (a b : spec_float) : pval := VSome (VTup [VF a; VF b]).

Example default_parameter_sets_are_in_range_and_accepted :
  forallb (fun t => default_ok 53 1024 fmt64 (fst t) (snd t))
    [("KMeansParams", [("n_runs", VN 10); ("tolerance", VF d_1em4); ("max_n_iterations", VN 300); ("n_clusters", VN 3)]);
     ("DbscanParams", [("tolerance", VF d_1em4); ("min_points", VN 2)]);
     ("OpticsParams", [("tolerance", VF one64); ("min_points", VN 2)]);
     ("GmmParams", [("n_clusters", VN 2); ("tolerance", VF d_1em3); ("reg_covar", VF d_1em6); ("n_runs", VN 1); ("max_n_iter", VN 100)]);
     ("ElasticNetParamsBase", [("penalty", VF one64); ("l1_ratio", VF d_half); ("max_iterations", VN 1000); ("tolerance", VF d_1em4)]);
     ("LogisticRegressionParams", [("alpha", VF one64); ("max_iterations", VN 100); ("gradient_tolerance", VF d_1em4); ("initial_params", VNone)]);
     ("TweedieRegressorParams", [("alpha", VF one64); ("power", VF one64); ("max_iter", VN 100); ("tol", VF d_1em4)]);
     ("PlattParams", [("maxiter", VN 100); ("minstep", VF d_1em10); ("sigma", VF d_1em12)]);
     ("SvmParams", [("c", pair_f one64 one64); ("nu", VNone); ("solver_params", VRec [("eps", VF d_1em7)]);
                    ("platt", VRec [("maxiter", VN 100); ("minstep", VF d_1em10); ("sigma", VF d_1em12)])]);
     ("DecisionTreeParams", [("min_impurity_decrease", VF d_1em5)]);
     ("GaussianNbParams", [("var_smoothing", VF d_1em9)]);
     ("MultinomialNbParams", [("alpha", VF one64)]);
     ("FtrlParams", [("alpha", VF d_0005); ("beta", VF fzero); ("l1_ratio", VF d_half); ("l2_ratio", VF d_half)]);
     ("PlsParams", [("max_iter", VN 500); ("tolerance", VF d_1em6)]);
     ("PlsXParams", [("max_iter", VN 500); ("tolerance", VF d_1em6)]);
     ("TSneParams", [("approx_threshold", VF d_half); ("perplexity", VF d_5); ("max_iter", VN 2000)]);
     ("FastIcaParams", [("gfunc", VCtor "Logcosh" [VF one64]); ("max_iter", VN 200); ("tol", VF d_1em4)]);
     ("DiffusionMapParams", [("steps", VN 1); ("embedding_size", VN 2)]);
     ("RandomProjectionParams", [("params", VCtor "Epsilon" [VF d_01])]);
     ("HierarchicalCluster", [("stopping", VCtor "NumClusters" [VN 2])])] = true
  /\ default_ok 24 128 fmt32 "CountVectorizerParams"
       [("n_gram_range", VTup [VN 1; VN 1]); ("document_frequency", VTup [VF fzero; VF one32]); ("split_regex_expr_compiles", VB true)] = true.
Proof. split; vm_compute; reflexivity. Qed.

(* and the list above names every builder the translator found *)
Example default_list_is_complete : List.length guard_builders = 21%nat.
Proof. reflexivity. Qed.
