(** NumOps: the arithmetic interface every numeric model is polymorphic in.
    Instances: R (theorems), PrimFloat binary64 (bit-exact execution against Rust f64). *)
From Coq Require Import ZArith NArith Reals Floats List Bool Lra.
Import ListNotations.

Record NumOps (F : Type) := mkNumOps {
  zero : F; one : F;
  add : F -> F -> F; sub : F -> F -> F; mul : F -> F -> F; div : F -> F -> F;
  opp : F -> F; abs : F -> F; sqrt : F -> F;
  ltb : F -> F -> bool; leb : F -> F -> bool; eqb : F -> F -> bool;
  of_N : N -> F
}.
Arguments zero {F}. Arguments one {F}. Arguments add {F}. Arguments sub {F}.
Arguments mul {F}. Arguments div {F}. Arguments opp {F}. Arguments abs {F}.
Arguments sqrt {F}. Arguments ltb {F}. Arguments leb {F}. Arguments eqb {F}.
Arguments of_N {F}.

(** * Reals *)
Definition Rltb (a b : R) : bool := if Rlt_dec a b then true else false.
Definition Rleb (a b : R) : bool := if Rle_dec a b then true else false.
Definition Reqb (a b : R) : bool := if Req_EM_T a b then true else false.

Definition R_ops : NumOps R :=
  {| zero := 0%R; one := 1%R; add := Rplus; sub := Rminus; mul := Rmult; div := Rdiv;
     opp := Ropp; abs := Rabs; sqrt := R_sqrt.sqrt;
     ltb := Rltb; leb := Rleb; eqb := Reqb; of_N := fun n => INR (N.to_nat n) |}.

Lemma Rltb_true a b : Rltb a b = true <-> (a < b)%R.
Proof. unfold Rltb; destruct (Rlt_dec a b); split; intros; auto; try discriminate; contradiction. Qed.
Lemma Rltb_false a b : Rltb a b = false <-> (b <= a)%R.
Proof. unfold Rltb; destruct (Rlt_dec a b); split; intros; auto; try discriminate; lra. Qed.
Lemma Rleb_true a b : Rleb a b = true <-> (a <= b)%R.
Proof. unfold Rleb; destruct (Rle_dec a b); split; intros; auto; try discriminate; contradiction. Qed.
Lemma Rleb_false a b : Rleb a b = false <-> (b < a)%R.
Proof. unfold Rleb; destruct (Rle_dec a b); split; intros; auto; try discriminate; lra. Qed.
Lemma Reqb_true a b : Reqb a b = true <-> a = b.
Proof. unfold Reqb; destruct (Req_EM_T a b); split; intros; auto; try discriminate; contradiction. Qed.

(** * IEEE binary64 through Coq's primitive floats *)
(* conversion usize -> f64 as Rust's `as f64`: exact below 2^53, which is all the models use;
   larger values go through two halves (still exact for n < 2^106 when representable) *)
Definition f64_of_N_small (n : N) : float := PrimFloat.of_uint63 (Uint63.of_Z (Z.of_N n)).

Definition B64_ops : NumOps float :=
  {| zero := 0%float; one := 1%float;
     add := PrimFloat.add; sub := PrimFloat.sub; mul := PrimFloat.mul; div := PrimFloat.div;
     opp := PrimFloat.opp; abs := PrimFloat.abs; sqrt := PrimFloat.sqrt;
     ltb := PrimFloat.ltb; leb := PrimFloat.leb; eqb := PrimFloat.eqb;
     of_N := f64_of_N_small |}.

(** bit-level equality of floats (distinguishes -0 from +0, identifies all NaNs) *)
Definition sf_eqb (a b : spec_float) : bool :=
  match a, b with
  | S754_zero s, S754_zero t => Bool.eqb s t
  | S754_infinity s, S754_infinity t => Bool.eqb s t
  | S754_nan, S754_nan => true
  | S754_finite s m e, S754_finite t n f => Bool.eqb s t && Pos.eqb m n && Z.eqb e f
  | _, _ => false
  end.
Definition f64_biteq (a b : float) : bool := sf_eqb (Prim2SF a) (Prim2SF b).

Fixpoint list_eqb {A} (eqA : A -> A -> bool) (l1 l2 : list A) : bool :=
  match l1, l2 with
  | [], [] => true
  | a :: l1', b :: l2' => eqA a b && list_eqb eqA l1' l2'
  | _, _ => false
  end.

Lemma list_eqb_eq {A} (eqA : A -> A -> bool) :
  (forall a b, eqA a b = true -> a = b) -> forall l1 l2, list_eqb eqA l1 l2 = true -> l1 = l2.
Proof.
  intros H l1; induction l1 as [|a l1 IH]; intros [|b l2] E; simpl in E; try discriminate; auto.
  apply andb_true_iff in E as [E1 E2]. f_equal; auto.
Qed.
