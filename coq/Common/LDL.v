(** Exact-rational LDL^T certificates of positive (semi-)definiteness, with soundness over R.

    The elimination is written in its recursive (Schur complement) form on the quadratic form
    q(x) = x^T M x kept in upper-triangular representation  q(x0 :: y) = a x0^2 + x0 (c . y) + q'(y) :
    completing the square gives  q(x0 :: y) = a (x0 + c.y / 2a)^2 + [q'(y) - (c.y)^2 / 4a] ;
    the successive values of [a] are the pivots d_i of M_sym = L D L^T (M_sym = (M + M^T)/2), and
    the recursion is the identity  x^T M x = sum_i d_i (L^T x)_i^2.  No symmetry of M is required:
    only the symmetric part of M enters x^T M x, and [tri_of] reads exactly that part.

    Use:   ldl_pd n M = true   ->  forall x <> 0 of length n,  0 <  x^T M x      (ldl_pd_sound)
           ldl_psd n M = true  ->  forall x of length n,       0 <= x^T M x      (ldl_psd_sound)
           ldl_psd_shift n M r = true -> forall x of length n, r |x|^2 <= x^T M x (ldl_psd_shift_sound)
    with M : list (list Q) (n x n, e.g. [map (map f64_Q)] of a float matrix) and the real quadratic
    form [Rquad (Q2Rm M) x].  [ldl_pivots] returns the pivots (their product is det M_sym). *)
From Coq Require Import ZArith QArith Qreals Reals List Lra Lia Bool.
From Bignums Require Import BigZ.
From LinfaVerif Require Import Common.QF.
Import ListNotations.

Definition Qmat := list (list Q).
Definition Rmat := list (list R).
Notation Q2Rv := (map Q2R) (only parsing).
Notation Q2Rm := (map (map Q2R)) (only parsing).

Fixpoint zipw {A B C} (f : A -> B -> C) (l1 : list A) (l2 : list B) : list C :=
  match l1, l2 with
  | a :: l1', b :: l2' => f a b :: zipw f l1' l2'
  | _, _ => []
  end.

(** x^T M x *)
Definition Rquad (M : Rmat) (x : list R) : R := Rdot x (map (fun r => Rdot r x) M).

(** the same form in upper-triangular representation: row i holds the coefficient of x_i^2 followed
    by the coefficients of x_i x_j, j > i *)
Fixpoint tquad (U : Rmat) (x : list R) : R :=
  match U, x with
  | (a :: c) :: U', x0 :: y => (a * x0 * x0 + x0 * Rdot c y + tquad U' y)%R
  | _, _ => 0%R
  end.

Definition rectb {A} (r c : nat) (M : list (list A)) : bool :=
  Nat.eqb (length M) r && forallb (fun row => Nat.eqb (length row) c) M.

Fixpoint trishapeb {A} (n : nat) (U : list (list A)) : bool :=
  match n, U with
  | O, [] => true
  | S n', r :: U' => Nat.eqb (length r) n && trishapeb n' U'
  | _, _ => false
  end.

(** triangular representation of x^T M x for a square matrix M (entries M_ij + M_ji above the diagonal) *)
Fixpoint tri_of (n : nat) (M : Qmat) : Qmat :=
  match n, M with
  | S n', (a :: b) :: rows =>
      (a :: zipw Qplus b (map (hd 0%Q) rows)) :: tri_of n' (map (@tl Q) rows)
  | _, _ => []
  end.

(** triangular representation of (c . y)^2 *)
Fixpoint sqform (c : list Q) : Qmat :=
  match c with
  | [] => []
  | ci :: c' => (ci * ci :: map (fun cj => 2 * ci * cj) c')%Q :: sqform c'
  end.

(** U - k V, entrywise, normalised *)
Definition tsub (k : Q) (U V : Qmat) : Qmat := zipw (zipw (fun u v => Qred (u - k * v))) U V.

Definition schur (a : Q) (c : list Q) (U' : Qmat) : Qmat := tsub (/ (4 * a)) U' (sqform c).

Fixpoint pd_tri (n : nat) (U : Qmat) : bool :=
  match n, U with
  | O, _ => true
  | S n', (a :: c) :: U' => Qltb 0 a && pd_tri n' (schur a c U')
  | _, _ => false
  end.

Fixpoint psd_tri (n : nat) (U : Qmat) : bool :=
  match n, U with
  | O, _ => true
  | S n', (a :: c) :: U' =>
      if Qltb 0 a then psd_tri n' (schur a c U')
      else Qeq_bool a 0 && forallb (fun q => Qeq_bool q 0) c && psd_tri n' U'
  | _, _ => false
  end.

Fixpoint tri_pivots (n : nat) (U : Qmat) : list Q :=
  match n, U with
  | S n', (a :: c) :: U' => a :: (if Qltb 0 a then tri_pivots n' (schur a c U') else tri_pivots n' U')
  | _, _ => []
  end.

(** Division-free variant on integers: the Schur complement is multiplied by 4a > 0, which does not
    change its sign behaviour; used whenever the form can be scaled to integers by one common
    denominator (always the case for matrices of floats) - no gcd, no division. *)
Definition Zmat := list (list Z).
Notation IZRm := (map (map IZR)) (only parsing).

Fixpoint sqformZ (c : list Z) : Zmat :=
  match c with
  | [] => []
  | ci :: c' => (ci * ci :: map (fun cj => 2 * ci * cj) c')%Z :: sqformZ c'
  end.
Definition schurZ (a : Z) (c : list Z) (U' : Zmat) : Zmat :=
  zipw (zipw (fun u v => (4 * a * u - v)%Z)) U' (sqformZ c).

Fixpoint pdZ_tri (n : nat) (U : Zmat) : bool :=
  match n, U with
  | O, _ => true
  | S n', (a :: c) :: U' => Z.ltb 0 a && pdZ_tri n' (schurZ a c U')
  | _, _ => false
  end.
Fixpoint psdZ_tri (n : nat) (U : Zmat) : bool :=
  match n, U with
  | O, _ => true
  | S n', (a :: c) :: U' =>
      if Z.ltb 0 a then psdZ_tri n' (schurZ a c U')
      else Z.eqb a 0 && forallb (fun z => Z.eqb z 0) c && psdZ_tri n' U'
  | _, _ => false
  end.

(** the same recursion on Bignums' [bigZ] (machine-word arithmetic, Karatsuba): this is what is
    executed; [pdB_tri_eq] / [psdB_tri_eq] identify it with the recursion on Z *)
Definition Bmat := list (list bigZ).
Notation B2Zm := (map (map BigZ.to_Z)) (only parsing).
Fixpoint sqformB (c : list bigZ) : Bmat :=
  match c with
  | [] => []
  | ci :: c' => (ci * ci :: map (fun cj => 2 * ci * cj) c')%bigZ :: sqformB c'
  end.
Definition schurB (a : bigZ) (c : list bigZ) (U' : Bmat) : Bmat :=
  zipw (zipw (fun u v => (4 * a * u - v)%bigZ)) U' (sqformB c).
Fixpoint pdB_tri (n : nat) (U : Bmat) : bool :=
  match n, U with
  | O, _ => true
  | S n', (a :: c) :: U' => BigZ.ltb 0 a && pdB_tri n' (schurB a c U')
  | _, _ => false
  end.
Fixpoint psdB_tri (n : nat) (U : Bmat) : bool :=
  match n, U with
  | O, _ => true
  | S n', (a :: c) :: U' =>
      if BigZ.ltb 0 a then psdB_tri n' (schurB a c U')
      else BigZ.eqb a 0 && forallb (fun z => BigZ.eqb z 0) c && psdB_tri n' U'
  | _, _ => false
  end.

(** scaling a rational form to integers by the largest denominator D (exact iff every denominator
    divides D, which is checked entry by entry) *)
Definition maxden (U : Qmat) : positive :=
  fold_left (fun acc r => fold_left (fun a q => Pos.max a (Qden q)) r acc) U 1%positive.
(* for power-of-two denominators D / den is a shift; any other case is caught by [scaled_entry] *)
Definition toZ (D : positive) (q : Q) : Z := Z.shiftl (Qnum q) (Z.log2 (Zpos D) - Z.log2 (Zpos (Qden q))).
Definition scaled_entry (D : positive) (z : Z) (q : Q) : bool :=
  BigZ.eqb (BigZ.of_Z z * BigZ.of_Z (Zpos (Qden q))) (BigZ.of_Z (Qnum q) * BigZ.of_Z (Zpos D)).
Fixpoint forallb2 {A B} (f : A -> B -> bool) (l1 : list A) (l2 : list B) : bool :=
  match l1, l2 with
  | [], [] => true
  | a :: l1', b :: l2' => f a b && forallb2 f l1' l2'
  | _, _ => false
  end.
Definition scaledb (D : positive) (UZ : Zmat) (U : Qmat) : bool := forallb2 (forallb2 (scaled_entry D)) UZ U.

Definition pd_form (n : nat) (U : Qmat) : bool :=
  let D := maxden U in let UZ := map (map (toZ D)) U in
  if scaledb D UZ U then pdB_tri n (map (map BigZ.of_Z) UZ) else pd_tri n U.
Definition psd_form (n : nat) (U : Qmat) : bool :=
  let D := maxden U in let UZ := map (map (toZ D)) U in
  if scaledb D UZ U then psdB_tri n (map (map BigZ.of_Z) UZ) else psd_tri n U.

(** exact dot product of two rational vectors computed on machine-word integers when both can be
    scaled to integers (always the case for floats); equal in value to [Qdot] (Q2R_dot_fast) *)
Definition denv (v : list Q) : positive := fold_left (fun a q => Pos.max a (Qden q)) v 1%positive.
Definition Bdot (a b : list bigZ) : bigZ := fold_left BigZ.add (zipw BigZ.mul a b) 0%bigZ.
Definition Zdot (a b : list Z) : Z := fold_left Z.add (zipw Z.mul a b) 0%Z.
Definition Qdot_fast (a b : list Q) : Q :=
  let Da := denv a in let Db := denv b in
  let az := map (toZ Da) a in let bz := map (toZ Db) b in
  if forallb2 (scaled_entry Da) az a && forallb2 (scaled_entry Db) bz b then
    BigZ.to_Z (Bdot (map BigZ.of_Z az) (map BigZ.of_Z bz)) # (Da * Db)
  else Qdot a b.

(** the certificates *)
(** M - r I is positive semi-definite, i.e. x^T M x >= r |x|^2: the shift is applied to the diagonal
    of the triangular representation *)
Definition tri_shift (U : Qmat) (r : Q) : Qmat :=
  map (fun row => match row with a :: c => Qred (a - r) :: c | [] => [] end) U.
Definition ldl_psd_shift (n : nat) (M : Qmat) (r : Q) : bool :=
  rectb n n M && psd_form n (tri_shift (tri_of n M) r).

Definition ldl_pd (n : nat) (M : Qmat) : bool := rectb n n M && pd_form n (tri_of n M).
Definition ldl_psd (n : nat) (M : Qmat) : bool := rectb n n M && psd_form n (tri_of n M).
Definition ldl_pivots (n : nat) (M : Qmat) : list Q := tri_pivots n (tri_of n M).

(** helpers for building the matrices the certificates are applied to *)
Definition Qsym_part (M : Qmat) : Qmat :=
  map (fun i => map (fun j => Qred ((nth j (nth i M []) 0 + nth i (nth j M []) 0) / 2)) (seq 0 (length M)))
      (seq 0 (length M)).
Definition Qsub_diag (M : Qmat) (r : Q) : Qmat :=
  map (fun ir => map (fun jv => if Nat.eqb (fst ir) (fst jv) then Qred (snd jv - r) else snd jv)
                     (combine (seq 0 (length (snd ir))) (snd ir)))
      (combine (seq 0 (length M)) M).

(* ------------------------------------------------------------------------------------------ *)
Local Open Scope R_scope.

Lemma Q2R_red q : Q2R (Qred q) = Q2R q.
Proof. apply Qeq_eqR, Qred_correct. Qed.
Lemma Q2R_0' : Q2R 0 = 0. Proof. exact RMicromega.Q2R_0. Qed.
Lemma Q2R_2 : Q2R 2 = 2. Proof. unfold Q2R; simpl; lra. Qed.
Lemma Q2R_4 : Q2R 4 = 4. Proof. unfold Q2R; simpl; lra. Qed.

Lemma Rdot_nil_r a : Rdot a [] = 0.
Proof. destruct a; reflexivity. Qed.

Lemma Rdot_zeros_r c : forall y, Forall (fun v => v = 0) y -> Rdot c y = 0.
Proof.
  induction c as [|a c IH]; intros [|y0 y] H; simpl; auto.
  inversion H; subst. rewrite IH; auto. lra.
Qed.

Lemma Rdot_Q2R_scale k c : forall y,
  Rdot (Q2Rv (map (fun cj => k * cj)%Q c)) y = Q2R k * Rdot (Q2Rv c) y.
Proof.
  induction c as [|a c IH]; intros [|y0 y]; cbn [map Rdot]; try lra.
  rewrite Q2R_mult, IH. lra.
Qed.

Lemma Rdot_zipw_sub k u : forall v y, length u = length v ->
  Rdot (Q2Rv (zipw (fun a b => Qred (a - k * b)) u v)) y
  = Rdot (Q2Rv u) y - Q2R k * Rdot (Q2Rv v) y.
Proof.
  induction u as [|a u IH]; intros [|b v] [|y0 y] H; cbn [map Rdot zipw length] in *; try lra; try discriminate.
  rewrite Q2R_red, Q2R_minus, Q2R_mult, IH by lia. lra.
Qed.

Lemma Rdot_zipw_plus u : forall v y, length u = length v ->
  Rdot (Q2Rv (zipw Qplus u v)) y = Rdot (Q2Rv u) y + Rdot (Q2Rv v) y.
Proof.
  induction u as [|a u IH]; intros [|b v] [|y0 y] H; cbn [map Rdot zipw length] in *; try lra; try discriminate.
  rewrite Q2R_plus, IH by lia. lra.
Qed.

Lemma tquad_sqform c : forall y, tquad (Q2Rm (sqform c)) y = (Rdot (Q2Rv c) y) ^ 2.
Proof.
  induction c as [|ci c IH]; intros [|y0 y]; cbn [map Rdot sqform tquad pow]; try lra.
  rewrite IH, Q2R_mult. rewrite (Rdot_Q2R_scale (2 * ci)%Q c y), Q2R_mult, Q2R_2. ring.
Qed.

Lemma trishapeb_S {A} n (U : list (list A)) :
  trishapeb (S n) U = true -> exists a c U', U = (a :: c) :: U' /\ length c = n /\ trishapeb n U' = true.
Proof.
  destruct U as [|[|a c] U']; simpl; try discriminate.
  intros H. apply andb_true_iff in H as [H1 H2]. apply Nat.eqb_eq in H1.
  exists a, c, U'. repeat split; auto.
Qed.

Lemma tquad_tsub k : forall n U V y, trishapeb n U = true -> trishapeb n V = true ->
  tquad (Q2Rm (tsub k U V)) y = tquad (Q2Rm U) y - Q2R k * tquad (Q2Rm V) y.
Proof.
  induction n as [|n IH]; intros U V y HU HV.
  - destruct U; try discriminate. destruct V; try discriminate. simpl. lra.
  - apply trishapeb_S in HU as (a & c & U' & -> & Lc & HU).
    apply trishapeb_S in HV as (b & e & V' & -> & Le & HV).
    destruct y as [|y0 y]; cbn [map zipw tsub tquad]; try lra.
    unfold tsub in IH. rewrite (IH U' V' y HU HV), Rdot_zipw_sub by lia.
    rewrite Q2R_red, Q2R_minus, Q2R_mult. ring.
Qed.

Lemma zipw_length {A B C} (f : A -> B -> C) u : forall v, length u = length v -> length (zipw f u v) = length u.
Proof. induction u; intros [|b v] H; simpl in *; try discriminate; auto. Qed.

Lemma trishapeb_tsub k : forall n U V, trishapeb n U = true -> trishapeb n V = true ->
  trishapeb n (tsub k U V) = true.
Proof.
  induction n as [|n IH]; intros U V HU HV.
  - destruct U; try discriminate. reflexivity.
  - apply trishapeb_S in HU as (a & c & U' & -> & Lc & HU).
    apply trishapeb_S in HV as (b & e & V' & -> & Le & HV).
    unfold tsub in *. simpl. rewrite zipw_length by lia. rewrite Lc, Nat.eqb_refl. simpl. apply IH; auto.
Qed.

Lemma trishapeb_sqform c : trishapeb (length c) (sqform c) = true.
Proof. induction c as [|ci c IH]; simpl; auto. rewrite map_length, Nat.eqb_refl. exact IH. Qed.

Lemma schur_shape a c U' n : length c = n -> trishapeb n U' = true -> trishapeb n (schur a c U') = true.
Proof. intros <- H. apply trishapeb_tsub; auto. apply trishapeb_sqform. Qed.

Lemma Qltb_0_pos a : Qltb 0 a = true -> 0 < Q2R a.
Proof. intros H. apply Qltb_R in H. rewrite Q2R_0' in H. exact H. Qed.

Lemma Q2R_inv4 a : 0 < Q2R a -> Q2R (/ (4 * a)) = / (4 * Q2R a).
Proof.
  intros H. rewrite Q2R_inv.
  - rewrite Q2R_mult, Q2R_4. reflexivity.
  - intro E. apply Qeq_eqR in E. rewrite Q2R_mult, Q2R_4, Q2R_0' in E. lra.
Qed.

Lemma tquad_schur a c U' n y : 0 < Q2R a -> length c = n -> trishapeb n U' = true ->
  tquad (Q2Rm (schur a c U')) y = tquad (Q2Rm U') y - / (4 * Q2R a) * (Rdot (Q2Rv c) y) ^ 2.
Proof.
  intros Ha Lc HU. unfold schur. rewrite (tquad_tsub _ n) by (auto; subst n; apply trishapeb_sqform).
  rewrite tquad_sqform, Q2R_inv4 by assumption. reflexivity.
Qed.

(** completing the square *)
Lemma square_completion A y0 t T : 0 < A ->
  A * y0 * y0 + y0 * t + T = A * (y0 + t / (2 * A)) ^ 2 + (T - / (4 * A) * t ^ 2).
Proof. intros H. field. lra. Qed.

Lemma pd_tri_sound : forall n U, trishapeb n U = true -> pd_tri n U = true ->
  forall y, length y = n ->
  0 <= tquad (Q2Rm U) y /\ (tquad (Q2Rm U) y = 0 -> Forall (fun v => v = 0) y).
Proof.
  induction n as [|n IH]; intros U HU Hpd y Ly.
  - destruct y; try discriminate. destruct U as [|[|? ?] ?]; simpl; split; auto; lra.
  - apply trishapeb_S in HU as (a & c & U' & -> & Lc & HU).
    simpl in Hpd. apply andb_true_iff in Hpd as [Ha Hpd]. apply Qltb_0_pos in Ha.
    destruct y as [|y0 y]; try discriminate. injection Ly as Ly.
    destruct (IH _ (schur_shape a c U' n Lc HU) Hpd y Ly) as [P0 Pz].
    rewrite (tquad_schur a c U' n y Ha Lc HU) in P0, Pz.
    simpl. rewrite (square_completion (Q2R a) y0 (Rdot (Q2Rv c) y) _ Ha).
    set (s := tquad (Q2Rm U') y - / (4 * Q2R a) * Rdot (Q2Rv c) y ^ 2) in *.
    assert (Hsq : 0 <= Q2R a * (y0 + Rdot (Q2Rv c) y / (2 * Q2R a)) ^ 2).
    { apply Rmult_le_pos; [lra | apply pow2_ge_0]. }
    split; [lra|]. intros E.
    assert (Hs : s = 0) by lra. specialize (Pz Hs).
    constructor; auto.
    assert (Hq : Q2R a * (y0 + Rdot (Q2Rv c) y / (2 * Q2R a)) ^ 2 = 0) by lra.
    rewrite (Rdot_zeros_r _ _ Pz) in Hq.
    apply Rmult_integral in Hq as [Hq|Hq]; [lra|].
    replace (y0 + 0 / (2 * Q2R a)) with y0 in Hq by (field; lra).
    simpl in Hq. apply Rmult_integral in Hq as [Hq|Hq]; [exact Hq|]. lra.
Qed.

Lemma Rdot_Q2R_zero c : forallb (fun q => Qeq_bool q 0) c = true -> forall y, Rdot (Q2Rv c) y = 0.
Proof.
  induction c as [|a c IH]; intros H [|y0 y]; simpl in *; auto.
  apply andb_true_iff in H as [H1 H2]. apply Qeq_bool_R in H1. rewrite H1, Q2R_0', IH by auto. lra.
Qed.

Lemma psd_tri_sound : forall n U, trishapeb n U = true -> psd_tri n U = true ->
  forall y, length y = n -> 0 <= tquad (Q2Rm U) y.
Proof.
  induction n as [|n IH]; intros U HU Hpd y Ly.
  - destruct y; try discriminate. destruct U as [|[|? ?] ?]; simpl; lra.
  - apply trishapeb_S in HU as (a & c & U' & -> & Lc & HU).
    simpl in Hpd. destruct y as [|y0 y]; try discriminate. injection Ly as Ly.
    destruct (Qltb 0 a) eqn:Ea.
    + apply Qltb_0_pos in Ea.
      pose proof (IH _ (schur_shape a c U' n Lc HU) Hpd y Ly) as P0.
      rewrite (tquad_schur a c U' n y Ea Lc HU) in P0.
      simpl. rewrite (square_completion (Q2R a) y0 (Rdot (Q2Rv c) y) _ Ea).
      assert (Hsq : 0 <= Q2R a * (y0 + Rdot (Q2Rv c) y / (2 * Q2R a)) ^ 2).
      { apply Rmult_le_pos; [lra | apply pow2_ge_0]. }
      lra.
    + apply andb_true_iff in Hpd as [Hpd H3]. apply andb_true_iff in Hpd as [H1 H2].
      apply Qeq_bool_R in H1. rewrite Q2R_0' in H1.
      simpl. rewrite H1, (Rdot_Q2R_zero c H2 y). pose proof (IH U' HU H3 y Ly). lra.
Qed.

(** the integer core *)
Lemma Rdot_IZR_scale k c : forall y,
  Rdot (map IZR (map (fun cj => k * cj)%Z c)) y = IZR k * Rdot (map IZR c) y.
Proof.
  induction c as [|a c IH]; intros [|y0 y]; cbn [map Rdot]; try lra.
  rewrite mult_IZR, IH. lra.
Qed.

Lemma tquad_sqformZ c : forall y, tquad (IZRm (sqformZ c)) y = (Rdot (map IZR c) y) ^ 2.
Proof.
  induction c as [|ci c IH]; intros [|y0 y]; cbn [map Rdot sqformZ tquad pow]; try lra.
  rewrite IH, mult_IZR, (Rdot_IZR_scale (2 * ci)%Z c y), mult_IZR. ring.
Qed.

Lemma trishapeb_sqformZ c : trishapeb (length c) (sqformZ c) = true.
Proof. induction c as [|ci c IH]; simpl; auto. rewrite map_length, Nat.eqb_refl. exact IH. Qed.

Lemma trishapeb_zipw {A B C} (f : A -> B -> C) : forall n (U : list (list A)) (V : list (list B)),
  trishapeb n U = true -> trishapeb n V = true -> trishapeb n (zipw (zipw f) U V) = true.
Proof.
  induction n as [|n IH]; intros U V HU HV.
  - destruct U; try discriminate. reflexivity.
  - apply trishapeb_S in HU as (a & c & U' & -> & Lc & HU).
    apply trishapeb_S in HV as (b & e & V' & -> & Le & HV).
    simpl. rewrite zipw_length by lia. rewrite Lc, Nat.eqb_refl. simpl. apply IH; auto.
Qed.

Lemma trishapeb_map {A B} (f : A -> B) : forall n (U : list (list A)),
  trishapeb n U = true -> trishapeb n (map (map f) U) = true.
Proof.
  induction n as [|n IH]; intros U H.
  - destruct U; try discriminate; reflexivity.
  - apply trishapeb_S in H as (a & c & U' & -> & Lc & H). simpl.
    rewrite map_length, Lc, Nat.eqb_refl. simpl. auto.
Qed.

Lemma Rdot_zipw_schurZ a u : forall v y, length u = length v ->
  Rdot (map IZR (zipw (fun p q => (4 * a * p - q)%Z) u v)) y
  = 4 * IZR a * Rdot (map IZR u) y - Rdot (map IZR v) y.
Proof.
  induction u as [|p u IH]; intros [|q v] [|y0 y] H; cbn [map Rdot zipw length] in *; try lra; try discriminate.
  rewrite minus_IZR, !mult_IZR, IH by lia. lra.
Qed.

Lemma tquad_zipw_schurZ a : forall n U V y, trishapeb n U = true -> trishapeb n V = true ->
  tquad (IZRm (zipw (zipw (fun p q => (4 * a * p - q)%Z)) U V)) y
  = 4 * IZR a * tquad (IZRm U) y - tquad (IZRm V) y.
Proof.
  induction n as [|n IH]; intros U V y HU HV.
  - destruct U; try discriminate. destruct V; try discriminate. simpl. lra.
  - apply trishapeb_S in HU as (p & c & U' & -> & Lc & HU).
    apply trishapeb_S in HV as (q & e & V' & -> & Le & HV).
    destruct y as [|y0 y]; cbn [map zipw tquad]; try lra.
    rewrite (IH U' V' y HU HV), Rdot_zipw_schurZ by lia.
    rewrite minus_IZR, !mult_IZR. ring.
Qed.

Lemma tquad_schurZ a c U' n y : length c = n -> trishapeb n U' = true ->
  tquad (IZRm (schurZ a c U')) y = 4 * IZR a * tquad (IZRm U') y - (Rdot (map IZR c) y) ^ 2.
Proof.
  intros Lc HU. unfold schurZ.
  rewrite (tquad_zipw_schurZ a n) by (auto; subst n; apply trishapeb_sqformZ).
  rewrite tquad_sqformZ. reflexivity.
Qed.

Lemma schurZ_shape a c U' n : length c = n -> trishapeb n U' = true -> trishapeb n (schurZ a c U') = true.
Proof. intros <- H. apply trishapeb_zipw; auto. apply trishapeb_sqformZ. Qed.

Lemma Zltb_0_pos a : Z.ltb 0 a = true -> 0 < IZR a.
Proof. intros H. apply Z.ltb_lt in H. apply (IZR_lt 0 a H). Qed.

Lemma pdZ_tri_sound : forall n U, trishapeb n U = true -> pdZ_tri n U = true ->
  forall y, length y = n ->
  0 <= tquad (IZRm U) y /\ (tquad (IZRm U) y = 0 -> Forall (fun v => v = 0) y).
Proof.
  induction n as [|n IH]; intros U HU Hpd y Ly.
  - destruct y; try discriminate. destruct U as [|[|? ?] ?]; simpl; split; auto; lra.
  - apply trishapeb_S in HU as (a & c & U' & -> & Lc & HU).
    simpl in Hpd. apply andb_true_iff in Hpd as [Ha Hpd]. apply Zltb_0_pos in Ha.
    destruct y as [|y0 y]; try discriminate. injection Ly as Ly.
    destruct (IH _ (schurZ_shape a c U' n Lc HU) Hpd y Ly) as [P0 Pz].
    rewrite (tquad_schurZ a c U' n y Lc HU) in P0, Pz.
    cbn [map tquad].
    set (A := IZR a) in *. set (t := Rdot (map IZR c) y) in *. set (T := tquad (IZRm U') y) in *.
    set (s := 4 * A * T - t ^ 2) in *.
    assert (E : 4 * A * (A * y0 * y0 + y0 * t + T) = (2 * A * y0 + t) ^ 2 + s) by (unfold s; ring).
    pose proof (pow2_ge_0 (2 * A * y0 + t)) as Hsq.
    split.
    + assert (H4 : 0 <= 4 * A * (A * y0 * y0 + y0 * t + T)) by (rewrite E; lra).
      destruct (Rle_lt_dec 0 (A * y0 * y0 + y0 * t + T)) as [L|L]; auto.
      exfalso. assert (4 * A * (A * y0 * y0 + y0 * t + T) < 0) by nra. lra.
    + intros Ev. rewrite Ev, Rmult_0_r in E.
      assert (Hs : s = 0) by lra. assert (Hq : (2 * A * y0 + t) ^ 2 = 0) by lra.
      specialize (Pz Hs). constructor; auto.
      unfold t in Hq. rewrite (Rdot_zeros_r _ _ Pz) in Hq.
      assert (H2 : 2 * A * y0 + 0 = 0).
      { destruct (Req_dec (2 * A * y0 + 0) 0) as [Z0|NZ]; auto. exfalso.
        apply (pow_nonzero _ 2) in NZ. contradiction. }
      assert (A * y0 = 0) by lra. apply Rmult_integral in H as [H|H]; lra.
Qed.

Lemma Rdot_IZR_zero c : forallb (fun z => Z.eqb z 0) c = true -> forall y, Rdot (map IZR c) y = 0.
Proof.
  induction c as [|a c IH]; intros H [|y0 y]; simpl in *; auto.
  apply andb_true_iff in H as [H1 H2]. apply Z.eqb_eq in H1. subst a. rewrite IH by auto. lra.
Qed.

Lemma psdZ_tri_sound : forall n U, trishapeb n U = true -> psdZ_tri n U = true ->
  forall y, length y = n -> 0 <= tquad (IZRm U) y.
Proof.
  induction n as [|n IH]; intros U HU Hpd y Ly.
  - destruct y; try discriminate. destruct U as [|[|? ?] ?]; simpl; lra.
  - apply trishapeb_S in HU as (a & c & U' & -> & Lc & HU).
    simpl in Hpd. destruct y as [|y0 y]; try discriminate. injection Ly as Ly.
    destruct (Z.ltb 0 a) eqn:Ea.
    + apply Zltb_0_pos in Ea.
      pose proof (IH _ (schurZ_shape a c U' n Lc HU) Hpd y Ly) as P0.
      rewrite (tquad_schurZ a c U' n y Lc HU) in P0.
      cbn [map tquad].
      set (A := IZR a) in *. set (t := Rdot (map IZR c) y) in *. set (T := tquad (IZRm U') y) in *.
      assert (E : 4 * A * (A * y0 * y0 + y0 * t + T) = (2 * A * y0 + t) ^ 2 + (4 * A * T - t ^ 2)) by ring.
      pose proof (pow2_ge_0 (2 * A * y0 + t)) as Hsq.
      assert (H4 : 0 <= 4 * A * (A * y0 * y0 + y0 * t + T)) by (rewrite E; lra).
      destruct (Rle_lt_dec 0 (A * y0 * y0 + y0 * t + T)) as [L|L]; auto.
      exfalso. assert (4 * A * (A * y0 * y0 + y0 * t + T) < 0) by nra. lra.
    + apply andb_true_iff in Hpd as [Hpd H3]. apply andb_true_iff in Hpd as [H1 H2].
      apply Z.eqb_eq in H1. subst a.
      cbn [map tquad]. rewrite (Rdot_IZR_zero c H2 y). pose proof (IH U' HU H3 y Ly). lra.
Qed.

(** the bigZ recursion computes the Z recursion *)
Lemma sqformB_eq c : B2Zm (sqformB c) = sqformZ (map BigZ.to_Z c).
Proof.
  induction c as [|ci c IH]; cbn [sqformB sqformZ map]; auto.
  rewrite IH, BigZ.spec_mul. f_equal. f_equal. rewrite !map_map. apply map_ext. intros cj.
  rewrite !BigZ.spec_mul. reflexivity.
Qed.

Lemma zipw_schurB_eq a : forall (u v : list bigZ),
  map BigZ.to_Z (zipw (fun p q => (4 * a * p - q)%bigZ) u v)
  = zipw (fun p q => (4 * BigZ.to_Z a * p - q)%Z) (map BigZ.to_Z u) (map BigZ.to_Z v).
Proof.
  induction u as [|p u IH]; intros [|q v]; cbn [zipw map]; auto.
  rewrite IH, BigZ.spec_sub, !BigZ.spec_mul. reflexivity.
Qed.

Lemma schurB_eq a c : forall U', B2Zm (schurB a c U') = schurZ (BigZ.to_Z a) (map BigZ.to_Z c) (B2Zm U').
Proof.
  unfold schurB, schurZ. rewrite <- sqformB_eq. generalize (sqformB c) as V.
  intros V U'; revert V. induction U' as [|r U' IH]; intros [|s V]; cbn [zipw map]; auto.
  rewrite IH, zipw_schurB_eq. reflexivity.
Qed.

Lemma pdB_tri_eq : forall n U, pdB_tri n U = pdZ_tri n (B2Zm U).
Proof.
  induction n as [|n IH]; intros U; auto.
  destruct U as [|[|a c] U']; cbn [pdB_tri pdZ_tri map]; auto.
  rewrite IH, schurB_eq, BigZ.spec_ltb. reflexivity.
Qed.

Lemma forallb_B_zero c : forallb (fun z => BigZ.eqb z 0) c = forallb (fun z => Z.eqb z 0) (map BigZ.to_Z c).
Proof. induction c as [|a c IH]; simpl; auto. rewrite IH, BigZ.spec_eqb. reflexivity. Qed.

Lemma psdB_tri_eq : forall n U, psdB_tri n U = psdZ_tri n (B2Zm U).
Proof.
  induction n as [|n IH]; intros U; auto.
  destruct U as [|[|a c] U']; cbn [psdB_tri psdZ_tri map]; auto.
  rewrite !IH, schurB_eq, BigZ.spec_ltb, BigZ.spec_eqb, forallb_B_zero. reflexivity.
Qed.

Lemma B2Zm_of_Z (U : Zmat) : B2Zm (map (map BigZ.of_Z) U) = U.
Proof.
  induction U as [|r U IH]; cbn [map]; auto. rewrite IH. f_equal.
  induction r as [|z r IHr]; cbn [map]; auto. rewrite IHr, BigZ.spec_of_Z. reflexivity.
Qed.

(** scaling to integers *)
Lemma scaled_entry_R D z q : scaled_entry D z q = true -> IZR z = IZR (Zpos D) * Q2R q.
Proof.
  unfold scaled_entry. intros H. rewrite BigZ.spec_eqb, !BigZ.spec_mul, !BigZ.spec_of_Z in H.
  apply Z.eqb_eq in H. apply (f_equal IZR) in H. rewrite !mult_IZR in H.
  unfold Q2R. assert (Hd : IZR (Zpos (Qden q)) <> 0) by (apply not_0_IZR; discriminate).
  apply (Rmult_eq_reg_r (IZR (Zpos (Qden q)))); auto. rewrite H. field. exact Hd.
Qed.

Lemma scaled_dot D cz : forall c y, forallb2 (scaled_entry D) cz c = true ->
  Rdot (map IZR cz) y = IZR (Zpos D) * Rdot (Q2Rv c) y.
Proof.
  induction cz as [|z cz IH]; intros [|q c] [|y0 y] H; cbn [map Rdot forallb2] in *; try lra; try discriminate.
  apply andb_true_iff in H as [H1 H2]. rewrite (scaled_entry_R _ _ _ H1), (IH c y H2). ring.
Qed.

Lemma scaled_quad D : forall UZ U y, scaledb D UZ U = true ->
  tquad (IZRm UZ) y = IZR (Zpos D) * tquad (Q2Rm U) y.
Proof.
  unfold scaledb. induction UZ as [|rz UZ IH]; intros [|r U] y H; cbn [forallb2] in H; try discriminate.
  - simpl. lra.
  - apply andb_true_iff in H as [H1 H2].
    destruct rz as [|z cz]; destruct r as [|q c]; cbn [forallb2] in H1; try discriminate.
    + simpl. lra.
    + apply andb_true_iff in H1 as [H0 H1]. destruct y as [|y0 y]; cbn [map tquad]; try lra.
      rewrite (scaled_entry_R _ _ _ H0), (scaled_dot D cz c y H1), (IH U y H2). ring.
Qed.

Lemma pd_form_sound : forall n U, trishapeb n U = true -> pd_form n U = true ->
  forall y, length y = n ->
  0 <= tquad (Q2Rm U) y /\ (tquad (Q2Rm U) y = 0 -> Forall (fun v => v = 0) y).
Proof.
  intros n U HU H y Ly. unfold pd_form in H.
  destruct (scaledb (maxden U) (map (map (toZ (maxden U))) U) U) eqn:Es.
  - rewrite pdB_tri_eq, B2Zm_of_Z in H.
    destruct (pdZ_tri_sound n _ (trishapeb_map _ n U HU) H y Ly) as [P0 Pz].
    rewrite (scaled_quad _ _ _ y Es) in P0, Pz.
    assert (HD : 0 < IZR (Zpos (maxden U))) by (apply (IZR_lt 0); reflexivity).
    split.
    + destruct (Rle_lt_dec 0 (tquad (Q2Rm U) y)) as [L|L]; auto. exfalso.
      assert (IZR (Zpos (maxden U)) * tquad (Q2Rm U) y < 0) by nra. lra.
    + intros E. apply Pz. rewrite E. ring.
  - exact (pd_tri_sound n U HU H y Ly).
Qed.

Lemma psd_form_sound : forall n U, trishapeb n U = true -> psd_form n U = true ->
  forall y, length y = n -> 0 <= tquad (Q2Rm U) y.
Proof.
  intros n U HU H y Ly. unfold psd_form in H.
  destruct (scaledb (maxden U) (map (map (toZ (maxden U))) U) U) eqn:Es.
  - rewrite psdB_tri_eq, B2Zm_of_Z in H.
    pose proof (psdZ_tri_sound n _ (trishapeb_map _ n U HU) H y Ly) as P0.
    rewrite (scaled_quad _ _ _ y Es) in P0.
    assert (HD : 0 < IZR (Zpos (maxden U))) by (apply (IZR_lt 0); reflexivity).
    destruct (Rle_lt_dec 0 (tquad (Q2Rm U) y)) as [L|L]; auto. exfalso.
    assert (IZR (Zpos (maxden U)) * tquad (Q2Rm U) y < 0) by nra. lra.
  - exact (psd_tri_sound n U HU H y Ly).
Qed.

(** the fast dot product *)
Lemma Rdot_comm a : forall b, Rdot a b = Rdot b a.
Proof. induction a as [|x a IH]; intros [|y b]; simpl; auto. rewrite IH. ring. Qed.

Lemma fold_add_B l : forall acc,
  BigZ.to_Z (fold_left BigZ.add l acc) = fold_left Z.add (map BigZ.to_Z l) (BigZ.to_Z acc).
Proof. induction l as [|x l IH]; intros acc; simpl; auto. rewrite IH, BigZ.spec_add. reflexivity. Qed.

Lemma zipw_mul_B a : forall b,
  map BigZ.to_Z (zipw BigZ.mul a b) = zipw Z.mul (map BigZ.to_Z a) (map BigZ.to_Z b).
Proof. induction a as [|x a IH]; intros [|y b]; simpl; auto. rewrite IH, BigZ.spec_mul. reflexivity. Qed.

Lemma Bdot_eq a b : BigZ.to_Z (Bdot a b) = Zdot (map BigZ.to_Z a) (map BigZ.to_Z b).
Proof. unfold Bdot, Zdot. rewrite fold_add_B, zipw_mul_B. reflexivity. Qed.

Lemma map_B_of_Z (l : list Z) : map BigZ.to_Z (map BigZ.of_Z l) = l.
Proof. induction l as [|z l IH]; simpl; auto. rewrite IH, BigZ.spec_of_Z. reflexivity. Qed.

Lemma fold_add_IZR l : forall acc, IZR (fold_left Z.add l acc) = IZR acc + Rsum (map IZR l).
Proof. induction l as [|x l IH]; intros acc; simpl; [lra|]. rewrite IH, plus_IZR. lra. Qed.

Lemma Zdot_R a : forall b, IZR (Zdot a b) = Rdot (map IZR a) (map IZR b).
Proof.
  unfold Zdot. intros b. rewrite fold_add_IZR. simpl. rewrite Rplus_0_l. revert b.
  induction a as [|x a IH]; intros [|y b]; simpl; auto. rewrite IH, mult_IZR. reflexivity.
Qed.

Lemma Q2R_mk z d : Q2R (z # d) = IZR z * / IZR (Zpos d).
Proof. reflexivity. Qed.

Lemma Q2R_dot_fast a b : Q2R (Qdot_fast a b) = Rdot (Q2Rv a) (Q2Rv b).
Proof.
  unfold Qdot_fast.
  destruct (forallb2 (scaled_entry (denv a)) (map (toZ (denv a)) a) a
            && forallb2 (scaled_entry (denv b)) (map (toZ (denv b)) b) b) eqn:E.
  - apply andb_true_iff in E as [Ea Eb].
    rewrite Bdot_eq, !map_B_of_Z, Q2R_mk.
    rewrite Zdot_R, Pos2Z.inj_mul, mult_IZR.
    rewrite (scaled_dot _ _ _ _ Ea), Rdot_comm, (scaled_dot _ _ _ _ Eb), Rdot_comm.
    assert (Ha : IZR (Zpos (denv a)) <> 0) by (apply not_0_IZR; discriminate).
    assert (Hb : IZR (Zpos (denv b)) <> 0) by (apply not_0_IZR; discriminate).
    field. split; assumption.
  - apply Q2R_dot.
Qed.

(** from matrices to triangular forms *)
Lemma rectb_S {A} n m (M : list (list A)) : rectb (S n) (S m) M = true ->
  exists a b rows, M = (a :: b) :: rows /\ length b = m /\ rectb n (S m) rows = true.
Proof.
  unfold rectb. intros H. apply andb_true_iff in H as [H1 H2]. apply Nat.eqb_eq in H1.
  destruct M as [|r rows]; try discriminate. simpl in H2. apply andb_true_iff in H2 as [H2 H3].
  apply Nat.eqb_eq in H2. destruct r as [|a b]; try discriminate.
  exists a, b, rows. repeat split; simpl in *; try lia. rewrite H3, andb_true_r. apply Nat.eqb_eq. lia.
Qed.

Lemma rectb_tl {A} n m (rows : list (list A)) : rectb n (S m) rows = true -> rectb n m (map (@tl A) rows) = true.
Proof.
  unfold rectb. intros H. apply andb_true_iff in H as [H1 H2]. rewrite map_length, H1. simpl.
  clear H1. induction rows as [|r rows IH]; simpl in *; auto.
  apply andb_true_iff in H2 as [H2 H3]. rewrite IH by auto. apply Nat.eqb_eq in H2.
  destruct r; simpl in *; try discriminate. rewrite andb_true_r. apply Nat.eqb_eq. lia.
Qed.

Lemma rectb_hd_length {A} n m (d : A) (rows : list (list A)) : rectb n m rows = true -> length (map (hd d) rows) = n.
Proof. unfold rectb. intros H. apply andb_true_iff in H as [H _]. apply Nat.eqb_eq in H. rewrite map_length; auto. Qed.

Lemma split_rows (x0 : R) (y : list R) : forall (rows : Rmat) (z : list R),
  forallb (fun r => negb (Nat.eqb (length r) 0)) rows = true ->
  Rdot z (map (fun r => Rdot r (x0 :: y)) rows)
  = x0 * Rdot (map (hd 0) rows) z + Rdot z (map (fun r => Rdot r y) (map (@tl R) rows)).
Proof.
  induction rows as [|r rows IH]; intros [|z0 z] H; simpl in *; try lra.
  apply andb_true_iff in H as [H1 H2]. destruct r as [|h t]; try discriminate.
  simpl. rewrite IH by auto. ring.
Qed.

Lemma Q2Rm_hd (rows : Qmat) : map (hd 0) (Q2Rm rows) = Q2Rv (map (hd 0%Q) rows).
Proof.
  induction rows as [|r rows IH]; simpl; auto. rewrite IH. f_equal.
  destruct r; simpl; auto. symmetry; apply Q2R_0'.
Qed.
Lemma Q2Rm_tl (rows : Qmat) : map (@tl R) (Q2Rm rows) = Q2Rm (map (@tl Q) rows).
Proof. induction rows as [|r rows IH]; simpl; auto. rewrite IH. f_equal. destruct r; reflexivity. Qed.

Lemma rect_nonempty {A} n m (rows : list (list A)) : rectb n (S m) rows = true ->
  forallb (fun r => negb (Nat.eqb (length r) 0)) rows = true.
Proof.
  unfold rectb. intros H. apply andb_true_iff in H as [_ H].
  induction rows as [|r rows IH]; simpl in *; auto.
  apply andb_true_iff in H as [H1 H2]. rewrite IH by auto. apply Nat.eqb_eq in H1. rewrite H1. reflexivity.
Qed.

Lemma tri_of_shape : forall n M, rectb n n M = true -> trishapeb n (tri_of n M) = true.
Proof.
  induction n as [|n IH]; intros M H.
  - destruct M; auto.
  - apply rectb_S in H as (a & b & rows & -> & Lb & Hr). simpl.
    rewrite zipw_length by (rewrite (rectb_hd_length n (S n) _ rows Hr); exact Lb).
    rewrite Lb, Nat.eqb_refl. simpl. apply IH, rectb_tl; auto.
Qed.

Lemma tri_of_quad : forall n M, rectb n n M = true -> forall x, length x = n ->
  tquad (Q2Rm (tri_of n M)) x = Rquad (Q2Rm M) x.
Proof.
  induction n as [|n IH]; intros M H x Lx.
  - destruct x; try discriminate. destruct M; reflexivity.
  - apply rectb_S in H as (a & b & rows & -> & Lb & Hr).
    destruct x as [|x0 y]; try discriminate. injection Lx as Ly.
    simpl. rewrite (IH _ (rectb_tl _ _ _ Hr) y Ly).
    rewrite Rdot_zipw_plus by (rewrite (rectb_hd_length n (S n) _ rows Hr); exact Lb).
    unfold Rquad. simpl.
    assert (NE : forallb (fun r => negb (Nat.eqb (length r) 0)) (Q2Rm rows) = true).
    { pose proof (rect_nonempty _ _ _ Hr) as NE. clear -NE.
      induction rows as [|r rows IH]; simpl in *; auto.
      apply andb_true_iff in NE as [N1 N2]. rewrite map_length, N1. simpl. auto. }
    rewrite (split_rows x0 y (Q2Rm rows) y NE), Q2Rm_hd, Q2Rm_tl. ring.
Qed.

(** * Soundness of the certificates *)
Theorem ldl_pd_sound : forall n M, ldl_pd n M = true ->
  forall x, length x = n -> ~ Forall (fun v => v = 0) x -> 0 < Rquad (Q2Rm M) x.
Proof.
  intros n M H x Lx Hx. unfold ldl_pd in H. apply andb_true_iff in H as [Hr Hp].
  rewrite <- (tri_of_quad n M Hr x Lx).
  destruct (pd_form_sound n _ (tri_of_shape n M Hr) Hp x Lx) as [P0 Pz].
  destruct (Rle_lt_or_eq_dec _ _ P0) as [L|E]; auto. exfalso. apply Hx, Pz. auto.
Qed.

Theorem ldl_psd_sound : forall n M, ldl_psd n M = true ->
  forall x, length x = n -> 0 <= Rquad (Q2Rm M) x.
Proof.
  intros n M H x Lx. unfold ldl_psd in H. apply andb_true_iff in H as [Hr Hp].
  rewrite <- (tri_of_quad n M Hr x Lx).
  exact (psd_form_sound n _ (tri_of_shape n M Hr) Hp x Lx).
Qed.

Lemma tri_shift_shape r : forall n U, trishapeb n U = true -> trishapeb n (tri_shift U r) = true.
Proof.
  induction n as [|n IH]; intros U H.
  - destruct U; try discriminate; reflexivity.
  - apply trishapeb_S in H as (a & c & U' & -> & Lc & H). simpl. rewrite Lc, Nat.eqb_refl. simpl. auto.
Qed.

Lemma tri_shift_quad r : forall n U, trishapeb n U = true -> forall x, length x = n ->
  tquad (Q2Rm (tri_shift U r)) x = tquad (Q2Rm U) x - Q2R r * Rdot x x.
Proof.
  induction n as [|n IH]; intros U H x Lx.
  - destruct x; try discriminate. destruct U; try discriminate. simpl. lra.
  - apply trishapeb_S in H as (a & c & U' & -> & Lc & H).
    destruct x as [|x0 y]; try discriminate. injection Lx as Ly.
    cbn [tri_shift map tquad Rdot]. fold (tri_shift U' r). rewrite (IH U' H y Ly), Q2R_red, Q2R_minus. ring.
Qed.

Theorem ldl_psd_shift_sound : forall n M r, ldl_psd_shift n M r = true ->
  forall x, length x = n -> Q2R r * Rdot x x <= Rquad (Q2Rm M) x.
Proof.
  intros n M r H x Lx. unfold ldl_psd_shift in H. apply andb_true_iff in H as [Hr Hp].
  pose proof (tri_of_shape n M Hr) as Hs.
  pose proof (psd_form_sound n _ (tri_shift_shape r n _ Hs) Hp x Lx) as P.
  rewrite (tri_shift_quad r n _ Hs x Lx), (tri_of_quad n M Hr x Lx) in P. lra.
Qed.

Example ldl_psd_shift_ex : ldl_psd_shift 2 [[2; -1]; [-1; 2]]%Q 1 = true /\ ldl_psd_shift 2 [[2; -1]; [-1; 2]]%Q (11 # 10) = false.
Proof. split; reflexivity. Qed.

(** the certificate is not vacuous: [[2,-1],[-1,2]] is accepted, [[1,2],[2,1]] is rejected,
    and the singular [[1,1],[1,1]] is positive semi-definite only *)
Example ldl_pd_accepts : ldl_pd 2 [[2; -1]; [-1; 2]]%Q = true. Proof. reflexivity. Qed.
Example ldl_pd_rejects : ldl_pd 2 [[1; 2]; [2; 1]]%Q = false. Proof. reflexivity. Qed.
Example ldl_psd_singular : ldl_psd 2 [[1; 1]; [1; 1]]%Q = true /\ ldl_pd 2 [[1; 1]; [1; 1]]%Q = false.
Proof. split; reflexivity. Qed.
Example ldl_pivots_ex : ldl_pivots 2 [[2; -1]; [-1; 2]]%Q = [2; 3 # 2]%Q. Proof. reflexivity. Qed.
