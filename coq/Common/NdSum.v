(** ndarray 0.15.6 summation orders (numeric_util.rs): `unrolled_fold` behind `.sum()` /
    `.mean()` on contiguous data, and the plain sequential fold of `Iterator::sum` / `Zip::fold`. *)
From Coq Require Import List Reals Lra.
From LinfaVerif Require Import Common.Num.
Import ListNotations.

Section NdSum.
Context {F : Type} (o : NumOps F).

Definition seq_sum (xs : list F) : F := fold_left (add o) xs (zero o).

Fixpoint chunks8 (xs : list F) (p : list F) {struct xs} : list F * list F :=
  match xs with
  | x0 :: x1 :: x2 :: x3 :: x4 :: x5 :: x6 :: x7 :: t =>
      chunks8 t (map (fun q => add o (fst q) (snd q)) (combine p [x0; x1; x2; x3; x4; x5; x6; x7]))
  | _ => (p, xs)
  end.

Definition usum (xs : list F) : F :=
  let z := zero o in
  let '(p, rest) := chunks8 xs [z; z; z; z; z; z; z; z] in
  match p with
  | [p0; p1; p2; p3; p4; p5; p6; p7] =>
      let acc := add o z (add o p0 p4) in
      let acc := add o acc (add o p1 p5) in
      let acc := add o acc (add o p2 p6) in
      let acc := add o acc (add o p3 p7) in
      fold_left (add o) rest acc
  | _ => z
  end.
End NdSum.
