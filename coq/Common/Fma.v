(** Fused multiply-add (Rust `f64::mul_add` / `f32::mul_add`, IEEE-754 fusedMultiplyAdd, round to
    nearest even) on top of the standard library's SpecFloat: the product and the sum are formed
    exactly over Z and rounded once by [binary_normalize].  Needed by every model that runs
    ndarray's Welford `var_axis` / `std_axis` bit for bit (the update there is
    `sum_sq = (x - mean).mul_add(delta, sum_sq)`).  Validated against the hardware on every run of
    the C16 check (self-test cases). *)
From Coq Require Import ZArith SpecFloat Floats Bool.
From LinfaVerif Require Import Common.Num Common.B32.

Definition SFfma (prec emax : Z) (a b c : spec_float) : spec_float :=
  match a, b, c with
  | S754_finite sa ma ea, S754_finite sb mb eb, S754_finite sc mc ec =>
      let ep := (ea + eb)%Z in
      let e := Z.min ep ec in
      let zp := ((if xorb sa sb then Zneg (ma * mb) else Zpos (ma * mb)) * 2 ^ (ep - e))%Z in
      let zc := ((if sc then Zneg mc else Zpos mc) * 2 ^ (ec - e))%Z in
      (* exact cancellation gives +0 in round-to-nearest *)
      binary_normalize prec emax (zp + zc) e false
  | S754_finite _ _ _, S754_finite _ _ _, S754_zero _ =>
      (* the exact product is non-zero: rounding it once is the product operation itself *)
      SFmul prec emax a b
  | _, _, _ =>
      (* a zero, infinite or NaN factor makes the product exact: two steps round once *)
      SFadd prec emax (SFmul prec emax a b) c
  end.

Definition fma64 (a b c : float) : float :=
  SF2Prim (SFfma 53 1024 (Prim2SF a) (Prim2SF b) (Prim2SF c)).

Definition fma32 (a b c : spec_float) : spec_float := SFfma p32 e32 a b c.
