(** Exact rational value of IEEE floats (every finite float is a dyadic rational), for the
    pattern-B checkers that recompute optimality conditions in exact arithmetic. *)
From Coq Require Import ZArith QArith Qreals Reals Floats SpecFloat List Lra.
From LinfaVerif Require Import Common.Num.
Import ListNotations.

Definition Qpow2 (e : Z) : Q :=
  match e with
  | Z0 => 1
  | Zpos p => inject_Z (Z.pow_pos 2 p)
  | Zneg p => 1 # (Pos.pow 2 p)
  end.

Definition SF2Q (x : spec_float) : option Q :=
  match x with
  | S754_zero _ => Some 0%Q
  | S754_finite s m e => Some (Qred (inject_Z (if s then Zneg m else Zpos m) * Qpow2 e))
  | _ => None
  end.

Definition f64_to_Q (x : float) : option Q := SF2Q (Prim2SF x).

(** total versions for data known to be finite (non-finite values map to 0 and must be rejected
    by an explicit finiteness check of the checker that uses them) *)
Definition SF2Qd (x : spec_float) : Q := match SF2Q x with Some q => q | None => 0%Q end.
Definition f64_Q (x : float) : Q := SF2Qd (Prim2SF x).
Definition sf_finite (x : spec_float) : bool :=
  match x with S754_zero _ | S754_finite _ _ _ => true | _ => false end.
Definition f64_finite (x : float) : bool := sf_finite (Prim2SF x).

(** boolean comparisons on Q with their real-number meaning *)
Definition Qleb (a b : Q) : bool := Qle_bool a b.
Definition Qltb (a b : Q) : bool := negb (Qle_bool b a).

Lemma Qleb_R a b : Qleb a b = true -> (Q2R a <= Q2R b)%R.
Proof. unfold Qleb; intros H; apply Qle_Rle; apply Qle_bool_iff; exact H. Qed.
Lemma Qltb_R a b : Qltb a b = true -> (Q2R a < Q2R b)%R.
Proof.
  unfold Qltb; intros H; apply Qlt_Rlt. apply Qnot_le_lt. intro C.
  apply Qle_bool_iff in C. rewrite C in H. discriminate.
Qed.
Lemma Qeq_bool_R a b : Qeq_bool a b = true -> Q2R a = Q2R b.
Proof. intros H; apply Qeq_eqR; apply Qeq_bool_iff; exact H. Qed.

Definition Qabs' (a : Q) : Q := if Qle_bool 0 a then a else Qopp a.
Lemma Qabs'_R a : Q2R (Qabs' a) = Rabs (Q2R a).
Proof.
  unfold Qabs'. destruct (Qle_bool 0 a) eqn:E.
  - apply Qle_bool_iff in E. apply Qle_Rle in E. rewrite RMicromega.Q2R_0 in E.
    rewrite Rabs_right; auto; lra.
  - assert (H : (a < 0)%Q). { apply Qnot_le_lt. intro C. apply Qle_bool_iff in C. congruence. }
    apply Qlt_Rlt in H. rewrite RMicromega.Q2R_0 in H. rewrite Q2R_opp, Rabs_left; auto.
Qed.

(** sums and dot products over Q with their Q2R images *)
Definition Qsum (l : list Q) : Q := fold_right Qplus 0%Q l.
Fixpoint Qdot (a b : list Q) : Q :=
  match a, b with x :: a', y :: b' => (x * y + Qdot a' b')%Q | _, _ => 0%Q end.
Definition Rsum (l : list R) : R := fold_right Rplus 0%R l.
Fixpoint Rdot (a b : list R) : R :=
  match a, b with x :: a', y :: b' => (x * y + Rdot a' b')%R | _, _ => 0%R end.

Lemma Q2R_sum l : Q2R (Qsum l) = Rsum (map Q2R l).
Proof. induction l as [|a l IH]; simpl; [apply RMicromega.Q2R_0 | rewrite Q2R_plus, IH; auto]. Qed.
Lemma Q2R_dot a : forall b, Q2R (Qdot a b) = Rdot (map Q2R a) (map Q2R b).
Proof.
  induction a as [|x a IH]; intros [|y b]; simpl; try apply RMicromega.Q2R_0.
  rewrite Q2R_plus, Q2R_mult, IH; auto.
Qed.
