(** First-order optimality up to eps implies eps-optimality, for penalised linear least squares

        F(theta) = 1/2 |y - sum_j theta_j col_j|^2 + sum_j (l1_j |theta_j| + l2_j/2 theta_j^2)

    over list vectors, the design given by its columns (no matrix library: the adjoint identity
    <r, sum_j d_j col_j> = sum_j d_j <col_j, r> is an induction over the columns).
    Used by C11 (OLS / elastic net: an unpenalised column of ones is the intercept). *)
From Coq Require Import List Reals Lra Lia Psatz.
From LinfaVerif Require Import Common.QF.
Import ListNotations.
Local Open Scope R_scope.

(** * list vectors *)
Definition vadd (a b : list R) : list R := map (fun p => fst p + snd p) (combine a b).
Definition vscale (c : R) (a : list R) : list R := map (Rmult c) a.
Definition vsub (a b : list R) : list R := vadd a (vscale (-1) b).
Definition sq (a : list R) : R := Rdot a a.

Fixpoint lin (n : nat) (cols : list (list R)) (th : list R) : list R :=
  match cols, th with
  | c :: cols', t :: th' => vadd (vscale t c) (lin n cols' th')
  | _, _ => repeat 0 n
  end.

Definition residual (cols : list (list R)) (y th : list R) : list R := vsub y (lin (length y) cols th).

Lemma vadd_length a b : length a = length b -> length (vadd a b) = length a.
Proof. intros H. unfold vadd. rewrite map_length, combine_length. lia. Qed.
Lemma vscale_length c a : length (vscale c a) = length a.
Proof. apply map_length. Qed.
Lemma vsub_length a b : length a = length b -> length (vsub a b) = length a.
Proof. intros H. unfold vsub. apply vadd_length. now rewrite vscale_length. Qed.

Lemma lin_length n cols : forall th, Forall (fun c => length c = n) cols -> length (lin n cols th) = n.
Proof.
  induction cols as [|c cols IH]; intros th H; simpl; [apply repeat_length|].
  destruct th as [|t th]; [apply repeat_length|].
  inversion H as [|? ? Hc Hr]; subst.
  rewrite vadd_length; rewrite vscale_length; auto. now rewrite IH.
Qed.

Lemma Rdot_comm a : forall b, Rdot a b = Rdot b a.
Proof. induction a as [|x a IH]; intros [|y b]; simpl; auto. rewrite IH. ring. Qed.
Lemma Rdot_vadd_l a : forall b c, length a = length b -> Rdot (vadd a b) c = Rdot a c + Rdot b c.
Proof.
  induction a as [|x a IH]; intros [|y b] c H; simpl in *; try discriminate; try lra.
  destruct c as [|z c]; simpl; [lra|]. unfold vadd in IH. rewrite IH by lia. ring.
Qed.
Lemma Rdot_vscale_l k a : forall c, Rdot (vscale k a) c = k * Rdot a c.
Proof.
  induction a as [|x a IH]; intros [|z c]; simpl; try lra. unfold vscale in IH. rewrite IH. ring.
Qed.
Lemma Rdot_repeat0_l n : forall c, Rdot (repeat 0 n) c = 0.
Proof. induction n; intros [|z c]; simpl; try lra. rewrite IHn. ring. Qed.
Lemma Rdot_vadd_r c a b : length a = length b -> Rdot c (vadd a b) = Rdot c a + Rdot c b.
Proof. intros H. rewrite Rdot_comm, Rdot_vadd_l by auto. now rewrite (Rdot_comm a), (Rdot_comm b). Qed.
Lemma sq_nonneg a : 0 <= sq a.
Proof. unfold sq. induction a; simpl; nra. Qed.

(** adjoint identity in column form *)
Lemma Rdot_lin n cols : forall d r, Forall (fun c => length c = n) cols ->
  Rdot (lin n cols d) r = Rdot d (map (fun c => Rdot c r) cols).
Proof.
  induction cols as [|c cols IH]; intros d r H; simpl.
  - rewrite Rdot_repeat0_l. now destruct d.
  - destruct d as [|t d]; simpl; [apply Rdot_repeat0_l|].
    inversion H as [|? ? Hc Hr]; subst.
    rewrite Rdot_vadd_l by (rewrite vscale_length, lin_length; auto).
    rewrite Rdot_vscale_l, IH by auto. ring.
Qed.

(** linearity of [lin] in the coefficients (same lengths) *)
Lemma lin_vadd n cols : forall a b, length a = length cols -> length b = length cols ->
  Forall (fun c => length c = n) cols ->
  lin n cols (vadd a b) = vadd (lin n cols a) (lin n cols b).
Proof.
  induction cols as [|c cols IH]; intros a b Ha Hb H.
  - destruct a, b; try discriminate. simpl. unfold vadd.
    clear H. induction n as [|n IHn]; simpl; [reflexivity|]. f_equal; [lra|exact IHn].
  - destruct a as [|x a], b as [|z b]; try discriminate. simpl in Ha, Hb.
    inversion H as [|? ? Hc Hr]; subst. simpl. fold (vadd a b). rewrite IH by (auto; lia).
    assert (L1 : length (lin (length c) cols a) = length c) by (apply lin_length; auto).
    assert (L2 : length (lin (length c) cols b) = length c) by (apply lin_length; auto).
    generalize dependent (lin (length c) cols a). generalize dependent (lin (length c) cols b).
    clear. intros u Lu v Lv. revert u v Lu Lv. unfold vadd, vscale.
    induction c as [|q c IHc]; intros [|u0 u] [|v0 v] Lu Lv; simpl in *; try discriminate; auto.
    f_equal; [lra|]. apply IHc; lia.
Qed.

(** * the quadratic part: moving from theta to theta + d *)
Lemma quad_lower_bound n cols r d : Forall (fun c => length c = n) cols -> length r = n ->
  / 2 * sq (vsub r (lin n cols d)) >= / 2 * sq r - Rdot d (map (fun c => Rdot c r) cols).
Proof.
  intros H Hr. unfold sq, vsub.
  assert (Hl : length (lin n cols d) = n) by (apply lin_length; auto).
  set (u := lin n cols d) in *.
  assert (Hs : length r = length (vscale (-1) u)) by (rewrite vscale_length; lia).
  rewrite Rdot_vadd_l by auto. rewrite !Rdot_vadd_r by auto.
  rewrite !Rdot_vscale_l. rewrite (Rdot_comm r (vscale (-1) u)), !Rdot_vscale_l.
  rewrite (Rdot_comm u (vscale (-1) u)), Rdot_vscale_l.
  unfold u at 1 2. rewrite (Rdot_lin n cols d r H).
  pose proof (sq_nonneg u) as Hn. unfold sq in Hn. fold u. lra.
Qed.

(** * one coordinate *)
(** first-order condition of coordinate theta with correlation c = <col, residual> *)
Definition coord_cond (c l1 l2 th eps : R) : Prop :=
  let g := c - l2 * th in
  (0 < th -> Rabs (g - l1) <= eps) /\ (th < 0 -> Rabs (g + l1) <= eps) /\ (th = 0 -> Rabs g <= l1 + eps).

Definition pen1 (l1 l2 th : R) : R := l1 * Rabs th + l2 / 2 * (th * th).

Lemma coord_ineq c l1 l2 th eps th' : 0 <= l1 -> 0 <= l2 -> coord_cond c l1 l2 th eps ->
  pen1 l1 l2 th' - pen1 l1 l2 th - (th' - th) * c >= - (eps * Rabs (th' - th)).
Proof.
  intros H1 H2 (Hp & Hn & Hz). unfold pen1.
  set (d := th' - th).
  assert (Hq : l2 / 2 * (th' * th') - l2 / 2 * (th * th) >= l2 * th * d).
  { unfold d.
    assert (E : l2 / 2 * (th' * th') - l2 / 2 * (th * th) - l2 * th * (th' - th)
                = l2 / 2 * ((th' - th) * (th' - th))) by field.
    assert (0 <= l2 / 2 * ((th' - th) * (th' - th))) by (apply Rmult_le_pos; [lra|apply Rle_0_sqr]). lra. }
  destruct (Rtotal_order th 0) as [Hlt | [Heq | Hgt]].
  - specialize (Hn Hlt). rewrite (Rabs_left th) by lra.
    assert (Ha : Rabs th' >= - th') by (unfold Rabs; destruct (Rcase_abs th'); lra).
    assert (Hb : - (d * (c - l2 * th + l1)) >= - (eps * Rabs d)).
    { unfold Rabs in Hn |- *.
      destruct (Rcase_abs (c - l2 * th + l1)), (Rcase_abs d); nra. }
    unfold d in *. nra.
  - subst th. specialize (Hz eq_refl). rewrite Rabs_R0.
    replace (c - l2 * 0) with c in Hz by ring. unfold d in *.
    replace (th' - 0) with th' in * by ring.
    unfold Rabs in Hz |- *. destruct (Rcase_abs c), (Rcase_abs th'); nra.
  - specialize (Hp Hgt). rewrite (Rabs_right th) by lra.
    assert (Ha : Rabs th' >= th') by (unfold Rabs; destruct (Rcase_abs th'); lra).
    assert (Hb : - (d * (c - l2 * th - l1)) >= - (eps * Rabs d)).
    { unfold Rabs in Hp |- *.
      destruct (Rcase_abs (c - l2 * th - l1)), (Rcase_abs d); nra. }
    unfold d in *. nra.
Qed.

(** * all coordinates *)
Fixpoint pen (l1s l2s th : list R) : R :=
  match l1s, l2s, th with
  | a :: l1s', b :: l2s', t :: th' => pen1 a b t + pen l1s' l2s' th'
  | _, _, _ => 0
  end.

(** conditions of all coordinates, including equal lengths and non-negative penalties / tolerances *)
Fixpoint kkt_all (cs l1s l2s th eps : list R) : Prop :=
  match cs, l1s, l2s, th, eps with
  | c :: cs', a :: l1s', b :: l2s', t :: th', e :: eps' =>
      0 <= a /\ 0 <= b /\ 0 <= e /\ coord_cond c a b t e /\ kkt_all cs' l1s' l2s' th' eps'
  | [], [], [], [], [] => True
  | _, _, _, _, _ => False
  end.

Definition absdiff (a b : list R) : list R := map (fun p => Rabs (fst p - snd p)) (combine a b).

Lemma kkt_all_length cs : forall l1s l2s th eps, kkt_all cs l1s l2s th eps ->
  length l1s = length cs /\ length l2s = length cs /\ length th = length cs /\ length eps = length cs.
Proof.
  induction cs as [|c cs IH]; intros [|a l1s] [|b l2s] [|t th] [|e eps] H; simpl in H; try contradiction; auto.
  destruct H as (_ & _ & _ & _ & H). destruct (IH _ _ _ _ H) as (A & B & C & D). simpl. lia.
Qed.

Lemma pen_lower_bound cs : forall l1s l2s th eps th', kkt_all cs l1s l2s th eps -> length th' = length th ->
  pen l1s l2s th' - pen l1s l2s th - Rdot (vsub th' th) cs >= - Rdot eps (absdiff th' th).
Proof.
  induction cs as [|c cs IH]; intros [|a l1s] [|b l2s] [|t th] [|e eps] th' H L; simpl in H; try contradiction.
  - destruct th'; try discriminate. simpl. lra.
  - destruct th' as [|t' th']; try discriminate. simpl in L.
    destruct H as (Ha & Hb & He & Hc & H).
    specialize (IH l1s l2s th eps th' H ltac:(lia)).
    pose proof (coord_ineq c a b t e t' Ha Hb Hc) as H1.
    unfold vsub, vadd, vscale, absdiff in *. simpl.
    replace (t' + -1 * t) with (t' - t) by ring. lra.
Qed.

(** * the theorem *)
Definition objective (cols : list (list R)) (y l1s l2s th : list R) : R :=
  / 2 * sq (residual cols y th) + pen l1s l2s th.

Lemma residual_shift cols y th th' : Forall (fun c => length c = length y) cols ->
  length th = length cols -> length th' = length cols ->
  residual cols y th' = vsub (residual cols y th) (lin (length y) cols (vsub th' th)).
Proof.
  intros H L L'. unfold residual.
  assert (E : th' = vadd th (vsub th' th)).
  { clear H. revert th' L'. rewrite <- L. clear L.
    induction th as [|t th IH]; intros [|t' th'] L'; simpl in *; try discriminate; auto.
    unfold vsub, vadd, vscale in *. simpl. f_equal; [lra|]. apply IH. lia. }
  rewrite E at 1.
  assert (Ls : length (vsub th' th) = length cols) by (rewrite vsub_length; lia).
  rewrite (lin_vadd (length y) cols th (vsub th' th) L Ls H).
  set (n := length y) in *.
  assert (L1 : length (lin n cols th) = n) by (apply lin_length; auto).
  assert (L2 : length (lin n cols (vsub th' th)) = n) by (apply lin_length; auto).
  generalize dependent (lin n cols th). generalize dependent (lin n cols (vsub th' th)).
  intros u Lu v Lv. clear - Lu Lv. subst n. revert u v Lu Lv.
  induction y as [|y0 y IH]; intros [|u0 u] [|v0 v] Lu Lv; simpl in *; try discriminate; auto.
  unfold vsub, vadd, vscale in *. simpl. f_equal; [lra|]. apply IH; lia.
Qed.

Theorem kkt_eps_optimal : forall cols y l1s l2s eps th th',
  Forall (fun c => length c = length y) cols ->
  kkt_all (map (fun c => Rdot c (residual cols y th)) cols) l1s l2s th eps ->
  length th' = length th ->
  objective cols y l1s l2s th' >= objective cols y l1s l2s th - Rdot eps (absdiff th' th).
Proof.
  intros cols y l1s l2s eps th th' H K L.
  destruct (kkt_all_length _ _ _ _ _ K) as (_ & _ & Lt & _). rewrite map_length in Lt.
  unfold objective.
  rewrite (residual_shift cols y th th' H Lt ltac:(lia)).
  set (r := residual cols y th) in *.
  assert (Hr : length r = length y).
  { unfold r, residual. rewrite vsub_length; auto. now rewrite lin_length. }
  pose proof (quad_lower_bound (length y) cols r (vsub th' th) H Hr) as Q.
  pose proof (pen_lower_bound _ _ _ _ _ th' K L) as P.
  lra.
Qed.

(** exact conditions: a global minimiser *)
Corollary kkt_optimal : forall cols y l1s l2s th th',
  Forall (fun c => length c = length y) cols ->
  kkt_all (map (fun c => Rdot c (residual cols y th)) cols) l1s l2s th (repeat 0 (length th)) ->
  length th' = length th ->
  objective cols y l1s l2s th' >= objective cols y l1s l2s th.
Proof.
  intros cols y l1s l2s th th' H K L.
  pose proof (kkt_eps_optimal cols y l1s l2s _ th th' H K L) as E.
  assert (Z : forall n v, Rdot (repeat 0 n) v = 0) by (intros; apply Rdot_repeat0_l).
  rewrite Z in E. lra.
Qed.

(* ------------------------------------------------------------------------------------------- *)
(** * group (l2,1) penalties: several tasks share the design, the rows of the coefficient matrix are penalised by their Euclidean norm *)
Definition norm (v : list R) : R := sqrt (sq v).

Lemma sq_vadd_scale t : forall a b, length a = length b ->
  sq (vadd a (vscale t b)) = sq a + 2 * t * Rdot a b + t * t * sq b.
Proof.
  unfold sq, vadd, vscale. induction a as [|x a IH]; intros [|y b] L; simpl in *; try discriminate; try lra.
  rewrite IH by lia. ring.
Qed.

Lemma sq_zero_dot : forall a b, length a = length b -> sq b = 0 -> Rdot a b = 0.
Proof.
  unfold sq. induction a as [|x a IH]; intros [|y b] L H; simpl in *; try discriminate; auto.
  assert (0 <= Rdot b b) by (apply (sq_nonneg b)).
  assert (0 <= y * y) by apply Rle_0_sqr.
  assert (y * y = 0) by lra. assert (y = 0) by nra. subst y.
  rewrite IH; try lia; try lra.
Qed.

Lemma cauchy_schwarz a b : length a = length b -> Rdot a b * Rdot a b <= sq a * sq b.
Proof.
  intros L. pose proof (sq_nonneg b) as Hb. destruct (Req_dec (sq b) 0) as [Z | NZ].
  - rewrite (sq_zero_dot a b L Z), Z. lra.
  - assert (P : 0 < sq b) by lra.
    pose proof (sq_nonneg (vadd a (vscale (- Rdot a b / sq b) b))) as Q.
    rewrite sq_vadd_scale in Q by auto.
    assert (E : sq a + 2 * (- Rdot a b / sq b) * Rdot a b + - Rdot a b / sq b * (- Rdot a b / sq b) * sq b
                = sq a - Rdot a b * Rdot a b / sq b) by (field; lra).
    rewrite E in Q.
    assert (Rdot a b * Rdot a b / sq b <= sq a) by lra.
    apply Rmult_le_compat_r with (r := sq b) in H; [|lra].
    replace (Rdot a b * Rdot a b / sq b * sq b) with (Rdot a b * Rdot a b) in H by (field; lra). lra.
Qed.

Lemma norm_nonneg v : 0 <= norm v.
Proof. apply sqrt_pos. Qed.
Lemma norm_sq v : norm v * norm v = sq v.
Proof. unfold norm. apply sqrt_sqrt. apply sq_nonneg. Qed.

Lemma dot_le_norms a b : length a = length b -> Rdot a b <= norm a * norm b.
Proof.
  intros L. pose proof (cauchy_schwarz a b L) as C.
  pose proof (norm_nonneg a). pose proof (norm_nonneg b).
  rewrite <- (norm_sq a), <- (norm_sq b) in C.
  destruct (Rle_dec (Rdot a b) 0); [nra|].
  assert (0 < Rdot a b) by lra.
  assert (Hs : Rdot a b * Rdot a b <= (norm a * norm b) * (norm a * norm b)) by lra.
  set (x := Rdot a b) in *. set (y := norm a * norm b) in *.
  assert (0 <= y) by (unfold y; apply Rmult_le_pos; auto).
  destruct (Rle_dec x y); auto. exfalso.
  assert (0 < (x - y) * (x + y)) by (apply Rmult_lt_0_compat; lra). lra.
Qed.

(** first-order condition of one row (group) with correlation vector C = (<col, R_k>)_k *)
Definition group_cond (C : list R) (l1 l2 : R) (row : list R) (eps : R) : Prop :=
  let G := vsub C (vscale l2 row) in
  (sq row = 0 -> norm G <= l1 + eps) /\
  (sq row <> 0 -> norm (vsub G (vscale (l1 / norm row) row)) <= eps).

Definition gpen1 (l1 l2 : R) (row : list R) : R := l1 * norm row + l2 / 2 * sq row.

Lemma sq_zero_all : forall v, sq v = 0 -> forall u, length u = length v -> Rdot u v = 0.
Proof. intros v H u L. apply sq_zero_dot; auto. Qed.

Lemma vsub_self_dot a : forall b c, length a = length b -> length c = length a ->
  Rdot (vsub a b) c = Rdot a c - Rdot b c.
Proof.
  intros b c L L2. unfold vsub. rewrite Rdot_vadd_l by (rewrite vscale_length; auto).
  rewrite Rdot_vscale_l. lra.
Qed.

Lemma sq_vsub a b : length a = length b -> sq (vsub a b) = sq a - 2 * Rdot a b + sq b.
Proof.
  intros L. unfold vsub. rewrite sq_vadd_scale by auto. lra.
Qed.

Lemma group_ineq C l1 l2 row eps row' :
  0 <= l1 -> 0 <= l2 -> length C = length row -> length row' = length row ->
  group_cond C l1 l2 row eps ->
  gpen1 l1 l2 row' - gpen1 l1 l2 row - Rdot (vsub row' row) C >= - (eps * norm (vsub row' row)).
Proof.
  intros H1 H2 LC L' [Hz Hnz]. unfold gpen1.
  set (D := vsub row' row).
  assert (LD : length D = length row) by (unfold D; rewrite vsub_length; lia).
  (* ridge part *)
  assert (Hq : l2 / 2 * sq row' - l2 / 2 * sq row >= l2 * Rdot D row).
  { assert (E : sq row' = sq row + 2 * Rdot D row + sq D).
    { unfold D. rewrite sq_vsub by auto. rewrite vsub_self_dot by auto.
      rewrite (Rdot_comm row' row). unfold sq. lra. }
    pose proof (sq_nonneg D). rewrite E. nra. }
  set (G := vsub C (vscale l2 row)) in *.
  assert (LG : length G = length row) by (unfold G; rewrite vsub_length; rewrite ?vscale_length; lia).
  assert (EG : Rdot D C = Rdot D G + l2 * Rdot D row).
  { unfold G. rewrite (Rdot_comm D (vsub _ _)), vsub_self_dot by (rewrite ?vscale_length; lia).
    rewrite Rdot_vscale_l, (Rdot_comm C D), (Rdot_comm row D). lra. }
  destruct (Req_dec (sq row) 0) as [Z | NZ].
  - specialize (Hz Z).
    assert (Nr : norm row = 0) by (unfold norm; rewrite Z; apply sqrt_0).
    (* row = 0 as far as dot products are concerned: row' and D have the same norm *)
    assert (Dr : Rdot D row = 0) by (apply sq_zero_dot; auto).
    assert (ED : sq D = sq row').
    { unfold D. rewrite sq_vsub by auto. rewrite (sq_zero_dot row' row) by auto. lra. }
    assert (ND : norm D = norm row') by (unfold norm; now rewrite ED).
    pose proof (dot_le_norms D G ltac:(lia)) as CS.
    pose proof (norm_nonneg D). pose proof (norm_nonneg G). rewrite Nr, Z. rewrite <- ND. nra.
  - specialize (Hnz NZ).
    assert (Pn : 0 < norm row).
    { pose proof (norm_nonneg row). pose proof (norm_sq row). pose proof (sq_nonneg row).
      destruct (Req_dec (norm row) 0) as [E|E]; [rewrite E in *; lra | lra]. }
    set (u := vscale (l1 / norm row) row) in *.
    (* |row'| >= <row, row'> / |row| *)
    pose proof (dot_le_norms row row' ltac:(lia)) as CS1.
    assert (Hn : l1 * norm row' - l1 * norm row >= Rdot D u).
    { unfold u. rewrite (Rdot_comm D (vscale _ _)), Rdot_vscale_l.
      unfold D. rewrite (Rdot_comm row (vsub row' row)), vsub_self_dot by lia.
      rewrite (Rdot_comm row' row). fold (sq row). rewrite <- (norm_sq row).
      assert (Rdot row row' / norm row <= norm row').
      { apply Rmult_le_reg_r with (norm row); auto. unfold Rdiv. rewrite Rmult_assoc, Rinv_l by lra. lra. }
      unfold Rdiv in *.
      replace (l1 * / norm row * (Rdot row row' - norm row * norm row))
        with (l1 * (Rdot row row' * / norm row) - l1 * norm row) by (field; lra).
      nra. }
    pose proof (dot_le_norms D (vsub G u) ltac:(unfold u; rewrite vsub_length; rewrite ?vscale_length; lia)) as CS2.
    rewrite (Rdot_comm D (vsub G u)), vsub_self_dot in CS2 by (unfold u; rewrite ?vscale_length; lia).
    rewrite (Rdot_comm G D), (Rdot_comm u D) in CS2.
    pose proof (norm_nonneg D). nra.
Qed.

(** * several tasks *)
Fixpoint trans (p : nat) (M : list (list R)) : list (list R) :=
  match p with
  | O => []
  | S p' => map (hd 0) M :: trans p' (map (@tl R) M)
  end.

Fixpoint fdot (A B : list (list R)) : R :=
  match A, B with
  | a :: A', b :: B' => Rdot a b + fdot A' B'
  | _, _ => 0
  end.

Lemma trans_length p : forall M, length (trans p M) = p.
Proof. induction p; intros M; simpl; auto. Qed.
Lemma trans_rows p : forall M, Forall (fun r => length r = length M) (trans p M).
Proof.
  induction p as [|p IH]; intros M; simpl; constructor.
  - apply map_length.
  - specialize (IH (map (@tl R) M)). rewrite map_length in IH. exact IH.
Qed.

Lemma fdot_nil_rows : forall A B, Forall (fun a => a = []) A -> fdot A B = 0.
Proof.
  induction A as [|a A IH]; intros [|b B] H; simpl; auto.
  inversion H; subst. simpl. rewrite IH by auto. lra.
Qed.

Lemma fdot_hd_tl : forall A B, length A = length B ->
  (forall a, In a A -> a <> []) -> (forall b, In b B -> b <> []) ->
  fdot A B = Rdot (map (hd 0) A) (map (hd 0) B) + fdot (map (@tl R) A) (map (@tl R) B).
Proof.
  induction A as [|a A IH]; intros [|b B] L HA HB; simpl in *; try discriminate; try lra.
  rewrite IH by (auto; lia).
  destruct a as [|x a]; [exfalso; apply (HA [] (or_introl eq_refl)); reflexivity|].
  destruct b as [|y b]; [exfalso; apply (HB [] (or_introl eq_refl)); reflexivity|].
  simpl. lra.
Qed.

Lemma fdot_trans p : forall A B, length A = length B ->
  Forall (fun a => length a = p) A -> Forall (fun b => length b = p) B ->
  fdot A B = fdot (trans p A) (trans p B).
Proof.
  induction p as [|p IH]; intros A B L HA HB.
  - simpl. apply fdot_nil_rows. eapply Forall_impl; [|exact HA]. intros a Ha. now destruct a.
  - simpl. rewrite <- IH.
    + apply fdot_hd_tl; auto.
      * intros a Ha E. rewrite Forall_forall in HA. specialize (HA a Ha). subst a. discriminate.
      * intros b Hb E. rewrite Forall_forall in HB. specialize (HB b Hb). subst b. discriminate.
    + now rewrite !map_length.
    + apply Forall_map. eapply Forall_impl; [|exact HA]. intros a Ha. destruct a; simpl in *; [discriminate|lia].
    + apply Forall_map. eapply Forall_impl; [|exact HB]. intros a Ha. destruct a; simpl in *; [discriminate|lia].
Qed.

Fixpoint map2l (f : list R -> list R -> list R) (A B : list (list R)) : list (list R) :=
  match A, B with
  | a :: A', b :: B' => f a b :: map2l f A' B'
  | _, _ => []
  end.

Lemma hd_vsub a b : a <> [] -> b <> [] -> hd 0 (vsub a b) = hd 0 a - hd 0 b.
Proof. destruct a, b; intros; try congruence. unfold vsub, vadd, vscale. simpl. lra. Qed.
Lemma tl_vsub a b : tl (vsub a b) = vsub (tl a) (tl b).
Proof. destruct a, b; unfold vsub, vadd, vscale; simpl; auto. destruct a; reflexivity. Qed.

Lemma hd_map2l_vsub A : forall B, length A = length B ->
  Forall (fun a => a <> []) A -> Forall (fun b => b <> []) B ->
  map (hd 0) (map2l vsub A B) = vsub (map (hd 0) A) (map (hd 0) B).
Proof.
  induction A as [|a A IH]; intros [|b B] L HA HB; simpl in *; try discriminate; auto.
  inversion HA; inversion HB; subst.
  rewrite IH by (auto; lia). rewrite hd_vsub by auto.
  unfold vsub, vadd, vscale. simpl. f_equal. lra.
Qed.

Lemma trans_vsub p : forall A B, length A = length B ->
  Forall (fun a => length a = p) A -> Forall (fun b => length b = p) B ->
  trans p (map2l vsub A B) = map2l vsub (trans p A) (trans p B).
Proof.
  induction p as [|p IH]; intros A B L HA HB; simpl; auto.
  f_equal.
  - apply hd_map2l_vsub; auto.
    + eapply Forall_impl; [|exact HA]. intros a Ha E. subst a. discriminate.
    + eapply Forall_impl; [|exact HB]. intros a Ha E. subst a. discriminate.
  - assert (E : map (@tl R) (map2l vsub A B) = map2l vsub (map (@tl R) A) (map (@tl R) B)).
    { clear. revert B. induction A as [|a A IHA]; intros [|b B]; simpl; auto. now rewrite tl_vsub, IHA. }
    rewrite E. apply IH.
    + now rewrite !map_length.
    + apply Forall_map. eapply Forall_impl; [|exact HA]. intros a Ha. destruct a; simpl in *; [discriminate|lia].
    + apply Forall_map. eapply Forall_impl; [|exact HB]. intros a Ha. destruct a; simpl in *; [discriminate|lia].
Qed.

(** per-task quadratic part *)
Lemma quad_task cols y th th' : Forall (fun c => length c = length y) cols ->
  length th = length cols -> length th' = length cols ->
  / 2 * sq (residual cols y th')
  >= / 2 * sq (residual cols y th) - Rdot (vsub th' th) (map (fun c => Rdot c (residual cols y th)) cols).
Proof.
  intros H L L'. rewrite (residual_shift cols y th th' H L L').
  apply quad_lower_bound; auto.
  unfold residual. rewrite vsub_length; auto. now rewrite lin_length.
Qed.

Fixpoint quad_tasks (cols : list (list R)) (Ys Ws : list (list R)) : R :=
  match Ys, Ws with
  | y :: Ys', w :: Ws' => / 2 * sq (residual cols y w) + quad_tasks cols Ys' Ws'
  | _, _ => 0
  end.
Fixpoint corr_tasks (cols : list (list R)) (Ys Ws : list (list R)) : list (list R) :=
  match Ys, Ws with
  | y :: Ys', w :: Ws' => map (fun c => Rdot c (residual cols y w)) cols :: corr_tasks cols Ys' Ws'
  | _, _ => []
  end.
Fixpoint gpen (l1 l2 : R) (rows : list (list R)) : R :=
  match rows with
  | r :: rs => gpen1 l1 l2 r + gpen l1 l2 rs
  | [] => 0
  end.

(** the multi-task objective (times n): sum over tasks of 1/2 |y_k - X w_k|^2 + l1 sum_j |W_j| + l2/2 |W|_F^2;
    [Ws] lists the coefficient vector of every task, the rows W_j are its transpose *)
Definition mobjective (cols Ys : list (list R)) (l1 l2 : R) (Ws : list (list R)) : R :=
  quad_tasks cols Ys Ws + gpen l1 l2 (trans (length cols) Ws).

Fixpoint group_all (Cs rows : list (list R)) (l1 l2 : R) (eps : list R) : Prop :=
  match Cs, rows, eps with
  | C :: Cs', r :: rows', e :: eps' =>
      0 <= e /\ length C = length r /\ group_cond C l1 l2 r e /\ group_all Cs' rows' l1 l2 eps'
  | [], [], [] => True
  | _, _, _ => False
  end.

Definition rowdist (rows' rows : list (list R)) : list R :=
  map (fun p => norm (vsub (fst p) (snd p))) (combine rows' rows).

Lemma quad_tasks_lower cols : forall Ys Ws Ws',
  Forall (fun y => Forall (fun c => length c = length y) cols) Ys ->
  length Ws = length Ys -> length Ws' = length Ys ->
  Forall (fun w => length w = length cols) Ws -> Forall (fun w => length w = length cols) Ws' ->
  quad_tasks cols Ys Ws' >= quad_tasks cols Ys Ws - fdot (map2l vsub Ws' Ws) (corr_tasks cols Ys Ws).
Proof.
  induction Ys as [|y Ys IH]; intros [|w Ws] [|w' Ws'] H L L' HW HW'; simpl in *; try discriminate; try lra.
  inversion H; inversion HW; inversion HW'; subst.
  specialize (IH Ws Ws' ltac:(auto) ltac:(lia) ltac:(lia) ltac:(auto) ltac:(auto)).
  pose proof (quad_task cols y w w' ltac:(auto) ltac:(auto) ltac:(auto)). lra.
Qed.

Lemma gpen_lower l1 l2 : 0 <= l1 -> 0 <= l2 -> forall Cs rows eps rows',
  group_all Cs rows l1 l2 eps -> length rows' = length rows ->
  Forall2 (fun r' r => length r' = length r) rows' rows ->
  gpen l1 l2 rows' - gpen l1 l2 rows - fdot (map2l vsub rows' rows) Cs >= - Rdot eps (rowdist rows' rows).
Proof.
  intros H1 H2. induction Cs as [|C Cs IH]; intros [|r rows] [|e eps] rows' K L F; simpl in K; try contradiction.
  - destruct rows'; try discriminate. simpl. lra.
  - destruct rows' as [|r' rows']; try discriminate. simpl in L.
    destruct K as (He & LC & Hc & K). inversion F; subst.
    specialize (IH rows eps rows' K ltac:(lia) ltac:(auto)).
    pose proof (group_ineq C l1 l2 r e r' H1 H2 LC ltac:(auto) Hc) as G.
    unfold rowdist in *. simpl. lra.
Qed.

Lemma corr_tasks_shape cols : forall Ys Ws, length Ws = length Ys ->
  length (corr_tasks cols Ys Ws) = length Ys /\ Forall (fun c => length c = length cols) (corr_tasks cols Ys Ws).
Proof.
  induction Ys as [|y Ys IH]; intros [|w Ws] L; simpl in *; try discriminate; auto.
  destruct (IH Ws ltac:(lia)) as [A B]. split; [lia|]. constructor; auto. apply map_length.
Qed.

Lemma map2l_vsub_shape p : forall A B, length A = length B ->
  Forall (fun a => length a = p) A -> Forall (fun b => length b = p) B ->
  length (map2l vsub A B) = length A /\ Forall (fun c => length c = p) (map2l vsub A B).
Proof.
  induction A as [|a A IH]; intros [|b B] L HA HB; simpl in *; try discriminate; auto.
  inversion HA; inversion HB; subst. destruct (IH B ltac:(lia) ltac:(auto) ltac:(auto)) as [X Y].
  split; [lia|]. constructor; auto. rewrite vsub_length; lia.
Qed.

Lemma Forall2_rows p : forall A B, length A = length B ->
  Forall2 (fun r' r : list R => length r' = length r) (trans p A) (trans p B).
Proof.
  induction p as [|p IH]; intros A B L; simpl; constructor.
  - now rewrite !map_length.
  - apply IH. now rewrite !map_length.
Qed.

(** first-order conditions of every row up to eps_j imply eps-optimality against every other coefficient matrix *)
Theorem group_kkt_eps_optimal : forall (cols Ys Ws Ws' : list (list R)) (l1 l2 : R) (eps : list R),
  Forall (fun y => Forall (fun c => length c = length y) cols) Ys ->
  length Ws = length Ys -> length Ws' = length Ys ->
  Forall (fun w => length w = length cols) Ws -> Forall (fun w => length w = length cols) Ws' ->
  0 <= l1 -> 0 <= l2 ->
  group_all (trans (length cols) (corr_tasks cols Ys Ws)) (trans (length cols) Ws) l1 l2 eps ->
  mobjective cols Ys l1 l2 Ws'
  >= mobjective cols Ys l1 l2 Ws - Rdot eps (rowdist (trans (length cols) Ws') (trans (length cols) Ws)).
Proof.
  intros cols Ys Ws Ws' l1 l2 eps H L L' HW HW' H1 H2 K.
  unfold mobjective. set (p := length cols) in *.
  pose proof (quad_tasks_lower cols Ys Ws Ws' H L L' HW HW') as Q.
  destruct (corr_tasks_shape cols Ys Ws L) as [LC FC]. fold p in FC.
  destruct (map2l_vsub_shape p Ws' Ws ltac:(lia) HW' HW) as [LD FD].
  rewrite (fdot_trans p (map2l vsub Ws' Ws) (corr_tasks cols Ys Ws) ltac:(lia) FD FC) in Q.
  rewrite (trans_vsub p Ws' Ws ltac:(lia) HW' HW) in Q.
  pose proof (gpen_lower l1 l2 H1 H2 _ _ _ (trans p Ws') K
                ltac:(rewrite !trans_length; reflexivity) (Forall2_rows p Ws' Ws ltac:(lia))) as G.
  lra.
Qed.
