(** First-order optimality up to eps implies eps-optimality, for penalised linear least squares

        F(theta) = 1/2 |y - sum_j theta_j col_j|^2 + sum_j (l1_j |theta_j| + l2_j/2 theta_j^2)

    over list vectors, the design given by its columns (no matrix library: the adjoint identity
    <r, sum_j d_j col_j> = sum_j d_j <col_j, r> is an induction over the columns).
    Used by C11 (OLS / elastic net: an unpenalised column of ones is the intercept). *)
From Coq Require Import List Reals Lra Lia Psatz.
From LinfaVerif Require Import Common.QF.
Import ListNotations.
Local Open Scope R_scope.

(** * list vectors *)
Definition vadd (a b : list R) : list R := map (fun p => fst p + snd p) (combine a b).
Definition vscale (c : R) (a : list R) : list R := map (Rmult c) a.
Definition vsub (a b : list R) : list R := vadd a (vscale (-1) b).
Definition sq (a : list R) : R := Rdot a a.

Fixpoint lin (n : nat) (cols : list (list R)) (th : list R) : list R :=
  match cols, th with
  | c :: cols', t :: th' => vadd (vscale t c) (lin n cols' th')
  | _, _ => repeat 0 n
  end.

Definition residual (cols : list (list R)) (y th : list R) : list R := vsub y (lin (length y) cols th).

Lemma vadd_length a b : length a = length b -> length (vadd a b) = length a.
Proof. intros H. unfold vadd. rewrite map_length, combine_length. lia. Qed.
Lemma vscale_length c a : length (vscale c a) = length a.
Proof. apply map_length. Qed.
Lemma vsub_length a b : length a = length b -> length (vsub a b) = length a.
Proof. intros H. unfold vsub. apply vadd_length. now rewrite vscale_length. Qed.

Lemma lin_length n cols : forall th, Forall (fun c => length c = n) cols -> length (lin n cols th) = n.
Proof.
  induction cols as [|c cols IH]; intros th H; simpl; [apply repeat_length|].
  destruct th as [|t th]; [apply repeat_length|].
  inversion H as [|? ? Hc Hr]; subst.
  rewrite vadd_length; rewrite vscale_length; auto. now rewrite IH.
Qed.

Lemma Rdot_comm a : forall b, Rdot a b = Rdot b a.
Proof. induction a as [|x a IH]; intros [|y b]; simpl; auto. rewrite IH. ring. Qed.
Lemma Rdot_vadd_l a : forall b c, length a = length b -> Rdot (vadd a b) c = Rdot a c + Rdot b c.
Proof.
  induction a as [|x a IH]; intros [|y b] c H; simpl in *; try discriminate; try lra.
  destruct c as [|z c]; simpl; [lra|]. unfold vadd in IH. rewrite IH by lia. ring.
Qed.
Lemma Rdot_vscale_l k a : forall c, Rdot (vscale k a) c = k * Rdot a c.
Proof.
  induction a as [|x a IH]; intros [|z c]; simpl; try lra. unfold vscale in IH. rewrite IH. ring.
Qed.
Lemma Rdot_repeat0_l n : forall c, Rdot (repeat 0 n) c = 0.
Proof. induction n; intros [|z c]; simpl; try lra. rewrite IHn. ring. Qed.
Lemma Rdot_vadd_r c a b : length a = length b -> Rdot c (vadd a b) = Rdot c a + Rdot c b.
Proof. intros H. rewrite Rdot_comm, Rdot_vadd_l by auto. now rewrite (Rdot_comm a), (Rdot_comm b). Qed.
Lemma sq_nonneg a : 0 <= sq a.
Proof. unfold sq. induction a; simpl; nra. Qed.

(** adjoint identity in column form *)
Lemma Rdot_lin n cols : forall d r, Forall (fun c => length c = n) cols ->
  Rdot (lin n cols d) r = Rdot d (map (fun c => Rdot c r) cols).
Proof.
  induction cols as [|c cols IH]; intros d r H; simpl.
  - rewrite Rdot_repeat0_l. now destruct d.
  - destruct d as [|t d]; simpl; [apply Rdot_repeat0_l|].
    inversion H as [|? ? Hc Hr]; subst.
    rewrite Rdot_vadd_l by (rewrite vscale_length, lin_length; auto).
    rewrite Rdot_vscale_l, IH by auto. ring.
Qed.

(** linearity of [lin] in the coefficients (same lengths) *)
Lemma lin_vadd n cols : forall a b, length a = length cols -> length b = length cols ->
  Forall (fun c => length c = n) cols ->
  lin n cols (vadd a b) = vadd (lin n cols a) (lin n cols b).
Proof.
  induction cols as [|c cols IH]; intros a b Ha Hb H.
  - destruct a, b; try discriminate. simpl. unfold vadd.
    clear H. induction n as [|n IHn]; simpl; [reflexivity|]. f_equal; [lra|exact IHn].
  - destruct a as [|x a], b as [|z b]; try discriminate. simpl in Ha, Hb.
    inversion H as [|? ? Hc Hr]; subst. simpl. fold (vadd a b). rewrite IH by (auto; lia).
    assert (L1 : length (lin (length c) cols a) = length c) by (apply lin_length; auto).
    assert (L2 : length (lin (length c) cols b) = length c) by (apply lin_length; auto).
    generalize dependent (lin (length c) cols a). generalize dependent (lin (length c) cols b).
    clear. intros u Lu v Lv. revert u v Lu Lv. unfold vadd, vscale.
    induction c as [|q c IHc]; intros [|u0 u] [|v0 v] Lu Lv; simpl in *; try discriminate; auto.
    f_equal; [lra|]. apply IHc; lia.
Qed.

(** * the quadratic part: moving from theta to theta + d *)
Lemma quad_lower_bound n cols r d : Forall (fun c => length c = n) cols -> length r = n ->
  / 2 * sq (vsub r (lin n cols d)) >= / 2 * sq r - Rdot d (map (fun c => Rdot c r) cols).
Proof.
  intros H Hr. unfold sq, vsub.
  assert (Hl : length (lin n cols d) = n) by (apply lin_length; auto).
  set (u := lin n cols d) in *.
  assert (Hs : length r = length (vscale (-1) u)) by (rewrite vscale_length; lia).
  rewrite Rdot_vadd_l by auto. rewrite !Rdot_vadd_r by auto.
  rewrite !Rdot_vscale_l. rewrite (Rdot_comm r (vscale (-1) u)), !Rdot_vscale_l.
  rewrite (Rdot_comm u (vscale (-1) u)), Rdot_vscale_l.
  unfold u at 1 2. rewrite (Rdot_lin n cols d r H).
  pose proof (sq_nonneg u) as Hn. unfold sq in Hn. fold u. lra.
Qed.

(** * one coordinate *)
(** first-order condition of coordinate theta with correlation c = <col, residual> *)
Definition coord_cond (c l1 l2 th eps : R) : Prop :=
  let g := c - l2 * th in
  (0 < th -> Rabs (g - l1) <= eps) /\ (th < 0 -> Rabs (g + l1) <= eps) /\ (th = 0 -> Rabs g <= l1 + eps).

Definition pen1 (l1 l2 th : R) : R := l1 * Rabs th + l2 / 2 * (th * th).

Lemma coord_ineq c l1 l2 th eps th' : 0 <= l1 -> 0 <= l2 -> coord_cond c l1 l2 th eps ->
  pen1 l1 l2 th' - pen1 l1 l2 th - (th' - th) * c >= - (eps * Rabs (th' - th)).
Proof.
  intros H1 H2 (Hp & Hn & Hz). unfold pen1.
  set (d := th' - th).
  assert (Hq : l2 / 2 * (th' * th') - l2 / 2 * (th * th) >= l2 * th * d).
  { unfold d.
    assert (E : l2 / 2 * (th' * th') - l2 / 2 * (th * th) - l2 * th * (th' - th)
                = l2 / 2 * ((th' - th) * (th' - th))) by field.
    assert (0 <= l2 / 2 * ((th' - th) * (th' - th))) by (apply Rmult_le_pos; [lra|apply Rle_0_sqr]). lra. }
  destruct (Rtotal_order th 0) as [Hlt | [Heq | Hgt]].
  - specialize (Hn Hlt). rewrite (Rabs_left th) by lra.
    assert (Ha : Rabs th' >= - th') by (unfold Rabs; destruct (Rcase_abs th'); lra).
    assert (Hb : - (d * (c - l2 * th + l1)) >= - (eps * Rabs d)).
    { unfold Rabs in Hn |- *.
      destruct (Rcase_abs (c - l2 * th + l1)), (Rcase_abs d); nra. }
    unfold d in *. nra.
  - subst th. specialize (Hz eq_refl). rewrite Rabs_R0.
    replace (c - l2 * 0) with c in Hz by ring. unfold d in *.
    replace (th' - 0) with th' in * by ring.
    unfold Rabs in Hz |- *. destruct (Rcase_abs c), (Rcase_abs th'); nra.
  - specialize (Hp Hgt). rewrite (Rabs_right th) by lra.
    assert (Ha : Rabs th' >= th') by (unfold Rabs; destruct (Rcase_abs th'); lra).
    assert (Hb : - (d * (c - l2 * th - l1)) >= - (eps * Rabs d)).
    { unfold Rabs in Hp |- *.
      destruct (Rcase_abs (c - l2 * th - l1)), (Rcase_abs d); nra. }
    unfold d in *. nra.
Qed.

(** * all coordinates *)
Fixpoint pen (l1s l2s th : list R) : R :=
  match l1s, l2s, th with
  | a :: l1s', b :: l2s', t :: th' => pen1 a b t + pen l1s' l2s' th'
  | _, _, _ => 0
  end.

(** conditions of all coordinates, including equal lengths and non-negative penalties / tolerances *)
Fixpoint kkt_all (cs l1s l2s th eps : list R) : Prop :=
  match cs, l1s, l2s, th, eps with
  | c :: cs', a :: l1s', b :: l2s', t :: th', e :: eps' =>
      0 <= a /\ 0 <= b /\ 0 <= e /\ coord_cond c a b t e /\ kkt_all cs' l1s' l2s' th' eps'
  | [], [], [], [], [] => True
  | _, _, _, _, _ => False
  end.

Definition absdiff (a b : list R) : list R := map (fun p => Rabs (fst p - snd p)) (combine a b).

Lemma kkt_all_length cs : forall l1s l2s th eps, kkt_all cs l1s l2s th eps ->
  length l1s = length cs /\ length l2s = length cs /\ length th = length cs /\ length eps = length cs.
Proof.
  induction cs as [|c cs IH]; intros [|a l1s] [|b l2s] [|t th] [|e eps] H; simpl in H; try contradiction; auto.
  destruct H as (_ & _ & _ & _ & H). destruct (IH _ _ _ _ H) as (A & B & C & D). simpl. lia.
Qed.

Lemma pen_lower_bound cs : forall l1s l2s th eps th', kkt_all cs l1s l2s th eps -> length th' = length th ->
  pen l1s l2s th' - pen l1s l2s th - Rdot (vsub th' th) cs >= - Rdot eps (absdiff th' th).
Proof.
  induction cs as [|c cs IH]; intros [|a l1s] [|b l2s] [|t th] [|e eps] th' H L; simpl in H; try contradiction.
  - destruct th'; try discriminate. simpl. lra.
  - destruct th' as [|t' th']; try discriminate. simpl in L.
    destruct H as (Ha & Hb & He & Hc & H).
    specialize (IH l1s l2s th eps th' H ltac:(lia)).
    pose proof (coord_ineq c a b t e t' Ha Hb Hc) as H1.
    unfold vsub, vadd, vscale, absdiff in *. simpl.
    replace (t' + -1 * t) with (t' - t) by ring. lra.
Qed.

(** * the theorem *)
Definition objective (cols : list (list R)) (y l1s l2s th : list R) : R :=
  / 2 * sq (residual cols y th) + pen l1s l2s th.

Lemma residual_shift cols y th th' : Forall (fun c => length c = length y) cols ->
  length th = length cols -> length th' = length cols ->
  residual cols y th' = vsub (residual cols y th) (lin (length y) cols (vsub th' th)).
Proof.
  intros H L L'. unfold residual.
  assert (E : th' = vadd th (vsub th' th)).
  { clear H. revert th' L'. rewrite <- L. clear L.
    induction th as [|t th IH]; intros [|t' th'] L'; simpl in *; try discriminate; auto.
    unfold vsub, vadd, vscale in *. simpl. f_equal; [lra|]. apply IH. lia. }
  rewrite E at 1.
  assert (Ls : length (vsub th' th) = length cols) by (rewrite vsub_length; lia).
  rewrite (lin_vadd (length y) cols th (vsub th' th) L Ls H).
  set (n := length y) in *.
  assert (L1 : length (lin n cols th) = n) by (apply lin_length; auto).
  assert (L2 : length (lin n cols (vsub th' th)) = n) by (apply lin_length; auto).
  generalize dependent (lin n cols th). generalize dependent (lin n cols (vsub th' th)).
  intros u Lu v Lv. clear - Lu Lv. subst n. revert u v Lu Lv.
  induction y as [|y0 y IH]; intros [|u0 u] [|v0 v] Lu Lv; simpl in *; try discriminate; auto.
  unfold vsub, vadd, vscale in *. simpl. f_equal; [lra|]. apply IH; lia.
Qed.

Theorem kkt_eps_optimal : forall cols y l1s l2s eps th th',
  Forall (fun c => length c = length y) cols ->
  kkt_all (map (fun c => Rdot c (residual cols y th)) cols) l1s l2s th eps ->
  length th' = length th ->
  objective cols y l1s l2s th' >= objective cols y l1s l2s th - Rdot eps (absdiff th' th).
Proof.
  intros cols y l1s l2s eps th th' H K L.
  destruct (kkt_all_length _ _ _ _ _ K) as (_ & _ & Lt & _). rewrite map_length in Lt.
  unfold objective.
  rewrite (residual_shift cols y th th' H Lt ltac:(lia)).
  set (r := residual cols y th) in *.
  assert (Hr : length r = length y).
  { unfold r, residual. rewrite vsub_length; auto. now rewrite lin_length. }
  pose proof (quad_lower_bound (length y) cols r (vsub th' th) H Hr) as Q.
  pose proof (pen_lower_bound _ _ _ _ _ th' K L) as P.
  lra.
Qed.

(** exact conditions: a global minimiser *)
Corollary kkt_optimal : forall cols y l1s l2s th th',
  Forall (fun c => length c = length y) cols ->
  kkt_all (map (fun c => Rdot c (residual cols y th)) cols) l1s l2s th (repeat 0 (length th)) ->
  length th' = length th ->
  objective cols y l1s l2s th' >= objective cols y l1s l2s th.
Proof.
  intros cols y l1s l2s th th' H K L.
  pose proof (kkt_eps_optimal cols y l1s l2s _ th th' H K L) as E.
  assert (Z : forall n v, Rdot (repeat 0 n) v = 0) by (intros; apply Rdot_repeat0_l).
  rewrite Z in E. lra.
Qed.
