(** A small verified interval evaluator for expressions over integer constants, + - * /, abs,
    square, exp, ln, sqrt, on top of the Coq Interval library (intervals with big-integer
    floating-point bounds).  Used by the pattern-B checkers that must enclose transcendental
    quantities (C12: logistic / softmax / Tweedie gradients).

    [reval] is the meaning of an expression with Coq's total real functions; [iv_eval] computes an
    enclosure.  The main lemma [iv_eval_R] needs no side condition: whenever a partial operation is
    undefined (division by zero, ln of a non-positive number) the library returns the
    not-a-number interval, which encloses everything, and every test below rejects it. *)
From Coq Require Import Reals ZArith QArith Qreals List Bool Lra.
From Interval Require Import Xreal Interval Float_full Specific_bigint Specific_ops Sig Basic.
Import ListNotations.

Module F := SpecificFloat BigIntRadix2.
Module I := FloatIntervalFull F.

Inductive expr :=
| Cst (z : Z)
| Var (n : nat)
| Add (a b : expr) | Sub (a b : expr) | Mul (a b : expr) | Div (a b : expr)
| Neg (a : expr) | Abs (a : expr) | Sqr (a : expr)
| Exp (a : expr) | Ln (a : expr) | Sqrt (a : expr).

(** rational constant *)
Definition Qc (q : Q) : expr := Div (Cst (Qnum q)) (Cst (Zpos (Qden q))).

(** sum of a list of expressions (right fold, empty sum = 0) *)
Definition esum (l : list expr) : expr := fold_right Add (Cst 0) l.

(** meaning over the reals (total functions of the standard library) *)
Fixpoint reval (env : list R) (e : expr) : R :=
  match e with
  | Cst z => IZR z
  | Var n => nth n env 0%R
  | Add a b => (reval env a + reval env b)%R
  | Sub a b => (reval env a - reval env b)%R
  | Mul a b => (reval env a * reval env b)%R
  | Div a b => (reval env a / reval env b)%R
  | Neg a => (- reval env a)%R
  | Abs a => Rabs (reval env a)
  | Sqr a => Rsqr (reval env a)
  | Exp a => exp (reval env a)
  | Ln a => ln (reval env a)
  | Sqrt a => sqrt (reval env a)
  end.

(** meaning over the extended reals of the Interval library (partial operations yield Xnan) *)
Fixpoint xeval (env : list R) (e : expr) : ExtendedR :=
  match e with
  | Cst z => Xreal (IZR z)
  | Var n => Xreal (nth n env 0%R)
  | Add a b => Xadd (xeval env a) (xeval env b)
  | Sub a b => Xsub (xeval env a) (xeval env b)
  | Mul a b => Xmul (xeval env a) (xeval env b)
  | Div a b => Xdiv (xeval env a) (xeval env b)
  | Neg a => Xneg (xeval env a)
  | Abs a => Xabs (xeval env a)
  | Sqr a => Xsqr (xeval env a)
  | Exp a => Xexp (xeval env a)
  | Ln a => Xln (xeval env a)
  | Sqrt a => Xsqrt (xeval env a)
  end.

Section Eval.
Variable prec : I.precision.

Fixpoint iv_eval (env : list I.type) (e : expr) : I.type :=
  match e with
  | Cst z => I.fromZ prec z
  | Var n => nth n env I.nai
  | Add a b => I.add prec (iv_eval env a) (iv_eval env b)
  | Sub a b => I.sub prec (iv_eval env a) (iv_eval env b)
  | Mul a b => I.mul prec (iv_eval env a) (iv_eval env b)
  | Div a b => I.div prec (iv_eval env a) (iv_eval env b)
  | Neg a => I.neg (iv_eval env a)
  | Abs a => I.abs (iv_eval env a)
  | Sqr a => I.sqr prec (iv_eval env a)
  | Exp a => I.exp prec (iv_eval env a)
  | Ln a => I.ln prec (iv_eval env a)
  | Sqrt a => I.sqrt prec (iv_eval env a)
  end.

(** the environment of intervals encloses the environment of reals *)
Definition env_ok (ienv : list I.type) (renv : list R) : Prop :=
  forall n, contains (I.convert (nth n ienv I.nai)) (Xreal (nth n renv 0%R)).

Lemma iv_eval_correct ienv renv e :
  env_ok ienv renv -> contains (I.convert (iv_eval ienv e)) (xeval renv e).
Proof.
  intros Henv. induction e; simpl.
  - apply I.fromZ_correct.
  - apply Henv.
  - apply I.add_correct; assumption.
  - apply I.sub_correct; assumption.
  - apply I.mul_correct; assumption.
  - apply I.div_correct; assumption.
  - apply I.neg_correct; assumption.
  - apply I.abs_correct; assumption.
  - apply I.sqr_correct; assumption.
  - apply I.exp_correct; assumption.
  - apply I.ln_correct; assumption.
  - apply I.sqrt_correct; assumption.
Qed.

(** when the extended evaluation is defined it is the total real evaluation *)
Lemma xeval_reval renv e r : xeval renv e = Xreal r -> r = reval renv e.
Proof.
  revert r. induction e; simpl; intros r H.
  - inversion H; reflexivity.
  - inversion H; reflexivity.
  - destruct (xeval renv e1) as [|u]; [discriminate|]. destruct (xeval renv e2) as [|v]; [discriminate|].
    simpl in H. inversion H. rewrite <- (IHe1 u eq_refl), <- (IHe2 v eq_refl). reflexivity.
  - destruct (xeval renv e1) as [|u]; [discriminate|]. destruct (xeval renv e2) as [|v]; [discriminate|].
    simpl in H. inversion H. rewrite <- (IHe1 u eq_refl), <- (IHe2 v eq_refl). reflexivity.
  - destruct (xeval renv e1) as [|u]; [discriminate|]. destruct (xeval renv e2) as [|v]; [discriminate|].
    simpl in H. inversion H. rewrite <- (IHe1 u eq_refl), <- (IHe2 v eq_refl). reflexivity.
  - destruct (xeval renv e1) as [|u]; [discriminate|]. destruct (xeval renv e2) as [|v]; [discriminate|].
    simpl in H. unfold Xdiv' in H. destruct (is_zero v); [discriminate|].
    inversion H. rewrite <- (IHe1 u eq_refl), <- (IHe2 v eq_refl). reflexivity.
  - destruct (xeval renv e) as [|u]; [discriminate|]. simpl in H. inversion H.
    rewrite <- (IHe u eq_refl). reflexivity.
  - destruct (xeval renv e) as [|u]; [discriminate|]. simpl in H. inversion H.
    rewrite <- (IHe u eq_refl). reflexivity.
  - destruct (xeval renv e) as [|u]; [discriminate|]. simpl in H. inversion H.
    rewrite <- (IHe u eq_refl). reflexivity.
  - destruct (xeval renv e) as [|u]; [discriminate|]. simpl in H. inversion H.
    rewrite <- (IHe u eq_refl). reflexivity.
  - destruct (xeval renv e) as [|u]; [discriminate|]. simpl in H. unfold Xln' in H.
    destruct (is_positive u); [|discriminate]. inversion H. rewrite <- (IHe u eq_refl). reflexivity.
  - destruct (xeval renv e) as [|u]; [discriminate|]. simpl in H. unfold Xsqrt' in H.
    inversion H. rewrite <- (IHe u eq_refl). reflexivity.
Qed.

(** main lemma: the computed interval encloses the real meaning (trivially so when it is the
    not-a-number interval) *)
Lemma iv_eval_R ienv renv e :
  env_ok ienv renv -> contains (I.convert (iv_eval ienv e)) (Xreal (reval renv e)).
Proof.
  intros Henv. pose proof (iv_eval_correct ienv renv e Henv) as H.
  destruct (xeval renv e) as [|r] eqn:E.
  - destruct (I.convert (iv_eval ienv e)); simpl in *; [exact I|contradiction].
  - rewrite <- (xeval_reval renv e r E). exact H.
Qed.

(** certified sign test: [true] only if the expression is provably >= 0 *)
Definition iv_nonneg (ienv : list I.type) (e : expr) : bool :=
  match I.sign_large (iv_eval ienv e) with Xgt | Xeq => true | _ => false end.

Lemma iv_nonneg_sound ienv renv e :
  env_ok ienv renv -> iv_nonneg ienv e = true -> (0 <= reval renv e)%R.
Proof.
  intros Henv H. unfold iv_nonneg in H.
  pose proof (I.sign_large_correct (iv_eval ienv e)) as S.
  pose proof (iv_eval_R ienv renv e Henv) as C.
  destruct (I.sign_large (iv_eval ienv e)); try discriminate.
  - specialize (S _ C). inversion S as [E]. rewrite E. apply Rle_refl.
  - destruct (S _ C) as [_ S2]. exact S2.
Qed.

(** certified comparison a <= b *)
Definition iv_le (ienv : list I.type) (a b : expr) : bool := iv_nonneg ienv (Sub b a).
Lemma iv_le_sound ienv renv a b :
  env_ok ienv renv -> iv_le ienv a b = true -> (reval renv a <= reval renv b)%R.
Proof.
  intros Henv H. apply (iv_nonneg_sound ienv renv (Sub b a) Henv) in H. simpl in H. lra.
Qed.

(** an environment computed from closed expressions *)
Definition iv_env (es : list expr) : list I.type := map (iv_eval []) es.
Definition r_env (es : list expr) : list R := map (reval []) es.

Lemma env_ok_nil : env_ok [] [].
Proof.
  intros n. replace (nth n (@nil I.type) I.nai) with I.nai by (destruct n; reflexivity).
  rewrite I.nai_correct. exact I.
Qed.

Lemma env_ok_cons i r ienv renv :
  contains (I.convert i) (Xreal r) -> env_ok ienv renv -> env_ok (i :: ienv) (r :: renv).
Proof. intros H1 H2 [|n]; cbn [nth]; [exact H1|apply H2]. Qed.

Lemma iv_env_ok es : env_ok (iv_env es) (r_env es).
Proof.
  induction es as [|e es IH]; simpl.
  - apply env_ok_nil.
  - apply env_ok_cons; [apply iv_eval_R; apply env_ok_nil|exact IH].
Qed.

(** two-level environments: [es2] may refer to the values of [es1] *)
Definition iv_env2 (ienv : list I.type) (es : list expr) : list I.type := map (iv_eval ienv) es.
Definition r_env2 (renv : list R) (es : list expr) : list R := map (reval renv) es.
Lemma iv_env2_ok ienv renv es : env_ok ienv renv -> env_ok (iv_env2 ienv es) (r_env2 renv es).
Proof.
  intros H. induction es as [|e es IH]; simpl.
  - apply env_ok_nil.
  - apply env_ok_cons; [apply iv_eval_R; exact H|exact IH].
Qed.
(** ** Interval-level helpers with their meaning on real numbers (index-free second stage of the
    checkers: linear combinations and sums of squares of already computed enclosures) *)
Definition encl (i : I.type) (r : R) : Prop := contains (I.convert i) (Xreal r).

Lemma encl_add a b x y : encl a x -> encl b y -> encl (I.add prec a b) (x + y)%R.
Proof. intros Ha Hb. exact (I.add_correct prec a b (Xreal x) (Xreal y) Ha Hb). Qed.
Lemma encl_sub a b x y : encl a x -> encl b y -> encl (I.sub prec a b) (x - y)%R.
Proof. intros Ha Hb. exact (I.sub_correct prec a b (Xreal x) (Xreal y) Ha Hb). Qed.
Lemma encl_mul a b x y : encl a x -> encl b y -> encl (I.mul prec a b) (x * y)%R.
Proof. intros Ha Hb. exact (I.mul_correct prec a b (Xreal x) (Xreal y) Ha Hb). Qed.
Lemma encl_sqr a x : encl a x -> encl (I.sqr prec a) (Rsqr x).
Proof. intros Ha. exact (I.sqr_correct prec a (Xreal x) Ha). Qed.
Lemma encl_exp a x : encl a x -> encl (I.exp prec a) (exp x).
Proof. intros Ha. exact (I.exp_correct prec a (Xreal x) Ha). Qed.
Lemma encl_nai r : encl I.nai r.
Proof. unfold encl. rewrite I.nai_correct. exact I. Qed.
Lemma encl_div a b x y : encl a x -> encl b y -> encl (I.div prec a b) (x / y)%R.
Proof.
  intros Ha Hb. pose proof (I.div_correct prec a b (Xreal x) (Xreal y) Ha Hb) as H.
  unfold encl. simpl in H. unfold Xdiv' in H. destruct (is_zero y).
  - destruct (I.convert (I.div prec a b)); simpl in *; [exact I|contradiction].
  - exact H.
Qed.

Definition iv_z (z : Z) : I.type := I.fromZ prec z.
Lemma iv_z_encl z : encl (iv_z z) (IZR z).
Proof. apply I.fromZ_correct. Qed.

Definition iv_q (q : Q) : I.type := I.div prec (I.fromZ prec (Qnum q)) (I.fromZ prec (Zpos (Qden q))).
Lemma iv_q_encl q : encl (iv_q q) (Q2R q).
Proof. unfold iv_q, Q2R. apply encl_div; apply I.fromZ_correct. Qed.

(** closed expressions *)
Lemma iv_eval_closed e : encl (iv_eval [] e) (reval [] e).
Proof. apply iv_eval_R. apply env_ok_nil. Qed.

(** sum_i c_i * v_i for rational coefficients and enclosed values (shorter list wins) *)
Fixpoint iv_lincomb (cs : list Q) (vs : list I.type) : I.type :=
  match cs, vs with
  | c :: cs', v :: vs' => I.add prec (I.mul prec (iv_q c) v) (iv_lincomb cs' vs')
  | _, _ => iv_z 0
  end.
Fixpoint r_lincomb (cs : list R) (vs : list R) : R :=
  match cs, vs with
  | c :: cs', v :: vs' => (c * v + r_lincomb cs' vs')%R
  | _, _ => 0%R
  end.
Lemma iv_lincomb_encl cs : forall vs rs, Forall2 encl vs rs ->
  encl (iv_lincomb cs vs) (r_lincomb (map Q2R cs) rs).
Proof.
  induction cs as [|c cs IH]; intros vs rs H; simpl.
  - apply iv_z_encl.
  - destruct H as [|v r vs rs Hv Hr]; simpl; [apply iv_z_encl|].
    apply encl_add; [apply encl_mul; [apply iv_q_encl|exact Hv]|apply IH; exact Hr].
Qed.

Definition iv_sum (vs : list I.type) : I.type := fold_right (I.add prec) (iv_z 0) vs.
Lemma iv_sum_encl vs rs : Forall2 encl vs rs -> encl (iv_sum vs) (fold_right Rplus 0%R rs).
Proof.
  induction 1 as [|v r vs rs Hv Hr IH]; simpl; [apply iv_z_encl|apply encl_add; assumption].
Qed.

Definition iv_sumsq (vs : list I.type) : I.type := iv_sum (map (I.sqr prec) vs).
Lemma iv_sumsq_encl vs rs : Forall2 encl vs rs -> encl (iv_sumsq vs) (fold_right Rplus 0%R (map Rsqr rs)).
Proof.
  intros H. apply iv_sum_encl. induction H as [|v r vs rs Hv Hr IH]; simpl; constructor; auto.
  apply encl_sqr; exact Hv.
Qed.

Lemma Forall2_nth_encl vs rs n d : Forall2 encl vs rs -> encl (nth n vs I.nai) (nth n rs d).
Proof.
  intros H. revert n. induction H as [|v r vs rs Hv Hr IH]; intros [|n]; simpl; auto using encl_nai.
Qed.

(** certified sign / order tests on enclosures *)
Definition iv_nonneg_i (i : I.type) : bool :=
  match I.sign_large i with Xgt | Xeq => true | _ => false end.
Lemma iv_nonneg_i_sound i r : encl i r -> iv_nonneg_i i = true -> (0 <= r)%R.
Proof.
  intros C H. unfold iv_nonneg_i in H. pose proof (I.sign_large_correct i) as S.
  destruct (I.sign_large i); try discriminate.
  - specialize (S _ C). injection S as E. rewrite E. apply Rle_refl.
  - destruct (S _ C) as [_ S2]. exact S2.
Qed.
Definition iv_le_i (a b : I.type) : bool := iv_nonneg_i (I.sub prec b a).
Lemma iv_le_i_sound a b x y : encl a x -> encl b y -> iv_le_i a b = true -> (x <= y)%R.
Proof.
  intros Ha Hb H. apply (iv_nonneg_i_sound _ (y - x)%R) in H; [lra|apply encl_sub; assumption].
Qed.
End Eval.

(** meaning of the helper constructors *)
Lemma reval_Qc env q : reval env (Qc q) = Q2R q.
Proof. unfold Qc, Q2R; simpl. reflexivity. Qed.

Lemma reval_esum env l : reval env (esum l) = fold_right Rplus 0%R (map (reval env) l).
Proof. induction l as [|a l IH]; simpl; [reflexivity|rewrite <- IH; reflexivity]. Qed.

(** working precision of the C12 checkers (bits) *)
Definition prec64 : I.precision := F.PtoP 64.
