(** Shared shape of correspondence runs: every case yields (id, corr, oracle);
    corr <> 0  : the Gallina model and the implementation disagree on that case,
    oracle <> 0: the property oracle rejects the implementation's output.
    [report] keeps only the offending cases, flattened to a list of N for easy parsing. *)
From Coq Require Import List NArith.
Import ListNotations.

Definition verdict := (N * (N * N))%type.

Fixpoint report (vs : list verdict) : list N :=
  match vs with
  | [] => []
  | (id, (c, o)) :: r =>
      if (N.eqb c 0 && N.eqb o 0)%bool then report r else id :: c :: o :: report r
  end.

Definition flag (b : bool) (code : N) : N := if b then 0%N else code.
