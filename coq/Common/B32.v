(** IEEE binary32 (Rust f32) through the standard library's SpecFloat functions at precision 24,
    emax 128 (round to nearest even) - the same executable specification Coq's primitive binary64
    floats are axiomatised against, instantiated at single precision. Values are [spec_float]. *)
From Coq Require Import ZArith NArith SpecFloat Floats List.
From LinfaVerif Require Import Common.Num.
Import ListNotations.

Definition p32 : Z := 24.
Definition e32 : Z := 128.

Definition b32_of_Z (z : Z) : spec_float :=
  match z with
  | Z0 => S754_zero false
  | Zpos p => binary_normalize p32 e32 (Zpos p) 0 false
  | Zneg p => binary_normalize p32 e32 (Zneg p) 0 true
  end.

Definition B32_ops : NumOps spec_float :=
  {| zero := S754_zero false; one := S754_finite false 8388608 (-23);
     add := SFadd p32 e32; sub := SFsub p32 e32; mul := SFmul p32 e32; div := SFdiv p32 e32;
     opp := SFopp; abs := SFabs; sqrt := SFsqrt p32 e32;
     ltb := SFltb; leb := SFleb; eqb := SFeqb;
     of_N := fun n => b32_of_Z (Z.of_N n) |}.

(** decode an IEEE-754 binary32 bit pattern (as produced by Rust's f32::to_bits) *)
Definition b32_of_bits (b : Z) : spec_float :=
  let s := Z.testbit b 31 in
  let e := Z.land (Z.shiftr b 23) 255 in
  let m := Z.land b 8388607 in
  if Z.eqb e 255 then (if Z.eqb m 0 then S754_infinity s else S754_nan)
  else if Z.eqb e 0 then
    match m with Zpos p => S754_finite s p (-149) | _ => S754_zero s end
  else match (m + 8388608)%Z with Zpos p => S754_finite s p (e - 150) | _ => S754_nan end.

(** canonical form for comparison: SpecFloat results are normalised by the operations; literals
    coming from bit patterns have a 24-bit mantissa for normal numbers already. *)
Definition b32_biteq (a b : spec_float) : bool := sf_eqb a b.

(** the same for binary64 bit patterns *)
Definition b64_of_bits (b : Z) : spec_float :=
  let s := Z.testbit b 63 in
  let e := Z.land (Z.shiftr b 52) 2047 in
  let m := Z.land b 4503599627370495 in
  if Z.eqb e 2047 then (if Z.eqb m 0 then S754_infinity s else S754_nan)
  else if Z.eqb e 0 then
    match m with Zpos p => S754_finite s p (-1074) | _ => S754_zero s end
  else match (m + 4503599627370496)%Z with Zpos p => S754_finite s p (e - 1075) | _ => S754_nan end.

(** rounding an f64 (given as spec_float of precision 53) to f32, as Rust's `as f32` *)
Definition b32_of_b64 (x : spec_float) : spec_float :=
  match x with
  | S754_finite s m e => binary_normalize p32 e32 (if s then Zneg m else Zpos m) e s
  | _ => x
  end.
