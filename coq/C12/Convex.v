(** C12 - convexity of the documented objectives: first-order (tangent) inequalities for
    log-sum-exp, the multinomial objective, the Tweedie unit deviances in the linear predictor
    (log link, 1 <= p <= 2; identity link, p = 0), and what they give together with the
    stationarity certificates: a point that is stationary up to tau is a global minimiser up to
    tau |theta' - theta|_1. *)
From Coq Require Import List NArith ZArith QArith Qreals Reals Bool Lra Lia Psatz Floats.
From LinfaVerif Require Import Common.Num Common.QF Common.IvEval C12.Model C12.Checker C12.Proofs.
Import ListNotations.
Local Open Scope R_scope.

(** * Finite sums over index lists *)
Lemma Rsum_map_ext_in {A} (f g : A -> R) l :
  (forall a, In a l -> f a = g a) -> Rsum (map f l) = Rsum (map g l).
Proof. intros H. f_equal. apply map_ext_in. exact H. Qed.

Lemma Rsum_map_le {A} (f g : A -> R) l :
  (forall a, In a l -> f a <= g a) -> Rsum (map f l) <= Rsum (map g l).
Proof.
  unfold Rsum. induction l as [|a l IH]; intros H; simpl; [lra|].
  pose proof (H a (or_introl eq_refl)). specialize (IH (fun x Hx => H x (or_intror Hx))). lra.
Qed.

Lemma Rsum_map_plus {A} (f g : A -> R) l :
  Rsum (map (fun a => f a + g a) l) = Rsum (map f l) + Rsum (map g l).
Proof. unfold Rsum. induction l as [|a l IH]; simpl; [lra|]. rewrite IH. ring. Qed.

Lemma Rsum_map_scal {A} c (f : A -> R) l : Rsum (map (fun a => c * f a) l) = c * Rsum (map f l).
Proof. unfold Rsum. induction l as [|a l IH]; simpl; [ring|]. rewrite IH. ring. Qed.

Lemma Rsum_map_scal_r {A} c (f : A -> R) l : Rsum (map (fun a => f a * c) l) = Rsum (map f l) * c.
Proof. unfold Rsum. induction l as [|a l IH]; simpl; [ring|]. rewrite IH. ring. Qed.

Lemma Rsum_map_zero {A} (l : list A) : Rsum (map (fun _ => 0) l) = 0.
Proof. unfold Rsum. induction l as [|a l IH]; simpl; [reflexivity|]. rewrite IH. ring. Qed.

Lemma Rsum_exchange {A B} (f : A -> B -> R) la lb :
  Rsum (map (fun a => Rsum (map (fun b => f a b) lb)) la)
  = Rsum (map (fun b => Rsum (map (fun a => f a b) la)) lb).
Proof.
  induction la as [|a la IH].
  - cbn [map]. rewrite Rsum_map_zero. reflexivity.
  - cbn [map]. rewrite (Rsum_map_plus (fun b => f a b) (fun b => Rsum (map (fun a0 => f a0 b) la))).
    rewrite <- IH. reflexivity.
Qed.

Lemma nth_seq_map {A} (l : list A) d : map (fun j => nth j l d) (seq 0 (length l)) = l.
Proof.
  induction l as [|a l IH]; [reflexivity|]. cbn [length seq map nth]. f_equal.
  rewrite <- seq_shift, map_map. exact IH.
Qed.

Lemma Rsum_map_nth {A} (f : A -> R) (l : list A) d :
  Rsum (map f l) = Rsum (map (fun j => f (nth j l d)) (seq 0 (length l))).
Proof. rewrite <- (map_map (fun j => nth j l d) f), nth_seq_map. reflexivity. Qed.

Lemma Rdot_as_sum x : forall v, length x = length v ->
  Rdot x v = Rsum (map (fun j => nth j x 0 * nth j v 0) (seq 0 (length x))).
Proof.
  induction x as [|a x IH]; intros [|b v] H; simpl in H; try lia; [reflexivity|].
  cbn [Rdot length seq map nth]. rewrite <- seq_shift, map_map. rewrite (IH v) by lia. reflexivity.
Qed.

(** * log-sum-exp: the first-order inequality  lse(g') >= lse(g) + <softmax g, g' - g> *)
Lemma ln_le_compat x y : 0 < x -> x <= y -> ln x <= ln y.
Proof. intros Hx [H|H]; [left; apply ln_increasing; assumption|right; rewrite H; reflexivity]. Qed.

Lemma Rsum_exp_pos {A} (g : A -> R) l : l <> [] -> 0 < Rsum (map (fun c => exp (g c)) l).
Proof.
  destruct l as [|a l]; [congruence|]. intros _. unfold Rsum. simpl.
  assert (0 <= fold_right Rplus 0 (map (fun c => exp (g c)) l)).
  { induction l as [|a0 l IH]; simpl; [lra|]. pose proof (exp_pos (g a0)). lra. }
  pose proof (exp_pos (g a)). lra.
Qed.

(* every exp(g' c) lies above the tangent of exp at the common point M, scaled by exp(g c) *)
Lemma lse_lower_aux {A} (g g' : A -> R) (M : R) (l : list A) :
  exp M * Rsum (map (fun c => exp (g c) * (1 + (g' c - g c) - M)) l) <= Rsum (map (fun c => exp (g' c)) l).
Proof.
  unfold Rsum. induction l as [|a l IH]; simpl; [lra|].
  assert (H : exp M * (exp (g a) * (1 + (g' a - g a) - M)) <= exp (g' a)).
  { set (d := g' a - g a - M).
    replace (1 + (g' a - g a) - M) with (1 + d) by (unfold d; ring).
    replace (exp (g' a)) with (exp M * (exp (g a) * exp d))
      by (rewrite <- !exp_plus; f_equal; unfold d; ring).
    pose proof (exp_ineq1_le d). pose proof (exp_pos M). pose proof (exp_pos (g a)).
    apply Rmult_le_compat_l; [lra|]. apply Rmult_le_compat_l; lra. }
  lra.
Qed.

Lemma lse_first_order {A} (g g' : A -> R) (l : list A) : l <> [] ->
  let T := Rsum (map (fun c => exp (g c)) l) in
  ln T + Rsum (map (fun c => exp (g c) / T * (g' c - g c)) l) <= ln (Rsum (map (fun c => exp (g' c)) l)).
Proof.
  intros Hne T. pose proof (Rsum_exp_pos g l Hne) as HT. fold T in HT.
  set (S := Rsum (map (fun c => exp (g c) * (g' c - g c)) l)).
  assert (HM : Rsum (map (fun c => exp (g c) / T * (g' c - g c)) l) = S / T).
  { unfold S. rewrite (Rsum_map_ext_in _ (fun c => / T * (exp (g c) * (g' c - g c)))).
    - rewrite Rsum_map_scal. unfold Rdiv. ring.
    - intros c _. unfold Rdiv. ring. }
  rewrite HM. set (M := S / T).
  pose proof (lse_lower_aux g g' M l) as H.
  assert (E : Rsum (map (fun c => exp (g c) * (1 + (g' c - g c) - M)) l) = T).
  { rewrite (Rsum_map_ext_in _ (fun c => (1 - M) * exp (g c) + exp (g c) * (g' c - g c)))
      by (intros c _; ring).
    rewrite Rsum_map_plus, Rsum_map_scal. fold T S. unfold M. field. lra. }
  rewrite E in H.
  rewrite <- (ln_exp M) at 1. rewrite Rplus_comm, <- ln_mult by (try apply exp_pos; exact HT).
  apply ln_le_compat; [|exact H]. apply Rmult_lt_0_compat; [apply exp_pos|exact HT].
Qed.

(** log-sum-exp is convex along segments (midpoint-free form: for weights s + t = 1) *)
Lemma Rsum_map_exp_eq (s : list R) : sumexp s = Rsum (map (fun c => exp c) s).
Proof. reflexivity. Qed.

(** * The multinomial per-sample term *)
Lemma indic_sum (g : nat -> R) yi : forall k s,
  Rsum (map (fun c => indic yi c * g c) (seq s k))
  = if (Nat.leb s yi && Nat.ltb yi (s + k))%bool then g yi else 0.
Proof.
  induction k as [|k IH]; intros s.
  - cbn [seq map]. replace (Nat.ltb yi (s + 0)) with (Nat.ltb yi s) by (f_equal; lia).
    destruct (Nat.leb s yi) eqn:E1, (Nat.ltb yi s) eqn:E2; try reflexivity.
    apply Nat.leb_le in E1. apply Nat.ltb_lt in E2. lia.
  - cbn [seq map]. unfold Rsum in *. cbn [fold_right]. rewrite IH. unfold indic.
    destruct (Nat.eqb yi s) eqn:E.
    + apply Nat.eqb_eq in E. subst s.
      replace (Nat.leb (S yi) yi) with false by (symmetry; apply Nat.leb_gt; lia).
      replace (Nat.leb yi yi) with true by (symmetry; apply Nat.leb_le; lia).
      replace (Nat.ltb yi (yi + S k)) with true by (symmetry; apply Nat.ltb_lt; lia).
      simpl. ring.
    + apply Nat.eqb_neq in E.
      destruct (Nat.leb (S s) yi) eqn:E1, (Nat.ltb yi (S s + k)) eqn:E2; simpl;
        destruct (Nat.leb s yi) eqn:E3, (Nat.ltb yi (s + S k)) eqn:E4; simpl; try ring;
        repeat match goal with
               | H : Nat.leb _ _ = true |- _ => apply Nat.leb_le in H
               | H : Nat.leb _ _ = false |- _ => apply Nat.leb_gt in H
               | H : Nat.ltb _ _ = true |- _ => apply Nat.ltb_lt in H
               | H : Nat.ltb _ _ = false |- _ => apply Nat.ltb_ge in H
               end; lia.
Qed.

Lemma nth_map_seq0_any (g : nat -> R) yi k :
  nth yi (map g (seq 0 k)) 0 = Rsum (map (fun c => indic yi c * g c) (seq 0 k)).
Proof.
  rewrite indic_sum. simpl. destruct (Nat.ltb yi k) eqn:E.
  - apply Nat.ltb_lt in E. apply nth_map_seq0. exact E.
  - apply Nat.ltb_ge in E. apply nth_overflow. rewrite map_length, seq_length. exact E.
Qed.

Lemma multi_ell_first_order (g g' : nat -> R) yi k : (0 < k)%nat ->
  multi_ell yi (map g (seq 0 k))
  + Rsum (map (fun c => (softmax (map g (seq 0 k)) c - indic yi c) * (g' c - g c)) (seq 0 k))
  <= multi_ell yi (map g' (seq 0 k)).
Proof.
  intros Hk. unfold multi_ell. rewrite !nth_map_seq0_any.
  unfold sumexp. rewrite !map_map.
  assert (Hne : seq 0 k <> []) by (destruct k; [lia|discriminate]).
  pose proof (lse_first_order g g' (seq 0 k) Hne) as H. cbv zeta in H.
  set (T := Rsum (map (fun c => exp (g c)) (seq 0 k))) in *.
  rewrite (Rsum_map_ext_in (fun c => (softmax (map g (seq 0 k)) c - indic yi c) * (g' c - g c))
                           (fun c => exp (g c) / T * (g' c - g c) + (indic yi c * g c - indic yi c * g' c))).
  - rewrite Rsum_map_plus.
    rewrite (Rsum_map_ext_in (fun c => indic yi c * g c - indic yi c * g' c)
                             (fun c => indic yi c * g c + (-1) * (indic yi c * g' c))) by (intros; ring).
    rewrite Rsum_map_plus, Rsum_map_scal. lra.
  - intros c Hc. apply in_seq in Hc. unfold softmax.
    rewrite (nth_map_seq0 g c k) by lia. unfold sumexp. rewrite map_map. fold T. ring.
Qed.

(** the scores of a sample as an indexed family, and their change under a change of parameters *)
Definition Wd (W' W : list (list R)) (j c : nat) : R := nth c (nth j W' []) 0 - nth c (nth j W []) 0.
Definition bd (b' b : list R) (c : nat) : R := nth c b' 0 - nth c b 0.

Lemma col_length c W : length (col c W) = length W.
Proof. unfold col. apply map_length. Qed.

Lemma score_diff (W W' : list (list R)) (b b' x : list R) c :
  length x = length W -> length W' = length W ->
  (Rdot x (col c W') + nth c b' 0) - (Rdot x (col c W) + nth c b 0)
  = Rsum (map (fun j => nth j x 0 * Wd W' W j c) (seq 0 (length W))) + bd b' b c.
Proof.
  intros Hx HW. rewrite !Rdot_as_sum by (rewrite col_length; lia). rewrite Hx.
  unfold bd.
  replace (Rsum (map (fun j => nth j x 0 * Wd W' W j c) (seq 0 (length W))))
    with (Rsum (map (fun j => nth j x 0 * nth j (col c W') 0) (seq 0 (length W)))
          + (-1) * Rsum (map (fun j => nth j x 0 * nth j (col c W) 0) (seq 0 (length W)))); [ring|].
  rewrite <- Rsum_map_scal, <- Rsum_map_plus. apply Rsum_map_ext_in. intros j _.
  unfold Wd. rewrite !nth_col. ring.
Qed.

Lemma multi_sample_first_order k (W W' : list (list R)) (b b' x : list R) yi :
  (0 < k)%nat -> length x = length W -> length W' = length W ->
  multi_ell yi (scores k W b x)
  + Rsum (map (fun c => (softmax (scores k W b x) c - indic yi c)
                        * (Rsum (map (fun j => nth j x 0 * Wd W' W j c) (seq 0 (length W))) + bd b' b c)) (seq 0 k))
  <= multi_ell yi (scores k W' b' x).
Proof.
  intros Hk Hx HW. unfold scores.
  pose proof (multi_ell_first_order (fun c => Rdot x (col c W) + nth c b 0)
                                    (fun c => Rdot x (col c W') + nth c b' 0) yi k Hk) as H.
  cbv beta in H.
  rewrite (Rsum_map_ext_in _ _ (seq 0 k)
            (fun c _ => f_equal (Rmult _) (eq_sym (score_diff W W' b b' x c Hx HW)))).
  exact H.
Qed.

(** * Summing over the samples: exchange of the sums over samples, classes and features *)
Lemma triple_rearrange {A} (la : list A) (lc lj : list nat) (q : A -> nat -> R) (xv : A -> nat -> R)
      (D : nat -> nat -> R) (e : nat -> R) :
  Rsum (map (fun a => Rsum (map (fun c => q a c * (Rsum (map (fun j => xv a j * D j c) lj) + e c)) lc)) la)
  = Rsum (map (fun j => Rsum (map (fun c => Rsum (map (fun a => q a c * xv a j) la) * D j c) lc)) lj)
    + Rsum (map (fun c => Rsum (map (fun a => q a c) la) * e c) lc).
Proof.
  transitivity (Rsum (map (fun a => Rsum (map (fun c => Rsum (map (fun j => q a c * (xv a j * D j c)) lj)) lc)
                                    + Rsum (map (fun c => q a c * e c) lc)) la)).
  { apply Rsum_map_ext_in. intros a _. rewrite <- Rsum_map_plus. apply Rsum_map_ext_in. intros c _.
    rewrite Rsum_map_scal. ring. }
  rewrite Rsum_map_plus. f_equal.
  - transitivity (Rsum (map (fun c => Rsum (map (fun a => Rsum (map (fun j => q a c * (xv a j * D j c)) lj)) la)) lc)).
    { exact (Rsum_exchange (fun a c => Rsum (map (fun j => q a c * (xv a j * D j c)) lj)) la lc). }
    transitivity (Rsum (map (fun c => Rsum (map (fun j => Rsum (map (fun a => q a c * (xv a j * D j c)) la)) lj)) lc)).
    { apply Rsum_map_ext_in. intros c _.
      exact (Rsum_exchange (fun a j => q a c * (xv a j * D j c)) la lj). }
    transitivity (Rsum (map (fun j => Rsum (map (fun c => Rsum (map (fun a => q a c * (xv a j * D j c)) la)) lc)) lj)).
    { exact (Rsum_exchange (fun c j => Rsum (map (fun a => q a c * (xv a j * D j c)) la)) lc lj). }
    apply Rsum_map_ext_in. intros j _. apply Rsum_map_ext_in. intros c _.
    rewrite <- Rsum_map_scal_r. apply Rsum_map_ext_in. intros a _. ring.
  - transitivity (Rsum (map (fun c => Rsum (map (fun a => q a c * e c) la)) lc)).
    { exact (Rsum_exchange (fun a c => q a c * e c) la lc). }
    apply Rsum_map_ext_in. intros c _. rewrite <- Rsum_map_scal_r. reflexivity.
Qed.

(** frob2 as an indexed double sum (all rows of length k) *)
Lemma frob2_as_sum k (W : list (list R)) : (forall row, In row W -> length row = k) ->
  frob2 W = Rsum (map (fun j => Rsum (map (fun c => nth c (nth j W []) 0 * nth c (nth j W []) 0) (seq 0 k)))
                      (seq 0 (length W))).
Proof.
  intros H. unfold frob2. rewrite (Rsum_map_nth _ W []).
  apply Rsum_map_ext_in. intros j Hj. apply in_seq in Hj.
  assert (Hl : length (nth j W []) = k) by (apply H; apply nth_In; lia).
  rewrite Rdot_as_sum by reflexivity. rewrite Hl. reflexivity.
Qed.

Lemma frob2_lower k (W W' : list (list R)) :
  length W' = length W ->
  (forall row, In row W -> length row = k) -> (forall row, In row W' -> length row = k) ->
  frob2 W + 2 * Rsum (map (fun j => Rsum (map (fun c => nth c (nth j W []) 0 * Wd W' W j c) (seq 0 k))) (seq 0 (length W)))
  <= frob2 W'.
Proof.
  intros Hl HW HW'. rewrite (frob2_as_sum k W HW), (frob2_as_sum k W' HW'), Hl.
  rewrite <- Rsum_map_scal, <- Rsum_map_plus. apply Rsum_map_le. intros j _.
  rewrite <- Rsum_map_scal, <- Rsum_map_plus. apply Rsum_map_le. intros c _.
  unfold Wd. set (a := nth c (nth j W []) 0). set (a' := nth c (nth j W' []) 0).
  pose proof (Rle_0_sqr (a' - a)) as Hs. unfold Rsqr in Hs. lra.
Qed.

(** first-order inequality for the multinomial objective *)
Lemma multi_first_order k alpha X (y : list nat) W b W' b' :
  (0 < k)%nat -> 0 <= alpha -> length W' = length W ->
  (forall row, In row W -> length row = k) -> (forall row, In row W' -> length row = k) ->
  (forall x, In x X -> length x = length W) ->
  multi_loss k alpha X y W b
  + Rsum (map (fun j => Rsum (map (fun c => multi_grad_W k alpha X y W b j c * Wd W' W j c) (seq 0 k))) (seq 0 (length W)))
  + Rsum (map (fun c => multi_grad_b k X y W b c * bd b' b c) (seq 0 k))
  <= multi_loss k alpha X y W' b'.
Proof.
  intros Hk Ha Hl HW HW' Hdim. unfold multi_loss.
  set (l := combine X y).
  set (q := fun (xy : list R * nat) c => softmax (scores k W b (fst xy)) c - indic (snd xy) c).
  (* per-sample inequality, summed *)
  assert (Hs : Rsum (map (fun xy => multi_ell (snd xy) (scores k W b (fst xy))) l)
               + Rsum (map (fun xy => Rsum (map (fun c => q xy c
                     * (Rsum (map (fun j => nth j (fst xy) 0 * Wd W' W j c) (seq 0 (length W))) + bd b' b c)) (seq 0 k))) l)
               <= Rsum (map (fun xy => multi_ell (snd xy) (scores k W' b' (fst xy))) l)).
  { rewrite <- Rsum_map_plus. apply Rsum_map_le. intros [x yi] Hin. cbn [fst snd].
    apply multi_sample_first_order; auto. apply Hdim. eapply in_combine_l; exact Hin. }
  rewrite (triple_rearrange l (seq 0 k) (seq 0 (length W)) q (fun xy j => nth j (fst xy) 0) (Wd W' W) (bd b' b)) in Hs.
  pose proof (frob2_lower k W W' Hl HW HW') as Hp.
  set (P := Rsum (map (fun j => Rsum (map (fun c => nth c (nth j W []) 0 * Wd W' W j c) (seq 0 k))) (seq 0 (length W)))) in *.
  set (A := Rsum (map (fun j => Rsum (map (fun c => Rsum (map (fun a => q a c * nth j (fst a) 0) l) * Wd W' W j c) (seq 0 k)))
                      (seq 0 (length W)))) in *.
  assert (HG : Rsum (map (fun j => Rsum (map (fun c => multi_grad_W k alpha X y W b j c * Wd W' W j c) (seq 0 k))) (seq 0 (length W)))
               = A + alpha * P).
  { unfold A, P. rewrite <- Rsum_map_scal, <- Rsum_map_plus. apply Rsum_map_ext_in. intros j _.
    rewrite <- Rsum_map_scal, <- Rsum_map_plus. apply Rsum_map_ext_in. intros c _.
    unfold multi_grad_W. fold l. unfold q. ring. }
  rewrite HG. unfold multi_grad_b. fold l. fold (q).
  change (Rsum (map (fun c => Rsum (map (fun xy => softmax (scores k W b (fst xy)) c - indic (snd xy) c) l) * bd b' b c) (seq 0 k)))
    with (Rsum (map (fun c => Rsum (map (fun a => q a c) l) * bd b' b c) (seq 0 k))).
  nra.
Qed.

(** l1 distances of the parameters (indexed form) *)
Definition mat_l1dist (k : nat) (W' W : list (list R)) : R :=
  Rsum (map (fun j => Rsum (map (fun c => Rabs (Wd W' W j c)) (seq 0 k))) (seq 0 (length W))).
Definition vec_l1dist (k : nat) (b' b : list R) : R := Rsum (map (fun c => Rabs (bd b' b c)) (seq 0 k)).

Lemma prod_lower g d tau : Rabs g <= tau -> - tau * Rabs d <= g * d.
Proof.
  intros H. assert (H0 : Rabs (g * d) <= tau * Rabs d) by (rewrite Rabs_mult; pose proof (Rabs_pos d); nra).
  pose proof (Rle_abs (- (g * d))) as H1. rewrite Rabs_Ropp in H1. lra.
Qed.

(** stationarity up to tau (in every coordinate that may move) implies optimality up to tau |theta' - theta|_1 *)
Lemma multi_convex_optimal_gen k alpha X (y : list nat) W b W' b' tau :
  (0 < k)%nat -> 0 <= alpha -> 0 <= tau -> length W' = length W ->
  (forall row, In row W -> length row = k) -> (forall row, In row W' -> length row = k) ->
  (forall x, In x X -> length x = length W) ->
  (forall j c, (j < length W)%nat -> (c < k)%nat -> Rabs (multi_grad_W k alpha X y W b j c) <= tau) ->
  (forall c, (c < k)%nat -> nth c b' 0 = nth c b 0 \/ Rabs (multi_grad_b k X y W b c) <= tau) ->
  multi_loss k alpha X y W b - tau * (mat_l1dist k W' W + vec_l1dist k b' b) <= multi_loss k alpha X y W' b'.
Proof.
  intros Hk Ha Ht Hl HW HW' Hdim HgW Hgb.
  pose proof (multi_first_order k alpha X y W b W' b' Hk Ha Hl HW HW' Hdim) as H.
  assert (H1 : - tau * mat_l1dist k W' W
               <= Rsum (map (fun j => Rsum (map (fun c => multi_grad_W k alpha X y W b j c * Wd W' W j c) (seq 0 k)))
                            (seq 0 (length W)))).
  { unfold mat_l1dist. rewrite <- Rsum_map_scal. apply Rsum_map_le. intros j Hj. apply in_seq in Hj.
    rewrite <- Rsum_map_scal. apply Rsum_map_le. intros c Hc. apply in_seq in Hc.
    apply prod_lower. apply HgW; lia. }
  assert (H2 : - tau * vec_l1dist k b' b <= Rsum (map (fun c => multi_grad_b k X y W b c * bd b' b c) (seq 0 k))).
  { unfold vec_l1dist. rewrite <- Rsum_map_scal. apply Rsum_map_le. intros c Hc. apply in_seq in Hc.
    destruct (Hgb c ltac:(lia)) as [E|E].
    - unfold bd. rewrite E. replace (nth c b 0 - nth c b 0) with 0 by ring. rewrite Rabs_R0. lra.
    - apply prod_lower. exact E. }
  lra.
Qed.

Lemma multi_convex_optimal k alpha X (y : list nat) W b W' b' tau :
  (0 < k)%nat -> 0 <= alpha -> 0 <= tau -> length W' = length W ->
  (forall row, In row W -> length row = k) -> (forall row, In row W' -> length row = k) ->
  (forall x, In x X -> length x = length W) ->
  (forall j c, (j < length W)%nat -> (c < k)%nat -> Rabs (multi_grad_W k alpha X y W b j c) <= tau) ->
  (forall c, (c < k)%nat -> Rabs (multi_grad_b k X y W b c) <= tau) ->
  multi_loss k alpha X y W b - tau * (mat_l1dist k W' W + vec_l1dist k b' b) <= multi_loss k alpha X y W' b'.
Proof. intros. apply multi_convex_optimal_gen; auto. Qed.

(** the stationarity certificate of a run, turned into a global near-optimality statement *)
Lemma multi_ok_shape k alpha icpt X y W b tol : multi_ok k alpha icpt X y W b tol = true ->
  length (rvec b) = k /\ (forall row, In row (rmat W) -> length row = k) /\
  (icpt = false -> forall c, nth c (rvec b) 0 = 0).
Proof.
  unfold multi_ok. intros H. apply andb_true_iff in H as [_ H].
  repeat (apply andb_true_iff in H as [H ?]).
  split; [|split].
  - unfold rvec. rewrite map_length. apply Nat.eqb_eq. assumption.
  - intros row Hr. unfold rmat in Hr. apply in_map_iff in Hr as [r0 [E Hr]]. subst row.
    unfold rvec. rewrite map_length.
    match goal with Hf : forallb _ W = true |- _ => rewrite forallb_forall in Hf; apply Nat.eqb_eq; apply Hf; exact Hr end.
  - intros Ei c. subst icpt.
    match goal with Hz : (false || _)%bool = true |- _ => simpl in Hz; rewrite forallb_forall in Hz; rename Hz into Hzero end.
    destruct (Nat.lt_ge_cases c (length (rvec b))) as [Hc|Hc]; [|apply nth_overflow; exact Hc].
    assert (Hin : In (nth c (rvec b) 0) (rvec b)) by (apply nth_In; exact Hc).
    unfold rvec in Hin |- *. apply in_map_iff in Hin as [v [E Hv]]. rewrite <- E.
    specialize (Hzero v Hv). apply Qeq_bool_R in Hzero. unfold f64_R. rewrite Hzero. apply RMicromega.Q2R_0.
Qed.

Lemma multi_grad_in_W k alpha icpt X y W b j c : (j < length W)%nat -> (c < k)%nat ->
  In (multi_grad_W k alpha X y W b j c) (multi_grad k alpha icpt X y W b).
Proof.
  intros Hj Hc. unfold multi_grad. apply in_or_app. left. apply in_flat_map. exists j. split.
  - apply in_seq. lia.
  - apply in_map_iff. exists c. split; [reflexivity|apply in_seq; lia].
Qed.
Lemma multi_grad_in_b k alpha X y W b c : (c < k)%nat ->
  In (multi_grad_b k X y W b c) (multi_grad k alpha true X y W b).
Proof.
  intros Hc. unfold multi_grad. apply in_or_app. right. apply in_map_iff. exists c. split; [reflexivity|apply in_seq; lia].
Qed.

Lemma multi_fit_near_optimal_lemma k alpha icpt X y W b tol :
  multi_ok k alpha icpt X y W b tol = true -> (0 < k)%nat -> 0 <= f64_R alpha ->
  (forall x, In x (rmat X) -> length x = length (rmat W)) ->
  forall W' b', length W' = length (rmat W) -> (forall row, In row W' -> length row = k) ->
  (icpt = false -> forall c, nth c b' 0 = 0) ->
  multi_loss k (f64_R alpha) (rmat X) y (rmat W) (rvec b)
  - tauR tol * (mat_l1dist k W' (rmat W) + vec_l1dist k b' (rvec b))
  <= multi_loss k (f64_R alpha) (rmat X) y W' b'.
Proof.
  intros H Hk Ha Hdim W' b' Hl HW' Hb'.
  destruct (multi_ok_shape _ _ _ _ _ _ _ _ H) as [_ [HW Hz]].
  destruct (multi_certified _ _ _ _ _ _ _ _ H Hdim) as [_ [_ [_ Hg]]].
  assert (Ht : 0 <= tauR tol).
  { unfold multi_ok in H. apply andb_true_iff in H as [H _]. apply tol_nonneg; exact H. }
  apply multi_convex_optimal_gen; auto.
  - intros j c Hj Hc. apply Hg. apply multi_grad_in_W; assumption.
  - intros c Hc. destruct icpt.
    + right. apply Hg. apply multi_grad_in_b; assumption.
    + left. rewrite (Hb' eq_refl c), (Hz eq_refl c). reflexivity.
Qed.

(** non-vacuity: at W = 0, b = 0 on balanced two-class data the gradient vanishes *)
Example multi_convex_nonvacuous :
  let X := [[0]; [1]; [0]; [1]] in let y := [0%nat; 1%nat; 1%nat; 0%nat] in
  (forall j c, (j < 1)%nat -> (c < 2)%nat -> Rabs (multi_grad_W 2 1 X y [[0; 0]] [0; 0] j c) <= 0) /\
  (forall c, (c < 2)%nat -> Rabs (multi_grad_b 2 X y [[0; 0]] [0; 0] c) <= 0).
Proof.
  assert (E : forall x, softmax (scores 2 [[0; 0]] [0; 0] [x]) 0 = 1 / 2 /\ softmax (scores 2 [[0; 0]] [0; 0] [x]) 1 = 1 / 2).
  { intros x. unfold softmax, scores, sumexp, col, Rsum. simpl.
    repeat match goal with |- context [exp ?t] => replace t with 0 by ring; rewrite exp_0 end. split; field. }
  split.
  - intros j c Hj Hc. assert (j = 0%nat) by lia. subst j.
    assert (Hc' : c = 0%nat \/ c = 1%nat) by lia.
    unfold multi_grad_W, Rsum. cbn [combine map fst snd fold_right nth].
    destruct (E 0) as [E00 E01]. destruct (E 1) as [E10 E11].
    destruct Hc' as [-> | ->]; rewrite ?E00, ?E01, ?E10, ?E11; unfold indic; simpl;
      match goal with |- Rabs ?e <= 0 => replace e with 0 by field end; rewrite Rabs_R0; lra.
  - intros c Hc. assert (Hc' : c = 0%nat \/ c = 1%nat) by lia.
    unfold multi_grad_b, Rsum. cbn [combine map fst snd fold_right nth].
    destruct (E 0) as [E00 E01]. destruct (E 1) as [E10 E11].
    destruct Hc' as [-> | ->]; rewrite ?E00, ?E01, ?E10, ?E11; unfold indic; simpl;
      match goal with |- Rabs ?e <= 0 => replace e with 0 by field end; rewrite Rabs_R0; lra.
Qed.

(** log-sum-exp is convex along segments *)
Lemma lse_convex {A} (g g' : A -> R) (l : list A) t : l <> [] -> 0 <= t <= 1 ->
  ln (Rsum (map (fun c => exp (t * g c + (1 - t) * g' c)) l))
  <= t * ln (Rsum (map (fun c => exp (g c)) l)) + (1 - t) * ln (Rsum (map (fun c => exp (g' c)) l)).
Proof.
  intros Hne Ht. set (m := fun c => t * g c + (1 - t) * g' c).
  pose proof (lse_first_order m g l Hne) as H1. pose proof (lse_first_order m g' l Hne) as H2.
  cbv zeta in H1, H2. change (fun c => exp (t * g c + (1 - t) * g' c)) with (fun c => exp (m c)).
  set (T := Rsum (map (fun c => exp (m c)) l)) in *.
  set (S1 := Rsum (map (fun c => exp (m c) / T * (g c - m c)) l)) in *.
  set (S2 := Rsum (map (fun c => exp (m c) / T * (g' c - m c)) l)) in *.
  assert (E : t * S1 + (1 - t) * S2 = 0).
  { unfold S1, S2. rewrite <- !Rsum_map_scal, <- Rsum_map_plus.
    rewrite <- (Rsum_map_zero l). apply Rsum_map_ext_in. intros c _. unfold m. ring. }
  assert (G1 : t * (ln T + S1) <= t * ln (Rsum (map (fun c => exp (g c)) l))) by (apply Rmult_le_compat_l; lra).
  assert (G2 : (1 - t) * (ln T + S2) <= (1 - t) * ln (Rsum (map (fun c => exp (g' c)) l))) by (apply Rmult_le_compat_l; lra).
  lra.
Qed.

(** * Objectives of the form sum_i ell(y_i, x_i.w + b) + c |w|^2 with a convex per-sample term *)
Definition tangent_ok (ell phi : R -> R -> R) (yi : R) : Prop :=
  forall z z', ell yi z + phi yi z * (z' - z) <= ell yi z'.

Lemma glin_first_order (ell phi : R -> R -> R) c X y w b w' b' :
  0 <= c -> length w' = length w -> (forall x, In x X -> length x = length w) ->
  (forall x yi, In (x, yi) (combine X y) -> tangent_ok ell phi yi) ->
  glin_obj ell c X y w b
  + Rdot (map (glin_grad_w phi (2 * c) X y w b) (seq 0 (length w))) (vsub w' w)
  + glin_grad_b phi X y w b * (b' - b)
  <= glin_obj ell c X y w' b'.
Proof.
  intros Ha Hl Hdim Htan. unfold glin_obj, glin_grad_w, glin_grad_b.
  set (d := vsub w' w). set (e := b' - b).
  assert (Hd : length d = length w).
  { unfold d, vsub. clear -Hl. revert w Hl. induction w' as [|a w' IH]; intros [|c0 w] H; simpl in *; try lia. rewrite IH; lia. }
  assert (Hs : Rsum (map (fun xy => ell (snd xy) (lin (fst xy) w b)) (combine X y))
               + Rsum (map (fun xy => phi (snd xy) (lin (fst xy) w b) * (Rdot (fst xy) d + e)) (combine X y))
               <= Rsum (map (fun xy => ell (snd xy) (lin (fst xy) w' b')) (combine X y))).
  { rewrite <- Rsum_map_plus. apply Rsum_map_le. intros [x yi] Hin. cbn [fst snd].
    pose proof (Htan x yi Hin (lin x w b) (lin x w' b')) as T.
    replace (lin x w' b' - lin x w b) with (Rdot x d + e) in T; [exact T|].
    unfold lin, d, e. rewrite <- Rdot_vsub by exact Hl. ring. }
  assert (Hx : Rsum (map (fun xy => phi (snd xy) (lin (fst xy) w b) * (Rdot (fst xy) d + e)) (combine X y))
               = Rdot (map (fun j => Rsum (map (fun xy => phi (snd xy) (lin (fst xy) w b) * nth j (fst xy) 0) (combine X y))) (seq 0 (length w))) d
                 + Rsum (map (fun xy => phi (snd xy) (lin (fst xy) w b)) (combine X y)) * e).
  { rewrite <- Hd.
    rewrite <- (sum_dot_exchange (fun xy => phi (snd xy) (lin (fst xy) w b)) fst (combine X y) d).
    - apply (Rsum_split_lin (fun xy => phi (snd xy) (lin (fst xy) w b)) (fun xy => Rdot (fst xy) d)).
    - intros [x yi] Hin. simpl. rewrite Hd. apply Hdim. eapply in_combine_l; exact Hin. }
  pose proof (Rdot_sq_lower w' w Hl) as Hp. fold d in Hp.
  rewrite (Rdot_map_add (fun j => Rsum (map (fun xy => phi (snd xy) (lin (fst xy) w b) * nth j (fst xy) 0) (combine X y)))
                        (fun j => 2 * c * nth j w 0)).
  rewrite Rdot_map_scal, map_nth_seq.
  nra.
Qed.

Lemma glin_convex_optimal (ell phi : R -> R -> R) c X y w b w' b' tau :
  0 <= c -> 0 <= tau -> length w' = length w -> (forall x, In x X -> length x = length w) ->
  (forall x yi, In (x, yi) (combine X y) -> tangent_ok ell phi yi) ->
  (forall j, (j < length w)%nat -> Rabs (glin_grad_w phi (2 * c) X y w b j) <= tau) ->
  (b' = b \/ Rabs (glin_grad_b phi X y w b) <= tau) ->
  glin_obj ell c X y w b - tau * (l1norm (vsub w' w) + Rabs (b' - b)) <= glin_obj ell c X y w' b'.
Proof.
  intros Ha Ht Hl Hdim Htan Hg Hb.
  pose proof (glin_first_order ell phi c X y w b w' b' Ha Hl Hdim Htan) as H.
  assert (H1 : - tau * l1norm (vsub w' w) <= Rdot (map (glin_grad_w phi (2 * c) X y w b) (seq 0 (length w))) (vsub w' w)).
  { apply Rdot_lower_bound; [exact Ht|]. intros gj Hin. apply in_map_iff in Hin as [j [E Hj]]. subst gj.
    apply Hg. apply in_seq in Hj. lia. }
  assert (H2 : - tau * Rabs (b' - b) <= glin_grad_b phi X y w b * (b' - b)).
  { destruct Hb as [E|E].
    - subst b'. replace (b - b) with 0 by ring. rewrite Rabs_R0. lra.
    - apply prod_lower. exact E. }
  lra.
Qed.

(** * Tangent inequalities of the convex Tweedie terms *)
Lemma exp_tangent z z' : exp z + exp z * (z' - z) <= exp z'.
Proof.
  pose proof (exp_ineq1_le (z' - z)) as H. pose proof (exp_pos z) as P.
  replace (exp z') with (exp z * exp (z' - z)) by (rewrite <- exp_plus; f_equal; ring). nra.
Qed.

(* a exp(c z) is convex for a >= 0 *)
Lemma scaled_exp_tangent a c z z' : 0 <= a ->
  a * exp (c * z) + a * c * exp (c * z) * (z' - z) <= a * exp (c * z').
Proof.
  intros Ha. pose proof (exp_tangent (c * z) (c * z')) as H.
  replace (c * z' - c * z) with (c * (z' - z)) in H by ring. nra.
Qed.

(** Normal deviance, identity link: 1/2 (y - z)^2 *)
Lemma normal_identity_tangent y : tangent_ok (glm_ell dev_normal Identity) (glm_phi dev_deriv_normal Identity) y.
Proof.
  intros z z'. unfold glm_ell, glm_phi, dev_normal, dev_deriv_normal, inv_link, inv_link_deriv.
  pose proof (Rle_0_sqr (z' - z)) as H. unfold Rsqr in H. nra.
Qed.

Lemma Rpower_exp z a : Rpower (exp z) a = exp (a * z).
Proof. unfold Rpower. rewrite ln_exp. reflexivity. Qed.

(** Poisson deviance (p = 1), log link: y ln(y / e^z) - y + e^z, targets y >= 0 *)
Lemma poisson_log_tangent y : 0 <= y -> tangent_ok (glm_ell dev_poisson Log) (glm_phi (dev_deriv 1) Log) y.
Proof.
  intros Hy z z'. unfold glm_ell, glm_phi, dev_poisson, dev_deriv, inv_link, inv_link_deriv.
  rewrite Rpower_exp, Rmult_1_l.
  pose proof (exp_tangent z z') as T. pose proof (exp_pos z) as P. pose proof (exp_pos z') as P'.
  replace (/ 2 * (-2 * (y - exp z) / exp z * exp z)) with (exp z - y) by (field; lra).
  destruct (Req_EM_T y 0) as [E|E].
  - subst y. lra.
  - assert (Hy' : 0 < y) by lra.
    unfold Rdiv. rewrite !ln_mult, !ln_Rinv, !ln_exp by (try apply Rinv_0_lt_compat; assumption). nra.
Qed.

(** Gamma deviance (p = 2), log link: ln(e^z / y) + y e^-z - 1, targets y > 0 *)
Lemma gamma_log_tangent y : 0 < y -> tangent_ok (glm_ell dev_gamma Log) (glm_phi (dev_deriv 2) Log) y.
Proof.
  intros Hy z z'. unfold glm_ell, glm_phi, dev_gamma, dev_deriv, inv_link, inv_link_deriv.
  rewrite Rpower_exp.
  pose proof (exp_pos z) as P. pose proof (exp_pos z') as P'. pose proof (exp_pos (2 * z)) as P2.
  assert (E2 : exp (2 * z) = exp z * exp z) by (rewrite <- exp_plus; f_equal; ring).
  replace (/ 2 * (-2 * (y - exp z) / exp (2 * z) * exp z)) with (1 - y * exp (- z))
    by (rewrite E2, exp_Ropp; field; lra).
  unfold Rdiv. rewrite !ln_mult, !ln_Rinv, !ln_exp by (try apply Rinv_0_lt_compat; assumption).
  rewrite <- !exp_Ropp.
  pose proof (scaled_exp_tangent y (-1) z z' (Rlt_le _ _ Hy)) as T.
  replace (-1 * z) with (- z) in T by ring. replace (-1 * z') with (- z') in T by ring. nra.
Qed.

(** compound Poisson-Gamma deviance (1 < p < 2), log link, targets y >= 0:
    -y e^((1-p) z) / (1-p) + e^((2-p) z) / (2-p) + const *)
Lemma general_log_tangent p y : 1 < p < 2 -> 0 <= y ->
  tangent_ok (glm_ell (dev_general p) Log) (glm_phi (dev_deriv p) Log) y.
Proof.
  intros [Hp1 Hp2] Hy z z'. unfold glm_ell, glm_phi, dev_general, dev_deriv, inv_link, inv_link_deriv.
  rewrite !Rpower_exp.
  pose proof (exp_pos (p * z)) as Pp.
  assert (Ea : exp z / exp (p * z) = exp ((1 - p) * z)).
  { replace ((1 - p) * z) with (z + - (p * z)) by ring. rewrite exp_plus, exp_Ropp. reflexivity. }
  assert (Eb : exp z * exp z / exp (p * z) = exp ((2 - p) * z)).
  { replace ((2 - p) * z) with (z + z + - (p * z)) by ring. rewrite !exp_plus, exp_Ropp. reflexivity. }
  replace (/ 2 * (-2 * (y - exp z) / exp (p * z) * exp z))
    with (- y * (exp z / exp (p * z)) + exp z * exp z / exp (p * z)) by (field; lra).
  rewrite Ea, Eb.
  assert (Ha : 0 <= y / (p - 1)) by (apply Rmult_le_pos; [lra|left; apply Rinv_0_lt_compat; lra]).
  assert (Hb : 0 <= / (2 - p)) by (left; apply Rinv_0_lt_compat; lra).
  pose proof (scaled_exp_tangent (y / (p - 1)) (1 - p) z z' Ha) as T1.
  pose proof (scaled_exp_tangent (/ (2 - p)) (2 - p) z z' Hb) as T2.
  replace (y / (p - 1) * (1 - p)) with (- y) in T1 by (field; lra).
  replace (/ (2 - p) * (2 - p)) with 1 in T2 by (field; lra).
  replace (y * exp ((1 - p) * z) / (1 - p)) with (- (y / (p - 1) * exp ((1 - p) * z))) by (field; lra).
  replace (y * exp ((1 - p) * z') / (1 - p)) with (- (y / (p - 1) * exp ((1 - p) * z'))) by (field; lra).
  replace (exp ((2 - p) * z) / (2 - p)) with (/ (2 - p) * exp ((2 - p) * z)) by (unfold Rdiv; ring).
  replace (exp ((2 - p) * z') / (2 - p)) with (/ (2 - p) * exp ((2 - p) * z')) by (unfold Rdiv; ring).
  set (A1 := y / (p - 1) * exp ((1 - p) * z)) in *. set (A1' := y / (p - 1) * exp ((1 - p) * z')) in *.
  set (A2 := / (2 - p) * exp ((2 - p) * z)) in *. set (A2' := / (2 - p) * exp ((2 - p) * z')) in *.
  set (K := pow_nn y (2 - p) / ((1 - p) * (2 - p))).
  lra.
Qed.

(** the convex members of the Tweedie family: identity link with the Normal deviance, log link
    with the Poisson, compound Poisson-Gamma (1 < p < 2) and Gamma deviances.  (Other combinations
    are not convex in the linear predictor in general: e.g. p = 3 with the log link contains
    the concave term -e^-z, and p = 0 with the log link contains -2 y e^z.) *)
Definition glm_convex_family (p : Q) (l : link) (dev : R -> R -> R) : Prop :=
  (Qeq_bool p 0 = true /\ l = Identity /\ dev = dev_normal) \/
  (l = Log /\ ((Q2R p = 1 /\ dev = dev_poisson) \/ (Q2R p = 2 /\ dev = dev_gamma) \/
               (1 < Q2R p < 2 /\ dev = dev_general (Q2R p)))).

Lemma Qeq_bool_0_R p : Qeq_bool p 0 = true -> Q2R p = 0.
Proof. intros H. apply Qeq_bool_R in H. rewrite H. apply RMicromega.Q2R_0. Qed.

Lemma glm_convex_family_ok p l dev : glm_convex_family p l dev -> glm_family_ok p l dev.
Proof.
  intros [[E [_ D]]|[El D]]; [left; auto|right].
  assert (Hn : Qeq_bool p 0 = false).
  { destruct (Qeq_bool p 0) eqn:E; [|reflexivity]. apply Qeq_bool_0_R in E.
    destruct D as [[P _]|[[P _]|[P _]]]; lra. }
  split; [exact Hn|]. split; [subst l; discriminate|].
  destruct D as [[P D]|[[P D]|[P D]]]; [left; auto|right; left; auto|right; right; repeat split; auto; lra].
Qed.

Lemma glm_family_tangent p l dev yi : glm_convex_family p l dev ->
  (Qeq_bool p 0 = true \/ (Q2R p = 2 /\ 0 < yi) \/ (Q2R p <> 2 /\ 0 <= yi)) ->
  tangent_ok (glm_ell dev l) (glm_phi (ddev_of p) l) yi.
Proof.
  intros Hf Hy. unfold ddev_of. destruct Hf as [[E [El D]]|[El D]].
  - rewrite E. subst l dev. apply normal_identity_tangent.
  - assert (Hn : Qeq_bool p 0 = false).
    { destruct (Qeq_bool p 0) eqn:E; [|reflexivity]. apply Qeq_bool_0_R in E.
      destruct D as [[P _]|[[P _]|[P _]]]; lra. }
    rewrite Hn. subst l. destruct Hy as [Hy|Hy]; [congruence|].
    destruct D as [[P D]|[[P D]|[P D]]]; subst dev.
    + rewrite P. apply poisson_log_tangent. destruct Hy as [[Q _]|[_ Q]]; [lra|exact Q].
    + rewrite P. apply gamma_log_tangent. destruct Hy as [[_ Q]|[Q _]]; [exact Q|contradiction].
    + apply general_log_tangent; [exact P|]. destruct Hy as [[Q _]|[_ Q]]; [lra|exact Q].
Qed.

Lemma glm_convex_optimal_lemma p l dev alpha X y w b w' b' tau :
  glm_convex_family p l dev -> glm_targets_ok p y ->
  0 <= alpha -> 0 <= tau -> length w' = length w -> (forall x, In x X -> length x = length w) ->
  (forall j, (j < length w)%nat -> Rabs (glm_grad_w (ddev_of p) l alpha X y w b j) <= tau) ->
  Rabs (glm_grad_b (ddev_of p) l X y w b) <= tau ->
  glm_loss dev l alpha X y w b - tau * (l1norm (vsub w' w) + Rabs (b' - b)) <= glm_loss dev l alpha X y w' b'.
Proof.
  intros Hf Hy Ha Ht Hl Hdim Hg Hb. unfold glm_loss.
  apply (glin_convex_optimal (glm_ell dev l) (glm_phi (ddev_of p) l)); auto; try lra.
  - intros x yi Hin. apply glm_family_tangent; [exact Hf|].
    apply in_combine_r in Hin. destruct Hy as [E|[[E Q]|[E Q]]]; auto.
  - intros j Hj. replace (2 * (alpha / 2)) with alpha by field. apply Hg. exact Hj.
Qed.

(** * Certificates of a run as global near-optimality (convex objectives) *)
Lemma glin_certified_optimal (ell phi : R -> R -> R) alpha icpt X y w b tau :
  0 <= alpha -> 0 <= tau -> (forall x, In x X -> length x = length w) ->
  (forall x yi, In (x, yi) (combine X y) -> tangent_ok ell phi yi) ->
  (forall gj, In gj (glin_grad phi alpha icpt X y w b) -> Rabs gj <= tau) ->
  forall w' b', length w' = length w -> (icpt = false -> b' = b) ->
  glin_obj ell (alpha / 2) X y w b - tau * (l1norm (vsub w' w) + Rabs (b' - b)) <= glin_obj ell (alpha / 2) X y w' b'.
Proof.
  intros Ha Ht Hdim Htan Hg w' b' Hl Hb.
  apply (glin_convex_optimal ell phi); auto; try lra.
  - intros j Hj. replace (2 * (alpha / 2)) with alpha by field. apply Hg. unfold glin_grad.
    apply in_or_app. left. apply in_map_iff. exists j. split; [reflexivity|apply in_seq; lia].
  - destruct icpt; [right|left; auto].
    apply Hg. unfold glin_grad. apply in_or_app. right. left. reflexivity.
Qed.

Lemma ok_icpt_zero (icpt : bool) b : (icpt || Qeq_bool (f64_Q b) 0)%bool = true -> icpt = false -> f64_R b = 0.
Proof. intros H E. subst icpt. simpl in H. unfold f64_R. apply Qeq_bool_0_R. exact H. Qed.

Lemma binary_fit_near_optimal_lemma alpha icpt X t w b tol :
  bin_ok alpha icpt X t w b tol = true -> 0 <= f64_R alpha ->
  (forall x, In x (rmat X) -> length x = length (rvec w)) ->
  forall w' b', length w' = length (rvec w) -> (icpt = false -> b' = 0) ->
  bin_loss (f64_R alpha) (rmat X) (map sign_R t) (rvec w) (f64_R b)
  - tauR tol * (l1norm (vsub w' (rvec w)) + Rabs (b' - f64_R b))
  <= bin_loss (f64_R alpha) (rmat X) (map sign_R t) w' b'.
Proof.
  intros H Ha Hdim w' b' Hl Hb.
  destruct (binary_certified _ _ _ _ _ _ _ H Hdim) as [_ [_ [_ Hg]]].
  assert (Ht : 0 <= tauR tol).
  { unfold bin_ok in H. apply andb_true_iff in H as [H _]. apply tol_nonneg; exact H. }
  assert (Hz : icpt = false -> f64_R b = 0).
  { unfold bin_ok in H. apply andb_true_iff in H as [_ H]. repeat (apply andb_true_iff in H as [H ?]).
    apply ok_icpt_zero. assumption. }
  unfold bin_loss. apply (glin_certified_optimal bin_ell bin_phi _ icpt); auto.
  - intros x yi _ z z'. apply bin_ell_tangent.
  - intros E. rewrite (Hb E), (Hz E). reflexivity.
Qed.

Lemma glm_fit_near_optimal_lemma p l dev alpha icpt X y w b tol :
  glm_ok p l alpha icpt X y w b tol = true ->
  glm_convex_family (f64_Q p) l dev -> glm_targets_ok (f64_Q p) (rvec y) -> 0 <= f64_R alpha ->
  (forall x, In x (rmat X) -> length x = length (rvec w)) ->
  forall w' b', length w' = length (rvec w) -> (icpt = false -> b' = 0) ->
  glm_loss dev l (f64_R alpha) (rmat X) (rvec y) (rvec w) (f64_R b)
  - tauR tol * (l1norm (vsub w' (rvec w)) + Rabs (b' - f64_R b))
  <= glm_loss dev l (f64_R alpha) (rmat X) (rvec y) w' b'.
Proof.
  intros H Hf Hy Ha Hdim w' b' Hl Hb.
  destruct (glm_certified _ _ dev _ _ _ _ _ _ _ H (glm_convex_family_ok _ _ _ Hf) Hy Hdim) as [_ [_ [_ Hg]]].
  assert (Ht : 0 <= tauR tol).
  { unfold glm_ok in H. apply andb_true_iff in H as [H _]. apply tol_nonneg; exact H. }
  assert (Hz : icpt = false -> f64_R b = 0).
  { unfold glm_ok in H. apply andb_true_iff in H as [_ H]. repeat (apply andb_true_iff in H as [H ?]).
    apply ok_icpt_zero. assumption. }
  unfold glm_loss. apply (glin_certified_optimal (glm_ell dev l) (glm_phi (ddev_of (f64_Q p)) l) _ icpt); auto.
  - intros x yi Hin. apply glm_family_tangent; [exact Hf|].
    apply in_combine_r in Hin. destruct Hy as [E|[[E Q]|[E Q]]]; auto.
  - intros E. rewrite (Hb E), (Hz E). reflexivity.
Qed.

(** non-vacuity: the Poisson / log instance accepted by the checker in Proofs.v (glm_ok_example) is in the convex family *)
Example glm_convex_family_example : glm_convex_family (f64_Q 1%float) Log dev_poisson /\ glm_targets_ok (f64_Q 1%float) [1; 3; 3; 1].
Proof.
  assert (E : Q2R (f64_Q 1%float) = 1) by (vm_compute f64_Q; unfold Q2R; simpl; lra).
  split.
  - right. split; [reflexivity|]. left. split; [exact E|reflexivity].
  - right. right. split; [lra|]. intros v Hv. simpl in Hv. intuition lra.
Qed.

(** a non-convex member: the Normal deviance with the log link, 1/2 (y - e^z)^2, is not convex in z
    (second derivative e^z (2 e^z - y) < 0 for e^z < y / 2); for y = 4 the tangent at z = 0
    overshoots the function at z' = -2 *)
Example normal_log_not_convex : ~ tangent_ok (glm_ell dev_normal Log) (glm_phi dev_deriv_normal Log) 4.
Proof.
  intros H. specialize (H 0 (-2)).
  unfold glm_ell, glm_phi, dev_normal, dev_deriv_normal, inv_link, inv_link_deriv in H.
  rewrite exp_0 in H.
  pose proof (exp_pos (-2)) as P.
  assert (U : exp (-2) < 1) by (rewrite <- exp_0; apply exp_increasing; lra).
  nra.
Qed.

(** list form of the first-order inequality, with the softmax as the gradient of log-sum-exp *)
Lemma lse_first_order_list (s s' : list R) : s <> [] -> length s' = length s ->
  ln (sumexp s) + Rsum (map (fun c => softmax s c * (nth c s' 0 - nth c s 0)) (seq 0 (length s))) <= ln (sumexp s').
Proof.
  intros Hne Hl.
  assert (Hs : seq 0 (length s) <> []) by (destruct s; [congruence|discriminate]).
  pose proof (lse_first_order (fun c => nth c s 0) (fun c => nth c s' 0) (seq 0 (length s)) Hs) as H.
  cbv beta zeta in H.
  assert (E : Rsum (map (fun c => exp (nth c s 0)) (seq 0 (length s))) = sumexp s)
    by (symmetry; apply (Rsum_map_nth exp s 0)).
  assert (E' : Rsum (map (fun c => exp (nth c s' 0)) (seq 0 (length s))) = sumexp s')
    by (rewrite <- Hl; symmetry; apply (Rsum_map_nth exp s' 0)).
  rewrite E, E' in H. exact H.
Qed.

Example lse_first_order_example :
  ln (sumexp [0; 0]) + Rsum (map (fun c => softmax [0; 0] c * (nth c [1; -1] 0 - nth c [0; 0] 0)) (seq 0 2)) <= ln (sumexp [1; -1]).
Proof. apply (lse_first_order_list [0; 0] [1; -1]); [discriminate|reflexivity]. Qed.
