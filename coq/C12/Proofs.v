(** C12 - lemmas (work in progress: extended below) *)
From Coq Require Import List NArith ZArith QArith Qreals Reals Bool Lra Lia.
From LinfaVerif Require Import Common.Num Common.NdSum Common.QF Common.IvEval C12.Model C12.Checker.
Import ListNotations.
Local Open Scope R_scope.

Lemma logistic_unit z : 0 < 1 / (1 + exp (- z)) < 1.
Proof.
  pose proof (exp_pos (- z)) as H. split.
  - apply Rdiv_lt_0_compat; lra.
  - apply Rmult_lt_reg_r with (1 + exp (- z)); [lra|]. field_simplify; lra.
Qed.
