(** C12 - lemmas: soundness of the stationarity checkers (Checker.v) with respect to the
    closed-form gradients of Model.v, the closed forms are the partial derivatives of the
    documented objectives (Coquelicot), and facts about the label coding / probability /
    decision models. *)
From Coq Require Import List NArith ZArith QArith Qreals Reals Bool Lra Lia Floats Permutation.
From Interval Require Import Xreal Interval.
From Coquelicot Require Import Coquelicot.
From LinfaVerif Require Import Common.Num Common.NdSum Common.QF Common.IvEval C12.Model C12.Checker.
Import ListNotations.
Local Open Scope R_scope.

(** * Small facts *)
Lemma Q2R_Qred q : Q2R (Qred q) = Q2R q.
Proof. apply Qeq_eqR. apply Qred_correct. Qed.

Lemma Q2R_nth j (x : list Q) : Q2R (nth j x 0%Q) = nth j (map Q2R x) 0.
Proof. rewrite <- RMicromega.Q2R_0. apply eq_sym, map_nth. Qed.

Lemma Q2R_Qlin x w b : Q2R (Qlin x w b) = lin (map Q2R x) (map Q2R w) (Q2R b).
Proof. unfold Qlin, lin. rewrite Q2R_Qred, Q2R_plus, Q2R_dot. reflexivity. Qed.

Lemma map2_map {A B C A' B'} (g : A' -> B' -> C) (h : A -> A') (h' : B -> B') (X : list A) :
  forall y, map2 g (map h X) (map h' y) = map2 (fun a b => g (h a) (h' b)) X y.
Proof. induction X as [|a X IH]; intros [|b y]; simpl; auto. rewrite IH. reflexivity. Qed.

Lemma Forall2_map2 {A B U V} (P : U -> V -> Prop) (f : A -> B -> U) (g : A -> B -> V) :
  (forall a b, P (f a b) (g a b)) -> forall X y, Forall2 P (map2 f X y) (map2 g X y).
Proof. intros H X. induction X as [|a X IH]; intros [|b y]; simpl; constructor; auto. Qed.

Lemma Forall2_map_seq {U V} (P : U -> V -> Prop) (f : nat -> U) (g : nat -> V) l :
  (forall j, P (f j) (g j)) -> Forall2 P (map f l) (map g l).
Proof. intros H. induction l; simpl; constructor; auto. Qed.

Lemma Forall2_app' {U V} (P : U -> V -> Prop) a b c d :
  Forall2 P a b -> Forall2 P c d -> Forall2 P (a ++ c) (b ++ d).
Proof. induction 1; simpl; auto. Qed.

Lemma Rsum_fold l : Rsum l = fold_right Rplus 0 l.
Proof. reflexivity. Qed.

(** linear combination = the sum the gradient formulas use *)
Lemma r_lincomb_sum (G : list R -> R -> R) (j : nat) (X : list (list R)) :
  forall y, r_lincomb (map (fun x => nth j x 0) X) (map2 G X y)
            = Rsum (map (fun xy => G (fst xy) (snd xy) * nth j (fst xy) 0) (combine X y)).
Proof.
  induction X as [|x X IH]; intros [|yi y]; simpl; auto. rewrite IH. unfold Rsum. simpl. lra.
Qed.

Lemma fold_sum_map2 (G : list R -> R -> R) (X : list (list R)) :
  forall y, fold_right Rplus 0 (map2 G X y) = Rsum (map (fun xy => G (fst xy) (snd xy)) (combine X y)).
Proof. induction X as [|x X IH]; intros [|yi y]; simpl; auto. rewrite IH. reflexivity. Qed.

(** * Soundness of the generic checker *)

Lemma norm2_le_sound comps rs tau2 :
  Forall2 encl comps rs -> norm2_le comps tau2 = true -> Rsum (map Rsqr rs) <= Q2R tau2.
Proof.
  intros H E. unfold norm2_le in E.
  apply (iv_le_i_sound prec _ _ _ _ (iv_sumsq_encl prec _ _ H) (iv_q_encl prec tau2) E).
Qed.

Lemma glin_ok_sound (phi_i : Q -> Q -> I.type) (phi : R -> R -> R) :
  (forall y z, encl (phi_i y z) (phi (Q2R y) (Q2R z))) ->
  forall c2 icpt X y w b tau2,
  glin_ok phi_i c2 icpt X y w b tau2 = true ->
  Rsum (map Rsqr (glin_grad phi (Q2R c2) icpt (map (map Q2R) X) (map Q2R y) (map Q2R w) (Q2R b))) <= Q2R tau2.
Proof.
  intros Hphi c2 icpt X y w b tau2 H. unfold glin_ok in H.
  apply andb_true_iff in H as [_ H].
  set (XR := map (map Q2R) X). set (yR := map Q2R y). set (wR := map Q2R w). set (bR := Q2R b).
  set (G := fun (x : list R) (yi : R) => phi yi (lin x wR bR)).
  set (phis := map2 (fun x yi => phi_i yi (Qlin x w b)) X y) in *.
  assert (Hp : Forall2 encl phis (map2 G XR yR)).
  { unfold XR, yR. rewrite map2_map. apply Forall2_map2. intros x yi. unfold G.
    unfold wR, bR. rewrite <- Q2R_Qlin. apply Hphi. }
  apply (norm2_le_sound _ (glin_grad phi (Q2R c2) icpt XR yR wR bR)) in H; [exact H|].
  unfold glin_grad_encl, glin_grad. apply Forall2_app'.
  - unfold wR at 2. rewrite map_length. apply Forall2_map_seq. intros j.
    unfold glin_grad_w. apply encl_add.
    + replace (Rsum _) with (r_lincomb (map Q2R (map (fun x => nth j x 0%Q) X)) (map2 G XR yR)).
      * apply iv_lincomb_encl. exact Hp.
      * rewrite map_map. erewrite map_ext by (intros; apply Q2R_nth).
        rewrite <- (map_map (map Q2R) (fun x => nth j x 0)). fold XR. apply r_lincomb_sum.
    + replace (Q2R c2 * nth j wR 0) with (Q2R (c2 * nth j w 0%Q)); [apply iv_q_encl|].
      rewrite Q2R_mult, Q2R_nth. reflexivity.
  - destruct icpt; [|constructor]. constructor; [|constructor].
    unfold glin_grad_b. rewrite <- (fold_sum_map2 G). apply iv_sum_encl. exact Hp.
Qed.

(** * Binary logistic regression *)
Lemma bin_phi_i_encl y z : encl (bin_phi_i y z) (bin_phi (Q2R y) (Q2R z)).
Proof.
  unfold bin_phi_i. replace (bin_phi (Q2R y) (Q2R z)) with (reval [] (bin_phi_e y z)).
  - apply iv_eval_closed.
  - unfold bin_phi_e, bin_phi. cbn [reval]. rewrite !reval_Qc, Q2R_Qred, Q2R_mult. reflexivity.
Qed.

Definition sign_R (t : bool) : R := if t then 1 else -1.
Lemma Q2R_sign t : Q2R (sign_Q t) = sign_R t.
Proof. destruct t; unfold sign_Q, sign_R, Q2R; simpl; lra. Qed.

Lemma bin_ok_Q_sound alpha icpt X t w b tau2 :
  bin_ok_Q alpha icpt X t w b tau2 = true ->
  Rsum (map Rsqr (glin_grad bin_phi (Q2R alpha) icpt (map (map Q2R) X) (map sign_R t) (map Q2R w) (Q2R b))) <= Q2R tau2.
Proof.
  intros H. apply (glin_ok_sound _ _ bin_phi_i_encl) in H.
  rewrite map_map in H. erewrite (map_ext (fun x => Q2R (sign_Q x))) in H by apply Q2R_sign. exact H.
Qed.

Lemma logistic_unit z : 0 < 1 / (1 + exp (- z)) < 1.
Proof.
  pose proof (exp_pos (- z)) as H. split.
  - apply Rdiv_lt_0_compat; lra.
  - apply Rmult_lt_reg_r with (1 + exp (- z)); [lra|]. field_simplify; lra.
Qed.


(** * The closed-form gradients are the partial derivatives of the documented objectives *)

Lemma set_nth_same {A} (l : list A) j d : set_nth l j (nth j l d) = l.
Proof. revert j; induction l as [|a l IH]; intros [|j]; simpl; auto. rewrite IH; auto. Qed.
Lemma set_nth_length {A} (l : list A) j v : length (set_nth l j v) = length l.
Proof. revert j; induction l as [|a l IH]; intros [|j]; simpl; auto. Qed.
Lemma nth_set_nth {A} (l : list A) j v d : (j < length l)%nat -> nth j (set_nth l j v) d = v.
Proof. revert j; induction l as [|a l IH]; intros [|j] H; simpl in *; try lia; auto. apply IH; lia. Qed.
Lemma nth_set_nth_other {A} (l : list A) j i v d : i <> j -> nth i (set_nth l j v) d = nth i l d.
Proof.
  revert j i; induction l as [|a l IH]; intros [|j] [|i] H; simpl; auto; try congruence.
Qed.

Lemma Rdot_set_r x : forall w j t, (j < length w)%nat -> (j < length x)%nat ->
  Rdot x (set_nth w j t) = Rdot x w + (t - nth j w 0) * nth j x 0.
Proof.
  induction x as [|a x IH]; intros [|b w] [|j] t Hw Hx; simpl in *; try lia.
  - lra.
  - rewrite IH by lia. lra.
Qed.

Lemma Rdot_set_both w : forall j t, (j < length w)%nat ->
  Rdot (set_nth w j t) (set_nth w j t) = Rdot w w + (t * t - nth j w 0 * nth j w 0).
Proof.
  induction w as [|a w IH]; intros [|j] t H; simpl in *; try lia.
  - lra.
  - rewrite IH by lia. lra.
Qed.

Lemma is_derive_Rsum {A} (l : list A) (f : A -> R -> R) (df : A -> R) t0 :
  (forall a, In a l -> is_derive (f a) t0 (df a)) ->
  is_derive (fun t => Rsum (map (fun a => f a t) l)) t0 (Rsum (map df l)).
Proof.
  induction l as [|a l IH]; intros H; simpl.
  - apply (is_derive_const (V := R_NormedModule) 0 t0).
  - apply (is_derive_plus (V := R_NormedModule) (f a) _ t0 (df a)).
    + apply H; left; reflexivity.
    + apply IH. intros a' Ha'. apply H; right; exact Ha'.
Qed.

Lemma is_derive_eq (f : R -> R) x l l' : is_derive f x l -> l = l' -> is_derive f x l'.
Proof. intros H E; rewrite <- E; exact H. Qed.

(** partial derivative in the weight w_j *)
Lemma glin_obj_derive_w (ell phi : R -> R -> R) (c : R) X y w b j :
  (j < length w)%nat ->
  (forall x, In x X -> length x = length w) ->
  (forall x yi, In (x, yi) (combine X y) -> is_derive (ell yi) (lin x w b) (phi yi (lin x w b))) ->
  is_derive (fun t => glin_obj ell c X y (set_nth w j t) b) (nth j w 0) (glin_grad_w phi (2 * c) X y w b j).
Proof.
  intros Hj Hdim Hd. unfold glin_obj, glin_grad_w.
  apply (is_derive_plus (V := R_NormedModule)
           (fun t => Rsum (map (fun xy => ell (snd xy) (lin (fst xy) (set_nth w j t) b)) (combine X y)))
           (fun t => c * Rdot (set_nth w j t) (set_nth w j t))).
  - apply (is_derive_Rsum (combine X y) (fun xy t => ell (snd xy) (lin (fst xy) (set_nth w j t) b))
                          (fun xy => phi (snd xy) (lin (fst xy) w b) * nth j (fst xy) 0)).
    intros [x yi] Hin. cbn [fst snd].
    assert (Hx : length x = length w) by (apply Hdim; eapply in_combine_l; exact Hin).
    apply is_derive_ext with (f := fun t => ell yi (lin x w b + (t - nth j w 0) * nth j x 0)).
    { intros t. unfold lin. rewrite Rdot_set_r by lia. f_equal. ring. }
    eapply is_derive_eq.
    + apply (is_derive_comp (ell yi) (fun t => lin x w b + (t - nth j w 0) * nth j x 0)).
      * replace (lin x w b + (nth j w 0 - nth j w 0) * nth j x 0) with (lin x w b) by ring.
        apply Hd. exact Hin.
      * auto_derive; [exact I|reflexivity].
    + unfold scal; simpl; unfold mult; simpl. ring.
  - apply is_derive_ext with (f := fun t => c * (Rdot w w + (t * t - nth j w 0 * nth j w 0))).
    { intros t. rewrite Rdot_set_both by exact Hj. reflexivity. }
    auto_derive; [exact I|]. change (c * (1 * nth j w 0 + nth j w 0 * 1) = 2 * c * nth j w 0). ring.
Qed.

(** partial derivative in the intercept *)
Lemma glin_obj_derive_b (ell phi : R -> R -> R) (c : R) X y w b :
  (forall x yi, In (x, yi) (combine X y) -> is_derive (ell yi) (lin x w b) (phi yi (lin x w b))) ->
  is_derive (fun t => glin_obj ell c X y w t) b (glin_grad_b phi X y w b).
Proof.
  intros Hd. unfold glin_obj, glin_grad_b.
  eapply is_derive_eq.
  - apply (is_derive_plus (V := R_NormedModule)
             (fun t => Rsum (map (fun xy => ell (snd xy) (lin (fst xy) w t)) (combine X y)))
             (fun t => c * Rdot w w)).
    + apply (is_derive_Rsum (combine X y) (fun xy t => ell (snd xy) (lin (fst xy) w t))
                            (fun xy => phi (snd xy) (lin (fst xy) w b))).
      intros [x yi] Hin. cbn [fst snd]. unfold lin.
      eapply is_derive_eq.
      * apply (is_derive_comp (ell yi) (fun t => Rdot x w + t)); [apply (Hd x yi Hin)|].
        auto_derive; [exact I|reflexivity].
      * unfold scal; simpl; unfold mult; simpl. unfold lin. ring.
    + apply (is_derive_const (V := R_NormedModule)).
  - exact (Rplus_0_r _).
Qed.

(** binary logistic loss *)
Lemma bin_ell_derive y z : is_derive (bin_ell y) z (bin_phi y z).
Proof.
  unfold bin_ell, bin_phi. auto_derive.
  - pose proof (exp_pos (- (y * z))). lra.
  - rewrite exp_Ropp. pose proof (exp_pos (y * z)). field. split; lra.
Qed.

(** Tweedie GLM: inverse links and unit deviances *)
Lemma inv_link_derive l z : is_derive (inv_link l) z (inv_link_deriv l z).
Proof.
  destruct l; unfold inv_link, inv_link_deriv.
  - auto_derive; [exact I|reflexivity].
  - auto_derive; [exact I|ring].
  - pose proof (exp_pos (- z)) as He. auto_derive; [lra|]. field. lra.
Qed.

Lemma inv_link_pos l z : l <> Identity -> 0 < inv_link l z.
Proof.
  destruct l; intros H; [congruence| |]; unfold inv_link.
  - apply exp_pos.
  - apply (proj1 (logistic_unit z)).
Qed.

Lemma dev_normal_derive y mu : is_derive (dev_normal y) mu (dev_deriv_normal y mu).
Proof. unfold dev_normal, dev_deriv_normal. auto_derive; [exact I|ring]. Qed.

Lemma Rpower_1' mu : 0 < mu -> Rpower mu 1 = mu.
Proof. intros H. apply Rpower_1; exact H. Qed.

Lemma dev_poisson_derive y mu : 0 <= y -> 0 < mu -> is_derive (dev_poisson y) mu (dev_deriv 1 y mu).
Proof.
  intros Hy Hmu. unfold dev_poisson, dev_deriv. rewrite Rpower_1' by exact Hmu.
  destruct (Req_EM_T y 0) as [E|E].
  - subst y. auto_derive; [exact I|]. field. lra.
  - assert (0 < y) by lra. auto_derive.
    + split; [lra|]. split; [|exact I]. apply Rdiv_lt_0_compat; lra.
    + field. lra.
Qed.

Lemma Rpower_2' mu : 0 < mu -> Rpower mu 2 = mu * mu.
Proof.
  intros H. replace 2 with (1 + 1) by ring. rewrite Rpower_plus, Rpower_1' by exact H. reflexivity.
Qed.

Lemma dev_gamma_derive y mu : 0 < y -> 0 < mu -> is_derive (dev_gamma y) mu (dev_deriv 2 y mu).
Proof.
  intros Hy Hmu. unfold dev_gamma, dev_deriv. rewrite Rpower_2' by exact Hmu.
  auto_derive.
  - split; [|split; [lra|exact I]]. apply Rmult_lt_0_compat; [lra|apply Rinv_0_lt_compat; lra].
  - field. lra.
Qed.

(** the general Tweedie deviance (powers other than 1 and 2; the code uses it for p < 0, 1 < p < 2
    and p > 2, e.g. the compound Poisson-Gamma family and the inverse Gaussian p = 3) *)
Lemma dev_general_derive p y mu : p <> 1 -> p <> 2 -> 0 < mu ->
  is_derive (dev_general p y) mu (dev_deriv p y mu).
Proof.
  intros H1 H2 Hmu. unfold dev_general, dev_deriv, Rpower.
  assert (Emu : mu = exp (ln mu)) by (symmetry; apply exp_ln; exact Hmu).
  auto_derive; [repeat split; try lra; exact I|].
  set (L := ln mu) in *.
  replace ((1 - p) * L) with (L + - (p * L)) by ring.
  replace ((2 - p) * L) with (L + L + - (p * L)) by ring.
  rewrite !exp_plus, !exp_Ropp. rewrite <- Emu.
  pose proof (exp_pos (p * L)) as HE. field. repeat split; lra.
Qed.

(** per-sample chain rule for the GLM term 1/2 d(y, g^-1(z)) *)
Lemma glm_ell_derive (dev ddev : R -> R -> R) l y z :
  is_derive (dev y) (inv_link l z) (ddev y (inv_link l z)) ->
  is_derive (glm_ell dev l y) z (glm_phi ddev l y z).
Proof.
  intros H. unfold glm_ell, glm_phi.
  eapply is_derive_eq.
  - apply (is_derive_scal (fun z => dev y (inv_link l z)) z (/ 2)).
    apply (is_derive_comp (dev y) (inv_link l) z _ _ H (inv_link_derive l z)).
  - unfold scal; simpl; unfold mult; simpl. ring.
Qed.

(** * Soundness of the GLM checker *)

Lemma glm_phi_i_encl p l y z : encl (glm_phi_i p l y z) (glm_phi (ddev_of p) l (Q2R y) (Q2R z)).
Proof.
  unfold glm_phi_i.
  set (es1 := [exp_arg_e l z]). set (es2 := [mu_e l z; dmu_e l]).
  pose proof (iv_env2_ok prec _ _ es2 (iv_env_ok prec es1)) as H2.
  pose proof (iv_eval_R prec _ _ (glm_phi_e p y) H2) as H.
  replace (glm_phi (ddev_of p) l (Q2R y) (Q2R z))
    with (reval (r_env2 (r_env es1) es2) (glm_phi_e p y)); [exact H|].
  unfold glm_phi_e, ddev_e, ddev_of, glm_phi, dev_deriv, dev_deriv_normal, Rpower.
  destruct l; destruct (Qeq_bool p 0); cbn [reval r_env2 r_env es1 es2 exp_arg_e mu_e dmu_e map nth inv_link inv_link_deriv];
    rewrite ?reval_Qc; unfold Rdiv; ring.
Qed.

Lemma glm_ok_Q_sound p l alpha icpt X y w b tau2 :
  glm_ok_Q p l alpha icpt X y w b tau2 = true ->
  Rsum (map Rsqr (glin_grad (glm_phi (ddev_of p) l) (Q2R alpha) icpt (map (map Q2R) X) (map Q2R y) (map Q2R w) (Q2R b))) <= Q2R tau2.
Proof. apply (glin_ok_sound _ _ (glm_phi_i_encl p l)). Qed.

(** * Soundness of the multinomial checker *)

Lemma Q2R_colQ c W : map Q2R (colQ c W) = col c (map (map Q2R) W).
Proof. unfold colQ, col. rewrite !map_map. apply map_ext. intros row. apply Q2R_nth. Qed.

Lemma Q2R_scoresQ k W b x :
  map Q2R (scoresQ k W b x) = scores k (map (map Q2R) W) (map Q2R b) (map Q2R x).
Proof.
  unfold scoresQ, scores. rewrite map_map. apply map_ext. intros c.
  rewrite Q2R_Qred, Q2R_plus, Q2R_dot, Q2R_colQ, Q2R_nth. reflexivity.
Qed.

Lemma softmax_i_encl s :
  Forall2 encl (softmax_i s) (map (fun v => exp v / sumexp (map Q2R s)) (map Q2R s)).
Proof.
  unfold softmax_i, sumexp.
  assert (He : Forall2 encl (map (fun v => I.exp prec (iv_q prec v)) s) (map exp (map Q2R s))).
  { induction s as [|a s IH]; simpl; constructor; auto. apply encl_exp. apply iv_q_encl. }
  pose proof (iv_sum_encl prec _ _ He) as Ht. fold (Rsum (map exp (map Q2R s))) in Ht.
  set (tot := iv_sum prec _) in *. set (T := Rsum _) in *.
  rewrite <- (map_map exp (fun e => e / T)). clearbody tot T.
  induction He as [|v r vs rs Hv Hr IH]; simpl; constructor; auto.
  apply encl_div; assumption.
Qed.

Lemma nth_softmax_encl s c :
  encl (nth c (softmax_i s) I.nai) (softmax (map Q2R s) c).
Proof.
  unfold softmax.
  replace (exp (nth c (map Q2R s) 0) / sumexp (map Q2R s))
    with (nth c (map (fun v => exp v / sumexp (map Q2R s)) (map Q2R s)) (exp 0 / sumexp (map Q2R s))).
  - apply Forall2_nth_encl. apply softmax_i_encl.
  - apply (map_nth (fun v => exp v / sumexp (map Q2R s))).
Qed.

Lemma Q2R_indic a b : Q2R (indicQ a b) = indic a b.
Proof. unfold indicQ, indic. destruct (Nat.eqb a b); unfold Q2R; simpl; lra. Qed.

Lemma map2_map_l {A B C A'} (g : A' -> B -> C) (h : A -> A') (X : list A) :
  forall y, map2 g (map h X) y = map2 (fun a b => g (h a) b) X y.
Proof. induction X as [|a X IH]; intros [|b y]; simpl; auto. rewrite IH. reflexivity. Qed.

Lemma Forall2_flat_map_seq {U V} (P : U -> V -> Prop) (f : nat -> list U) (g : nat -> list V) l :
  (forall j, Forall2 P (f j) (g j)) -> Forall2 P (flat_map f l) (flat_map g l).
Proof. intros H. induction l; simpl; [constructor|apply Forall2_app'; auto]. Qed.

Lemma r_lincomb_sum_nat (G : list R -> nat -> R) (j : nat) (X : list (list R)) :
  forall y, r_lincomb (map (fun x => nth j x 0) X) (map2 G X y)
            = Rsum (map (fun xy => G (fst xy) (snd xy) * nth j (fst xy) 0) (combine X y)).
Proof.
  induction X as [|x X IH]; intros [|yi y]; simpl; auto. rewrite IH. unfold Rsum. simpl. lra.
Qed.
Lemma fold_sum_map2_nat (G : list R -> nat -> R) (X : list (list R)) :
  forall y, fold_right Rplus 0 (map2 G X y) = Rsum (map (fun xy => G (fst xy) (snd xy)) (combine X y)).
Proof. induction X as [|x X IH]; intros [|yi y]; simpl; auto. rewrite IH. reflexivity. Qed.

Lemma Q2R_nth2 j c (W : list (list Q)) :
  Q2R (nth c (nth j W []) 0%Q) = nth c (nth j (map (map Q2R) W) []) 0.
Proof.
  rewrite Q2R_nth. f_equal. change (@nil R) with (map Q2R []). apply eq_sym, map_nth.
Qed.

Lemma multi_ok_Q_sound k alpha icpt X y W b tau2 :
  multi_ok_Q k alpha icpt X y W b tau2 = true ->
  Rsum (map Rsqr (multi_grad k (Q2R alpha) icpt (map (map Q2R) X) y (map (map Q2R) W) (map Q2R b))) <= Q2R tau2.
Proof.
  intros H. unfold multi_ok_Q in H. apply andb_true_iff in H as [_ H].
  set (XR := map (map Q2R) X). set (WR := map (map Q2R) W). set (bR := map Q2R b).
  set (P := map (fun x => softmax_i (scoresQ k W b x)) X) in *.
  set (G := fun c (x : list R) (yi : nat) => softmax (scores k WR bR x) c - indic yi c).
  assert (HD : forall c, Forall2 encl (diffs_i P y c) (map2 (G c) XR y)).
  { intros c. unfold diffs_i, P, XR. rewrite !map2_map_l. apply Forall2_map2. intros x yi.
    unfold G. apply encl_sub.
    - unfold WR, bR. rewrite <- Q2R_scoresQ. apply nth_softmax_encl.
    - rewrite <- Q2R_indic. apply iv_q_encl. }
  apply (norm2_le_sound _ (multi_grad k (Q2R alpha) icpt XR y WR bR)) in H; [exact H|].
  unfold multi_grad_encl, multi_grad. fold P. apply Forall2_app'.
  - replace (length WR) with (length W) by (unfold WR; rewrite map_length; reflexivity).
    apply Forall2_flat_map_seq. intros j.
    apply Forall2_map_seq. intros c. unfold multi_grad_W. apply encl_add.
    + replace (Rsum _) with (r_lincomb (map Q2R (map (fun x => nth j x 0%Q) X)) (map2 (G c) XR y)).
      * apply iv_lincomb_encl. apply HD.
      * rewrite map_map. erewrite map_ext by (intros; apply Q2R_nth).
        rewrite <- (map_map (map Q2R) (fun x => nth j x 0)). fold XR. apply r_lincomb_sum_nat.
    + replace (Q2R alpha * nth c (nth j WR []) 0) with (Q2R (alpha * nth c (nth j W []) 0%Q)); [apply iv_q_encl|].
      rewrite Q2R_mult, Q2R_nth2. reflexivity.
  - destruct icpt; [|constructor]. apply Forall2_map_seq. intros c.
    unfold multi_grad_b. rewrite <- (fold_sum_map2_nat (G c)). apply iv_sum_encl. apply HD.
Qed.

(** * Multinomial objective: partial derivatives *)

Lemma map_set_nth {A B} (f : A -> B) (l : list A) j v : map f (set_nth l j v) = set_nth (map f l) j (f v).
Proof. revert j; induction l as [|a l IH]; intros [|j]; simpl; auto. rewrite IH; auto. Qed.

Lemma nth_col j c W : nth j (col c W) 0 = nth c (nth j W []) 0.
Proof.
  unfold col. replace 0 with (nth c (@nil R) 0) at 1 by (destruct c; reflexivity).
  apply (map_nth (fun row => nth c row 0)).
Qed.

Lemma col_set_same W j c t : (c < length (nth j W []))%nat ->
  col c (set_nth2 W j c t) = set_nth (col c W) j t.
Proof.
  intros H. unfold col, set_nth2. rewrite map_set_nth. rewrite nth_set_nth by exact H. reflexivity.
Qed.

Lemma col_set_other W j c c' t : c' <> c -> col c' (set_nth2 W j c t) = col c' W.
Proof.
  intros H. unfold col, set_nth2. rewrite map_set_nth. rewrite nth_set_nth_other by exact H.
  replace (nth c' (nth j W []) 0) with (nth j (map (fun row => nth c' row 0) W) (nth c' (@nil R) 0)).
  - apply set_nth_same.
  - apply (map_nth (fun row => nth c' row 0)).
Qed.

Lemma set_nth_map_seq (g : nat -> R) c v : forall s k, (s <= c < s + k)%nat ->
  set_nth (map g (seq s k)) (c - s) v = map (fun c' => if Nat.eqb c' c then v else g c') (seq s k).
Proof.
  intros s k; revert s; induction k as [|k IH]; intros s H; [lia|]. simpl.
  destruct (Nat.eq_dec c s) as [E|E].
  - subst c. rewrite Nat.sub_diag, Nat.eqb_refl. simpl. f_equal.
    apply map_ext_in. intros a Ha. apply in_seq in Ha.
    destruct (Nat.eqb a s) eqn:Eq; [apply Nat.eqb_eq in Eq; lia|reflexivity].
  - replace (c - s)%nat with (S (c - S s)) by lia. simpl.
    destruct (Nat.eqb s c) eqn:Eq; [apply Nat.eqb_eq in Eq; lia|].
    f_equal. apply IH. lia.
Qed.

Lemma set_nth_map_seq0 (g : nat -> R) c v k : (c < k)%nat ->
  set_nth (map g (seq 0 k)) c v = map (fun c' => if Nat.eqb c' c then v else g c') (seq 0 k).
Proof. intros H. rewrite <- (set_nth_map_seq g c v 0 k) by lia. rewrite Nat.sub_0_r. reflexivity. Qed.

Lemma nth_map_seq0 (g : nat -> R) c k : (c < k)%nat -> nth c (map g (seq 0 k)) 0 = g c.
Proof.
  intros H. rewrite (nth_indep (map g (seq 0 k)) 0 (g 0%nat)) by (rewrite map_length, seq_length; lia).
  rewrite map_nth, seq_nth by lia. reflexivity.
Qed.

Lemma scores_set_W k W b x j c t :
  (c < k)%nat -> (j < length W)%nat -> (j < length x)%nat -> (c < length (nth j W []))%nat ->
  scores k (set_nth2 W j c t) b x
  = set_nth (scores k W b x) c (nth c (scores k W b x) 0 + nth j x 0 * (t - nth c (nth j W []) 0)).
Proof.
  intros Hc Hj Hx Hr. unfold scores.
  rewrite set_nth_map_seq0 by lia.
  apply map_ext_in. intros c' Hc'. apply in_seq in Hc'.
  destruct (Nat.eqb c' c) eqn:E.
  - apply Nat.eqb_eq in E. subst c'. rewrite col_set_same by exact Hr.
    rewrite Rdot_set_r; [|unfold col; rewrite map_length; exact Hj|exact Hx].
    rewrite nth_col.
    rewrite (nth_map_seq0 (fun c0 => Rdot x (col c0 W) + nth c0 b 0)) by lia. ring.
  - apply Nat.eqb_neq in E. rewrite col_set_other by exact E. reflexivity.
Qed.

Lemma scores_set_b k W b x c t :
  (c < k)%nat -> (c < length b)%nat ->
  scores k W (set_nth b c t) x
  = set_nth (scores k W b x) c (nth c (scores k W b x) 0 + 1 * (t - nth c b 0)).
Proof.
  intros Hc Hb. unfold scores.
  rewrite set_nth_map_seq0 by lia.
  apply map_ext_in. intros c' Hc'. apply in_seq in Hc'.
  destruct (Nat.eqb c' c) eqn:E.
  - apply Nat.eqb_eq in E. subst c'. rewrite nth_set_nth by exact Hb.
    rewrite (nth_map_seq0 (fun c0 => Rdot x (col c0 W) + nth c0 b 0)) by lia. ring.
  - apply Nat.eqb_neq in E. rewrite nth_set_nth_other by exact E. reflexivity.
Qed.

Lemma sumexp_set s : forall c v, (c < length s)%nat ->
  sumexp (set_nth s c v) = sumexp s - exp (nth c s 0) + exp v.
Proof.
  unfold sumexp. induction s as [|a s IH]; intros [|c] v H; simpl in *; try lia.
  - unfold Rsum; simpl. lra.
  - unfold Rsum in *; simpl. rewrite IH by lia. lra.
Qed.

Lemma sumexp_ge s : forall c, (c < length s)%nat -> exp (nth c s 0) <= sumexp s.
Proof.
  unfold sumexp. induction s as [|a s IH]; intros [|c] H; simpl in *; try lia; unfold Rsum in *; simpl.
  - assert (0 <= fold_right Rplus 0 (map exp s)).
    { clear. induction s; simpl; [lra|]. pose proof (exp_pos a). lra. }
    lra.
  - pose proof (IH c ltac:(lia)). pose proof (exp_pos a). lra.
Qed.

Lemma sumexp_pos s c : (c < length s)%nat -> 0 < sumexp s.
Proof. intros H. pose proof (sumexp_ge s c H). pose proof (exp_pos (nth c s 0)). lra. Qed.

(** per-sample term under a perturbation of one score *)
Lemma multi_ell_derive yi s c a t0 : (c < length s)%nat ->
  is_derive (fun t => multi_ell yi (set_nth s c (nth c s 0 + a * (t - t0)))) t0
            ((softmax s c - indic yi c) * a).
Proof.
  intros Hc. unfold multi_ell, softmax.
  pose proof (sumexp_ge s c Hc) as Hge. pose proof (exp_pos (nth c s 0)) as Hpos.
  set (sc := nth c s 0) in *. set (T := sumexp s) in *.
  apply is_derive_ext with
    (f := fun t => ln (T - exp sc + exp (sc + a * (t - t0)))
                   - (if Nat.eqb yi c then sc + a * (t - t0) else nth yi s 0)).
  { intros t. rewrite sumexp_set by exact Hc. fold sc T. f_equal.
    destruct (Nat.eqb yi c) eqn:E.
    - apply Nat.eqb_eq in E. subst yi. rewrite nth_set_nth by exact Hc. reflexivity.
    - apply Nat.eqb_neq in E. rewrite nth_set_nth_other by exact E. reflexivity. }
  unfold indic. destruct (Nat.eqb yi c).
  - auto_derive.
    + replace (sc + a * (t0 + - t0)) with sc by ring. lra.
    + replace (sc + a * (t0 + - t0)) with sc by ring. field. repeat split; lra.
  - auto_derive.
    + replace (sc + a * (t0 + - t0)) with sc by ring. lra.
    + replace (sc + a * (t0 + - t0)) with sc by ring. field. repeat split; lra.
Qed.

Lemma scores_length k W b x : length (scores k W b x) = k.
Proof. unfold scores. rewrite map_length, seq_length. reflexivity. Qed.

Lemma frob2_set W : forall j c t, (j < length W)%nat -> (c < length (nth j W []))%nat ->
  frob2 (set_nth2 W j c t) = frob2 W + (t * t - nth c (nth j W []) 0 * nth c (nth j W []) 0).
Proof.
  unfold frob2, set_nth2. induction W as [|r W IH]; intros [|j] c t Hj Hc; simpl in *; try lia.
  - unfold Rsum; simpl. rewrite Rdot_set_both by exact Hc. lra.
  - unfold Rsum in *; simpl. rewrite IH by (try lia; exact Hc). lra.
Qed.

(** partial derivative of the multinomial objective in W[j][c] *)
Lemma multi_loss_derive_W k alpha X y W b j c :
  (c < k)%nat -> (j < length W)%nat -> (c < length (nth j W []))%nat ->
  (forall x, In x X -> length x = length W) ->
  is_derive (fun t => multi_loss k alpha X y (set_nth2 W j c t) b) (nth c (nth j W []) 0)
            (multi_grad_W k alpha X y W b j c).
Proof.
  intros Hc Hj Hr Hdim. unfold multi_loss, multi_grad_W.
  set (w0 := nth c (nth j W []) 0).
  apply (is_derive_plus (V := R_NormedModule)
           (fun t => Rsum (map (fun xy => multi_ell (snd xy) (scores k (set_nth2 W j c t) b (fst xy))) (combine X y)))
           (fun t => alpha / 2 * frob2 (set_nth2 W j c t))).
  - apply (is_derive_Rsum (combine X y)
             (fun xy t => multi_ell (snd xy) (scores k (set_nth2 W j c t) b (fst xy)))
             (fun xy => (softmax (scores k W b (fst xy)) c - indic (snd xy) c) * nth j (fst xy) 0)).
    intros [x yi] Hin. cbn [fst snd].
    assert (Hx : length x = length W) by (apply Hdim; eapply in_combine_l; exact Hin).
    apply is_derive_ext with
      (f := fun t => multi_ell yi (set_nth (scores k W b x) c (nth c (scores k W b x) 0 + nth j x 0 * (t - w0)))).
    { intros t. rewrite scores_set_W by (try lia; assumption). reflexivity. }
    apply multi_ell_derive. rewrite scores_length. exact Hc.
  - apply is_derive_ext with (f := fun t => alpha / 2 * (frob2 W + (t * t - w0 * w0))).
    { intros t. rewrite frob2_set by assumption. reflexivity. }
    auto_derive; [exact I|]. change (alpha / 2 * (1 * w0 + w0 * 1) = alpha * w0). field.
Qed.

(** partial derivative of the multinomial objective in the intercept b[c] *)
Lemma multi_loss_derive_b k alpha X y W b c :
  (c < k)%nat -> (c < length b)%nat ->
  is_derive (fun t => multi_loss k alpha X y W (set_nth b c t)) (nth c b 0) (multi_grad_b k X y W b c).
Proof.
  intros Hc Hb. unfold multi_loss, multi_grad_b.
  eapply is_derive_eq.
  - apply (is_derive_plus (V := R_NormedModule)
             (fun t => Rsum (map (fun xy => multi_ell (snd xy) (scores k W (set_nth b c t) (fst xy))) (combine X y)))
             (fun t => alpha / 2 * frob2 W)).
    + apply (is_derive_Rsum (combine X y)
               (fun xy t => multi_ell (snd xy) (scores k W (set_nth b c t) (fst xy)))
               (fun xy => (softmax (scores k W b (fst xy)) c - indic (snd xy) c) * 1)).
      intros [x yi] Hin. cbn [fst snd].
      apply is_derive_ext with
        (f := fun t => multi_ell yi (set_nth (scores k W b x) c (nth c (scores k W b x) 0 + 1 * (t - nth c b 0)))).
      { intros t. rewrite scores_set_b by assumption. reflexivity. }
      apply multi_ell_derive. rewrite scores_length. exact Hc.
    + apply (is_derive_const (V := R_NormedModule)).
  - unfold plus. simpl. rewrite (Rplus_0_r _). f_equal. apply map_ext. intros xy. ring.
Qed.

(** * Label coding *)
Section LabelProofs.
Context {C : Type} (ceqb : C -> C -> bool).
Hypothesis ceqb_spec : forall a b, ceqb a b = true <-> a = b.

Definition cnt (c : C) (l : list C) : N := N.of_nat (length (filter (ceqb c) l)).

Lemma ceqb_refl a : ceqb a a = true.
Proof. apply ceqb_spec; reflexivity. Qed.
Lemma ceqb_neq a b : a <> b -> ceqb a b = false.
Proof. intros H. destruct (ceqb a b) eqn:E; auto. apply ceqb_spec in E. contradiction. Qed.

Lemma cnt_app c p x : cnt c (p ++ [x]) = (cnt c p + (if ceqb c x then 1 else 0))%N.
Proof.
  unfold cnt. rewrite filter_app, app_length. simpl. destruct (ceqb c x); simpl; lia.
Qed.

Lemma cnt_pos c p : In c p -> (1 <= cnt c p)%N.
Proof.
  unfold cnt. induction p as [|a p IH]; intros H; [destruct H|]. simpl.
  destruct H as [H|H].
  - subst a. rewrite ceqb_refl. simpl. lia.
  - destruct (ceqb c a); simpl; [lia|apply IH; exact H].
Qed.

Inductive Inv : option (bin_state (C := C)) -> list C -> Prop :=
| Inv0 : Inv (Some (None, None)) []
| Inv1 c1 n1 p : hd_error p = Some c1 -> (forall x, In x p -> x = c1) -> n1 = cnt c1 p ->
    Inv (Some (Some (c1, n1), None)) p
| Inv2 c1 n1 c2 n2 p : c1 <> c2 -> (forall x, In x p -> x = c1 \/ x = c2) ->
    n1 = cnt c1 p -> n2 = cnt c2 p -> In c1 p -> In c2 p -> hd_error p = Some c1 ->
    Inv (Some (Some (c1, n1), Some (c2, n2))) p
| Inv3 p a b c : In a p -> In b p -> In c p -> a <> b -> a <> c -> b <> c -> Inv None p.

Lemma hd_error_app (p : list C) x c : hd_error p = Some c -> hd_error (p ++ [x]) = Some c.
Proof. destruct p; simpl; [discriminate|auto]. Qed.

Lemma Inv_step st p x : Inv st p -> Inv (bin_step ceqb st x) (p ++ [x]).
Proof.
  intros H. destruct H as [|c1 n1 p Hh Hall Hn|c1 n1 c2 n2 p Hne Hall Hn1 Hn2 Hi1 Hi2 Hh|p a b c Ha Hb Hc].
  - simpl. apply Inv1; simpl; auto.
    + intros y [E|[]]; auto.
    + unfold cnt; simpl. rewrite ceqb_refl. reflexivity.
  - cbn [bin_step]. destruct (ceqb c1 x) eqn:E.
    + apply ceqb_spec in E. subst x. apply Inv1.
      * apply hd_error_app; exact Hh.
      * intros y Hy. apply in_app_or in Hy as [Hy|[Hy|[]]]; auto.
      * rewrite cnt_app, ceqb_refl, Hn. lia.
    + assert (Hx : c1 <> x) by (intros E'; subst x; rewrite ceqb_refl in E; discriminate).
      assert (Hin1 : In c1 p) by (destruct p; simpl in Hh; [discriminate|inversion Hh; left; reflexivity]).
      apply Inv2; auto.
      * intros y Hy. apply in_app_or in Hy as [Hy|[Hy|[]]]; auto.
      * rewrite cnt_app, E, Hn. lia.
      * rewrite cnt_app, ceqb_refl.
        assert (cnt x p = 0%N).
        { unfold cnt. replace (filter (ceqb x) p) with (@nil C); [reflexivity|].
          symmetry. clear -Hall Hx ceqb_spec. induction p as [|a p IH]; simpl; auto.
          rewrite (Hall a (or_introl eq_refl)). rewrite ceqb_neq by auto.
          apply IH. intros y Hy. apply Hall. right; exact Hy. }
        lia.
      * apply in_or_app; left; exact Hin1.
      * apply in_or_app; right; left; reflexivity.
      * apply hd_error_app; exact Hh.
  - cbn [bin_step]. destruct (ceqb c1 x) eqn:E.
    + apply ceqb_spec in E. subst x. apply Inv2; auto.
      * intros y Hy. apply in_app_or in Hy as [Hy|[Hy|[]]]; auto.
      * rewrite cnt_app, ceqb_refl, Hn1. lia.
      * rewrite cnt_app, (ceqb_neq c2 c1) by auto. lia.
      * apply in_or_app; left; exact Hi1.
      * apply in_or_app; left; exact Hi2.
      * apply hd_error_app; exact Hh.
    + destruct (ceqb c2 x) eqn:E2.
      * apply ceqb_spec in E2. subst x. apply Inv2; auto.
        -- intros y Hy. apply in_app_or in Hy as [Hy|[Hy|[]]]; auto.
        -- rewrite cnt_app, E. lia.
        -- rewrite cnt_app, ceqb_refl, Hn2. lia.
        -- apply in_or_app; left; exact Hi1.
        -- apply in_or_app; left; exact Hi2.
        -- apply hd_error_app; exact Hh.
      * apply (Inv3 _ c1 c2 x).
        -- apply in_or_app; left; exact Hi1.
        -- apply in_or_app; left; exact Hi2.
        -- apply in_or_app; right; left; reflexivity.
        -- exact Hne.
        -- intros E'; subst x; rewrite ceqb_refl in E; discriminate.
        -- intros E'; subst x; rewrite ceqb_refl in E2; discriminate.
  - simpl. apply (Inv3 _ a b c); auto; apply in_or_app; left; assumption.
Qed.

Lemma Inv_fold s : forall st p, Inv st p -> Inv (fold_left (bin_step ceqb) s st) (p ++ s).
Proof.
  induction s as [|x s IH]; intros st p H; simpl.
  - rewrite app_nil_r. exact H.
  - replace (p ++ x :: s) with ((p ++ [x]) ++ s) by (rewrite <- app_assoc; reflexivity).
    apply IH. apply Inv_step. exact H.
Qed.

(** what label_classes returns *)
Definition bin_coding_spec (y : list C) (r : label_error + bin_labels (C := C)) : Prop :=
  match r with
  | inr bl =>
      bl_pos bl <> bl_neg bl /\
      (forall x, In x y -> x = bl_pos bl \/ x = bl_neg bl) /\
      In (bl_pos bl) y /\ In (bl_neg bl) y /\
      bl_target bl = map (fun x => ceqb x (bl_pos bl)) y /\
      (cnt (bl_neg bl) y <= cnt (bl_pos bl) y)%N /\
      (cnt (bl_neg bl) y = cnt (bl_pos bl) y -> hd_error y = Some (bl_pos bl))
  | inl TooFewClasses => forall a b, In a y -> In b y -> a = b
  | inl TooManyClasses => exists a b c, In a y /\ In b y /\ In c y /\ a <> b /\ a <> c /\ b <> c
  end.

Lemma label_classes_spec y : bin_coding_spec y (label_classes ceqb y).
Proof.
  unfold label_classes. pose proof (Inv_fold y _ [] Inv0) as H. simpl in H.
  destruct (fold_left (bin_step ceqb) y (Some (None, None))) as [[[[c1 n1]|] [[c2 n2]|]]|].
  - inversion H as [| |c1' n1' c2' n2' p Hne Hall Hn1 Hn2 Hi1 Hi2 Hh|]; subst.
    destruct (N.ltb (cnt c1 y) (cnt c2 y)) eqn:L.
    + apply N.ltb_lt in L. simpl. repeat split; auto.
      * intros x Hx. destruct (Hall x Hx); auto.
      * rewrite map_map. apply map_ext_in. intros x Hx.
        destruct (Hall x Hx) as [E|E]; subst x.
        -- rewrite ceqb_refl, (ceqb_neq c1 c2) by auto. reflexivity.
        -- rewrite ceqb_refl, (ceqb_neq c2 c1) by auto. reflexivity.
      * lia.
      * intros E. lia.
    + apply N.ltb_ge in L. simpl. repeat split; auto.
  - inversion H as [|c1' n1' p Hh Hall Hn| |]; subst. simpl. intros a b Ha Hb. rewrite (Hall a Ha), (Hall b Hb). reflexivity.
  - inversion H.
  - inversion H; subst. simpl. intros a b [].
  - inversion H; subst. simpl. exists a, b, c. repeat split; assumption.
Qed.

(** multinomial: sorted distinct classes *)
Variable cltb : C -> C -> bool.
Hypothesis ltb_irrefl : forall a, cltb a a = false.
Hypothesis ltb_trans : forall a b c, cltb a b = true -> cltb b c = true -> cltb a c = true.
Hypothesis ltb_total : forall a b, a <> b -> cltb a b = true \/ cltb b a = true.

Fixpoint ssorted (l : list C) : Prop :=
  match l with
  | a :: ((b :: _) as t) => cltb a b = true /\ ssorted t
  | _ => True
  end.

Lemma insert_class_in c l x : In x (insert_class ceqb cltb c l) <-> x = c \/ In x l.
Proof.
  induction l as [|a l IH]; simpl.
  - intuition.
  - destruct (cltb c a); [simpl; intuition|].
    destruct (ceqb c a) eqn:E.
    + apply ceqb_spec in E. subst a. simpl. intuition.
    + simpl. rewrite IH. intuition.
Qed.

Lemma insert_class_hd c a l :
  cltb c a = false -> ceqb c a = false ->
  match insert_class ceqb cltb c l with x :: _ => x = c \/ (exists t, l = x :: t) | [] => False end.
Proof. intros _ _. destruct l as [|b l]; simpl; auto. destruct (cltb c b); [left; auto|]. destruct (ceqb c b); right; eauto. Qed.

Lemma insert_class_sorted c l : ssorted l -> ssorted (insert_class ceqb cltb c l).
Proof.
  induction l as [|a l IH]; intros H; [exact I|]. cbn [insert_class].
  destruct (cltb c a) eqn:L; [split; auto|].
  destruct (ceqb c a) eqn:E; [exact H|].
  assert (Hac : cltb a c = true).
  { destruct (ltb_total a c) as [T|T]; auto; [|congruence].
    intros E'. subst a. rewrite ceqb_refl in E. discriminate. }
  destruct l as [|b l]; [simpl; auto|].
  destruct H as [Hab Hs]. specialize (IH Hs).
  cbn [insert_class] in *. destruct (cltb c b) eqn:L2.
  - split; [exact Hac|]. exact IH.
  - destruct (ceqb c b) eqn:E2.
    + split; [exact Hab|exact IH].
    + split; [exact Hab|exact IH].
Qed.

Lemma sorted_classes_spec y :
  ssorted (sorted_classes ceqb cltb y) /\ (forall c, In c (sorted_classes ceqb cltb y) <-> In c y).
Proof.
  unfold sorted_classes.
  assert (G : forall s acc, ssorted acc ->
            ssorted (fold_left (fun a c => insert_class ceqb cltb c a) s acc) /\
            (forall c, In c (fold_left (fun a c => insert_class ceqb cltb c a) s acc) <-> In c acc \/ In c s)).
  { induction s as [|x s IH]; intros acc Hs; simpl.
    - split; [exact Hs|intuition].
    - destruct (IH (insert_class ceqb cltb x acc) (insert_class_sorted x acc Hs)) as [H1 H2].
      split; [exact H1|]. intros c. rewrite H2, insert_class_in. intuition. }
  destruct (G y [] I) as [H1 H2]. split; [exact H1|]. intros c. rewrite H2. simpl. intuition.
Qed.

Lemma ssorted_head_lt a l : ssorted (a :: l) -> forall x, In x l -> cltb a x = true.
Proof.
  revert a. induction l as [|b l IH]; intros a H x Hx; [destruct Hx|].
  destruct H as [Hab Hs]. destruct Hx as [E|Hx]; [subst; exact Hab|].
  apply (ltb_trans a b x Hab). apply IH; assumption.
Qed.

Lemma ssorted_nodup l : ssorted l -> NoDup l.
Proof.
  induction l as [|a l IH]; intros H; constructor.
  - intros Hin. pose proof (ssorted_head_lt a l H a Hin) as E. rewrite ltb_irrefl in E. discriminate.
  - apply IH. destruct l as [|b l]; [exact I|]. destruct H as [_ H]. exact H.
Qed.

Lemma class_index_spec c l : In c l -> exists i, class_index ceqb c l = Some i /\ nth_error l i = Some c.
Proof.
  induction l as [|a l IH]; intros H; [destruct H|]. simpl.
  destruct (ceqb c a) eqn:E.
  - apply ceqb_spec in E. subst a. exists 0%nat. auto.
  - destruct H as [H|H]; [subst a; rewrite ceqb_refl in E; discriminate|].
    destruct (IH H) as [i [H1 H2]]. exists (S i). rewrite H1. auto.
Qed.

Lemma label_classes_multi_spec y :
  let (cl, idx) := label_classes_multi ceqb cltb y in
  ssorted cl /\ NoDup cl /\ (forall c, In c cl <-> In c y) /\
  Forall2 (fun yi oi => exists i, oi = Some i /\ nth_error cl i = Some yi) y idx.
Proof.
  unfold label_classes_multi. destruct (sorted_classes_spec y) as [H1 H2].
  split; [exact H1|]. split; [apply ssorted_nodup; exact H1|]. split; [exact H2|].
  assert (G : forall s, (forall c, In c s -> In c (sorted_classes ceqb cltb y)) ->
          Forall2 (fun yi oi => exists i, oi = Some i /\ nth_error (sorted_classes ceqb cltb y) i = Some yi)
                  s (map (fun c => class_index ceqb c (sorted_classes ceqb cltb y)) s)).
  { induction s as [|a s IH]; intros Hs; simpl; constructor.
    - destruct (class_index_spec a _ (Hs a (or_introl eq_refl))) as [i [E1 E2]]. exists i. auto.
    - apply IH. intros c Hc. apply Hs. right; exact Hc. }
  apply G. intros c Hc. apply H2. exact Hc.
Qed.
End LabelProofs.

(** * Decisions, probabilities, supports (real-number instance of the executable models) *)
Notation oR := R_ops.

Lemma argmax_scan_spec v : forall i best bv pre,
  length pre = i -> (best < i)%nat -> nth best pre 0 = bv ->
  (forall j, (j < i)%nat -> nth j pre 0 <= bv) ->
  (forall j, (j < best)%nat -> nth j pre 0 < bv) ->
  let r := argmax_scan oR v i best bv in
  (r < i + length v)%nat /\
  (forall j, (j < i + length v)%nat -> nth j (pre ++ v) 0 <= nth r (pre ++ v) 0) /\
  (forall j, (j < r)%nat -> nth j (pre ++ v) 0 < nth r (pre ++ v) 0).
Proof.
  induction v as [|a v IH]; intros i best bv pre Hl Hb Hbv Hle Hlt; cbn [argmax_scan].
  - simpl. rewrite Nat.add_0_r, app_nil_r. rewrite Hbv. repeat split; auto.
  - cbn [ltb oR]. destruct (Rltb bv a) eqn:E.
    + apply Rltb_true in E.
      replace (i + length (a :: v))%nat with (S i + length v)%nat by (simpl; lia).
      replace (pre ++ a :: v) with ((pre ++ [a]) ++ v) by (rewrite <- app_assoc; reflexivity).
      apply IH; try lia; [rewrite app_length; simpl; lia| | |].
      * rewrite app_nth2 by lia. rewrite Hl, Nat.sub_diag. reflexivity.
      * intros j Hj. destruct (Nat.eq_dec j i) as [->|Hn].
        -- rewrite app_nth2 by lia. rewrite Hl, Nat.sub_diag. simpl. lra.
        -- rewrite app_nth1 by lia. specialize (Hle j ltac:(lia)). lra.
      * intros j Hj. rewrite app_nth1 by lia. specialize (Hle j ltac:(lia)). lra.
    + apply Rltb_false in E.
      replace (i + length (a :: v))%nat with (S i + length v)%nat by (simpl; lia).
      replace (pre ++ a :: v) with ((pre ++ [a]) ++ v) by (rewrite <- app_assoc; reflexivity).
      apply IH; try lia; [rewrite app_length; simpl; lia| | |].
      * rewrite app_nth1 by lia. exact Hbv.
      * intros j Hj. destruct (Nat.eq_dec j i) as [->|Hn].
        -- rewrite app_nth2 by lia. rewrite Hl, Nat.sub_diag. simpl. exact E.
        -- rewrite app_nth1 by lia. apply Hle. lia.
      * intros j Hj. rewrite app_nth1 by lia. apply Hlt. exact Hj.
Qed.

(** the multinomial decision: the first index holding the largest score *)
Lemma argmax_first_spec (v : list R) i : argmax_first oR v = Some i ->
  (i < length v)%nat /\ (forall j, (j < length v)%nat -> nth j v 0 <= nth i v 0) /\
  (forall j, (j < i)%nat -> nth j v 0 < nth i v 0).
Proof.
  destruct v as [|a v]; simpl; [discriminate|]. intros H. inversion H as [E]. clear H.
  pose proof (argmax_scan_spec v 1 0%nat a [a] eq_refl ltac:(lia) eq_refl) as S.
  simpl in S. apply S.
  - intros j Hj. assert (j = 0%nat) by lia. subst j. simpl. lra.
  - intros j Hj. lia.
Qed.

Lemma argmax_first_some (v : list R) : v <> [] -> exists i, argmax_first oR v = Some i.
Proof. destruct v; [congruence|]. simpl. eauto. Qed.

(** the binary decision is exactly "probability >= threshold" *)
Lemma bin_decide_spec {C} (pos neg : C) (thr p : R) :
  (thr <= p -> bin_decide oR pos neg thr p = pos) /\ (p < thr -> bin_decide oR pos neg thr p = neg).
Proof.
  unfold bin_decide. cbn [leb oR]. split; intros H.
  - destruct (Rleb thr p) eqn:E; auto. apply Rleb_false in E. lra.
  - destruct (Rleb thr p) eqn:E; auto. apply Rleb_true in E. lra.
Qed.

(** the probability the binary model computes is the logistic function of the linear predictor *)
Lemma logistic_of_exp_R z : logistic_of_exp oR (exp (neg_arg oR z)) = 1 / (1 + exp (- z)).
Proof. reflexivity. Qed.

(** softmax over the reals *)
Lemma sumexp_pos' s : s <> [] -> 0 < sumexp s.
Proof. destruct s as [|a s]; [congruence|]. intros _. apply (sumexp_pos (a :: s) 0). simpl; lia. Qed.

Lemma softmax_unit s c : (c < length s)%nat -> 0 < softmax s c <= 1.
Proof.
  intros H. unfold softmax. pose proof (sumexp_ge s c H). pose proof (exp_pos (nth c s 0)).
  pose proof (sumexp_pos s c H). split.
  - apply Rdiv_lt_0_compat; lra.
  - apply Rmult_le_reg_r with (sumexp s); [lra|]. unfold Rdiv. rewrite Rmult_assoc, Rinv_l by lra. lra.
Qed.

Lemma Rsum_map_div (l : list R) T : Rsum (map (fun v => v / T) l) = Rsum l / T.
Proof. unfold Rsum. induction l as [|a l IH]; simpl; [unfold Rdiv; ring|rewrite IH; unfold Rdiv; ring]. Qed.

Lemma softmax_sum s : s <> [] -> Rsum (map (softmax s) (seq 0 (length s))) = 1.
Proof.
  intros H. pose proof (sumexp_pos' s H) as Hp.
  replace (map (softmax s) (seq 0 (length s))) with (map (fun v => v / sumexp s) (map exp s)).
  - rewrite Rsum_map_div. unfold sumexp. field. unfold sumexp in Hp. lra.
  - unfold softmax. rewrite map_map.
    clear H Hp. set (T := sumexp s). clearbody T.
    transitivity (map (fun c => exp (nth c s 0) / T) (seq 0 (length s))); [|reflexivity].
    assert (G : forall pre, map (fun v => exp v / T) s
                 = map (fun c => exp (nth c (pre ++ s) 0) / T) (seq (length pre) (length s))).
    { induction s as [|a s IH]; intros pre; simpl; auto. f_equal.
      - rewrite app_nth2 by lia. rewrite Nat.sub_diag. reflexivity.
      - specialize (IH (pre ++ [a])). rewrite app_length in IH. simpl in IH.
        rewrite <- app_assoc in IH. simpl in IH. replace (S (length pre)) with (length pre + 1)%nat by lia. exact IH. }
    exact (G []).
Qed.

(** ndarray's unrolled sum is the plain sum over the reals *)
Lemma chunks8_R : forall n (xs p : list R), (length xs <= n)%nat -> length p = 8%nat ->
  let '(p', rest) := chunks8 oR xs p in
  length p' = 8%nat /\ Rsum p' + Rsum rest = Rsum p + Rsum xs.
Proof.
  induction n as [|n IH]; intros xs p Hn Hp.
  - destruct xs; [|simpl in Hn; lia]. simpl. auto.
  - destruct xs as [|x0 [|x1 [|x2 [|x3 [|x4 [|x5 [|x6 [|x7 t]]]]]]]]; try (simpl; split; [exact Hp|reflexivity]).
    cbn [chunks8].
    destruct p as [|p0 [|p1 [|p2 [|p3 [|p4 [|p5 [|p6 [|p7 [|]]]]]]]]]; simpl in Hp; try lia.
    cbn [combine map fst snd add oR].
    specialize (IH t [p0 + x0; p1 + x1; p2 + x2; p3 + x3; p4 + x4; p5 + x5; p6 + x6; p7 + x7]).
    destruct (chunks8 oR t _) as [p' rest].
    destruct IH as [H1 H2]; [simpl in Hn; lia|reflexivity|].
    split; [exact H1|]. rewrite H2. unfold Rsum. simpl. lra.
Qed.

Lemma fold_left_Rplus (l : list R) a : fold_left Rplus l a = a + Rsum l.
Proof. revert a; induction l as [|x l IH]; intros a; simpl; [unfold Rsum; simpl; lra|]. rewrite IH. unfold Rsum; simpl. lra. Qed.

Lemma usum_R (xs : list R) : usum oR xs = Rsum xs.
Proof.
  unfold usum. pose proof (chunks8_R (length xs) xs [0;0;0;0;0;0;0;0] (le_n _) eq_refl) as H.
  cbn [zero oR]. destruct (chunks8 oR xs [0; 0; 0; 0; 0; 0; 0; 0]) as [p' rest].
  destruct H as [H1 H2].
  destruct p' as [|p0 [|p1 [|p2 [|p3 [|p4 [|p5 [|p6 [|p7 [|]]]]]]]]]; simpl in H1; try lia.
  cbn [add oR]. rewrite fold_left_Rplus. unfold Rsum in *. simpl in *. lra.
Qed.

(** the executable softmax (sum through unrolled_fold) normalises any positive exps *)
Lemma softmax_of_exps_R (es : list R) : (forall e, In e es -> 0 < e) -> es <> [] ->
  Rsum (softmax_of_exps oR es) = 1 /\ (forall p, In p (softmax_of_exps oR es) -> 0 < p <= 1).
Proof.
  intros Hpos Hne. unfold softmax_of_exps. rewrite usum_R. cbn [div oR].
  assert (Hs : forall l, (forall e, In e l -> 0 < e) -> 0 <= Rsum l /\ forall e, In e l -> e <= Rsum l).
  { induction l as [|a l IH]; intros H; unfold Rsum in *; simpl; [split; [lra|intros e []]|].
    destruct IH as [I1 I2]; [intros e He; apply H; right; exact He|].
    pose proof (H a (or_introl eq_refl)). split; [lra|]. intros e [E|E]; [subst; lra|].
    specialize (I2 e E). lra. }
  destruct (Hs es Hpos) as [H0 H1].
  assert (HT : 0 < Rsum es).
  { destruct es as [|a es]; [congruence|]. pose proof (Hpos a (or_introl eq_refl)).
    pose proof (H1 a (or_introl eq_refl)). lra. }
  split.
  - rewrite Rsum_map_div. field. lra.
  - intros p Hp. apply in_map_iff in Hp as [e [E He]]. subst p. pose proof (Hpos e He). pose proof (H1 e He).
    split; [apply Rdiv_lt_0_compat; lra|].
    apply Rmult_le_reg_r with (Rsum es); [lra|]. unfold Rdiv. rewrite Rmult_assoc, Rinv_l by lra. lra.
Qed.

(** Tweedie supports *)
Lemma tweedie_support_spec (p : R) :
  match tweedie_support oR p with
  | SupAll => p <= 0
  | SupInvalid => 0 < p < 1
  | SupNonNeg => 1 <= p < 2
  | SupPos => 2 <= p
  end.
Proof.
  unfold tweedie_support, two. cbn [leb ltb oR zero one add].
  destruct (Rleb p 0) eqn:E1; [apply Rleb_true in E1; exact E1|apply Rleb_false in E1].
  destruct (Rltb 0 p) eqn:E2; [apply Rltb_true in E2|apply Rltb_false in E2; lra].
  destruct (Rltb p 1) eqn:E3; [apply Rltb_true in E3; simpl; lra|apply Rltb_false in E3]. simpl.
  destruct (Rleb 1 p) eqn:E4; [|apply Rleb_false in E4; lra].
  destruct (Rltb p (1 + 1)) eqn:E5; [apply Rltb_true in E5; simpl; lra|apply Rltb_false in E5]. simpl.
  destruct (Rleb (1 + 1) p) eqn:E6; [apply Rleb_true in E6; lra|apply Rleb_false in E6; lra].
Qed.

Lemma in_range_spec (s : support) (y : list R) :
  in_range oR s y = true <->
  match s with
  | SupAll => True
  | SupNonNeg => forall v, In v y -> 0 <= v
  | SupPos => forall v, In v y -> 0 < v
  | SupInvalid => False
  end.
Proof.
  destruct s; simpl; try (split; [auto|reflexivity]).
  - rewrite forallb_forall. cbn [leb oR zero]. split; intros H v Hv; specialize (H v Hv).
    + apply Rleb_true. exact H.
    + apply Rleb_true. exact H.
  - rewrite forallb_forall. cbn [ltb oR zero]. split; intros H v Hv; specialize (H v Hv).
    + apply Rltb_true. exact H.
    + apply Rltb_true. exact H.
  - split; [discriminate|intros []].
Qed.

(** * From floats: soundness of the checkers run on the implementation's outputs *)
Lemma rmat_qmat X : map (map Q2R) (qmat X) = rmat X.
Proof. unfold qmat, rmat, qvec, rvec. rewrite map_map. apply map_ext. intros r. rewrite map_map. reflexivity. Qed.
Lemma rvec_qvec v : map Q2R (qvec v) = rvec v.
Proof. unfold qvec, rvec. rewrite map_map. reflexivity. Qed.

Lemma Q2R_tau2 tol : Q2R (tau2_of tol) = tauR tol * tauR tol.
Proof.
  unfold tau2_of, tauR, f64_R. rewrite Q2R_Qred, !Q2R_mult.
  replace (Q2R (1025 # 1024)) with (1025 / 1024) by (unfold Q2R; simpl; lra). reflexivity.
Qed.

Lemma bin_ok_sound alpha icpt X t w b tol : bin_ok alpha icpt X t w b tol = true ->
  Rsum (map Rsqr (glin_grad bin_phi (f64_R alpha) icpt (rmat X) (map sign_R t) (rvec w) (f64_R b)))
  <= tauR tol * tauR tol.
Proof.
  unfold bin_ok. intros H. apply andb_true_iff in H as [_ H]. apply andb_true_iff in H as [_ H].
  apply bin_ok_Q_sound in H. rewrite rmat_qmat, rvec_qvec, Q2R_tau2 in H. exact H.
Qed.

Lemma glm_ok_sound p l alpha icpt X y w b tol : glm_ok p l alpha icpt X y w b tol = true ->
  Rsum (map Rsqr (glin_grad (glm_phi (ddev_of (f64_Q p)) l) (f64_R alpha) icpt (rmat X) (rvec y) (rvec w) (f64_R b)))
  <= tauR tol * tauR tol.
Proof.
  unfold glm_ok. intros H. apply andb_true_iff in H as [_ H]. apply andb_true_iff in H as [_ H].
  apply glm_ok_Q_sound in H. rewrite rmat_qmat, !rvec_qvec, Q2R_tau2 in H. exact H.
Qed.

Lemma multi_ok_sound k alpha icpt X y W b tol : multi_ok k alpha icpt X y W b tol = true ->
  Rsum (map Rsqr (multi_grad k (f64_R alpha) icpt (rmat X) y (rmat W) (rvec b))) <= tauR tol * tauR tol.
Proof.
  unfold multi_ok. intros H. apply andb_true_iff in H as [_ H]. apply andb_true_iff in H as [_ H].
  apply multi_ok_Q_sound in H. rewrite !rmat_qmat, rvec_qvec, Q2R_tau2 in H. exact H.
Qed.

(** a bound on the Euclidean norm bounds every component *)
Lemma sumsq_component (l : list R) T g : 0 <= T -> Rsum (map Rsqr l) <= T * T -> In g l -> Rabs g <= T.
Proof.
  intros HT H Hin.
  assert (Hg : Rsqr g <= Rsum (map Rsqr l)).
  { clear H. induction l as [|a l IH]; [destruct Hin|]. unfold Rsum in *; simpl.
    assert (Hnn : forall m : list R, 0 <= fold_right Rplus 0 (map Rsqr m)).
    { induction m; simpl; [lra|]. pose proof (Rle_0_sqr a0). lra. }
    destruct Hin as [E|Hin]; [subst a; pose proof (Hnn l); lra|].
    specialize (IH Hin). pose proof (Rle_0_sqr a). lra. }
  assert (H2 : Rsqr g <= Rsqr T) by (unfold Rsqr at 2; lra).
  apply Rsqr_le_abs_0 in H2. rewrite (Rabs_right T) in H2 by lra. exact H2.
Qed.

Lemma tauR_nonneg tol : 0 <= f64_R tol -> 0 <= tauR tol.
Proof. intros H. unfold tauR. apply Rmult_le_pos; lra. Qed.

Lemma tol_nonneg tol : Qle_bool 0 (f64_Q tol) = true -> 0 <= tauR tol.
Proof.
  intros H. apply tauR_nonneg. unfold f64_R. apply Qle_bool_iff in H. apply Qle_Rle in H.
  rewrite RMicromega.Q2R_0 in H. exact H.
Qed.

(** * The certificates: what a successful checker run establishes *)
Lemma binary_certified alpha icpt X t w b tol :
  bin_ok alpha icpt X t w b tol = true ->
  (forall x, In x (rmat X) -> length x = length (rvec w)) ->
  let L := bin_loss (f64_R alpha) (rmat X) (map sign_R t) in
  let g := glin_grad bin_phi (f64_R alpha) icpt (rmat X) (map sign_R t) (rvec w) (f64_R b) in
  (forall j, (j < length (rvec w))%nat ->
     is_derive (fun s => L (set_nth (rvec w) j s) (f64_R b)) (nth j (rvec w) 0)
               (bin_grad_w (f64_R alpha) (rmat X) (map sign_R t) (rvec w) (f64_R b) j)) /\
  is_derive (fun s => L (rvec w) s) (f64_R b) (bin_grad_b (rmat X) (map sign_R t) (rvec w) (f64_R b)) /\
  Rsum (map Rsqr g) <= tauR tol * tauR tol /\
  (forall gj, In gj g -> Rabs gj <= tauR tol).
Proof.
  intros H Hdim L g.
  assert (Hd : forall x yi, In (x, yi) (combine (rmat X) (map sign_R t)) ->
               is_derive (bin_ell yi) (lin x (rvec w) (f64_R b)) (bin_phi yi (lin x (rvec w) (f64_R b)))).
  { intros x yi _. apply bin_ell_derive. }
  pose proof (bin_ok_sound _ _ _ _ _ _ _ H) as Hs. fold g in Hs.
  assert (Ht : 0 <= tauR tol).
  { unfold bin_ok in H. apply andb_true_iff in H as [H _]. apply tol_nonneg; exact H. }
  split; [|split; [|split]].
  - intros j Hj. unfold L, bin_loss, bin_grad_w.
    eapply is_derive_eq; [apply (glin_obj_derive_w bin_ell bin_phi (f64_R alpha / 2)); assumption|].
    unfold glin_grad_w. f_equal. field.
  - unfold L, bin_loss, bin_grad_b. apply glin_obj_derive_b. exact Hd.
  - exact Hs.
  - intros gj Hg. apply (sumsq_component g); assumption.
Qed.

(** targets in the support of the deviance family and a link with positive means *)
Definition glm_family_ok (p : Q) (l : link) (dev : R -> R -> R) : Prop :=
  (Qeq_bool p 0 = true /\ dev = dev_normal) \/
  (Qeq_bool p 0 = false /\ l <> Identity /\
   ((Q2R p = 1 /\ dev = dev_poisson) \/ (Q2R p = 2 /\ dev = dev_gamma) \/
    (Q2R p <> 1 /\ Q2R p <> 2 /\ dev = dev_general (Q2R p)))).
Definition glm_targets_ok (p : Q) (y : list R) : Prop :=
  Qeq_bool p 0 = true \/ (Q2R p = 2 /\ forall v, In v y -> 0 < v) \/ (Q2R p <> 2 /\ forall v, In v y -> 0 <= v).

Lemma glm_sample_derive p l dev y z :
  glm_family_ok p l dev -> (Qeq_bool p 0 = true \/ (Q2R p = 2 /\ 0 < y) \/ (Q2R p <> 2 /\ 0 <= y)) ->
  is_derive (glm_ell dev l y) z (glm_phi (ddev_of p) l y z).
Proof.
  intros Hf Hy. apply glm_ell_derive. unfold ddev_of.
  destruct Hf as [[E D]|[E [Hl D]]]; rewrite E; subst.
  - apply dev_normal_derive.
  - pose proof (inv_link_pos l z Hl) as Hmu.
    destruct Hy as [Hy|Hy]; [congruence|].
    destruct D as [[P D]|[[P D]|[P1 [P2 D]]]]; subst dev.
    + rewrite P. apply dev_poisson_derive; [|exact Hmu]. destruct Hy as [[Q _]|[_ Q]]; [lra|exact Q].
    + rewrite P. apply dev_gamma_derive; [|exact Hmu]. destruct Hy as [[_ Q]|[Q _]]; [exact Q|contradiction].
    + apply dev_general_derive; assumption.
Qed.

Lemma glm_certified p l dev alpha icpt X y w b tol :
  glm_ok p l alpha icpt X y w b tol = true ->
  glm_family_ok (f64_Q p) l dev -> glm_targets_ok (f64_Q p) (rvec y) ->
  (forall x, In x (rmat X) -> length x = length (rvec w)) ->
  let L := glm_loss dev l (f64_R alpha) (rmat X) (rvec y) in
  let g := glin_grad (glm_phi (ddev_of (f64_Q p)) l) (f64_R alpha) icpt (rmat X) (rvec y) (rvec w) (f64_R b) in
  (forall j, (j < length (rvec w))%nat ->
     is_derive (fun s => L (set_nth (rvec w) j s) (f64_R b)) (nth j (rvec w) 0)
               (glm_grad_w (ddev_of (f64_Q p)) l (f64_R alpha) (rmat X) (rvec y) (rvec w) (f64_R b) j)) /\
  is_derive (fun s => L (rvec w) s) (f64_R b) (glm_grad_b (ddev_of (f64_Q p)) l (rmat X) (rvec y) (rvec w) (f64_R b)) /\
  Rsum (map Rsqr g) <= tauR tol * tauR tol /\
  (forall gj, In gj g -> Rabs gj <= tauR tol).
Proof.
  intros H Hf Hy Hdim L g.
  assert (Hd : forall x yi, In (x, yi) (combine (rmat X) (rvec y)) ->
               is_derive (glm_ell dev l yi) (lin x (rvec w) (f64_R b))
                         (glm_phi (ddev_of (f64_Q p)) l yi (lin x (rvec w) (f64_R b)))).
  { intros x yi Hin. apply glm_sample_derive; [exact Hf|].
    apply in_combine_r in Hin. destruct Hy as [E|[[E Q]|[E Q]]]; auto. }
  pose proof (glm_ok_sound _ _ _ _ _ _ _ _ _ H) as Hs. fold g in Hs.
  assert (Ht : 0 <= tauR tol).
  { unfold glm_ok in H. apply andb_true_iff in H as [H _]. apply tol_nonneg; exact H. }
  split; [|split; [|split]].
  - intros j Hj. unfold L, glm_loss, glm_grad_w.
    eapply is_derive_eq; [apply (glin_obj_derive_w (glm_ell dev l) (glm_phi (ddev_of (f64_Q p)) l) (f64_R alpha / 2)); assumption|].
    unfold glin_grad_w. f_equal. field.
  - unfold L, glm_loss, glm_grad_b. apply glin_obj_derive_b. exact Hd.
  - exact Hs.
  - intros gj Hg. apply (sumsq_component g); assumption.
Qed.

Lemma multi_certified k alpha icpt X y W b tol :
  multi_ok k alpha icpt X y W b tol = true ->
  (forall x, In x (rmat X) -> length x = length (rmat W)) ->
  let L := multi_loss k (f64_R alpha) (rmat X) y in
  let g := multi_grad k (f64_R alpha) icpt (rmat X) y (rmat W) (rvec b) in
  (forall j c, (j < length (rmat W))%nat -> (c < k)%nat ->
     is_derive (fun s => L (set_nth2 (rmat W) j c s) (rvec b)) (nth c (nth j (rmat W) []) 0)
               (multi_grad_W k (f64_R alpha) (rmat X) y (rmat W) (rvec b) j c)) /\
  (forall c, (c < k)%nat ->
     is_derive (fun s => L (rmat W) (set_nth (rvec b) c s)) (nth c (rvec b) 0)
               (multi_grad_b k (rmat X) y (rmat W) (rvec b) c)) /\
  Rsum (map Rsqr g) <= tauR tol * tauR tol /\
  (forall gj, In gj g -> Rabs gj <= tauR tol).
Proof.
  intros H Hdim L g.
  pose proof (multi_ok_sound _ _ _ _ _ _ _ _ H) as Hs. fold g in Hs.
  assert (Ht : 0 <= tauR tol).
  { unfold multi_ok in H. apply andb_true_iff in H as [H _]. apply tol_nonneg; exact H. }
  assert (Hshape : length (rvec b) = k /\ forall row, In row (rmat W) -> length row = k).
  { unfold multi_ok in H. apply andb_true_iff in H as [_ H].
    repeat (apply andb_true_iff in H as [H ?]).
    split.
    - unfold rvec. rewrite map_length. apply Nat.eqb_eq. assumption.
    - intros row Hr. unfold rmat in Hr. apply in_map_iff in Hr as [r0 [E Hr]]. subst row.
      unfold rvec. rewrite map_length.
      match goal with Hf : forallb _ W = true |- _ => rewrite forallb_forall in Hf; apply Nat.eqb_eq; apply Hf; exact Hr end. }
  destruct Hshape as [Hb HW].
  split; [|split; [|split]].
  - intros j c Hj Hc. pose proof (HW (nth j (rmat W) []) (nth_In _ _ Hj)) as Hrow.
    apply multi_loss_derive_W; try assumption. lia.
  - intros c Hc. apply multi_loss_derive_b; [exact Hc|].
    exact (eq_ind_r (fun n => (c < n)%nat) Hc Hb).
  - exact Hs.
  - intros gj Hg. apply (sumsq_component g); assumption.
Qed.

(** * Non-vacuity: concrete inputs accepted by the checkers (evaluated by the kernel) *)
Example bin_ok_example :
  bin_ok 1%float true [[0]; [1]; [0]; [1]]%float [true; false; false; true] [0]%float 0%float 0x1p-13%float = true.
Proof. vm_compute. reflexivity. Qed.

Example bin_ok_rejects :
  bin_ok 1%float true [[0]; [1]; [0]; [1]]%float [true; false; false; true] [0x1p-3]%float 0%float 0x1p-13%float = false.
Proof. vm_compute. reflexivity. Qed.

Example glm_ok_example :
  glm_ok 1%float Log 0%float true [[0]; [1]; [0]; [1]]%float [1; 3; 3; 1]%float [0]%float 0x1.62e42fefa39efp-1%float 0x1p-13%float = true.
Proof. vm_compute. reflexivity. Qed.

Example multi_ok_example :
  multi_ok 2 1%float true [[0]; [1]; [0]; [1]]%float [0%nat; 1%nat; 1%nat; 0%nat] [[0; 0]]%float [0; 0]%float 0x1p-13%float = true.
Proof. vm_compute. reflexivity. Qed.

Example label_classes_example :
  label_classes N.eqb [3; 5; 5; 3; 5]%N = inr {| bl_pos := 5%N; bl_neg := 3%N; bl_target := [false; true; true; false; true] |}.
Proof. reflexivity. Qed.
Example label_classes_tie_example :
  label_classes N.eqb [3; 5; 5; 3]%N = inr {| bl_pos := 3%N; bl_neg := 5%N; bl_target := [true; false; false; true] |}.
Proof. reflexivity. Qed.
Example label_classes_multi_example :
  label_classes_multi N.eqb N.ltb [7; 2; 9; 2]%N = ([2; 7; 9]%N, [Some 1%nat; Some 0%nat; Some 2%nat; Some 0%nat]).
Proof. reflexivity. Qed.

(** * T2: convexity - a point that is stationary up to tau is optimal up to tau |theta' - theta|_1 *)
Lemma bin_ell_tangent y z z' : bin_ell y z + bin_phi y z * (z' - z) <= bin_ell y z'.
Proof.
  unfold bin_ell, bin_phi.
  set (u := y * z). set (d := y * z' - u).
  replace (y * z') with (u + d) by (unfold d; ring).
  replace (- y / (1 + exp u) * (z' - z)) with (- (1 / (1 + exp u)) * d) by (unfold d, u; field; pose proof (exp_pos (y * z)); lra).
  set (q := 1 / (1 + exp u)).
  pose proof (exp_pos u) as Hu. pose proof (exp_pos (- u)) as Hnu.
  assert (Hq : 0 < q < 1).
  { unfold q. split; [apply Rdiv_lt_0_compat; lra|].
    apply Rmult_lt_reg_r with (1 + exp u); [lra|]. unfold Rdiv. rewrite Rmult_assoc, Rinv_l by lra. lra. }
  assert (Hq2 : exp (- u) / (1 + exp (- u)) = q).
  { unfold q. rewrite exp_Ropp. field. split; lra. }
  (* (1 + e^{-(u+d)}) = (1 + e^{-u}) ((1-q) + q e^{-d}) *)
  assert (HA : 1 + exp (- (u + d)) = (1 + exp (- u)) * ((1 - q) + q * exp (- d))).
  { rewrite <- Hq2. replace (- (u + d)) with (- u + - d) by ring. rewrite exp_plus. field. lra. }
  assert (Hconv : exp (- q * d) <= (1 - q) + q * exp (- d)).
  { pose proof (exp_ineq1_le (q * d)) as E1. pose proof (exp_ineq1_le (- (1 - q) * d)) as E2.
    assert (E3 : exp (- d) * exp (q * d) = exp (- (1 - q) * d)).
    { rewrite <- exp_plus. f_equal. ring. }
    pose proof (exp_pos (q * d)) as P1.
    assert (H1 : 1 <= ((1 - q) + q * exp (- d)) * exp (q * d)).
    { replace (((1 - q) + q * exp (- d)) * exp (q * d)) with ((1 - q) * exp (q * d) + q * (exp (- d) * exp (q * d))) by ring.
      rewrite E3. nra. }
    replace (- q * d) with (- (q * d)) by ring. rewrite exp_Ropp.
    apply Rmult_le_reg_r with (exp (q * d)); [exact P1|]. rewrite Rinv_l by lra. exact H1. }
  rewrite HA. rewrite ln_mult; [|lra|pose proof (exp_pos (- q * d)); lra].
  assert (Hln : - q * d <= ln ((1 - q) + q * exp (- d))).
  { rewrite <- (ln_exp (- q * d)). pose proof (exp_pos (- q * d)) as P.
    destruct Hconv as [Hlt|Heq]; [left; apply ln_increasing; assumption|right; rewrite Heq; reflexivity]. }
  lra.
Qed.

Definition vsub (a b : list R) : list R := map2 Rminus a b.
Definition l1norm (d : list R) : R := Rsum (map Rabs d).

Lemma Rdot_vsub x : forall w' w, length w' = length w ->
  Rdot x w' - Rdot x w = Rdot x (vsub w' w).
Proof.
  induction x as [|a x IH]; intros [|b' w'] [|b w] H; simpl in *; try lia; try lra.
  unfold vsub in *. simpl. rewrite <- IH by lia. lra.
Qed.

Lemma Rdot_sq_lower w' : forall w, length w' = length w ->
  Rdot w w + 2 * Rdot w (vsub w' w) <= Rdot w' w'.
Proof.
  induction w' as [|a' w' IH]; intros [|a w] H; simpl in *; try lia; try lra.
  unfold vsub in *. simpl. specialize (IH w ltac:(lia)).
  pose proof (Rle_0_sqr (a' - a)) as Hsq. unfold Rsqr in Hsq.
  set (P := Rdot w (map2 Rminus w' w)) in *. set (Q1 := Rdot w w) in *. set (Q2 := Rdot w' w') in *. nra.
Qed.

Lemma map_nth_seq (x : list R) : map (fun j => nth j x 0) (seq 0 (length x)) = x.
Proof.
  assert (G : forall pre, map (fun j => nth j (pre ++ x) 0) (seq (length pre) (length x)) = x).
  { induction x as [|a x IH]; intros pre; simpl; auto. f_equal.
    - rewrite app_nth2 by lia. rewrite Nat.sub_diag. reflexivity.
    - specialize (IH (pre ++ [a])). rewrite app_length in IH. simpl in IH. rewrite <- app_assoc in IH. simpl in IH.
      replace (S (length pre)) with (length pre + 1)%nat by lia. exact IH. }
  exact (G []).
Qed.

Lemma Rdot_map_add (f g : nat -> R) l d :
  Rdot (map (fun j => f j + g j) l) d = Rdot (map f l) d + Rdot (map g l) d.
Proof. revert d; induction l as [|a l IH]; intros [|b d]; simpl; try lra. rewrite IH. lra. Qed.
Lemma Rdot_map_scal c (f : nat -> R) l d : Rdot (map (fun j => c * f j) l) d = c * Rdot (map f l) d.
Proof. revert d; induction l as [|a l IH]; intros [|b d]; simpl; try lra. rewrite IH. lra. Qed.
Lemma Rdot_map_zero l d : Rdot (map (fun _ : nat => 0) l) d = 0.
Proof. revert d; induction l as [|a l IH]; intros [|b d]; simpl; try lra. rewrite IH. lra. Qed.

(** exchange of the sum over samples and the sum over coordinates *)
Lemma sum_dot_exchange {A} (F : A -> R) (row : A -> list R) (l : list A) (d : list R) :
  (forall a, In a l -> length (row a) = length d) ->
  Rsum (map (fun a => F a * Rdot (row a) d) l)
  = Rdot (map (fun j => Rsum (map (fun a => F a * nth j (row a) 0) l)) (seq 0 (length d))) d.
Proof.
  induction l as [|a l IH]; intros H; unfold Rsum in *; simpl.
  - rewrite Rdot_map_zero. reflexivity.
  - rewrite IH; [|intros a0 Ha0; apply H; right; exact Ha0].
    rewrite (Rdot_map_add (fun j => F a * nth j (row a) 0)), Rdot_map_scal.
    rewrite <- (H a (or_introl eq_refl)), map_nth_seq. reflexivity.
Qed.

Lemma l1norm_nonneg d : 0 <= l1norm d.
Proof. unfold l1norm, Rsum. induction d as [|a d IH]; simpl; [lra|]. pose proof (Rabs_pos a). lra. Qed.

Lemma Rdot_lower_bound (g : list R) tau : 0 <= tau -> forall d, (forall gj, In gj g -> Rabs gj <= tau) ->
  - tau * l1norm d <= Rdot g d.
Proof.
  intros Ht. induction g as [|a g IH]; intros d H.
  - pose proof (l1norm_nonneg d). destruct d; simpl; nra.
  - destruct d as [|b d]; [unfold l1norm, Rsum; simpl; lra|].
    specialize (IH d (fun gj Hg => H gj (or_intror Hg))).
    pose proof (H a (or_introl eq_refl)) as Ha.
    assert (Hab : - tau * Rabs b <= a * b).
    { assert (H0 : Rabs (a * b) <= tau * Rabs b) by (rewrite Rabs_mult; pose proof (Rabs_pos b); nra).
      pose proof (Rle_abs (- (a * b))) as H1. rewrite Rabs_Ropp in H1. lra. }
    unfold l1norm, Rsum in *. simpl. lra.
Qed.

Lemma Rsum_split_lin {A} (F G : A -> R) e (l : list A) :
  Rsum (map (fun a => F a * (G a + e)) l) = Rsum (map (fun a => F a * G a) l) + Rsum (map F l) * e.
Proof. unfold Rsum. induction l as [|a l IH]; simpl; [lra|]. rewrite IH. ring. Qed.

Lemma logistic_first_order alpha X y w b w' b' :
  0 <= alpha -> length w' = length w -> (forall x, In x X -> length x = length w) ->
  bin_loss alpha X y w b
  + Rdot (map (bin_grad_w alpha X y w b) (seq 0 (length w))) (vsub w' w)
  + bin_grad_b X y w b * (b' - b)
  <= bin_loss alpha X y w' b'.
Proof.
  intros Ha Hl Hdim. unfold bin_loss, bin_grad_w, bin_grad_b, glin_obj, glin_grad_w, glin_grad_b.
  set (d := vsub w' w). set (e := b' - b).
  assert (Hd : length d = length w). { unfold d, vsub. clear -Hl. revert w Hl. induction w' as [|a w' IH]; intros [|c w] H; simpl in *; try lia. rewrite IH; lia. }
  (* per-sample tangent inequality, summed *)
  assert (Hs : Rsum (map (fun xy => bin_ell (snd xy) (lin (fst xy) w b)) (combine X y))
               + Rsum (map (fun xy => bin_phi (snd xy) (lin (fst xy) w b) * (Rdot (fst xy) d + e)) (combine X y))
               <= Rsum (map (fun xy => bin_ell (snd xy) (lin (fst xy) w' b')) (combine X y))).
  { assert (G : forall l : list (list R * R), (forall xy, In xy l -> length (fst xy) = length w) ->
        Rsum (map (fun xy => bin_ell (snd xy) (lin (fst xy) w b)) l)
        + Rsum (map (fun xy => bin_phi (snd xy) (lin (fst xy) w b) * (Rdot (fst xy) d + e)) l)
        <= Rsum (map (fun xy => bin_ell (snd xy) (lin (fst xy) w' b')) l)).
    { induction l as [|[x yi] l IH]; intros H; unfold Rsum in *; simpl; [lra|].
      specialize (IH (fun xy Hxy => H xy (or_intror Hxy))).
      pose proof (bin_ell_tangent yi (lin x w b) (lin x w' b')) as T.
      replace (lin x w' b' - lin x w b) with (Rdot x d + e) in T.
      - lra.
      - unfold lin, d, e. rewrite <- Rdot_vsub by exact Hl. ring. }
    apply G. intros [x yi] Hin. simpl. apply Hdim. eapply in_combine_l; exact Hin. }
  (* split the linear term and exchange the sums *)
  assert (Hx : Rsum (map (fun xy => bin_phi (snd xy) (lin (fst xy) w b) * (Rdot (fst xy) d + e)) (combine X y))
               = Rdot (map (fun j => Rsum (map (fun xy => bin_phi (snd xy) (lin (fst xy) w b) * nth j (fst xy) 0) (combine X y))) (seq 0 (length w))) d
                 + Rsum (map (fun xy => bin_phi (snd xy) (lin (fst xy) w b)) (combine X y)) * e).
  { rewrite <- Hd.
    rewrite <- (sum_dot_exchange (fun xy => bin_phi (snd xy) (lin (fst xy) w b)) fst (combine X y) d).
    - apply (Rsum_split_lin (fun xy => bin_phi (snd xy) (lin (fst xy) w b)) (fun xy => Rdot (fst xy) d)).
    - intros [x yi] Hin. simpl. rewrite Hd. apply Hdim. eapply in_combine_l; exact Hin. }
  pose proof (Rdot_sq_lower w' w Hl) as Hp. fold d in Hp.
  rewrite (Rdot_map_add (fun j => Rsum (map (fun xy => bin_phi (snd xy) (lin (fst xy) w b) * nth j (fst xy) 0) (combine X y)))
                        (fun j => alpha * nth j w 0)).
  rewrite Rdot_map_scal, map_nth_seq.
  nra.
Qed.

Lemma logistic_convex_optimal_lemma alpha X y w b w' b' tau :
  0 <= alpha -> 0 <= tau -> length w' = length w -> (forall x, In x X -> length x = length w) ->
  (forall j, (j < length w)%nat -> Rabs (bin_grad_w alpha X y w b j) <= tau) ->
  Rabs (bin_grad_b X y w b) <= tau ->
  bin_loss alpha X y w b - tau * (l1norm (vsub w' w) + Rabs (b' - b)) <= bin_loss alpha X y w' b'.
Proof.
  intros Ha Ht Hl Hdim Hg Hb.
  pose proof (logistic_first_order alpha X y w b w' b' Ha Hl Hdim) as H.
  assert (H1 : - tau * l1norm (vsub w' w) <= Rdot (map (bin_grad_w alpha X y w b) (seq 0 (length w))) (vsub w' w)).
  { apply Rdot_lower_bound; [exact Ht|]. intros gj Hin. apply in_map_iff in Hin as [j [E Hj]]. subst gj.
    apply Hg. apply in_seq in Hj. lia. }
  assert (H2 : - tau * Rabs (b' - b) <= bin_grad_b X y w b * (b' - b)).
  { assert (H0 : Rabs (bin_grad_b X y w b * (b' - b)) <= tau * Rabs (b' - b))
      by (rewrite Rabs_mult; pose proof (Rabs_pos (b' - b)); nra).
    pose proof (Rle_abs (- (bin_grad_b X y w b * (b' - b)))) as H3. rewrite Rabs_Ropp in H3. lra. }
  lra.
Qed.

Example convex_optimal_nonvacuous :
  let X := [[0]; [1]; [0]; [1]] in let y := [1; -1; -1; 1] in
  (forall j, (j < 1)%nat -> Rabs (bin_grad_w 1 X y [0] 0 j) <= 0) /\ Rabs (bin_grad_b X y [0] 0) <= 0.
Proof.
  unfold bin_grad_w, bin_grad_b, glin_grad_w, glin_grad_b, bin_phi, lin, Rsum. simpl. split.
  - intros j Hj. assert (j = 0%nat) by lia. subst j. simpl.
    repeat match goal with |- context [exp ?t] => replace t with 0 by ring; rewrite exp_0 end.
    match goal with |- Rabs ?e <= 0 => replace e with 0 by field end. rewrite Rabs_R0. lra.
  - repeat match goal with |- context [exp ?t] => replace t with 0 by ring; rewrite exp_0 end.
    match goal with |- Rabs ?e <= 0 => replace e with 0 by field end. rewrite Rabs_R0. lra.
Qed.

(** * The objectives do not depend on the order of the samples *)
Lemma Rsum_perm (l l' : list R) : Permutation l l' -> Rsum l = Rsum l'.
Proof. unfold Rsum. induction 1; simpl; lra. Qed.

Lemma glin_obj_perm (ell : R -> R -> R) c X y X' y' w b :
  Permutation (combine X y) (combine X' y') -> glin_obj ell c X y w b = glin_obj ell c X' y' w b.
Proof.
  intros H. unfold glin_obj. f_equal. apply Rsum_perm. apply Permutation_map. exact H.
Qed.

Lemma multi_loss_perm k alpha X y X' y' W b :
  Permutation (combine X y) (combine X' y') -> multi_loss k alpha X y W b = multi_loss k alpha X' y' W b.
Proof.
  intros H. unfold multi_loss. f_equal. apply Rsum_perm. apply Permutation_map. exact H.
Qed.
