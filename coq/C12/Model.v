(** C12 - executable models of linfa-logistic (label_classes, label_classes_multi,
    predict_probabilities / decision rules of the binary and the multinomial model) and of the
    Tweedie GLM glue of linfa-linear (TweedieDistribution::new / in_range, default link,
    predict), plus the documented objectives and their closed-form gradients over the reals.

    Definitions only.  The numeric glue is polymorphic in NumOps (run with B64_ops against the
    Rust f64 code bit for bit); `exp` is not an IEEE operation available in Coq, so every model
    function that needs it takes the value of `exp` as an input (checked separately against a
    verified enclosure, see Corr.v).  The L-BFGS solver itself is not modelled: its result is
    judged by the stationarity checkers of Checker.v, proved sound in Proofs.v (pattern B). *)
From Coq Require Import List NArith ZArith QArith Qreals Bool Reals.
From Coq Require String.
From LinfaVerif Require Import Common.Num Common.NdSum Common.QF.
Import ListNotations.

(** * Label coding (lib.rs: label_classes, label_classes_multi) *)
Section Labels.
Context {C : Type} (ceqb : C -> C -> bool) (cltb : C -> C -> bool).

Inductive label_error := TooFewClasses | TooManyClasses.

(* the array `binary_classes` of the scan: [None, None], [Some(c1,n1), None], [Some(c1,n1), Some(c2,n2)] *)
Definition bin_state := (option (C * N) * option (C * N))%type.

(* one iteration of `for class in y`; None = return Err(TooManyClasses) *)
Definition bin_step (st : option bin_state) (class : C) : option bin_state :=
  match st with
  | None => None
  | Some (None, None) => Some (Some (class, 1%N), None)
  | Some (Some (c, count), c2) =>
      if ceqb c class then Some (Some (class, N.succ count), c2)
      else match c2 with
           | Some (c', count') =>
               if ceqb c' class then Some (Some (c, count), Some (class, N.succ count'))
               else None                                  (* third distinct class *)
           | None => Some (Some (c, count), Some (class, 1%N))
           end
  | Some (None, Some _) => st                             (* unreachable in the Rust code *)
  end.

Record bin_labels := { bl_pos : C; bl_neg : C; bl_target : list bool (* true = +1.0, false = -1.0 *) }.

Definition label_classes (y : list C) : label_error + bin_labels :=
  match fold_left bin_step y (Some (None, None)) with
  | None => inl TooManyClasses
  | Some (Some (c1, n1), Some (c2, n2)) =>
      let t := map (fun x => ceqb x c1) y in
      if N.ltb n1 n2
      then inr {| bl_pos := c2; bl_neg := c1; bl_target := map negb t |}   (* target_array *= -1 *)
      else inr {| bl_pos := c1; bl_neg := c2; bl_target := t |}
  | Some _ => inl TooFewClasses
  end.

(* classes.sort(); classes.dedup(): insertion into a strictly increasing list *)
Fixpoint insert_class (c : C) (l : list C) : list C :=
  match l with
  | [] => [c]
  | a :: t => if cltb c a then c :: l else if ceqb c a then l else a :: insert_class c t
  end.
Definition sorted_classes (y : list C) : list C := fold_left (fun acc c => insert_class c acc) y [].

(* classes.binary_search(cls).unwrap(): position of the class in the sorted list *)
Fixpoint class_index (c : C) (l : list C) : option nat :=
  match l with
  | [] => None
  | a :: t => if ceqb c a then Some 0%nat else option_map S (class_index c t)
  end.

(* (classes, index of the one-hot 1.0 of every sample) *)
Definition label_classes_multi (y : list C) : list C * list (option nat) :=
  let cl := sorted_classes y in (cl, map (fun c => class_index c cl) y).
End Labels.

(** labels as they cross the Rust/Coq boundary: usize, bool or String targets *)
Inductive lab := LN (n : N) | LB (b : bool) | LS (s : String.string).
Definition lab_eqb (a b : lab) : bool :=
  match a, b with
  | LN x, LN y => N.eqb x y
  | LB x, LB y => Bool.eqb x y
  | LS x, LS y => String.eqb x y
  | _, _ => false
  end.
(* Rust's Ord: usize numeric, bool false < true, String byte-wise lexicographic *)
Definition lab_ltb (a b : lab) : bool :=
  match a, b with
  | LN x, LN y => N.ltb x y
  | LB x, LB y => negb x && y
  | LS x, LS y => String.ltb x y
  | _, _ => false
  end.

(** * Numeric glue *)
Section Numeric.
Context {F : Type} (o : NumOps F).
Notation "a + b" := (add o a b).
Notation "a - b" := (sub o a b).
Notation "a * b" := (mul o a b).
Notation "a / b" := (div o a b).

Fixpoint map2 {A B D} (f : A -> B -> D) (a : list A) (b : list B) : list D :=
  match a, b with x :: a', y :: b' => f x y :: map2 f a' b' | _, _ => [] end.

(* ndarray numeric_util::unrolled_dot on two contiguous slices = unrolled_fold of the products *)
Definition udot (a b : list F) : F := usum o (map2 (fun x y => x * y) a b).

(* x.dot(&params) + intercept  (Array2 . Array1: one unrolled_dot per row, then + scalar) *)
Definition lin_pred (X : list (list F)) (w : list F) (b : F) : list F := map (fun x => udot x w + b) X.

(* ndarray's 1-d dot (dot_generic) takes unrolled_dot only when BOTH operands are contiguous slices
   (`as_slice()`); a row of a column-major, column-reversed or column-strided matrix is not, and is
   folded sequentially: sum = sum + a[i] * b[i] from zero *)
Definition sdot (a b : list F) : F := fold_left (fun acc xy => acc + fst xy * snd xy) (combine a b) (zero o).
Definition ldot (contig : bool) (a b : list F) : F := if contig then udot a b else sdot a b.
Definition lin_pred_l (contig : bool) (X : list (list F)) (w : list F) (b : F) : list F :=
  map (fun x => ldot contig x w + b) X.

(* logistic(z) = 1 / (1 + exp(-z)); [e] is the value of exp(-z) *)
Definition logistic_of_exp (e : F) : F := one o / (one o + e).
Definition neg_arg (z : F) : F := opp o z.

(* predict_inplace: *prob >= self.threshold -> pos class *)
Definition bin_decide {C} (pos neg : C) (thr : F) (p : F) : C := if leb o thr p then pos else neg.

(* v.iter().copied().reduce(F::max): for non-NaN values the larger one (zero signs are invisible after the shift) *)
Definition fmax (a b : F) : F := if ltb o a b then b else a.
Definition row_max (v : list F) : option F :=
  match v with [] => None | a :: t => Some (fold_left fmax t a) end.
(* arguments of exp in softmax_inplace: n - max *)
Definition shifted (v : list F) : list F :=
  match row_max v with None => [] | Some m => map (fun n => n - m) v end.
(* the rest of softmax_inplace given es = exp(n - max): sum = v.sum() (unrolled_fold), n / sum *)
Definition softmax_of_exps (es : list F) : list F := let s := usum o es in map (fun e => e / s) es.

(* ndarray-stats argmax: first index holding the maximum (strict > scan) *)
Fixpoint argmax_scan (v : list F) (i best : nat) (bv : F) : nat :=
  match v with
  | [] => best
  | a :: t => if ltb o bv a then argmax_scan t (S i) i a else argmax_scan t (S i) best bv
  end.
Definition argmax_first (v : list F) : option nat :=
  match v with [] => None | a :: t => Some (argmax_scan t 1 0%nat a) end.

(** Tweedie GLM glue (glm/distribution.rs, glm/hyperparams.rs, glm/mod.rs) *)
Inductive support := SupAll | SupNonNeg | SupPos | SupInvalid.
Definition two : F := one o + one o.
(* TweedieDistribution::new: match arms in source order *)
Definition tweedie_support (power : F) : support :=
  if leb o power (zero o) then SupAll
  else if ltb o (zero o) power && ltb o power (one o) then SupInvalid
  else if leb o (one o) power && ltb o power two then SupNonNeg
  else if leb o two power then SupPos
  else SupInvalid.
(* in_range for finite targets: lower bound -inf exclusive / 0 inclusive / 0 exclusive *)
Definition in_range (s : support) (y : list F) : bool :=
  match s with
  | SupAll => true
  | SupNonNeg => forallb (fun v => leb o (zero o) v) y
  | SupPos => forallb (fun v => ltb o (zero o) v) y
  | SupInvalid => false
  end.

Inductive link := Identity | Log | Logit.
(* TweedieRegressorValidParams::link *)
Definition effective_link (l : option link) (power : F) : link :=
  match l with Some x => x | None => if leb o power (zero o) then Identity else Log end.

(* the argument handed to exp by Link::inverse *)
Definition link_exp_arg (l : link) (z : F) : F := match l with Logit => opp o z | _ => z end.
(* Link::inverse given e = exp(link_exp_arg l z) *)
Definition link_inverse_of_exp (l : link) (z e : F) : F :=
  match l with Identity => z | Log => e | Logit => one o / (one o + e) end.
End Numeric.

(** * The documented objectives and their closed-form gradients (over the reals)

    data rows [X], parameters [w] (weights), [b] (intercept; 0 when no intercept is fitted) *)
Local Open Scope R_scope.

Definition lin (x w : list R) (b : R) : R := Rdot x w + b.

(** objectives of the form sum_i ell(y_i, x_i.w + b) + c * |w|^2 (binary logistic, Tweedie GLM) *)
Definition glin_obj (ell : R -> R -> R) (c : R) (X : list (list R)) (y : list R) (w : list R) (b : R) : R :=
  Rsum (map (fun xy => ell (snd xy) (lin (fst xy) w b)) (combine X y)) + c * Rdot w w.
(** phi = derivative of ell in its second argument; c2 = 2c *)
Definition glin_grad_w (phi : R -> R -> R) (c2 : R) X (y : list R) w b (j : nat) : R :=
  Rsum (map (fun xy => phi (snd xy) (lin (fst xy) w b) * nth j (fst xy) 0) (combine X y)) + c2 * nth j w 0.
Definition glin_grad_b (phi : R -> R -> R) X (y : list R) w b : R :=
  Rsum (map (fun xy => phi (snd xy) (lin (fst xy) w b)) (combine X y)).

(** binary logistic regression, labels y in {-1, +1}:
    sum_i ln(1 + exp(-y_i (x_i.w + b))) + alpha/2 |w|^2 *)
Definition bin_ell (y z : R) : R := ln (1 + exp (- (y * z))).
Definition bin_phi (y z : R) : R := - y / (1 + exp (y * z)).
Definition bin_loss alpha := glin_obj bin_ell (alpha / 2).
Definition bin_grad_w alpha := glin_grad_w bin_phi alpha.
Definition bin_grad_b := glin_grad_b bin_phi.

(** Tweedie unit deviances d_p(y, mu) as documented (glm/distribution.rs) *)
Definition pow_nn (y a : R) : R := if Req_EM_T y 0 then 0 else Rpower y a.
Definition dev_normal (y mu : R) : R := (y - mu) * (y - mu).
Definition dev_poisson (y mu : R) : R := 2 * ((if Req_EM_T y 0 then 0 else y * ln (y / mu)) - y + mu).
Definition dev_gamma (y mu : R) : R := 2 * (ln (mu / y) + y / mu - 1).
Definition dev_general (p y mu : R) : R :=
  2 * (pow_nn y (2 - p) / ((1 - p) * (2 - p)) - y * Rpower mu (1 - p) / (1 - p) + Rpower mu (2 - p) / (2 - p)).
(** d/dmu d_p(y, mu) = -2 (y - mu) / mu^p *)
Definition dev_deriv (p y mu : R) : R := -2 * (y - mu) / Rpower mu p.
Definition dev_deriv_normal (y mu : R) : R := -2 * (y - mu).

Definition inv_link (l : link) (z : R) : R :=
  match l with Identity => z | Log => exp z | Logit => 1 / (1 + exp (- z)) end.
Definition inv_link_deriv (l : link) (z : R) : R :=
  match l with
  | Identity => 1
  | Log => exp z
  | Logit => (1 / (1 + exp (- z))) * (1 - 1 / (1 + exp (- z)))
  end.

(** 1/2 (sum_i d_p(y_i, g^-1(x_i.w + b)) + alpha |w|^2) *)
Definition glm_ell (dev : R -> R -> R) (l : link) (y z : R) : R := / 2 * dev y (inv_link l z).
Definition glm_phi (ddev : R -> R -> R) (l : link) (y z : R) : R :=
  / 2 * (ddev y (inv_link l z) * inv_link_deriv l z).
Definition glm_loss dev l alpha := glin_obj (glm_ell dev l) (alpha / 2).
Definition glm_grad_w ddev l alpha := glin_grad_w (glm_phi ddev l) alpha.
Definition glm_grad_b ddev l := glin_grad_b (glm_phi ddev l).

(** multinomial logistic regression: W is the list of its d rows (each of length k), b the k
    intercepts, y_i the class index of sample i:
    sum_i (ln sum_c exp(s_ic) - s_{i,y_i}) + alpha/2 |W|_F^2,  s_ic = x_i . W[:,c] + b_c *)
Definition col (c : nat) (W : list (list R)) : list R := map (fun row => nth c row 0) W.
Definition scores (k : nat) (W : list (list R)) (b : list R) (x : list R) : list R :=
  map (fun c => Rdot x (col c W) + nth c b 0) (seq 0 k).
Definition sumexp (s : list R) : R := Rsum (map exp s).
Definition softmax (s : list R) (c : nat) : R := exp (nth c s 0) / sumexp s.
Definition multi_ell (yi : nat) (s : list R) : R := ln (sumexp s) - nth yi s 0.
Definition frob2 (W : list (list R)) : R := Rsum (map (fun row => Rdot row row) W).
Definition multi_loss (k : nat) alpha (X : list (list R)) (y : list nat) W b : R :=
  Rsum (map (fun xy => multi_ell (snd xy) (scores k W b (fst xy))) (combine X y)) + alpha / 2 * frob2 W.
Definition indic (a b : nat) : R := if Nat.eqb a b then 1 else 0.
Definition multi_grad_W (k : nat) alpha X (y : list nat) W b (j c : nat) : R :=
  Rsum (map (fun xy => (softmax (scores k W b (fst xy)) c - indic (snd xy) c) * nth j (fst xy) 0) (combine X y))
  + alpha * nth c (nth j W []) 0.
Definition multi_grad_b (k : nat) X (y : list nat) W b (c : nat) : R :=
  Rsum (map (fun xy => softmax (scores k W b (fst xy)) c - indic (snd xy) c) (combine X y)).

(** the gradient vectors the checkers bound: d weight components, then the intercept component *)
Definition glin_grad (phi : R -> R -> R) (c2 : R) (icpt : bool) X y w b : list R :=
  map (glin_grad_w phi c2 X y w b) (seq 0 (length w)) ++ (if icpt then [glin_grad_b phi X y w b] else []).
Definition multi_grad (k : nat) alpha (icpt : bool) X (y : list nat) W b : list R :=
  flat_map (fun j => map (fun c => multi_grad_W k alpha X y W b j c) (seq 0 k)) (seq 0 (length W))
  ++ (if icpt then map (multi_grad_b k X y W b) (seq 0 k) else []).

(** the derivative of the unit deviance selected by the (rational value of the) power *)
Definition ddev_of (p : Q) : R -> R -> R :=
  if Qeq_bool p 0 then dev_deriv_normal else dev_deriv (Q2R p).

(** replacing one coordinate of a parameter vector / matrix (to state partial derivatives) *)
Fixpoint set_nth {A} (l : list A) (j : nat) (v : A) : list A :=
  match l, j with
  | [], _ => []
  | _ :: t, O => v :: t
  | a :: t, S j' => a :: set_nth t j' v
  end.
Definition set_nth2 (W : list (list R)) (j c : nat) (t : R) : list (list R) :=
  set_nth W j (set_nth (nth j W []) c t).
