(** C12 - property theorems (statements only; proofs are in C12/Proofs.v). *)
From Coq Require Import List NArith Reals.
From LinfaVerif Require Import Common.Num C12.Model C12.Proofs.
Import ListNotations.
Local Open Scope R_scope.

(** the binary model's probability 1/(1+exp(-z)) lies strictly between 0 and 1 for every linear predictor *)
Theorem logistic_in_unit : forall z : R, 0 < 1 / (1 + exp (- z)) < 1.
Proof. exact logistic_unit. Qed.
