(** C12 - property theorems (statements only; proofs are in C12/Proofs.v).

    Reading guide.  [bin_loss], [multi_loss], [glm_loss] (C12/Model.v) are the documented
    objectives over the reals: L2-penalised negative log-likelihoods (penalty on the weights, not
    on the intercept) and 1/2 (deviance + alpha |w|^2).  [bin_ok], [multi_ok], [glm_ok]
    (C12/Checker.v) are the decidable checkers every run evaluates on the parameters returned by
    the implementation; [tauR tol] = tol (1 + 2^-10).  [rmat], [rvec], [f64_R] give the exact real
    values of the float data.  [mat_l1dist k W' W], [vec_l1dist k b' b], [l1norm (vsub w' w)] are the
    l1 distances of parameters (C12/Convex.v, C12/Proofs.v); [glm_convex_family] lists the convex
    Tweedie power / link combinations. *)
From Coq Require Import List NArith QArith Reals Floats Permutation.
From Coquelicot Require Import Coquelicot.
From LinfaVerif Require Import Common.Num Common.QF C12.Model C12.Checker C12.Proofs C12.Convex.
Import ListNotations.
Local Open Scope R_scope.

(** ** T1: the closed-form gradients are the partial derivatives of the documented objectives *)

(** binary logistic regression, labels y_i in R (the code uses -1 / +1) *)
Theorem grad_formula_binary : forall alpha (X : list (list R)) (y w : list R) (b : R),
  (forall x, In x X -> length x = length w) ->
  (forall j, (j < length w)%nat ->
     is_derive (fun t => bin_loss alpha X y (set_nth w j t) b) (nth j w 0) (bin_grad_w (2 * (alpha / 2)) X y w b j)) /\
  is_derive (fun t => bin_loss alpha X y w t) b (bin_grad_b X y w b).
Proof.
  intros alpha X y w b Hdim. split.
  - intros j Hj. apply glin_obj_derive_w; auto. intros; apply bin_ell_derive.
  - apply glin_obj_derive_b. intros; apply bin_ell_derive.
Qed.

(** multinomial logistic regression: W is d x k (list of rows), b has k entries, y_i is a class index *)
Theorem grad_formula_multi : forall k alpha (X : list (list R)) (y : list nat) (W : list (list R)) (b : list R),
  (forall x, In x X -> length x = length W) ->
  (forall row, In row W -> length row = k) -> length b = k ->
  (forall j c, (j < length W)%nat -> (c < k)%nat ->
     is_derive (fun t => multi_loss k alpha X y (set_nth2 W j c t) b) (nth c (nth j W []) 0)
               (multi_grad_W k alpha X y W b j c)) /\
  (forall c, (c < k)%nat ->
     is_derive (fun t => multi_loss k alpha X y W (set_nth b c t)) (nth c b 0) (multi_grad_b k X y W b c)).
Proof.
  intros k alpha X y W b Hdim HW Hb. split.
  - intros j c Hj Hc. apply multi_loss_derive_W; auto.
    exact (eq_ind_r (fun n => (c < n)%nat) Hc (HW (nth j W []) (nth_In _ _ Hj))).
  - intros c Hc. apply multi_loss_derive_b; [exact Hc|exact (eq_ind_r (fun n => (c < n)%nat) Hc Hb)].
Qed.

(** Tweedie GLM: for the Normal (p = 0), Poisson (p = 1), Gamma (p = 2) and general (compound
    Poisson-Gamma 1 < p < 2, inverse Gaussian p = 3, ...) unit deviances, with targets in the
    support and a link with positive means (log, logit; any link for p = 0) *)
Theorem grad_formula_glm : forall (p : Q) l dev alpha (X : list (list R)) (y w : list R) (b : R),
  glm_family_ok p l dev -> glm_targets_ok p y ->
  (forall x, In x X -> length x = length w) ->
  (forall j, (j < length w)%nat ->
     is_derive (fun t => glm_loss dev l alpha X y (set_nth w j t) b) (nth j w 0)
               (glm_grad_w (ddev_of p) l (2 * (alpha / 2)) X y w b j)) /\
  is_derive (fun t => glm_loss dev l alpha X y w t) b (glm_grad_b (ddev_of p) l X y w b).
Proof.
  intros p l dev alpha X y w b Hf Hy Hdim.
  assert (Hd : forall x yi, In (x, yi) (combine X y) ->
               is_derive (glm_ell dev l yi) (lin x w b) (glm_phi (ddev_of p) l yi (lin x w b))).
  { intros x yi Hin. apply glm_sample_derive; [exact Hf|].
    apply in_combine_r in Hin. destruct Hy as [E|[[E Q]|[E Q]]]; auto. }
  split.
  - intros j Hj. apply glin_obj_derive_w; auto.
  - apply glin_obj_derive_b. exact Hd.
Qed.

(** the four unit deviances have derivative -2 (y - mu) / mu^p in mu *)
Theorem unit_deviance_derivatives : forall y mu,
  is_derive (dev_normal y) mu (dev_deriv_normal y mu) /\
  (0 <= y -> 0 < mu -> is_derive (dev_poisson y) mu (dev_deriv 1 y mu)) /\
  (0 < y -> 0 < mu -> is_derive (dev_gamma y) mu (dev_deriv 2 y mu)) /\
  (forall p, p <> 1 -> p <> 2 -> 0 < mu -> is_derive (dev_general p y) mu (dev_deriv p y mu)).
Proof.
  intros y mu. split; [|split; [|split]].
  - apply dev_normal_derive.
  - apply dev_poisson_derive.
  - apply dev_gamma_derive.
  - intros p. apply dev_general_derive.
Qed.

(** ** T1: soundness of the stationarity checkers (pattern B: evaluated on every fitted model) *)

(** binary: when [bin_ok] accepts the returned (w, b), every partial derivative of the documented
    objective exists, equals the closed form, and the gradient is at most tol (1 + 2^-10) in
    Euclidean norm - hence in every component.  (Without a fitted intercept the checker also
    insists that b = 0 and the last conjunct ranges over the weights only.) *)
Theorem binary_stationary_ok_sound : forall alpha icpt X t w b tol,
  bin_ok alpha icpt X t w b tol = true ->
  (forall x, In x (rmat X) -> length x = length (rvec w)) ->
  let L := bin_loss (f64_R alpha) (rmat X) (map sign_R t) in
  let g := glin_grad bin_phi (f64_R alpha) icpt (rmat X) (map sign_R t) (rvec w) (f64_R b) in
  (forall j, (j < length (rvec w))%nat ->
     is_derive (fun s => L (set_nth (rvec w) j s) (f64_R b)) (nth j (rvec w) 0)
               (bin_grad_w (f64_R alpha) (rmat X) (map sign_R t) (rvec w) (f64_R b) j)) /\
  is_derive (fun s => L (rvec w) s) (f64_R b) (bin_grad_b (rmat X) (map sign_R t) (rvec w) (f64_R b)) /\
  Rsum (map Rsqr g) <= tauR tol * tauR tol /\
  (forall gj, In gj g -> Rabs gj <= tauR tol).
Proof. exact binary_certified. Qed.

Theorem multi_stationary_ok_sound : forall k alpha icpt X y W b tol,
  multi_ok k alpha icpt X y W b tol = true ->
  (forall x, In x (rmat X) -> length x = length (rmat W)) ->
  let L := multi_loss k (f64_R alpha) (rmat X) y in
  let g := multi_grad k (f64_R alpha) icpt (rmat X) y (rmat W) (rvec b) in
  (forall j c, (j < length (rmat W))%nat -> (c < k)%nat ->
     is_derive (fun s => L (set_nth2 (rmat W) j c s) (rvec b)) (nth c (nth j (rmat W) []) 0)
               (multi_grad_W k (f64_R alpha) (rmat X) y (rmat W) (rvec b) j c)) /\
  (forall c, (c < k)%nat ->
     is_derive (fun s => L (rmat W) (set_nth (rvec b) c s)) (nth c (rvec b) 0)
               (multi_grad_b k (rmat X) y (rmat W) (rvec b) c)) /\
  Rsum (map Rsqr g) <= tauR tol * tauR tol /\
  (forall gj, In gj g -> Rabs gj <= tauR tol).
Proof. exact multi_certified. Qed.

Theorem glm_stationary_ok_sound : forall p l dev alpha icpt X y w b tol,
  glm_ok p l alpha icpt X y w b tol = true ->
  glm_family_ok (f64_Q p) l dev -> glm_targets_ok (f64_Q p) (rvec y) ->
  (forall x, In x (rmat X) -> length x = length (rvec w)) ->
  let L := glm_loss dev l (f64_R alpha) (rmat X) (rvec y) in
  let g := glin_grad (glm_phi (ddev_of (f64_Q p)) l) (f64_R alpha) icpt (rmat X) (rvec y) (rvec w) (f64_R b) in
  (forall j, (j < length (rvec w))%nat ->
     is_derive (fun s => L (set_nth (rvec w) j s) (f64_R b)) (nth j (rvec w) 0)
               (glm_grad_w (ddev_of (f64_Q p)) l (f64_R alpha) (rmat X) (rvec y) (rvec w) (f64_R b) j)) /\
  is_derive (fun s => L (rvec w) s) (f64_R b) (glm_grad_b (ddev_of (f64_Q p)) l (rmat X) (rvec y) (rvec w) (f64_R b)) /\
  Rsum (map Rsqr g) <= tauR tol * tauR tol /\
  (forall gj, In gj g -> Rabs gj <= tauR tol).
Proof. exact glm_certified. Qed.

(** ** Label coding (pattern A) *)

(** binary: exactly two classes are accepted; the positive class is the more frequent one, on equal
    counts the one seen first; the +1/-1 target marks membership in the positive class; one class
    is rejected as too few, three pairwise distinct ones as too many *)
Theorem label_coding_spec : forall (C : Type) (ceqb : C -> C -> bool),
  (forall a b, ceqb a b = true <-> a = b) ->
  forall y : list C, bin_coding_spec ceqb y (label_classes ceqb y).
Proof. exact (@label_classes_spec). Qed.

(** multinomial: the class list is strictly increasing (hence duplicate free), holds exactly the
    labels that occur, and every sample is coded by the position of its label *)
Theorem multi_label_coding_spec : forall (C : Type) (ceqb cltb : C -> C -> bool),
  (forall a b, ceqb a b = true <-> a = b) ->
  (forall a, cltb a a = false) ->
  (forall a b c, cltb a b = true -> cltb b c = true -> cltb a c = true) ->
  (forall a b, a <> b -> cltb a b = true \/ cltb b a = true) ->
  forall y : list C,
  let (cl, idx) := label_classes_multi ceqb cltb y in
  ssorted cltb cl /\ NoDup cl /\ (forall c, In c cl <-> In c y) /\
  Forall2 (fun yi oi => exists i, oi = Some i /\ nth_error cl i = Some yi) y idx.
Proof. intros C ceqb cltb H1 H2 H3 H4 y. apply label_classes_multi_spec; assumption. Qed.

(** ** Decisions and probabilities (pattern A, real-number instance of the executable models) *)

(** the binary prediction is the positive class exactly when probability >= threshold *)
Theorem decision_matches_probability : forall (C : Type) (pos neg : C) (thr p : R),
  (thr <= p -> bin_decide R_ops pos neg thr p = pos) /\ (p < thr -> bin_decide R_ops pos neg thr p = neg).
Proof. exact (@bin_decide_spec). Qed.

(** the multinomial prediction is the first class holding the largest score *)
Theorem multi_decision_is_first_argmax : forall (v : list R) i, argmax_first R_ops v = Some i ->
  (i < length v)%nat /\ (forall j, (j < length v)%nat -> nth j v 0 <= nth i v 0) /\
  (forall j, (j < i)%nat -> nth j v 0 < nth i v 0).
Proof. exact argmax_first_spec. Qed.

(** the binary probability is the logistic function of the linear predictor and lies in (0,1) *)
Theorem logistic_in_unit : forall z : R,
  logistic_of_exp R_ops (exp (neg_arg R_ops z)) = 1 / (1 + exp (- z)) /\ 0 < 1 / (1 + exp (- z)) < 1.
Proof. intros z. split; [apply logistic_of_exp_R|apply logistic_unit]. Qed.

(** softmax probabilities lie in (0,1] and sum to one *)
Theorem softmax_in_unit : forall (s : list R) c, (c < length s)%nat -> 0 < softmax s c <= 1.
Proof. exact softmax_unit. Qed.
Theorem softmax_sums_to_one : forall s : list R, s <> [] -> Rsum (map (softmax s) (seq 0 (length s))) = 1.
Proof. exact softmax_sum. Qed.

(** the executable normalisation (ndarray's unrolled sum, then division) applied to any positive
    exponentials yields probabilities in (0,1] that sum to one *)
Theorem executable_softmax_normalises : forall es : list R,
  (forall e, In e es -> 0 < e) -> es <> [] ->
  Rsum (softmax_of_exps R_ops es) = 1 /\ (forall p, In p (softmax_of_exps R_ops es) -> 0 < p <= 1).
Proof. exact softmax_of_exps_R. Qed.

(** ** Tweedie supports: which powers are valid and which targets are accepted *)
Theorem in_range_iff : forall (p : R) (y : list R),
  match tweedie_support R_ops p with
  | SupAll => p <= 0 /\ in_range R_ops SupAll y = true
  | SupInvalid => 0 < p < 1 /\ in_range R_ops SupInvalid y = false
  | SupNonNeg => 1 <= p < 2 /\ (in_range R_ops SupNonNeg y = true <-> forall v, In v y -> 0 <= v)
  | SupPos => 2 <= p /\ (in_range R_ops SupPos y = true <-> forall v, In v y -> 0 < v)
  end.
Proof.
  intros p y. pose proof (tweedie_support_spec p) as H.
  destruct (tweedie_support R_ops p); split; try exact H; try reflexivity; apply in_range_spec.
Qed.

(** ** T2: for the (convex) binary objective, stationarity up to tau is optimality up to tau |theta' - theta|_1 *)
Theorem logistic_convex_optimal : forall alpha (X : list (list R)) (y w : list R) (b : R) (w' : list R) (b' tau : R),
  0 <= alpha -> 0 <= tau -> length w' = length w -> (forall x, In x X -> length x = length w) ->
  (forall j, (j < length w)%nat -> Rabs (bin_grad_w alpha X y w b j) <= tau) ->
  Rabs (bin_grad_b X y w b) <= tau ->
  bin_loss alpha X y w b - tau * (l1norm (vsub w' w) + Rabs (b' - b)) <= bin_loss alpha X y w' b'.
Proof. exact logistic_convex_optimal_lemma. Qed.

(** ** The documented objectives are symmetric in the samples: the set of stationary points (and of
    minimisers) does not depend on the sample order *)
Theorem objectives_sample_order_invariant : forall (X X' : list (list R)) (y y' : list R),
  Permutation (combine X y) (combine X' y') ->
  (forall alpha w b, bin_loss alpha X y w b = bin_loss alpha X' y' w b) /\
  (forall dev l alpha w b, glm_loss dev l alpha X y w b = glm_loss dev l alpha X' y' w b).
Proof. intros X X' y y' H. split; intros; apply glin_obj_perm; exact H. Qed.

Theorem multi_objective_sample_order_invariant : forall k alpha (X X' : list (list R)) (y y' : list nat) W b,
  Permutation (combine X y) (combine X' y') -> multi_loss k alpha X y W b = multi_loss k alpha X' y' W b.
Proof. intros. apply multi_loss_perm. assumption. Qed.

(** ** T2 for the multinomial objective: convexity of log-sum-exp *)

(** first-order inequality: log-sum-exp lies above its tangent planes; its gradient is the softmax *)
Theorem log_sum_exp_first_order : forall s s' : list R, s <> [] -> length s' = length s ->
  ln (sumexp s) + Rsum (map (fun c => softmax s c * (nth c s' 0 - nth c s 0)) (seq 0 (length s))) <= ln (sumexp s').
Proof. exact lse_first_order_list. Qed.

(** log-sum-exp is convex along every segment (any finite index set) *)
Theorem log_sum_exp_convex : forall (A : Type) (g g' : A -> R) (l : list A) (t : R), l <> [] -> 0 <= t <= 1 ->
  ln (Rsum (map (fun c => exp (t * g c + (1 - t) * g' c)) l))
  <= t * ln (Rsum (map (fun c => exp (g c)) l)) + (1 - t) * ln (Rsum (map (fun c => exp (g' c)) l)).
Proof. exact @lse_convex. Qed.

(** stationarity of the multinomial objective up to tau (every partial derivative at most tau in
    absolute value) implies optimality up to tau |theta' - theta|_1, for every competitor (W', b') of the same shape *)
Theorem multi_logistic_convex_optimal : forall k alpha (X : list (list R)) (y : list nat) (W : list (list R)) (b : list R)
    (W' : list (list R)) (b' : list R) tau,
  (0 < k)%nat -> 0 <= alpha -> 0 <= tau -> length W' = length W ->
  (forall row, In row W -> length row = k) -> (forall row, In row W' -> length row = k) ->
  (forall x, In x X -> length x = length W) ->
  (forall j c, (j < length W)%nat -> (c < k)%nat -> Rabs (multi_grad_W k alpha X y W b j c) <= tau) ->
  (forall c, (c < k)%nat -> Rabs (multi_grad_b k X y W b c) <= tau) ->
  multi_loss k alpha X y W b - tau * (mat_l1dist k W' W + vec_l1dist k b' b) <= multi_loss k alpha X y W' b'.
Proof. exact multi_convex_optimal. Qed.

(** ** T2 for the Tweedie objectives that are convex in the linear predictor: identity link with
    p = 0 (Normal), log link with p = 1 (Poisson), 1 < p < 2 (compound Poisson-Gamma), p = 2 (Gamma).
    Other power / link combinations are not convex in general (see [tweedie_normal_log_not_convex]). *)

(** the per-sample term lies above its tangents in the linear predictor z *)
Theorem tweedie_convex_in_linear_predictor : forall (p : Q) l dev (yi z z' : R),
  glm_convex_family p l dev ->
  (Qeq_bool p 0 = true \/ (Q2R p = 2 /\ 0 < yi) \/ (Q2R p <> 2 /\ 0 <= yi)) ->
  glm_ell dev l yi z + glm_phi (ddev_of p) l yi z * (z' - z) <= glm_ell dev l yi z'.
Proof. intros p l dev yi z z' Hf Hy. exact (glm_family_tangent p l dev yi Hf Hy z z'). Qed.

Theorem tweedie_convex_optimal : forall (p : Q) l dev alpha (X : list (list R)) (y w : list R) (b : R) (w' : list R) (b' tau : R),
  glm_convex_family p l dev -> glm_targets_ok p y ->
  0 <= alpha -> 0 <= tau -> length w' = length w -> (forall x, In x X -> length x = length w) ->
  (forall j, (j < length w)%nat -> Rabs (glm_grad_w (ddev_of p) l alpha X y w b j) <= tau) ->
  Rabs (glm_grad_b (ddev_of p) l X y w b) <= tau ->
  glm_loss dev l alpha X y w b - tau * (l1norm (vsub w' w) + Rabs (b' - b)) <= glm_loss dev l alpha X y w' b'.
Proof. exact glm_convex_optimal_lemma. Qed.

(** the Normal deviance with the log link is not convex in the linear predictor (target 4, tangent at 0, point -2) *)
Theorem tweedie_normal_log_not_convex :
  ~ (forall z z', glm_ell dev_normal Log 4 z + glm_phi dev_deriv_normal Log 4 z * (z' - z) <= glm_ell dev_normal Log 4 z').
Proof. exact normal_log_not_convex. Qed.

(** ** The per-run certificates as global near-optimality: when the checker accepts the returned
    parameters of a convex objective, no competitor has a smaller value of the documented objective
    by more than tol (1 + 2^-10) times its l1 distance (without a fitted intercept the competitor's
    intercept is 0 as well) *)
Theorem binary_fit_near_optimal : forall alpha icpt X t w b tol,
  bin_ok alpha icpt X t w b tol = true -> 0 <= f64_R alpha ->
  (forall x, In x (rmat X) -> length x = length (rvec w)) ->
  forall w' b', length w' = length (rvec w) -> (icpt = false -> b' = 0) ->
  bin_loss (f64_R alpha) (rmat X) (map sign_R t) (rvec w) (f64_R b)
  - tauR tol * (l1norm (vsub w' (rvec w)) + Rabs (b' - f64_R b))
  <= bin_loss (f64_R alpha) (rmat X) (map sign_R t) w' b'.
Proof. exact binary_fit_near_optimal_lemma. Qed.

Theorem multi_fit_near_optimal : forall k alpha icpt X y W b tol,
  multi_ok k alpha icpt X y W b tol = true -> (0 < k)%nat -> 0 <= f64_R alpha ->
  (forall x, In x (rmat X) -> length x = length (rmat W)) ->
  forall W' b', length W' = length (rmat W) -> (forall row, In row W' -> length row = k) ->
  (icpt = false -> forall c, nth c b' 0 = 0) ->
  multi_loss k (f64_R alpha) (rmat X) y (rmat W) (rvec b)
  - tauR tol * (mat_l1dist k W' (rmat W) + vec_l1dist k b' (rvec b))
  <= multi_loss k (f64_R alpha) (rmat X) y W' b'.
Proof. exact multi_fit_near_optimal_lemma. Qed.

Theorem glm_fit_near_optimal : forall p l dev alpha icpt X y w b tol,
  glm_ok p l alpha icpt X y w b tol = true ->
  glm_convex_family (f64_Q p) l dev -> glm_targets_ok (f64_Q p) (rvec y) -> 0 <= f64_R alpha ->
  (forall x, In x (rmat X) -> length x = length (rvec w)) ->
  forall w' b', length w' = length (rvec w) -> (icpt = false -> b' = 0) ->
  glm_loss dev l (f64_R alpha) (rmat X) (rvec y) (rvec w) (f64_R b)
  - tauR tol * (l1norm (vsub w' (rvec w)) + Rabs (b' - f64_R b))
  <= glm_loss dev l (f64_R alpha) (rmat X) (rvec y) w' b'.
Proof. exact glm_fit_near_optimal_lemma. Qed.
