(** C12 - decidable checkers (pattern B), definitions only; soundness is proved in Proofs.v.

    Every float is turned into its exact rational value (Common/QF.v); linear predictors are
    computed exactly in Q; exp / ln are enclosed with the verified interval evaluator
    (Common/IvEval.v, 64-bit precision); the squared Euclidean norm of the gradient of the
    documented objective is then compared with the squared tolerance by a certified sign test. *)
From Coq Require Import List ZArith NArith QArith Qreals Reals Floats Bool.
From Interval Require Import Xreal Interval.
From LinfaVerif Require Import Common.Num Common.QF Common.IvEval C12.Model.
Import ListNotations.

Definition prec := prec64.

Definition Qlin (x w : list Q) (b : Q) : Q := Qred (Qdot x w + b).

(** ** objectives of the form sum_i ell(y_i, x_i.w + b) + c |w|^2 *)
(* enclosures of the gradient components: d weight components, then the intercept component *)
Definition glin_grad_encl (phis : list I.type) (c2 : Q) (icpt : bool) (X : list (list Q)) (w : list Q)
  : list I.type :=
  map (fun j => I.add prec (iv_lincomb prec (map (fun x => nth j x 0%Q) X) phis)
                           (iv_q prec (c2 * nth j w 0%Q)))
      (seq 0 (length w))
  ++ (if icpt then [iv_sum prec phis] else []).

Definition norm2_le (comps : list I.type) (tau2 : Q) : bool :=
  iv_le_i prec (iv_sumsq prec comps) (iv_q prec tau2).

Definition glin_ok (phi_i : Q -> Q -> I.type) (c2 : Q) (icpt : bool)
           (X : list (list Q)) (y : list Q) (w : list Q) (b : Q) (tau2 : Q) : bool :=
  let phis := map2 (fun x yi => phi_i yi (Qlin x w b)) X y in
  Nat.eqb (length X) (length y) && norm2_le (glin_grad_encl phis c2 icpt X w) tau2.

(** ** binary logistic regression *)
Definition bin_phi_e (y z : Q) : expr :=
  Div (Neg (Qc y)) (Add (Cst 1) (Exp (Qc (Qred (y * z))))).
Definition bin_phi_i (y z : Q) : I.type := iv_eval prec [] (bin_phi_e y z).

Definition sign_Q (t : bool) : Q := if t then 1 else -1.
Definition bin_ok_Q (alpha : Q) (icpt : bool) (X : list (list Q)) (t : list bool) (w : list Q) (b : Q) (tau2 : Q) : bool :=
  glin_ok bin_phi_i alpha icpt X (map sign_Q t) w b tau2.

(** ** Tweedie GLM: phi(y, z) = 1/2 * d'_p(y, mu(z)) * mu'(z) evaluated through three small
    environments (exp once, then mu and mu', then phi) *)
Definition exp_arg_e (l : link) (z : Q) : expr :=
  match l with Logit => Exp (Neg (Qc z)) | _ => Exp (Qc z) end.
Definition mu_e (l : link) (z : Q) : expr :=          (* Var 0 = exp(+-z) *)
  match l with
  | Identity => Qc z
  | Log => Var 0
  | Logit => Div (Cst 1) (Add (Cst 1) (Var 0))
  end.
Definition dmu_e (l : link) : expr :=
  match l with
  | Identity => Cst 1
  | Log => Var 0
  | Logit => Mul (Div (Cst 1) (Add (Cst 1) (Var 0))) (Sub (Cst 1) (Div (Cst 1) (Add (Cst 1) (Var 0))))
  end.
Definition ddev_e (p y : Q) : expr :=                 (* Var 0 = mu *)
  if Qeq_bool p 0 then Mul (Cst (-2)) (Sub (Qc y) (Var 0))
  else Div (Mul (Cst (-2)) (Sub (Qc y) (Var 0))) (Exp (Mul (Qc p) (Ln (Var 0)))).
Definition glm_phi_e (p y : Q) : expr :=              (* Var 0 = mu, Var 1 = mu' *)
  Mul (Div (Cst 1) (Cst 2)) (Mul (ddev_e p y) (Var 1)).
Definition glm_phi_i (p : Q) (l : link) (y z : Q) : I.type :=
  let e1 := iv_env prec [exp_arg_e l z] in
  let e2 := iv_env2 prec e1 [mu_e l z; dmu_e l] in
  iv_eval prec e2 (glm_phi_e p y).

Definition glm_ok_Q (p : Q) (l : link) (alpha : Q) (icpt : bool) (X : list (list Q)) (y : list Q) (w : list Q) (b : Q) (tau2 : Q) : bool :=
  glin_ok (glm_phi_i p l) alpha icpt X y w b tau2.

(** ** multinomial logistic regression *)
Definition colQ (c : nat) (W : list (list Q)) : list Q := map (fun row => nth c row 0%Q) W.
Definition scoresQ (k : nat) (W : list (list Q)) (b : list Q) (x : list Q) : list Q :=
  map (fun c => Qred (Qdot x (colQ c W) + nth c b 0%Q)) (seq 0 k).
Definition softmax_i (s : list Q) : list I.type :=
  let es := map (fun v => I.exp prec (iv_q prec v)) s in
  let tot := iv_sum prec es in
  map (fun e => I.div prec e tot) es.
Definition indicQ (a b : nat) : Q := if Nat.eqb a b then 1 else 0.
(* p_ic - [y_i = c] for every sample i *)
Definition diffs_i (P : list (list I.type)) (y : list nat) (c : nat) : list I.type :=
  map2 (fun ps yi => I.sub prec (nth c ps I.nai) (iv_q prec (indicQ yi c))) P y.
Definition multi_grad_encl (k : nat) (alpha : Q) (icpt : bool) (X : list (list Q)) (y : list nat)
           (W : list (list Q)) (b : list Q) : list I.type :=
  let P := map (fun x => softmax_i (scoresQ k W b x)) X in
  flat_map (fun j => map (fun c => I.add prec (iv_lincomb prec (map (fun x => nth j x 0%Q) X) (diffs_i P y c))
                                        (iv_q prec (alpha * nth c (nth j W []) 0%Q)))
                         (seq 0 k))
           (seq 0 (length W))
  ++ (if icpt then map (fun c => iv_sum prec (diffs_i P y c)) (seq 0 k) else []).
Definition multi_ok_Q (k : nat) (alpha : Q) (icpt : bool) (X : list (list Q)) (y : list nat)
           (W : list (list Q)) (b : list Q) (tau2 : Q) : bool :=
  Nat.eqb (length X) (length y) && norm2_le (multi_grad_encl k alpha icpt X y W b) tau2.

(** ** from floats *)
Definition qvec (v : list float) : list Q := map f64_Q v.
Definition qmat (m : list (list float)) : list (list Q) := map qvec m.
Definition vec_finite (v : list float) : bool := forallb f64_finite v.
Definition mat_finite (m : list (list float)) : bool := forallb vec_finite m.

(* (tol * (1 + 2^-10))^2 : the solver stops when the float norm of the float gradient is < tol *)
Definition tau2_of (tol : float) : Q := let t := (f64_Q tol * (1025 # 1024))%Q in Qred (t * t).

Definition bin_ok (alpha : float) (icpt : bool) (X : list (list float)) (t : list bool)
           (w : list float) (b : float) (tol : float) : bool :=
  Qle_bool 0 (f64_Q tol) &&
  (f64_finite alpha && f64_finite tol && mat_finite X && vec_finite w && f64_finite b
  && (icpt || Qeq_bool (f64_Q b) 0)
  && bin_ok_Q (f64_Q alpha) icpt (qmat X) t (qvec w) (f64_Q b) (tau2_of tol)).

Definition glm_ok (p : float) (l : link) (alpha : float) (icpt : bool) (X : list (list float)) (y : list float)
           (w : list float) (b : float) (tol : float) : bool :=
  Qle_bool 0 (f64_Q tol) &&
  (f64_finite p && f64_finite alpha && f64_finite tol && mat_finite X && vec_finite y && vec_finite w && f64_finite b
  && (icpt || Qeq_bool (f64_Q b) 0)
  && glm_ok_Q (f64_Q p) l (f64_Q alpha) icpt (qmat X) (qvec y) (qvec w) (f64_Q b) (tau2_of tol)).

Definition multi_ok (k : nat) (alpha : float) (icpt : bool) (X : list (list float)) (y : list nat)
           (W : list (list float)) (b : list float) (tol : float) : bool :=
  Qle_bool 0 (f64_Q tol) &&
  (f64_finite alpha && f64_finite tol && mat_finite X && mat_finite W && vec_finite b
  && Nat.eqb (length b) k && forallb (fun row => Nat.eqb (length row) k) W
  && (icpt || forallb (fun v => Qeq_bool (f64_Q v) 0) b)
  && multi_ok_Q k (f64_Q alpha) icpt (qmat X) y (qmat W) (qvec b) (tau2_of tol)).

(** ** value oracles for probabilities / predictions (enclosure of the true value) *)
Definition close_i (v : Q) (truth : I.type) (abs_tol rel_tol : Q) : bool :=
  iv_le_i prec (I.abs (I.sub prec (iv_q prec v) truth))
          (I.add prec (iv_q prec abs_tol) (I.mul prec (iv_q prec rel_tol) (I.abs truth))).

Definition logistic_e (z : Q) : expr := Div (Cst 1) (Add (Cst 1) (Exp (Neg (Qc z)))).
Definition tol30 : Q := 1 # (2 ^ 30).

(* |p - 1/(1+exp(-z))| <= 2^-30 *)
Definition logistic_close (p z : Q) : bool := close_i p (iv_eval prec [] (logistic_e z)) tol30 0.
(* every p_c within 2^-30 of softmax(s)_c *)
Definition softmax_close (ps s : list Q) : bool :=
  Nat.eqb (length ps) (length s) &&
  forallb (fun pt => close_i (fst pt) (snd pt) tol30 0) (combine ps (softmax_i s)).
(* |v - g^-1(z)| <= 2^-30 (1 + |g^-1(z)|); for the log link the bound is relative, 2^-30 |e^z| (+ one subnormal
   ulp), so that means of size 1e-9 are judged as strictly as means of size 1 *)
Definition inv_link_close (l : link) (v z : Q) : bool :=
  let e1 := iv_env prec [exp_arg_e l z] in
  close_i v (iv_eval prec e1 (mu_e l z)) (match l with Log => 1 # (2 ^ 1074) | _ => tol30 end) tol30.

(* the value [e] Rust computed for exp(arg): within 2^-50 relative (+ one subnormal ulp) of the truth;
   +infinity only beyond the overflow threshold *)
Definition exp_consistent (arg : Q) (e : float) : bool :=
  match Prim2SF e with
  | S754_infinity false => Qle_bool 709 arg
  | S754_zero _ | S754_finite _ _ _ =>
      close_i (f64_Q e) (I.exp prec (iv_q prec arg)) (1 # (2 ^ 1074)) (1 # (2 ^ 50))
  | _ => false
  end.

(** real values of float data (for the statements of the soundness theorems) *)
Definition f64_R (x : float) : R := Q2R (f64_Q x).
Definition rvec (v : list float) : list R := map f64_R v.
Definition rmat (m : list (list float)) : list (list R) := map rvec m.
(** the certified bound on the gradient norm: tol * (1 + 2^-10) *)
Definition tauR (tol : float) : R := (f64_R tol * (1025 / 1024))%R.
