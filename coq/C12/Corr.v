(** C12 - correspondence (Model.v at binary64 vs the Rust implementation, bit for bit where the
    arithmetic is reproducible) and property oracles (Checker.v on the implementation's outputs).
    Does not depend on Proofs.v. *)
From Coq Require Import List NArith ZArith QArith Bool Floats.
From Coq Require Import SpecFloat.
From LinfaVerif Require Export Common.Num Common.NdSum Common.QF Common.Run Common.IvEval Common.B32 C12.Model C12.Checker.
Import ListNotations.

Definition o64 := B64_ops.

(** * helpers *)
Definition labs_eqb := list_eqb lab_eqb.
Definition floats_eqb := list_eqb f64_biteq.
Definition unit_ok (p : float) : bool := f64_finite p && PrimFloat.leb 0%float p && PrimFloat.leb p 1%float.
Definition Qabs_sum (a b : list Q) : Q := Qsum (map2 (fun x y => Qabs' (x * y)) a b).
Definition count_lab (c : lab) (l : list lab) : nat := length (filter (lab_eqb c) l).
Definition lab_in (c : lab) (l : list lab) : bool := existsb (lab_eqb c) l.
Fixpoint strictly_sorted (l : list lab) : bool :=
  match l with
  | a :: (b :: _) as t => lab_ltb a b && strictly_sorted t
  | _ => true
  end.
Fixpoint zip3 {A B C} (a : list A) (b : list B) (c : list C) : list (A * B * C) :=
  match a, b, c with
  | x :: a', y :: b', z :: c' => (x, y, z) :: zip3 a' b' c'
  | _, _, _ => []
  end.
Definition same_len {A B} (a : list A) (b : list B) : bool := Nat.eqb (length a) (length b).
Fixpoint all_some {A} (l : list (option A)) : option (list A) :=
  match l with
  | [] => Some []
  | Some a :: t => option_map (cons a) (all_some t)
  | None :: _ => None
  end.

(** * memory layouts of the query batch (harness: enum Lay).  All layouts present the same logical
    matrix; the only place where the anchored code's arithmetic legitimately depends on the strides is
    ndarray's row . vector product: contiguous rows go through unrolled_dot, others are folded in order *)
Inductive layout := LStd | LFort | LRevRowsV | LRevRowsO | LRevColsV | LRevColsO | LStride2V.
(* is a row of an (n, d) matrix in this layout a contiguous slice?  (column stride 1, or at most one element;
   a single-row column-major matrix has unit strides as well) *)
Definition rows_contig (l : layout) (n d : nat) : bool :=
  Nat.leb d 1 || match l with
                 | LStd | LRevRowsV | LRevRowsO => true
                 | LFort => Nat.leb n 1
                 | LRevColsV | LRevColsO | LStride2V => false
                 end.
Definition q_contig (l : layout) {A B} (Q : list (list A)) (w : list B) : bool := rows_contig l (length Q) (length w).

(** * binary logistic regression *)
Record bin_fit := {
  bf_w : list float; bf_b : float; bf_pos : lab; bf_neg : lab;
  bf_thr : float;
  bf_qlay : layout;             (* memory layout of the query batch *)
  bf_Q : list (list float);
  bf_exp : list float;          (* Rust's exp(-(q.w + b)) per query row *)
  bf_prob : list float;         (* predict_probabilities *)
  bf_pred : list lab            (* predict *)
}.
Record bin_case := {
  bc_labels : list lab; bc_X : list (list float);
  bc_alpha : float; bc_icpt : bool; bc_tol : float;
  bc_err : N;                   (* 0 fitted; 1 TooFewClasses; 2 TooManyClasses *)
  bc_stat : bool;               (* the stationarity claim applies (valid data, not separable or penalised) *)
  bc_fit : option bin_fit
}.

Definition bin_corr (c : bin_case) : N :=
  match label_classes lab_eqb (bc_labels c), bc_fit c with
  | inl TooFewClasses, None => flag (N.eqb (bc_err c) 1) 1
  | inl TooManyClasses, None => flag (N.eqb (bc_err c) 2) 1
  | inr bl, Some f =>
      let zs := lin_pred_l o64 (q_contig (bf_qlay f) (bf_Q f) (bf_w f)) (bf_Q f) (bf_w f) (bf_b f) in
      let pm := map (logistic_of_exp o64) (bf_exp f) in
      (flag (lab_eqb (bl_pos bl) (bf_pos f) && lab_eqb (bl_neg bl) (bf_neg f) && N.eqb (bc_err c) 0) 1
       + flag (same_len zs (bf_exp f)
               && forallb (fun ze => exp_consistent (f64_Q (neg_arg o64 (fst ze))) (snd ze)) (combine zs (bf_exp f))) 2
       + flag (floats_eqb pm (bf_prob f)) 4
       + flag (labs_eqb (map (bin_decide o64 (bf_pos f) (bf_neg f) (bf_thr f)) pm) (bf_pred f)) 8)%N
  | _, _ => 1%N
  end.

(* the reported classes are the two label values, the positive one is the more frequent one,
   on equal counts the one seen first *)
Definition bin_label_spec (labels : list lab) (pos neg : lab) : bool :=
  negb (lab_eqb pos neg)
  && forallb (fun l => lab_eqb l pos || lab_eqb l neg) labels
  && lab_in pos labels && lab_in neg labels
  && Nat.leb (count_lab neg labels) (count_lab pos labels)
  && (negb (Nat.eqb (count_lab neg labels) (count_lab pos labels))
      || match labels with l0 :: _ => lab_eqb l0 pos | [] => false end).

Definition bin_oracle (c : bin_case) : N :=
  match bc_fit c with
  | None => 0%N
  | Some f =>
      let target := map (fun l => lab_eqb l (bf_pos f)) (bc_labels c) in
      let w := qvec (bf_w f) in let b := f64_Q (bf_b f) in
      (flag (negb (bc_stat c) || bin_ok (bc_alpha c) (bc_icpt c) (bc_X c) target (bf_w f) (bf_b f) (bc_tol c)) 1
       + flag (bin_label_spec (bc_labels c) (bf_pos f) (bf_neg f)) 2
       + flag (same_len (bf_prob f) (bf_Q f) && forallb unit_ok (bf_prob f)) 4
       + flag (mat_finite (bf_Q f) && vec_finite (bf_w f) && f64_finite (bf_b f)
               && forallb (fun qp => logistic_close (f64_Q (snd qp)) (Qlin (qvec (fst qp)) w b))
                          (combine (bf_Q f) (bf_prob f))) 8
       + flag (same_len (bf_pred f) (bf_prob f)
               && forallb (fun pp => lab_eqb (snd pp) (if PrimFloat.leb (bf_thr f) (fst pp) then bf_pos f else bf_neg f))
                          (combine (bf_prob f) (bf_pred f))) 16)%N
  end.


(** * binary logistic regression at f32 (LogisticRegression<f32>): the same Gallina model instantiated at
    B32_ops (SpecFloat at precision 24) against the Rust f32 execution, bit for bit *)
Definition o32 := B32_ops.
Definition b32 (z : Z) : spec_float := b32_of_bits z.
Definition sfs_eqb := list_eqb b32_biteq.
Definition unit_ok32 (p : spec_float) : bool := sf_finite p && SFleb (zero o32) p && SFleb p (one o32).
Definition svec_finite (v : list spec_float) : bool := forallb sf_finite v.
Definition svecQ (v : list spec_float) : list Q := map SF2Qd v.

(* the value Rust computed for expf(arg): within 2^-21 relative (+ one subnormal ulp) of the truth;
   +infinity only beyond the overflow threshold *)
Definition exp_consistent32 (arg : Q) (e : spec_float) : bool :=
  match e with
  | S754_infinity false => Qle_bool 88 arg
  | S754_zero _ | S754_finite _ _ _ =>
      close_i (SF2Qd e) (I.exp prec (iv_q prec arg)) (1 # (2 ^ 149)) (1 # (2 ^ 21))
  | _ => false
  end.
(* |p - 1/(1+exp(-z))| <= 2^-16: z is the exact linear predictor, p went through an f32 dot product *)
Definition logistic_close32 (p z : Q) : bool := close_i p (iv_eval prec [] (logistic_e z)) (1 # (2 ^ 16)) 0.

Record bin32_fit := {
  b3_w : list spec_float; b3_b : spec_float; b3_pos : lab; b3_neg : lab;
  b3_thr : spec_float;
  b3_qlay : layout;
  b3_Q : list (list spec_float);
  b3_exp : list spec_float;     (* Rust's expf(-(q.w + b)) per query row *)
  b3_prob : list spec_float;    (* predict_probabilities *)
  b3_pred : list lab;           (* predict *)
  b3_w64 : list float; b3_b64 : float   (* the f32 parameters widened to f64 (for the stationarity checker) *)
}.
Record bin32_case := {
  b3c_labels : list lab;
  b3c_X : list (list float);    (* the f32 training data widened exactly to f64 *)
  b3c_alpha : float; b3c_icpt : bool; b3c_tol : float;   (* the f32 hyper-parameters, widened *)
  b3c_tol_eff : float;          (* the gradient norm an f32 fit is held to: see [tol32_ok] *)
  b3c_stat : bool;
  b3c_fit : bin32_fit
}.

(* What an f32 fit is held to.  argmin's L-BFGS stops on |delta cost| < F::EPSILON (absolute) besides
   |gradient| < tolerance; at f32 the cost (at most its value n ln 2 < 0.7 n at the zero start) has an ulp
   of up to 2^-23 cost, so the solver halts as soon as the rounded cost no longer moves.  A descent step at
   gradient g lowers a cost of curvature at most lam by about |g|^2 / (2 lam), which is invisible at f32
   once |g| <= sqrt(2 lam 2^-23 0.7 n), with lam <= alpha + (|X|_F^2 + [intercept] n) / 4 (trace bound on
   the Hessian of the documented objective).  The harness may therefore replace the user's tolerance by
   at most 8 times that resolution floor (factor calibrated over 7246 fits: 99.9 % below 1, largest 2.9).
   The check is made here on exact rationals so that the harness cannot ship a larger value unnoticed. *)
Definition f32_floor2 (alpha : Q) (icpt : bool) (X : list (list Q)) : Q :=
  let n := inject_Z (Z.of_nat (length X)) in
  let ss := Qsum (map (fun r => Qsum (map (fun v => v * v)%Q r)) X) in
  let lam := (alpha + (1 # 4) * (ss + (if icpt then n else 0)))%Q in
  (128 * lam * (1 # (2 ^ 23)) * (7 # 10) * n)%Q.      (* (8 sqrt (2 lam 2^-23 0.7 n))^2 *)
Definition tol32_ok (c : bin32_case) : bool :=
  let te := f64_Q (b3c_tol_eff c) in
  f64_finite (b3c_tol_eff c) && f64_finite (b3c_tol c) && Qle_bool 0 te
  && (Qle_bool te (f64_Q (b3c_tol c))
      || Qle_bool (te * te)%Q (f32_floor2 (f64_Q (b3c_alpha c)) (b3c_icpt c) (qmat (b3c_X c)))).

Definition bin32_corr (c : bin32_case) : N :=
  let f := b3c_fit c in
  match label_classes lab_eqb (b3c_labels c) with
  | inr bl =>
      let zs := lin_pred_l o32 (q_contig (b3_qlay f) (b3_Q f) (b3_w f)) (b3_Q f) (b3_w f) (b3_b f) in
      let pm := map (logistic_of_exp o32) (b3_exp f) in
      (flag (lab_eqb (bl_pos bl) (b3_pos f) && lab_eqb (bl_neg bl) (b3_neg f)) 1
       + flag (same_len zs (b3_exp f)
               && forallb (fun ze => exp_consistent32 (SF2Qd (neg_arg o32 (fst ze))) (snd ze)) (combine zs (b3_exp f))) 2
       + flag (sfs_eqb pm (b3_prob f)) 4
       + flag (labs_eqb (map (bin_decide o32 (b3_pos f) (b3_neg f) (b3_thr f)) pm) (b3_pred f)) 8
       + flag (same_len (b3_w f) (b3_w64 f)
               && forallb (fun ab => Qeq_bool (SF2Qd (fst ab)) (f64_Q (snd ab))) (combine (b3_w f) (b3_w64 f))
               && Qeq_bool (SF2Qd (b3_b f)) (f64_Q (b3_b64 f))
               && svec_finite (b3_w f) && sf_finite (b3_b f) && vec_finite (b3_w64 f) && f64_finite (b3_b64 f)) 32
       + flag (tol32_ok c) 64)%N
  | inl _ => 1%N
  end.

Definition bin32_oracle (c : bin32_case) : N :=
  let f := b3c_fit c in
  let target := map (fun l => lab_eqb l (b3_pos f)) (b3c_labels c) in
  let w := svecQ (b3_w f) in let b := SF2Qd (b3_b f) in
  (flag (negb (b3c_stat c) || bin_ok (b3c_alpha c) (b3c_icpt c) (b3c_X c) target (b3_w64 f) (b3_b64 f) (b3c_tol_eff c)) 1
   + flag (bin_label_spec (b3c_labels c) (b3_pos f) (b3_neg f)) 2
   + flag (same_len (b3_prob f) (b3_Q f) && forallb unit_ok32 (b3_prob f)) 4
   + flag (forallb svec_finite (b3_Q f) && svec_finite (b3_w f) && sf_finite (b3_b f)
           && forallb (fun qp => logistic_close32 (SF2Qd (snd qp)) (Qlin (svecQ (fst qp)) w b))
                      (combine (b3_Q f) (b3_prob f))) 8
   + flag (same_len (b3_pred f) (b3_prob f)
           && forallb (fun pp => lab_eqb (snd pp) (if SFleb (b3_thr f) (fst pp) then b3_pos f else b3_neg f))
                      (combine (b3_prob f) (b3_pred f))) 16)%N.

(** * multinomial logistic regression *)
Record multi_fit := {
  mf_W : list (list float); mf_b : list float; mf_classes : list lab;
  mf_Q : list (list float);
  mf_scores : list (list float);   (* q.W + b recomputed by the harness with the same ndarray calls *)
  mf_exps : list (list float);     (* Rust's exp(score - rowmax) *)
  mf_prob : list (list float);     (* predict_probabilities *)
  mf_pred : list lab               (* predict *)
}.
Record multi_case := {
  mc_labels : list lab; mc_X : list (list float);
  mc_alpha : float; mc_icpt : bool; mc_tol : float;
  mc_stat : bool;
  mc_fit : multi_fit
}.

(* a shipped score agrees with the exact value up to rounding of a dot product *)
Definition score_ok (q : list Q) (W : list (list Q)) (b : list Q) (c : nat) (s : float) : bool :=
  f64_finite s &&
  let wc := colQ c W in
  Qle_bool (Qabs' (f64_Q s - (Qdot q wc + nth c b 0%Q)))
           ((1 # (2 ^ 44)) * (Qabs_sum q wc + Qabs' (nth c b 0%Q)) + (1 # (2 ^ 1000))).

Definition multi_corr (c : multi_case) : N :=
  let f := mc_fit c in
  let k := length (mf_classes f) in
  let W := qmat (mf_W f) in let b := qvec (mf_b f) in
  (flag (labs_eqb (sorted_classes lab_eqb lab_ltb (mc_labels c)) (mf_classes f)) 1
   + flag (same_len (mf_scores f) (mf_exps f)
           && forallb (fun se => same_len (fst se) (snd se)
                                 && forallb (fun ae => exp_consistent (f64_Q (fst ae)) (snd ae))
                                            (combine (shifted o64 (fst se)) (snd se)))
                      (combine (mf_scores f) (mf_exps f))) 2
   + flag (list_eqb floats_eqb (map (softmax_of_exps o64) (mf_exps f)) (mf_prob f)) 4
   + flag (same_len (mf_scores f) (mf_pred f)
           && forallb (fun sp => match argmax_first o64 (fst sp) with
                                 | Some i => match nth_error (mf_classes f) i with
                                             | Some cl => lab_eqb cl (snd sp) | None => false end
                                 | None => false end)
                      (combine (mf_scores f) (mf_pred f))) 8
   + flag (same_len (mf_scores f) (mf_Q f) && mat_finite (mf_Q f)
           && forallb (fun qs => Nat.eqb (length (snd qs)) k
                                 && forallb (fun cs => score_ok (qvec (fst qs)) W b (fst cs) (snd cs))
                                            (combine (seq 0 k) (snd qs)))
                      (combine (mf_Q f) (mf_scores f))) 16)%N.

Definition row_sum_ok (k : nat) (ps : list float) : bool :=
  Qle_bool (Qabs' (Qsum (qvec ps) - 1)) (inject_Z (Z.of_nat (2 * k)) * (1 # (2 ^ 53))).

Definition multi_oracle (c : multi_case) : N :=
  let f := mc_fit c in
  let k := length (mf_classes f) in
  let W := qmat (mf_W f) in let b := qvec (mf_b f) in
  (flag (negb (mc_stat c)
         || match all_some (map (fun l => class_index lab_eqb l (mf_classes f)) (mc_labels c)) with
            | Some y => multi_ok k (mc_alpha c) (mc_icpt c) (mc_X c) y (mf_W f) (mf_b f) (mc_tol c)
            | None => false
            end) 1
   + flag (strictly_sorted (mf_classes f)
           && forallb (fun l => lab_in l (mf_classes f)) (mc_labels c)
           && forallb (fun cl => lab_in cl (mc_labels c)) (mf_classes f)) 2
   + flag (same_len (mf_prob f) (mf_Q f)
           && forallb (fun ps => Nat.eqb (length ps) k && forallb unit_ok ps) (mf_prob f)) 4
   + flag (forallb (fun ps => vec_finite ps && row_sum_ok k ps) (mf_prob f)) 8
   + flag (same_len (mf_prob f) (mf_pred f)
           && forallb (fun pp => match class_index lab_eqb (snd pp) (mf_classes f) with
                                 | Some i => let pi := nth i (fst pp) nan in
                                             forallb (fun p => PrimFloat.leb p pi) (fst pp)
                                 | None => false end)
                      (combine (mf_prob f) (mf_pred f))) 16
   + flag (mat_finite (mf_Q f) && mat_finite (mf_W f) && vec_finite (mf_b f) && mat_finite (mf_prob f)
           && forallb (fun qp => softmax_close (qvec (snd qp)) (scoresQ k W b (qvec (fst qp))))
                      (combine (mf_Q f) (mf_prob f))) 32
   (* among classes whose exact scores x.W+b are equal (as rationals) the smallest class is predicted *)
   + flag (forallb (fun qp => match class_index lab_eqb (snd qp) (mf_classes f) with
                              | Some i => let s := scoresQ k W b (qvec (fst qp)) in
                                          let si := nth i s 0%Q in
                                          forallb (fun sj => negb (Qeq_bool sj si)) (firstn i s)
                              | None => false end)
                   (combine (mf_Q f) (mf_pred f))) 64)%N.

(** * Tweedie GLM *)
Record glm_fit := {
  gf_w : list float; gf_b : float;
  gf_qlay : layout;
  gf_Q : list (list float);
  gf_exp : list float;      (* Rust's exp(z) (log link) / exp(-z) (logit link); ignored for identity *)
  gf_pred : list float
}.
Record glm_case := {
  gc_power : float; gc_link : option link; gc_alpha : float; gc_icpt : bool; gc_tol : float;
  gc_X : list (list float); gc_y : list float;
  gc_err : N;               (* 0 fitted; 1 InvalidTargetRange; 2 InvalidTweediePower *)
  gc_stat : bool;
  gc_fit : option glm_fit
}.

Definition glm_model_err (c : glm_case) : N :=
  match tweedie_support o64 (gc_power c) with
  | SupInvalid => 2%N
  | s => if in_range o64 s (gc_y c) then 0%N else 1%N
  end.

Definition glm_corr (c : glm_case) : N :=
  let l := effective_link o64 (gc_link c) (gc_power c) in
  (flag (N.eqb (glm_model_err c) (gc_err c)
         && match gc_fit c with Some _ => N.eqb (gc_err c) 0 | None => negb (N.eqb (gc_err c) 0) end) 1
   + match gc_fit c with
     | None => 0
     | Some f =>
         let zs := lin_pred_l o64 (q_contig (gf_qlay f) (gf_Q f) (gf_w f)) (gf_Q f) (gf_w f) (gf_b f) in
         flag (match l with
               | Identity => true
               | _ => same_len zs (gf_exp f)
                      && forallb (fun ze => exp_consistent (f64_Q (link_exp_arg o64 l (fst ze))) (snd ze))
                                 (combine zs (gf_exp f))
               end) 2
         + flag (floats_eqb (map2 (link_inverse_of_exp o64 l) zs
                                  (match l with Identity => zs | _ => gf_exp f end)) (gf_pred f)) 4
     end)%N.

Definition in_link_range (l : link) (v : float) : bool :=
  f64_finite v &&
  match l with
  | Identity => true
  | Log => PrimFloat.ltb 0%float v
  | Logit => PrimFloat.leb 0%float v && PrimFloat.leb v 1%float
  end.

Definition glm_oracle (c : glm_case) : N :=
  match gc_fit c with
  | None => 0%N
  | Some f =>
      let l := effective_link o64 (gc_link c) (gc_power c) in
      let w := qvec (gf_w f) in let b := f64_Q (gf_b f) in
      (flag (negb (gc_stat c)
             || glm_ok (gc_power c) l (gc_alpha c) (gc_icpt c) (gc_X c) (gc_y c) (gf_w f) (gf_b f) (gc_tol c)) 1
       + flag (same_len (gf_pred f) (gf_Q f) && forallb (in_link_range l) (gf_pred f)) 4
       + flag (mat_finite (gf_Q f) && vec_finite (gf_w f) && f64_finite (gf_b f) && vec_finite (gf_pred f)
               && forallb (fun qp => inv_link_close l (f64_Q (snd qp)) (Qlin (qvec (fst qp)) w b))
                          (combine (gf_Q f) (gf_pred f))) 8)%N
  end.

(** * cases *)
Inductive case :=
| CBin (id : N) (c : bin_case)
| CBin32 (id : N) (c : bin32_case)
| CMulti (id : N) (c : multi_case)
| CGlm (id : N) (c : glm_case).

Definition run_case (c : case) : verdict :=
  match c with
  | CBin id b => (id, (bin_corr b, bin_oracle b))
  | CBin32 id b => (id, (bin32_corr b, bin32_oracle b))
  | CMulti id m => (id, (multi_corr m, multi_oracle m))
  | CGlm id g => (id, (glm_corr g, glm_oracle g))
  end.

Definition run_cases (cs : list case) : list N := report (map run_case cs).
