(** C17 - the document-frequency bounds [abs_bound f n] = Rust's [(f * n as f32) as usize] in
    binary32 (C17/Model.v; SpecFloat at precision 24, emax 128), characterised through Flocq:

    for every finite non-negative binary32 frequency f and every document count n < 2^24 (so that
    [n as f32] is exact) whose product stays below 2^63, the bound is

        floor (RNE_24 (f * n))

    where f * n is the exact real product and RNE_24 is rounding to the nearest binary32 number, ties
    to even ([round radix2 (fexp 24 128) ZnearestE]).  Nothing more is claimed about the rounding: the
    bound is NOT floor (f * n) in general (0.7f32 * 10 is 6.99999988..., which rounds to 7.0), and for
    n >= 2^24 the conversion [n as f32] itself rounds (see [abs_bound_one_beyond_2p24]). *)
From Coq Require Import List NArith ZArith Bool Lia Reals Lra SpecFloat.
From Flocq Require Import Core.Core IEEE754.BinarySingleNaN.
From LinfaVerif Require Import Common.Num Common.B32 C17.Model.

(** * SpecFloat at (24, 128) = Flocq's binary32 with round-to-nearest-even *)
Local Instance Hprec32 : FLX.Prec_gt_0 p32 := eq_refl _.
Local Instance Hmax32 : Prec_lt_emax p32 e32 := eq_refl _.
Local Instance Hvexp32 : Valid_exp (SpecFloat.fexp p32 e32) := fexp_correct p32 e32 Hprec32.
Notation bf32 := (binary_float p32 e32).
Notation fexp32 := (SpecFloat.fexp p32 e32).
Notation rne32 := (round radix2 fexp32 ZnearestE).

Lemma rne_equiv32 s m l : SpecFloat.round_nearest_even m l = choice_mode mode_NE s m l.
Proof.
  case l; [reflexivity|intro c]. case c; [ | reflexivity..].
  now simpl; unfold Round.cond_incr; case Z.even.
Qed.

Lemma binary_round_aux_equiv32 sx mx ex lx :
  SpecFloat.binary_round_aux p32 e32 sx mx ex lx = binary_round_aux p32 e32 mode_NE sx mx ex lx.
Proof.
  unfold SpecFloat.binary_round_aux, binary_round_aux.
  set (mrse' := shr_fexp _ _ _ _ _). case mrse'; intros mrs' e'; simpl.
  now rewrite (rne_equiv32 sx).
Qed.

Lemma binary_round_equiv32 s m e :
  SpecFloat.binary_round p32 e32 s m e = binary_round p32 e32 mode_NE s m e.
Proof.
  unfold SpecFloat.binary_round, binary_round, shl_align_fexp.
  set (mez := shl_align _ _ _); case mez as [mz ez]. apply binary_round_aux_equiv32.
Qed.

Lemma binary_normalize_equiv32 m e szero :
  SpecFloat.binary_normalize p32 e32 m e szero = B2SF (binary_normalize p32 e32 Hprec32 Hmax32 mode_NE m e szero).
Proof.
  case m as [ | p | p]; [now simpl | |]; simpl; rewrite B2SF_SF2B; apply binary_round_equiv32.
Qed.

Lemma SFmul_equiv32 (x y : bf32) : SFmul p32 e32 (B2SF x) (B2SF y) = B2SF (Bmult mode_NE x y).
Proof.
  destruct x as [sx|sx| |sx mx ex Bx], y as [sy|sy| |sy my ey By]; try reflexivity.
  simpl. rewrite B2SF_SF2B. apply binary_round_aux_equiv32.
Qed.

(** * n as f32 is exact below 2^24 *)
Definition Bnat (z : Z) : bf32 := binary_normalize p32 e32 Hprec32 Hmax32 mode_NE z 0 false.

Lemma b32_of_Z_Bnat z : (0 <= z)%Z -> b32_of_Z z = B2SF (Bnat z).
Proof.
  intros Hz. unfold Bnat, b32_of_Z. destruct z as [|p|p]; [reflexivity| |lia].
  apply binary_normalize_equiv32.
Qed.

Lemma int_format (z : Z) : (Z.abs z <= 16777216)%Z -> generic_format radix2 fexp32 (IZR z).
Proof.
  intros Hz. destruct (Z.eq_dec (Z.abs z) 16777216) as [E|NE].
  - (* 2^24 = 1 * 2^24 *)
    apply generic_format_FLT.
    assert (z = 16777216 \/ z = -16777216)%Z as [-> | ->] by lia.
    + apply FLT_spec with (f := Float radix2 1 24); [unfold F2R; simpl; lra | simpl; lia | simpl; unfold emin, e32, p32; lia].
    + apply FLT_spec with (f := Float radix2 (-1) 24); [unfold F2R; simpl; lra | simpl; lia | simpl; unfold emin, e32, p32; lia].
  - apply generic_format_FLT. apply FLT_spec with (f := Float radix2 z 0).
    + unfold F2R; simpl. lra.
    + simpl. lia.
    + simpl. unfold emin, e32, p32. lia.
Qed.

Lemma int_round (z : Z) : (Z.abs z <= 16777216)%Z -> rne32 (IZR z) = IZR z.
Proof. intros Hz. apply round_generic; [apply valid_rnd_N | apply int_format; exact Hz]. Qed.

Lemma Bnat_correct z : (0 <= z <= 16777216)%Z ->
  B2R (Bnat z) = IZR z /\ is_finite (Bnat z) = true.
Proof.
  intros Hz. assert (Ha : (Z.abs z <= 16777216)%Z) by lia.
  generalize (binary_normalize_correct p32 e32 Hprec32 Hmax32 mode_NE z 0 false).
  fold (Bnat z). cbv zeta.
  replace (F2R (Float radix2 z 0)) with (IZR z) by (unfold F2R; simpl; lra).
  change (round radix2 fexp32 (round_mode mode_NE)) with rne32.
  rewrite (int_round _ Ha).
  rewrite Rlt_bool_true.
  - intros (H1 & H2 & _). split; auto.
  - rewrite <- abs_IZR. change (bpow radix2 e32) with (IZR (2 ^ 128)). apply IZR_lt.
    assert (16777216 < 2 ^ 128)%Z by reflexivity. lia.
Qed.

(** * x as usize = floor x for finite non-negative x below 2^63 *)
Lemma Zfloor_F2R_pos (m : positive) (e : Z) :
  Zfloor (F2R (Float radix2 (Zpos m) e)) =
  match e with
  | Z0 => Zpos m
  | Zpos p => (Zpos m * Z.pow 2 (Zpos p))%Z
  | Zneg p => (Zpos m / Z.pow 2 (Zpos p))%Z
  end.
Proof.
  unfold F2R. simpl Fnum. simpl Fexp. destruct e as [|p|p].
  - simpl. rewrite Rmult_1_r. apply Zfloor_IZR.
  - rewrite <- IZR_Zpower by lia. rewrite <- mult_IZR. apply Zfloor_IZR.
  - change (Zneg p) with (- Zpos p)%Z. rewrite bpow_opp. rewrite <- IZR_Zpower by lia.
    change (IZR (Zpos m) * / IZR (radix2 ^ Zpos p))%R with (IZR (Zpos m) / IZR (radix2 ^ Zpos p))%R.
    apply Zfloor_div. change (radix2 ^ Zpos p)%Z with (2 ^ Zpos p)%Z. lia.
Qed.

Lemma trunc_floor (z : bf32) : is_finite z = true -> (0 <= B2R z)%R -> (B2R z <= IZR (2 ^ 63))%R ->
  trunc_usize (B2SF z) = Zfloor (B2R z).
Proof.
  destruct z as [s|s| |s m e Hb]; simpl; intros Hf H0 H1; try discriminate.
  - symmetry. apply (Zfloor_IZR 0).
  - destruct s.
    + exfalso. simpl in H0. pose proof (F2R_lt_0 radix2 (Float radix2 (Zneg m) e)) as L. simpl in L.
      assert (F2R (Float radix2 (Z.neg m) e) < 0)%R by (apply L; lia). lra.
    + simpl in *. rewrite <- Zfloor_F2R_pos. apply Z.min_r.
      apply Zfloor_le in H1. rewrite Zfloor_IZR in H1. unfold usize_max.
      assert (2 ^ 63 < 18446744073709551615)%Z by reflexivity. lia.
Qed.

(** * the characterisation *)
Lemma rne32_bound x : (0 <= x)%R -> (x <= IZR (2 ^ 63))%R -> (0 <= rne32 x <= IZR (2 ^ 63))%R.
Proof.
  intros H0 H1. split.
  - rewrite <- (round_0 radix2 fexp32 ZnearestE). apply round_le; auto with typeclass_instances.
  - assert (G : generic_format radix2 fexp32 (IZR (2 ^ 63))).
    { apply generic_format_FLT. apply FLT_spec with (f := Float radix2 1 63).
      - unfold F2R. simpl. lra.
      - simpl. lia.
      - simpl. unfold emin, e32, p32. lia. }
    pose proof (round_le radix2 fexp32 ZnearestE x (IZR (2 ^ 63)) H1) as L.
    rewrite (round_generic radix2 fexp32 ZnearestE _ G) in L. exact L.
Qed.

Lemma abs_bound_B (x : bf32) (n : nat) :
  is_finite x = true -> (0 <= B2R x)%R -> (Z.of_nat n <= 16777216)%Z ->
  (B2R x * IZR (Z.of_nat n) <= IZR (2 ^ 63))%R ->
  abs_bound (B2SF x) n = Z.to_N (Zfloor (rne32 (B2R x * IZR (Z.of_nat n)))).
Proof.
  intros Hf H0 Hn Hp. unfold abs_bound, abs_bound_z. f_equal.
  rewrite b32_of_Z_Bnat by lia. rewrite SFmul_equiv32.
  destruct (Bnat_correct (Z.of_nat n) ltac:(lia)) as [N1 N2].
  assert (Hprod : (0 <= B2R x * IZR (Z.of_nat n))%R).
  { apply Rmult_le_pos; auto. apply IZR_le. lia. }
  destruct (rne32_bound _ Hprod Hp) as [R0 R1].
  generalize (Bmult_correct p32 e32 Hprec32 Hmax32 mode_NE x (Bnat (Z.of_nat n))).
  rewrite N1. change (round radix2 fexp32 (round_mode mode_NE)) with rne32.
  rewrite Rlt_bool_true.
  - intros (M1 & M2 & _). rewrite Hf, N2 in M2. simpl in M2.
    rewrite <- M1. apply trunc_floor; auto; rewrite M1; auto.
  - rewrite Rabs_pos_eq by exact R0. eapply Rle_lt_trans; [exact R1|].
    change (bpow radix2 e32) with (IZR (2 ^ 128)). apply IZR_lt. reflexivity.
Qed.

(* the same on the model's own type: f is any genuine binary32 value (every bit pattern decodes to one) *)
Lemma abs_bound_floor_round (f : spec_float) (n : nat) :
  valid_binary p32 e32 f = true -> is_finite_SF f = true -> (0 <= SF2R radix2 f)%R ->
  (Z.of_nat n <= 16777216)%Z -> (SF2R radix2 f * IZR (Z.of_nat n) <= IZR (2 ^ 63))%R ->
  abs_bound f n = Z.to_N (Zfloor (rne32 (SF2R radix2 f * IZR (Z.of_nat n)))).
Proof.
  intros Hv Hf H0 Hn Hp.
  rewrite <- (B2SF_SF2B p32 e32 f Hv) at 1. rewrite <- (B2R_SF2B p32 e32 f Hv) in *.
  apply abs_bound_B; auto. rewrite is_finite_SF2B. exact Hf.
Qed.

Lemma abs_bound_mono (f1 f2 : spec_float) (n : nat) :
  valid_binary p32 e32 f1 = true -> is_finite_SF f1 = true -> (0 <= SF2R radix2 f1)%R ->
  valid_binary p32 e32 f2 = true -> is_finite_SF f2 = true ->
  (SF2R radix2 f1 <= SF2R radix2 f2)%R ->
  (Z.of_nat n <= 16777216)%Z -> (SF2R radix2 f2 * IZR (Z.of_nat n) <= IZR (2 ^ 63))%R ->
  (abs_bound f1 n <= abs_bound f2 n)%N.
Proof.
  intros V1 F1 P1 V2 F2 L Hn Hp.
  assert (Hz : (0 <= IZR (Z.of_nat n))%R) by (apply IZR_le; lia).
  assert (L' : (SF2R radix2 f1 * IZR (Z.of_nat n) <= SF2R radix2 f2 * IZR (Z.of_nat n))%R)
    by (apply Rmult_le_compat_r; auto).
  rewrite (abs_bound_floor_round f1 n) by (auto; lra).
  rewrite (abs_bound_floor_round f2 n) by (auto; lra).
  apply Z2N.inj_le.
  - rewrite <- (Zfloor_IZR 0). apply Zfloor_le. apply rne32_bound; [apply Rmult_le_pos; auto | lra].
  - rewrite <- (Zfloor_IZR 0). apply Zfloor_le. apply rne32_bound; [apply Rmult_le_pos; auto; lra | lra].
  - apply Zfloor_le. apply round_le; auto with typeclass_instances.
Qed.

(** a NaN or zero frequency gives the bound 0 (the parameter check refuses negative frequencies) *)
Lemma abs_bound_nan_zero (f : spec_float) (n : nat) :
  (f = S754_nan \/ exists s, f = S754_zero s) -> abs_bound f n = 0%N.
Proof.
  intros [->|[s ->]]; unfold abs_bound, abs_bound_z; [reflexivity|].
  destruct (b32_of_Z (Z.of_nat n)) as [t|t| |t m e]; reflexivity.
Qed.

(** * consequences used by filter_vocabulary *)
Definition f32_0 : spec_float := S754_zero false.
Definition f32_1 : spec_float := S754_finite false 8388608 (-23).

Lemma abs_bound_zero n : abs_bound f32_0 n = 0%N.
Proof. apply abs_bound_nan_zero. right. exists false. reflexivity. Qed.

Lemma SF2R_one : SF2R radix2 f32_1 = 1%R.
Proof. unfold f32_1, SF2R, F2R. simpl. lra. Qed.

(* max_df = 1.0 gives exactly the number of documents for every corpus of at most 2^24 documents:
   the default window (0.0, 1.0) always takes the unfiltered branch there *)
Lemma abs_bound_one n : (Z.of_nat n <= 16777216)%Z -> abs_bound f32_1 n = N.of_nat n.
Proof.
  intros Hn. rewrite abs_bound_floor_round; auto.
  - rewrite SF2R_one, Rmult_1_l, int_round by lia. rewrite Zfloor_IZR. lia.
  - rewrite SF2R_one. lra.
  - rewrite SF2R_one, Rmult_1_l. apply IZR_le. assert (16777216 < 2 ^ 63)%Z by reflexivity. lia.
Qed.

(* ... and not beyond: 2^24 + 1 documents as f32 is 2^24, so the bound for max_df = 1.0 is one less than
   the number of documents (an n-gram present in every document then falls outside the window) *)
Lemma abs_bound_one_beyond n : Z.of_nat n = 16777217%Z -> abs_bound f32_1 n = 16777216%N.
Proof. intros H. unfold abs_bound, abs_bound_z. rewrite H. vm_compute. reflexivity. Qed.

(** * non-vacuity and the effect of the rounding *)
Definition f32_0_7 : spec_float := S754_finite false 11744051 (-24).    (* 0.7f32 = 0x3f333333 *)
Definition f32_third : spec_float := S754_finite false 11184811 (-25).  (* (1.0/3.0)f32 = 0x3eaaaaab *)

Example ex_bits : b32_of_bits 1060320051 = f32_0_7 /\ b32_of_bits 1051372203 = f32_third /\ b32_of_bits 1065353216 = f32_1.
Proof. repeat split; reflexivity. Qed.

Example ex_hyps : valid_binary p32 e32 f32_0_7 = true /\ is_finite_SF f32_0_7 = true /\ (0 <= SF2R radix2 f32_0_7)%R.
Proof. repeat split; try reflexivity. unfold f32_0_7, SF2R, F2R. simpl. lra. Qed.

(* the exact product 0.7f32 * 10 = 117440510 / 2^24 lies below 7, its binary32 rounding is 7.0 *)
Example ex_round_up : abs_bound f32_0_7 10 = 7%N /\ (11744051 * 10 / 2 ^ 24 = 6)%Z.
Proof. split; vm_compute; reflexivity. Qed.

Example ex_third : abs_bound f32_third 3 = 1%N /\ abs_bound f32_third 6 = 2%N /\ abs_bound f32_third 2 = 0%N.
Proof. repeat split; vm_compute; reflexivity. Qed.

