(** C17 - specification vocabulary for the extension theorems (definitions only, no proofs).

    Text positions are byte positions of an ASCII string; [chars s] is the byte list of s. *)
From Coq Require Import List NArith ZArith Bool String Ascii Arith.
From LinfaVerif Require Import Common.Num C17.Model.
Import ListNotations.
Local Open Scope string_scope.

Definition chars (s : string) : list ascii := list_ascii_of_string s.

(** is position k of the text a word character ([0-9A-Za-z_])?  Positions outside the text are not. *)
Definition wordb (l : list ascii) (k : nat) : bool := nth k (map is_word l) false.

(** [maximal_run l i n]: positions i .. i+n-1 (n >= 1) lie in the text and are word characters, the
    position before i (if any) is not, and position i+n is not (or is the end of the text). *)
Definition maximal_run (l : list ascii) (i n : nat) : Prop :=
  (1 <= n)%nat /\ (i + n <= List.length l)%nat /\
  (forall k, (i <= k < i + n)%nat -> wordb l k = true) /\
  (i = 0%nat \/ wordb l (i - 1) = false) /\
  wordb l (i + n) = false.

(** the declarative reading of the regular expression \b\w\w+\b on ASCII text: the text between
    positions i and j (j exclusive) matches iff both ends are word boundaries (\b: exactly one of the
    two neighbouring positions is a word character), there are at least two characters and all of them
    are word characters *)
Definition word_boundary (l : list ascii) (k : nat) : Prop :=
  (match k with O => false | S k' => wordb l k' end) <> wordb l k.
Definition default_regex_match (l : list ascii) (i j : nat) : Prop :=
  word_boundary l i /\ word_boundary l j /\ (i + 2 <= j)%nat /\ (j <= List.length l)%nat /\
  forall k, (i <= k < j)%nat -> wordb l k = true.

(** the order of two matches in the text: the first ends strictly before the second begins *)
Definition run_before (p q : nat * nat) : Prop := (fst p + snd p < fst q)%nat.

(** the column content of a transformed document as a word -> value lookup *)
Fixpoint sparse_get {V} (j : nat) (row : list (nat * V)) : option V :=
  match row with
  | [] => None
  | (i, v) :: r => if Nat.eqb i j then Some v else sparse_get j r
  end.

(* the count stored for word w in a dense row: None when w is not in the vocabulary *)
Definition word_count (nmin nmax : nat) (m : vmap) (toks : list string) (w : string) : option nat :=
  match vget w m with
  | Some (i, _) => Some (nth i (analyze nmin nmax m toks) 0%nat)
  | None => None
  end.

(* the value stored for word w in row d of a sparse matrix whose columns are numbered by m:
   None = w not in the vocabulary, Some None = no entry stored (zero), Some (Some v) = stored v *)
Definition word_entry {V} (m : vmap) (rows : list (list (nat * V))) (d : nat) (w : string) : option (option V) :=
  match vget w m with
  | Some (i, _) => Some (sparse_get i (nth d rows []))
  | None => None
  end.
