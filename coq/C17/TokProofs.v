(** C17 - the ASCII model of the default tokeniser and of lower-casing (C17/Model.v [tokenize],
    [lower_string]) against a positional specification (C17/Spec.v [maximal_run]). *)
From Coq Require Import List NArith ZArith Bool String Ascii Arith Lia Sorted.
From LinfaVerif Require Import Common.Num C17.Model C17.Spec.
Import ListNotations.
Local Open Scope string_scope.

Definition slice (l : list ascii) (i n : nat) : list ascii := firstn n (skipn i l).

Lemma substring_slice s : forall i n, substring i n s = string_of_list_ascii (slice (chars s) i n).
Proof.
  unfold slice, chars. induction s as [|c s IH]; intros [|i] [|n]; simpl; auto.
  - rewrite IH. simpl. reflexivity.
  - apply IH.
  - apply IH.
Qed.

(** * word positions *)
Lemma wordb_out l k : (List.length l <= k)%nat -> wordb l k = false.
Proof. intros H. unfold wordb. apply nth_overflow. rewrite map_length. exact H. Qed.

Lemma wordb_app_l A B k : (k < List.length A)%nat -> wordb (A ++ B) k = wordb A k.
Proof. intros H. unfold wordb. rewrite map_app. apply app_nth1. rewrite map_length. exact H. Qed.

Lemma wordb_app_r A B k : (List.length A <= k)%nat -> wordb (A ++ B) k = wordb B (k - List.length A).
Proof.
  intros H. unfold wordb. rewrite map_app, app_nth2 by (rewrite map_length; exact H).
  rewrite map_length. reflexivity.
Qed.

Lemma wordb_all W k : forallb is_word W = true -> (k < List.length W)%nat -> wordb W k = true.
Proof.
  unfold wordb. revert k; induction W as [|c W IH]; intros k H Hk; simpl in *; [lia|].
  apply andb_true_iff in H. destruct H as [H1 H2]. destruct k as [|k]; auto. apply IH; auto. lia.
Qed.

Lemma wordb_block P W R k : forallb is_word W = true ->
  (List.length P <= k < List.length P + List.length W)%nat -> wordb (P ++ W ++ R) k = true.
Proof.
  intros HW Hk. rewrite wordb_app_r by lia. rewrite wordb_app_l by lia. apply wordb_all; auto. lia.
Qed.

(** the maximal runs that start at or after a block of word characters delimited on both sides *)
Lemma block_runs l P W R : l = (P ++ W ++ R)%list -> forallb is_word W = true ->
  (List.length P = 0%nat \/ wordb l (List.length P - 1) = false) ->
  wordb l (List.length P + List.length W) = false ->
  ((1 <= List.length W)%nat -> maximal_run l (List.length P) (List.length W)) /\
  (forall i n, maximal_run l i n -> (List.length P <= i)%nat ->
     (i = List.length P /\ n = List.length W) \/ (List.length P + List.length W + 1 <= i)%nat).
Proof.
  intros Hl HW HP HR.
  assert (K : forall k, (List.length P <= k < List.length P + List.length W)%nat -> wordb l k = true).
  { intros k Hk. rewrite Hl. apply wordb_block; auto. }
  split.
  - intros H1. unfold maximal_run. repeat split; auto.
    rewrite Hl, !app_length. lia.
  - intros i n (Hn & Hlen & Hall & Hleft & Hright) Hi.
    destruct (Nat.eq_dec i (List.length P)) as [->|Ne].
    + left. split; auto.
      destruct (lt_eq_lt_dec n (List.length W)) as [[L|E]|G]; auto; exfalso.
      * rewrite K in Hright by lia. discriminate.
      * rewrite Hall in HR by lia. discriminate.
    + destruct (le_lt_dec (List.length P + List.length W + 1) i) as [L|L]; auto. exfalso.
      destruct (Nat.eq_dec i (List.length P + List.length W)) as [->|Ne2].
      * rewrite Hall in HR by lia. discriminate.
      * destruct Hleft as [H0|H0]; [lia|]. rewrite K in H0 by lia. discriminate.
Qed.

Definition flush_runs (P cur : list ascii) : list (nat * nat) :=
  if (2 <=? List.length cur)%nat then [(List.length P, List.length cur)] else [].

Lemma slice_block P W R : slice (P ++ W ++ R) (List.length P) (List.length W) = W.
Proof.
  unfold slice. rewrite skipn_app, skipn_all, Nat.sub_diag. simpl.
  rewrite firstn_app, firstn_all, Nat.sub_diag. simpl. apply app_nil_r.
Qed.

Lemma flush_as_runs l P cur R : l = (P ++ rev cur ++ R)%list ->
  flush cur = map (fun p => string_of_list_ascii (slice l (fst p) (snd p))) (flush_runs P cur).
Proof.
  intros Hl. unfold flush, flush_runs. destruct (2 <=? List.length cur)%nat; auto. simpl.
  rewrite Hl. rewrite <- (rev_length cur). rewrite slice_block. reflexivity.
Qed.

Definition token_at (l : list ascii) (p : nat * nat) : string := string_of_list_ascii (slice l (fst p) (snd p)).

Lemma tok_go_runs l : forall r cur P,
  l = (P ++ rev cur ++ chars r)%list -> forallb is_word cur = true ->
  (List.length P = 0%nat \/ wordb l (List.length P - 1) = false) ->
  exists runs,
    tok_go r cur = map (token_at l) runs /\
    (forall i n, In (i, n) runs <-> maximal_run l i n /\ (2 <= n)%nat /\ (List.length P <= i)%nat) /\
    StronglySorted run_before runs.
Proof.
  induction r as [|c r IH]; intros cur P Hl HW HP.
  - (* end of the text *)
    simpl in Hl. simpl tok_go.
    assert (HR : wordb l (List.length P + List.length (rev cur)) = false).
    { apply wordb_out. rewrite Hl, !app_length. simpl. lia. }
    assert (HW' : forallb is_word (rev cur) = true).
    { apply forallb_forall. intros x Hx. apply in_rev in Hx. rewrite forallb_forall in HW. auto. }
    destruct (block_runs l P (rev cur) [] Hl HW' HP HR) as [B1 B2].
    exists (flush_runs P cur). split; [exact (flush_as_runs l P cur [] Hl)|]. split.
    + intros i n. unfold flush_runs. rewrite rev_length in *.
      destruct (Nat.leb_spec 2 (List.length cur)) as [L|L]; simpl.
      * split.
        -- intros [H|[]]. inversion H; subst i n. split; [apply B1; lia | split; lia].
        -- intros (Hm & Hn & Hi). destruct (B2 i n Hm Hi) as [[-> ->]|Hb]; auto.
           exfalso. destruct Hm as (_ & Hlen & _). rewrite Hl, !app_length, rev_length in Hlen. simpl in Hlen. lia.
      * split; [tauto|]. intros (Hm & Hn & Hi). destruct (B2 i n Hm Hi) as [[-> ->]|Hb]; [lia|].
        destruct Hm as (_ & Hlen & _). rewrite Hl, !app_length, rev_length in Hlen. simpl in Hlen. lia.
    + unfold flush_runs. destruct (2 <=? List.length cur)%nat; repeat constructor.
  - simpl tok_go. destruct (is_word c) eqn:Ec.
    + (* the run goes on *)
      apply (IH (c :: cur) P); auto.
      * rewrite Hl. simpl. rewrite <- !app_assoc. reflexivity.
      * simpl. rewrite Ec. exact HW.
    + (* a separator: the current run ends here *)
      assert (Hl' : l = ((P ++ rev cur ++ [c]) ++ rev [] ++ chars r)%list).
      { rewrite Hl. simpl. rewrite <- !app_assoc. reflexivity. }
      assert (Hc : wordb l (List.length P + List.length (rev cur)) = false).
      { rewrite Hl. rewrite wordb_app_r by lia. rewrite wordb_app_r by lia.
        replace (_ - _ - _)%nat with 0%nat by lia. unfold wordb. simpl. exact Ec. }
      assert (HP' : List.length (P ++ rev cur ++ [c]) = 0%nat \/ wordb l (List.length (P ++ rev cur ++ [c]) - 1) = false).
      { right. rewrite !app_length. simpl.
        replace (_ - 1)%nat with (List.length P + List.length (rev cur))%nat by lia. exact Hc. }
      destruct (IH [] (P ++ rev cur ++ [c])%list Hl' eq_refl HP') as (runs' & T1 & T2 & T3).
      assert (HW' : forallb is_word (rev cur) = true).
      { apply forallb_forall. intros x Hx. apply in_rev in Hx. rewrite forallb_forall in HW. auto. }
      assert (Hl2 : l = (P ++ rev cur ++ (c :: chars r))%list) by (rewrite Hl; reflexivity).
      destruct (block_runs l P (rev cur) (c :: chars r) Hl2 HW' HP Hc) as [B1 B2].
      assert (Hlen' : List.length (P ++ rev cur ++ [c]) = (List.length P + List.length cur + 1)%nat).
      { rewrite !app_length, rev_length. simpl. lia. }
      rewrite Hlen' in T2. rewrite rev_length in *.
      exists (flush_runs P cur ++ runs')%list. split; [|split].
      * rewrite map_app, T1. f_equal. exact (flush_as_runs l P cur _ Hl2).
      * intros i n. rewrite in_app_iff, T2. unfold flush_runs.
        destruct (Nat.leb_spec 2 (List.length cur)) as [L|L]; simpl.
        -- split.
           ++ intros [[H|[]]|(Hm & Hn & Hi)].
              ** inversion H; subst i n. split; [apply B1; lia | split; lia].
              ** split; [exact Hm | split; lia].
           ++ intros (Hm & Hn & Hi). destruct (B2 i n Hm Hi) as [[-> ->]|Hb]; auto.
        -- split.
           ++ intros [[]|(Hm & Hn & Hi)]. split; [exact Hm | split; lia].
           ++ intros (Hm & Hn & Hi). destruct (B2 i n Hm Hi) as [[-> ->]|Hb]; [lia|]. right. auto.
      * unfold flush_runs. destruct (2 <=? List.length cur)%nat; simpl; auto.
        constructor; auto. apply Forall_forall. intros [i n] Hq. apply T2 in Hq.
        unfold run_before. simpl. lia.
Qed.

(** the model's token list is exactly the list of the maximal word-character runs of length >= 2,
    in text order *)
Lemma tokenize_runs s : exists runs : list (nat * nat),
  tokenize s = map (fun p => substring (fst p) (snd p) s) runs /\
  (forall i n, In (i, n) runs <-> maximal_run (chars s) i n /\ (2 <= n)%nat) /\
  StronglySorted run_before runs.
Proof.
  destruct (tok_go_runs (chars s) s [] [] eq_refl eq_refl (or_introl eq_refl)) as (runs & H1 & H2 & H3).
  exists runs. split; [|split; auto].
  - unfold tokenize. rewrite H1. apply map_ext. intros p. unfold token_at. symmetry. apply substring_slice.
  - intros i n. rewrite H2. simpl. intuition lia.
Qed.

(** such a list of positions is unique: the specification determines the token list *)
Lemma run_before_irrefl_sorted (l1 l2 : list (nat * nat)) :
  StronglySorted run_before l1 -> StronglySorted run_before l2 ->
  (forall p, In p l1 <-> In p l2) -> l1 = l2.
Proof.
  intros S1; revert l2; induction S1 as [|a l1 S1 IH F1]; intros l2 S2 H.
  - destruct l2 as [|b l2]; auto. exfalso. apply (H b). simpl; auto.
  - destruct S2 as [|b l2 S2 F2]; [exfalso; apply (H a); simpl; auto|].
    rewrite Forall_forall in F1, F2.
    assert (Hab : a = b).
    { destruct (proj1 (H a) (or_introl eq_refl)) as [E|Ha]; auto.
      destruct (proj2 (H b) (or_introl eq_refl)) as [E|Hb]; auto.
      apply F2 in Ha. apply F1 in Hb. unfold run_before in *. lia. }
    subst b. f_equal. apply IH; auto.
    intros p. split; intros Hp.
    + destruct (proj1 (H p) (or_intror Hp)) as [E|Hq]; auto. subst p.
      apply F1 in Hp. unfold run_before in Hp. lia.
    + destruct (proj2 (H p) (or_intror Hp)) as [E|Hq]; auto. subst p.
      apply F2 in Hp. unfold run_before in Hp. lia.
Qed.

(** the declarative reading of \b\w\w+\b matches exactly the maximal runs of length >= 2 *)
Lemma regex_match_iff_run l i n :
  default_regex_match l i (i + n) <-> maximal_run l i n /\ (2 <= n)%nat.
Proof.
  unfold default_regex_match, maximal_run, word_boundary. split.
  - intros (B1 & B2 & Hn & Hlen & Hall). repeat split; try lia.
    + exact Hall.
    + destruct i as [|i']; auto. right. simpl. rewrite Nat.sub_0_r.
      rewrite (Hall (S i')) in B1 by lia. destruct (wordb l i'); congruence.
    + replace (i + n)%nat with (S (i + n - 1)) in B2 at 1 by lia.
      rewrite (Hall (i + n - 1)%nat) in B2 by lia. destruct (wordb l (i + n)); congruence.
  - intros ((Hn & Hlen & Hall & Hleft & Hright) & H2). repeat split; try lia.
    + rewrite (Hall i) by lia. destruct i as [|i']; [discriminate|].
      destruct Hleft as [H|H]; [lia|]. simpl in H. rewrite Nat.sub_0_r in H. rewrite H. discriminate.
    + replace (i + n)%nat with (S (i + n - 1)) at 1 by lia.
      rewrite (Hall (i + n - 1)%nat) by lia. rewrite Hright. discriminate.
    + exact Hall.
Qed.

(** * lower-casing *)
Lemma lower_ascii_spec c :
  ((65 <= N_of_ascii c <= 90)%N -> N_of_ascii (lower_ascii c) = (N_of_ascii c + 32)%N) /\
  (~ (65 <= N_of_ascii c <= 90)%N -> lower_ascii c = c).
Proof.
  unfold lower_ascii, in_range. split.
  - intros [H1 H2]. apply N.leb_le in H1, H2. rewrite H1, H2. simpl.
    apply N_ascii_embedding. apply N.leb_le in H2. lia.
  - intros H. destruct (N.leb_spec 65 (N_of_ascii c)); destruct (N.leb_spec (N_of_ascii c) 90); simpl; auto.
    exfalso; apply H; lia.
Qed.

Lemma is_word_lower c : is_word (lower_ascii c) = is_word c.
Proof. destruct c as [[] [] [] [] [] [] [] []]; reflexivity. Qed.

Lemma lower_ascii_idem c : lower_ascii (lower_ascii c) = lower_ascii c.
Proof. destruct c as [[] [] [] [] [] [] [] []]; reflexivity. Qed.

Lemma lower_string_length s : String.length (lower_string s) = String.length s.
Proof. induction s; simpl; auto. Qed.

Lemma lower_string_get s : forall k, String.get k (lower_string s) = option_map lower_ascii (String.get k s).
Proof. induction s as [|c s IH]; intros [|k]; simpl; auto. Qed.

Lemma lower_string_idem s : lower_string (lower_string s) = lower_string s.
Proof. induction s as [|c s IH]; simpl; auto. rewrite lower_ascii_idem, IH. reflexivity. Qed.

Lemma lower_string_of_list l : lower_string (string_of_list_ascii l) = string_of_list_ascii (map lower_ascii l).
Proof. induction l as [|c l IH]; simpl; auto. rewrite IH. reflexivity. Qed.

Lemma flush_lower cur : flush (map lower_ascii cur) = map lower_string (flush cur).
Proof.
  unfold flush. rewrite map_length. destruct (2 <=? List.length cur)%nat; auto. simpl.
  rewrite lower_string_of_list, map_rev. reflexivity.
Qed.

Lemma tok_go_lower : forall r cur, tok_go (lower_string r) (map lower_ascii cur) = map lower_string (tok_go r cur).
Proof.
  induction r as [|c r IH]; intros cur; simpl; [apply flush_lower|].
  rewrite is_word_lower. destruct (is_word c).
  - apply (IH (c :: cur)).
  - rewrite map_app, flush_lower. f_equal. apply (IH []).
Qed.

(** lower-casing does not move token boundaries *)
Lemma tokenize_lower s : tokenize (lower_string s) = map lower_string (tokenize s).
Proof. apply (tok_go_lower s []). Qed.

(** * non-vacuity *)
Example ex_tokenize : tokenize "a Bc_1, d;ef9--g hi" = ["Bc_1"; "ef9"; "hi"].
Proof. reflexivity. Qed.

Example ex_runs : maximal_run (chars "a Bc_1, d") 2 4 /\ maximal_run (chars "a Bc_1, d") 0 1 /\ substring 2 4 "a Bc_1, d" = "Bc_1".
Proof.
  split; [|split; [|reflexivity]]; unfold maximal_run; repeat split; simpl; auto; try lia.
  - intros k Hk. assert (k = 2 \/ k = 3 \/ k = 4 \/ k = 5)%nat as [->|[->|[->| ->]]] by lia; reflexivity.
  - intros k Hk. assert (k = 0)%nat as -> by lia. reflexivity.
Qed.

Example ex_regex : default_regex_match (chars "a Bc_1, d") 2 6.
Proof. apply (regex_match_iff_run _ 2 4). split; [apply ex_runs | lia]. Qed.

Example ex_lower : lower_string "Ab_Z9 [x]" = "ab_z9 [x]" /\ tokenize (lower_string "AA b Cd") = ["aa"; "cd"].
Proof. split; reflexivity. Qed.
