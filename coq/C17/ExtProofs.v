(** C17 - extension lemmas: soundness of the property oracle for the feature cap and for tf-idf
    (C17/Corr.v [oracle_vocab], [oracle_tfidf]) and independence of the word -> column content from the
    enumeration order of the hash map. *)
From Coq Require Import List NArith ZArith Bool String Ascii Arith Lia Permutation Sorted Floats.
From LinfaVerif Require Import Common.Num Common.B32 C17.Model C17.Corr C17.Spec C17.Proofs.
Import ListNotations.
Local Open Scope string_scope.

(** * the feature cap *)
Lemma oracle_cap_sound c grams vocab k :
  c_fixed c = None -> s_cap (settings_of c) = Some k -> oracle_vocab c grams vocab = 0%N ->
  let s := settings_of c in
  let adm := filter (admitted s grams) (dedup (List.concat grams)) in
  NoDup vocab /\ NoDup adm /\
  (forall w, In w adm <-> (exists g, In g grams /\ In w g) /\ admitted s grams w = true) /\
  incl vocab adm /\ List.length vocab = Nat.min k (List.length adm) /\
  (forall a b, In a vocab -> In b adm -> ~ In b vocab ->
     (df_ref b grams < df_ref a grams)%nat \/ (df_ref a grams = df_ref b grams /\ str_cmp b a = Lt)).
Proof.
  intros Hf Hc. unfold oracle_vocab. rewrite Hf, Hc. cbv zeta. intros H.
  set (adm := filter (admitted (settings_of c) grams) (dedup (List.concat grams))) in *.
  apply N_add_zero in H. destruct H as [H H34]. apply N_add_zero in H. destruct H as [H1 H2].
  apply N_add_zero in H34. destruct H34 as [H3 H4].
  apply flag_zero in H1; [|discriminate]. apply flag_zero in H2; [|discriminate].
  apply flag_zero in H3; [|discriminate]. apply flag_zero in H4; [|discriminate].
  apply nodupb_sound in H1. apply subset_sound in H2. apply Nat.eqb_eq in H3.
  split; [exact H1|]. split; [apply NoDup_filter, dedup_NoDup|]. split; [|split; [exact H2|split; [exact H3|]]].
  - intros w. unfold adm. rewrite filter_In, dedup_In, in_concat. split.
    + intros [[g [Hg Hw]] Ha]. split; [exists g; auto|exact Ha].
    + intros [[g [Hg Hw]] Ha]. split; [exists g; auto|exact Ha].
  - intros a b Ha Hb Hnb. rewrite forallb_forall in H4. specialize (H4 b Hb).
    apply orb_true_iff in H4. destruct H4 as [H4|H4]; [apply mem_In in H4; contradiction|].
    rewrite forallb_forall in H4. specialize (H4 a Ha). apply key_lt_iff in H4. exact H4.
Qed.

(** * tf-idf *)
Lemma sf_eqb_eq a b : sf_eqb a b = true -> a = b.
Proof.
  destruct a as [s|s| |s m e], b as [t|t| |t n f]; simpl; intros H; try discriminate; auto.
  - apply Bool.eqb_prop in H. congruence.
  - apply Bool.eqb_prop in H. congruence.
  - apply andb_true_iff in H. destruct H as [H H3]. apply andb_true_iff in H. destruct H as [H1 H2].
    apply Bool.eqb_prop in H1. apply Pos.eqb_eq in H2. apply Z.eqb_eq in H3. congruence.
Qed.

Lemma f64_biteq_eq a b : f64_biteq a b = true -> a = b.
Proof. unfold f64_biteq. intros H. apply sf_eqb_eq in H. apply Prim2SF_inj. exact H. Qed.

Definition has_entry (row : list (N * float)) (j : N) : Prop := exists p, In p row /\ fst p = j.

Definition tfidf_row_spec (c : case) (vocab : list string) (grams : list (list string))
           (g : list string) (row : list (N * float)) : Prop :=
  forall j, (j < List.length vocab)%nat ->
    let w := nth j vocab "" in
    let cnt := count_occ string_dec g w in
    (cnt = 0%nat -> ~ has_entry row (N.of_nat j)) /\
    ((0 < cnt)%nat -> has_entry row (N.of_nat j) /\
       sget (N.of_nat j) row nan =
       PrimFloat.mul (ofn B64_ops cnt)
         (idf B64_ops (ln_tab (c_ln c)) (method_of c) (List.length grams) (df_ref w grams))).

Lemma existsb_has_entry row j : existsb (fun p : N * float => N.eqb (fst p) j) row = true <-> has_entry row j.
Proof.
  unfold has_entry. rewrite existsb_exists. split; intros [p [H1 H2]]; exists p; split; auto.
  - apply N.eqb_eq; exact H2.
  - apply N.eqb_eq; exact H2.
Qed.

Lemma tfidf_row_ok_sound c vocab grams g row :
  tfidf_row_ok c vocab (List.length grams) grams g row = true -> tfidf_row_spec c vocab grams g row.
Proof.
  unfold tfidf_row_ok, tfidf_row_spec. rewrite forallb_forall. intros H j Hj.
  specialize (H _ (cols_of_In vocab j Hj)). simpl in H. rewrite occ_count_occ in H.
  destruct (count_occ string_dec g (nth j vocab "")) as [|n] eqn:E; simpl.
  - split; [|lia]. intros _ Hx. apply existsb_has_entry in Hx. rewrite Hx in H. discriminate.
  - split; [discriminate|]. intros _. apply andb_true_iff in H. destruct H as [H1 H2].
    split; [apply existsb_has_entry; exact H1|]. apply f64_biteq_eq in H2. exact H2.
Qed.

Lemma oracle_tfidf_sound c vocab grams m : snd (oracle_tfidf c vocab grams m) = 0%N ->
  Forall2 (tfidf_row_spec c vocab grams) grams (fm_data m).
Proof.
  unfold oracle_tfidf. simpl. intros H. apply flag_zero in H; [|discriminate].
  apply forall2b_sound in H. remember (fm_data m) as rows eqn:Er. clear Er.
  remember grams as gs eqn:Eg in H at 2 |- * at 2.
  assert (Hgen : forall gs rows,
    Forall2 (fun x y => tfidf_row_ok c vocab (List.length grams) grams x y = true) gs rows ->
    Forall2 (tfidf_row_spec c vocab grams) gs rows).
  { clear. intros gs rows H. induction H as [|g row gs rows H1 H2 IH]; constructor; auto.
    apply tfidf_row_ok_sound; exact H1. }
  apply Hgen. subst gs. exact H.
Qed.

(** * the word -> column content does not depend on the enumeration order *)
Lemma sparse_get_In {V} i (v : V) l : NoDup (map fst l) -> In (i, v) l -> sparse_get i l = Some v.
Proof.
  induction l as [|[j u] l IH]; simpl; intros HN H; [contradiction|].
  inversion HN as [|? ? Hj Hl]; subst. destruct H as [H|H].
  - inversion H; subst. rewrite Nat.eqb_refl. reflexivity.
  - destruct (Nat.eqb_spec j i) as [->|Ne]; auto.
    exfalso. apply Hj. apply (in_map fst) in H. exact H.
Qed.

Lemma sparse_get_None {V} i (l : list (nat * V)) : (forall v, ~ In (i, v) l) -> sparse_get i l = None.
Proof.
  induction l as [|[j u] l IH]; simpl; intros H; auto.
  destruct (Nat.eqb_spec j i) as [->|Ne].
  - exfalso. apply (H u). auto.
  - apply IH. intros v Hv. apply (H v). auto.
Qed.

Lemma sparse_get_sparsify i row : (i < List.length row)%nat ->
  sparse_get i (sparsify row) = if (0 <? nth i row 0)%nat then Some (nth i row 0%nat) else None.
Proof.
  intros Hi. destruct (Nat.ltb_spec 0 (nth i row 0%nat)) as [L|L].
  - apply sparse_get_In; [apply sparsify_NoDup|]. apply sparsify_In. split; auto. apply nth_error_nth'. exact Hi.
  - apply sparse_get_None. intros v Hv. apply sparsify_In in Hv. destruct Hv as [H1 H2].
    apply (nth_error_nth _ _ 0%nat) in H1. lia.
Qed.

Lemma sparse_get_map {V W} (h : nat -> V -> W) i l :
  sparse_get i (map (fun p => (fst p, h (fst p) (snd p))) l) = option_map (h i) (sparse_get i l).
Proof.
  induction l as [|[j u] l IH]; simpl; auto.
  destruct (Nat.eqb_spec j i) as [->|Ne]; auto.
Qed.

Section Invariance.
Variables (nmin nmax : nat) (m0 enum : vmap).
Hypothesis G : guard nmin nmax.
Hypothesis HN : NoDup (keys m0).
Hypothesis HP : Permutation enum m0.

Let m := fst (reindex enum).
Let vec := snd (reindex enum).

Lemma enum_NoDup : NoDup (keys enum).
Proof. eapply Permutation_NoDup; [apply Permutation_sym, Permutation_map; exact HP | exact HN]. Qed.

(* the column stored for a word of the vocabulary, whatever the enumeration *)
Lemma vget_reindex w :
  (In w (keys m0) -> exists i f, vget w m = Some (i, f) /\ (i < List.length vec)%nat /\ nth i vec "" = w) /\
  (~ In w (keys m0) -> vget w m = None).
Proof.
  destruct (index_bijection_full m0 enum HN HP) as (B1 & B2 & B3 & B4 & B5 & B6). fold m vec in B1, B2, B3, B4, B5, B6.
  split.
  - intros Hw. apply B4 in Hw. destruct (B6 w Hw) as (i & f & Hv). exists i, f. split; auto.
    destruct (B5 w i f Hv) as [Hn _]. split; [apply nth_error_Some; congruence|].
    apply nth_error_nth. exact Hn.
  - intros Hw. apply vget_None. rewrite B3, B4. exact Hw.
Qed.

Lemma word_count_closed toks w :
  word_count nmin nmax m toks w =
  if mem w (keys m0) then Some (count_occ string_dec (ngrams_ref nmin nmax toks) w) else None.
Proof.
  destruct (count_entry_full nmin nmax enum toks G enum_NoDup) as (_ & C & _). fold m vec in C.
  destruct (vget_reindex w) as [V1 V2]. unfold word_count.
  destruct (mem w (keys m0)) eqn:E.
  - apply mem_In in E. destruct (V1 E) as (i & f & Hv & Hi & Hw). rewrite Hv, C by exact Hi. rewrite Hw. reflexivity.
  - apply mem_false in E. rewrite (V2 E). reflexivity.
Qed.

Lemma count_rows_closed docs d toks w : nth_error docs d = Some toks ->
  word_entry m (count_rows nmin nmax m docs) d w =
  if mem w (keys m0) then
    Some (let cnt := count_occ string_dec (ngrams_ref nmin nmax toks) w in
          if (0 <? cnt)%nat then Some cnt else None)
  else None.
Proof.
  intros Hd.
  destruct (count_entry_full nmin nmax enum toks G enum_NoDup) as (L & C & _). fold m vec in L, C.
  destruct (vget_reindex w) as [V1 V2]. unfold word_entry.
  destruct (mem w (keys m0)) eqn:E.
  - apply mem_In in E. destruct (V1 E) as (i & f & Hv & Hi & Hw). rewrite Hv.
    assert (Hr : nth d (count_rows nmin nmax m docs) [] = sparsify (analyze nmin nmax m toks)).
    { apply nth_error_nth. unfold count_rows. rewrite nth_error_map, Hd. reflexivity. }
    rewrite Hr, sparse_get_sparsify by lia. rewrite C by exact Hi. rewrite Hw. reflexivity.
  - apply mem_false in E. rewrite (V2 E). reflexivity.
Qed.

Lemma tfidf_rows_closed {F} (o : NumOps F) (lnf : F -> F) mt docs d toks w : nth_error docs d = Some toks ->
  word_entry m (tfidf_rows o lnf mt nmin nmax m docs) d w =
  if mem w (keys m0) then
    Some (let cnt := count_occ string_dec (ngrams_ref nmin nmax toks) w in
          if (0 <? cnt)%nat then
            Some (mul o (of_N o (N.of_nat cnt))
                      (idf o lnf mt (List.length docs) (df_ref w (map (ngrams_ref nmin nmax) docs))))
          else None)
  else None.
Proof.
  intros Hd.
  destruct (count_entry_full nmin nmax enum toks G enum_NoDup) as (L & C & _). fold m vec in L, C.
  pose proof (tfidf_entry_full o lnf mt nmin nmax enum docs d toks G enum_NoDup Hd) as T. fold m vec in T. cbv zeta in T.
  destruct (vget_reindex w) as [V1 V2]. unfold word_entry.
  destruct (mem w (keys m0)) eqn:E.
  - apply mem_In in E. destruct (V1 E) as (i & f & Hv & Hi & Hw). rewrite Hv.
    rewrite (nth_error_nth _ _ [] T).
    rewrite (sparse_get_map (fun j c => mul o (of_N o (N.of_nat c))
               (idf o lnf mt (List.length docs) (df_ref (nth j vec "") (map (ngrams_ref nmin nmax) docs))))).
    rewrite sparse_get_sparsify by lia. rewrite C by exact Hi. rewrite Hw.
    destruct (0 <? _)%nat; reflexivity.
  - apply mem_false in E. rewrite (V2 E). reflexivity.
Qed.
End Invariance.

Lemma vocab_map_invariant_full nmin nmax (m0 e1 e2 : vmap) :
  guard nmin nmax -> NoDup (keys m0) -> Permutation e1 m0 -> Permutation e2 m0 ->
  let m1 := fst (reindex e1) in
  let m2 := fst (reindex e2) in
  Permutation (snd (reindex e1)) (snd (reindex e2)) /\
  (forall toks w, word_count nmin nmax m1 toks w = word_count nmin nmax m2 toks w) /\
  (forall docs d w, (d < List.length docs)%nat ->
     word_entry m1 (count_rows nmin nmax m1 docs) d w = word_entry m2 (count_rows nmin nmax m2 docs) d w) /\
  (forall F (o : NumOps F) (lnf : F -> F) mt docs d w, (d < List.length docs)%nat ->
     word_entry m1 (tfidf_rows o lnf mt nmin nmax m1 docs) d w =
     word_entry m2 (tfidf_rows o lnf mt nmin nmax m2 docs) d w).
Proof.
  intros G HN P1 P2 m1 m2. split; [|split; [|split]].
  - unfold reindex. rewrite !reindex_from_vec. apply Permutation_map.
    eapply perm_trans; [exact P1 | apply Permutation_sym; exact P2].
  - intros toks w. unfold m1, m2.
    rewrite (word_count_closed nmin nmax m0 e1 G HN P1), (word_count_closed nmin nmax m0 e2 G HN P2). reflexivity.
  - intros docs d w Hd. destruct (nth_error docs d) as [toks|] eqn:E; [|apply nth_error_None in E; lia].
    unfold m1, m2.
    rewrite (count_rows_closed nmin nmax m0 e1 G HN P1 docs d toks w E),
            (count_rows_closed nmin nmax m0 e2 G HN P2 docs d toks w E). reflexivity.
  - intros F o lnf mt docs d w Hd. destruct (nth_error docs d) as [toks|] eqn:E; [|apply nth_error_None in E; lia].
    unfold m1, m2.
    rewrite (tfidf_rows_closed nmin nmax m0 e1 G HN P1 o lnf mt docs d toks w E),
            (tfidf_rows_closed nmin nmax m0 e2 G HN P2 o lnf mt docs d toks w E). reflexivity.
Qed.

(** * non-vacuity *)
Definition ex_e1 : vmap := [("aa", (7, 2)); ("aa bb", (0, 2))]%nat.
Definition ex_e2 : vmap := [("aa bb", (0, 2)); ("aa", (7, 2))]%nat.

Example ex_invariance_hyps : NoDup (keys ex_e1) /\ Permutation ex_e1 ex_e1 /\ Permutation ex_e2 ex_e1.
Proof.
  split; [|split; [apply Permutation_refl | apply perm_swap]].
  repeat constructor; simpl; intuition discriminate.
Qed.

(* the two enumerations number the columns differently; the word -> count content is the same *)
Example ex_invariance :
  snd (reindex ex_e1) = ["aa"; "aa bb"] /\ snd (reindex ex_e2) = ["aa bb"; "aa"] /\
  analyze 1 2 (fst (reindex ex_e1)) ["aa"; "bb"; "aa"] = [2; 1]%nat /\
  analyze 1 2 (fst (reindex ex_e2)) ["aa"; "bb"; "aa"] = [1; 2]%nat /\
  word_count 1 2 (fst (reindex ex_e1)) ["aa"; "bb"; "aa"] "aa" = Some 2%nat /\
  word_count 1 2 (fst (reindex ex_e2)) ["aa"; "bb"; "aa"] "aa" = Some 2%nat /\
  word_count 1 2 (fst (reindex ex_e2)) ["aa"; "bb"; "aa"] "bb" = None.
Proof. repeat split; reflexivity. Qed.

(* a case the cap oracle accepts: two documents, unigrams, max_features = 1 keeps the more frequent word *)
Definition ex_case : case :=
  {| c_id := 0; c_mode := 1; c_lower := true; c_nmin := 1; c_nmax := 1;
     c_mindf := 0; c_maxdf := 1065353216; c_stop := None; c_cap := Some 1%N; c_fixed := None;
     c_train := []; c_test := []; c_method := 0; c_ln := [(1%float, 0%float)];
     c_vocab := ["aa"]; c_nentries := 1; c_ctrain := {| cm_rows := 0; cm_cols := 0; cm_data := [] |};
     c_ctest := {| cm_rows := 0; cm_cols := 0; cm_data := [] |};
     c_tvocab := ["aa"]; c_tnentries := 1; c_ttrain := {| fm_rows := 0; fm_cols := 0; fm_data := [] |};
     c_ttest := {| fm_rows := 0; fm_cols := 0; fm_data := [] |}; c_idfs := [];
     c_vocab2 := ["aa"]; c_ctrain2 := {| cm_rows := 0; cm_cols := 0; cm_data := [] |};
     c_tvocab2 := ["aa"]; c_ttrain2 := {| fm_rows := 0; fm_cols := 0; fm_data := [] |}; c_bounds := []; c_ratios := [] |}.
Definition ex_grams : list (list string) := [["aa"; "bb"; "aa"]; ["aa"]].

Example ex_cap_hyps : c_fixed ex_case = None /\ s_cap (settings_of ex_case) = Some 1%nat /\
  oracle_vocab ex_case ex_grams ["aa"] = 0%N /\
  (* ... and the oracle does reject the other choice and a vocabulary of the wrong size *)
  oracle_vocab ex_case ex_grams ["bb"] = 8%N /\ oracle_vocab ex_case ex_grams ["aa"; "bb"] = 4%N.
Proof. repeat split; vm_compute; reflexivity. Qed.

(* a tf-idf matrix the oracle accepts: the values are the documented products (the ln table maps
   3/3 = 1 to 0, so idf = 1 for "aa", which occurs in both documents) *)
Definition ex_tfidf_m : fmat :=
  {| fm_rows := 2; fm_cols := 1; fm_data := [[(0%N, 2%float)]; [(0%N, 1%float)]] |}.

Example ex_tfidf_hyps : oracle_tfidf ex_case ["aa"] ex_grams ex_tfidf_m = (0%N, 0%N) /\
  snd (oracle_tfidf ex_case ["aa"] ex_grams
         {| fm_rows := 2; fm_cols := 1; fm_data := [[(0%N, 2%float)]; [(0%N, 2%float)]] |}) = 1%N.
Proof. split; vm_compute; reflexivity. Qed.

(** * the invariance check on two observed fits *)
Lemma opt_eqb_sound {V} (eqV : V -> V -> bool) (Heq : forall x y, eqV x y = true -> x = y) a b :
  opt_eqb eqV a b = true -> a = b.
Proof. destruct a, b; simpl; intros H; try discriminate; auto. f_equal. apply Heq. exact H. Qed.

Lemma content_eq_sound {V} (eqV : V -> V -> bool) (Heq : forall x y, eqV x y = true -> x = y)
      (vocab1 vocab2 : list string) (rows1 rows2 : list (list (N * V))) :
  content_eq eqV vocab1 rows1 vocab2 rows2 = true ->
  (forall w, In w vocab1 <-> In w vocab2) /\
  forall w, In w vocab1 -> exists i j, pos_of w vocab1 0%N = Some i /\ pos_of w vocab2 0%N = Some j /\
    Forall2 (fun r1 r2 => sget_opt i r1 = sget_opt j r2) rows1 rows2.
Proof.
  unfold content_eq, same_set. intros H. apply andb_true_iff in H. destruct H as [HS HW].
  apply andb_true_iff in HS. destruct HS as [HS _]. apply andb_true_iff in HS. destruct HS as [S1 S2].
  apply subset_sound in S1. apply subset_sound in S2. split.
  - intros w. split; [apply S1 | apply S2].
  - intros w Hw. rewrite forallb_forall in HW. specialize (HW w Hw).
    destruct (pos_of w vocab1 0%N) as [i|]; [|discriminate].
    destruct (pos_of w vocab2 0%N) as [j|]; [|discriminate].
    exists i, j. split; auto. split; auto.
    apply forall2b_sound in HW. induction HW as [|r1 r2 l1 l2 H1 H2 IH]; constructor; auto.
    apply (opt_eqb_sound eqV Heq). exact H1.
Qed.

Example ex_content_eq :
  content_eq N.eqb ["aa"; "bb"] [[(0, 2); (1, 1)]; [(1, 3)]]%N ["bb"; "aa"] [[(0, 1); (1, 2)]; [(0, 3)]]%N = true /\
  content_eq N.eqb ["aa"; "bb"] [[(0, 2); (1, 1)]]%N ["bb"; "aa"] [[(0, 2); (1, 1)]]%N = false.
Proof. split; reflexivity. Qed.
