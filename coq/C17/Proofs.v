(** C17 - lemmas about the vectoriser model (C17/Model.v).
    Sections: order on strings and the max_features sort; n-grams = windows; the vocabulary map and
    document frequencies; filter_vocabulary and the feature cap; hashmap_to_vocabulary for an arbitrary
    enumeration; analyze_document / CSR rows; document frequencies of a transformed corpus; tf-idf. *)
From Coq Require Import List NArith ZArith Bool String Ascii Arith Lia Permutation Sorted Floats.
From LinfaVerif Require Import Common.Num Common.B32 C17.Model C17.Corr.
Import ListNotations.
Local Open Scope string_scope.

(** * Order on strings *)
Lemma N_of_ascii_inj c d : N_of_ascii c = N_of_ascii d -> c = d.
Proof. intros H. rewrite <- (ascii_N_embedding c), <- (ascii_N_embedding d), H. reflexivity. Qed.

Lemma str_cmp_eq a b : str_cmp a b = Eq <-> a = b.
Proof.
  revert b; induction a as [|c a IH]; intros [|d b]; simpl; split; intros H; try discriminate; auto.
  - destruct (N.compare (N_of_ascii c) (N_of_ascii d)) eqn:E; try discriminate.
    apply N.compare_eq_iff in E. apply N_of_ascii_inj in E. apply IH in H. subst; auto.
  - inversion H; subst. rewrite N.compare_refl. apply IH; auto.
Qed.

Lemma str_cmp_refl a : str_cmp a a = Eq.
Proof. apply str_cmp_eq; auto. Qed.

Lemma str_cmp_antisym a b : str_cmp a b = CompOpp (str_cmp b a).
Proof.
  revert b; induction a as [|c a IH]; intros [|d b]; simpl; auto.
  rewrite (N.compare_antisym (N_of_ascii c) (N_of_ascii d)).
  destruct (N.compare (N_of_ascii c) (N_of_ascii d)); simpl; auto.
Qed.

Lemma str_cmp_lt_trans a b c : str_cmp a b = Lt -> str_cmp b c = Lt -> str_cmp a c = Lt.
Proof.
  revert b c; induction a as [|x a IH]; intros [|y b] [|z c]; simpl; intros H1 H2; try discriminate; auto.
  destruct (N.compare (N_of_ascii x) (N_of_ascii y)) eqn:E1; try discriminate;
  destruct (N.compare (N_of_ascii y) (N_of_ascii z)) eqn:E2; try discriminate.
  - apply N.compare_eq_iff in E1, E2. rewrite E1, E2, N.compare_refl. eapply IH; eauto.
  - apply N.compare_eq_iff in E1. rewrite E1, E2. auto.
  - apply N.compare_eq_iff in E2. rewrite <- E2, E1. auto.
  - apply N.compare_lt_iff in E1. apply N.compare_lt_iff in E2.
    pose proof (N.lt_trans _ _ _ E1 E2) as E. apply N.compare_lt_iff in E. rewrite E; auto.
Qed.

(* a >= b on strings *)
Definition str_ge (a b : string) : Prop := str_cmp a b <> Lt.

Lemma str_ge_trans a b c : str_ge a b -> str_ge b c -> str_ge a c.
Proof.
  unfold str_ge; intros H1 H2 H3.
  destruct (str_cmp a b) eqn:E1; try congruence.
  - apply str_cmp_eq in E1; subst; auto.
  - destruct (str_cmp b c) eqn:E2; try congruence.
    + apply str_cmp_eq in E2; subst. congruence.
    + (* a > b > c, a < c *)
      assert (Hba : str_cmp b a = Lt) by (rewrite str_cmp_antisym, E1; auto).
      assert (Hcb : str_cmp c b = Lt) by (rewrite str_cmp_antisym, E2; auto).
      pose proof (str_cmp_lt_trans _ _ _ Hcb Hba) as Hca.
      rewrite str_cmp_antisym, Hca in H3. discriminate.
Qed.

(** * The max_features order *)
Definition kle (a b : string * (nat * nat)) : Prop :=
  (e_df b < e_df a)%nat \/ (e_df a = e_df b /\ str_ge (fst a) (fst b)).

Lemma key_lt_iff a b : key_lt a b = true <->
  (e_df b < e_df a)%nat \/ (e_df a = e_df b /\ str_cmp (fst b) (fst a) = Lt).
Proof.
  unfold key_lt, str_ltb. rewrite orb_true_iff, andb_true_iff, Nat.ltb_lt, Nat.eqb_eq.
  destruct (str_cmp (fst b) (fst a)); intuition congruence.
Qed.

Lemma key_le_iff a b : key_le a b = true <-> kle a b.
Proof.
  unfold key_le, kle, str_ge. rewrite negb_true_iff.
  destruct (key_lt b a) eqn:E.
  - apply key_lt_iff in E. split; [discriminate|]. intros H. exfalso.
    destruct E as [E|[E1 E2]], H as [H|[H1 H2]]; try lia; try congruence.
  - split; auto. intros _.
    assert (N : ~ ((e_df a < e_df b)%nat \/ (e_df b = e_df a /\ str_cmp (fst a) (fst b) = Lt))).
    { intros H; apply key_lt_iff in H; congruence. }
    destruct (lt_eq_lt_dec (e_df a) (e_df b)) as [[L|Q]|G].
    + exfalso; apply N; auto.
    + right; split; auto; intros H; apply N; auto.
    + left; auto.
Qed.

Lemma kle_trans a b c : kle a b -> kle b c -> kle a c.
Proof.
  unfold kle; intros [H1|[H1 G1]] [H2|[H2 G2]]; try (left; lia).
  right; split; [lia|]. eapply str_ge_trans; eauto.
Qed.

Lemma kle_total a b : kle a b \/ kle b a.
Proof.
  unfold kle, str_ge.
  destruct (lt_eq_lt_dec (e_df a) (e_df b)) as [[L|Q]|G]; auto.
  destruct (str_cmp (fst a) (fst b)) eqn:E.
  - left; right; split; auto; congruence.
  - right; right; split; auto. rewrite str_cmp_antisym, E; simpl; congruence.
  - left; right; split; auto; congruence.
Qed.

(* distinct words: the order is strict *)
Lemma kle_strict a b : kle a b -> fst a <> fst b -> key_lt a b = true.
Proof.
  intros [H|[H1 H2]] N; apply key_lt_iff; auto. right; split; auto.
  unfold str_ge in H2. destruct (str_cmp (fst a) (fst b)) eqn:E; try congruence.
  - apply str_cmp_eq in E; congruence.
  - rewrite str_cmp_antisym, E; auto.
Qed.

(** * Insertion sort *)
Lemma insert_key_perm a l : Permutation (insert_key a l) (a :: l).
Proof.
  induction l as [|b r IH]; simpl; auto.
  destruct (key_le a b); auto.
  eapply perm_trans; [apply perm_skip, IH | apply perm_swap].
Qed.

Lemma sort_key_perm l : Permutation (sort_key l) l.
Proof.
  induction l as [|a r IH]; simpl; auto.
  eapply perm_trans; [apply insert_key_perm | apply perm_skip, IH].
Qed.

Lemma insert_key_sorted a l : StronglySorted kle l -> StronglySorted kle (insert_key a l).
Proof.
  induction 1 as [|b r Hs IH Hb]; simpl.
  - constructor; constructor.
  - destruct (key_le a b) eqn:E.
    + apply key_le_iff in E. constructor; [constructor; auto|].
      constructor; auto. rewrite Forall_forall in *. intros x Hx. eapply kle_trans; eauto.
    + constructor; auto.
      assert (Hba : kle b a).
      { destruct (kle_total a b) as [H|H]; auto. apply key_le_iff in H; congruence. }
      rewrite Forall_forall in *. intros x Hx.
      apply (Permutation_in _ (insert_key_perm a r)) in Hx. destruct Hx as [<-|Hx]; auto.
Qed.

Lemma sort_key_sorted l : StronglySorted kle (sort_key l).
Proof. induction l; simpl; [constructor | apply insert_key_sorted; auto]. Qed.

Lemma in_skipn {A} (x : A) k l : In x (skipn k l) -> In x l.
Proof. revert l; induction k as [|k IH]; intros [|a l]; simpl; auto. Qed.
Lemma in_firstn {A} (x : A) k l : In x (firstn k l) -> In x l.
Proof.
  revert l; induction k as [|k IH]; intros [|a l]; simpl; try tauto.
  intros [H|H]; auto.
Qed.

Lemma sorted_firstn_skipn k l : StronglySorted kle l ->
  forall a b, In a (firstn k l) -> In b (skipn k l) -> kle a b.
Proof.
  intros H; revert k; induction H as [|x r Hs IH Hx]; intros [|k] a b Ha Hb; simpl in *; try contradiction.
  destruct Ha as [<-|Ha].
  - rewrite Forall_forall in Hx. apply Hx. eapply in_skipn; eauto.
  - eapply IH; eauto.
Qed.


(** * n-grams: the iterator yields exactly the windows *)
Lemma join_sp_snoc l t : l <> [] -> join_sp (l ++ [t]) = join_sp l ++ " " ++ t.
Proof.
  destruct l as [|a r]; [congruence|]; intros _. simpl. rewrite fold_left_app. reflexivity.
Qed.

Lemma firstn_snoc {A} (d : A) n l : (n < List.length l)%nat -> firstn (S n) l = (firstn n l ++ [nth n l d])%list.
Proof.
  revert l; induction n as [|n IH]; intros [|a l] H; simpl in *; try lia; auto.
  f_equal. apply IH. lia.
Qed.

Lemma nth_skipn {A} (d : A) i j l : nth j (skipn i l) d = nth (i + j) l d.
Proof.
  revert l; induction i as [|i IH]; intros l; simpl; auto.
  destruct l as [|a l]; simpl; auto. destruct j; auto.
Qed.

Lemma window_one l i : (i < List.length l)%nat -> window l i 1 = nth i l "".
Proof.
  intros H. unfold window.
  rewrite (firstn_snoc "" 0) by (rewrite skipn_length; lia).
  simpl. rewrite nth_skipn. f_equal. lia.
Qed.

Lemma window_step l i n : (1 <= n)%nat -> (i + n < List.length l)%nat ->
  window l i (S n) = push_word l (window l i n) (i + n).
Proof.
  intros H1 H2. unfold window, push_word.
  rewrite (firstn_snoc "" n) by (rewrite skipn_length; lia).
  rewrite join_sp_snoc, nth_skipn; auto.
  intros E. apply (f_equal (@List.length string)) in E.
  rewrite firstn_length, skipn_length in E. simpl in E. lia.
Qed.

Lemma fold_push l i : forall k a, (1 <= a)%nat -> (i + a + k <= List.length l)%nat ->
  fold_left (push_word l) (seq (i + a) k) (window l i a) = window l i (a + k).
Proof.
  induction k as [|k IH]; intros a H1 H2; simpl.
  - f_equal; lia.
  - rewrite <- window_step by lia.
    replace (S (i + a)) with (i + S a)%nat by lia. rewrite IH by lia. f_equal; lia.
Qed.

Lemma fold_push_collect l i : forall k a acc, (1 <= a)%nat -> (i + a + k <= List.length l)%nat ->
  fold_left (fun st j => let it := push_word l (snd st) j in ((fst st ++ [it])%list, it))
            (seq (i + a) k) (acc, window l i a)
  = ((acc ++ map (window l i) (seq (S a) k))%list, window l i (a + k)).
Proof.
  induction k as [|k IH]; intros a acc H1 H2; simpl.
  - rewrite app_nil_r. do 2 f_equal; lia.
  - rewrite <- window_step by lia.
    replace (S (i + a)) with (i + S a)%nat by lia. rewrite IH by lia.
    rewrite <- app_assoc. simpl. do 2 f_equal; lia.
Qed.

Lemma ngram_items_spec nmin nmax l i :
  (1 <= nmin <= nmax)%nat -> nmax <> 1%nat -> (i < List.length l)%nat ->
  ngram_items nmin nmax l i =
    if (List.length l <? i + nmin)%nat then None
    else Some (map (window l i) (seq nmin (S (Nat.min (i + nmax) (List.length l) - (i + nmin))))).
Proof.
  intros Hr H1 Hi. unfold ngram_items.
  destruct (Nat.eqb_spec nmax 1) as [E|_]; [contradiction|].
  destruct (Nat.ltb_spec (List.length l) (i + nmin)) as [L|L]; auto.
  f_equal.
  rewrite <- (window_one l i Hi).
  replace (i + nmin - (i + 1))%nat with (nmin - 1)%nat by lia.
  rewrite (fold_push l i (nmin - 1) 1) by lia.
  replace (1 + (nmin - 1))%nat with nmin by lia.
  rewrite (fold_push_collect l i _ nmin [window l i nmin]) by lia.
  reflexivity.
Qed.

Lemma windows_filter (len i : nat) (g : nat -> string) : forall k a,
  flat_map (fun n => if (i + n <=? len)%nat then [g n] else []) (seq a k)
  = map g (seq a (Nat.min k (S len - (i + a)))).
Proof.
  induction k as [|k IH]; intros a; [reflexivity|].
  cbn [seq flat_map]. rewrite IH. destruct (Nat.leb_spec (i + a) len) as [L|L].
  - replace (S len - (i + a))%nat with (S (S len - (i + S a)))%nat by lia.
    rewrite <- Nat.succ_min_distr. cbn [seq map app]. reflexivity.
  - replace (S len - (i + a))%nat with 0%nat by lia.
    replace (S len - (i + S a))%nat with 0%nat by lia.
    rewrite !Nat.min_0_r. reflexivity.
Qed.

Lemma windows_at_spec nmin nmax l i : (nmin <= nmax)%nat ->
  windows_at nmin nmax l i =
    if (List.length l <? i + nmin)%nat then []
    else map (window l i) (seq nmin (S (Nat.min (i + nmax) (List.length l) - (i + nmin)))).
Proof.
  intros Hr. unfold windows_at. rewrite windows_filter.
  destruct (Nat.ltb_spec (List.length l) (i + nmin)) as [L|L].
  - replace (S (List.length l) - (i + nmin))%nat with 0%nat by lia. rewrite Nat.min_0_r. reflexivity.
  - do 2 f_equal. lia.
Qed.

Lemma flat_map_nil {A B} (f : A -> list B) l : (forall x, In x l -> f x = []) -> flat_map f l = [].
Proof.
  induction l as [|a l IH]; simpl; intros H; auto.
  rewrite (H a) by auto. rewrite IH; auto.
Qed.

Lemma ngram_iter_spec nmin nmax l : (1 <= nmin <= nmax)%nat ->
  forall fuel i, (i + fuel = List.length l)%nat ->
  List.concat (ngram_iter nmin nmax l i fuel) = flat_map (windows_at nmin nmax l) (seq i fuel).
Proof.
  intros Hr. induction fuel as [|f IH]; intros i Hi; simpl; auto.
  destruct (Nat.leb_spec (List.length l) i) as [L|L]; [lia|].
  destruct (Nat.eq_dec nmax 1) as [E|E].
  - (* single tokens *)
    assert (nmin = 1)%nat by lia. subst nmin nmax.
    unfold ngram_items at 1. simpl Nat.eqb. cbv iota. simpl List.concat.
    rewrite IH by lia. f_equal.
    unfold windows_at. simpl. destruct (Nat.leb_spec (i + 1) (List.length l)); [|lia].
    simpl. rewrite window_one; auto.
  - rewrite ngram_items_spec by auto. rewrite (windows_at_spec nmin nmax l i) by lia.
    destruct (Nat.ltb_spec (List.length l) (i + nmin)) as [T|T].
    + simpl. symmetry. apply flat_map_nil. intros x Hx. apply in_seq in Hx.
      rewrite windows_at_spec by lia.
      destruct (Nat.ltb_spec (List.length l) (x + nmin)); auto; lia.
    + simpl. rewrite IH by lia. reflexivity.
Qed.

Lemma ngrams_eq_ref nmin nmax toks : (1 <= nmin <= nmax)%nat ->
  ngrams nmin nmax toks = ngrams_ref nmin nmax toks.
Proof. intros H. unfold ngrams, ngrams_ref. apply ngram_iter_spec; auto. Qed.

Lemma ngrams_ref_In nmin nmax toks w : (1 <= nmin)%nat ->
  In w (ngrams_ref nmin nmax toks) <->
  exists i n, (nmin <= n <= nmax)%nat /\ (i + n <= List.length toks)%nat /\ w = window toks i n.
Proof.
  intros H1. unfold ngrams_ref, windows_at. rewrite in_flat_map. split.
  - intros [i [Hi Hw]]. apply in_flat_map in Hw. destruct Hw as [n [Hn Hw]].
    apply in_seq in Hn. destruct (Nat.leb_spec (i + n) (List.length toks)); simpl in Hw; [|contradiction].
    destruct Hw as [<-|[]]. exists i, n. repeat split; auto; lia.
  - intros [i [n [Hn [Hl ->]]]]. exists i. split; [apply in_seq; lia|].
    apply in_flat_map. exists n. split; [apply in_seq; lia|].
    destruct (Nat.leb_spec (i + n) (List.length toks)); [simpl; auto|lia].
Qed.


(** * The vocabulary map: document frequencies *)
Definition dfl (w : string) (m : vmap) : nat := match vget w m with Some v => snd v | None => 0%nat end.

Lemma mem_In w l : mem w l = true <-> In w l.
Proof.
  unfold mem. rewrite existsb_exists. split.
  - intros [x [H1 H2]]. apply String.eqb_eq in H2. subst; auto.
  - intros H. exists w. split; auto. apply String.eqb_refl.
Qed.

Lemma mem_false w l : mem w l = false <-> ~ In w l.
Proof. rewrite <- mem_In. destruct (mem w l); split; congruence. Qed.

Lemma dedup_In x l : In x (dedup l) <-> In x l.
Proof.
  induction l as [|a l IH]; simpl; [tauto|]. destruct (mem a l) eqn:E.
  - rewrite IH. apply mem_In in E. split; auto. intros [<-|H]; auto.
  - simpl. rewrite IH. tauto.
Qed.

Lemma dedup_NoDup l : NoDup (dedup l).
Proof.
  induction l as [|a l IH]; simpl; [constructor|]. destruct (mem a l) eqn:E; auto.
  constructor; auto. rewrite dedup_In. apply mem_false; auto.
Qed.

Lemma mem_dedup w l : mem w (dedup l) = mem w l.
Proof.
  destruct (mem w l) eqn:E.
  - apply mem_In. apply dedup_In. apply mem_In; auto.
  - apply mem_false. rewrite dedup_In. apply mem_false; auto.
Qed.

Lemma dfl_bump w' w len m :
  dfl w' (bump w len m) = if String.eqb w w' then S (dfl w' m) else dfl w' m.
Proof.
  induction m as [|[k [i f]] r IH]; simpl.
  - unfold dfl; simpl. destruct (String.eqb w w'); auto.
  - destruct (String.eqb_spec k w) as [->|N].
    + unfold dfl; simpl. destruct (String.eqb_spec w w'); simpl; auto.
    + unfold dfl in *; simpl. destruct (String.eqb_spec k w') as [->|N2].
      * destruct (String.eqb_spec w w'); [congruence|]; simpl; auto.
      * apply IH.
Qed.

Lemma keys_bump w len m :
  keys (bump w len m) = if mem w (keys m) then keys m else (keys m ++ [w])%list.
Proof.
  induction m as [|[k [i f]] r IH]; simpl; auto.
  destruct (String.eqb_spec k w) as [->|N]; simpl.
  - rewrite String.eqb_refl. reflexivity.
  - rewrite IH. destruct (String.eqb_spec w k); [congruence|]. simpl.
    destruct (mem w (keys r)); auto.
Qed.

Lemma NoDup_snoc {A} (l : list A) x : NoDup l -> ~ In x l -> NoDup (l ++ [x]).
Proof.
  intros H1 H2. apply (Permutation_NoDup (l := x :: l)); [apply Permutation_cons_append|].
  constructor; auto.
Qed.

Lemma NoDup_bump w len m : NoDup (keys m) -> NoDup (keys (bump w len m)).
Proof.
  intros H. rewrite keys_bump. destruct (mem w (keys m)) eqn:E; auto.
  apply NoDup_snoc; auto. apply mem_false; auto.
Qed.

Lemma In_keys_bump x w len m : In x (keys (bump w len m)) <-> In x (keys m) \/ x = w.
Proof.
  rewrite keys_bump. destruct (mem w (keys m)) eqn:E.
  - apply mem_In in E. split; auto. intros [H| ->]; auto.
  - rewrite in_app_iff. simpl. intuition.
Qed.

Definition step_bump (m : vmap) (w : string) : vmap := bump w (List.length m) m.

Lemma fold_bump_dfl w' : forall L m, NoDup L ->
  dfl w' (fold_left step_bump L m) = (dfl w' m + (if mem w' L then 1 else 0))%nat.
Proof.
  induction L as [|a L IH]; intros m HN; simpl; [lia|].
  inversion HN as [|? ? Ha HL]; subst. rewrite IH by auto. unfold step_bump. rewrite dfl_bump.
  rewrite (String.eqb_sym w' a).
  destruct (String.eqb_spec a w') as [->|N]; simpl; [|reflexivity].
  apply mem_false in Ha. rewrite Ha. lia.
Qed.

Lemma fold_bump_keys x : forall L m,
  In x (keys (fold_left step_bump L m)) <-> In x (keys m) \/ In x L.
Proof.
  induction L as [|a L IH]; intros m; simpl; [tauto|].
  rewrite IH. unfold step_bump. rewrite In_keys_bump. intuition.
Qed.

Lemma fold_bump_NoDup : forall L m, NoDup (keys m) -> NoDup (keys (fold_left step_bump L m)).
Proof.
  induction L as [|a L IH]; intros m H; simpl; auto. apply IH. apply NoDup_bump; auto.
Qed.

Lemma read_doc_dfl nmin nmax m toks w :
  dfl w (read_doc nmin nmax m toks) = (dfl w m + (if mem w (ngrams nmin nmax toks) then 1 else 0))%nat.
Proof.
  unfold read_doc. change (fun m0 w0 => bump w0 (List.length m0) m0) with step_bump.
  rewrite fold_bump_dfl by apply dedup_NoDup. rewrite mem_dedup. reflexivity.
Qed.

Lemma read_doc_keys nmin nmax m toks x :
  In x (keys (read_doc nmin nmax m toks)) <-> In x (keys m) \/ In x (ngrams nmin nmax toks).
Proof.
  unfold read_doc. change (fun m0 w0 => bump w0 (List.length m0) m0) with step_bump.
  rewrite fold_bump_keys, dedup_In. tauto.
Qed.

Lemma read_doc_NoDup nmin nmax m toks : NoDup (keys m) -> NoDup (keys (read_doc nmin nmax m toks)).
Proof.
  unfold read_doc. change (fun m0 w0 => bump w0 (List.length m0) m0) with step_bump.
  apply fold_bump_NoDup.
Qed.

Lemma df_ref_cons w g gs : df_ref w (g :: gs) = ((if mem w g then 1 else 0) + df_ref w gs)%nat.
Proof. unfold df_ref. simpl. destruct (mem w g); simpl; lia. Qed.

Lemma df_ref_le w gs : (df_ref w gs <= List.length gs)%nat.
Proof. unfold df_ref. induction gs as [|g gs IH]; simpl; auto. destruct (mem w g); simpl; lia. Qed.

Lemma df_ref_pos w gs : (0 < df_ref w gs)%nat <-> exists g, In g gs /\ In w g.
Proof.
  induction gs as [|g gs IH]; [unfold df_ref; simpl; split; [lia|intros [? [[] _]]]|].
  rewrite df_ref_cons. destruct (mem w g) eqn:E.
  - apply mem_In in E. split; [intros _; exists g; simpl; auto | lia].
  - apply mem_false in E. simpl. rewrite IH. split.
    + intros [g' [H1 H2]]. exists g'; simpl; auto.
    + intros [g' [[<-|H1] H2]]; [contradiction|]. exists g'; auto.
Qed.

Lemma read_docs_gen nmin nmax w : forall docs m,
  dfl w (fold_left (read_doc nmin nmax) docs m) = (dfl w m + df_ref w (map (ngrams nmin nmax) docs))%nat.
Proof.
  induction docs as [|d docs IH]; intros m; simpl.
  - unfold df_ref; simpl; lia.
  - rewrite IH, read_doc_dfl, df_ref_cons. lia.
Qed.

Lemma read_docs_keys_gen nmin nmax x : forall docs m,
  In x (keys (fold_left (read_doc nmin nmax) docs m)) <->
  In x (keys m) \/ exists d, In d docs /\ In x (ngrams nmin nmax d).
Proof.
  induction docs as [|d docs IH]; intros m; simpl.
  - split; auto. intros [H|[d [[] _]]]; auto.
  - rewrite IH, read_doc_keys. split.
    + intros [[H|H]|[d' [H1 H2]]]; auto; right; [exists d|exists d']; auto.
    + intros [H|[d' [[<-|H1] H2]]]; auto. right; exists d'; auto.
Qed.

Lemma read_docs_NoDup_gen nmin nmax : forall docs m,
  NoDup (keys m) -> NoDup (keys (fold_left (read_doc nmin nmax) docs m)).
Proof.
  induction docs as [|d docs IH]; intros m H; simpl; auto. apply IH. apply read_doc_NoDup; auto.
Qed.

Lemma read_docs_dfl nmin nmax docs w :
  dfl w (read_docs nmin nmax docs) = df_ref w (map (ngrams nmin nmax) docs).
Proof. unfold read_docs. rewrite read_docs_gen. reflexivity. Qed.

Lemma read_docs_keys nmin nmax docs x :
  In x (keys (read_docs nmin nmax docs)) <-> exists d, In d docs /\ In x (ngrams nmin nmax d).
Proof. unfold read_docs. rewrite read_docs_keys_gen. simpl. tauto. Qed.

Lemma read_docs_NoDup nmin nmax docs : NoDup (keys (read_docs nmin nmax docs)).
Proof. apply read_docs_NoDup_gen. constructor. Qed.

(** lookups in a map with distinct keys *)
Lemma vget_In w v m : vget w m = Some v -> In (w, v) m.
Proof.
  induction m as [|[k u] r IH]; simpl; [discriminate|].
  destruct (String.eqb_spec k w) as [->|N]; intros H; [inversion H; auto | auto].
Qed.

Lemma In_vget w v m : NoDup (keys m) -> In (w, v) m -> vget w m = Some v.
Proof.
  induction m as [|[k u] r IH]; simpl; intros HN H; [contradiction|].
  inversion HN as [|? ? Hk Hr]; subst. destruct H as [H|H].
  - inversion H; subst. rewrite String.eqb_refl. reflexivity.
  - destruct (String.eqb_spec k w) as [->|N]; auto.
    exfalso. apply Hk. apply (in_map fst) in H. exact H.
Qed.

Lemma vget_None w m : vget w m = None <-> ~ In w (keys m).
Proof.
  induction m as [|[k u] r IH]; simpl; [tauto|].
  destruct (String.eqb_spec k w) as [->|N].
  - split; [discriminate | intros H; exfalso; auto].
  - rewrite IH. intuition.
Qed.

Lemma In_keys_vget w m : In w (keys m) -> exists v, vget w m = Some v.
Proof.
  intros H. destruct (vget w m) eqn:E; eauto. apply vget_None in E. contradiction.
Qed.

Lemma keys_filter_In p x (m : vmap) : In x (keys (filter p m)) -> In x (keys m).
Proof.
  unfold keys. rewrite !in_map_iff. intros [e [H1 H2]]. apply filter_In in H2. exists e; tauto.
Qed.

Lemma NoDup_keys_filter p (m : vmap) : NoDup (keys m) -> NoDup (keys (filter p m)).
Proof.
  induction m as [|e r IH]; simpl; auto. intros H. inversion H as [|? ? He Hr]; subst.
  destruct (p e); simpl; auto. constructor; auto. intros Hx. apply He. eapply keys_filter_In; eauto.
Qed.

Lemma NoDup_firstn {A} k (l : list A) : NoDup l -> NoDup (firstn k l).
Proof.
  revert l; induction k as [|k IH]; intros [|a l] H; simpl; try constructor.
  - inversion H; subst. intros Hx. apply in_firstn in Hx. contradiction.
  - inversion H; auto.
Qed.

(** * filter_vocabulary *)
Definition uncap (s : settings) : settings :=
  mkSettings (s_nmin s) (s_nmax s) (s_mindf s) (s_maxdf s) (s_stop s) None.

Definition keep (s : settings) (n : nat) (e : string * (nat * nat)) : bool :=
  (in_window (abs_bound (s_mindf s) n) (abs_bound (s_maxdf s) n) e && negb (stopped s (fst e)))%bool.

Lemma filter_vocab_nocap s m n e : s_cap s = None ->
  (forall e', In e' m -> (e_df e' <= n)%nat) ->
  (In e (filter_vocab s m n) <-> In e m /\ keep s n e = true).
Proof.
  intros Hc Hdf. unfold filter_vocab, keep, stopped. rewrite Hc.
  set (lo := abs_bound (s_mindf s) n). set (hi := abs_bound (s_maxdf s) n).
  destruct (N.eqb lo 0 && N.eqb hi (N.of_nat n))%bool eqn:E.
  - apply andb_true_iff in E. destruct E as [E1 E2]. apply N.eqb_eq in E1, E2.
    assert (W : In e m -> in_window lo hi e = true).
    { intros H. unfold in_window. rewrite E1, E2. apply andb_true_iff. split; apply N.leb_le; [lia|].
      specialize (Hdf e H). lia. }
    destruct (s_stop s) as [sw|]; [rewrite filter_In|]; split.
    + intros [H1 H2]. split; auto. rewrite W; auto.
    + intros [H1 H2]. split; auto. apply andb_true_iff in H2. tauto.
    + intros H. split; auto. rewrite W; auto.
    + tauto.
  - destruct (s_stop s) as [sw|]; rewrite filter_In; [tauto|].
    rewrite andb_true_r. tauto.
Qed.

Lemma filter_vocab_cap s m n k : s_cap s = Some k ->
  filter_vocab s m n = firstn k (sort_key (filter_vocab (uncap s) m n)).
Proof. intros H. unfold filter_vocab. rewrite H. reflexivity. Qed.

Lemma filter_vocab_incl s m n e : In e (filter_vocab s m n) -> In e m.
Proof.
  assert (U : In e (filter_vocab (uncap s) m n) -> In e m).
  { unfold filter_vocab; simpl.
    destruct (_ && _)%bool; destruct (s_stop s); try rewrite filter_In; tauto. }
  destruct (s_cap s) as [k|] eqn:E.
  - rewrite (filter_vocab_cap s m n k E). intros H. apply in_firstn in H.
    apply (Permutation_in _ (sort_key_perm _)) in H. auto.
  - unfold filter_vocab in *. simpl in U. rewrite E. exact U.
Qed.

Lemma filter_vocab_NoDup s m n : NoDup (keys m) -> NoDup (keys (filter_vocab s m n)).
Proof.
  intros H.
  assert (U : NoDup (keys (filter_vocab (uncap s) m n))).
  { unfold filter_vocab; simpl.
    destruct (_ && _)%bool; destruct (s_stop s); auto using NoDup_keys_filter. }
  destruct (s_cap s) as [k|] eqn:E.
  - rewrite (filter_vocab_cap s m n k E). unfold keys. rewrite <- firstn_map. apply NoDup_firstn.
    eapply Permutation_NoDup; [|exact U]. apply Permutation_map. apply Permutation_sym, sort_key_perm.
  - unfold filter_vocab in *. simpl in U. rewrite E. exact U.
Qed.

(** every stored document frequency is the number of training documents containing the entry *)
Lemma read_docs_entry nmin nmax docs w i f :
  In (w, (i, f)) (read_docs nmin nmax docs) -> f = df_ref w (map (ngrams nmin nmax) docs).
Proof.
  intros H. apply In_vget in H; [|apply read_docs_NoDup].
  rewrite <- read_docs_dfl. unfold dfl. rewrite H. reflexivity.
Qed.

Lemma fit_map_entry s docs w i f :
  In (w, (i, f)) (fit_map s docs) -> f = df_ref w (map (ngrams (s_nmin s) (s_nmax s)) docs).
Proof. intros H. apply filter_vocab_incl in H. eapply read_docs_entry; eauto. Qed.

Lemma fit_map_NoDup s docs : NoDup (keys (fit_map s docs)).
Proof. apply filter_vocab_NoDup, read_docs_NoDup. Qed.

Lemma fit_map_admitted s docs w : s_cap s = None ->
  let grams := map (ngrams (s_nmin s) (s_nmax s)) docs in
  In w (keys (fit_map s docs)) <->
  (exists d, In d docs /\ In w (ngrams (s_nmin s) (s_nmax s) d)) /\ admitted s grams w = true.
Proof.
  intros Hc grams. unfold fit_map.
  set (m := read_docs (s_nmin s) (s_nmax s) docs).
  assert (Hdf : forall e', In e' m -> (e_df e' <= List.length docs)%nat).
  { intros [w' [i' f']] H. apply read_docs_entry in H. unfold e_df; simpl. subst f'.
    etransitivity; [apply df_ref_le|]. rewrite map_length. auto. }
  assert (K : forall e, In e m -> keep s (List.length docs) e = admitted s grams (fst e)).
  { intros [w' [i' f']] H. apply read_docs_entry in H. unfold keep, admitted, in_window, e_df. simpl.
    subst f'. unfold grams. rewrite map_length. reflexivity. }
  unfold keys. rewrite in_map_iff. split.
  - intros [e [<- He]]. apply (filter_vocab_nocap s m _ e Hc Hdf) in He. destruct He as [H1 H2].
    split; [|rewrite <- K; auto]. apply read_docs_keys. apply (in_map fst) in H1. exact H1.
  - intros [Hd Ha]. apply read_docs_keys in Hd. apply In_keys_vget in Hd. destruct Hd as [v Hv].
    apply vget_In in Hv. exists (w, v). split; auto.
    apply (filter_vocab_nocap s m _ _ Hc Hdf). split; auto. rewrite K; auto.
Qed.

(** * the feature cap *)
Lemma fit_map_cap s docs k : s_cap s = Some k ->
  fit_map s docs = firstn k (sort_key (fit_map (uncap s) docs)).
Proof. intros H. unfold fit_map. simpl. apply filter_vocab_cap; auto. Qed.

Lemma cap_top k (v : vmap) : NoDup (keys v) ->
  let kept := firstn k (sort_key v) in
  incl kept v /\ List.length kept = Nat.min k (List.length v) /\
  forall a b, In a kept -> In b v -> ~ In b kept -> key_lt a b = true.
Proof.
  intros HN kept. pose proof (sort_key_perm v) as HP. repeat split.
  - intros e He. apply in_firstn in He. eapply Permutation_in; eauto.
  - unfold kept. rewrite firstn_length. rewrite (Permutation_length HP). reflexivity.
  - intros a b Ha Hb Hnb. subst kept.
    apply (Permutation_in _ (Permutation_sym HP)) in Hb.
    rewrite <- (firstn_skipn k (sort_key v)) in Hb. apply in_app_iff in Hb.
    destruct Hb as [Hb|Hb]; [contradiction|].
    apply kle_strict.
    + eapply sorted_firstn_skipn; eauto. apply sort_key_sorted.
    + (* distinct keys *)
      assert (HN' : NoDup (keys (firstn k (sort_key v) ++ skipn k (sort_key v))%list)).
      { rewrite firstn_skipn. eapply Permutation_NoDup; [|exact HN].
        apply Permutation_map, Permutation_sym, HP. }
      unfold keys in HN'. rewrite map_app in HN'.
      intros E. apply (in_map fst) in Ha. apply (in_map fst) in Hb. rewrite E in Ha.
      revert HN' Ha Hb. generalize (map fst (firstn k (sort_key v))) (map fst (skipn k (sort_key v))) (fst b).
      intros l1 l2 x HN' H1 H2. induction l1 as [|y l1 IH]; simpl in *; [contradiction|].
      inversion HN' as [|? ? Hy Hl]; subst. destruct H1 as [->|H1]; auto.
      apply Hy. apply in_app_iff. auto.
Qed.


(** * hashmap_to_vocabulary *)
Lemma reindex_from_vec pos enum : snd (reindex_from pos enum) = keys enum.
Proof.
  revert pos; induction enum as [|[w [i f]] r IH]; intros pos; simpl; auto.
  f_equal; apply IH.
Qed.

Lemma reindex_from_keys pos enum : keys (fst (reindex_from pos enum)) = keys enum.
Proof.
  revert pos; induction enum as [|[w [i f]] r IH]; intros pos; simpl; auto.
  f_equal; apply IH.
Qed.

Lemma reindex_from_vget pos enum w i f :
  vget w (fst (reindex_from pos enum)) = Some (i, f) ->
  (pos <= i)%nat /\ nth_error (keys enum) (i - pos) = Some w /\ exists i0, In (w, (i0, f)) enum.
Proof.
  revert pos; induction enum as [|[k [i0 f0]] r IH]; intros pos; simpl; [discriminate|].
  destruct (String.eqb_spec k w) as [->|N].
  - intros H. inversion H; subst. rewrite Nat.sub_diag. simpl. repeat split; auto. eauto.
  - intros H. apply IH in H. destruct H as [H1 [H2 [j H3]]]. repeat split; [lia| |eauto].
    replace (i - pos)%nat with (S (i - S pos)) by lia. exact H2.
Qed.

(* the index stored for a word is its position in the vocabulary vector *)
Definition well_indexed (m : vmap) : Prop :=
  NoDup (keys m) /\ forall w i f, vget w m = Some (i, f) -> nth_error (keys m) i = Some w.

Lemma reindex_well_indexed enum : NoDup (keys enum) -> well_indexed (fst (reindex enum)).
Proof.
  intros H. unfold well_indexed, reindex. rewrite reindex_from_keys. split; auto.
  intros w i f Hv. apply reindex_from_vget in Hv. destruct Hv as [_ [Hv _]].
  rewrite Nat.sub_0_r in Hv. exact Hv.
Qed.

(** * analyze_document *)
Lemma upd_length {A} (l : list A) k f : List.length (upd l k f) = List.length l.
Proof. revert k; induction l as [|a l IH]; intros [|k]; simpl; auto. Qed.

Lemma nth_upd {A} (l : list A) k f j d : (j < List.length l)%nat ->
  nth j (upd l k f) d = if (k =? j)%nat then f (nth j l d) else nth j l d.
Proof.
  revert k j; induction l as [|a l IH]; intros [|k] [|j] H; simpl in *; try lia; auto.
  apply IH. lia.
Qed.

Definition count_step (m : vmap) (row : list nat) (item : string) : list nat :=
  match vget item m with Some (i, _) => upd row i S | None => row end.

Lemma count_step_length m row item : List.length (count_step m row item) = List.length row.
Proof. unfold count_step. destruct (vget item m) as [[i f]|]; auto. apply upd_length. Qed.

Lemma count_fold_length m : forall L row, List.length (fold_left (count_step m) L row) = List.length row.
Proof. induction L as [|a L IH]; intros row; simpl; auto. rewrite IH. apply count_step_length. Qed.

Lemma count_fold m : well_indexed m -> forall j, (j < List.length m)%nat ->
  forall L row, List.length row = List.length m ->
  nth j (fold_left (count_step m) L row) 0%nat = (nth j row 0 + occ (nth j (keys m) "") L)%nat.
Proof.
  intros [HN HI] j Hj. induction L as [|a L IH]; intros row Hr; simpl; [lia|].
  rewrite IH by (rewrite count_step_length; auto).
  assert (Hk : nth_error (keys m) j = Some (nth j (keys m) "")).
  { apply nth_error_nth'. unfold keys. rewrite map_length. auto. }
  unfold count_step. destruct (vget a m) as [[i f]|] eqn:E.
  - rewrite nth_upd by lia. apply HI in E.
    destruct (Nat.eqb_spec i j) as [->|N].
    + rewrite Hk in E. inversion E as [E']. rewrite E', String.eqb_refl. lia.
    + destruct (String.eqb_spec a (nth j (keys m) "")) as [Q|Q]; [|lia].
      exfalso. apply N. rewrite <- Q in Hk.
      eapply (proj1 (NoDup_nth_error (keys m)) HN); [|congruence].
      apply nth_error_Some. congruence.
  - apply vget_None in E. destruct (String.eqb_spec a (nth j (keys m) "")) as [Q|Q]; [|lia].
    exfalso. apply E. rewrite Q. apply nth_In. unfold keys. rewrite map_length. auto.
Qed.

Lemma nth_repeat_0 n j : nth j (repeat 0%nat n) 0%nat = 0%nat.
Proof. revert j; induction n as [|n IH]; intros [|j]; simpl; auto. Qed.

Lemma analyze_length nmin nmax m toks : List.length (analyze nmin nmax m toks) = List.length m.
Proof.
  unfold analyze. change (fun row item => match vget item m with Some (i, _) => upd row i S | None => row end)
    with (count_step m). rewrite count_fold_length. apply repeat_length.
Qed.

Lemma analyze_entry nmin nmax m toks j : well_indexed m -> (j < List.length m)%nat ->
  nth j (analyze nmin nmax m toks) 0%nat = occ (nth j (keys m) "") (ngrams nmin nmax toks).
Proof.
  intros Hw Hj. unfold analyze.
  change (fun row item => match vget item m with Some (i, _) => upd row i S | None => row end)
    with (count_step m).
  rewrite (count_fold m Hw j Hj) by apply repeat_length. rewrite nth_repeat_0. reflexivity.
Qed.

Lemma occ_count_occ w l : occ w l = count_occ string_dec l w.
Proof.
  induction l as [|a l IH]; simpl; auto.
  destruct (string_dec a w) as [D|D]; destruct (String.eqb_spec a w) as [E|E]; try congruence; auto.
Qed.

Lemma occ_pos w l : (0 < occ w l)%nat <-> In w l.
Proof. rewrite occ_count_occ. symmetry. apply count_occ_In. Qed.

(** * the CSR row *)
Lemma in_combine_seq {A} (row : list A) : forall a j c,
  In (j, c) (combine (seq a (List.length row)) row) <-> (a <= j)%nat /\ nth_error row (j - a) = Some c.
Proof.
  induction row as [|x row IH]; intros a j c; simpl.
  - split; [tauto|]. intros [_ H]. destruct (j - a)%nat; discriminate.
  - rewrite IH. split.
    + intros [H|[H1 H2]].
      * inversion H; subst. rewrite Nat.sub_diag. simpl. auto.
      * split; [lia|]. replace (j - a)%nat with (S (j - S a)) by lia. exact H2.
    + intros [H1 H2]. destruct (Nat.eq_dec a j) as [->|N].
      * rewrite Nat.sub_diag in H2. simpl in H2. inversion H2; auto.
      * right. split; [lia|]. replace (j - a)%nat with (S (j - S a)) in H2 by lia. exact H2.
Qed.

Lemma sparsify_In row j c :
  In (j, c) (sparsify row) <-> nth_error row j = Some c /\ (0 < c)%nat.
Proof.
  unfold sparsify. rewrite filter_In, in_combine_seq. simpl. rewrite Nat.ltb_lt, Nat.sub_0_r.
  intuition lia.
Qed.

Lemma combine_seq_fst {A} (row : list A) a : map fst (combine (seq a (List.length row)) row) = seq a (List.length row).
Proof. revert a; induction row as [|x row IH]; intros a; simpl; auto. f_equal; apply IH. Qed.

Lemma NoDup_map_filter {A B} (f : A -> B) p l : NoDup (map f l) -> NoDup (map f (filter p l)).
Proof.
  induction l as [|a l IH]; simpl; auto. intros H. inversion H as [|? ? Ha Hl]; subst.
  destruct (p a); simpl; auto. constructor; auto.
  intros Hx. apply Ha. apply in_map_iff in Hx. destruct Hx as [y [H1 H2]].
  apply filter_In in H2. apply in_map_iff. exists y; tauto.
Qed.

Lemma sparsify_NoDup row : NoDup (map fst (sparsify row)).
Proof. unfold sparsify. apply NoDup_map_filter. rewrite combine_seq_fst. apply seq_NoDup. Qed.

Lemma sparsify_bound row j c : In (j, c) (sparsify row) -> (j < List.length row)%nat.
Proof. intros H. apply sparsify_In in H. destruct H as [H _]. apply nth_error_Some. congruence. Qed.

(** * document frequencies over the transformed corpus *)
Definition df_step (df : list nat) (p : nat * nat) : list nat := upd df (fst p) S.

Fixpoint occn (j : nat) (l : list nat) : nat :=
  match l with [] => 0%nat | a :: r => if (a =? j)%nat then S (occn j r) else occn j r end.

Lemma df_row_fold j : forall (row : list (nat * nat)) df, (j < List.length df)%nat ->
  List.length (fold_left df_step row df) = List.length df /\
  nth j (fold_left df_step row df) 0%nat = (nth j df 0 + occn j (map fst row))%nat.
Proof.
  induction row as [|p row IH]; intros df Hj; simpl; [split; auto; lia|].
  destruct (IH (df_step df p)) as [H1 H2]; [unfold df_step; rewrite upd_length; auto|].
  unfold df_step in *. rewrite upd_length in H1. split; auto.
  rewrite H2, nth_upd by auto. destruct (fst p =? j)%nat; lia.
Qed.

Lemma occn_NoDup j l : NoDup l -> occn j l = if existsb (fun a => (a =? j)%nat) l then 1%nat else 0%nat.
Proof.
  induction l as [|a l IH]; simpl; auto. intros H. inversion H as [|? ? Ha Hl]; subst.
  destruct (Nat.eqb_spec a j) as [->|N]; simpl; auto.
  rewrite IH by auto. destruct (existsb (fun a => (a =? j)%nat) l) eqn:E; auto.
  apply existsb_exists in E. destruct E as [x [H1 H2]]. apply Nat.eqb_eq in H2. subst. contradiction.
Qed.

Definition has_col (j : nat) (row : list (nat * nat)) : bool := existsb (fun a => (a =? j)%nat) (map fst row).

Lemma doc_freqs_entry j ncols : (j < ncols)%nat -> forall rows df,
  List.length df = ncols -> (forall row, In row rows -> NoDup (map fst row)) ->
  nth j (fold_left (fun df row => fold_left df_step row df) rows df) 0%nat
  = (nth j df 0 + List.length (filter (has_col j) rows))%nat.
Proof.
  intros Hj. induction rows as [|row rows IH]; intros df Hl HN; simpl; [lia|].
  destruct (df_row_fold j row df) as [H1 H2]; [lia|].
  rewrite IH; [|lia|intros; apply HN; simpl; auto].
  rewrite H2, occn_NoDup by (apply HN; simpl; auto).
  unfold has_col at 2. destruct (existsb _ (map fst row)); simpl; lia.
Qed.

Lemma has_col_sparsify j row : has_col j (sparsify row) = (0 <? nth j row 0)%nat.
Proof.
  unfold has_col. destruct (Nat.ltb_spec 0 (nth j row 0%nat)) as [L|L].
  - apply existsb_exists. exists j. split; [|apply Nat.eqb_refl].
    apply in_map_iff. exists (j, nth j row 0%nat). split; auto.
    apply sparsify_In. split; auto. apply nth_error_nth'.
    destruct (Nat.ltb_spec j (List.length row)); auto. rewrite nth_overflow in L by lia. lia.
  - destruct (existsb _ _) eqn:E; auto. exfalso.
    apply existsb_exists in E. destruct E as [x [H1 H2]]. apply Nat.eqb_eq in H2. subst x.
    apply in_map_iff in H1. destruct H1 as [[j' c] [H1 H3]]. simpl in H1. subst j'.
    apply sparsify_In in H3. destruct H3 as [H3 H4]. apply (nth_error_nth _ _ 0%nat) in H3. lia.
Qed.

(* the document frequency of column j over a transformed corpus is the number of its documents
   in which vocabulary item j occurs *)
Lemma doc_freqs_count_rows nmin nmax m docs j : well_indexed m -> (j < List.length m)%nat ->
  nth j (doc_freqs (List.length m) (count_rows nmin nmax m docs)) 0%nat
  = df_ref (nth j (keys m) "") (map (ngrams nmin nmax) docs).
Proof.
  intros Hw Hj. unfold doc_freqs.
  change (fun df row => fold_left (fun df0 p => upd df0 (fst p) S) row df)
    with (fun df row => fold_left df_step row df).
  rewrite (doc_freqs_entry j (List.length m) Hj); [|apply repeat_length|].
  - rewrite nth_repeat_0. simpl. unfold count_rows, df_ref.
    induction docs as [|d docs IH]; simpl; auto.
    rewrite has_col_sparsify, analyze_entry by auto.
    destruct (Nat.ltb_spec 0 (occ (nth j (keys m) "") (ngrams nmin nmax d))) as [L|L].
    + apply occ_pos, mem_In in L. rewrite L. simpl. f_equal. exact IH.
    + assert (E : mem (nth j (keys m) "") (ngrams nmin nmax d) = false).
      { apply mem_false. rewrite <- occ_pos. lia. }
      rewrite E. exact IH.
  - intros row Hr. unfold count_rows in Hr. apply in_map_iff in Hr. destruct Hr as [d [<- _]].
    apply sparsify_NoDup.
Qed.

Lemma doc_freqs_length ncols rows : List.length (doc_freqs ncols rows) = ncols.
Proof.
  unfold doc_freqs. rewrite <- (repeat_length 0%nat ncols) at 2. generalize (repeat 0%nat ncols).
  induction rows as [|r rs IH]; intros df; simpl; auto. rewrite IH.
  revert df. induction r as [|q r IHr]; intros df; simpl; auto. rewrite IHr. apply upd_length.
Qed.

(** * tf-idf *)
Section TfIdfProofs.
Context {F : Type} (o : NumOps F) (lnf : F -> F).

Lemma apply_tfidf_row mt rows dfs d row :
  nth_error rows d = Some row -> (forall p, In p row -> (fst p < List.length dfs)%nat) ->
  nth_error (apply_tfidf o lnf mt rows dfs) d =
  Some (map (fun p => (fst p, mul o (ofn o (snd p)) (idf o lnf mt (List.length rows) (nth (fst p) dfs 0%nat)))) row).
Proof.
  intros Hd Hb. unfold apply_tfidf. rewrite nth_error_map, Hd. simpl. f_equal.
  apply map_ext_in. intros p Hp. f_equal. f_equal.
  rewrite (nth_indep _ (zero o) (idf o lnf mt (List.length rows) 0%nat)) by (rewrite map_length; auto).
  apply map_nth.
Qed.

Lemma tfidf_rows_entry mt nmin nmax m docs d toks : well_indexed m ->
  nth_error docs d = Some toks ->
  nth_error (tfidf_rows o lnf mt nmin nmax m docs) d =
  Some (map (fun p => (fst p,
                       mul o (ofn o (snd p))
                           (idf o lnf mt (List.length docs)
                                (df_ref (nth (fst p) (keys m) "") (map (ngrams nmin nmax) docs)))))
            (sparsify (analyze nmin nmax m toks))).
Proof.
  intros Hw Hd. unfold tfidf_rows.
  assert (Hr : nth_error (count_rows nmin nmax m docs) d = Some (sparsify (analyze nmin nmax m toks))).
  { unfold count_rows. rewrite nth_error_map, Hd. reflexivity. }
  assert (Hb : forall p, In p (sparsify (analyze nmin nmax m toks)) -> (fst p < List.length m)%nat).
  { intros [j c] Hp. apply sparsify_bound in Hp. rewrite analyze_length in Hp. exact Hp. }
  rewrite (apply_tfidf_row mt _ _ d _ Hr).
  - f_equal. apply map_ext_in. intros p Hp. f_equal. f_equal.
    unfold count_rows at 1. rewrite map_length. f_equal.
    apply doc_freqs_count_rows; auto.
  - intros p Hp. specialize (Hb p Hp).
    assert (L := doc_freqs_length (List.length m) (count_rows nmin nmax m docs)).
    rewrite L. exact Hb.
Qed.
End TfIdfProofs.


(** * Property-level statements (used by C17/Properties.v) *)
Definition guard (nmin nmax : nat) : Prop := (1 <= nmin <= nmax)%nat.

Lemma ngrams_windows nmin nmax toks w : guard nmin nmax ->
  In w (ngrams nmin nmax toks) <->
  exists i n, (nmin <= n <= nmax)%nat /\ (i + n <= List.length toks)%nat /\ w = window toks i n.
Proof. intros G. rewrite ngrams_eq_ref by exact G. apply ngrams_ref_In. apply G. Qed.

Lemma map_ngrams_ref nmin nmax docs : guard nmin nmax ->
  map (ngrams nmin nmax) docs = map (ngrams_ref nmin nmax) docs.
Proof. intros G. apply map_ext. intros d. apply ngrams_eq_ref. exact G. Qed.

Lemma admitted_iff s grams w : admitted s grams w = true <->
  (abs_bound (s_mindf s) (List.length grams) <= N.of_nat (df_ref w grams))%N /\
  (N.of_nat (df_ref w grams) <= abs_bound (s_maxdf s) (List.length grams))%N /\ stopped s w = false.
Proof.
  unfold admitted. rewrite !andb_true_iff, !N.leb_le, negb_true_iff. tauto.
Qed.

Lemma vocab_admitted_full s docs w : guard (s_nmin s) (s_nmax s) -> s_cap s = None ->
  let grams := map (ngrams_ref (s_nmin s) (s_nmax s)) docs in
  let n := List.length docs in
  In w (keys (fit_map s docs)) <->
  (exists d, In d docs /\ In w (ngrams_ref (s_nmin s) (s_nmax s) d)) /\
  (abs_bound (s_mindf s) n <= N.of_nat (df_ref w grams))%N /\
  (N.of_nat (df_ref w grams) <= abs_bound (s_maxdf s) n)%N /\ stopped s w = false.
Proof.
  intros G Hc grams n. rewrite (fit_map_admitted s docs w Hc). cbv zeta.
  rewrite admitted_iff, map_ngrams_ref by exact G. fold grams.
  replace (List.length grams) with n by (unfold grams; rewrite map_length; reflexivity).
  split; intros [[d [H1 H2]] H3]; (split; [exists d; split; auto|exact H3]).
  - rewrite <- ngrams_eq_ref by exact G. exact H2.
  - rewrite ngrams_eq_ref by exact G. exact H2.
Qed.

Lemma stored_df_full s docs w i f : guard (s_nmin s) (s_nmax s) ->
  In (w, (i, f)) (fit_map s docs) -> f = df_ref w (map (ngrams_ref (s_nmin s) (s_nmax s)) docs).
Proof. intros G H. rewrite <- map_ngrams_ref by exact G. eapply fit_map_entry; eauto. Qed.

Lemma cap_full s docs k : s_cap s = Some k ->
  let adm := fit_map (uncap s) docs in
  let kept := fit_map s docs in
  incl kept adm /\ NoDup (keys kept) /\ List.length kept = Nat.min k (List.length adm) /\
  forall a b, In a kept -> In b adm -> ~ In b kept ->
    (e_df b < e_df a)%nat \/ (e_df a = e_df b /\ str_cmp (fst b) (fst a) = Lt).
Proof.
  intros Hc. cbv zeta. rewrite (fit_map_cap s docs k Hc).
  destruct (cap_top k (fit_map (uncap s) docs) (fit_map_NoDup (uncap s) docs)) as [H1 [H2 H3]].
  repeat split; auto.
  - rewrite <- (fit_map_cap s docs k Hc). apply fit_map_NoDup.
  - intros a b Ha Hb Hn. apply key_lt_iff. apply H3; auto.
Qed.

Lemma index_bijection_full (m0 enum : vmap) : NoDup (keys m0) -> Permutation enum m0 ->
  let m := fst (reindex enum) in
  let vec := snd (reindex enum) in
  NoDup vec /\ List.length vec = List.length m0 /\ keys m = vec /\
  (forall w, In w vec <-> In w (keys m0)) /\
  (forall w i f, vget w m = Some (i, f) -> nth_error vec i = Some w /\ exists i0, In (w, (i0, f)) m0) /\
  (forall w, In w vec -> exists i f, vget w m = Some (i, f)).
Proof.
  intros HN HP m vec.
  assert (Hv : vec = keys enum) by apply reindex_from_vec.
  assert (Hk : keys m = keys enum) by apply reindex_from_keys.
  assert (HPk : Permutation (keys enum) (keys m0)) by (apply Permutation_map; exact HP).
  assert (HNe : NoDup (keys enum)) by (eapply Permutation_NoDup; [apply Permutation_sym; exact HPk|exact HN]).
  rewrite Hv. repeat split.
  - exact HNe.
  - unfold keys. rewrite map_length. apply Permutation_length; exact HP.
  - exact Hk.
  - intros H. eapply Permutation_in; eauto.
  - intros H. eapply Permutation_in; [apply Permutation_sym|]; eauto.
  - apply reindex_from_vget in H. destruct H as [_ [H _]]. rewrite Nat.sub_0_r in H. exact H.
  - apply reindex_from_vget in H. destruct H as [_ [_ [i0 H]]]. exists i0. eapply Permutation_in; eauto.
  - intros w Hw. rewrite <- Hk in Hw. apply In_keys_vget in Hw. destruct Hw as [[i f] Hw]. eauto.
Qed.

Lemma count_entry_full nmin nmax (enum : vmap) toks : guard nmin nmax -> NoDup (keys enum) ->
  let m := fst (reindex enum) in
  let vec := snd (reindex enum) in
  List.length (analyze nmin nmax m toks) = List.length vec /\
  (forall j, (j < List.length vec)%nat ->
     nth j (analyze nmin nmax m toks) 0%nat = count_occ string_dec (ngrams_ref nmin nmax toks) (nth j vec "")) /\
  (forall j c, In (j, c) (sparsify (analyze nmin nmax m toks)) <->
     (j < List.length vec)%nat /\ c = count_occ string_dec (ngrams_ref nmin nmax toks) (nth j vec "") /\ (0 < c)%nat).
Proof.
  intros G HN m vec.
  assert (Hw : well_indexed m) by (apply reindex_well_indexed; exact HN).
  assert (Hk : keys m = vec) by (unfold m, vec, reindex; rewrite reindex_from_keys, reindex_from_vec; reflexivity).
  assert (Hl : List.length m = List.length vec) by (rewrite <- Hk; unfold keys; rewrite map_length; reflexivity).
  assert (E : forall j, (j < List.length vec)%nat ->
     nth j (analyze nmin nmax m toks) 0%nat = count_occ string_dec (ngrams_ref nmin nmax toks) (nth j vec "")).
  { intros j Hj. rewrite analyze_entry by (auto; lia). rewrite Hk, occ_count_occ, ngrams_eq_ref by exact G. reflexivity. }
  split; [rewrite analyze_length; exact Hl|]. split; [exact E|].
  intros j c. rewrite sparsify_In. split.
  - intros [H1 H2].
    assert (Hj : (j < List.length vec)%nat).
    { rewrite <- Hl, <- (analyze_length nmin nmax m toks). apply nth_error_Some. congruence. }
    repeat split; auto. rewrite <- E by exact Hj. apply (nth_error_nth _ _ 0%nat) in H1. congruence.
  - intros [Hj [Hc Hp]]. split; auto. rewrite Hc, <- E by exact Hj.
    apply nth_error_nth'. rewrite analyze_length. lia.
Qed.

Lemma tfidf_entry_full {F} (o : NumOps F) (lnf : F -> F) mt nmin nmax (enum : vmap) docs d toks :
  guard nmin nmax -> NoDup (keys enum) -> nth_error docs d = Some toks ->
  let m := fst (reindex enum) in
  let vec := snd (reindex enum) in
  nth_error (tfidf_rows o lnf mt nmin nmax m docs) d =
  Some (map (fun p => (fst p,
                       mul o (of_N o (N.of_nat (snd p)))
                           (idf o lnf mt (List.length docs)
                                (df_ref (nth (fst p) vec "") (map (ngrams_ref nmin nmax) docs)))))
            (sparsify (analyze nmin nmax m toks))).
Proof.
  intros G HN Hd m vec.
  assert (Hw : well_indexed m) by (apply reindex_well_indexed; exact HN).
  assert (Hk : keys m = vec) by (unfold m, vec, reindex; rewrite reindex_from_keys, reindex_from_vec; reflexivity).
  rewrite (tfidf_rows_entry o lnf mt nmin nmax m docs d toks Hw Hd).
  rewrite Hk, map_ngrams_ref by exact G. reflexivity.
Qed.

(** * Non-vacuity: the hypotheses of the theorems are satisfiable and the statements say something *)
Definition f32_zero := b32_of_bits 0.
Definition f32_one := b32_of_bits 1065353216.
Definition f32_half := b32_of_bits 1056964608.
Definition ex_docs : list (list string) := [["aa"; "bb"; "aa"]; ["bb"; "cc"]; []; ["aa"; "bb"]].
Definition ex_s := mkSettings 1 2 f32_half f32_one (Some ["bb"]) None.

Example ex_guard : guard (s_nmin ex_s) (s_nmax ex_s).
Proof. unfold guard; simpl; lia. Qed.

Example ex_ngrams : ngrams 1 3 ["aa"; "bb"; "aa"] = ["aa"; "aa bb"; "aa bb aa"; "bb"; "bb aa"; "aa"].
Proof. reflexivity. Qed.

Example ex_window : window ["aa"; "bb"; "cc"; "dd"] 1 2 = "bb cc".
Proof. reflexivity. Qed.

(* window 1/2..1 of 4 documents = document frequency 2..4; "bb" (df 3) is a stop word *)
Example ex_vocab : keys (fit_map ex_s ex_docs) = ["aa bb"; "aa"].
Proof. vm_compute. reflexivity. Qed.

(* a cap that cuts a frequency tie: df(aa) = df(aa bb) = 2, the lexicographically larger word is kept *)
Example ex_cap : keys (fit_map (mkSettings 1 2 f32_half f32_one (Some ["bb"]) (Some 1)) ex_docs) = ["aa bb"].
Proof. vm_compute. reflexivity. Qed.

Example ex_enum_perm : Permutation [("aa", (3, 2)); ("aa bb", (0, 2))]%nat (fit_map ex_s ex_docs).
Proof. vm_compute. apply perm_swap. Qed.

Example ex_counts :
  count_rows 1 2 (fst (reindex (fit_map ex_s ex_docs))) [["aa"; "bb"; "aa"; "zz"; "aa"; "bb"]; ["zz"]]
  = [[(0, 2); (1, 3)]; []]%nat.
Proof. vm_compute. reflexivity. Qed.

Example ex_tfidf :
  tfidf_rows B64_ops (fun x => x) Textbook 1 2 (fst (reindex (fit_map ex_s ex_docs))) [["aa"; "bb"; "aa"]; ["aa"]]
  = [[(0%nat, 1%float); (1%nat, 0x1.5555555555555p+0%float)]; [(1%nat, 0x1.5555555555555p-1%float)]].
Proof. vm_compute. reflexivity. Qed.


(** * fit_vocabulary *)
Definition fixed_step (m : vmap) (w : string) : vmap :=
  if mem w (keys m) then m else (m ++ [(w, (List.length m, 1%nat))])%list.

Lemma fixed_fold x : forall ws m, NoDup (keys m) ->
  NoDup (keys (fold_left fixed_step ws m)) /\
  (In x (keys (fold_left fixed_step ws m)) <-> In x (keys m) \/ In x ws).
Proof.
  induction ws as [|w ws IH]; intros m HN; simpl; [tauto|].
  assert (HN' : NoDup (keys (fixed_step m w))).
  { unfold fixed_step. destruct (mem w (keys m)) eqn:E; auto.
    unfold keys. rewrite map_app. simpl. apply NoDup_snoc; auto. apply mem_false; auto. }
  destruct (IH (fixed_step m w) HN') as [H1 H2]. split; auto.
  rewrite H2. unfold fixed_step. destruct (mem w (keys m)) eqn:E.
  - apply mem_In in E. split; [tauto|]. intros [H|[<-|H]]; auto.
  - unfold keys. rewrite map_app, in_app_iff. simpl. tauto.
Qed.

Lemma fixed_map_spec ws : NoDup (keys (fixed_map ws)) /\ forall w, In w (keys (fixed_map ws)) <-> In w ws.
Proof.
  unfold fixed_map. change (fun m w => if mem w (keys m) then m else (m ++ [(w, (List.length m, 1%nat))])%list) with fixed_step.
  split.
  - apply (fixed_fold "" ws []). constructor.
  - intros w. destruct (fixed_fold w ws [] (NoDup_nil _)) as [_ H]. rewrite H. simpl. tauto.
Qed.

(** * n-grams outside the vocabulary contribute nothing: a row sums to the number of n-gram
      occurrences that are vocabulary entries *)
Lemma list_sum_upd row i : (i < List.length row)%nat -> list_sum (upd row i S) = S (list_sum row).
Proof.
  revert i; induction row as [|a row IH]; intros [|i] H; simpl in *; try lia.
  rewrite IH by lia. lia.
Qed.

Lemma count_fold_sum m : well_indexed m -> forall L row, List.length row = List.length m ->
  list_sum (fold_left (count_step m) L row) = (list_sum row + List.length (filter (fun g => mem g (keys m)) L))%nat.
Proof.
  intros [HN HI]. induction L as [|a L IH]; intros row Hr; simpl; [lia|].
  rewrite IH by (rewrite count_step_length; auto).
  unfold count_step. destruct (vget a m) as [[i f]|] eqn:E.
  - assert (Hin : mem a (keys m) = true).
    { apply mem_In. apply vget_In in E. apply (in_map fst) in E. exact E. }
    rewrite Hin. apply HI in E.
    rewrite list_sum_upd; [simpl; lia|].
    rewrite Hr. replace (List.length m) with (List.length (keys m)) by (unfold keys; apply map_length).
    apply nth_error_Some. congruence.
  - apply vget_None, mem_false in E. rewrite E. lia.
Qed.

Lemma list_sum_repeat_0 n : list_sum (repeat 0%nat n) = 0%nat.
Proof. induction n; simpl; auto. Qed.

Lemma oov_nothing_full nmin nmax (enum : vmap) toks : (1 <= nmin <= nmax)%nat -> NoDup (keys enum) ->
  list_sum (analyze nmin nmax (fst (reindex enum)) toks)
  = List.length (filter (fun g => mem g (snd (reindex enum))) (ngrams_ref nmin nmax toks)).
Proof.
  intros G HN. set (m := fst (reindex enum)).
  assert (Hw : well_indexed m) by (apply reindex_well_indexed; exact HN).
  assert (Hk : keys m = snd (reindex enum)) by (unfold m, reindex; rewrite reindex_from_keys, reindex_from_vec; reflexivity).
  unfold analyze.
  change (fun row item => match vget item m with Some (i, _) => upd row i S | None => row end) with (count_step m).
  rewrite (count_fold_sum m Hw) by apply repeat_length.
  rewrite list_sum_repeat_0, Hk, ngrams_eq_ref by exact G. reflexivity.
Qed.

Example ex_fixed : keys (fixed_map ["bb"; "aa"; "bb"; "aa bb"]) = ["bb"; "aa"; "aa bb"].
Proof. reflexivity. Qed.


(** * Soundness of the property oracle of C17/Corr.v: what it accepts satisfies the statements proved
      for the model (so the oracle evaluates the property, not an ad-hoc comparison) *)
Lemma flag_zero b code : code <> 0%N -> flag b code = 0%N -> b = true.
Proof. intros Hc. unfold flag. destruct b; auto; intros H; contradiction. Qed.

Lemma nodupb_sound l : nodupb l = true -> NoDup l.
Proof.
  induction l as [|a l IH]; simpl; [constructor|]. intros H. apply andb_true_iff in H. destruct H as [H1 H2].
  constructor; auto. apply negb_true_iff in H1. apply mem_false; auto.
Qed.

Lemma subset_sound a b : subset a b = true -> incl a b.
Proof. unfold subset. rewrite forallb_forall. intros H x Hx. apply mem_In. auto. Qed.

Lemma N_add_zero a b : (a + b = 0)%N -> a = 0%N /\ b = 0%N.
Proof. lia. Qed.

Lemma oracle_vocab_sound c grams vocab :
  c_fixed c = None -> s_cap (settings_of c) = None -> oracle_vocab c grams vocab = 0%N ->
  NoDup vocab /\
  forall w, In w vocab <-> (exists g, In g grams /\ In w g) /\ admitted (settings_of c) grams w = true.
Proof.
  intros Hf Hc. unfold oracle_vocab. rewrite Hf, Hc. intros H.
  apply N_add_zero in H. destruct H as [H H3]. apply N_add_zero in H. destruct H as [H1 H2].
  apply flag_zero in H1; [|discriminate]. apply flag_zero in H2; [|discriminate]. apply flag_zero in H3; [|discriminate].
  apply nodupb_sound in H1. apply subset_sound in H2. apply subset_sound in H3. split; auto.
  intros w. split.
  - intros Hw. apply H2 in Hw. apply filter_In in Hw. destruct Hw as [Hw Ha]. split; auto.
    apply dedup_In, in_concat in Hw. destruct Hw as [g [Hg Hw]]. exists g; auto.
  - intros [[g [Hg Hw]] Ha]. apply H3. apply filter_In. split; auto.
    apply dedup_In, in_concat. exists g; auto.
Qed.

Lemma cols_of_In vocab j : (j < List.length vocab)%nat -> In (N.of_nat j, nth j vocab "") (cols_of vocab).
Proof.
  unfold cols_of. intros H.
  assert (G : forall l a k, (k < List.length l)%nat ->
             In (N.of_nat (a + k), nth k l "") (combine (map N.of_nat (seq a (List.length l))) l)).
  { induction l as [|x l IH]; intros a k Hk; simpl in *; [lia|].
    destruct k as [|k]; [left; f_equal; f_equal; lia|]. right.
    replace (a + S k)%nat with (S a + k)%nat by lia. apply IH. lia. }
  apply (G vocab 0%nat j H).
Qed.

Lemma count_row_ok_sound vocab g row : count_row_ok vocab g row = true ->
  (forall j, (j < List.length vocab)%nat ->
     sget (N.of_nat j) row 0%N = N.of_nat (count_occ string_dec g (nth j vocab ""))) /\
  (forall p, In p row -> (0 < snd p)%N).
Proof.
  unfold count_row_ok. rewrite andb_true_iff, !forallb_forall. intros [H1 H2]. split.
  - intros j Hj. specialize (H1 _ (cols_of_In vocab j Hj)). simpl in H1. apply N.eqb_eq in H1.
    rewrite H1, occ_count_occ. reflexivity.
  - intros p Hp. apply N.ltb_lt. auto.
Qed.

Lemma forall2b_sound {A B} (f : A -> B -> bool) a b : forall2b f a b = true -> Forall2 (fun x y => f x y = true) a b.
Proof.
  revert b; induction a as [|x a IH]; intros [|y b]; simpl; intros H; try discriminate; constructor.
  - apply andb_true_iff in H; tauto.
  - apply IH. apply andb_true_iff in H; tauto.
Qed.

Lemma oracle_counts_sound vocab grams m : snd (oracle_counts vocab grams m) = 0%N ->
  Forall2 (fun g row =>
     (forall j, (j < List.length vocab)%nat ->
        sget (N.of_nat j) row 0%N = N.of_nat (count_occ string_dec g (nth j vocab ""))) /\
     (forall p, In p row -> (0 < snd p)%N)) grams (cm_data m).
Proof.
  unfold oracle_counts. simpl. intros H. apply flag_zero in H; [|discriminate].
  apply forall2b_sound in H. induction H as [|g row gs rows H1 H2 IH]; constructor; auto.
  apply count_row_ok_sound; exact H1.
Qed.
