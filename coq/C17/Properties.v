(** C17 - property theorems (statements only; proofs are in C17/Proofs.v).

    Vocabulary entries are byte strings; [window toks i n] is the n-gram made of tokens i .. i+n-1
    joined by single spaces; [ngrams_ref] lists all windows of min..max tokens; [df_ref w grams] is
    the number of documents (given as n-gram lists) containing w; [abs_bound f n] is Rust's
    [(f * n as f32) as usize].  1 <= min_n <= max_n is what the parameter check guarantees.
    A hash map is an association list with distinct keys; [reindex enum] is hashmap_to_vocabulary
    run on the enumeration [enum] of the map - every theorem below holds for every enumeration. *)
From Coq Require Import List NArith Bool String Permutation.
From LinfaVerif Require Import Common.Num C17.Model C17.Corr C17.Proofs.
Import ListNotations.
Local Open Scope string_scope.

(** NGramList yields, in order and with multiplicity, exactly the windows of min..max consecutive tokens *)
Theorem ngrams_spec : forall nmin nmax toks, (1 <= nmin <= nmax)%nat ->
  ngrams nmin nmax toks = ngrams_ref nmin nmax toks /\
  forall w, In w (ngrams nmin nmax toks) <->
            exists i n, (nmin <= n <= nmax)%nat /\ (i + n <= List.length toks)%nat /\ w = window toks i n.
Proof.
  intros nmin nmax toks G. split; [exact (ngrams_eq_ref nmin nmax toks G)|].
  intros w; exact (ngrams_windows nmin nmax toks w G).
Qed.

(** without a feature cap the fitted vocabulary is exactly the set of n-grams of the training corpus
    whose document frequency lies in the (truncated, inclusive) window and that are not stop words;
    it has no duplicates and the stored frequencies are the true document frequencies *)
Theorem vocab_is_admitted_set : forall s docs, (1 <= s_nmin s <= s_nmax s)%nat -> s_cap s = None ->
  let grams := map (ngrams_ref (s_nmin s) (s_nmax s)) docs in
  let n := List.length docs in
  NoDup (keys (fit_map s docs)) /\
  (forall w, In w (keys (fit_map s docs)) <->
     (exists d, In d docs /\ In w (ngrams_ref (s_nmin s) (s_nmax s) d)) /\
     (abs_bound (s_mindf s) n <= N.of_nat (df_ref w grams))%N /\
     (N.of_nat (df_ref w grams) <= abs_bound (s_maxdf s) n)%N /\
     stopped s w = false) /\
  (forall w i f, In (w, (i, f)) (fit_map s docs) -> f = df_ref w grams).
Proof.
  intros s docs G Hc. split; [exact (fit_map_NoDup s docs)|].
  split; [intros w; exact (vocab_admitted_full s docs w G Hc) | intros w i f; exact (stored_df_full s docs w i f G)].
Qed.

(** with max_features = k the vocabulary is a top-k set of the admitted set for the order
    (document frequency descending, then word descending): k entries (or all of them), and every
    kept entry precedes every dropped one *)
Theorem cap_most_frequent : forall s docs k, s_cap s = Some k ->
  let adm := fit_map (mkSettings (s_nmin s) (s_nmax s) (s_mindf s) (s_maxdf s) (s_stop s) None) docs in
  let kept := fit_map s docs in
  incl kept adm /\ NoDup (keys kept) /\ List.length kept = Nat.min k (List.length adm) /\
  forall a b, In a kept -> In b adm -> ~ In b kept ->
    (e_df b < e_df a)%nat \/ (e_df a = e_df b /\ str_cmp (fst b) (fst a) = Lt).
Proof. intros s docs k Hc; exact (cap_full s docs k Hc). Qed.

(** whatever order the hash map is enumerated in, vocabulary() has no duplicates, is the key set of
    the map, and the index stored for a word is the position of that word in vocabulary() *)
Theorem index_bijection : forall (m0 enum : vmap), NoDup (keys m0) -> Permutation enum m0 ->
  let m := fst (reindex enum) in
  let vec := snd (reindex enum) in
  NoDup vec /\ List.length vec = List.length m0 /\ keys m = vec /\
  (forall w, In w vec <-> In w (keys m0)) /\
  (forall w i f, vget w m = Some (i, f) -> nth_error vec i = Some w /\ exists i0, In (w, (i0, f)) m0) /\
  (forall w, In w vec -> exists i f, vget w m = Some (i, f)).
Proof. exact index_bijection_full. Qed.

(** entry j of the dense row of any document (training or unseen) is the number of occurrences of
    vocabulary()[j] among the document's n-grams - n-grams outside the vocabulary contribute nothing -
    and the stored (CSR) entries are exactly the non-zero ones *)
Theorem count_entry : forall nmin nmax (enum : vmap) toks, (1 <= nmin <= nmax)%nat -> NoDup (keys enum) ->
  let m := fst (reindex enum) in
  let vec := snd (reindex enum) in
  List.length (analyze nmin nmax m toks) = List.length vec /\
  (forall j, (j < List.length vec)%nat ->
     nth j (analyze nmin nmax m toks) 0%nat = count_occ string_dec (ngrams_ref nmin nmax toks) (nth j vec "")) /\
  (forall j c, In (j, c) (sparsify (analyze nmin nmax m toks)) <->
     (j < List.length vec)%nat /\ c = count_occ string_dec (ngrams_ref nmin nmax toks) (nth j vec "") /\ (0 < c)%nat).
Proof. exact count_entry_full. Qed.

(** every stored tf-idf entry (d, j) is count(d, j) * idf(method, number of transformed documents,
    number of transformed documents containing vocabulary()[j]) - in every arithmetic and for every ln *)
Theorem tfidf_entry : forall F (o : NumOps F) (lnf : F -> F) mt nmin nmax (enum : vmap) docs d toks,
  (1 <= nmin <= nmax)%nat -> NoDup (keys enum) -> nth_error docs d = Some toks ->
  let m := fst (reindex enum) in
  let vec := snd (reindex enum) in
  nth_error (tfidf_rows o lnf mt nmin nmax m docs) d =
  Some (map (fun p => (fst p,
                       mul o (of_N o (N.of_nat (snd p)))
                           (idf o lnf mt (List.length docs)
                                (df_ref (nth (fst p) vec "") (map (ngrams_ref nmin nmax) docs)))))
            (sparsify (analyze nmin nmax m toks))).
Proof. intros F o lnf; exact (tfidf_entry_full o lnf). Qed.

(** fit_vocabulary: the vocabulary is the given word list without its repetitions (the settings'
    filters are not applied); index_bijection and count_entry then apply to it as to a learnt one *)
Theorem fixed_vocabulary_is_given_set : forall ws,
  NoDup (keys (fixed_map ws)) /\ forall w, In w (keys (fixed_map ws)) <-> In w ws.
Proof. exact fixed_map_spec. Qed.

(** out-of-vocabulary n-grams contribute nothing: a row sums to the number of n-gram occurrences of
    the document that are vocabulary entries *)
Theorem oov_contributes_nothing : forall nmin nmax (enum : vmap) toks,
  (1 <= nmin <= nmax)%nat -> NoDup (keys enum) ->
  list_sum (analyze nmin nmax (fst (reindex enum)) toks)
  = List.length (filter (fun g => mem g (snd (reindex enum))) (ngrams_ref nmin nmax toks)).
Proof. exact oov_nothing_full. Qed.

(** the property oracle run on the implementation's outputs (C17/Corr.v) is sound: a vocabulary it
    accepts is duplicate-free and is exactly the admitted set of vocab_is_admitted_set ... *)
Theorem oracle_vocab_is_sound : forall c grams vocab,
  c_fixed c = None -> s_cap (settings_of c) = None -> oracle_vocab c grams vocab = 0%N ->
  NoDup vocab /\
  forall w, In w vocab <-> (exists g, In g grams /\ In w g) /\ admitted (settings_of c) grams w = true.
Proof. exact oracle_vocab_sound. Qed.

(** ... and a count matrix it accepts has, in every row d and column j, the number of occurrences of
    vocabulary item j among the n-grams of document d, and stores no zero *)
Theorem oracle_counts_is_sound : forall vocab grams m, snd (oracle_counts vocab grams m) = 0%N ->
  Forall2 (fun g row =>
     (forall j, (j < List.length vocab)%nat ->
        sget (N.of_nat j) row 0%N = N.of_nat (count_occ string_dec g (nth j vocab ""))) /\
     (forall p, In p row -> (0 < snd p)%N)) grams (cm_data m).
Proof. exact oracle_counts_sound. Qed.
