(** C17 - property theorems, extension part (statements only; proofs are in C17/TokProofs.v,
    C17/BoundProofs.v, C17/GridProofs.v, C17/ExtProofs.v and C17/ObsProofs.v).

    - the ASCII model of the default tokeniser (regex \b\w\w+\b) returns exactly the maximal
      word-character runs of length >= 2, in text order, and this determines the token list;
      lower-casing acts character-wise and commutes with tokenisation;
    - the document-frequency bounds [(f * n as f32) as usize] are floor (RNE_24 (f * n)) and monotone
      in f (binary32 rounding through Flocq; stated hypotheses: finite non-negative f, n <= 2^24); on the
      frequencies the harness uses they are the intended integers (dyadic: proved for all n; other
      literals and k/n: by evaluation up to 1024 resp. 256 documents, with the first exception 13/22);
    - the property oracle evaluated on the implementation's output is sound for the feature cap and
      for tf-idf;
    - the word -> column content of every transformed document does not depend on the enumeration
      order of the hash map that numbers the columns; the comparison of two observed fits is sound, and
      two observed fits that agree with the model agree with each other. *)
From Coq Require Import List NArith ZArith Bool String Ascii Arith Permutation Sorted Floats Reals SpecFloat.
From Flocq Require Import Core.Core IEEE754.BinarySingleNaN.
From LinfaVerif Require Import Common.Num Common.B32 C17.Model C17.Corr C17.Spec C17.Proofs
     C17.TokProofs C17.BoundProofs C17.GridProofs C17.ExtProofs C17.ObsProofs.
Import ListNotations.
Local Open Scope string_scope.

(** * tokeniser *)
Theorem tokenize_ascii_spec : forall s : string, exists runs : list (nat * nat),
  tokenize s = map (fun p => substring (fst p) (snd p) s) runs /\
  (forall i n, In (i, n) runs <-> maximal_run (chars s) i n /\ (2 <= n)%nat) /\
  StronglySorted run_before runs.
Proof. exact tokenize_runs. Qed.

Theorem token_positions_unique : forall l1 l2 : list (nat * nat),
  StronglySorted run_before l1 -> StronglySorted run_before l2 ->
  (forall p, In p l1 <-> In p l2) -> l1 = l2.
Proof. exact run_before_irrefl_sorted. Qed.

Theorem default_regex_is_maximal_run : forall l i n,
  default_regex_match l i (i + n) <-> maximal_run l i n /\ (2 <= n)%nat.
Proof. exact regex_match_iff_run. Qed.

Theorem lowercase_ascii_spec : forall c : ascii,
  ((65 <= N_of_ascii c <= 90)%N -> N_of_ascii (lower_ascii c) = (N_of_ascii c + 32)%N) /\
  (~ (65 <= N_of_ascii c <= 90)%N -> lower_ascii c = c).
Proof. exact lower_ascii_spec. Qed.

Theorem tokenize_commutes_with_lowercase : forall s : string,
  tokenize (lower_string s) = map lower_string (tokenize s).
Proof. exact tokenize_lower. Qed.

(** * document-frequency bounds in binary32 *)
Theorem abs_bound_is_floor_of_rounded_product : forall (f : spec_float) (n : nat),
  valid_binary p32 e32 f = true -> is_finite_SF f = true -> (0 <= SF2R radix2 f)%R ->
  (Z.of_nat n <= 16777216)%Z -> (SF2R radix2 f * IZR (Z.of_nat n) <= IZR (2 ^ 63))%R ->
  abs_bound f n = Z.to_N (Zfloor (round radix2 (SpecFloat.fexp p32 e32) ZnearestE (SF2R radix2 f * IZR (Z.of_nat n)))).
Proof. exact abs_bound_floor_round. Qed.

Theorem abs_bound_monotone : forall (f1 f2 : spec_float) (n : nat),
  valid_binary p32 e32 f1 = true -> is_finite_SF f1 = true -> (0 <= SF2R radix2 f1)%R ->
  valid_binary p32 e32 f2 = true -> is_finite_SF f2 = true ->
  (SF2R radix2 f1 <= SF2R radix2 f2)%R ->
  (Z.of_nat n <= 16777216)%Z -> (SF2R radix2 f2 * IZR (Z.of_nat n) <= IZR (2 ^ 63))%R ->
  (abs_bound f1 n <= abs_bound f2 n)%N.
Proof. exact abs_bound_mono. Qed.

Theorem abs_bound_of_one : forall n, (Z.of_nat n <= 16777216)%Z -> abs_bound f32_1 n = N.of_nat n.
Proof. exact abs_bound_one. Qed.

(** beyond 2^24 documents the conversion [n as f32] itself rounds: the bound for frequency 1.0 is
    no longer n (kept visible: the theorems above state n <= 2^24 for this reason) *)
Theorem abs_bound_one_beyond_2p24 : forall n, Z.of_nat n = 16777217%Z -> abs_bound f32_1 n = 16777216%N.
Proof. exact abs_bound_one_beyond. Qed.

(** * the bounds on the frequencies the harness uses
    dyadic frequencies: the product is exact and the bound is the integer quotient, for every document
    count up to 2^24 (3/4: while 3 n <= 2^24; beyond that the product is rounded, GridProofs.v
    [abs_bound_3quarters_beyond]) *)
Theorem abs_bound_dyadic_grid : forall n : nat,
  ((Z.of_nat n <= 16777216)%Z -> abs_bound f32_quarter n = N.of_nat (n / 4) /\ abs_bound f32_half n = N.of_nat (n / 2)) /\
  ((3 * Z.of_nat n <= 16777216)%Z -> abs_bound f32_3quarters n = N.of_nat (3 * n / 4)).
Proof.
  intros n. split; [intros H; split; [exact (abs_bound_quarter n H) | exact (abs_bound_half n H)] | exact (abs_bound_3quarters n)].
Qed.

(** every literal of the harness grid (0, 1/4, 1/3, 1/2, 2/3, 3/4, 1, 1/5 .. 4/5, 1/10, 7/10, 9/10, 3/2, 2),
    read as the binary32 number Rust parses it to: for up to 1024 documents the bound is floor (q n) for
    the rational q that was written - by evaluation of the model on all 16 * 1025 pairs *)
Theorem abs_bound_on_grid_literals : forall bits num den n,
  In (bits, (num, den)) grid_literals -> (n <= 1024)%nat ->
  Z.of_N (abs_bound (b32_of_bits bits) n) = (num * Z.of_nat n / den)%Z.
Proof. exact abs_bound_grid. Qed.

(** bounds k/n computed in binary32 ([k as f32 / n as f32], as the harness and a user do): the bound of
    n documents is k again for every k <= n <= 21 - the range of the harness -, k or k - 1 up to 256
    documents, and 13/22 of 22 documents is 12 *)
Theorem abs_bound_of_ratio : forall k n, (k <= n)%nat ->
  ((1 <= n <= 21)%nat -> abs_bound (ratio32 k n) n = N.of_nat k) /\
  ((1 <= n <= 256)%nat -> abs_bound (ratio32 k n) n = N.of_nat k \/ abs_bound (ratio32 k n) n = N.of_nat (k - 1)).
Proof. intros k n H. split; [exact (abs_bound_ratio_small k n H) | exact (abs_bound_ratio_near k n H)]. Qed.

Theorem abs_bound_of_ratio_13_22 : abs_bound (ratio32 13 22) 22 = 12%N.
Proof. exact abs_bound_ratio_13_22. Qed.

(** * oracle soundness: feature cap and tf-idf *)
Theorem oracle_cap_is_sound : forall c grams vocab k,
  c_fixed c = None -> s_cap (settings_of c) = Some k -> oracle_vocab c grams vocab = 0%N ->
  let s := settings_of c in
  let adm := filter (admitted s grams) (dedup (List.concat grams)) in
  NoDup vocab /\ NoDup adm /\
  (forall w, In w adm <-> (exists g, In g grams /\ In w g) /\ admitted s grams w = true) /\
  incl vocab adm /\ List.length vocab = Nat.min k (List.length adm) /\
  (forall a b, In a vocab -> In b adm -> ~ In b vocab ->
     (df_ref b grams < df_ref a grams)%nat \/ (df_ref a grams = df_ref b grams /\ str_cmp b a = Lt)).
Proof. exact oracle_cap_sound. Qed.

Theorem oracle_tfidf_is_sound : forall c vocab grams m, snd (oracle_tfidf c vocab grams m) = 0%N ->
  Forall2 (tfidf_row_spec c vocab grams) grams (fm_data m).
Proof. exact oracle_tfidf_sound. Qed.

(** * the word -> column content is independent of the hash enumeration order
    first the model (for all enumerations), then the check evaluated on two independent fits of the
    implementation (C17/Corr.v [oracle_invariance]) *)
Theorem vocabulary_word_content_invariant : forall nmin nmax (m0 e1 e2 : vmap),
  guard nmin nmax -> NoDup (keys m0) -> Permutation e1 m0 -> Permutation e2 m0 ->
  let m1 := fst (reindex e1) in
  let m2 := fst (reindex e2) in
  Permutation (snd (reindex e1)) (snd (reindex e2)) /\
  (forall toks w, word_count nmin nmax m1 toks w = word_count nmin nmax m2 toks w) /\
  (forall docs d w, (d < List.length docs)%nat ->
     word_entry m1 (count_rows nmin nmax m1 docs) d w = word_entry m2 (count_rows nmin nmax m2 docs) d w) /\
  (forall F (o : NumOps F) (lnf : F -> F) mt docs d w, (d < List.length docs)%nat ->
     word_entry m1 (tfidf_rows o lnf mt nmin nmax m1 docs) d w =
     word_entry m2 (tfidf_rows o lnf mt nmin nmax m2 docs) d w).
Proof. exact vocab_map_invariant_full. Qed.

(** what the oracle accepts when it compares two independently fitted vectorisers: the same vocabulary
    set, and for every word the same stored value (or no stored value) in every document *)
Theorem observed_content_check_is_sound : forall (vocab1 vocab2 : list string) (rows1 rows2 : list (list (N * N))),
  content_eq N.eqb vocab1 rows1 vocab2 rows2 = true ->
  (forall w, In w vocab1 <-> In w vocab2) /\
  forall w, In w vocab1 -> exists i j, pos_of w vocab1 0%N = Some i /\ pos_of w vocab2 0%N = Some j /\
    Forall2 (fun r1 r2 => sget_opt i r1 = sget_opt j r2) rows1 rows2.
Proof. exact (content_eq_sound N.eqb (fun x y H => proj1 (N.eqb_eq x y) H)). Qed.

(** the model theorem transported to the observations: if two fits of the implementation (vocabulary()
    = vocab1 resp. vocab2, any two orders) both agree with the model run in their own column order -
    which is what the correspondence establishes on every case -, then their count matrices and their
    tf-idf matrices have the same word -> value content, i.e. the check above accepts.  This is
    vocabulary_word_content_invariant instantiated with the observed enumeration orders. *)
Theorem observed_orders_agree : forall (c : case) (vocab1 vocab2 : list string) (docs : list (list string)),
  let s := settings_of c in
  let m := model_map c in
  let m1 := fst (reindex (enum_as vocab1 m)) in
  let m2 := fst (reindex (enum_as vocab2 m)) in
  guard (s_nmin s) (s_nmax s) ->
  same_set (keys m) vocab1 = true -> same_set (keys m) vocab2 = true ->
  (forall rows1 rows2,
     toNN (count_rows (s_nmin s) (s_nmax s) m1 docs) = rows1 ->
     toNN (count_rows (s_nmin s) (s_nmax s) m2 docs) = rows2 ->
     content_eq N.eqb vocab1 rows1 vocab2 rows2 = true) /\
  (forall lnf mt rows1 rows2,
     toNF (tfidf_rows B64_ops lnf mt (s_nmin s) (s_nmax s) m1 docs) = rows1 ->
     toNF (tfidf_rows B64_ops lnf mt (s_nmin s) (s_nmax s) m2 docs) = rows2 ->
     content_eq f64_biteq vocab1 rows1 vocab2 rows2 = true).
Proof. exact observed_orders_agree_full. Qed.
