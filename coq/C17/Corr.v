(** C17 - correspondence (model vs implementation) and property oracle (naive recount evaluated on
    the implementation's outputs).  Floats: binary64 through PrimFloat; ln is an oracle input (a table
    of the values Rust's f64::ln returns on the arguments the documented formulas produce). *)
From Coq Require Import List NArith ZArith Bool String Ascii Floats Arith.
From LinfaVerif Require Export Common.Num Common.B32 Common.Run C17.Model.
Import ListNotations.
Local Open Scope string_scope.

Record cmat := { cm_rows : N; cm_cols : N; cm_data : list (list (N * N)) }.
Record fmat := { fm_rows : N; fm_cols : N; fm_data : list (list (N * float)) }.

Record case := {
  c_id : N;
  c_mode : N;          (* 0: ASCII documents, default tokeniser and lower-casing are modelled;
                          1: the token lists are supplied by the harness (function tokeniser, non-ASCII text) *)
  c_lower : bool;
  c_nmin : N; c_nmax : N;
  c_mindf : Z; c_maxdf : Z;                 (* binary32 bit patterns *)
  c_stop : option (list string);
  c_cap : option N;
  c_fixed : option (list string);           (* Some ws: fit_vocabulary ws *)
  c_train : list (string * list string);    (* (document, its tokens when c_mode = 1) *)
  c_test : list (string * list string);
  c_method : N;                             (* 0 Smooth, 1 NonSmooth, 2 Textbook *)
  c_ln : list (float * float);              (* (x, x.ln()) *)
  (* observed: CountVectorizer *)
  c_vocab : list string; c_nentries : N;
  c_ctrain : cmat; c_ctest : cmat;
  (* observed: FittedTfIdfVectorizer (its own fit, hence its own column order) *)
  c_tvocab : list string; c_tnentries : N;
  c_ttrain : fmat; c_ttest : fmat;
  c_idfs : list ((N * N) * float);          (* ((n, df), TfIdfMethod::compute_idf(n, df)) *)
  (* observed: a second, independent fit of both vectorisers on the same input (every HashMap gets its
     own RandomState, hence its own enumeration order and column numbering) *)
  c_vocab2 : list string; c_ctrain2 : cmat;    (* the second fit transforms the training corpus only *)
  c_tvocab2 : list string; c_ttrain2 : fmat;
  (* expression-level probes ((f32 bits, n), (f * n as f32) as usize) evaluated by the harness itself:
     ties [abs_bound] to Rust's f32 product and float -> usize cast also for document counts that no
     corpus can reach (around 2^24 and beyond) *)
  c_bounds : list ((Z * N) * N);
  (* ((k, n), bits of k as f32 / n as f32) evaluated by the harness: ties [ratio32_z] to Rust's f32 division *)
  c_ratios : list ((N * N) * Z)
}.

Definition settings_of (c : case) : settings :=
  {| s_nmin := N.to_nat (c_nmin c); s_nmax := N.to_nat (c_nmax c);
     s_mindf := b32_of_bits (c_mindf c); s_maxdf := b32_of_bits (c_maxdf c);
     s_stop := c_stop c; s_cap := option_map N.to_nat (c_cap c) |}.

Definition toks_of (c : case) (d : string * list string) : list string :=
  if N.eqb (c_mode c) 0 then tokenize (transform_string (c_lower c) (fst d)) else snd d.

Definition method_of (c : case) : method :=
  match c_method c with 0%N => Smooth | 1%N => NonSmooth | _ => Textbook end.

Definition ln_tab (tab : list (float * float)) (x : float) : float :=
  match find (fun p => f64_biteq (fst p) x) tab with Some p => snd p | None => nan end.

Definition subset (a b : list string) : bool := forallb (fun w => mem w b) a.
Definition same_set (a b : list string) : bool :=
  (subset a b && subset b a && Nat.eqb (List.length a) (List.length b))%bool.

Fixpoint nodupb (l : list string) : bool :=
  match l with [] => true | a :: r => (negb (mem a r) && nodupb r)%bool end.

Definition pairNN_eqb (a b : N * N) : bool := (N.eqb (fst a) (fst b) && N.eqb (snd a) (snd b))%bool.
Definition pairNF_eqb (a b : N * float) : bool := (N.eqb (fst a) (fst b) && f64_biteq (snd a) (snd b))%bool.
Definition toNN (rows : list (list (nat * nat))) : list (list (N * N)) :=
  map (map (fun p => (N.of_nat (fst p), N.of_nat (snd p)))) rows.
Definition toNF (rows : list (list (nat * float))) : list (list (N * float)) :=
  map (map (fun p => (N.of_nat (fst p), snd p))) rows.

(* ---------------------------------------------------------------------------------------------- *)
(** * correspondence: the transliterated model, run in the implementation's enumeration order *)

Definition model_map (c : case) : vmap :=
  match c_fixed c with
  | Some ws => fixed_map ws
  | None => fit_map (settings_of c) (map (toks_of c) (c_train c))
  end.

(* the hash map enumerated in the order the implementation happened to use *)
Definition enum_as (vocab : list string) (m : vmap) : vmap :=
  flat_map (fun w => match vget w m with Some v => [(w, v)] | None => [] end) vocab.

Definition corr_case (c : case) : N :=
  let s := settings_of c in
  let m := model_map c in
  let tr := map (toks_of c) (c_train c) in
  let te := map (toks_of c) (c_test c) in
  let mc := fst (reindex (enum_as (c_vocab c) m)) in
  let mt := fst (reindex (enum_as (c_tvocab c) m)) in
  let lnf := ln_tab (c_ln c) in
  let mth := method_of c in
  (flag (same_set (keys m) (c_vocab c)) 1
   + flag (N.eqb (c_nentries c) (N.of_nat (List.length m)) && N.eqb (c_tnentries c) (N.of_nat (List.length m))) 2
   + flag (list_eqb (list_eqb pairNN_eqb) (toNN (count_rows (s_nmin s) (s_nmax s) mc tr)) (cm_data (c_ctrain c))) 4
   + flag (list_eqb (list_eqb pairNN_eqb) (toNN (count_rows (s_nmin s) (s_nmax s) mc te)) (cm_data (c_ctest c))) 8
   + flag (same_set (keys m) (c_tvocab c)) 16
   + flag (list_eqb (list_eqb pairNF_eqb) (toNF (tfidf_rows B64_ops lnf mth (s_nmin s) (s_nmax s) mt tr)) (fm_data (c_ttrain c))) 32
   + flag (list_eqb (list_eqb pairNF_eqb) (toNF (tfidf_rows B64_ops lnf mth (s_nmin s) (s_nmax s) mt te)) (fm_data (c_ttest c))) 64
   + flag (forallb (fun q => f64_biteq (idf B64_ops lnf mth (N.to_nat (fst (fst q))) (N.to_nat (snd (fst q)))) (snd q)) (c_idfs c)) 128
   + flag (N.eqb (cm_rows (c_ctrain c)) (N.of_nat (List.length tr)) && N.eqb (cm_rows (c_ctest c)) (N.of_nat (List.length te))
           && N.eqb (fm_rows (c_ttrain c)) (N.of_nat (List.length tr)) && N.eqb (fm_rows (c_ttest c)) (N.of_nat (List.length te))
           && N.eqb (cm_cols (c_ctrain c)) (N.of_nat (List.length m)) && N.eqb (cm_cols (c_ctest c)) (N.of_nat (List.length m))
           && N.eqb (fm_cols (c_ttrain c)) (N.of_nat (List.length m)) && N.eqb (fm_cols (c_ttest c)) (N.of_nat (List.length m))) 256
   + flag (let mc2 := fst (reindex (enum_as (c_vocab2 c) m)) in
           let mt2 := fst (reindex (enum_as (c_tvocab2 c) m)) in
           same_set (keys m) (c_vocab2 c) && same_set (keys m) (c_tvocab2 c)
           && list_eqb (list_eqb pairNN_eqb) (toNN (count_rows (s_nmin s) (s_nmax s) mc2 tr)) (cm_data (c_ctrain2 c))
           && list_eqb (list_eqb pairNF_eqb) (toNF (tfidf_rows B64_ops lnf mth (s_nmin s) (s_nmax s) mt2 tr)) (fm_data (c_ttrain2 c))) 512
   + flag (forallb (fun q => N.eqb (abs_bound_z (b32_of_bits (fst (fst q))) (Z.of_N (snd (fst q)))) (snd q)) (c_bounds c)
           && forallb (fun q => sf_eqb (ratio32_z (Z.of_N (fst (fst q))) (Z.of_N (snd (fst q)))) (b32_of_bits (snd q))) (c_ratios c)) 1024)%N.

(* ---------------------------------------------------------------------------------------------- *)
(** * property oracle: the naive recount, from the reference definitions only *)

(* vocabulary against the admitted set *)
Definition oracle_vocab (c : case) (grams : list (list string)) (vocab : list string) : N :=
  let s := settings_of c in
  match c_fixed c with
  | Some ws =>
      (flag (nodupb vocab) 1 + flag (subset vocab ws && subset ws vocab) 2)%N
  | None =>
      let cand := dedup (List.concat grams) in
      let adm := filter (admitted s grams) cand in
      let ent := fun w => (w, (0%nat, df_ref w grams)) in
      (flag (nodupb vocab) 1
       + flag (subset vocab adm) 2
       + match s_cap s with
         | None => flag (subset adm vocab) 4
         | Some k =>
             (flag (Nat.eqb (List.length vocab) (Nat.min k (List.length adm))) 4
              + flag (forallb (fun b => (mem b vocab || forallb (fun a => key_lt (ent a) (ent b)) vocab)%bool) adm) 8)%N
         end)%N
  end.

Fixpoint sget {V} (j : N) (row : list (N * V)) (d : V) : V :=
  match row with
  | [] => d
  | (i, v) :: r => if N.eqb i j then v else sget j r d
  end.

Fixpoint increasing (prev : option N) (l : list N) : bool :=
  match l with
  | [] => true
  | a :: r => (match prev with None => true | Some p => N.ltb p a end && increasing (Some a) r)%bool
  end.

Definition row_wf {V} (ncols : nat) (row : list (N * V)) : bool :=
  (increasing None (map fst row) && forallb (fun p => N.ltb (fst p) (N.of_nat ncols)) row)%bool.

Definition cols_of (vocab : list string) : list (N * string) :=
  combine (map N.of_nat (seq 0 (List.length vocab))) vocab.

(* entry (d, j) is the number of occurrences of vocabulary item j among the n-grams of document d;
   stored entries are exactly the non-zero ones *)
Definition count_row_ok (vocab : list string) (g : list string) (row : list (N * N)) : bool :=
  (forallb (fun jw => N.eqb (sget (fst jw) row 0%N) (N.of_nat (occ (snd jw) g))) (cols_of vocab)
   && forallb (fun p => N.ltb 0 (snd p)) row)%bool.

Fixpoint forall2b {A B} (f : A -> B -> bool) (a : list A) (b : list B) : bool :=
  match a, b with
  | [], [] => true
  | x :: a', y :: b' => (f x y && forall2b f a' b')%bool
  | _, _ => false
  end.

Definition oracle_counts (vocab : list string) (grams : list (list string)) (m : cmat) : N * N :=
  (flag (N.eqb (cm_rows m) (N.of_nat (List.length grams)) && N.eqb (cm_cols m) (N.of_nat (List.length vocab))
         && Nat.eqb (List.length (cm_data m)) (List.length grams)
         && forallb (row_wf (List.length vocab)) (cm_data m)) 16,
   flag (forall2b (count_row_ok vocab) grams (cm_data m)) 1)%N.

(* entry (d, j) = count * idf(method, number of rows, number of rows in which item j occurs);
   the stored pattern is that of the non-zero counts *)
Definition tfidf_row_ok (c : case) (vocab : list string) (n : nat) (grams : list (list string))
           (g : list string) (row : list (N * float)) : bool :=
  forallb (fun jw =>
             let cnt := occ (snd jw) g in
             match cnt with
             | O => negb (existsb (fun p => N.eqb (fst p) (fst jw)) row)
             | _ => (existsb (fun p => N.eqb (fst p) (fst jw)) row
                     && f64_biteq (sget (fst jw) row nan)
                          (PrimFloat.mul (ofn B64_ops cnt)
                             (idf B64_ops (ln_tab (c_ln c)) (method_of c) n (df_ref (snd jw) grams))))%bool
             end) (cols_of vocab).

Definition oracle_tfidf (c : case) (vocab : list string) (grams : list (list string)) (m : fmat) : N * N :=
  (flag (N.eqb (fm_rows m) (N.of_nat (List.length grams)) && N.eqb (fm_cols m) (N.of_nat (List.length vocab))
         && Nat.eqb (List.length (fm_data m)) (List.length grams)
         && forallb (row_wf (List.length vocab)) (fm_data m)) 16,
   flag (forall2b (tfidf_row_ok c vocab (List.length grams) grams) grams (fm_data m)) 1)%N.

(* the word -> value content of a matrix whose columns are numbered by [vocab]: two independently
   fitted vectorisers (different hash enumeration orders) must agree on it *)
Fixpoint pos_of (w : string) (vocab : list string) (i : N) : option N :=
  match vocab with
  | [] => None
  | a :: r => if String.eqb a w then Some i else pos_of w r (N.succ i)
  end.

Fixpoint sget_opt {V} (j : N) (row : list (N * V)) : option V :=
  match row with
  | [] => None
  | (i, v) :: r => if N.eqb i j then Some v else sget_opt j r
  end.

Definition opt_eqb {V} (eqV : V -> V -> bool) (a b : option V) : bool :=
  match a, b with
  | None, None => true
  | Some x, Some y => eqV x y
  | _, _ => false
  end.

Definition content_eq {V} (eqV : V -> V -> bool) (vocab1 : list string) (rows1 : list (list (N * V)))
           (vocab2 : list string) (rows2 : list (list (N * V))) : bool :=
  (same_set vocab1 vocab2
   && forallb (fun w => match pos_of w vocab1 0%N, pos_of w vocab2 0%N with
                        | Some i, Some j => forall2b (fun r1 r2 => opt_eqb eqV (sget_opt i r1) (sget_opt j r2)) rows1 rows2
                        | _, _ => false
                        end) vocab1)%bool.

Definition oracle_invariance (c : case) : N :=
  flag (content_eq N.eqb (c_vocab c) (cm_data (c_ctrain c)) (c_vocab2 c) (cm_data (c_ctrain2 c))
        && content_eq f64_biteq (c_tvocab c) (fm_data (c_ttrain c)) (c_tvocab2 c) (fm_data (c_ttrain2 c))
        (* ... and the count vectoriser and the tf-idf vectoriser (a third and fourth enumeration) store the same pattern *)
        && content_eq (fun _ _ => true) (c_vocab c) (map (map (fun p => (fst p, tt))) (cm_data (c_ctrain c)))
                      (c_tvocab c) (map (map (fun p => (fst p, tt))) (fm_data (c_ttrain c)))) 4096.

Definition oracle_case (c : case) : N :=
  let s := settings_of c in
  let gtr := map (fun d => ngrams_ref (s_nmin s) (s_nmax s) (toks_of c d)) (c_train c) in
  let gte := map (fun d => ngrams_ref (s_nmin s) (s_nmax s) (toks_of c d)) (c_test c) in
  let '(w1, k1) := oracle_counts (c_vocab c) gtr (c_ctrain c) in
  let '(w2, k2) := oracle_counts (c_vocab c) gte (c_ctest c) in
  let '(w3, k3) := oracle_tfidf c (c_tvocab c) gtr (c_ttrain c) in
  let '(w4, k4) := oracle_tfidf c (c_tvocab c) gte (c_ttest c) in
  fold_left N.lor
    [oracle_vocab c gtr (c_vocab c); oracle_vocab c gtr (c_tvocab c);
     w1; w2; w3; w4; (k1 * 32)%N; (k2 * 64)%N; (k3 * 128)%N; (k4 * 256)%N;
     flag (N.eqb (c_nentries c) (N.of_nat (List.length (c_vocab c)))
           && N.eqb (c_tnentries c) (N.of_nat (List.length (c_tvocab c)))) 512;
     oracle_invariance c] 0%N.

Definition run_case (c : case) : verdict := (c_id c, (corr_case c, oracle_case c)).
Definition run_cases (cs : list case) : list N := report (map run_case cs).
