(** C17 - the document-frequency bounds on the frequencies the harness uses (and a user would write).

    (1) dyadic frequencies a / 2^k (1/4, 1/2, 3/4): the product is exact, the bound is the integer
        quotient a n / 2^k - for every document count with a n <= 2^24;
    (2) the decimal / rational literals of the harness grid, as binary32 values: for every document
        count n <= 1024 the bound is floor (q n) for the rational q the literal denotes (by evaluation
        of the model) - although the literal is not q and the product is rounded;
    (3) the bounds k/n computed in binary32 ([k as f32 / n as f32]): [abs_bound (k/n) n = k] for every
        k <= n <= 21, it is k or k-1 for n <= 256, and the first exception is 13/22 of 22 documents. *)
From Coq Require Import List NArith ZArith Bool Lia Reals Lra SpecFloat Arith.
From Flocq Require Import Core.Core IEEE754.BinarySingleNaN.
From LinfaVerif Require Import Common.Num Common.B32 C17.Model C17.BoundProofs.
Import ListNotations.

Lemma scaled_int_format (z e : Z) : (Z.abs z <= 16777216)%Z -> (-149 <= e)%Z ->
  generic_format radix2 fexp32 (IZR z * bpow radix2 e).
Proof.
  intros Hz He. destruct (Z.eq_dec (Z.abs z) 16777216) as [E|NE].
  - apply generic_format_FLT.
    assert (z = 16777216 \/ z = -16777216)%Z as [-> | ->] by lia.
    + apply FLT_spec with (f := Float radix2 1 (e + 24)).
      * unfold F2R. simpl Fnum. simpl Fexp. rewrite bpow_plus. simpl (bpow radix2 24). lra.
      * simpl. lia.
      * simpl. unfold emin, e32, p32. lia.
    + apply FLT_spec with (f := Float radix2 (-1) (e + 24)).
      * unfold F2R. simpl Fnum. simpl Fexp. rewrite bpow_plus. simpl (bpow radix2 24). lra.
      * simpl. lia.
      * simpl. unfold emin, e32, p32. lia.
  - apply generic_format_FLT. apply FLT_spec with (f := Float radix2 z e).
    + reflexivity.
    + simpl. lia.
    + simpl. unfold emin, e32, p32. lia.
Qed.

(* when the exact product is a binary32 number, nothing is rounded *)
Lemma abs_bound_exact_product (f : spec_float) (n : nat) :
  valid_binary p32 e32 f = true -> is_finite_SF f = true -> (0 <= SF2R radix2 f)%R ->
  (Z.of_nat n <= 16777216)%Z -> (SF2R radix2 f * IZR (Z.of_nat n) <= IZR (2 ^ 63))%R ->
  generic_format radix2 fexp32 (SF2R radix2 f * IZR (Z.of_nat n)) ->
  abs_bound f n = Z.to_N (Zfloor (SF2R radix2 f * IZR (Z.of_nat n))).
Proof.
  intros Hv Hf H0 Hn Hp Hg. rewrite abs_bound_floor_round by auto.
  rewrite round_generic; auto. apply valid_rnd_N.
Qed.

Lemma abs_bound_dyadic (f : spec_float) (a k : Z) (n : nat) :
  valid_binary p32 e32 f = true -> is_finite_SF f = true ->
  SF2R radix2 f = (IZR a * bpow radix2 (- k))%R -> (1 <= a)%Z -> (0 <= k <= 149)%Z ->
  (a * Z.of_nat n <= 16777216)%Z ->
  abs_bound f n = Z.to_N (a * Z.of_nat n / 2 ^ k).
Proof.
  intros Hv Hf Hr Ha Hk Hn.
  assert (Hn0 : (0 <= Z.of_nat n)%Z) by lia.
  assert (Hn1 : (Z.of_nat n <= 16777216)%Z) by nia.
  assert (Hprod : (SF2R radix2 f * IZR (Z.of_nat n) = IZR (a * Z.of_nat n) * bpow radix2 (- k))%R).
  { rewrite Hr, mult_IZR. ring. }
  assert (Hb : (0 < bpow radix2 (- k))%R) by apply bpow_gt_0.
  assert (Hb1 : (bpow radix2 (- k) <= 1)%R).
  { change 1%R with (bpow radix2 0). apply bpow_le. lia. }
  assert (Han0 : (0 <= IZR (a * Z.of_nat n))%R) by (apply IZR_le; nia).
  assert (Han1 : (IZR (a * Z.of_nat n) <= 16777216)%R) by (apply IZR_le; exact Hn).
  rewrite abs_bound_exact_product; auto.
  - f_equal. rewrite Hprod. rewrite bpow_opp. rewrite <- IZR_Zpower by lia.
    change (IZR (a * Z.of_nat n) * / IZR (radix2 ^ k))%R with (IZR (a * Z.of_nat n) / IZR (radix2 ^ k))%R.
    apply Zfloor_div. change (radix2 ^ k)%Z with (2 ^ k)%Z. apply Z.pow_nonzero; lia.
  - rewrite Hr. apply Rmult_le_pos; [apply IZR_le; lia | lra].
  - rewrite Hprod. apply Rle_trans with 16777216%R; [nra|]. apply IZR_le. assert (16777216 < 2 ^ 63)%Z by reflexivity. lia.
  - rewrite Hprod. apply scaled_int_format; [rewrite Z.abs_eq by nia; exact Hn | lia].
Qed.

Definition f32_quarter : spec_float := S754_finite false 8388608 (-25).
Definition f32_half : spec_float := S754_finite false 8388608 (-24).
Definition f32_3quarters : spec_float := S754_finite false 12582912 (-24).

Lemma abs_bound_quarter n : (Z.of_nat n <= 16777216)%Z -> abs_bound f32_quarter n = N.of_nat (n / 4).
Proof.
  intros Hn. rewrite (abs_bound_dyadic f32_quarter 1 2 n); try reflexivity; try lia.
  - rewrite Z.mul_1_l. change (2 ^ 2)%Z with (Z.of_nat 4). rewrite <- Nat2Z.inj_div. lia.
  - unfold f32_quarter, SF2R, F2R. simpl. lra.
Qed.

Lemma abs_bound_half n : (Z.of_nat n <= 16777216)%Z -> abs_bound f32_half n = N.of_nat (n / 2).
Proof.
  intros Hn. rewrite (abs_bound_dyadic f32_half 1 1 n); try reflexivity; try lia.
  - rewrite Z.mul_1_l. change (2 ^ 1)%Z with (Z.of_nat 2). rewrite <- Nat2Z.inj_div. lia.
  - unfold f32_half, SF2R, F2R. simpl. lra.
Qed.

Lemma abs_bound_3quarters n : (3 * Z.of_nat n <= 16777216)%Z -> abs_bound f32_3quarters n = N.of_nat (3 * n / 4).
Proof.
  intros Hn. rewrite (abs_bound_dyadic f32_3quarters 3 2 n); try reflexivity; try lia.
  - change (2 ^ 2)%Z with (Z.of_nat 4). change 3%Z with (Z.of_nat 3). rewrite <- Nat2Z.inj_mul, <- Nat2Z.inj_div. lia.
  - unfold f32_3quarters, SF2R, F2R. simpl. lra.
Qed.

(* ... and not beyond: at 3 n > 2^24 the product 3 n / 4 needs more than 24 bits and is rounded
   (5592407 * 3 / 4 = 4194305.25, which becomes 4194305.5 -> same floor; 5592409 gives .75 -> next integer) *)
Example abs_bound_3quarters_beyond : abs_bound_z f32_3quarters 5592409 = 4194307%N /\ (3 * 5592409 / 4 = 4194306)%Z.
Proof. split; vm_compute; reflexivity. Qed.

(** ** the literals of the harness grid, as (binary32 bit pattern, numerator, denominator) *)
Definition grid_literals : list (Z * (Z * Z)) :=
  [(0, (0, 1)); (1048576000, (1, 4)); (1051372203, (1, 3)); (1056964608, (1, 2)); (1059760811, (2, 3));
   (1061158912, (3, 4)); (1065353216, (1, 1));
   (1045220557, (1, 5)); (1053609165, (2, 5)); (1058642330, (3, 5)); (1061997773, (4, 5));
   (1036831949, (1, 10)); (1063675494, (9, 10)); (1060320051, (7, 10));
   (1069547520, (3, 2)); (1073741824, (2, 1))]%Z.

Definition grid_row_ok (N : nat) (l : Z * (Z * Z)) : bool :=
  forallb (fun n => Z.eqb (Z.of_N (abs_bound (b32_of_bits (fst l)) n)) (fst (snd l) * Z.of_nat n / snd (snd l))) (seq 0 (S N)).

Lemma grid_table_ok : forallb (grid_row_ok 1024) grid_literals = true.
Proof. vm_compute. reflexivity. Qed.

Lemma abs_bound_grid bits num den n : In (bits, (num, den)) grid_literals -> (n <= 1024)%nat ->
  Z.of_N (abs_bound (b32_of_bits bits) n) = (num * Z.of_nat n / den)%Z.
Proof.
  intros Hl Hn. pose proof grid_table_ok as T. rewrite forallb_forall in T. specialize (T _ Hl).
  unfold grid_row_ok in T. rewrite forallb_forall in T. specialize (T n).
  simpl fst in T. simpl snd in T. apply Z.eqb_eq. apply T. apply in_seq. lia.
Qed.

(* the two literals next to 1.0 that the harness uses: 1 - 2^-24 gives n - 1, 1 + 2^-23 gives n *)
Lemma abs_bound_near_one n : (1 <= n <= 1024)%nat ->
  abs_bound (b32_of_bits 1065353215) n = N.of_nat (n - 1) /\ abs_bound (b32_of_bits 1065353217) n = N.of_nat n.
Proof.
  intros Hn.
  assert (T : forallb (fun n => N.eqb (abs_bound (b32_of_bits 1065353215) n) (N.of_nat (n - 1))
                                && N.eqb (abs_bound (b32_of_bits 1065353217) n) (N.of_nat n)) (seq 1 1024) = true)
    by (vm_compute; reflexivity).
  rewrite forallb_forall in T. specialize (T n). rewrite andb_true_iff, !N.eqb_eq in T. apply T. apply in_seq. lia.
Qed.

(** ** bounds of the form k/n computed in binary32 *)
Definition ratio32 (k n : nat) : spec_float := ratio32_z (Z.of_nat k) (Z.of_nat n).

Definition ratio_ok (k n : nat) : bool := N.eqb (abs_bound (ratio32 k n) n) (N.of_nat k).
Definition ratio_near (k n : nat) : bool :=
  (ratio_ok k n || N.eqb (abs_bound (ratio32 k n) n) (N.of_nat (k - 1)))%bool.

Lemma ratio_small_ok : forallb (fun n => forallb (fun k => ratio_ok k n) (seq 0 (S n))) (seq 1 21) = true.
Proof. vm_compute. reflexivity. Qed.

Lemma ratio_256_near : forallb (fun n => forallb (fun k => ratio_near k n) (seq 0 (S n))) (seq 1 256) = true.
Proof. vm_compute. reflexivity. Qed.

Lemma abs_bound_ratio_small k n : (k <= n)%nat -> (1 <= n <= 21)%nat -> abs_bound (ratio32 k n) n = N.of_nat k.
Proof.
  intros Hk Hn. pose proof ratio_small_ok as T. rewrite forallb_forall in T. specialize (T n).
  rewrite forallb_forall in T. apply N.eqb_eq. apply T; apply in_seq; lia.
Qed.

Lemma abs_bound_ratio_near k n : (k <= n)%nat -> (1 <= n <= 256)%nat ->
  abs_bound (ratio32 k n) n = N.of_nat k \/ abs_bound (ratio32 k n) n = N.of_nat (k - 1).
Proof.
  intros Hk Hn. pose proof ratio_256_near as T. rewrite forallb_forall in T. specialize (T n).
  rewrite forallb_forall in T. specialize (T ltac:(apply in_seq; lia) k ltac:(apply in_seq; lia)).
  unfold ratio_near, ratio_ok in T. apply orb_true_iff in T. rewrite !N.eqb_eq in T. exact T.
Qed.

(* 13 as f32 / 22 as f32 lies below 13/22 and the product with 22 is rounded to the binary32 number just
   below 13: "at least 13 of 22 documents" written as 13/22 admits n-grams of 12 documents *)
Lemma abs_bound_ratio_13_22 : abs_bound (ratio32 13 22) 22 = 12%N.
Proof. vm_compute. reflexivity. Qed.

(** * non-vacuity *)
Example ex_grid_hyps : In (1060320051, (7, 10))%Z grid_literals /\ b32_of_bits 1060320051 = f32_0_7 /\
  Z.of_N (abs_bound f32_0_7 10) = (7 * 10 / 10)%Z.
Proof. split; [simpl; tauto | split; [reflexivity | vm_compute; reflexivity]]. Qed.

Example ex_dyadic : abs_bound f32_3quarters 6 = 4%N /\ abs_bound f32_quarter 7 = 1%N /\ abs_bound_z f32_half 16777216 = 8388608%N.
Proof.
  split; [|split].
  - rewrite abs_bound_3quarters by lia. reflexivity.
  - rewrite abs_bound_quarter by lia. reflexivity.
  - vm_compute. reflexivity.
Qed.

Example ex_ratio : ratio32 5 6 = S754_finite false 13981013 (-24) /\ abs_bound (ratio32 5 6) 6 = 5%N.
Proof. split; vm_compute; reflexivity. Qed.
