(** C17 - executable model of linfa-preprocessing's count / tf-idf vectorisers
    (countgrams/mod.rs, countgrams/hyperparams.rs, helpers.rs, tf_idf_vectorization.rs).

    Strings are Coq [string]s, i.e. byte strings: a Rust [String] is its UTF-8 byte sequence and
    Rust's [Ord for str] is the lexicographic order of those bytes.  The default tokeniser
    (regex \b\w\w+\b) and lower-casing are modelled for ASCII input only; for other input and for
    function tokenisers the token lists are an input of the model (see C17/Corr.v).

    A [HashMap<String,(usize,usize)>] is an association list with distinct keys; its enumeration
    order (random per map in Rust) is never used by the model: [reindex] takes the enumeration as
    an argument and the theorems quantify over every enumeration. *)
From Coq Require Import List NArith ZArith Bool String Ascii SpecFloat Arith.
From LinfaVerif Require Import Common.Num Common.B32.
Import ListNotations.
Local Open Scope string_scope.

(** * Bytes, order on strings, lower-casing, the default tokeniser (ASCII) *)

(* Rust: impl Ord for str = lexicographic comparison of the bytes *)
Fixpoint str_cmp (a b : string) : comparison :=
  match a, b with
  | EmptyString, EmptyString => Eq
  | EmptyString, String _ _ => Lt
  | String _ _, EmptyString => Gt
  | String c a', String d b' =>
      match N.compare (N_of_ascii c) (N_of_ascii d) with
      | Eq => str_cmp a' b'
      | r => r
      end
  end.
Definition str_ltb (a b : string) : bool := match str_cmp a b with Lt => true | _ => false end.

Definition in_range (lo hi n : N) : bool := (N.leb lo n && N.leb n hi)%bool.

(* \w restricted to ASCII: [0-9A-Za-z_] *)
Definition is_word (c : ascii) : bool :=
  let n := N_of_ascii c in
  (in_range 48 57 n || in_range 65 90 n || N.eqb n 95 || in_range 97 122 n)%bool.

Definition lower_ascii (c : ascii) : ascii :=
  let n := N_of_ascii c in if in_range 65 90 n then ascii_of_N (n + 32) else c.

Fixpoint lower_string (s : string) : string :=
  match s with
  | EmptyString => EmptyString
  | String c r => String (lower_ascii c) (lower_string r)
  end.

(* transform_string on ASCII input: NFKD is the identity there; to_lowercase = ASCII lower-casing *)
Definition transform_string (lower : bool) (s : string) : string :=
  if lower then lower_string s else s.

(* regex.find_iter with \b\w\w+\b on ASCII text: the maximal runs of word characters of length >= 2 *)
Definition flush (cur : list ascii) : list string :=
  if (2 <=? List.length cur)%nat then [string_of_list_ascii (rev cur)] else [].

Fixpoint tok_go (s : string) (cur : list ascii) : list string :=
  match s with
  | EmptyString => flush cur
  | String c r => if is_word c then tok_go r (c :: cur) else (flush cur ++ tok_go r [])%list
  end.
Definition tokenize (s : string) : list string := tok_go s [].

(** * helpers.rs: NGramList *)

(* item.push(' '); item.push_str(list[j]) *)
Definition push_word (l : list string) (item : string) (j : nat) : string :=
  item ++ " " ++ nth j l "".

(* NGramList::ngram_items *)
Definition ngram_items (nmin nmax : nat) (l : list string) (index : nat) : option (list string) :=
  if (nmax =? 1)%nat then Some [nth index l ""]
  else
    let len := List.length l in
    let min_end := (index + nmin)%nat in
    if (len <? min_end)%nat then None
    else
      let max_end := Nat.min (index + nmax) len in
      let item0 := fold_left (push_word l) (seq (index + 1) (min_end - (index + 1))) (nth index l "") in
      Some (fst (fold_left (fun st j => let it := push_word l (snd st) j in ((fst st ++ [it])%list, it))
                           (seq min_end (max_end - min_end)) ([item0], item0))).

(* NGramListIntoIterator::next, unrolled: stops at the end of the list or at the first None *)
Fixpoint ngram_iter (nmin nmax : nat) (l : list string) (index fuel : nat) : list (list string) :=
  match fuel with
  | O => []
  | S f =>
      if (List.length l <=? index)%nat then []
      else match ngram_items nmin nmax l index with
           | Some items => items :: ngram_iter nmin nmax l (S index) f
           | None => []
           end
  end.

(* list.into_iter().flatten() *)
Definition ngrams (nmin nmax : nat) (toks : list string) : list string :=
  List.concat (ngram_iter nmin nmax toks 0 (List.length toks)).

(** * countgrams/mod.rs: the vocabulary map *)

(* word -> (column index, document frequency) *)
Definition vmap := list (string * (nat * nat)).
Definition keys (m : vmap) : list string := map fst m.
Definition e_df (e : string * (nat * nat)) : nat := snd (snd e).
Definition e_idx (e : string * (nat * nat)) : nat := fst (snd e).

Fixpoint vget (w : string) (m : vmap) : option (nat * nat) :=
  match m with
  | [] => None
  | (k, v) :: r => if String.eqb k w then Some v else vget w r
  end.

Definition mem (w : string) (l : list string) : bool := existsb (String.eqb w) l.

(* collect::<HashSet<String>>(): the distinct items (their enumeration order is immaterial:
   it only decides provisional indices that hashmap_to_vocabulary overwrites) *)
Fixpoint dedup (l : list string) : list string :=
  match l with
  | [] => []
  | a :: r => if mem a r then dedup r else a :: dedup r
  end.

(* if let Some((_, freq)) = vocabulary.get_mut(&word) { *freq += 1 } else { insert(word, (len, 1)) } *)
Fixpoint bump (w : string) (len : nat) (m : vmap) : vmap :=
  match m with
  | [] => [(w, (len, 1%nat))]
  | (k, (i, f)) :: r => if String.eqb k w then (k, (i, S f)) :: r else (k, (i, f)) :: bump w len r
  end.

(* read_document_into_vocabulary, from the token list on *)
Definition read_doc (nmin nmax : nat) (m : vmap) (toks : list string) : vmap :=
  fold_left (fun m w => bump w (List.length m) m) (dedup (ngrams nmin nmax toks)) m.

Definition read_docs (nmin nmax : nat) (docs : list (list string)) : vmap :=
  fold_left (read_doc nmin nmax) docs [].

(* Rust `x as usize` for an f32 x: truncation towards zero, saturating, NaN -> 0 *)
Definition usize_max : Z := 18446744073709551615.
Definition trunc_usize (x : spec_float) : Z :=
  match x with
  | S754_zero _ => 0
  | S754_nan => 0
  | S754_infinity s => if s then 0 else usize_max
  | S754_finite s m e =>
      if s then 0
      else Z.min usize_max
             match e with
             | Z0 => Zpos m
             | Zpos p => Zpos m * Z.pow 2 (Zpos p)
             | Zneg p => Zpos m / Z.pow 2 (Zpos p)
             end
  end%Z.

(* (df * n_documents as f32) as usize, in binary32; the document count as a binary number
   ([abs_bound_z], used for probes with counts too large for unary numbers) and as a list length *)
Definition abs_bound_z (f : spec_float) (n : Z) : N :=
  Z.to_N (trunc_usize (SFmul p32 e32 f (b32_of_Z n))).
Definition abs_bound (f : spec_float) (n : nat) : N := abs_bound_z f (Z.of_nat n).

(* k as f32 / n as f32: how a bound "k of n documents" is written (used by probes and theorems only) *)
Definition ratio32_z (k n : Z) : spec_float := SFdiv p32 e32 (b32_of_Z k) (b32_of_Z n).

Record settings := mkSettings {
  s_nmin : nat; s_nmax : nat;
  s_mindf : spec_float; s_maxdf : spec_float;    (* binary32 values *)
  s_stop : option (list string);
  s_cap : option nat
}.

Definition in_window (lo hi : N) (e : string * (nat * nat)) : bool :=
  (N.leb lo (N.of_nat (e_df e)) && N.leb (N.of_nat (e_df e)) hi)%bool.

(* sort key of max_features: (Reverse(freq), Reverse(word), x) ascending. Words are the distinct
   keys of a hash map, so the third component never decides and is left out. *)
Definition key_lt (a b : string * (nat * nat)) : bool :=
  ((e_df b <? e_df a)%nat || ((e_df a =? e_df b)%nat && str_ltb (fst b) (fst a)))%bool.
Definition key_le (a b : string * (nat * nat)) : bool := negb (key_lt b a).

Fixpoint insert_key (a : string * (nat * nat)) (l : vmap) : vmap :=
  match l with
  | [] => [a]
  | b :: r => if key_le a b then a :: l else b :: insert_key a r
  end.
Definition sort_key (l : vmap) : vmap := fold_right insert_key [] l.

(* filter_vocabulary *)
Definition filter_vocab (s : settings) (m : vmap) (n_documents : nat) : vmap :=
  let lo := abs_bound (s_mindf s) n_documents in
  let hi := abs_bound (s_maxdf s) n_documents in
  let v :=
    if (N.eqb lo 0 && N.eqb hi (N.of_nat n_documents))%bool then
      match s_stop s with
      | None => m
      | Some sw => filter (fun e => negb (mem (fst e) sw)) m
      end
    else
      match s_stop s with
      | None => filter (in_window lo hi) m
      | Some sw => filter (fun e => (in_window lo hi e && negb (mem (fst e) sw))%bool) m
      end in
  match s_cap s with
  | Some k => firstn k (sort_key v)
  | None => v
  end.

(* CountVectorizerValidParams::fit up to (not including) hashmap_to_vocabulary *)
Definition fit_map (s : settings) (docs : list (list string)) : vmap :=
  filter_vocab s (read_docs (s_nmin s) (s_nmax s) docs) (List.length docs).

(* fit_vocabulary: vocabulary.entry(item).or_insert((len, 1)) *)
Definition fixed_map (words : list string) : vmap :=
  fold_left (fun m w => if mem w (keys m) then m else (m ++ [(w, (List.length m, 1%nat))])%list) words [].

(* hashmap_to_vocabulary on the enumeration [enum] of the map: *idx = vec.len(); vec.push(word) *)
Fixpoint reindex_from (pos : nat) (enum : vmap) : vmap * list string :=
  match enum with
  | [] => ([], [])
  | (w, (_, f)) :: r =>
      let mv := reindex_from (S pos) r in ((w, (pos, f)) :: fst mv, w :: snd mv)
  end.
Definition reindex (enum : vmap) : vmap * list string := reindex_from 0 enum.

(** * Transforming documents *)

Fixpoint upd {A} (l : list A) (k : nat) (f : A -> A) : list A :=
  match l, k with
  | [], _ => []
  | a :: t, O => f a :: t
  | a :: t, S k' => a :: upd t k' f
  end.

(* analyze_document: the dense term-frequency row *)
Definition analyze (nmin nmax : nat) (m : vmap) (toks : list string) : list nat :=
  fold_left (fun row item => match vget item m with
                             | Some (i, _) => upd row i S
                             | None => row
                             end)
            (ngrams nmin nmax toks) (repeat 0%nat (List.length m)).

(* the non-zero entries in increasing column order: one CSR row *)
Definition sparsify (row : list nat) : list (nat * nat) :=
  filter (fun p => (0 <? snd p)%nat) (combine (seq 0 (List.length row)) row).

Definition count_rows (nmin nmax : nat) (m : vmap) (docs : list (list string)) : list (list (nat * nat)) :=
  map (fun d => sparsify (analyze nmin nmax m d)) docs.

(* doc_freqs[i] += 1 for every stored entry of every row *)
Definition doc_freqs (ncols : nat) (rows : list (list (nat * nat))) : list nat :=
  fold_left (fun df row => fold_left (fun df p => upd df (fst p) S) row df) rows (repeat 0%nat ncols).

(** * tf_idf_vectorization.rs *)
Inductive method := Smooth | NonSmooth | Textbook.

Section TfIdf.
Context {F : Type} (o : NumOps F) (lnf : F -> F).
Definition ofn (n : nat) : F := of_N o (N.of_nat n).

(* TfIdfMethod::compute_idf *)
Definition idf (mt : method) (n df : nat) : F :=
  match mt with
  | Smooth => add o (lnf (div o (add o (one o) (ofn n)) (add o (one o) (ofn df)))) (one o)
  | NonSmooth => add o (lnf (div o (ofn n) (ofn df))) (one o)
  | Textbook => lnf (div o (ofn n) (add o (one o) (ofn df)))
  end.

(* apply_tf_idf: n = number of rows of the transformed corpus *)
Definition apply_tfidf (mt : method) (rows : list (list (nat * nat))) (dfs : list nat) : list (list (nat * F)) :=
  let idfs := map (idf mt (List.length rows)) dfs in
  map (map (fun p => (fst p, mul o (ofn (snd p)) (nth (fst p) idfs (zero o))))) rows.

Definition tfidf_rows (mt : method) (nmin nmax : nat) (m : vmap) (docs : list (list string)) : list (list (nat * F)) :=
  let rows := count_rows nmin nmax m docs in
  apply_tfidf mt rows (doc_freqs (List.length m) rows).
End TfIdf.

(** * Reference definitions (the "naive recount"): what the property says, written without any of
      the mechanisms above.  Used by the theorems and by the property oracle. *)

Definition join_sp (l : list string) : string :=
  match l with
  | [] => ""
  | a :: r => fold_left (fun acc t => acc ++ " " ++ t) r a
  end.

(* the window of n tokens starting at token i *)
Definition window (toks : list string) (i n : nat) : string := join_sp (firstn n (skipn i toks)).

Definition windows_at (nmin nmax : nat) (toks : list string) (i : nat) : list string :=
  flat_map (fun n => if (i + n <=? List.length toks)%nat then [window toks i n] else [])
           (seq nmin (S nmax - nmin)).

Definition ngrams_ref (nmin nmax : nat) (toks : list string) : list string :=
  flat_map (windows_at nmin nmax toks) (seq 0 (List.length toks)).

Fixpoint occ (w : string) (l : list string) : nat :=
  match l with
  | [] => 0%nat
  | a :: r => if String.eqb a w then S (occ w r) else occ w r
  end.

(* number of documents (given as n-gram lists) that contain w *)
Definition df_ref (w : string) (grams : list (list string)) : nat :=
  List.length (filter (mem w) grams).

Definition stopped (s : settings) (w : string) : bool :=
  match s_stop s with None => false | Some sw => mem w sw end.

Definition admitted (s : settings) (grams : list (list string)) (w : string) : bool :=
  let df := N.of_nat (df_ref w grams) in
  let n := List.length grams in
  (N.leb (abs_bound (s_mindf s) n) df && N.leb df (abs_bound (s_maxdf s) n) && negb (stopped s w))%bool.
