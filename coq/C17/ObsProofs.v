(** C17 - the enumeration-order theorem transported to the observations: when two independent fits of
    the implementation both agree with the model run in their own column orders (correspondence bits
    1, 4, 8, 16, 32, 64, 512 are zero), the word -> value contents of their matrices agree - the check
    [content_eq] of the property oracle (C17/Corr.v [oracle_invariance]) cannot fail.  This is
    [vocab_map_invariant_full] instantiated with the two observed enumeration orders. *)
From Coq Require Import List NArith ZArith Bool String Ascii Arith Lia Permutation Floats.
From LinfaVerif Require Import Common.Num Common.B32 C17.Model C17.Corr C17.Spec C17.Proofs C17.ExtProofs.
Import ListNotations.
Local Open Scope string_scope.

(** * the observed order as an enumeration of the model's map *)
Lemma same_set_incl a b : same_set a b = true -> incl a b /\ incl b a /\ List.length a = List.length b.
Proof.
  unfold same_set. intros H. apply andb_true_iff in H. destruct H as [H L].
  apply andb_true_iff in H. destruct H as [H1 H2].
  split; [apply subset_sound; exact H1 | split; [apply subset_sound; exact H2 | apply Nat.eqb_eq; exact L]].
Qed.

Lemma keys_enum_as vocab m : incl vocab (keys m) -> keys (enum_as vocab m) = vocab.
Proof.
  unfold enum_as, keys. induction vocab as [|w vocab IH]; intros H; simpl; auto.
  destruct (In_keys_vget w m (H w (or_introl eq_refl))) as [v Hv]. rewrite Hv. simpl.
  f_equal. apply IH. intros x Hx. apply H. right. exact Hx.
Qed.

Lemma In_enum_as vocab m w v : In (w, v) (enum_as vocab m) <-> In w vocab /\ vget w m = Some v.
Proof.
  unfold enum_as. rewrite in_flat_map. split.
  - intros [x [Hx Hi]]. destruct (vget x m) as [u|] eqn:E; [|contradiction].
    destruct Hi as [Hi|[]]. inversion Hi; subst. auto.
  - intros [Hw Hv]. exists w. split; auto. rewrite Hv. left. reflexivity.
Qed.

Lemma NoDup_of_keys (m : vmap) : NoDup (keys m) -> NoDup m.
Proof. unfold keys. apply NoDup_map_inv. Qed.

Lemma enum_as_perm vocab m : NoDup (keys m) -> same_set (keys m) vocab = true ->
  keys (enum_as vocab m) = vocab /\ NoDup vocab /\ Permutation (enum_as vocab m) m.
Proof.
  intros HN HS. destruct (same_set_incl _ _ HS) as (I1 & I2 & L).
  assert (K : keys (enum_as vocab m) = vocab) by (apply keys_enum_as; exact I2).
  assert (NV : NoDup vocab) by (apply (NoDup_incl_NoDup HN); [lia | exact I1]).
  split; [exact K | split; [exact NV|]].
  apply NoDup_Permutation.
  - apply NoDup_of_keys. rewrite K. exact NV.
  - apply NoDup_of_keys. exact HN.
  - intros [w v]. rewrite In_enum_as. split.
    + intros [_ Hv]. apply vget_In. exact Hv.
    + intros Hi. split; [apply I1; apply (in_map fst) in Hi; exact Hi | apply In_vget; auto].
Qed.

Lemma model_map_NoDup c : NoDup (keys (model_map c)).
Proof. unfold model_map. destruct (c_fixed c) as [ws|]; [apply fixed_map_spec | apply fit_map_NoDup]. Qed.

(** * from word_entry (columns found through the map) to content_eq (columns found in vocabulary()) *)
Lemma pos_of_reindex w : forall enum pos,
  match vget w (fst (reindex_from pos enum)) with
  | Some (i, _) => pos_of w (keys enum) (N.of_nat pos) = Some (N.of_nat i)
  | None => pos_of w (keys enum) (N.of_nat pos) = None
  end.
Proof.
  induction enum as [|[k [i0 f0]] r IH]; intros pos; simpl; auto.
  destruct (String.eqb k w); auto.
  specialize (IH (S pos)). rewrite Nat2N.inj_succ in IH. exact IH.
Qed.

Lemma sget_opt_conv {V W} (conv : V -> W) i (row : list (nat * V)) :
  sget_opt (N.of_nat i) (map (fun p => (N.of_nat (fst p), conv (snd p))) row) = option_map conv (sparse_get i row).
Proof.
  induction row as [|[j v] row IH]; simpl; auto.
  replace (N.eqb (N.of_nat j) (N.of_nat i)) with (Nat.eqb j i).
  - destruct (Nat.eqb j i); auto.
  - destruct (Nat.eqb_spec j i) as [->|Ne]; [rewrite N.eqb_refl; auto|].
    symmetry. apply N.eqb_neq. lia.
Qed.

Lemma forall2b_nth {A B} (f : A -> B -> bool) da db : forall a b, List.length a = List.length b ->
  (forall d, (d < List.length a)%nat -> f (nth d a da) (nth d b db) = true) -> forall2b f a b = true.
Proof.
  induction a as [|x a IH]; intros [|y b] L H; simpl in *; try discriminate; auto.
  rewrite (H 0%nat) by lia. simpl. apply IH; [lia|]. intros d Hd. apply (H (S d)). lia.
Qed.

Definition conv_rows {V W} (conv : V -> W) (rows : list (list (nat * V))) : list (list (N * W)) :=
  map (map (fun p => (N.of_nat (fst p), conv (snd p)))) rows.

Lemma content_eq_of_word_entry {V W} (eqW : W -> W -> bool) (conv : V -> W) (e1 e2 : vmap)
      (rows1 rows2 : list (list (nat * V))) :
  (forall x, eqW x x = true) ->
  NoDup (keys e1) -> NoDup (keys e2) -> (forall w, In w (keys e1) <-> In w (keys e2)) ->
  List.length rows1 = List.length rows2 ->
  (forall d w, (d < List.length rows1)%nat ->
     word_entry (fst (reindex e1)) rows1 d w = word_entry (fst (reindex e2)) rows2 d w) ->
  content_eq eqW (keys e1) (conv_rows conv rows1) (keys e2) (conv_rows conv rows2) = true.
Proof.
  intros Hrefl N1 N2 HK HL HE. unfold content_eq. apply andb_true_iff. split.
  - unfold same_set. rewrite !andb_true_iff. split; [split|].
    + apply forallb_forall. intros w Hw. apply mem_In. apply HK. exact Hw.
    + apply forallb_forall. intros w Hw. apply mem_In. apply HK. exact Hw.
    + apply Nat.eqb_eq. apply Permutation_length. apply NoDup_Permutation; auto.
  - apply forallb_forall. intros w Hw.
    pose proof (pos_of_reindex w e1 0) as P1. pose proof (pos_of_reindex w e2 0) as P2.
    fold (reindex e1) in P1. fold (reindex e2) in P2. simpl (N.of_nat 0) in P1, P2.
    assert (E : forall d, (d < List.length rows1)%nat ->
                 word_entry (fst (reindex e1)) rows1 d w = word_entry (fst (reindex e2)) rows2 d w)
      by (intros d Hd; apply HE; exact Hd).
    unfold word_entry in E.
    destruct (vget w (fst (reindex e1))) as [[i f1]|] eqn:V1.
    + destruct (vget w (fst (reindex e2))) as [[j f2]|] eqn:V2.
      * rewrite P1, P2. unfold conv_rows.
        apply (forall2b_nth _ (map (fun p => (N.of_nat (fst p), conv (snd p))) []) (map (fun p => (N.of_nat (fst p), conv (snd p))) [])).
        -- rewrite !map_length. exact HL.
        -- intros d Hd. rewrite map_length in Hd. rewrite !map_nth, !sget_opt_conv.
           specialize (E d Hd). inversion E as [E']. rewrite E'.
           destruct (sparse_get j (nth d rows2 [])); simpl; auto.
      * exfalso. apply vget_None in V2. apply V2. unfold reindex. rewrite (reindex_from_keys 0 e2). apply HK. exact Hw.
    + exfalso. apply vget_None in V1. apply V1. unfold reindex. rewrite (reindex_from_keys 0 e1). exact Hw.
Qed.

(** * the transported theorem *)
Lemma toNN_conv rows : toNN rows = conv_rows N.of_nat rows.
Proof. reflexivity. Qed.
Lemma toNF_conv rows : toNF rows = conv_rows (fun x : float => x) rows.
Proof. reflexivity. Qed.

Lemma f64_biteq_refl x : f64_biteq x x = true.
Proof.
  unfold f64_biteq. destruct (Prim2SF x) as [s|s| |s m e]; simpl; auto.
  - apply Bool.eqb_reflx.
  - apply Bool.eqb_reflx.
  - rewrite Bool.eqb_reflx, Pos.eqb_refl, Z.eqb_refl. reflexivity.
Qed.

Lemma observed_orders_agree_full (c : case) (vocab1 vocab2 : list string) (docs : list (list string)) :
  let s := settings_of c in
  let m := model_map c in
  let m1 := fst (reindex (enum_as vocab1 m)) in
  let m2 := fst (reindex (enum_as vocab2 m)) in
  guard (s_nmin s) (s_nmax s) ->
  same_set (keys m) vocab1 = true -> same_set (keys m) vocab2 = true ->
  (forall rows1 rows2,
     toNN (count_rows (s_nmin s) (s_nmax s) m1 docs) = rows1 ->
     toNN (count_rows (s_nmin s) (s_nmax s) m2 docs) = rows2 ->
     content_eq N.eqb vocab1 rows1 vocab2 rows2 = true) /\
  (forall lnf mt rows1 rows2,
     toNF (tfidf_rows B64_ops lnf mt (s_nmin s) (s_nmax s) m1 docs) = rows1 ->
     toNF (tfidf_rows B64_ops lnf mt (s_nmin s) (s_nmax s) m2 docs) = rows2 ->
     content_eq f64_biteq vocab1 rows1 vocab2 rows2 = true).
Proof.
  intros s m m1 m2 G S1 S2.
  pose proof (model_map_NoDup c) as HN. fold m in HN.
  destruct (enum_as_perm vocab1 m HN S1) as (K1 & NV1 & P1).
  destruct (enum_as_perm vocab2 m HN S2) as (K2 & NV2 & P2).
  destruct (vocab_map_invariant_full (s_nmin s) (s_nmax s) m _ _ G HN P1 P2) as (_ & _ & IC & IT).
  destruct (same_set_incl _ _ S1) as (A1 & A2 & _). destruct (same_set_incl _ _ S2) as (B1 & B2 & _).
  assert (HK : forall w, In w (keys (enum_as vocab1 m)) <-> In w (keys (enum_as vocab2 m))).
  { intros w. rewrite K1, K2. split; intros H; [apply B1, A2 | apply A1, B2]; exact H. }
  split.
  - intros rows1 rows2 <- <-. rewrite !toNN_conv. rewrite <- K1 at 1. rewrite <- K2 at 1.
    apply content_eq_of_word_entry; auto.
    + intros x. apply N.eqb_refl.
    + rewrite K1; exact NV1.
    + rewrite K2; exact NV2.
    + unfold count_rows. rewrite !map_length. reflexivity.
    + intros d w Hd. unfold count_rows in Hd. rewrite map_length in Hd. apply IC. exact Hd.
  - intros lnf mt rows1 rows2 <- <-.
    rewrite (toNF_conv (tfidf_rows B64_ops lnf mt (s_nmin s) (s_nmax s) m1 docs)), (toNF_conv (tfidf_rows B64_ops lnf mt (s_nmin s) (s_nmax s) m2 docs)).
    rewrite <- K1 at 1. rewrite <- K2 at 1.
    apply content_eq_of_word_entry; auto.
    + apply f64_biteq_refl.
    + rewrite K1; exact NV1.
    + rewrite K2; exact NV2.
    + unfold tfidf_rows, apply_tfidf, count_rows. rewrite !map_length. reflexivity.
    + intros d w Hd. unfold tfidf_rows, apply_tfidf, count_rows in Hd. rewrite !map_length in Hd. apply IT. exact Hd.
Qed.

(** * non-vacuity: two observed orders of the same two-word vocabulary *)
Definition ex_case2 : case :=
  {| c_id := 0; c_mode := 1; c_lower := true; c_nmin := 1; c_nmax := 1;
     c_mindf := 0; c_maxdf := 1065353216; c_stop := None; c_cap := None; c_fixed := None;
     c_train := [("", ["aa"; "bb"; "aa"]); ("", ["aa"])]; c_test := []; c_method := 0; c_ln := [];
     c_vocab := ["aa"; "bb"]; c_nentries := 2; c_ctrain := {| cm_rows := 0; cm_cols := 0; cm_data := [] |};
     c_ctest := {| cm_rows := 0; cm_cols := 0; cm_data := [] |};
     c_tvocab := []; c_tnentries := 0; c_ttrain := {| fm_rows := 0; fm_cols := 0; fm_data := [] |};
     c_ttest := {| fm_rows := 0; fm_cols := 0; fm_data := [] |}; c_idfs := [];
     c_vocab2 := ["bb"; "aa"]; c_ctrain2 := {| cm_rows := 0; cm_cols := 0; cm_data := [] |};
     c_tvocab2 := []; c_ttrain2 := {| fm_rows := 0; fm_cols := 0; fm_data := [] |}; c_bounds := []; c_ratios := [] |}.

Example ex_observed_orders :
  let m := model_map ex_case2 in
  let docs := [["aa"; "bb"; "aa"]; ["aa"]] in
  guard 1 1 /\ same_set (keys m) ["aa"; "bb"] = true /\ same_set (keys m) ["bb"; "aa"] = true /\
  toNN (count_rows 1 1 (fst (reindex (enum_as ["aa"; "bb"] m))) docs) = [[(0, 2); (1, 1)]; [(0, 1)]]%N /\
  toNN (count_rows 1 1 (fst (reindex (enum_as ["bb"; "aa"] m))) docs) = [[(0, 1); (1, 2)]; [(1, 1)]]%N.
Proof. split; [unfold guard; lia | repeat split; vm_compute; reflexivity]. Qed.
