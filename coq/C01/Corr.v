(** C01 - correspondence (model vs implementation, exact) and property oracle (specification
    functions block / compl / mean evaluated on the implementation's outputs).
    Data are identity tags (small integers, exactly representable in the f64 / f32 the harness stores).
    Scores are floats: binary64 (primitive floats) or binary32 (Common/B32.v), through a [fkit]. *)
From Coq Require Import List Arith NArith ZArith QArith Bool Floats SpecFloat.
From LinfaVerif Require Export Common.Num Common.Run Common.B32 Common.QF C01.Model.
Import ListNotations.

(** an array as observed: shape and row-major data (one-dimensional targets: cols = 1) *)
Record arr := { a_rows : N; a_cols : N; a_data : list N }.

Record foldpair := { fp_tr : arr; fp_tt : arr; fp_vr : arr; fp_vt : arr }.
(** one item of iter_fold: the closure argument behind the returned object, and the validation view *)
Record ifitem := { ii_ar : arr; ii_at : arr; ii_vr : arr; ii_vt : arr }.
Record ifres := { ir_items : list ifitem; ir_rec : list N; ir_tgt : list N; ir_outside_ok : bool }.

Inductive cvout (F : Type) := CvOk (rows cols : N) (data : list F) | CvErr (id : N) | CvPanic.
Arguments CvOk {F}. Arguments CvErr {F}. Arguments CvPanic {F}.
Record cvcase (F : Type) := {
  cv_cm : list F;                        (* one constant per candidate model *)
  cv_q : F;
  cv_fail_fit : list (N * N * N);        (* (model, training state, error id): this fit fails *)
  cv_fail_eval : list (F * N);           (* (first predicted value, error id): this evaluation fails *)
  cv_out : cvout F;
  cv_rec : list N; cv_tgt : list N; cv_outside_ok : bool   (* the dataset after the call *)
}.
Arguments cv_cm {F}. Arguments cv_q {F}. Arguments cv_fail_fit {F}. Arguments cv_fail_eval {F}.
Arguments cv_out {F}. Arguments cv_rec {F}. Arguments cv_tgt {F}. Arguments cv_outside_ok {F}.

(** the float type of the scores with what the mock closures and the oracle need: operations, bit
    equality, a NaN, the exact rational value of a finite float, finiteness, the relative slack
    of the mean oracle *)
Record fkit (F : Type) := {
  fk_ops : NumOps F; fk_biteq : F -> F -> bool; fk_nan : F;
  fk_Q : F -> Q; fk_fin : F -> bool; fk_tol : Q
}.
Arguments fk_ops {F}. Arguments fk_biteq {F}. Arguments fk_nan {F}.
Arguments fk_Q {F}. Arguments fk_fin {F}. Arguments fk_tol {F}.
Definition kit64 : fkit float :=
  {| fk_ops := B64_ops; fk_biteq := f64_biteq; fk_nan := nan; fk_Q := f64_Q; fk_fin := f64_finite;
     fk_tol := 1 # 1099511627776 |}.                                    (* 2^-40 *)
Definition kit32 : fkit spec_float :=
  {| fk_ops := B32_ops; fk_biteq := b32_biteq; fk_nan := S754_nan; fk_Q := SF2Qd; fk_fin := sf_finite;
     fk_tol := 1 # 16384 |}.                                            (* 2^-14 *)
Definition B32L (l : list Z) : list spec_float := map b32_of_bits l.

(** a storage layout as the harness reads it off the ndarray view it built: offset of element (0, 0)
    in the memory-order buffer of the parent allocation and the two strides, in elements (for
    one-dimensional targets lv_s1 = 0), plus that whole buffer *)
Record lview := { lv_off : N; lv_s0 : Z; lv_s1 : Z }.
Record laycase := {
  lc_rv : lview; lc_rpar : list N;
  lc_tv : lview; lc_tpar : list N;
  (* iter_fold: None = panic, else the items / logical contents afterwards and both parent buffers afterwards *)
  lc_ifold : list (option (ifres * (list N * list N)));
  (* cross_validate (f64): outcome and, unless it panicked, both parent buffers afterwards *)
  lc_cv : list (cvcase float * option (list N * list N))
}.

Record case := {
  c_id : N;
  c_n : N; c_w : N;
  c_tdim : N;                            (* 0: one-dimensional targets; t > 0: two-dimensional with t columns *)
  c_k : N;
  c_recs : list N; c_tgts : list N;      (* row-major (logical) contents of the dataset before the calls *)
  c_fold : list (option (list foldpair));          (* one entry per storage layout tried; None = panic *)
  c_ifold : list (option ifres);
  c_chunks : list (N * option (list (arr * arr))); (* sample_chunks(size) *)
  c_cv : list (cvcase float);
  c_cv32 : list (cvcase spec_float);               (* f32 dataset, f32 scores *)
  c_lay : list laycase
}.

(** * helpers *)
(** run-length form in which the harness writes tag sequences: (start, length) runs of consecutive tags *)
Definition runs (l : list (N * N)) : list N :=
  flat_map (fun p => map (fun j => (fst p + N.of_nat j)%N) (seq 0 (N.to_nat (snd p)))) l.

(** compact constructors used by the generated case files *)
Definition A (r c : N) (d : list (N * N)) : arr := {| a_rows := r; a_cols := c; a_data := runs d |}.
Definition FP := Build_foldpair.
Definition II := Build_ifitem.
Arguments A (r c d)%N.

Definition rows_of (w : nat) (flat : list N) : list (list N) := chunks_aux (length flat) w flat.
Definition lN_eqb := list_eqb N.eqb.
Definition llN_eqb := list_eqb lN_eqb.
Definition arr_is (a : arr) (cols : nat) (data : list N) : bool :=
  N.eqb (a_cols a) (N.of_nat cols) && N.eqb (a_rows a * a_cols a) (N.of_nat (length data))
  && lN_eqb (a_data a) data.
Definition arr_rows (a : arr) : list (list N) := rows_of (N.to_nat (a_cols a)) (a_data a).
Definition arr_wf (a : arr) (cols : nat) : bool :=
  N.eqb (a_cols a) (N.of_nat cols) && N.eqb (a_rows a * a_cols a) (N.of_nat (length (a_data a))).
Definition lor_list (l : list N) : N := fold_left N.lor l 0%N.

Fixpoint remove1 {X} (eqX : X -> X -> bool) (x : X) (l : list X) : option (list X) :=
  match l with
  | [] => None
  | y :: r => if eqX x y then Some r else option_map (cons y) (remove1 eqX x r)
  end.
Fixpoint mset_eqb {X} (eqX : X -> X -> bool) (a b : list X) : bool :=
  match a with
  | [] => match b with [] => true | _ => false end
  | x :: a' => match remove1 eqX x b with None => false | Some b' => mset_eqb eqX a' b' end
  end.
Definition pair_eqb (p q : list N * list N) : bool := lN_eqb (fst p) (fst q) && lN_eqb (snd p) (snd q).

Fixpoint list_rel {X Y} (f : X -> Y -> bool) (a : list X) (b : list Y) : bool :=
  match a, b with
  | [], [] => true
  | x :: a', y :: b' => f x y && list_rel f a' b'
  | _, _ => false
  end.

Fixpoint forall_i {X} (f : nat -> X -> bool) (i : nat) (l : list X) : bool :=
  match l with [] => true | x :: r => f i x && forall_i f (S i) r end.

Section Case.
Variable c : case.
Let n := N.to_nat (c_n c).
Let w := N.to_nat (c_w c).
Let tw := if N.eqb (c_tdim c) 0 then 1%nat else N.to_nat (c_tdim c).
Let k := N.to_nat (c_k c).
Let fs := (n / k)%nat.
Let rrows := rows_of w (c_recs c).
Let trows := rows_of tw (c_tgts c).
Let in_domain := (2 <=? k)%nat && (k <=? n)%nat.
Let orig_pairs := combine rrows trows.

(** ** fold *)
Definition fold_expected : option (list (dataset (list N) (list N) * dataset (list N) (list N))) :=
  fold_model k (mkDs rrows trows).

Definition foldpair_is (p : foldpair) (m : dataset (list N) (list N) * dataset (list N) (list N)) : bool :=
  arr_is (fp_tr p) w (concat (ds_records (fst m))) && arr_is (fp_tt p) tw (concat (ds_targets (fst m)))
  && arr_is (fp_vr p) w (concat (ds_records (snd m))) && arr_is (fp_vt p) tw (concat (ds_targets (snd m)))
  && N.eqb (a_rows (fp_tr p)) (N.of_nat (length (ds_records (fst m))))
  && N.eqb (a_rows (fp_tt p)) (N.of_nat (length (ds_targets (fst m))))
  && N.eqb (a_rows (fp_vr p)) (N.of_nat (length (ds_records (snd m))))
  && N.eqb (a_rows (fp_vt p)) (N.of_nat (length (ds_targets (snd m)))).

Definition corr_fold (r : option (list foldpair)) : N :=
  match fold_expected, r with
  | Some ml, Some il => flag (list_rel foldpair_is il ml) 1
  | None, None => 0%N
  | Some _, None => if in_domain then 0%N else 1%N   (* a panic on a valid input is judged by the oracle *)
  | None, Some _ => 1%N
  end.

(** the four bullet points of the property, decided on the implementation's output *)
Definition valid_is_block (i : nat) (vr vt : arr) : bool :=
  arr_is vr w (concat (block fs i rrows)) && arr_is vt tw (concat (block fs i trows))
  && N.eqb (a_rows vr) (N.of_nat fs) && N.eqb (a_rows vt) (N.of_nat fs).
Definition split_is_partition (ar at_ vr vt : arr) : bool :=
  arr_wf ar w && arr_wf at_ tw && arr_wf vr w && arr_wf vt tw
  && N.eqb (a_rows ar) (a_rows at_) && N.eqb (a_rows vr) (a_rows vt)
  && mset_eqb pair_eqb (combine (arr_rows ar) (arr_rows at_) ++ combine (arr_rows vr) (arr_rows vt)) orig_pairs.

Definition oracle_fold (r : option (list foldpair)) : N :=
  if negb in_domain then 0%N else
  match r with
  | None => 1%N
  | Some il =>
      (flag (Nat.eqb (length il) k) 2
       + flag (forall_i (fun i p => valid_is_block i (fp_vr p) (fp_vt p)) 0 il) 4
       + flag (forallb (fun p => split_is_partition (fp_tr p) (fp_tt p) (fp_vr p) (fp_vt p)) il) 8)%N
  end.

(** ** iter_fold *)
Definition ifold_expected :=
  iter_fold_model (fun a : list N * list N => a) k n w tw (c_recs c) (c_tgts c).

Definition ifitem_is (it : ifitem) (m : (list N * list N) * (list N * list N)) : bool :=
  arr_is (ii_ar it) w (fst (fst m)) && arr_is (ii_at it) tw (snd (fst m))
  && arr_is (ii_vr it) w (fst (snd m)) && arr_is (ii_vt it) tw (snd (snd m)).

Definition corr_ifold (r : option ifres) : N :=
  match ifold_expected, r with
  | Some (items, (rb, tb)), Some ir =>
      (flag (list_rel ifitem_is (ir_items ir) items) 2
       + flag (lN_eqb (ir_rec ir) rb && lN_eqb (ir_tgt ir) tb) 4)%N
  | None, None => 0%N
  | Some _, None => if in_domain then 0%N else 2%N
  | None, Some _ => 2%N
  end.

Definition oracle_ifold (r : option ifres) : N :=
  if negb in_domain then 0%N else
  match r with
  | None => 16%N
  | Some ir =>
      (flag (Nat.eqb (length (ir_items ir)) k) 32
       + flag (forall_i (fun i it => valid_is_block i (ii_vr it) (ii_vt it)) 0 (ir_items ir)) 64
       + flag (forallb (fun it => split_is_partition (ii_ar it) (ii_at it) (ii_vr it) (ii_vt it)) (ir_items ir)) 128
       + flag (lN_eqb (ir_rec ir) (c_recs c) && lN_eqb (ir_tgt ir) (c_tgts c) && ir_outside_ok ir) 256)%N
  end.

(** ** sample_chunks *)
Definition chunk_is (p : arr * arr) (m : list N * list N) : bool :=
  arr_is (fst p) w (fst m) && arr_is (snd p) tw (snd m).
Definition corr_chunks (sz : N) (r : option (list (arr * arr))) : N :=
  match sample_chunks (N.to_nat sz) n w tw (c_recs c) (c_tgts c), r with
  | Some ml, Some il => flag (list_rel chunk_is il ml) 8
  | None, None => 0%N
  | _, _ => 8%N
  end.
Definition oracle_chunks (sz : N) (r : option (list (arr * arr))) : N :=
  let s := N.to_nat sz in
  if (s =? 0)%nat then 0%N else
  match r with
  | None => 1024%N
  | Some il =>
      flag (Nat.eqb (length il) (n / s)
            && forall_i (fun i p => arr_is (fst p) w (concat (block s i rrows))
                                    && arr_is (snd p) tw (concat (block s i trows))
                                    && N.eqb (a_rows (fst p)) sz && N.eqb (a_rows (snd p)) sz) 0 il) 1024
  end.

(** ** cross_validate with mock models (the same functions as in harness/src/bin/c01.rs) *)
Definition sumN (l : list N) : N := fold_left N.add l 0%N.
Definition mock_state (train : list N * list N) : N := (sumN (fst train) + 3 * sumN (snd train))%N.

Section Kit.
Context {F : Type} (kt : fkit F).
Let o := fk_ops kt.
Definition fN (x : N) : F := of_N o x.

Definition mock_fit (cv : cvcase F) (m : nat) (train : list N * list N) : N + (F * N) :=
  let s := mock_state train in
  match find (fun e => N.eqb (fst (fst e)) (N.of_nat m) && N.eqb (snd (fst e)) s) (cv_fail_fit cv) with
  | Some e => inl (snd e)
  | None => inr (nth m (cv_cm cv) (fk_nan kt), s)
  end.
Definition mock_predict (mdl : F * N) (vr : list N) : list (list F) :=
  map (fun row => let base := add o (mul o (fN (snd mdl)) (fst mdl)) (fN (hd 0%N row)) in
                  map (fun j => add o base (fN (N.of_nat (2 * j)))) (seq 0 tw))
      (rows_of w vr).
Definition mock_eval (cv : cvcase F) (pred : list (list F)) (vt : list N) : N + list F :=
  let p00 := nth 0 (nth 0 pred []) (fk_nan kt) in
  match find (fun e => fk_biteq kt (fst e) p00) (cv_fail_eval cv) with
  | Some e => inl (snd e)
  | None =>
      inr (map (fun j => fold_left (fun acc pr =>
                   add o acc (mul o (sub o (nth j (fst pr) (fk_nan kt)) (fN (nth j (snd pr) 0%N))) (cv_q cv)))
                   (combine pred (rows_of tw vt)) (zero o))
               (seq 0 tw))
  end.

Definition cv_expected (cv : cvcase F) :=
  cross_validate_model o (mock_fit cv) mock_predict (mock_eval cv)
                       k (length (cv_cm cv)) n w tw (c_recs c) (c_tgts c).

(** [expected]: the model's outcome and the logical contents of the dataset afterwards *)
Definition corr_cv_gen (expected : option ((N + list (list F)) * (list N * list N))) (cv : cvcase F) : N :=
  match expected, cv_out cv with
  | Some (inr sc, (rb, tb)), CvOk r cl d =>
      (flag (N.eqb r (N.of_nat (length sc)) && N.eqb cl (N.of_nat tw) && list_eqb (fk_biteq kt) d (concat sc)) 16
       + flag (lN_eqb (cv_rec cv) rb && lN_eqb (cv_tgt cv) tb) 64)%N
  | Some (inl e, (rb, tb)), CvErr e' =>
      (flag (N.eqb e e') 32 + flag (lN_eqb (cv_rec cv) rb && lN_eqb (cv_tgt cv) tb) 64)%N
  | None, CvPanic => 0%N
  | Some _, CvPanic => if in_domain then 0%N else 32%N
  | _, _ => 32%N
  end.
Definition corr_cv (cv : cvcase F) : N := corr_cv_gen (cv_expected cv) cv.

(** oracle: recompute every fold from the specification (compl / block), order-insensitively *)
Definition spec_state (i : nat) : N := mock_state (concat (compl fs i rrows), concat (compl fs i trows)).
Definition spec_score (cv : cvcase F) (i m : nat) : N + list F :=
  mock_eval cv (mock_predict (nth m (cv_cm cv) (fk_nan kt), spec_state i) (concat (block fs i rrows)))
            (concat (block fs i trows)).
Definition spec_failures (cv : cvcase F) : list N :=
  flat_map (fun i => flat_map (fun m =>
      match mock_fit cv m (concat (compl fs i rrows), concat (compl fs i trows)) with
      | inl e => [e]
      | inr _ => match spec_score cv i m with inl e => [e] | inr _ => [] end
      end) (seq 0 (length (cv_cm cv)))) (seq 0 k).
Definition score_or_nan (cv : cvcase F) (i m j : nat) : F :=
  match spec_score cv i m with inl _ => fk_nan kt | inr s => nth j s (fk_nan kt) end.
(** the evaluation values of parameter set m, target column j: one per fold *)
Definition fold_scores (cv : cvcase F) (m j : nat) : list F := map (fun i => score_or_nan cv i m j) (seq 0 k).

(** exact rational arithmetic on the values of the floats: all finite, and
    | x * #es - sum es | <= tol * sum |es|,  i.e.  | x - mean es | <= tol * mean |es| *)
Definition mean_close_q (es : list F) (x : F) : bool :=
  fk_fin kt x && forallb (fk_fin kt) es
  && Qleb (Qabs' (fk_Q kt x * inject_Z (Z.of_nat (length es)) - Qsum (map (fk_Q kt) es)))
          (fk_tol kt * Qsum (map (fun e => Qabs' (fk_Q kt e)) es)).

(** [panic_code]: what a panic is worth (0 where it is the documented behaviour);
    [restored]: whether everything the dataset points into is what it was before the call *)
Definition oracle_cv_gen (panic_code : N) (restored : bool) (cv : cvcase F) : N :=
  if negb in_domain then 0%N else
  let nm := length (cv_cm cv) in
  match cv_out cv with
  | CvPanic => panic_code
  | CvErr e => (flag (existsb (N.eqb e) (spec_failures cv)) 4096 + flag restored 8192)%N
  | CvOk r cl d =>
      (flag (match spec_failures cv with [] => true | _ => false end) 4096
       + flag (N.eqb r (N.of_nat nm) && N.eqb cl (N.of_nat tw) && Nat.eqb (length d) (nm * tw)
               && forall_i (fun idx x => mean_close_q (fold_scores cv (idx / tw) (idx mod tw)) x) 0 d) 2048
       + flag restored 8192)%N
  end.
Definition cv_restored (cv : cvcase F) : bool :=
  lN_eqb (cv_rec cv) (c_recs c) && lN_eqb (cv_tgt cv) (c_tgts c) && cv_outside_ok cv.
Definition oracle_cv (cv : cvcase F) : N := oracle_cv_gen 16384%N (cv_restored cv) cv.
End Kit.

(** ** storage layouts (iter_fold / cross_validate on views that are not standard row-major) *)
Definition lay_rv (lc : laycase) : view2 :=
  mkView (N.to_nat (lv_off (lc_rv lc))) n w (lv_s0 (lc_rv lc)) (lv_s1 (lc_rv lc)).
Definition lay_tv (lc : laycase) : view2 :=
  mkView (N.to_nat (lv_off (lc_tv lc))) n tw (lv_s0 (lc_tv lc)) (lv_s1 (lc_tv lc)).
Definition lay_std (lc : laycase) : bool := is_standard (lay_rv lc) && is_standard (lay_tv lc).
(** the description the harness reports really describes this case's dataset *)
Definition lay_wf (lc : laycase) : bool :=
  vw_inb (lay_rv lc) (length (lc_rpar lc)) && vw_inb (lay_tv lc) (length (lc_tpar lc))
  && lN_eqb (vw_logical 0%N (lay_rv lc) (lc_rpar lc)) (c_recs c)
  && lN_eqb (vw_logical 0%N (lay_tv lc) (lc_tpar lc)) (c_tgts c).

Definition corr_lay_ifold (lc : laycase) (r : option (ifres * (list N * list N))) : N :=
  match iter_fold_strided 0%N 0%N (fun a : list N * list N => a) k (lay_rv lc) (lay_tv lc) (lc_rpar lc) (lc_tpar lc), r with
  | Some (items, (rb, tb)), Some (ir, (pr, pt)) =>
      (flag (list_rel ifitem_is (ir_items ir) items) 2
       + flag (lN_eqb pr rb && lN_eqb pt tb && lN_eqb (ir_rec ir) (vw_logical 0%N (lay_rv lc) rb)
               && lN_eqb (ir_tgt ir) (vw_logical 0%N (lay_tv lc) tb)) 4)%N
  | None, None => 0%N
  | Some _, None => if in_domain then 0%N else 128%N   (* a panic on a valid input is judged by the oracle *)
  | None, Some _ => 128%N
  end.
Definition lay_ifres (lc : laycase) (r : ifres * (list N * list N)) : ifres :=
  {| ir_items := ir_items (fst r); ir_rec := ir_rec (fst r); ir_tgt := ir_tgt (fst r);
     ir_outside_ok := lN_eqb (fst (snd r)) (lc_rpar lc) && lN_eqb (snd (snd r)) (lc_tpar lc) |}.
(** a panic is fine exactly where it is documented (some array not in standard layout); whatever is
    returned instead of a panic has to be a correct k-fold iteration of the LOGICAL dataset that
    leaves both parent buffers as they were *)
Definition oracle_lay_ifold (lc : laycase) (r : option (ifres * (list N * list N))) : N :=
  match r with
  | None => if in_domain && lay_std lc then 16%N else 0%N
  | Some x => oracle_ifold (Some (lay_ifres lc x))
  end.

Definition corr_lay_cv (lc : laycase) (p : cvcase float * option (list N * list N)) : N :=
  let cv := fst p in
  let e := cross_validate_strided B64_ops 0%N 0%N (mock_fit kit64 cv) (mock_predict kit64) (mock_eval kit64 cv)
             k (length (cv_cm cv)) (lay_rv lc) (lay_tv lc) (lc_rpar lc) (lc_tpar lc) in
  (corr_cv_gen kit64 (option_map (fun x => (fst x, (vw_logical 0%N (lay_rv lc) (fst (snd x)),
                                                    vw_logical 0%N (lay_tv lc) (snd (snd x))))) e) cv
   + match e, snd p with
     | Some (_, (rb, tb)), Some (pr, pt) => flag (lN_eqb pr rb && lN_eqb pt tb) 64
     | _, _ => 0
     end)%N.
Definition oracle_lay_cv (lc : laycase) (p : cvcase float * option (list N * list N)) : N :=
  let cv := fst p in
  oracle_cv_gen kit64 (if lay_std lc then 16384%N else 0%N)
    (lN_eqb (cv_rec cv) (c_recs c) && lN_eqb (cv_tgt cv) (c_tgts c)
     && match snd p with Some (pr, pt) => lN_eqb pr (lc_rpar lc) && lN_eqb pt (lc_tpar lc) | None => false end) cv.

Definition corr_lay (lc : laycase) : N :=
  (flag (lay_wf lc) 256 + lor_list (map (corr_lay_ifold lc) (lc_ifold lc) ++ map (corr_lay_cv lc) (lc_cv lc)))%N.
Definition oracle_lay (lc : laycase) : N :=
  lor_list (map (oracle_lay_ifold lc) (lc_ifold lc) ++ map (oracle_lay_cv lc) (lc_cv lc)).

Definition run_case_body : N * N :=
  (lor_list (map corr_fold (c_fold c) ++ map corr_ifold (c_ifold c)
             ++ map (fun p => corr_chunks (fst p) (snd p)) (c_chunks c)
             ++ map (corr_cv kit64) (c_cv c) ++ map (corr_cv kit32) (c_cv32 c) ++ map corr_lay (c_lay c)),
   lor_list (map oracle_fold (c_fold c) ++ map oracle_ifold (c_ifold c)
             ++ map (fun p => oracle_chunks (fst p) (snd p)) (c_chunks c)
             ++ map (oracle_cv kit64) (c_cv c) ++ map (oracle_cv kit32) (c_cv32 c) ++ map oracle_lay (c_lay c))).
End Case.

Definition run_case (c : case) : verdict := (c_id c, run_case_body c).
Definition run_cases (cs : list case) : list N := report (map run_case cs).
