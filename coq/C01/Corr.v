(** C01 - correspondence (model vs implementation, exact) and property oracle (specification
    functions block / compl / mean evaluated on the implementation's outputs).
    Data are identity tags (small integers, exactly representable in the f64 the harness stores). *)
From Coq Require Import List Arith NArith ZArith Bool Floats.
From LinfaVerif Require Export Common.Num Common.Run C01.Model.
Import ListNotations.

(** an array as observed: shape and row-major data (one-dimensional targets: cols = 1) *)
Record arr := { a_rows : N; a_cols : N; a_data : list N }.

Record foldpair := { fp_tr : arr; fp_tt : arr; fp_vr : arr; fp_vt : arr }.
(** one item of iter_fold: the closure argument behind the returned object, and the validation view *)
Record ifitem := { ii_ar : arr; ii_at : arr; ii_vr : arr; ii_vt : arr }.
Record ifres := { ir_items : list ifitem; ir_rec : list N; ir_tgt : list N; ir_outside_ok : bool }.

Inductive cvout := CvOk (rows cols : N) (data : list float) | CvErr (id : N) | CvPanic.
Record cvcase := {
  cv_cm : list float;                    (* one constant per candidate model *)
  cv_q : float;
  cv_fail_fit : list (N * N * N);        (* (model, training state, error id): this fit fails *)
  cv_fail_eval : list (float * N);       (* (first predicted value, error id): this evaluation fails *)
  cv_out : cvout;
  cv_rec : list N; cv_tgt : list N; cv_outside_ok : bool   (* the dataset after the call *)
}.

Record case := {
  c_id : N;
  c_n : N; c_w : N;
  c_tdim : N;                            (* 0: one-dimensional targets; t > 0: two-dimensional with t columns *)
  c_k : N;
  c_recs : list N; c_tgts : list N;      (* row-major buffers of the dataset before the calls *)
  c_fold : list (option (list foldpair));          (* one entry per storage layout tried; None = panic *)
  c_ifold : list (option ifres);
  c_chunks : list (N * option (list (arr * arr))); (* sample_chunks(size) *)
  c_cv : list cvcase
}.

(** * helpers *)
(** run-length form in which the harness writes tag sequences: (start, length) runs of consecutive tags *)
Definition runs (l : list (N * N)) : list N :=
  flat_map (fun p => map (fun j => (fst p + N.of_nat j)%N) (seq 0 (N.to_nat (snd p)))) l.

(** compact constructors used by the generated case files *)
Definition A (r c : N) (d : list (N * N)) : arr := {| a_rows := r; a_cols := c; a_data := runs d |}.
Definition FP := Build_foldpair.
Definition II := Build_ifitem.
Arguments A (r c d)%N.

Definition rows_of (w : nat) (flat : list N) : list (list N) := chunks_aux (length flat) w flat.
Definition lN_eqb := list_eqb N.eqb.
Definition llN_eqb := list_eqb lN_eqb.
Definition arr_is (a : arr) (cols : nat) (data : list N) : bool :=
  N.eqb (a_cols a) (N.of_nat cols) && N.eqb (a_rows a * a_cols a) (N.of_nat (length data))
  && lN_eqb (a_data a) data.
Definition arr_rows (a : arr) : list (list N) := rows_of (N.to_nat (a_cols a)) (a_data a).
Definition arr_wf (a : arr) (cols : nat) : bool :=
  N.eqb (a_cols a) (N.of_nat cols) && N.eqb (a_rows a * a_cols a) (N.of_nat (length (a_data a))).
Definition lor_list (l : list N) : N := fold_left N.lor l 0%N.

Fixpoint remove1 {X} (eqX : X -> X -> bool) (x : X) (l : list X) : option (list X) :=
  match l with
  | [] => None
  | y :: r => if eqX x y then Some r else option_map (cons y) (remove1 eqX x r)
  end.
Fixpoint mset_eqb {X} (eqX : X -> X -> bool) (a b : list X) : bool :=
  match a with
  | [] => match b with [] => true | _ => false end
  | x :: a' => match remove1 eqX x b with None => false | Some b' => mset_eqb eqX a' b' end
  end.
Definition pair_eqb (p q : list N * list N) : bool := lN_eqb (fst p) (fst q) && lN_eqb (snd p) (snd q).

Fixpoint list_rel {X Y} (f : X -> Y -> bool) (a : list X) (b : list Y) : bool :=
  match a, b with
  | [], [] => true
  | x :: a', y :: b' => f x y && list_rel f a' b'
  | _, _ => false
  end.

Fixpoint forall_i {X} (f : nat -> X -> bool) (i : nat) (l : list X) : bool :=
  match l with [] => true | x :: r => f i x && forall_i f (S i) r end.

Section Case.
Variable c : case.
Let n := N.to_nat (c_n c).
Let w := N.to_nat (c_w c).
Let tw := if N.eqb (c_tdim c) 0 then 1%nat else N.to_nat (c_tdim c).
Let k := N.to_nat (c_k c).
Let fs := (n / k)%nat.
Let rrows := rows_of w (c_recs c).
Let trows := rows_of tw (c_tgts c).
Let in_domain := (2 <=? k)%nat && (k <=? n)%nat.
Let orig_pairs := combine rrows trows.

(** ** fold *)
Definition fold_expected : option (list (dataset (list N) (list N) * dataset (list N) (list N))) :=
  fold_model k (mkDs rrows trows).

Definition foldpair_is (p : foldpair) (m : dataset (list N) (list N) * dataset (list N) (list N)) : bool :=
  arr_is (fp_tr p) w (concat (ds_records (fst m))) && arr_is (fp_tt p) tw (concat (ds_targets (fst m)))
  && arr_is (fp_vr p) w (concat (ds_records (snd m))) && arr_is (fp_vt p) tw (concat (ds_targets (snd m)))
  && N.eqb (a_rows (fp_tr p)) (N.of_nat (length (ds_records (fst m))))
  && N.eqb (a_rows (fp_tt p)) (N.of_nat (length (ds_targets (fst m))))
  && N.eqb (a_rows (fp_vr p)) (N.of_nat (length (ds_records (snd m))))
  && N.eqb (a_rows (fp_vt p)) (N.of_nat (length (ds_targets (snd m)))).

Definition corr_fold (r : option (list foldpair)) : N :=
  match fold_expected, r with
  | Some ml, Some il => flag (list_rel foldpair_is il ml) 1
  | None, None => 0%N
  | Some _, None => if in_domain then 0%N else 1%N   (* a panic on a valid input is judged by the oracle *)
  | None, Some _ => 1%N
  end.

(** the four bullet points of the property, decided on the implementation's output *)
Definition valid_is_block (i : nat) (vr vt : arr) : bool :=
  arr_is vr w (concat (block fs i rrows)) && arr_is vt tw (concat (block fs i trows))
  && N.eqb (a_rows vr) (N.of_nat fs) && N.eqb (a_rows vt) (N.of_nat fs).
Definition split_is_partition (ar at_ vr vt : arr) : bool :=
  arr_wf ar w && arr_wf at_ tw && arr_wf vr w && arr_wf vt tw
  && N.eqb (a_rows ar) (a_rows at_) && N.eqb (a_rows vr) (a_rows vt)
  && mset_eqb pair_eqb (combine (arr_rows ar) (arr_rows at_) ++ combine (arr_rows vr) (arr_rows vt)) orig_pairs.

Definition oracle_fold (r : option (list foldpair)) : N :=
  if negb in_domain then 0%N else
  match r with
  | None => 1%N
  | Some il =>
      (flag (Nat.eqb (length il) k) 2
       + flag (forall_i (fun i p => valid_is_block i (fp_vr p) (fp_vt p)) 0 il) 4
       + flag (forallb (fun p => split_is_partition (fp_tr p) (fp_tt p) (fp_vr p) (fp_vt p)) il) 8)%N
  end.

(** ** iter_fold *)
Definition ifold_expected :=
  iter_fold_model (fun a : list N * list N => a) k n w tw (c_recs c) (c_tgts c).

Definition ifitem_is (it : ifitem) (m : (list N * list N) * (list N * list N)) : bool :=
  arr_is (ii_ar it) w (fst (fst m)) && arr_is (ii_at it) tw (snd (fst m))
  && arr_is (ii_vr it) w (fst (snd m)) && arr_is (ii_vt it) tw (snd (snd m)).

Definition corr_ifold (r : option ifres) : N :=
  match ifold_expected, r with
  | Some (items, (rb, tb)), Some ir =>
      (flag (list_rel ifitem_is (ir_items ir) items) 2
       + flag (lN_eqb (ir_rec ir) rb && lN_eqb (ir_tgt ir) tb) 4)%N
  | None, None => 0%N
  | Some _, None => if in_domain then 0%N else 2%N
  | None, Some _ => 2%N
  end.

Definition oracle_ifold (r : option ifres) : N :=
  if negb in_domain then 0%N else
  match r with
  | None => 16%N
  | Some ir =>
      (flag (Nat.eqb (length (ir_items ir)) k) 32
       + flag (forall_i (fun i it => valid_is_block i (ii_vr it) (ii_vt it)) 0 (ir_items ir)) 64
       + flag (forallb (fun it => split_is_partition (ii_ar it) (ii_at it) (ii_vr it) (ii_vt it)) (ir_items ir)) 128
       + flag (lN_eqb (ir_rec ir) (c_recs c) && lN_eqb (ir_tgt ir) (c_tgts c) && ir_outside_ok ir) 256)%N
  end.

(** ** sample_chunks *)
Definition chunk_is (p : arr * arr) (m : list N * list N) : bool :=
  arr_is (fst p) w (fst m) && arr_is (snd p) tw (snd m).
Definition corr_chunks (sz : N) (r : option (list (arr * arr))) : N :=
  match sample_chunks (N.to_nat sz) n w tw (c_recs c) (c_tgts c), r with
  | Some ml, Some il => flag (list_rel chunk_is il ml) 8
  | None, None => 0%N
  | _, _ => 8%N
  end.
Definition oracle_chunks (sz : N) (r : option (list (arr * arr))) : N :=
  let s := N.to_nat sz in
  if (s =? 0)%nat then 0%N else
  match r with
  | None => 1024%N
  | Some il =>
      flag (Nat.eqb (length il) (n / s)
            && forall_i (fun i p => arr_is (fst p) w (concat (block s i rrows))
                                    && arr_is (snd p) tw (concat (block s i trows))
                                    && N.eqb (a_rows (fst p)) sz && N.eqb (a_rows (snd p)) sz) 0 il) 1024
  end.

(** ** cross_validate with mock models (the same functions as in harness/src/bin/c01.rs) *)
Definition sumN (l : list N) : N := fold_left N.add l 0%N.
Definition mock_state (train : list N * list N) : N := (sumN (fst train) + 3 * sumN (snd train))%N.
Definition fN (x : N) : float := f64_of_N_small x.

Definition mock_fit (cv : cvcase) (m : nat) (train : list N * list N) : N + (float * N) :=
  let s := mock_state train in
  match find (fun e => N.eqb (fst (fst e)) (N.of_nat m) && N.eqb (snd (fst e)) s) (cv_fail_fit cv) with
  | Some e => inl (snd e)
  | None => inr (nth m (cv_cm cv) nan, s)
  end.
Definition mock_predict (mdl : float * N) (vr : list N) : list (list float) :=
  map (fun row => let base := PrimFloat.add (PrimFloat.mul (fN (snd mdl)) (fst mdl)) (fN (hd 0%N row)) in
                  map (fun j => PrimFloat.add base (fN (N.of_nat j))) (seq 0 tw))
      (rows_of w vr).
Definition mock_eval (cv : cvcase) (pred : list (list float)) (vt : list N) : N + list float :=
  let p00 := nth 0 (nth 0 pred []) nan in
  match find (fun e => f64_biteq (fst e) p00) (cv_fail_eval cv) with
  | Some e => inl (snd e)
  | None =>
      inr (map (fun j => fold_left (fun acc pr =>
                   PrimFloat.add acc (PrimFloat.mul (PrimFloat.sub (nth j (fst pr) nan) (fN (nth j (snd pr) 0%N))) (cv_q cv)))
                   (combine pred (rows_of tw vt)) 0%float)
               (seq 0 tw))
  end.

Definition cv_expected (cv : cvcase) :=
  cross_validate_model B64_ops (mock_fit cv) mock_predict (mock_eval cv)
                       k (length (cv_cm cv)) n w tw (c_recs c) (c_tgts c).

Definition corr_cv (cv : cvcase) : N :=
  match cv_expected cv, cv_out cv with
  | Some (inr sc, (rb, tb)), CvOk r cl d =>
      (flag (N.eqb r (N.of_nat (length sc)) && N.eqb cl (N.of_nat tw) && list_eqb f64_biteq d (concat sc)) 16
       + flag (lN_eqb (cv_rec cv) rb && lN_eqb (cv_tgt cv) tb) 64)%N
  | Some (inl e, (rb, tb)), CvErr e' =>
      (flag (N.eqb e e') 32 + flag (lN_eqb (cv_rec cv) rb && lN_eqb (cv_tgt cv) tb) 64)%N
  | None, CvPanic => 0%N
  | Some _, CvPanic => if in_domain then 0%N else 32%N
  | _, _ => 32%N
  end.

(** oracle: recompute every fold from the specification (compl / block), order-insensitively *)
Definition spec_state (i : nat) : N := mock_state (concat (compl fs i rrows), concat (compl fs i trows)).
Definition spec_score (cv : cvcase) (i m : nat) : N + list float :=
  mock_eval cv (mock_predict (nth m (cv_cm cv) nan, spec_state i) (concat (block fs i rrows)))
            (concat (block fs i trows)).
Definition spec_failures (cv : cvcase) : list N :=
  flat_map (fun i => flat_map (fun m =>
      match mock_fit cv m (concat (compl fs i rrows), concat (compl fs i trows)) with
      | inl e => [e]
      | inr _ => match spec_score cv i m with inl e => [e] | inr _ => [] end
      end) (seq 0 (length (cv_cm cv)))) (seq 0 k).
Definition score_or_nan (cv : cvcase) (i m j : nat) : float :=
  match spec_score cv i m with inl _ => nan | inr s => nth j s nan end.
Definition tol : float := 0x1p-40%float.
Definition mean_close (cv : cvcase) (m j : nat) (x : float) : bool :=
  let es := map (fun i => score_or_nan cv i m j) (seq 0 k) in
  let kk := fN (N.of_nat k) in
  let mean := PrimFloat.div (fold_left PrimFloat.add es 0%float) kk in
  let mag := PrimFloat.div (fold_left (fun a e => PrimFloat.add a (PrimFloat.abs e)) es 0%float) kk in
  PrimFloat.leb (PrimFloat.abs (PrimFloat.sub x mean)) (PrimFloat.add (PrimFloat.mul mag tol) 0x1p-1000%float).

Definition oracle_cv (cv : cvcase) : N :=
  if negb in_domain then 0%N else
  let nm := length (cv_cm cv) in
  let restored := lN_eqb (cv_rec cv) (c_recs c) && lN_eqb (cv_tgt cv) (c_tgts c) && cv_outside_ok cv in
  match cv_out cv with
  | CvPanic => 16384%N
  | CvErr e => (flag (existsb (N.eqb e) (spec_failures cv)) 4096 + flag restored 8192)%N
  | CvOk r cl d =>
      (flag (match spec_failures cv with [] => true | _ => false end) 4096
       + flag (N.eqb r (N.of_nat nm) && N.eqb cl (N.of_nat tw) && Nat.eqb (length d) (nm * tw)
               && forall_i (fun idx x => mean_close cv (idx / tw) (idx mod tw) x) 0 d) 2048
       + flag restored 8192)%N
  end.

Definition run_case_body : N * N :=
  (lor_list (map corr_fold (c_fold c) ++ map corr_ifold (c_ifold c)
             ++ map (fun p => corr_chunks (fst p) (snd p)) (c_chunks c) ++ map corr_cv (c_cv c)),
   lor_list (map oracle_fold (c_fold c) ++ map oracle_ifold (c_ifold c)
             ++ map (fun p => oracle_chunks (fst p) (snd p)) (c_chunks c) ++ map oracle_cv (c_cv c))).
End Case.

Definition run_case (c : case) : verdict := (c_id c, run_case_body c).
Definition run_cases (cs : list case) : list N := report (map run_case cs).
