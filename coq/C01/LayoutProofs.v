(** C01 - lemmas about storage layouts: for which (shape, strides) descriptions the flat-buffer model
    of `iter_fold` / `cross_validate` applies, and what happens otherwise. *)
From Coq Require Import List Arith NArith ZArith Bool Lia.
From LinfaVerif Require Import Common.Num C01.Model C01.Proofs.
Import ListNotations.

Section ReadWindow.
Context {A : Type}.
Variable d : A.

Lemma map_nth_firstn : forall (l : list A) m, m <= length l ->
  map (fun c => nth c l d) (seq 0 m) = firstn m l.
Proof.
  induction l as [|x l IH]; intros m Hm.
  - simpl in Hm. assert (m = 0) by lia. subst. reflexivity.
  - destruct m as [|m]; [reflexivity|]. cbn [seq map firstn nth]. f_equal.
    rewrite <- seq_shift, map_map. cbn [nth]. apply IH. simpl in Hm. lia.
Qed.

Lemma nth_skipn_add (a c : nat) (buf : list A) : nth (a + c) buf d = nth c (skipn a buf) d.
Proof.
  revert buf. induction a as [|a IH]; intros buf; [reflexivity|].
  destruct buf as [|x buf]; [now destruct c|]. simpl. apply IH.
Qed.

(** reading m consecutive cells from position a *)
Lemma read_run (a m : nat) (buf : list A) : a + m <= length buf ->
  map (fun c => nth (a + c) buf d) (seq 0 m) = firstn m (skipn a buf).
Proof.
  intros H. rewrite <- map_nth_firstn by (rewrite skipn_length; lia).
  apply map_ext. intros c. apply nth_skipn_add.
Qed.

(** reading rows of [cols] consecutive cells, one row after the other *)
Lemma read_rows (off cols : nat) (buf : list A) : forall rows, off + rows * cols <= length buf ->
  flat_map (fun r => map (fun c => nth (off + r * cols + c) buf d) (seq 0 cols)) (seq 0 rows)
  = firstn (rows * cols) (skipn off buf).
Proof.
  induction rows as [|rows IH]; intros H; [reflexivity|].
  rewrite seq_S, flat_map_app, IH by lia. cbn [flat_map]. rewrite app_nil_r.
  rewrite read_run by lia.
  replace (S rows * cols) with (rows * cols + cols) by lia.
  rewrite <- firstn_skipn_add, skipn_skipn_add. reflexivity.
Qed.
End ReadWindow.

(** in a standard layout element (r, c) lives at off + r*cols + c *)
Lemma standard_index (v : view2) (r c : nat) : is_standard v = true -> r < vw_rows v -> c < vw_cols v ->
  Z.to_nat (vw_index v r c) = vw_off v + r * vw_cols v + c.
Proof.
  unfold is_standard, vw_index. intros H Hr Hc.
  apply orb_true_iff in H as [H|H].
  { apply orb_true_iff in H as [H|H]; apply Nat.eqb_eq in H; lia. }
  apply andb_true_iff in H as [H1 H0].
  assert (E1 : (Z.of_nat c * vw_s1 v = Z.of_nat c)%Z).
  { apply orb_true_iff in H1 as [H1|H1].
    - apply Nat.eqb_eq in H1. assert (c = 0) by lia. subst c. reflexivity.
    - apply Z.eqb_eq in H1. rewrite H1. lia. }
  assert (E0 : (Z.of_nat r * vw_s0 v = Z.of_nat (r * vw_cols v))%Z).
  { apply orb_true_iff in H0 as [H0|H0].
    - apply Nat.eqb_eq in H0. assert (r = 0) by lia. subst r. reflexivity.
    - apply Z.eqb_eq in H0. rewrite H0. lia. }
  rewrite E1, E0. lia.
Qed.

Section Layout.
Context {A : Type}.
Variable d : A.

(** the logical contents of a standard-layout view are the window as_slice_mut() hands out *)
Lemma logical_standard (v : view2) (buf : list A) : is_standard v = true ->
  vw_off v + vw_rows v * vw_cols v <= length buf ->
  vw_logical d v buf = firstn (vw_rows v * vw_cols v) (skipn (vw_off v) buf).
Proof.
  intros Hs Hb. rewrite <- (read_rows d) by exact Hb. unfold vw_logical.
  rewrite !flat_map_concat_map. f_equal. apply map_ext_in. intros r Hr. apply in_seq in Hr.
  apply map_ext_in. intros c Hc. apply in_seq in Hc. f_equal. apply standard_index; auto; lia.
Qed.

Lemma as_slice_standard (v : view2) (buf : list A) : is_standard v = true ->
  vw_off v + vw_rows v * vw_cols v <= length buf ->
  as_slice v buf = Some (vw_logical d v buf) /\ length (vw_logical d v buf) = vw_rows v * vw_cols v.
Proof.
  intros Hs Hb. unfold as_slice. rewrite Hs, (logical_standard v buf Hs Hb). split; [reflexivity|].
  rewrite firstn_length, skipn_length. lia.
Qed.

Lemma as_slice_nonstandard (v : view2) (buf : list A) : is_standard v = false -> as_slice v buf = None.
Proof. intros Hs. unfold as_slice. now rewrite Hs. Qed.

(** writing the unchanged window back leaves the buffer as it was *)
Lemma write_back_same (v : view2) (buf : list A) :
  write_back v buf (firstn (vw_rows v * vw_cols v) (skipn (vw_off v) buf)) = buf.
Proof.
  unfold write_back. rewrite <- (skipn_skipn_add (vw_rows v * vw_cols v) (vw_off v) buf).
  now rewrite firstn_skipn, firstn_skipn.
Qed.

(** a write through the window never touches a cell outside it *)
Lemma write_back_outside (v : view2) (buf win : list A) (p : nat) :
  vw_off v + vw_rows v * vw_cols v <= length buf -> length win = vw_rows v * vw_cols v ->
  p < vw_off v \/ vw_off v + vw_rows v * vw_cols v <= p ->
  nth p (write_back v buf win) d = nth p buf d.
Proof.
  intros Hb Hw Hp. unfold write_back. destruct Hp as [Hp|Hp].
  - rewrite app_nth1 by (rewrite firstn_length; lia).
    rewrite <- (firstn_skipn (vw_off v) buf) at 2. rewrite app_nth1 by (rewrite firstn_length; lia). reflexivity.
  - rewrite app_nth2 by (rewrite firstn_length; lia). rewrite firstn_length, Nat.min_l by lia.
    rewrite app_nth2 by lia. rewrite Hw.
    rewrite <- (nth_skipn_add d). f_equal. lia.
Qed.
End Layout.

Section Guard.
Context {A B Obj : Type}.
Variable da : A.
Variable db : B.
Variable fit : list A * list B -> Obj.

(** standard layout of records AND targets: iter_fold on the strided description is the flat-buffer
    model applied to the logical contents, and both whole buffers (including every cell outside the
    two windows) are what they were *)
Theorem iter_fold_strided_standard (k : nat) (rv tv : view2) (rbuf : list A) (tbuf : list B) :
  1 <= k <= vw_rows rv -> vw_rows tv = vw_rows rv ->
  is_standard rv = true -> is_standard tv = true ->
  vw_off rv + vw_rows rv * vw_cols rv <= length rbuf ->
  vw_off tv + vw_rows tv * vw_cols tv <= length tbuf ->
  iter_fold_strided da db fit k rv tv rbuf tbuf =
  option_map (fun r => (fst r, (rbuf, tbuf)))
    (iter_fold_model fit k (vw_rows rv) (vw_cols rv) (vw_cols tv) (vw_logical da rv rbuf) (vw_logical db tv tbuf)).
Proof.
  intros [Hk Hn] Hrows Hsr Hst Hbr Hbt.
  destruct (as_slice_standard da rv rbuf Hsr Hbr) as [Er Lr].
  destruct (as_slice_standard db tv tbuf Hst Hbt) as [Et Lt].
  unfold iter_fold_strided, iter_fold_model. rewrite Er, Et.
  destruct (k =? 0) eqn:E0; [apply Nat.eqb_eq in E0; lia|].
  destruct (vw_rows rv <? k) eqn:E1; [apply Nat.ltb_lt in E1; lia|].
  set (n := vw_rows rv) in *. set (w := vw_cols rv) in *. set (t := vw_cols tv) in *.
  assert (Hle : k * (n / k) <= n) by (apply Nat.mul_div_le; lia).
  rewrite (iter_loop_spec fit k) by (rewrite ?Lr, ?Lt, ?Hrows; fold n; nia).
  assert (Wr : write_back rv rbuf (vw_logical da rv rbuf) = rbuf)
    by (rewrite (logical_standard da rv rbuf Hsr Hbr); apply write_back_same).
  assert (Wt : write_back tv tbuf (vw_logical db tv tbuf) = tbuf)
    by (rewrite (logical_standard db tv tbuf Hst Hbt); apply write_back_same).
  rewrite Wr, Wt.
  destruct (sample_chunks (n / k) n w t (vw_logical da rv rbuf) (vw_logical db tv tbuf)); reflexivity.
Qed.

(** anything else: the unwrap of as_slice_mut() panics before a single cell is moved *)
Theorem iter_fold_strided_nonstandard (k : nat) (rv tv : view2) (rbuf : list A) (tbuf : list B) :
  is_standard rv = false \/ is_standard tv = false ->
  iter_fold_strided da db fit k rv tv rbuf tbuf = None.
Proof.
  intros H. unfold iter_fold_strided.
  destruct (k =? 0); [reflexivity|]. destruct (vw_rows rv <? k); [reflexivity|].
  destruct H as [H|H].
  - now rewrite (as_slice_nonstandard rv rbuf H).
  - rewrite (as_slice_nonstandard tv tbuf H). now destruct (as_slice rv rbuf).
Qed.
End Guard.

Section GuardCV.
Context {F : Type} (o : NumOps F) {A B E M P : Type}.
Variable da : A.
Variable db : B.
Variable fit : nat -> list A * list B -> E + M.
Variable predict : M -> list A -> P.
Variable eval : P -> list B -> E + list F.

Theorem cv_strided_standard (k nmodels : nat) (rv tv : view2) (rbuf : list A) (tbuf : list B) :
  1 <= k <= vw_rows rv -> vw_rows tv = vw_rows rv ->
  is_standard rv = true -> is_standard tv = true ->
  vw_off rv + vw_rows rv * vw_cols rv <= length rbuf ->
  vw_off tv + vw_rows tv * vw_cols tv <= length tbuf ->
  cross_validate_strided o da db fit predict eval k nmodels rv tv rbuf tbuf =
  option_map (fun r => (fst r, (rbuf, tbuf)))
    (cross_validate_model o fit predict eval k nmodels (vw_rows rv) (vw_cols rv) (vw_cols tv)
       (vw_logical da rv rbuf) (vw_logical db tv tbuf)).
Proof.
  intros Hk Hrows Hsr Hst Hbr Hbt. unfold cross_validate_strided, cross_validate_model.
  rewrite (iter_fold_strided_standard da db _ k rv tv rbuf tbuf Hk Hrows Hsr Hst Hbr Hbt).
  destruct (iter_fold_model _ k _ _ _ _ _) as [[items fin]|]; reflexivity.
Qed.

Theorem cv_strided_nonstandard (k nmodels : nat) (rv tv : view2) (rbuf : list A) (tbuf : list B) :
  is_standard rv = false \/ is_standard tv = false ->
  cross_validate_strided o da db fit predict eval k nmodels rv tv rbuf tbuf = None.
Proof.
  intros H. unfold cross_validate_strided. now rewrite iter_fold_strided_nonstandard.
Qed.
End GuardCV.

(** the guard in one statement *)
Theorem iter_fold_guard {A B Obj : Type} (da : A) (db : B) (fit : list A * list B -> Obj)
    (k : nat) (rv tv : view2) (rbuf : list A) (tbuf : list B) :
  1 <= k <= vw_rows rv -> vw_rows tv = vw_rows rv ->
  (is_standard rv = true -> is_standard tv = true ->
   vw_off rv + vw_rows rv * vw_cols rv <= length rbuf -> vw_off tv + vw_rows tv * vw_cols tv <= length tbuf ->
   exists items,
     iter_fold_model fit k (vw_rows rv) (vw_cols rv) (vw_cols tv) (vw_logical da rv rbuf) (vw_logical db tv tbuf)
       = Some (items, (vw_logical da rv rbuf, vw_logical db tv tbuf)) /\
     length items = k /\
     iter_fold_strided da db fit k rv tv rbuf tbuf = Some (items, (rbuf, tbuf))) /\
  (is_standard rv = false \/ is_standard tv = false -> iter_fold_strided da db fit k rv tv rbuf tbuf = None).
Proof.
  intros Hk Hrows. split; [|apply iter_fold_strided_nonstandard].
  intros Hsr Hst Hbr Hbt.
  destruct (as_slice_standard da rv rbuf Hsr Hbr) as [_ Lr].
  destruct (as_slice_standard db tv tbuf Hst Hbt) as [_ Lt]. rewrite Hrows in Lt.
  pose proof (iter_fold_model_spec fit k _ _ _ _ _ Hk Lr Lt) as S.
  eexists. split; [exact S|]. split; [now rewrite map_length, seq_length|].
  rewrite (iter_fold_strided_standard da db fit k rv tv rbuf tbuf Hk Hrows Hsr Hst Hbr Hbt), S. reflexivity.
Qed.

(** * Non-vacuity and the silent misalignment that the guard prevents *)
(** a 3 x 2 record array [[1,2],[3,4],[5,6]] stored column-major: buffer 1 3 5 2 4 6, strides (1, 3) *)
Definition ex_fortran : view2 := mkView 0 3 2 1%Z 3%Z.
Definition ex_fbuf : list nat := [1; 3; 5; 2; 4; 6].
(** the same array as rows 1..3 of a 5 x 2 row-major parent: offset 2, strides (2, 1) *)
Definition ex_rowrange : view2 := mkView 2 3 2 2%Z 1%Z.
Definition ex_rbuf : list nat := [90; 91; 1; 2; 3; 4; 5; 6; 92; 93].
(** targets 10 20 30 stored with a gap after every element (stride 2) and contiguously *)
Definition ex_tstep : view2 := mkView 0 3 1 2%Z 0%Z.
Definition ex_tstd : view2 := mkView 0 3 1 1%Z 0%Z.

Example layouts_example :
  vw_logical 0 ex_fortran ex_fbuf = [1; 2; 3; 4; 5; 6] /\ is_standard ex_fortran = false /\
  vw_logical 0 ex_rowrange ex_rbuf = [1; 2; 3; 4; 5; 6] /\ is_standard ex_rowrange = true /\
  is_standard ex_tstep = false /\ is_standard ex_tstd = true /\
  (* a column vector stored column-major IS standard: the stride of a length-1 axis is ignored *)
  is_standard (mkView 0 3 1 1%Z 3%Z) = true /\
  (* reversed rows (negative stride) are not *)
  is_standard (mkView 4 3 2 (-2)%Z 1%Z) = false /\ vw_logical 0 (mkView 4 3 2 (-2)%Z 1%Z) [5; 6; 3; 4; 1; 2] = [1; 2; 3; 4; 5; 6].
Proof. repeat split; reflexivity. Qed.

Example iter_fold_strided_example :
  (* row range of a larger array: works, the cells around the window are untouched *)
  iter_fold_strided 0 0 (fun a : list nat * list nat => a) 3 ex_rowrange ex_tstd ex_rbuf [10; 20; 30]
  = Some ([(([3; 4; 5; 6], [20; 30]), ([1; 2], [10]));
           (([1; 2; 5; 6], [10; 30]), ([3; 4], [20]));
           (([3; 4; 1; 2], [20; 10]), ([5; 6], [30]))], (ex_rbuf, [10; 20; 30])) /\
  (* column-major records, or strided targets: panic *)
  iter_fold_strided 0 0 (fun a : list nat * list nat => a) 3 ex_fortran ex_tstd ex_fbuf [10; 20; 30] = None /\
  iter_fold_strided 0 0 (fun a : list nat * list nat => a) 3 ex_rowrange ex_tstep ex_rbuf [10; 0; 20; 0; 30] = None.
Proof. repeat split; reflexivity. Qed.

(** had the code taken the cells in memory order (as_slice_memory_order_mut accepts the column-major
    array), the swap macro would have run on 1 3 5 2 4 6 as if it were row-major: fold 1 would have
    been trained on "rows" (5,2),(1,3) - cells of different samples glued together *)
Example memory_order_misalignment :
  iter_fold_model (fun a : list nat * list nat => a) 3 3 2 1 (memory_order_slice ex_fortran ex_fbuf) [10; 20; 30]
  = Some ([(([5; 2; 4; 6], [20; 30]), ([1; 3], [10]));
           (([1; 3; 4; 6], [10; 30]), ([5; 2], [20]));
           (([5; 2; 1; 3], [20; 10]), ([4; 6], [30]))], ([1; 3; 5; 2; 4; 6], [10; 20; 30])).
Proof. reflexivity. Qed.
