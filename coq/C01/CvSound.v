(** C01 - soundness of the cross-validation part and of the storage-layout part of the property oracle
    of C01/Corr.v.  The mean comparison is done in exact rational arithmetic on the values of the floats
    (Common/QF.v); here it is given its meaning over R. *)
From Coq Require Import List Arith NArith ZArith QArith Qreals Reals Bool Lia Lra Floats SpecFloat.
From LinfaVerif Require Import Common.Num Common.Run Common.B32 Common.QF C01.Model C01.Corr C01.OracleSound.
Import ListNotations.
Local Close Scope Q_scope.
Local Close Scope R_scope.
Local Open Scope nat_scope.

Lemma Q2R_inject_nat (m : nat) : Q2R (inject_Z (Z.of_nat m)) = INR m.
Proof. unfold Q2R. simpl. rewrite INR_IZR_INZ. field. Qed.

Section MeanClose.
Context {F : Type} (kt : fkit F).

(** the real number a finite float stands for *)
Definition RQ (x : F) : R := Q2R (fk_Q kt x).

(** x is within the kit's relative slack of the arithmetic mean of es (relative to the mean magnitude) *)
Definition within_slack (es : list F) (x : F) : Prop :=
  fk_fin kt x = true /\ Forall (fun e => fk_fin kt e = true) es /\
  (Rabs (RQ x - Rsum (map RQ es) / INR (length es))
   <= Q2R (fk_tol kt) * (Rsum (map (fun e => Rabs (RQ e)) es) / INR (length es)))%R.

Lemma mean_close_q_sound (es : list F) (x : F) : es <> [] -> mean_close_q kt es x = true -> within_slack es x.
Proof.
  intros Hne H. unfold mean_close_q in H.
  apply andb_true_iff in H as [H H3]. apply andb_true_iff in H as [H1 H2].
  split; [exact H1|]. split; [apply Forall_forall; now apply forallb_forall|].
  apply Qleb_R in H3.
  rewrite Qabs'_R, Q2R_minus, Q2R_mult, Q2R_inject_nat, Q2R_mult, !Q2R_sum, !map_map in H3.
  rewrite (map_ext (fun e => Q2R (Qabs' (fk_Q kt e))) (fun e => Rabs (RQ e))) in H3
    by (intros e; apply Qabs'_R).
  fold RQ in H3. change (map (fun e => Q2R (fk_Q kt e)) es) with (map RQ es) in H3.
  set (K := INR (length es)) in *.
  assert (HK : (0 < K)%R).
  { unfold K. apply lt_0_INR. destruct es; [congruence | simpl; lia]. }
  set (S := Rsum (map RQ es)) in *. set (SA := Rsum (map (fun e => Rabs (RQ e)) es)) in *.
  replace (RQ x - S / K)%R with ((RQ x * K - S) * / K)%R by (field; lra).
  rewrite Rabs_mult, (Rabs_right (/ K)) by (left; now apply Rinv_0_lt_compat).
  unfold Rdiv. rewrite <- Rmult_assoc. apply Rmult_le_compat_r; [left; now apply Rinv_0_lt_compat | exact H3].
Qed.
End MeanClose.

Section CvSound.
Variable c : case.
Context {F : Type} (kt : fkit F).

(** what verdict 0 of the cross-validation oracle says about an observed outcome *)
Definition cv_outcome_ok (cv : cvcase F) : Prop :=
  match cv_out cv with
  | CvPanic => False
  | CvErr e => In e (spec_failures c kt cv)
  | CvOk r cl d =>
      spec_failures c kt cv = [] /\
      r = N.of_nat (length (cv_cm cv)) /\ cl = N.of_nat (case_tw c) /\ length d = length (cv_cm cv) * case_tw c /\
      forall m j, m < length (cv_cm cv) -> j < case_tw c ->
        length (fold_scores c kt cv m j) = case_k c /\
        within_slack kt (fold_scores c kt cv m j) (nth (m * case_tw c + j) d (fk_nan kt))
  end.

Lemma fold_scores_length cv m j : length (fold_scores c kt cv m j) = case_k c.
Proof. unfold fold_scores, case_k. now rewrite map_length, seq_length. Qed.

Lemma existsb_Neqb_In e l : existsb (N.eqb e) l = true -> In e l.
Proof. intros H. apply existsb_exists in H as [x [Hx E]]. apply N.eqb_eq in E. now subst. Qed.

Theorem oracle_cv_gen_sound (panic_code : N) (restored : bool) (cv : cvcase F) :
  case_in_domain c -> oracle_cv_gen c kt panic_code restored cv = 0%N ->
  match cv_out cv with
  | CvPanic => panic_code = 0%N
  | _ => cv_outcome_ok cv /\ restored = true
  end.
Proof.
  intros Hd H. unfold oracle_cv_gen in H. rewrite (domain_bool c Hd) in H.
  unfold cv_outcome_ok. destruct (cv_out cv) as [r cl d|e|].
  - apply N.eq_add_0 in H as [H H3]. apply N.eq_add_0 in H as [H1 H2].
    apply flag_zero in H1, H2, H3; try discriminate.
    split; [|exact H3]. split; [now destruct (spec_failures c kt cv)|].
    apply andb_true_iff in H2 as [H2 H7]. apply andb_true_iff in H2 as [H2 H6].
    apply andb_true_iff in H2 as [H4 H5]. apply N.eqb_eq in H4, H5. apply Nat.eqb_eq in H6.
    fold (case_tw c) in H5, H6, H7.
    split; [exact H4|]. split; [exact H5|]. split; [exact H6|].
    intros m j Hm Hj. split; [apply fold_scores_length|].
    assert (Hidx : m * case_tw c + j < length d) by (rewrite H6; nia).
    pose proof (forall_i_sound _ d 0 H7 (m * case_tw c + j) _ (nth_error_nth' d (fk_nan kt) Hidx)) as Hx.
    cbn beta in Hx. rewrite Nat.add_0_l in Hx.
    assert (Ediv : (m * case_tw c + j) / case_tw c = m)
      by (rewrite Nat.div_add_l, (Nat.div_small j), Nat.add_0_r by lia; reflexivity).
    assert (Emod : (m * case_tw c + j) mod case_tw c = j)
      by (rewrite (Nat.add_comm (m * case_tw c) j), Nat.mod_add, (Nat.mod_small j) by lia; reflexivity).
    rewrite Ediv, Emod in Hx. apply mean_close_q_sound; [|exact Hx].
    intros E. pose proof (fold_scores_length cv m j) as L. rewrite E in L. simpl in L.
    destruct Hd as [Hd _]. lia.
  - apply N.eq_add_0 in H as [H1 H2]. apply flag_zero in H1, H2; try discriminate.
    split; [now apply existsb_Neqb_In | exact H2].
  - exact H.
Qed.

Theorem oracle_cv_sound (cv : cvcase F) : case_in_domain c -> oracle_cv c kt cv = 0%N ->
  cv_outcome_ok cv /\ cv_rec cv = c_recs c /\ cv_tgt cv = c_tgts c /\ cv_outside_ok cv = true.
Proof.
  intros Hd H. unfold oracle_cv in H. pose proof (oracle_cv_gen_sound _ _ cv Hd H) as S.
  assert (G : cv_outcome_ok cv /\ cv_restored c cv = true).
  { unfold cv_outcome_ok in *. destruct (cv_out cv); try exact S. discriminate. }
  destruct G as [G1 G2]. split; [exact G1|]. unfold cv_restored in G2.
  apply andb_true_iff in G2 as [G2 G4]. apply andb_true_iff in G2 as [G2 G3].
  apply lN_eqb_eq in G2, G3. auto.
Qed.
End CvSound.

(** * storage layouts *)
Section LaySound.
Variable c : case.

(** iter_fold on a dataset described by (offset, strides, parent buffer): verdict 0 means that a panic
    happened only where some array is not in standard layout, and that anything returned is a correct
    k-fold iteration of the logical dataset with BOTH parent buffers bit for bit what they were *)
Theorem oracle_lay_ifold_sound (lc : laycase) (r : option (ifres * (list N * list N))) :
  case_in_domain c -> oracle_lay_ifold c lc r = 0%N ->
  match r with
  | None => lay_std c lc = false
  | Some (ir, (pr, pt)) =>
      length (ir_items ir) = case_k c /\
      (forall i it, nth_error (ir_items ir) i = Some it ->
         is_block_of_case c i (ii_vr it) (ii_vt it) /\
         is_partition_of_case c (ii_ar it) (ii_at it) (ii_vr it) (ii_vt it)) /\
      ir_rec ir = c_recs c /\ ir_tgt ir = c_tgts c /\ pr = lc_rpar lc /\ pt = lc_tpar lc
  end.
Proof.
  intros Hd H. unfold oracle_lay_ifold in H. destruct r as [[ir [pr pt]]|].
  - destruct (oracle_ifold_sound c _ Hd H) as [H1 [H2 [H3 [H4 H5]]]]. cbn in H1, H2, H3, H4, H5.
    apply andb_true_iff in H5 as [H5 H6]. apply lN_eqb_eq in H5, H6. auto 10.
  - pose proof (domain_bool c Hd) as B. apply negb_false_iff in B.
    fold (case_k c) in B. unfold case_k, case_n in B.
    destruct (lay_std c lc); [|reflexivity].
    change ((if ((2 <=? N.to_nat (c_k c)) && (N.to_nat (c_k c) <=? N.to_nat (c_n c))) && true then 16%N else 0%N) = 0%N) in H.
    rewrite B in H. discriminate.
Qed.

Theorem oracle_lay_cv_sound (lc : laycase) (cv : cvcase float) (after : option (list N * list N)) :
  case_in_domain c -> oracle_lay_cv c lc (cv, after) = 0%N ->
  match cv_out cv with
  | CvPanic => lay_std c lc = false
  | _ => cv_outcome_ok c kit64 cv /\ cv_rec cv = c_recs c /\ cv_tgt cv = c_tgts c /\
         after = Some (lc_rpar lc, lc_tpar lc)
  end.
Proof.
  intros Hd H. unfold oracle_lay_cv in H. cbn [fst snd] in H.
  pose proof (oracle_cv_gen_sound c kit64 _ _ cv Hd H) as S.
  assert (R : forall P : Prop, P /\ (lN_eqb (cv_rec cv) (c_recs c) && lN_eqb (cv_tgt cv) (c_tgts c)
            && match after with Some (pr, pt) => lN_eqb pr (lc_rpar lc) && lN_eqb pt (lc_tpar lc) | None => false end) = true ->
          P /\ cv_rec cv = c_recs c /\ cv_tgt cv = c_tgts c /\ after = Some (lc_rpar lc, lc_tpar lc)).
  { intros P [HP G]. split; [exact HP|].
    apply andb_true_iff in G as [G G3]. apply andb_true_iff in G as [G1 G2].
    apply lN_eqb_eq in G1, G2. destruct after as [[pr pt]|]; [|discriminate].
    apply andb_true_iff in G3 as [G3 G4]. apply lN_eqb_eq in G3, G4. subst. auto. }
  destruct (cv_out cv).
  - apply R. exact S.
  - apply R. exact S.
  - destruct (lay_std c lc); [discriminate | reflexivity].
Qed.
End LaySound.

(** * Non-vacuity: a 5-sample, 2-fold case with two candidate models; the scores below are what
      cross_validate_single returns for it (they are recomputed by the model in [cv_example]) *)
Definition ex_cv : cvcase float :=
  {| cv_cm := [0.5%float; 0.25%float]; cv_q := 0.5%float; cv_fail_fit := []; cv_fail_eval := [];
     cv_out := CvOk 2 1 [55%float; 22.5%float];
     cv_rec := (runs [(1, 5)])%N; cv_tgt := (runs [(11, 5)])%N; cv_outside_ok := true |}.
Example cv_example :
  case_in_domain ex_case /\ corr_cv ex_case kit64 ex_cv = 0%N /\ oracle_cv ex_case kit64 ex_cv = 0%N.
Proof. split; [unfold case_in_domain, case_k, case_n; simpl; lia|]. split; vm_compute; reflexivity. Qed.
(** the same scores shrunk by 4/5 (each fold weighted by its size and divided by n = 5 instead of k = 2)
    are rejected, and so is a result that is off in the 30th bit *)
Example cv_example_rejects :
  oracle_cv ex_case kit64 {| cv_cm := cv_cm ex_cv; cv_q := cv_q ex_cv; cv_fail_fit := []; cv_fail_eval := [];
     cv_out := CvOk 2 1 [44%float; 18%float];
     cv_rec := cv_rec ex_cv; cv_tgt := cv_tgt ex_cv; cv_outside_ok := true |} = 2048%N /\
  oracle_cv ex_case kit64 {| cv_cm := cv_cm ex_cv; cv_q := cv_q ex_cv; cv_fail_fit := []; cv_fail_eval := [];
     cv_out := CvOk 2 1 [0x1.b800000d6bf95p+5%float; 22.5%float];
     cv_rec := cv_rec ex_cv; cv_tgt := cv_tgt ex_cv; cv_outside_ok := true |} = 2048%N.
Proof. split; vm_compute; reflexivity. Qed.

(** binary32: a 3-sample, 3-fold case with two target columns and two candidate models, as returned by
    cross_validate on an f32 dataset (scores are f32 bit patterns) *)
Definition ex_case32 : case :=
  {| c_id := 0%N; c_n := 3%N; c_w := 1%N; c_tdim := 2%N; c_k := 3%N;
     c_recs := (runs [(1, 3)])%N; c_tgts := (runs [(509, 6)])%N;
     c_fold := []; c_ifold := []; c_chunks := []; c_cv := []; c_cv32 := []; c_lay := [] |}.
Definition ex_cv32_in : cvcase spec_float :=
  {| cv_cm := B32L [1055253695; 1058621043]%Z; cv_q := b32_of_bits 1065611210%Z; cv_fail_fit := []; cv_fail_eval := [];
     cv_out := CvPanic; cv_rec := (runs [(1, 3)])%N; cv_tgt := (runs [(509, 6)])%N; cv_outside_ok := true |}.
Definition ex_scores32 : list spec_float :=
  match cv_expected ex_case32 kit32 ex_cv32_in with Some (inr sc, _) => concat sc | _ => [] end.
Definition ex_cv32 : cvcase spec_float :=
  {| cv_cm := cv_cm ex_cv32_in; cv_q := cv_q ex_cv32_in; cv_fail_fit := []; cv_fail_eval := [];
     cv_out := CvOk 2 2 ex_scores32; cv_rec := cv_rec ex_cv32_in; cv_tgt := cv_tgt ex_cv32_in; cv_outside_ok := true |}.
Example cv32_example :
  case_in_domain ex_case32 /\ length ex_scores32 = 4 /\ forallb sf_finite ex_scores32 = true /\
  corr_cv ex_case32 kit32 ex_cv32 = 0%N /\ oracle_cv ex_case32 kit32 ex_cv32 = 0%N /\
  (* the score matrix transposed (columns differ) is rejected *)
  oracle_cv ex_case32 kit32
    {| cv_cm := cv_cm ex_cv32_in; cv_q := cv_q ex_cv32_in; cv_fail_fit := []; cv_fail_eval := [];
       cv_out := CvOk 2 2 (match ex_scores32 with [a; b; c0; d] => [a; c0; b; d] | l => l end);
       cv_rec := cv_rec ex_cv32_in; cv_tgt := cv_tgt ex_cv32_in; cv_outside_ok := true |} = 2048%N.
Proof. split; [unfold case_in_domain, case_k, case_n; simpl; lia|]. repeat split; vm_compute; reflexivity. Qed.

(** storage layouts: the dataset of [ex_case] (5 samples, 1 feature, 1-D targets, k = 2) with its records
    as a 5 x 1 COLUMN-MAJOR array (strides (1, 5): standard, the stride of the length-1 axis is ignored)
    and its targets as cells 2..6 of an 8-cell array; then with every second cell as targets *)
Definition ex_lay_std : laycase :=
  {| lc_rv := {| lv_off := 0; lv_s0 := 1; lv_s1 := 5 |}; lc_rpar := (runs [(1, 5)])%N;
     lc_tv := {| lv_off := 2; lv_s0 := 1; lv_s1 := 0 |}; lc_tpar := (runs [(7000000, 2); (11, 5); (7000007, 1)])%N;
     lc_ifold := [Some (ex_ifold, ((runs [(1, 5)])%N, (runs [(7000000, 2); (11, 5); (7000007, 1)])%N))];
     lc_cv := [] |}.
Definition ex_lay_step : laycase :=
  {| lc_rv := {| lv_off := 0; lv_s0 := 1; lv_s1 := 1 |}; lc_rpar := (runs [(1, 5)])%N;
     lc_tv := {| lv_off := 1; lv_s0 := 2; lv_s1 := 0 |};
     lc_tpar := [7000000; 11; 7000002; 12; 7000004; 13; 7000006; 14; 7000008; 15; 7000010]%N;
     lc_ifold := [None]; lc_cv := [] |}.
Example layout_example :
  lay_std ex_case ex_lay_std = true /\ corr_lay ex_case ex_lay_std = 0%N /\ oracle_lay ex_case ex_lay_std = 0%N /\
  lay_std ex_case ex_lay_step = false /\ corr_lay ex_case ex_lay_step = 0%N /\ oracle_lay ex_case ex_lay_step = 0%N /\
  (* a panic on the standard layout is rejected, and so is a result that moved a cell outside the window *)
  oracle_lay_ifold ex_case ex_lay_std None = 16%N /\
  oracle_lay_ifold ex_case ex_lay_std
    (Some (ex_ifold, ((runs [(1, 5)])%N, (runs [(7000001, 1); (7000000, 1); (11, 5); (7000007, 1)])%N))) = 256%N.
Proof. repeat split; vm_compute; reflexivity. Qed.

(** the silent misalignment of C01/LayoutProofs.v [memory_order_misalignment] (3 x 2 column-major records
    handed to the swap macro in memory order) as an observed output: rejected *)
Definition ex_case_f : case :=
  {| c_id := 0%N; c_n := 3%N; c_w := 2%N; c_tdim := 0%N; c_k := 3%N;
     c_recs := [1; 2; 3; 4; 5; 6]%N; c_tgts := [10; 20; 30]%N;
     c_fold := []; c_ifold := []; c_chunks := []; c_cv := []; c_cv32 := []; c_lay := [] |}.
Definition ex_lay_f : laycase :=
  {| lc_rv := {| lv_off := 0; lv_s0 := 1; lv_s1 := 3 |}; lc_rpar := [1; 3; 5; 2; 4; 6]%N;
     lc_tv := {| lv_off := 0; lv_s0 := 1; lv_s1 := 0 |}; lc_tpar := [10; 20; 30]%N; lc_ifold := []; lc_cv := [] |}.
Definition ex_misaligned : ifres :=
  {| ir_items := [II {| a_rows := 2; a_cols := 2; a_data := [5; 2; 4; 6]%N |} {| a_rows := 2; a_cols := 1; a_data := [20; 30]%N |}
                     {| a_rows := 1; a_cols := 2; a_data := [1; 3]%N |} {| a_rows := 1; a_cols := 1; a_data := [10]%N |};
                  II {| a_rows := 2; a_cols := 2; a_data := [1; 3; 4; 6]%N |} {| a_rows := 2; a_cols := 1; a_data := [10; 30]%N |}
                     {| a_rows := 1; a_cols := 2; a_data := [5; 2]%N |} {| a_rows := 1; a_cols := 1; a_data := [20]%N |};
                  II {| a_rows := 2; a_cols := 2; a_data := [5; 2; 1; 3]%N |} {| a_rows := 2; a_cols := 1; a_data := [20; 10]%N |}
                     {| a_rows := 1; a_cols := 2; a_data := [4; 6]%N |} {| a_rows := 1; a_cols := 1; a_data := [30]%N |}];
     ir_rec := [1; 2; 3; 4; 5; 6]%N; ir_tgt := [10; 20; 30]%N; ir_outside_ok := true |}.
Example misalignment_rejected :
  lay_wf ex_case_f ex_lay_f = true /\ lay_std ex_case_f ex_lay_f = false /\
  oracle_lay_ifold ex_case_f ex_lay_f None = 0%N /\
  oracle_lay_ifold ex_case_f ex_lay_f (Some (ex_misaligned, ([1; 3; 5; 2; 4; 6]%N, [10; 20; 30]%N))) = 192%N /\
  corr_lay_ifold ex_case_f ex_lay_f (Some (ex_misaligned, ([1; 3; 5; 2; 4; 6]%N, [10; 20; 30]%N))) = 128%N.
Proof. repeat split; vm_compute; reflexivity. Qed.
