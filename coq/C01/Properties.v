(** C01 - K-fold splitting partitions the samples and leaves the dataset intact.
    Property theorems only (proofs are in C01/Proofs.v).  The model is C01/Model.v:
    [fold_model] (DatasetBase::fold on rows), [swap_blocks] (assist_swap_array2!),
    [iter_fold_model] / [sample_chunks] (flat row-major buffers, widths w and t),
    [cross_validate_model] (any arithmetic [NumOps F], abstract fit / predict / eval returning E + _).
    n = number of samples, k = number of folds, n / k = floor(n/k) = fold size. *)
From Coq Require Import List Arith NArith ZArith QArith Qreals Lia Lra Permutation Reals Floats.

From LinfaVerif Require Import Common.Num Common.QF C01.Model C01.Proofs C01.LayoutProofs C01.Corr C01.OracleSound C01.CvSound.
Import ListNotations.
Local Close Scope Q_scope.
Local Close Scope R_scope.
Local Open Scope nat_scope.

(** ** fold *)

(** for every dataset and every 2 <= k <= n, `fold` returns (no panic) exactly k pairs *)
Theorem fold_shape : forall (Rc T : Type) (ds : dataset Rc T) (k n : nat),
  length (ds_records ds) = n -> length (ds_targets ds) = n -> 2 <= k <= n ->
  exists r, fold_model k ds = Some r /\ length r = k.
Proof.
  intros Rc T ds k n Hr Ht Hk. eexists. split; [apply (fold_model_spec k n ds Hr Ht Hk)|].
  now rewrite map_length, seq_length.
Qed.

(** the i-th validation part is exactly the i-th consecutive block of floor(n/k) samples
    (records and targets cut at the same rows) *)
Theorem fold_valid_is_block : forall (Rc T : Type) (ds : dataset Rc T) (k n : nat) r i,
  length (ds_records ds) = n -> length (ds_targets ds) = n -> 2 <= k <= n ->
  fold_model k ds = Some r -> i < k ->
  exists tr, nth_error r i = Some (tr, ds_block (n / k) i ds).
Proof. intros Rc T ds k n r i Hr Ht Hk H Hi. eexists. apply (fold_model_nth k n ds r i Hr Ht Hk H Hi). Qed.

(** the i-th training part is exactly the rows outside block i, in their original order *)
Theorem fold_train_is_complement : forall (Rc T : Type) (ds : dataset Rc T) (k n : nat) r i,
  length (ds_records ds) = n -> length (ds_targets ds) = n -> 2 <= k <= n ->
  fold_model k ds = Some r -> i < k ->
  exists va, nth_error r i = Some (ds_compl (n / k) i ds, va).
Proof. intros Rc T ds k n r i Hr Ht Hk H Hi. eexists. apply (fold_model_nth k n ds r i Hr Ht Hk H Hi). Qed.

(** every (training, validation) pair is a disjoint split whose union is the original multiset of
    (record, target) samples - every record stays with its own target - with floor(n/k) validation
    and n - floor(n/k) training samples *)
Theorem fold_is_partition : forall (Rc T : Type) (ds : dataset Rc T) (k n : nat) r i tr va,
  length (ds_records ds) = n -> length (ds_targets ds) = n -> 2 <= k <= n ->
  fold_model k ds = Some r -> nth_error r i = Some (tr, va) ->
  Permutation (ds_rows tr ++ ds_rows va) (ds_rows ds) /\
  length (ds_records va) = n / k /\ length (ds_targets va) = n / k /\
  length (ds_records tr) = n - n / k /\ length (ds_targets tr) = n - n / k.
Proof.
  intros Rc T ds k n r i tr va Hr Ht Hk H Hnth.
  assert (Hi : i < k).
  { rewrite <- (fold_model_length k n ds r Hr Ht Hk H). apply nth_error_Some. rewrite Hnth. discriminate. }
  rewrite (fold_model_nth k n ds r i Hr Ht Hk H Hi) in Hnth. inversion Hnth; subst tr va.
  pose proof (fold_block_bound k n i Hk Hi) as Hb.
  split; [apply ds_partition; congruence|].
  cbn [ds_block ds_compl ds_records ds_targets].
  rewrite !block_length, !compl_length by (rewrite ?Hr, ?Ht; exact Hb). rewrite Hr, Ht. auto.
Qed.

(** take the sample numbers 0 .. n-1 as records: each of the first k * floor(n/k) samples is in the
    validation part of exactly one fold ... *)
Theorem validated_exactly_once : forall (T : Type) (n k : nat) (tg : list T) r p,
  length tg = n -> 2 <= k <= n -> fold_model k (mkDs (seq 0 n) tg) = Some r -> p < k * (n / k) ->
  exists! j, j < k /\ exists tr va, nth_error r j = Some (tr, va) /\ In p (ds_records va).
Proof. exact (@validated_once). Qed.

(** ... and the remaining tail is in every training part and in no validation part *)
Theorem tail_training_only : forall (T : Type) (n k : nat) (tg : list T) r p j tr va,
  length tg = n -> 2 <= k <= n -> fold_model k (mkDs (seq 0 n) tg) = Some r ->
  k * (n / k) <= p < n -> nth_error r j = Some (tr, va) ->
  In p (ds_records tr) /\ ~ In p (ds_records va).
Proof. exact (@tail_training). Qed.

(** ** in-place iteration *)

(** the swap macro applied twice is the identity (whenever block i lies inside the buffer) *)
Theorem swap_blocks_involutive : forall (A : Type) (buf : list A) (i fs w : nat),
  (i + 1) * (fs * w) <= length buf ->
  exists buf1, swap_blocks buf i fs w = Some buf1 /\ swap_blocks buf1 i fs w = Some buf.
Proof.
  intros A buf i fs w H. destruct (swap_blocks_twice buf i fs w H) as [b1 [H1 [H2 _]]]. eauto.
Qed.

(** after iter_fold (1 <= k <= n, any widths, any closure) the dataset holds its original buffers,
    and k items are produced *)
Theorem iter_fold_restores : forall (A B Obj : Type) (fit : list A * list B -> Obj) (k n w t : nat) rb tb,
  1 <= k <= n -> length rb = n * w -> length tb = n * t ->
  exists items, iter_fold_model fit k n w t rb tb = Some (items, (rb, tb)) /\ length items = k.
Proof.
  intros A B Obj fit k n w t rb tb Hk Hr Ht. eexists. split; [apply (iter_fold_model_spec fit k n w t rb tb Hk Hr Ht)|].
  now rewrite map_length, seq_length.
Qed.

(** rows of width w (records) and t (targets): the closure of fold i is applied to the rows
    rows[fs, i*fs) ++ rows[0, fs) ++ rows[(i+1)*fs, n)  (fs = floor(n/k)) of records and of targets,
    and the i-th object is paired with validation block i of the restored dataset *)
Theorem iter_fold_train_arg : forall (A B Obj : Type) (fit : list A * list B -> Obj) (k n w t : nat)
    (rrows : list (list A)) (trows : list (list B)),
  1 <= k <= n -> length rrows = n -> length trows = n -> uniform w rrows -> uniform t trows ->
  iter_fold_model fit k n w t (concat rrows) (concat trows) =
  Some (map (fun i => (fit (concat (train_rows (n / k) i rrows), concat (train_rows (n / k) i trows)),
                       (concat (block (n / k) i rrows), concat (block (n / k) i trows)))) (seq 0 k),
        (concat rrows, concat trows)).
Proof. exact (@iter_fold_rows_spec). Qed.

(** that closure argument is a rearrangement of the complement of block i, and together with block i
    it is a rearrangement of all samples with every record next to its own target *)
Theorem iter_fold_arg_is_partition : forall (X Y : Type) (fs i : nat) (a : list X) (b : list Y),
  length a = length b ->
  Permutation (train_rows fs i a) (compl fs i a) /\
  Permutation (combine (train_rows fs i a) (train_rows fs i b) ++ combine (block fs i a) (block fs i b))
              (combine a b).
Proof. intros X Y fs i a b H. split; [apply train_rows_perm | now apply train_block_partition]. Qed.

(** sample_chunks (ChunksIter) yields the floor(n/size) consecutive blocks of [size] rows, records and
    targets cut at the same rows *)
Theorem sample_chunks_are_blocks : forall (A B : Type) (size n w t : nat) (rb : list A) (tb : list B),
  size > 0 ->
  sample_chunks size n w t rb tb =
  Some (map (fun i => (block (size * w) i rb, block (size * t) i tb)) (seq 0 (n / size))).
Proof. intros. now apply sample_chunks_spec. Qed.

(** the documented panics: k = 0 or k > n *)
Theorem iter_fold_rejects_bad_k : forall (A B Obj : Type) (fit : list A * list B -> Obj) (k n w t : nat) rb tb,
  k = 0 \/ n < k -> iter_fold_model fit k n w t rb tb = None.
Proof. intros. now apply iter_fold_bad_k. Qed.

(** ** cross-validation *)

(** closed form, any arithmetic: the result is the first error of the fold outcomes in fold order,
    else the accumulated scores divided by k; the dataset buffers are restored in both cases *)
Theorem cv_closed_form_and_restores : forall (F : Type) (o : NumOps F) (A B E M P : Type)
    (fit : nat -> list A * list B -> E + M) (predict : M -> list A -> P) (eval : P -> list B -> E + list F)
    (k nmodels n w t : nat) (rb : list A) (tb : list B),
  1 <= k <= n -> length rb = n * w -> length tb = n * t ->
  cross_validate_model o fit predict eval k nmodels n w t rb tb =
  Some (match collect (map (fold_outcome o fit predict eval k nmodels n w t rb tb) (seq 0 k)) with
        | inl e => inl e
        | inr fes => inr (mdiv o (fold_left (madd o) fes (zeros o nmodels t)) (of_N o (N.of_nat k)))
        end, (rb, tb)).
Proof. intros. now apply cv_closed_form. Qed.

(** a failing fit or evaluation surfaces as that error: the first fold (in fold order) whose outcome
    is an error determines the result; within a fold the first failing fit (parameter order) wins,
    and if all fits succeed the first failing evaluation (parameter order) *)
Theorem cv_error_order : forall (F : Type) (o : NumOps F) (A B E M P : Type)
    (fit : nat -> list A * list B -> E + M) (predict : M -> list A -> P) (eval : P -> list B -> E + list F)
    (k nmodels n w t : nat) (rb : list A) (tb : list B) (j : nat) (e : E),
  1 <= k <= n -> length rb = n * w -> length tb = n * t -> j < k ->
  (forall j', j' < j -> exists v, fold_outcome o fit predict eval k nmodels n w t rb tb j' = inr v) ->
  fold_outcome o fit predict eval k nmodels n w t rb tb j = inl e ->
  cross_validate_model o fit predict eval k nmodels n w t rb tb = Some (inl e, (rb, tb)).
Proof. intros. now apply cv_first_error with (j := j). Qed.

Theorem cv_fold_fit_error : forall (F : Type) (o : NumOps F) (A B E M P : Type)
    (fit : nat -> list A * list B -> E + M) (predict : M -> list A -> P) (eval : P -> list B -> E + list F)
    (k nmodels n w t : nat) (rb : list A) (tb : list B) (i m : nat) (e : E),
  m < nmodels ->
  (forall m', m' < m -> exists mdl, fit m' (train_rows (n / k * w) i rb, train_rows (n / k * t) i tb) = inr mdl) ->
  fit m (train_rows (n / k * w) i rb, train_rows (n / k * t) i tb) = inl e ->
  fold_outcome o fit predict eval k nmodels n w t rb tb i = inl e.
Proof. intros. now apply fold_outcome_fit_error with (m := m). Qed.

Theorem cv_fold_eval_error : forall (F : Type) (o : NumOps F) (A B E M P : Type)
    (fit : nat -> list A * list B -> E + M) (predict : M -> list A -> P) (eval : P -> list B -> E + list F)
    (k nmodels n w t : nat) (rb : list A) (tb : list B) (i m : nat) (e : E) (mdl : nat -> M),
  (forall m', m' < nmodels -> fit m' (train_rows (n / k * w) i rb, train_rows (n / k * t) i tb) = inr (mdl m')) ->
  m < nmodels ->
  (forall m', m' < m -> exists s, eval (predict (mdl m') (block (n / k * w) i rb)) (block (n / k * t) i tb) = inr s) ->
  eval (predict (mdl m) (block (n / k * w) i rb)) (block (n / k * t) i tb) = inl e ->
  fold_outcome o fit predict eval k nmodels n w t rb tb i = inl e.
Proof. intros. now apply fold_outcome_eval_error with (m := m) (mdl := mdl). Qed.

(** exact real arithmetic: when nothing fails, the score of parameter set m and target column c is
    the arithmetic mean over the k folds of eval(predict(fit_m(training view i), validation records i),
    validation targets i), the result has one row per parameter set and one column per target column,
    and the dataset buffers are restored *)
Theorem cv_is_mean : forall (A B E M P : Type)
    (fit : nat -> list A * list B -> E + M) (predict : M -> list A -> P) (eval : P -> list B -> E + list R)
    (k nmodels n w t : nat) (rb : list A) (tb : list B) (mdl : nat -> nat -> M) (sc : nat -> nat -> list R),
  1 <= k <= n -> length rb = n * w -> length tb = n * t ->
  (forall i m, i < k -> m < nmodels ->
     fit m (train_rows (n / k * w) i rb, train_rows (n / k * t) i tb) = inr (mdl i m)) ->
  (forall i m, i < k -> m < nmodels ->
     eval (predict (mdl i m) (block (n / k * w) i rb)) (block (n / k * t) i tb) = inr (sc i m) /\
     length (sc i m) = t) ->
  exists scores,
    cross_validate_model R_ops fit predict eval k nmodels n w t rb tb = Some (inr scores, (rb, tb)) /\
    shaped nmodels t scores /\
    forall m c, m < nmodels -> c < t ->
      mnth m c scores = (rsum (fun i => nth c (sc i m) 0%R) k / INR k)%R.
Proof. intros A B E M P fit predict eval. exact (cv_mean fit predict eval). Qed.

(** ** the finding about the fold size (F36, repaired by design-notes/fixes/C01_F36.diff) *)

(** before the repair the fold size was `targets.len() / k` - the number of target CELLS; with two
    target columns the chunk vector is too short and `fold` panics on a valid input ... *)
Theorem fold_len_based_refuted :
  exists (ds : dataset nat (list nat)) (k : nat),
    length (ds_records ds) = 6 /\ length (ds_targets ds) = 6 /\ 2 <= k <= 6 /\
    fold_model_len 2 k ds = None /\ exists r, fold_model k ds = Some r /\ length r = k.
Proof. exists ds6, 3. repeat split; try (simpl; lia). exact (proj2 (proj2 fold_len_based_panics)). Qed.

(** ... while for one-dimensional and single-column targets both computations agree *)
Theorem fold_len_based_outside_known : forall (Rc T : Type) (k : nat) (ds : dataset Rc T),
  fold_model_len 1 k ds = fold_model k ds.
Proof. intros. unfold fold_model_len, fold_model. now rewrite Nat.mul_1_r. Qed.

(** ** the property oracle run on the implementation's outputs (C01/Corr.v) is sound *)

(** verdict 0 of the fold oracle on an observed output [il] of `fold` for a case with 2 <= k <= n means:
    k pairs; the i-th validation part is block i of the case's dataset (data and shape); training part
    + validation part is a permutation of the case's (record row, target row) samples *)
Theorem fold_oracle_sound : forall (c : case) (il : list foldpair),
  case_in_domain c -> oracle_fold c (Some il) = 0%N ->
  length il = case_k c /\
  forall i p, nth_error il i = Some p ->
    is_block_of_case c i (fp_vr p) (fp_vt p) /\ is_partition_of_case c (fp_tr p) (fp_tt p) (fp_vr p) (fp_vt p).
Proof. exact oracle_fold_sound. Qed.

(** the same for iter_fold (closure argument + validation view), and the dataset is restored *)
Theorem iter_fold_oracle_sound : forall (c : case) (ir : ifres),
  case_in_domain c -> oracle_ifold c (Some ir) = 0%N ->
  length (ir_items ir) = case_k c /\
  (forall i it, nth_error (ir_items ir) i = Some it ->
     is_block_of_case c i (ii_vr it) (ii_vt it) /\
     is_partition_of_case c (ii_ar it) (ii_at it) (ii_vr it) (ii_vt it)) /\
  ir_rec ir = c_recs c /\ ir_tgt ir = c_tgts c /\ ir_outside_ok ir = true.
Proof. exact oracle_ifold_sound. Qed.

(** a panic on a valid input never gets verdict 0 *)
Theorem oracle_rejects_panic : forall c : case, case_in_domain c ->
  oracle_fold c None <> 0%N /\ oracle_ifold c None <> 0%N.
Proof. exact oracle_rejects_panics. Qed.

(** ** storage layouts *)

(** an array / view of shape (rows, cols) whose element (r, c) lives at off + r*s0 + c*s1 of a buffer:
    when ndarray's is_standard_layout test [is_standard] accepts it (every axis of length <> 1 has the
    row-major stride; empty arrays are accepted), the row-major logical contents ARE the rows*cols
    consecutive cells from off on - the slice as_slice_mut() hands to the swap macro *)
Theorem standard_layout_window : forall (A : Type) (d : A) (v : view2) (buf : list A),
  is_standard v = true -> vw_off v + vw_rows v * vw_cols v <= length buf ->
  vw_logical d v buf = firstn (vw_rows v * vw_cols v) (skipn (vw_off v) buf) /\
  as_slice v buf = Some (vw_logical d v buf).
Proof.
  intros A d v buf Hs Hb. split; [now apply logical_standard | apply (as_slice_standard d v buf Hs Hb)].
Qed.

(** for which layouts the flat-buffer model of iter_fold applies (1 <= k <= n, records and targets with
    the same number of rows): exactly when BOTH records and targets are in standard layout.  Then the
    items are those of [iter_fold_model] on the logical contents (to which all theorems above apply),
    k of them, and both whole parent buffers - the cells of the two windows and every cell around them -
    are what they were.  In every other layout (column-major, transposed, stepped or reversed rows,
    a column range of a wider array, ...) the call panics before a single cell is moved: there is no
    layout on which it silently works on misaligned cells. *)
Theorem iter_fold_layout_guard : forall (A B Obj : Type) (da : A) (db : B) (fit : list A * list B -> Obj)
    (k : nat) (rv tv : view2) (rbuf : list A) (tbuf : list B),
  1 <= k <= vw_rows rv -> vw_rows tv = vw_rows rv ->
  (is_standard rv = true -> is_standard tv = true ->
   vw_off rv + vw_rows rv * vw_cols rv <= length rbuf -> vw_off tv + vw_rows tv * vw_cols tv <= length tbuf ->
   exists items,
     iter_fold_model fit k (vw_rows rv) (vw_cols rv) (vw_cols tv) (vw_logical da rv rbuf) (vw_logical db tv tbuf)
       = Some (items, (vw_logical da rv rbuf, vw_logical db tv tbuf)) /\
     length items = k /\
     iter_fold_strided da db fit k rv tv rbuf tbuf = Some (items, (rbuf, tbuf))) /\
  (is_standard rv = false \/ is_standard tv = false -> iter_fold_strided da db fit k rv tv rbuf tbuf = None).
Proof. intros. now apply iter_fold_guard. Qed.

(** a write through the window of a standard-layout view never reaches a cell outside the window *)
Theorem window_write_stays_inside : forall (A : Type) (d : A) (v : view2) (buf win : list A) (p : nat),
  vw_off v + vw_rows v * vw_cols v <= length buf -> length win = vw_rows v * vw_cols v ->
  p < vw_off v \/ vw_off v + vw_rows v * vw_cols v <= p ->
  nth p (write_back v buf win) d = nth p buf d.
Proof. intros. now apply write_back_outside. Qed.

(** the same guard for cross_validate (any arithmetic, any fit / predict / eval) *)
Theorem cross_validate_layout_guard : forall (F : Type) (o : NumOps F) (A B E M P : Type) (da : A) (db : B)
    (fit : nat -> list A * list B -> E + M) (predict : M -> list A -> P) (eval : P -> list B -> E + list F)
    (k nmodels : nat) (rv tv : view2) (rbuf : list A) (tbuf : list B),
  (1 <= k <= vw_rows rv -> vw_rows tv = vw_rows rv ->
   is_standard rv = true -> is_standard tv = true ->
   vw_off rv + vw_rows rv * vw_cols rv <= length rbuf -> vw_off tv + vw_rows tv * vw_cols tv <= length tbuf ->
   cross_validate_strided o da db fit predict eval k nmodels rv tv rbuf tbuf =
   option_map (fun r => (fst r, (rbuf, tbuf)))
     (cross_validate_model o fit predict eval k nmodels (vw_rows rv) (vw_cols rv) (vw_cols tv)
        (vw_logical da rv rbuf) (vw_logical db tv tbuf))) /\
  (is_standard rv = false \/ is_standard tv = false ->
   cross_validate_strided o da db fit predict eval k nmodels rv tv rbuf tbuf = None).
Proof.
  intros. split; [intros; now apply cv_strided_standard | intros; now apply cv_strided_nonstandard].
Qed.

(** the layout part of the oracle: verdict 0 on an observed iter_fold outcome for a dataset given by
    (offset, strides, parent buffer) means - no result: some array is not in standard layout (the
    documented panic); a result: k items, validation views = blocks of the logical dataset, closure
    argument + validation view = the samples with records attached to targets, logical contents and
    both parent buffers unchanged.  A silently misaligned result is therefore never accepted. *)
Theorem layout_oracle_sound : forall (c : case) (lc : laycase) (r : option (ifres * (list N * list N))),
  case_in_domain c -> oracle_lay_ifold c lc r = 0%N ->
  match r with
  | None => lay_std c lc = false
  | Some (ir, (pr, pt)) =>
      length (ir_items ir) = case_k c /\
      (forall i it, nth_error (ir_items ir) i = Some it ->
         is_block_of_case c i (ii_vr it) (ii_vt it) /\
         is_partition_of_case c (ii_ar it) (ii_at it) (ii_vr it) (ii_vt it)) /\
      ir_rec ir = c_recs c /\ ir_tgt ir = c_tgts c /\ pr = lc_rpar lc /\ pt = lc_tpar lc
  end.
Proof. exact oracle_lay_ifold_sound. Qed.

(** ** the cross-validation part of the oracle is sound *)

(** [kt] is the float kit (binary64: kit64 with slack 2^-40, binary32: kit32 with slack 2^-14), RQ kt x
    the real number the finite float x stands for (exact rational value, Common/QF.v).  Verdict 0 on an
    observed outcome of cross_validate / cross_validate_single for a case with 2 <= k <= n means:
    - it did not panic;
    - an error: it is the error of one of the failing fits / evaluations of the k folds (computed from the
      specification: fit on the complement of block i, evaluate on block i);
    - scores: nothing fails, one row per parameter set and one column per target column, and EVERY
      reported score x (parameter set m, column j) is a finite float with
        | x - (e_0 + ... + e_{k-1}) / k |  <=  slack * (|e_0| + ... + |e_{k-1}|) / k     over R,
      where e_i is the (finite) value the evaluation closure yields for fold i: the arithmetic mean
      over the k folds of the evaluation values;
    - the dataset holds its original contents afterwards. *)
Theorem cv_oracle_sound : forall (c : case) (F : Type) (kt : fkit F) (cv : cvcase F),
  case_in_domain c -> oracle_cv c kt cv = 0%N ->
  match cv_out cv with
  | CvPanic => False
  | CvErr e => In e (spec_failures c kt cv)
  | CvOk r cl d =>
      spec_failures c kt cv = [] /\
      r = N.of_nat (length (cv_cm cv)) /\ cl = N.of_nat (case_tw c) /\ length d = length (cv_cm cv) * case_tw c /\
      forall m j, m < length (cv_cm cv) -> j < case_tw c ->
        let es := fold_scores c kt cv m j in
        let x := nth (m * case_tw c + j) d (fk_nan kt) in
        length es = case_k c /\ fk_fin kt x = true /\ Forall (fun e => fk_fin kt e = true) es /\
        (Rabs (RQ kt x - Rsum (map (RQ kt) es) / INR (length es))
         <= Q2R (fk_tol kt) * (Rsum (map (fun e => Rabs (RQ kt e)) es) / INR (length es)))%R
  end /\ cv_rec cv = c_recs c /\ cv_tgt cv = c_tgts c /\ cv_outside_ok cv = true.
Proof. intros c F kt cv Hd H. exact (oracle_cv_sound c kt cv Hd H). Qed.

(** the slacks: 2^-40 for f64 scores, 2^-14 for f32 scores *)
Theorem cv_oracle_slack :
  Q2R (fk_tol kit64) = (/ 1099511627776)%R /\ Q2R (fk_tol kit32) = (/ 16384)%R.
Proof. split; unfold Q2R; simpl; lra. Qed.

(** the same under a storage layout: a panic is accepted only where some array is not in standard
    layout; any other outcome is judged as above and both parent buffers must be unchanged *)
Theorem cv_layout_oracle_sound : forall (c : case) (lc : laycase) (cv : cvcase float) (after : option (list N * list N)),
  case_in_domain c -> oracle_lay_cv c lc (cv, after) = 0%N ->
  match cv_out cv with
  | CvPanic => lay_std c lc = false
  | _ => cv_outcome_ok c kit64 cv /\ cv_rec cv = c_recs c /\ cv_tgt cv = c_tgts c /\
         after = Some (lc_rpar lc, lc_tpar lc)
  end.
Proof. exact oracle_lay_cv_sound. Qed.
