(** C01 - executable model of k-fold splitting in linfa (src/dataset/impl_dataset.rs:
    DatasetBase::fold, assist_swap_array2!, DatasetBase::iter_fold, sample_chunks,
    cross_validate / cross_validate_single; src/dataset/iter.rs: ChunksIter).
    Definitions only.  [None] stands for a panic of the Rust code.

    Three levels, as in the code:
    - `fold` works on ndarray values (chunk views, concatenate, Vec::swap): modelled on lists of rows;
    - `iter_fold` works on the flat row-major buffers of records and targets (different widths):
      modelled on flat lists, with the widths as parameters;
    - which arrays HAVE such a flat buffer (`as_slice_mut()` = ndarray's is_standard_layout test on
      shape and strides) is the last part: (offset, strides) descriptions over a parent buffer,
      `iter_fold_strided` / `cross_validate_strided`. *)
From Coq Require Import List Arith NArith ZArith Bool.
From LinfaVerif Require Import Common.Num.
Import ListNotations.

(** * Specification vocabulary: consecutive blocks and their complements *)
Section Spec.
Context {A : Type}.
(** rows [i*fs, (i+1)*fs) *)
Definition block (fs i : nat) (l : list A) : list A := firstn fs (skipn (i * fs) l).
(** all rows outside block i, order kept *)
Definition compl (fs i : nat) (l : list A) : list A := firstn (i * fs) l ++ skipn ((i + 1) * fs) l.
(** rows [r0, r1) of a row-major buffer of width w *)
Definition slice_rows (w r0 r1 : nat) (buf : list A) : list A := firstn ((r1 - r0) * w) (skipn (r0 * w) buf).
(** what the fit closure of iter_fold sees for fold i (row level):
    rows[fs, i*fs) ++ rows[0, fs) ++ rows[(i+1)*fs, n) *)
Definition train_rows (fs i : nat) (l : list A) : list A :=
  match i with
  | O => skipn fs l
  | S j => firstn (j * fs) (skipn fs l) ++ firstn fs l ++ skipn ((i + 1) * fs) l
  end.
End Spec.

(** * ndarray / Vec primitives used by `fold` *)
Section Arrays.
Context {A : Type}.

(** axis_chunks_iter(Axis(0), size): consecutive chunks of [size] rows, the last one shorter when
    size does not divide the length; no chunk for an empty axis; panics for size = 0 *)
Fixpoint chunks_aux (fuel size : nat) (l : list A) : list (list A) :=
  match fuel with
  | O => []
  | S f => match l with
           | [] => []
           | _ :: _ => firstn size l :: chunks_aux f size (skipn size l)
           end
  end.
Definition axis_chunks (size : nat) (l : list A) : option (list (list A)) :=
  if size =? 0 then None else Some (chunks_aux (length l) size l).

(** Vec::swap(0, j): panics when an index is out of bounds *)
Definition vec_swap0 {B : Type} (v : list B) (j : nat) : option (list B) :=
  match v, j with
  | [], _ => None
  | _ :: _, O => Some v
  | x :: t, S j' => match nth_error t j' with
                    | Some y => Some (y :: firstn j' t ++ x :: skipn (S j') t)
                    | None => None
                    end
  end.

(** concatenate(Axis(0), arrays).unwrap(): Err (hence a panic) for an empty list of arrays *)
Definition concatenate (arrs : list (list A)) : option (list A) :=
  match arrs with [] => None | _ :: _ => Some (concat arrs) end.

(** the `for i in 0..k` loop of `fold` on one array: [steps] iterations are left, [i] is the loop
    variable, [ch] the current chunk vector.  Each iteration yields (training, validation). *)
Fixpoint fold_loop (steps i k : nat) (ch : list (list A)) : option (list (list A * list A)) :=
  match steps with
  | O => Some []
  | S s =>
      match ch with
      | [] => None                                  (* chunks[1..] / chunks[0]: out of range *)
      | c0 :: rest =>
          match concatenate rest with
          | None => None
          | Some remaining =>
              match (if i <? k - 1 then vec_swap0 ch (i + 1) else Some ch) with
              | None => None
              | Some ch' =>
                  match fold_loop s (S i) k ch' with
                  | None => None
                  | Some r => Some ((remaining, c0) :: r)
                  end
              end
          end
      end
  end.

Definition fold_array (k fs : nat) (l : list A) : option (list (list A * list A)) :=
  match axis_chunks fs l with
  | None => None
  | Some ch => fold_loop k 0 k ch
  end.

(** assist_swap_array2!(slice, index, fold_size, features): exchange slice[0 .. fs*w) with
    slice[index*fs*w .. (index+1)*fs*w); nothing for index 0; split_at_mut / range panics otherwise *)
Definition swap_blocks (buf : list A) (i fs w : nat) : option (list A) :=
  if i =? 0 then Some buf else
  let adj := fs * w in
  let start := adj * i in
  if length buf <? start then None else
  let first_s := firstn start buf in
  let second_s := skipn start buf in
  if length second_s <? adj then None else
  let fold := firstn adj second_s in
  let rest := skipn adj second_s in
  if length first_s <? adj then None else
  Some (fold ++ skipn adj first_s ++ firstn adj first_s ++ rest).
End Arrays.

(** * Datasets as rows: `fold` *)
Record dataset (R T : Type) := mkDs { ds_records : list R; ds_targets : list T }.
Arguments mkDs {R T}. Arguments ds_records {R T}. Arguments ds_targets {R T}.

(** specification side at the dataset level *)
Section DsSpec.
Context {R T : Type}.
(** the samples of a dataset: each record with its own target *)
Definition ds_rows (ds : dataset R T) : list (R * T) := combine (ds_records ds) (ds_targets ds).
Definition ds_block (fs i : nat) (ds : dataset R T) : dataset R T :=
  mkDs (block fs i (ds_records ds)) (block fs i (ds_targets ds)).
Definition ds_compl (fs i : nat) (ds : dataset R T) : dataset R T :=
  mkDs (compl fs i (ds_records ds)) (compl fs i (ds_targets ds)).
End DsSpec.

Section Fold.
Context {R T : Type}.

Definition zip_folds (a : list (list R * list R)) (b : list (list T * list T))
  : list (dataset R T * dataset R T) :=
  map (fun p => (mkDs (fst (fst p)) (fst (snd p)), mkDs (snd (fst p)) (snd (snd p)))) (combine a b).

(** DatasetBase::fold with the fold size computed from the number of target ROWS
    (the behaviour after the repair proposed in design-notes/fixes/C01_F36.diff) *)
Definition fold_model (k : nat) (ds : dataset R T) : option (list (dataset R T * dataset R T)) :=
  if k =? 0 then None else                        (* division by zero *)
  let fs := length (ds_targets ds) / k in
  match fold_array k fs (ds_records ds), fold_array k fs (ds_targets ds) with
  | Some a, Some b => Some (zip_folds a b)
  | _, _ => None
  end.

(** the code before that repair: `targets.len() / k`, and `len()` of a 2-D target array with
    [tcols] columns is the number of ELEMENTS (rows * tcols) *)
Definition fold_model_len (tcols k : nat) (ds : dataset R T) : option (list (dataset R T * dataset R T)) :=
  if k =? 0 then None else
  let fs := (length (ds_targets ds) * tcols) / k in
  match fold_array k fs (ds_records ds), fold_array k fs (ds_targets ds) with
  | Some a, Some b => Some (zip_folds a b)
  | _, _ => None
  end.
End Fold.

(** * Flat buffers: `iter_fold`, `sample_chunks` *)
Section IterFold.
Context {A B Obj : Type}.
(** the fit closure, applied to the flat training buffers (records of (n-fs) x w, targets of (n-fs) x t) *)
Variable fit_closure : list A * list B -> Obj.

Fixpoint iter_loop (steps i fs w t : nat) (rb : list A) (tb : list B)
  : option (list Obj * (list A * list B)) :=
  match steps with
  | O => Some ([], (rb, tb))
  | S s =>
      match swap_blocks rb i fs w with None => None | Some rb1 =>
      match swap_blocks tb i fs t with None => None | Some tb1 =>
        let obj := fit_closure (skipn (fs * w) rb1, skipn (fs * t) tb1) in
        match swap_blocks rb1 i fs w with None => None | Some rb2 =>
        match swap_blocks tb1 i fs t with None => None | Some tb2 =>
          match iter_loop s (S i) fs w t rb2 tb2 with
          | None => None
          | Some (objs, fin) => Some (obj :: objs, fin)
          end
        end end
      end end
  end.

(** sample_chunks(size) = ChunksIter: n / size consecutive blocks of [size] rows (division by zero
    panics for size 0) *)
Definition sample_chunks (size n w t : nat) (rb : list A) (tb : list B) : option (list (list A * list B)) :=
  if size =? 0 then None else
  Some (map (fun idx => (slice_rows w (idx * size) ((idx + 1) * size) rb,
                         slice_rows t (idx * size) ((idx + 1) * size) tb))
            (seq 0 (n / size))).

(** iter_fold: the items of the returned iterator and the buffers the dataset holds afterwards *)
Definition iter_fold_model (k n w t : nat) (rb : list A) (tb : list B)
  : option (list (Obj * (list A * list B)) * (list A * list B)) :=
  if k =? 0 then None else if n <? k then None else      (* the two assertions *)
  let fs := n / k in
  match iter_loop k 0 fs w t rb tb with
  | None => None
  | Some (objs, (rb', tb')) =>
      match sample_chunks fs n w t rb' tb' with
      | None => None
      | Some vs => Some (combine objs vs, (rb', tb'))
      end
  end.
End IterFold.

(** * cross_validate *)
Section CV.
Context {F : Type} (o : NumOps F) {A B E M P : Type}.
Variable fit : nat -> list A * list B -> E + M.      (* parameter set number, training view *)
Variable predict : M -> list A -> P.                 (* fitted model, validation records *)
Variable eval : P -> list B -> E + list F.           (* prediction, validation targets -> one score per target column *)

(** Iterator::collect::<Result<Vec<_>, _>>(): the first error, else all values *)
Fixpoint collect {X : Type} (l : list (E + X)) : E + list X :=
  match l with
  | [] => inr []
  | inl e :: _ => inl e
  | inr x :: r => match collect r with inl e => inl e | inr xs => inr (x :: xs) end
  end.

Definition fit_all (nmodels : nat) (train : list A * list B) : E + list M :=
  collect (map (fun m => fit m train) (seq 0 nmodels)).

Definition vadd (a b : list F) : list F := map (fun p => add o (fst p) (snd p)) (combine a b).
Definition madd (a b : list (list F)) : list (list F) := map (fun p => vadd (fst p) (snd p)) (combine a b).
Definition mdiv (a : list (list F)) (d : F) : list (list F) := map (map (fun x => div o x d)) a.
Definition zeros (r c : nat) : list (list F) := repeat (repeat (zero o) c) r.

(** the body of `.map(|(models, valid)| ...)`: eval_predictions starts at zero, row i += eval_i *)
Fixpoint eval_models (tcols : nat) (models : list M) (vr : list A) (vt : list B) : E + list (list F) :=
  match models with
  | [] => inr []
  | m :: ms =>
      match eval (predict m vr) vt with
      | inl e => inl e
      | inr s => match eval_models tcols ms vr vt with
                 | inl e => inl e
                 | inr r => inr (vadd (repeat (zero o) tcols) s :: r)
                 end
      end
  end.

Definition fold_eval (tcols : nat) (item : (E + list M) * (list A * list B)) : E + list (list F) :=
  match fst item with
  | inl e => inl e
  | inr models => eval_models tcols models (fst (snd item)) (snd (snd item))
  end.

(** [t] = ntargets() (1 for one-dimensional targets).  Result: error or the nmodels x t score matrix,
    together with the buffers the dataset holds afterwards. *)
Definition cv_finish (k nmodels t : nat) (items : list ((E + list M) * (list A * list B))) : E + list (list F) :=
  match collect (map (fold_eval t) items) with
  | inl e => inl e
  | inr fes => inr (mdiv (fold_left madd fes (zeros nmodels t)) (of_N o (N.of_nat k)))
  end.

Definition cross_validate_model (k nmodels n w t : nat) (rb : list A) (tb : list B)
  : option ((E + list (list F)) * (list A * list B)) :=
  match iter_fold_model (fit_all nmodels) k n w t rb tb with
  | None => None
  | Some (items, fin) => Some (cv_finish k nmodels t items, fin)
  end.

(** specification side: the outcome of fold i from the closed forms of its training view
    (train_rows) and validation block - errors of the fits first (parameter order), then errors of
    the evaluations (parameter order), else one row of scores per parameter set *)
Definition fold_outcome (k nmodels n w t : nat) (rb : list A) (tb : list B) (i : nat) : E + list (list F) :=
  let fs := n / k in
  match fit_all nmodels (train_rows (fs * w) i rb, train_rows (fs * t) i tb) with
  | inl e => inl e
  | inr models => eval_models t models (block (fs * w) i rb) (block (fs * t) i tb)
  end.
End CV.

(** * Storage layouts: what `iter_fold` / `cross_validate` do on arrays that are not standard row-major

    An ndarray array or view of shape (rows, cols) is a window description over a memory buffer:
    element (r, c) lives at  off + r*s0 + c*s1  (strides may be negative or zero; one-dimensional
    targets are the case cols = 1 with s0 the only stride).  `iter_fold` starts with
    `self.records.as_slice_mut().unwrap()` and `targets.as_slice_mut().unwrap()`; `as_slice_mut`
    is `Some(from_raw_parts_mut(ptr, len))` exactly when `is_standard_layout()` (ndarray 0.15.6
    dimension::is_layout_c: an empty array is standard; otherwise every axis of length <> 1 must
    carry the stride of a row-major array - the stride of an axis of length 1 is ignored), else
    `None`, and the `unwrap` panics: the documented panic "data is not stored contiguously and in
    standard order".  `fold` and `sample_chunks` only index logically and are layout-agnostic. *)
Record view2 := mkView { vw_off : nat; vw_rows : nat; vw_cols : nat; vw_s0 : Z; vw_s1 : Z }.

Definition vw_index (v : view2) (r c : nat) : Z :=
  (Z.of_nat (vw_off v) + Z.of_nat r * vw_s0 v + Z.of_nat c * vw_s1 v)%Z.

(** every element of the view lies inside a buffer of [len] cells *)
Definition vw_inb (v : view2) (len : nat) : bool :=
  forallb (fun r => forallb (fun c => (0 <=? vw_index v r c)%Z && (vw_index v r c <? Z.of_nat len)%Z)
                            (seq 0 (vw_cols v))) (seq 0 (vw_rows v)).

(** dimension::is_layout_c for two axes (and, with cols = 1, for one axis) *)
Definition is_standard (v : view2) : bool :=
  (vw_rows v =? 0) || (vw_cols v =? 0)
  || (((vw_cols v =? 1) || (vw_s1 v =? 1)%Z) && ((vw_rows v =? 1) || (vw_s0 v =? Z.of_nat (vw_cols v))%Z)).

Section Layout.
Context {A : Type}.
Variable d : A.                                   (* filler for out-of-range reads; never used when vw_inb holds *)

(** the logical (row-major iteration order) contents of the view *)
Definition vw_logical (v : view2) (buf : list A) : list A :=
  flat_map (fun r => map (fun c => nth (Z.to_nat (vw_index v r c)) buf d) (seq 0 (vw_cols v)))
           (seq 0 (vw_rows v)).

(** as_slice_mut(): the rows*cols cells starting at the first element, for standard layout only *)
Definition as_slice (v : view2) (buf : list A) : option (list A) :=
  if is_standard v then Some (firstn (vw_rows v * vw_cols v) (skipn (vw_off v) buf)) else None.

(** the buffer after the slice obtained from as_slice_mut has been overwritten by [win] *)
Definition write_back (v : view2) (buf win : list A) : list A :=
  firstn (vw_off v) buf ++ win ++ skipn (vw_off v + vw_rows v * vw_cols v) buf.

(** what a (hypothetical) implementation using as_slice_memory_order_mut - the cells of the window
    in MEMORY order, accepted for any contiguous layout - would hand to the swap macro for a
    column-major array: the silent misalignment the oracle has to reject *)
Definition memory_order_slice (v : view2) (buf : list A) : list A :=
  firstn (vw_rows v * vw_cols v) (skipn (vw_off v) buf).
End Layout.

Section IterFoldStrided.
Context {A B Obj : Type}.
Variable da : A.
Variable db : B.
Variable fit_closure : list A * list B -> Obj.

(** iter_fold on a dataset given by its two views and the buffers they point into; result: the
    items and the two whole buffers afterwards.  [None] = panic (k = 0, k > n, or an unwrap of
    as_slice_mut() = None). *)
Definition iter_fold_strided (k : nat) (rv tv : view2) (rbuf : list A) (tbuf : list B)
  : option (list (Obj * (list A * list B)) * (list A * list B)) :=
  let n := vw_rows rv in let w := vw_cols rv in let t := vw_cols tv in
  if k =? 0 then None else if n <? k then None else
  match as_slice rv rbuf with None => None | Some rb =>
  match as_slice tv tbuf with None => None | Some tb =>
    let fs := n / k in
    match iter_loop fit_closure k 0 fs w t rb tb with
    | None => None
    | Some (objs, (rb', tb')) =>
        let rbuf' := write_back rv rbuf rb' in
        let tbuf' := write_back tv tbuf tb' in
        match sample_chunks fs n w t (vw_logical da rv rbuf') (vw_logical db tv tbuf') with
        | None => None
        | Some vs => Some (combine objs vs, (rbuf', tbuf'))
        end
    end
  end end.
End IterFoldStrided.

Section CVStrided.
Context {F : Type} (o : NumOps F) {A B E M P : Type}.
Variable da : A.
Variable db : B.
Variable fit : nat -> list A * list B -> E + M.
Variable predict : M -> list A -> P.
Variable eval : P -> list B -> E + list F.

Definition cross_validate_strided (k nmodels : nat) (rv tv : view2) (rbuf : list A) (tbuf : list B)
  : option ((E + list (list F)) * (list A * list B)) :=
  match iter_fold_strided da db (fit_all fit nmodels) k rv tv rbuf tbuf with
  | None => None
  | Some (items, fin) => Some (cv_finish o predict eval k nmodels (vw_cols tv) items, fin)
  end.
End CVStrided.
