(** C01 - lemmas about the k-fold model. *)
From Coq Require Import List Arith NArith Lia Permutation Reals Lra.
From LinfaVerif Require Import Common.Num C01.Model.
Import ListNotations.

(** * List facts *)
Section ListFacts.
Context {A : Type}.

Lemma firstn_app_exact (a b : list A) n : length a = n -> firstn n (a ++ b) = a.
Proof. intros <-. rewrite firstn_app, Nat.sub_diag, firstn_all. simpl. apply app_nil_r. Qed.

Lemma skipn_app_exact (a b : list A) n : length a = n -> skipn n (a ++ b) = b.
Proof. intros <-. rewrite skipn_app, Nat.sub_diag, skipn_all. reflexivity. Qed.

Lemma firstn_skipn_add (a b : nat) (l : list A) :
  firstn a l ++ firstn b (skipn a l) = firstn (a + b) l.
Proof.
  revert l; induction a as [|a IH]; intros l; simpl; auto.
  destruct l as [|x t]; simpl.
  - now rewrite firstn_nil.
  - f_equal; apply IH.
Qed.

Lemma skipn_skipn_add (a b : nat) (l : list A) : skipn a (skipn b l) = skipn (b + a) l.
Proof.
  revert l; induction b as [|b IH]; intros l; simpl; auto.
  destruct l as [|x t]; simpl.
  - now rewrite skipn_nil.
  - apply IH.
Qed.

(** a list cut at three positions a <= b *)
Lemma split3 (a b : nat) (l : list A) : a <= b ->
  l = firstn a l ++ firstn (b - a) (skipn a l) ++ skipn b l.
Proof.
  intros H. rewrite <- (firstn_skipn a l) at 1. f_equal.
  rewrite <- (firstn_skipn (b - a) (skipn a l)) at 1. f_equal.
  rewrite skipn_skipn_add. f_equal; lia.
Qed.
End ListFacts.

Lemma combine_app {A B} (a1 a2 : list A) (b1 b2 : list B) :
  length a1 = length b1 -> combine (a1 ++ a2) (b1 ++ b2) = combine a1 b1 ++ combine a2 b2.
Proof.
  revert b1; induction a1 as [|x a1 IH]; intros [|y b1] H; simpl in *; try discriminate; auto.
  f_equal; apply IH; lia.
Qed.

Lemma combine_skipn {A B} (n : nat) (a : list A) (b : list B) :
  skipn n (combine a b) = combine (skipn n a) (skipn n b).
Proof.
  revert a b; induction n as [|n IH]; intros a b; simpl; auto.
  destruct a as [|x a]; simpl; auto. destruct b as [|y b]; simpl.
  - now destruct (skipn n a).
  - apply IH.
Qed.

Lemma combine_map_same {X Y Z} (f : X -> Y) (g : X -> Z) (l : list X) :
  combine (map f l) (map g l) = map (fun x => (f x, g x)) l.
Proof. induction l as [|x l IH]; simpl; auto. now rewrite IH. Qed.

(** * axis_chunks: the j-th chunk is block j, prefixes / suffixes of the chunk vector concatenate to
      prefixes / suffixes of the array *)
Section Chunks.
Context {A : Type}.
Variable fs : nat.
Hypothesis Hfs : fs > 0.

Lemma chunks_aux_concat : forall fuel (l : list A), length l <= fuel -> concat (chunks_aux fuel fs l) = l.
Proof.
  induction fuel as [|f IH]; intros l Hl; cbn [chunks_aux].
  - destruct l; simpl in *; [auto | lia].
  - destruct l as [|x t]; auto. cbn [concat]. rewrite IH.
    + apply firstn_skipn.
    + rewrite skipn_length. cbn [length] in *. lia.
Qed.

Lemma chunks_aux_nth : forall i fuel (l : list A), length l <= fuel -> i * fs < length l ->
  nth_error (chunks_aux fuel fs l) i = Some (block fs i l).
Proof.
  induction i as [|i IH]; intros fuel l Hl Hi.
  - destruct fuel as [|f]; [lia|]. destruct l as [|x t]; [simpl in Hi; lia|]. reflexivity.
  - destruct fuel as [|f]; [simpl in Hi; lia|]. destruct l as [|x t]; [simpl in Hi; lia|].
    cbn [chunks_aux nth_error]. rewrite IH.
    + unfold block. rewrite skipn_skipn_add. reflexivity.
    + rewrite skipn_length. cbn [length] in *. simpl in Hi. lia.
    + rewrite skipn_length. cbn [length] in *. simpl in Hi. lia.
Qed.

Lemma chunks_aux_prefix : forall i fuel (l : list A), length l <= fuel -> i * fs <= length l ->
  concat (firstn i (chunks_aux fuel fs l)) = firstn (i * fs) l.
Proof.
  induction i as [|i IH]; intros fuel l Hl Hi; [reflexivity|].
  destruct fuel as [|f]; [simpl in Hi; lia|]. destruct l as [|x t]; [simpl in Hi; lia|].
  cbn [chunks_aux firstn concat]. rewrite IH.
  - rewrite firstn_skipn_add. reflexivity.
  - rewrite skipn_length. cbn [length] in *. simpl in Hi. lia.
  - rewrite skipn_length. cbn [length] in *. simpl in Hi. lia.
Qed.

Lemma chunks_aux_suffix : forall i fuel (l : list A), length l <= fuel -> i * fs <= length l ->
  concat (skipn i (chunks_aux fuel fs l)) = skipn (i * fs) l.
Proof.
  induction i as [|i IH]; intros fuel l Hl Hi.
  - simpl. now apply chunks_aux_concat.
  - destruct fuel as [|f]; [simpl in Hi; lia|]. destruct l as [|x t]; [simpl in Hi; lia|].
    cbn [chunks_aux skipn]. rewrite IH.
    + rewrite skipn_skipn_add. reflexivity.
    + rewrite skipn_length. cbn [length] in *. simpl in Hi. lia.
    + rewrite skipn_length. cbn [length] in *. simpl in Hi. lia.
Qed.

Lemma chunks_aux_length : forall i fuel (l : list A), length l <= fuel -> i * fs < length l ->
  i < length (chunks_aux fuel fs l).
Proof.
  intros i fuel l Hl Hi. apply nth_error_Some. rewrite (chunks_aux_nth i fuel l Hl Hi). discriminate.
Qed.
End Chunks.

(** * Vec::swap(0, i+1) rotates the chunk vector: before iteration i it is [c_i, c_0 .. c_(i-1), c_(i+1) ..] *)
Section Rot.
Context {B : Type}.

Definition rot (i : nat) (cs : list B) : list B :=
  match nth_error cs i with
  | Some x => x :: firstn i cs ++ skipn (S i) cs
  | None => cs
  end.

Lemma rot_0 (cs : list B) : rot 0 cs = cs.
Proof. destruct cs; reflexivity. Qed.

Lemma vec_swap0_rot (cs : list B) i : S i < length cs ->
  vec_swap0 (rot i cs) (i + 1) = Some (rot (S i) cs).
Proof.
  intros H.
  destruct (nth_error cs i) as [x|] eqn:Ex; [|apply nth_error_None in Ex; lia].
  destruct (nth_error_split cs i Ex) as [p [r [-> Hp]]].
  destruct r as [|y q]; [rewrite app_length in H; simpl in H; lia|].
  assert (Hp1 : length (p ++ [x]) = S i) by (rewrite app_length; simpl; lia).
  assert (Hp2 : length (p ++ [x; y]) = S (S i)) by (rewrite app_length; simpl; lia).
  assert (Hp3 : length (p ++ [y]) = S i) by (rewrite app_length; simpl; lia).
  assert (E1 : rot i (p ++ x :: y :: q) = x :: p ++ y :: q).
  { unfold rot. rewrite Ex. rewrite (firstn_app_exact p _ i Hp).
    replace (p ++ x :: y :: q) with ((p ++ [x]) ++ y :: q) by (rewrite <- app_assoc; reflexivity).
    rewrite (skipn_app_exact (p ++ [x]) _ (S i) Hp1). reflexivity. }
  assert (E2 : rot (S i) (p ++ x :: y :: q) = y :: p ++ x :: q).
  { unfold rot.
    replace (p ++ x :: y :: q) with ((p ++ [x]) ++ y :: q) by (rewrite <- app_assoc; reflexivity).
    rewrite (nth_error_app2 (p ++ [x]) (y :: q) (n := S i)) by lia.
    rewrite Hp1, Nat.sub_diag. cbn [nth_error].
    rewrite (firstn_app_exact (p ++ [x]) _ (S i) Hp1).
    replace ((p ++ [x]) ++ y :: q) with ((p ++ [x; y]) ++ q) by (rewrite <- !app_assoc; reflexivity).
    rewrite (skipn_app_exact (p ++ [x; y]) _ (S (S i)) Hp2).
    rewrite <- app_assoc. reflexivity. }
  rewrite E1, E2. rewrite Nat.add_1_r. unfold vec_swap0.
  rewrite (nth_error_app2 p (y :: q) (n := i)) by lia. rewrite Hp, Nat.sub_diag. cbn [nth_error].
  rewrite (firstn_app_exact p _ i Hp).
  replace (p ++ y :: q) with ((p ++ [y]) ++ q) by (rewrite <- app_assoc; reflexivity).
  rewrite (skipn_app_exact (p ++ [y]) _ (S i) Hp3). reflexivity.
Qed.
End Rot.

(** * the loop of `fold` on one array *)
Section FoldArray.
Context {A : Type}.

Lemma fold_loop_spec (cs : list (list A)) (k : nat) : 2 <= length cs -> k <= length cs ->
  forall steps i, i + steps = k ->
  fold_loop steps i k (rot i cs) =
  Some (map (fun j => (concat (firstn j cs ++ skipn (S j) cs), nth j cs [])) (seq i steps)).
Proof.
  intros H2 Hk. induction steps as [|s IH]; intros i Hi; [reflexivity|].
  assert (Hil : i < length cs) by lia.
  destruct (nth_error cs i) as [x|] eqn:Ex; [|apply nth_error_None in Ex; lia].
  cbn [fold_loop seq map]. unfold rot at 1. rewrite Ex.
  assert (Hrest : firstn i cs ++ skipn (S i) cs <> []).
  { intros E. apply (f_equal (@length _)) in E. rewrite app_length, firstn_length, skipn_length in E.
    simpl in E. lia. }
  destruct (firstn i cs ++ skipn (S i) cs) as [|r0 rest] eqn:Er; [congruence|].
  cbn [concatenate]. rewrite (nth_error_nth cs i [] Ex).
  destruct (i <? k - 1) eqn:Elt.
  - apply Nat.ltb_lt in Elt.
    replace (x :: r0 :: rest) with (rot i cs) by (unfold rot; rewrite Ex, Er; reflexivity).
    rewrite vec_swap0_rot by lia. rewrite IH by lia. reflexivity.
  - apply Nat.ltb_ge in Elt. assert (s = 0) by lia. subst s. reflexivity.
Qed.

Theorem fold_array_spec (k fs : nat) (l : list A) : fs > 0 -> 2 <= k -> k * fs <= length l ->
  fold_array k fs l = Some (map (fun i => (compl fs i l, block fs i l)) (seq 0 k)).
Proof.
  intros Hfs Hk Hn. unfold fold_array, axis_chunks.
  destruct (fs =? 0) eqn:E0; [apply Nat.eqb_eq in E0; lia|].
  set (cs := chunks_aux (length l) fs l).
  assert (Hlen : k <= length cs).
  { assert (k - 1 < length cs); [|lia]. apply chunks_aux_length; auto. nia. }
  rewrite <- (rot_0 cs). rewrite (fold_loop_spec cs k) by lia. f_equal.
  apply map_ext_in. intros j Hj. apply in_seq in Hj.
  rewrite concat_app. unfold cs.
  rewrite (chunks_aux_prefix fs Hfs j) by nia.
  rewrite (chunks_aux_suffix fs Hfs (S j)) by nia.
  rewrite (nth_error_nth _ j [] (chunks_aux_nth fs Hfs j (length l) l (le_n _) ltac:(nia))).
  unfold compl. rewrite Nat.add_1_r. reflexivity.
Qed.
End FoldArray.
(** * `fold` on datasets *)
Section FoldDs.
Context {Rc T : Type}.

Theorem fold_model_spec (k n : nat) (ds : dataset Rc T) :
  length (ds_records ds) = n -> length (ds_targets ds) = n -> 2 <= k <= n ->
  fold_model k ds = Some (map (fun i => (ds_compl (n / k) i ds, ds_block (n / k) i ds)) (seq 0 k)).
Proof.
  intros Hr Ht [Hk Hn]. unfold fold_model.
  destruct (k =? 0) eqn:E0; [apply Nat.eqb_eq in E0; lia|]. rewrite Ht.
  assert (Hfs : n / k > 0) by (apply Nat.div_str_pos; lia).
  assert (Hle : k * (n / k) <= n) by (apply Nat.mul_div_le; lia).
  rewrite !fold_array_spec by lia.
  unfold zip_folds. rewrite combine_map_same, map_map. reflexivity.
Qed.

Lemma block_length {X} fs i (l : list X) : (i + 1) * fs <= length l -> length (block fs i l) = fs.
Proof. intros H. unfold block. rewrite firstn_length, skipn_length. nia. Qed.

Lemma compl_length {X} fs i (l : list X) : (i + 1) * fs <= length l -> length (compl fs i l) = length l - fs.
Proof. intros H. unfold compl. rewrite app_length, firstn_length, skipn_length. nia. Qed.

(** block i and its complement are a partition: together they are a rearrangement of the list *)
Lemma compl_block_perm {X} fs i (l : list X) : Permutation (compl fs i l ++ block fs i l) l.
Proof.
  unfold compl, block.
  pose proof (split3 (i * fs) ((i + 1) * fs) l ltac:(lia)) as E.
  replace ((i + 1) * fs - i * fs) with fs in E by lia.
  apply Permutation_trans with (l' := firstn (i * fs) l ++ firstn fs (skipn (i * fs) l) ++ skipn ((i + 1) * fs) l).
  - rewrite <- app_assoc. apply Permutation_app_head. apply Permutation_app_comm.
  - rewrite <- E. apply Permutation_refl.
Qed.

(** cutting records and targets at the same places keeps every record with its own target *)
Lemma block_combine {X Y} fs i (a : list X) (b : list Y) :
  combine (block fs i a) (block fs i b) = block fs i (combine a b).
Proof. unfold block. now rewrite combine_skipn, combine_firstn. Qed.

Lemma compl_combine {X Y} fs i (a : list X) (b : list Y) : length a = length b ->
  combine (compl fs i a) (compl fs i b) = compl fs i (combine a b).
Proof.
  intros H. unfold compl. rewrite combine_app by (rewrite !firstn_length; lia).
  now rewrite combine_firstn, combine_skipn.
Qed.

Lemma ds_partition fs i (ds : dataset Rc T) : length (ds_records ds) = length (ds_targets ds) ->
  Permutation (ds_rows (ds_compl fs i ds) ++ ds_rows (ds_block fs i ds)) (ds_rows ds).
Proof.
  intros H. unfold ds_rows, ds_compl, ds_block; cbn [ds_records ds_targets].
  rewrite compl_combine, block_combine by exact H. apply compl_block_perm.
Qed.
End FoldDs.

(** positions: blocks of the index list 0 .. n-1 *)
Lemma skipn_seq a s n : skipn a (seq s n) = seq (s + a) (n - a).
Proof.
  revert s n; induction a as [|a IH]; intros s n.
  - now rewrite Nat.add_0_r, Nat.sub_0_r.
  - destruct n as [|n]; [reflexivity|]. cbn [seq skipn]. rewrite IH. f_equal; lia.
Qed.
Lemma firstn_seq a s n : a <= n -> firstn a (seq s n) = seq s a.
Proof.
  revert s n; induction a as [|a IH]; intros s n H; [reflexivity|].
  destruct n as [|n]; [lia|]. cbn [seq firstn]. f_equal. apply IH. lia.
Qed.
Lemma block_seq fs i n : (i + 1) * fs <= n -> block fs i (seq 0 n) = seq (i * fs) fs.
Proof. intros H. unfold block. rewrite skipn_seq, firstn_seq by nia. reflexivity. Qed.
Lemma compl_seq fs i n : (i + 1) * fs <= n ->
  compl fs i (seq 0 n) = seq 0 (i * fs) ++ seq ((i + 1) * fs) (n - (i + 1) * fs).
Proof. intros H. unfold compl. rewrite skipn_seq, firstn_seq by nia. reflexivity. Qed.

Lemma in_block_seq fs i n p : (i + 1) * fs <= n -> (In p (block fs i (seq 0 n)) <-> i * fs <= p < (i + 1) * fs).
Proof. intros H. rewrite block_seq by exact H. rewrite in_seq. lia. Qed.
Lemma in_compl_seq fs i n p : (i + 1) * fs <= n ->
  (In p (compl fs i (seq 0 n)) <-> p < n /\ ~ (i * fs <= p < (i + 1) * fs)).
Proof. intros H. rewrite compl_seq by exact H. rewrite in_app_iff, !in_seq. lia. Qed.

(** * the swap macro and `iter_fold` on flat buffers *)
Section Swap.
Context {A : Type}.

Lemma swap_blocks_decomp (head mid fld rest : list A) (i fs w : nat) :
  i <> 0 -> length head = fs * w -> length fld = fs * w -> length head + length mid = fs * w * i ->
  swap_blocks (head ++ mid ++ fld ++ rest) i fs w = Some (fld ++ mid ++ head ++ rest).
Proof.
  intros Hi Hh Hf Hm. unfold swap_blocks.
  destruct (i =? 0) eqn:E0; [apply Nat.eqb_eq in E0; lia|].
  assert (Hhm : length (head ++ mid) = fs * w * i) by (rewrite app_length; lia).
  replace (head ++ mid ++ fld ++ rest) with ((head ++ mid) ++ fld ++ rest) by (rewrite <- app_assoc; reflexivity).
  rewrite (firstn_app_exact (head ++ mid) _ _ Hhm), (skipn_app_exact (head ++ mid) _ _ Hhm).
  rewrite (firstn_app_exact fld rest _ Hf), (skipn_app_exact fld rest _ Hf).
  rewrite (firstn_app_exact head mid _ Hh), (skipn_app_exact head mid _ Hh).
  destruct (length ((head ++ mid) ++ fld ++ rest) <? fs * w * i) eqn:E1.
  { apply Nat.ltb_lt in E1. rewrite app_length in E1. lia. }
  destruct (length (fld ++ rest) <? fs * w) eqn:E2.
  { apply Nat.ltb_lt in E2. rewrite app_length in E2. lia. }
  destruct (length (head ++ mid) <? fs * w) eqn:E3.
  { apply Nat.ltb_lt in E3. rewrite Hhm in E3. destruct i; [lia|]. nia. }
  reflexivity.
Qed.

(** swapping block i to the front: result, what the closure sees behind the first block, and the
    second swap undoes the first *)
Lemma swap_blocks_twice (buf : list A) (i fs w : nat) : (i + 1) * (fs * w) <= length buf ->
  exists buf1, swap_blocks buf i fs w = Some buf1 /\ swap_blocks buf1 i fs w = Some buf /\
               skipn (fs * w) buf1 = train_rows (fs * w) i buf.
Proof.
  intros H. destruct i as [|j].
  - exists buf. unfold swap_blocks. simpl. auto.
  - set (adj := fs * w) in *.
    set (head := firstn adj buf).
    set (mid := firstn (j * adj) (skipn adj buf)).
    set (fld := firstn adj (skipn (S j * adj) buf)).
    set (rest := skipn ((S j + 1) * adj) buf).
    assert (Hh : length head = adj) by (unfold head; rewrite firstn_length; lia).
    assert (Hm : length mid = j * adj) by (unfold mid; rewrite firstn_length, skipn_length; lia).
    assert (Hf : length fld = adj) by (unfold fld; rewrite firstn_length, skipn_length; lia).
    assert (E : buf = head ++ mid ++ fld ++ rest).
    { unfold head, mid, fld, rest.
      rewrite (split3 adj (S j * adj) buf) at 1 by lia. f_equal.
      replace (S j * adj - adj) with (j * adj) by lia. f_equal.
      rewrite <- (firstn_skipn adj (skipn (S j * adj) buf)) at 1. f_equal.
      rewrite skipn_skipn_add. f_equal. lia. }
    exists (fld ++ mid ++ head ++ rest). split; [|split].
    + transitivity (swap_blocks (head ++ mid ++ fld ++ rest) (S j) fs w); [f_equal; exact E|].
      apply swap_blocks_decomp; unfold adj in *; lia.
    + rewrite swap_blocks_decomp by (unfold adj in *; lia). f_equal. symmetry. exact E.
    + rewrite (skipn_app_exact fld _ _ Hf). reflexivity.
Qed.
End Swap.

Section IterFoldProofs.
Context {A B Obj : Type}.
Variable fit : list A * list B -> Obj.

Lemma iter_loop_spec (k fs w t : nat) (rb : list A) (tb : list B) :
  k * (fs * w) <= length rb -> k * (fs * t) <= length tb ->
  forall steps i, i + steps = k ->
  iter_loop fit steps i fs w t rb tb =
  Some (map (fun j => fit (train_rows (fs * w) j rb, train_rows (fs * t) j tb)) (seq i steps), (rb, tb)).
Proof.
  intros Hr Ht. induction steps as [|s IH]; intros i Hi; [reflexivity|].
  cbn [iter_loop seq map].
  destruct (swap_blocks_twice rb i fs w) as [rb1 [E1 [E2 E3]]]; [nia|].
  destruct (swap_blocks_twice tb i fs t) as [tb1 [F1 [F2 F3]]]; [nia|].
  rewrite E1, F1, E2, F2, E3, F3. rewrite IH by lia. reflexivity.
Qed.

Lemma combine_map_seq {X Y} (f : nat -> X) (g : nat -> Y) (k m : nat) : k <= m ->
  combine (map f (seq 0 k)) (map g (seq 0 m)) = map (fun j => (f j, g j)) (seq 0 k).
Proof.
  intros H. replace m with (k + (m - k)) by lia. rewrite seq_app, map_app.
  rewrite <- (app_nil_r (map f (seq 0 k))) at 1.
  rewrite combine_app by (now rewrite !map_length). simpl. rewrite app_nil_r. apply combine_map_same.
Qed.

Lemma slice_rows_block {X} (w fs j : nat) (buf : list X) :
  slice_rows w (j * fs) ((j + 1) * fs) buf = block (fs * w) j buf.
Proof. unfold slice_rows, block. f_equal; [nia|f_equal; nia]. Qed.

Theorem iter_fold_model_spec (k n w t : nat) (rb : list A) (tb : list B) :
  1 <= k <= n -> length rb = n * w -> length tb = n * t ->
  iter_fold_model fit k n w t rb tb =
  Some (map (fun j => (fit (train_rows (n / k * w) j rb, train_rows (n / k * t) j tb),
                       (block (n / k * w) j rb, block (n / k * t) j tb))) (seq 0 k),
        (rb, tb)).
Proof.
  intros [Hk Hn] Hr Ht. unfold iter_fold_model.
  destruct (k =? 0) eqn:E0; [apply Nat.eqb_eq in E0; lia|].
  destruct (n <? k) eqn:E1; [apply Nat.ltb_lt in E1; lia|].
  assert (Hfs : n / k > 0) by (apply Nat.div_str_pos; lia).
  assert (Hle : k * (n / k) <= n) by (apply Nat.mul_div_le; lia).
  rewrite (iter_loop_spec k) by nia.
  unfold sample_chunks. destruct (n / k =? 0) eqn:E2; [apply Nat.eqb_eq in E2; lia|].
  assert (Hkm : k <= n / (n / k)) by (apply Nat.div_le_lower_bound; lia).
  rewrite combine_map_seq by exact Hkm. f_equal. f_equal.
  apply map_ext. intros j. now rewrite !slice_rows_block.
Qed.
End IterFoldProofs.

(** * from flat buffers to rows (all rows of one array have the same width) *)
Section Rows.
Context {A : Type}.
Variable w : nat.
Definition uniform (rows : list (list A)) : Prop := Forall (fun r => length r = w) rows.

Lemma concat_length_uniform rows : uniform rows -> length (concat rows) = length rows * w.
Proof. induction 1 as [|r rows Hr _ IH]; simpl; auto. rewrite app_length, IH, Hr. reflexivity. Qed.

Lemma firstn_concat a : forall rows, uniform rows -> firstn (a * w) (concat rows) = concat (firstn a rows).
Proof.
  induction a as [|a IH]; intros rows H; [reflexivity|].
  destruct H as [|r rows Hr H]; [now rewrite firstn_nil|].
  cbn [concat firstn]. replace (S a * w) with (length r + a * w) by (simpl; lia).
  rewrite firstn_app_2. f_equal. now apply IH.
Qed.

Lemma skipn_concat a : forall rows, uniform rows -> skipn (a * w) (concat rows) = concat (skipn a rows).
Proof.
  induction a as [|a IH]; intros rows H; [reflexivity|].
  destruct H as [|r rows Hr H]; [now rewrite skipn_nil|].
  cbn [concat skipn]. replace (S a * w) with (length r + a * w) by (simpl; lia).
  rewrite skipn_app, Nat.add_comm, Nat.add_sub.
  rewrite skipn_all2 by lia. simpl. now apply IH.
Qed.

Lemma uniform_skipn a rows : uniform rows -> uniform (skipn a rows).
Proof.
  intros H. unfold uniform in *. rewrite Forall_forall in *. intros x Hx. apply H.
  rewrite <- (firstn_skipn a rows). apply in_or_app. now right.
Qed.

Lemma block_concat fs i rows : uniform rows -> block (fs * w) i (concat rows) = concat (block fs i rows).
Proof.
  intros H. unfold block. replace (i * (fs * w)) with (i * fs * w) by lia.
  rewrite skipn_concat by exact H. apply firstn_concat. now apply uniform_skipn.
Qed.

Lemma train_rows_concat fs i rows : uniform rows ->
  train_rows (fs * w) i (concat rows) = concat (train_rows fs i rows).
Proof.
  intros H. unfold train_rows. destruct i as [|j].
  - now apply skipn_concat.
  - rewrite !concat_app.
    replace (j * (fs * w)) with (j * fs * w) by lia.
    replace ((S j + 1) * (fs * w)) with ((S j + 1) * fs * w) by lia.
    rewrite !skipn_concat, !firstn_concat; auto. now apply uniform_skipn.
Qed.
End Rows.

(** what the closure sees is a rearrangement of the complement of block i *)
Lemma train_rows_perm {X} fs i (l : list X) : Permutation (train_rows fs i l) (compl fs i l).
Proof.
  unfold train_rows, compl. destruct i as [|j].
  - simpl. rewrite Nat.add_0_r. apply Permutation_refl.
  - rewrite app_assoc. apply Permutation_app_tail.
    replace (S j * fs) with (fs + j * fs) by (simpl; lia).
    rewrite <- firstn_skipn_add. apply Permutation_app_comm.
Qed.

Lemma train_rows_combine {X Y} fs i (a : list X) (b : list Y) : length a = length b ->
  combine (train_rows fs i a) (train_rows fs i b) = train_rows fs i (combine a b).
Proof.
  intros H. unfold train_rows. destruct i as [|j].
  - now rewrite combine_skipn.
  - rewrite !combine_app by (rewrite !firstn_length, ?skipn_length; lia).
    now rewrite !combine_skipn, !combine_firstn, ?combine_skipn.
Qed.

(** * cross_validate *)
Section CVProofs.
Context {F : Type} (o : NumOps F) {A B E M P : Type}.
Variable fit : nat -> list A * list B -> E + M.
Variable predict : M -> list A -> P.
Variable eval : P -> list B -> E + list F.

Lemma collect_map_inr {X Y} (f : X -> Y) (l : list X) :
  collect (E := E) (map (fun x => inr (f x)) l) = inr (map f l).
Proof. induction l as [|x l IH]; simpl; auto. now rewrite IH. Qed.

Lemma collect_ext_inr {X Y} (g : X -> E + Y) (f : X -> Y) (l : list X) :
  (forall x, In x l -> g x = inr (f x)) -> collect (map g l) = inr (map f l).
Proof.
  intros H. rewrite <- collect_map_inr. f_equal. apply map_ext_in. exact H.
Qed.

(** the first error of a sequence of results is what `collect` returns *)
Lemma collect_first_error {X} (l : list (E + X)) : forall j e,
  (forall j', j' < j -> exists v, nth_error l j' = Some (inr v)) ->
  nth_error l j = Some (inl e) -> collect l = inl e.
Proof.
  induction l as [|x l IH]; intros j e Hbefore Hj; [destruct j; discriminate|].
  destruct j as [|j].
  - simpl in Hj. inversion Hj. reflexivity.
  - destruct (Hbefore 0 ltac:(lia)) as [v Hv]. simpl in Hv. inversion Hv. subst x.
    simpl. rewrite (IH j e); auto.
    intros j' Hj'. apply (Hbefore (S j')). lia.
Qed.

Theorem cv_closed_form (k nmodels n w t : nat) (rb : list A) (tb : list B) :
  1 <= k <= n -> length rb = n * w -> length tb = n * t ->
  cross_validate_model o fit predict eval k nmodels n w t rb tb =
  Some (match collect (map (fold_outcome o fit predict eval k nmodels n w t rb tb) (seq 0 k)) with
        | inl e => inl e
        | inr fes => inr (mdiv o (fold_left (madd o) fes (zeros o nmodels t)) (of_N o (N.of_nat k)))
        end, (rb, tb)).
Proof.
  intros Hk Hr Ht. unfold cross_validate_model, cv_finish.
  rewrite (iter_fold_model_spec _ k n w t rb tb Hk Hr Ht). rewrite map_map. reflexivity.
Qed.

(** errors surface in fold-major order *)
Theorem cv_first_error (k nmodels n w t : nat) (rb : list A) (tb : list B) (j : nat) (e : E) :
  1 <= k <= n -> length rb = n * w -> length tb = n * t -> j < k ->
  (forall j', j' < j -> exists v, fold_outcome o fit predict eval k nmodels n w t rb tb j' = inr v) ->
  fold_outcome o fit predict eval k nmodels n w t rb tb j = inl e ->
  cross_validate_model o fit predict eval k nmodels n w t rb tb = Some (inl e, (rb, tb)).
Proof.
  intros Hk Hr Ht Hj Hbefore He. rewrite cv_closed_form by assumption.
  rewrite (collect_first_error _ j e); auto.
  - intros j' Hj'. destruct (Hbefore j' Hj') as [v Hv]. exists v.
    rewrite nth_error_map, nth_error_nth' with (d := 0) by (rewrite seq_length; lia).
    rewrite seq_nth by lia. simpl. now rewrite Hv.
  - rewrite nth_error_map, nth_error_nth' with (d := 0) by (rewrite seq_length; lia).
    rewrite seq_nth by lia. simpl. now rewrite He.
Qed.

(** inside one fold: the first failing fit (parameter order) ... *)
Theorem fold_outcome_fit_error (k nmodels n w t : nat) (rb : list A) (tb : list B) (i m : nat) (e : E) :
  m < nmodels ->
  (forall m', m' < m -> exists mdl, fit m' (train_rows (n / k * w) i rb, train_rows (n / k * t) i tb) = inr mdl) ->
  fit m (train_rows (n / k * w) i rb, train_rows (n / k * t) i tb) = inl e ->
  fold_outcome o fit predict eval k nmodels n w t rb tb i = inl e.
Proof.
  intros Hm Hbefore He. unfold fold_outcome, fit_all.
  rewrite (collect_first_error _ m e); auto.
  - intros m' Hm'. destruct (Hbefore m' Hm') as [v Hv]. exists v.
    rewrite nth_error_map, nth_error_nth' with (d := 0) by (rewrite seq_length; lia).
    rewrite seq_nth by lia. simpl. now rewrite Hv.
  - rewrite nth_error_map, nth_error_nth' with (d := 0) by (rewrite seq_length; lia).
    rewrite seq_nth by lia. simpl. now rewrite He.
Qed.

Lemma eval_models_first_error (t : nat) (vr : list A) (vt : list B) (mdl : nat -> M) (e : E) :
  forall (ms : list nat) (pos : nat),
  (forall p, p < pos -> exists s, eval (predict (mdl (nth p ms 0)) vr) vt = inr s) ->
  pos < length ms -> eval (predict (mdl (nth pos ms 0)) vr) vt = inl e ->
  eval_models o predict eval t (map mdl ms) vr vt = inl e.
Proof.
  induction ms as [|m0 ms IH]; intros pos Hbefore Hpos He; [simpl in Hpos; lia|].
  destruct pos as [|pos]; cbn [map eval_models].
  - simpl in He. now rewrite He.
  - destruct (Hbefore 0 ltac:(lia)) as [s Hs]. simpl in Hs. rewrite Hs.
    rewrite (IH pos); auto.
    + intros p Hp. apply (Hbefore (S p)). lia.
    + simpl in Hpos. lia.
Qed.

(** ... and, when every fit of the fold succeeded, the first failing evaluation (parameter order) *)
Theorem fold_outcome_eval_error (k nmodels n w t : nat) (rb : list A) (tb : list B) (i m : nat) (e : E)
  (mdl : nat -> M) :
  (forall m', m' < nmodels -> fit m' (train_rows (n / k * w) i rb, train_rows (n / k * t) i tb) = inr (mdl m')) ->
  m < nmodels ->
  (forall m', m' < m -> exists s, eval (predict (mdl m') (block (n / k * w) i rb)) (block (n / k * t) i tb) = inr s) ->
  eval (predict (mdl m) (block (n / k * w) i rb)) (block (n / k * t) i tb) = inl e ->
  fold_outcome o fit predict eval k nmodels n w t rb tb i = inl e.
Proof.
  intros Hfit Hm Hbefore He. unfold fold_outcome, fit_all.
  rewrite (collect_ext_inr _ mdl) by (intros x Hx; apply in_seq in Hx; apply Hfit; lia).
  apply (eval_models_first_error t _ _ mdl e (seq 0 nmodels) m).
  - intros p Hp. rewrite seq_nth by lia. apply Hbefore. exact Hp.
  - rewrite seq_length. exact Hm.
  - rewrite seq_nth by lia. exact He.
Qed.

(** no failure anywhere: the outcome of fold i is one row of (0 + score) per parameter set *)
Lemma eval_models_ok (t : nat) (vr : list A) (vt : list B) (mdl : nat -> M) (sc : nat -> list F) :
  forall ms : list nat,
  (forall m, In m ms -> eval (predict (mdl m) vr) vt = inr (sc m)) ->
  eval_models o predict eval t (map mdl ms) vr vt =
  inr (map (fun m => vadd o (repeat (zero o) t) (sc m)) ms).
Proof.
  induction ms as [|m0 ms IH]; intros H; [reflexivity|].
  cbn [map eval_models]. rewrite (H m0) by (now left). rewrite IH by (intros m Hm; apply H; now right).
  reflexivity.
Qed.

Lemma fold_outcome_ok (k nmodels n w t : nat) (rb : list A) (tb : list B) (i : nat)
  (mdl : nat -> M) (sc : nat -> list F) :
  (forall m, m < nmodels -> fit m (train_rows (n / k * w) i rb, train_rows (n / k * t) i tb) = inr (mdl m)) ->
  (forall m, m < nmodels -> eval (predict (mdl m) (block (n / k * w) i rb)) (block (n / k * t) i tb) = inr (sc m)) ->
  fold_outcome o fit predict eval k nmodels n w t rb tb i =
  inr (map (fun m => vadd o (repeat (zero o) t) (sc m)) (seq 0 nmodels)).
Proof.
  intros Hfit Hev. unfold fold_outcome, fit_all.
  rewrite (collect_ext_inr _ mdl) by (intros x Hx; apply in_seq in Hx; apply Hfit; lia).
  apply eval_models_ok. intros m Hm. apply in_seq in Hm. apply Hev. lia.
Qed.
End CVProofs.

(** * the reported score is the arithmetic mean over the folds (exact real arithmetic) *)
Section Mean.
Local Open Scope R_scope.

Fixpoint rsum (f : nat -> R) (k : nat) : R :=
  match k with O => 0 | S k' => rsum f k' + f k' end.

Definition mnth (m c : nat) (X : list (list R)) : R := nth c (nth m X []) 0.
Definition shaped (nm t : nat) (X : list (list R)) : Prop :=
  length X = nm /\ Forall (fun r => length r = t) X.

Lemma vadd_length (a b : list R) : length a = length b -> length (vadd R_ops a b) = length a.
Proof. intros H. unfold vadd. rewrite map_length, combine_length. lia. Qed.

Lemma vadd_nth (a b : list R) c : length a = length b -> (c < length a)%nat ->
  nth c (vadd R_ops a b) 0 = nth c a 0 + nth c b 0.
Proof.
  intros H Hc. unfold vadd.
  set (f := fun p : R * R => add R_ops (fst p) (snd p)).
  rewrite (nth_indep _ 0 (f (0, 0))) by (rewrite map_length, combine_length; lia).
  rewrite (map_nth f), combine_nth by exact H. reflexivity.
Qed.

Lemma vadd_zero (t : nat) (s : list R) : length s = t -> vadd R_ops (repeat 0 t) s = s.
Proof.
  revert s; induction t as [|t IH]; intros [|x s] H; simpl in *; try discriminate; auto.
  unfold vadd in *. simpl. rewrite IH by lia. f_equal. lra.
Qed.

Lemma shaped_nth nm t X m : shaped nm t X -> (m < nm)%nat -> length (nth m X []) = t.
Proof.
  intros [Hl Hf] Hm. rewrite Forall_forall in Hf. apply Hf. apply nth_In. lia.
Qed.

Lemma madd_shaped nm t X Y : shaped nm t X -> shaped nm t Y -> shaped nm t (madd R_ops X Y).
Proof.
  intros HX HY. pose proof HX as [HlX HfX]. pose proof HY as [HlY HfY]. split.
  - unfold madd. rewrite map_length, combine_length. lia.
  - unfold madd. rewrite Forall_forall. intros r Hr. apply in_map_iff in Hr as [[a b] [<- Hab]].
    pose proof (in_combine_l _ _ _ _ Hab) as Ha. pose proof (in_combine_r _ _ _ _ Hab) as Hb.
    rewrite Forall_forall in HfX, HfY. simpl. rewrite vadd_length; [apply HfX; auto|].
    rewrite (HfX a Ha), (HfY b Hb). reflexivity.
Qed.

Lemma madd_nth nm t X Y m c : shaped nm t X -> shaped nm t Y -> (m < nm)%nat -> (c < t)%nat ->
  mnth m c (madd R_ops X Y) = mnth m c X + mnth m c Y.
Proof.
  intros HX HY Hm Hc. pose proof HX as [HlX _]. pose proof HY as [HlY _].
  unfold mnth, madd.
  set (f := fun p : list R * list R => vadd R_ops (fst p) (snd p)).
  rewrite (nth_indep _ [] (f ([], []))) by (rewrite map_length, combine_length; lia).
  rewrite (map_nth f), combine_nth by lia. unfold f. cbn [fst snd].
  apply vadd_nth.
  - rewrite (shaped_nth nm t X m), (shaped_nth nm t Y m); auto.
  - rewrite (shaped_nth nm t X m); auto.
Qed.

Lemma zeros_shaped nm t : shaped nm t (zeros R_ops nm t).
Proof.
  split; unfold zeros; [apply repeat_length|].
  rewrite Forall_forall. intros r Hr. apply repeat_spec in Hr. subst r. apply repeat_length.
Qed.

Lemma zeros_nth nm t m c : mnth m c (zeros R_ops nm t) = 0.
Proof.
  unfold mnth, zeros.
  destruct (Nat.lt_ge_cases m nm) as [Hm|Hm].
  - rewrite (nth_indep _ [] (repeat (zero R_ops) t)) by (now rewrite repeat_length).
    rewrite nth_repeat. destruct (Nat.lt_ge_cases c t) as [Hc|Hc].
    + rewrite (nth_indep _ 0 (zero R_ops)) by (now rewrite repeat_length). now rewrite nth_repeat.
    + rewrite nth_overflow by (now rewrite repeat_length). reflexivity.
  - rewrite (nth_overflow (repeat _ nm)) by (now rewrite repeat_length). now destruct c.
Qed.

Lemma fold_left_madd nm t (Ms : nat -> list (list R)) m c : (m < nm)%nat -> (c < t)%nat ->
  forall k acc, shaped nm t acc -> (forall j, (j < k)%nat -> shaped nm t (Ms j)) ->
  shaped nm t (fold_left (madd R_ops) (map Ms (seq 0 k)) acc) /\
  mnth m c (fold_left (madd R_ops) (map Ms (seq 0 k)) acc) = mnth m c acc + rsum (fun j => mnth m c (Ms j)) k.
Proof.
  intros Hm Hc. induction k as [|k IH]; intros acc Hacc HMs.
  - simpl. split; [exact Hacc | lra].
  - rewrite seq_S, map_app, fold_left_app. simpl.
    destruct (IH acc Hacc) as [Hs Hv]; [intros j Hj; apply HMs; lia|].
    split.
    + apply madd_shaped; [exact Hs | apply HMs; lia].
    + rewrite (madd_nth nm t) by (auto; apply HMs; lia). rewrite Hv. lra.
Qed.

Lemma fold_left_madd_shaped nm t (l : list (list (list R))) : forall acc,
  shaped nm t acc -> Forall (shaped nm t) l -> shaped nm t (fold_left (madd R_ops) l acc).
Proof.
  induction l as [|X l IH]; intros acc Ha Hl; [exact Ha|]. simpl.
  inversion Hl as [|? ? HX Hl']; subst. apply IH; [|exact Hl']. now apply madd_shaped.
Qed.

Lemma mdiv_nth nm t X d m c : shaped nm t X -> (m < nm)%nat -> (c < t)%nat ->
  mnth m c (mdiv R_ops X d) = mnth m c X / d.
Proof.
  intros HX Hm Hc. pose proof HX as [HlX _]. unfold mnth, mdiv.
  set (g := fun x : R => div R_ops x d).
  rewrite (nth_indep _ [] (map g [])) by (rewrite map_length; lia).
  rewrite (map_nth (map g)).
  rewrite (nth_indep _ 0 (g 0)) by (rewrite map_length, (shaped_nth nm t X m); auto).
  rewrite (map_nth g). reflexivity.
Qed.

Lemma mdiv_shaped nm t X d : shaped nm t X -> shaped nm t (mdiv R_ops X d).
Proof.
  intros [Hl Hf]. split; unfold mdiv; [now rewrite map_length|].
  rewrite Forall_forall in *. intros r Hr. apply in_map_iff in Hr as [r0 [<- Hr0]].
  rewrite map_length. now apply Hf.
Qed.

Context {A B E M P : Type}.
Variable fit : nat -> list A * list B -> E + M.
Variable predict : M -> list A -> P.
Variable eval : P -> list B -> E + list R.

(** When no fit and no evaluation fails (and every evaluation returns one score per target column),
    cross-validation returns, for parameter set m and target column c, the arithmetic mean over the
    k folds of eval(predict(fit_m(training view of fold i), validation records), validation targets),
    and the dataset buffers are what they were. *)
Theorem cv_mean (k nmodels n w t : nat) (rb : list A) (tb : list B)
  (mdl : nat -> nat -> M) (sc : nat -> nat -> list R) :
  (1 <= k <= n)%nat -> length rb = (n * w)%nat -> length tb = (n * t)%nat ->
  (forall i m, (i < k)%nat -> (m < nmodels)%nat ->
     fit m (train_rows (n / k * w) i rb, train_rows (n / k * t) i tb) = inr (mdl i m)) ->
  (forall i m, (i < k)%nat -> (m < nmodels)%nat ->
     eval (predict (mdl i m) (block (n / k * w) i rb)) (block (n / k * t) i tb) = inr (sc i m) /\
     length (sc i m) = t) ->
  exists scores,
    cross_validate_model R_ops fit predict eval k nmodels n w t rb tb = Some (inr scores, (rb, tb)) /\
    shaped nmodels t scores /\
    forall m c, (m < nmodels)%nat -> (c < t)%nat ->
      mnth m c scores = rsum (fun i => nth c (sc i m) 0) k / INR k.
Proof.
  intros Hk Hr Ht Hfit Hev.
  set (Ms := fun i : nat => map (fun m => sc i m) (seq 0 nmodels)).
  assert (HMs : forall i, (i < k)%nat -> shaped nmodels t (Ms i)).
  { intros i Hi. split; unfold Ms; [now rewrite map_length, seq_length|].
    rewrite Forall_forall. intros r Hr0. apply in_map_iff in Hr0 as [m [<- Hm]]. apply in_seq in Hm.
    apply Hev; lia. }
  assert (Hout : forall i, In i (seq 0 k) ->
             fold_outcome R_ops fit predict eval k nmodels n w t rb tb i = inr (Ms i)).
  { intros i Hi. apply in_seq in Hi.
    rewrite (fold_outcome_ok R_ops fit predict eval k nmodels n w t rb tb i (mdl i) (sc i)).
    - f_equal. unfold Ms. apply map_ext_in. intros m Hm. apply in_seq in Hm.
      apply vadd_zero. apply Hev; lia.
    - intros m Hm. apply Hfit; lia.
    - intros m Hm. apply Hev; lia. }
  rewrite cv_closed_form by assumption.
  rewrite (collect_ext_inr _ Ms _ Hout).
  eexists. split; [reflexivity|].
  assert (Hsh : shaped nmodels t (fold_left (madd R_ops) (map Ms (seq 0 k)) (zeros R_ops nmodels t))).
  { apply fold_left_madd_shaped; [apply zeros_shaped|].
    rewrite Forall_forall. intros X HX. apply in_map_iff in HX as [j [<- Hj]]. apply in_seq in Hj.
    apply HMs. lia. }
  split; [now apply mdiv_shaped|].
  intros m c Hm Hc.
  rewrite (mdiv_nth nmodels t) by assumption.
  destruct (fold_left_madd nmodels t Ms m c Hm Hc k (zeros R_ops nmodels t) (zeros_shaped _ _) HMs) as [_ Hv].
  rewrite Hv, zeros_nth. unfold of_N, R_ops. rewrite Nnat.Nat2N.id.
  replace (rsum (fun j => mnth m c (Ms j)) k) with (rsum (fun i => nth c (sc i m) 0) k); [lra|].
  assert (G : forall k', (k' <= k)%nat ->
            rsum (fun i => nth c (sc i m) 0) k' = rsum (fun j => mnth m c (Ms j)) k').
  { induction k' as [|k' IH]; intros Hk'; [reflexivity|]. simpl. rewrite IH by lia. f_equal.
    unfold mnth, Ms.
    set (h := fun m0 : nat => sc k' m0).
    rewrite (nth_indep _ [] (h 0%nat)) by (now rewrite map_length, seq_length).
    rewrite (map_nth h), seq_nth by exact Hm. reflexivity. }
  apply G. lia.
Qed.
End Mean.

(** * statements about `fold` used by C01/Properties.v *)
Section FoldCorollaries.
Context {Rc T : Type}.

Lemma nth_error_map_seq {X} (f : nat -> X) k i : i < k -> nth_error (map f (seq 0 k)) i = Some (f i).
Proof.
  intros H. rewrite nth_error_map, nth_error_nth' with (d := 0) by (rewrite seq_length; lia).
  rewrite seq_nth by lia. reflexivity.
Qed.

Lemma fold_model_nth (k n : nat) (ds : dataset Rc T) r i :
  length (ds_records ds) = n -> length (ds_targets ds) = n -> 2 <= k <= n ->
  fold_model k ds = Some r -> i < k ->
  nth_error r i = Some (ds_compl (n / k) i ds, ds_block (n / k) i ds).
Proof.
  intros Hr Ht Hk H Hi. rewrite (fold_model_spec k n ds Hr Ht Hk) in H. inversion H; subst r.
  rewrite nth_error_map_seq by exact Hi. reflexivity.
Qed.

Lemma fold_model_length (k n : nat) (ds : dataset Rc T) r :
  length (ds_records ds) = n -> length (ds_targets ds) = n -> 2 <= k <= n ->
  fold_model k ds = Some r -> length r = k.
Proof.
  intros Hr Ht Hk H. rewrite (fold_model_spec k n ds Hr Ht Hk) in H. inversion H.
  now rewrite map_length, seq_length.
Qed.

Lemma fold_block_bound k n i : 2 <= k <= n -> i < k -> (i + 1) * (n / k) <= n.
Proof.
  intros Hk Hi. assert (k * (n / k) <= n) by (apply Nat.mul_div_le; lia). nia.
Qed.
End FoldCorollaries.

Lemma block_index_unique fs j p : j * fs <= p < (j + 1) * fs -> j = p / fs.
Proof.
  intros H. assert (fs <> 0) by (intros ->; lia).
  apply Nat.div_unique with (r := p - j * fs); lia.
Qed.

Section Positions.
Context {T : Type}.

(** records are the sample numbers 0 .. n-1 *)
Lemma validated_once (n k : nat) (tg : list T) r p :
  length tg = n -> 2 <= k <= n -> fold_model k (mkDs (seq 0 n) tg) = Some r -> p < k * (n / k) ->
  exists! j, j < k /\ exists tr va, nth_error r j = Some (tr, va) /\ In p (ds_records va).
Proof.
  intros Ht Hk H Hp.
  assert (Hs : length (ds_records (mkDs (seq 0 n) tg)) = n) by (simpl; apply seq_length).
  assert (Hfs : n / k > 0) by (apply Nat.div_str_pos; lia).
  exists (p / (n / k)). split.
  - assert (Hj : p / (n / k) < k) by (apply Nat.div_lt_upper_bound; lia).
    split; [exact Hj|]. eexists; eexists. split.
    + apply (fold_model_nth k n _ r _ Hs Ht Hk H Hj).
    + cbn [ds_block ds_records]. apply in_block_seq; [now apply fold_block_bound|].
      pose proof (Nat.div_mod p (n / k) ltac:(lia)). pose proof (Nat.mod_upper_bound p (n / k) ltac:(lia)). nia.
  - intros j [Hj [tr [va [Hnth Hin]]]].
    rewrite (fold_model_nth k n _ r j Hs Ht Hk H Hj) in Hnth. inversion Hnth; subst tr va.
    cbn [ds_block ds_records] in Hin. apply in_block_seq in Hin; [|now apply fold_block_bound].
    symmetry. now apply block_index_unique.
Qed.

Lemma tail_training (n k : nat) (tg : list T) r p j tr va :
  length tg = n -> 2 <= k <= n -> fold_model k (mkDs (seq 0 n) tg) = Some r ->
  k * (n / k) <= p < n -> nth_error r j = Some (tr, va) ->
  In p (ds_records tr) /\ ~ In p (ds_records va).
Proof.
  intros Ht Hk H Hp Hnth.
  assert (Hs : length (ds_records (mkDs (seq 0 n) tg)) = n) by (simpl; apply seq_length).
  assert (Hj : j < k).
  { rewrite <- (fold_model_length k n _ r Hs Ht Hk H). apply nth_error_Some. rewrite Hnth. discriminate. }
  rewrite (fold_model_nth k n _ r j Hs Ht Hk H Hj) in Hnth. inversion Hnth; subst tr va.
  cbn [ds_block ds_compl ds_records].
  pose proof (fold_block_bound k n j Hk Hj) as Hb.
  rewrite in_block_seq, in_compl_seq by exact Hb. nia.
Qed.
End Positions.

(** * iter_fold at the row level: the flat buffers are the rows laid out one after the other *)
Section IterFoldRows.
Context {A B Obj : Type}.
Variable fit : list A * list B -> Obj.

Theorem iter_fold_rows_spec (k n w t : nat) (rrows : list (list A)) (trows : list (list B)) :
  1 <= k <= n -> length rrows = n -> length trows = n -> uniform w rrows -> uniform t trows ->
  iter_fold_model fit k n w t (concat rrows) (concat trows) =
  Some (map (fun i => (fit (concat (train_rows (n / k) i rrows), concat (train_rows (n / k) i trows)),
                       (concat (block (n / k) i rrows), concat (block (n / k) i trows)))) (seq 0 k),
        (concat rrows, concat trows)).
Proof.
  intros Hk Hr Ht Hur Hut.
  rewrite iter_fold_model_spec;
    [|exact Hk | now rewrite (concat_length_uniform w), Hr | now rewrite (concat_length_uniform t), Ht].
  f_equal. f_equal. apply map_ext. intros i.
  now rewrite !train_rows_concat, !block_concat.
Qed.

(** the closure argument of fold i together with validation block i is a rearrangement of the
    samples, every record still next to its own target *)
Lemma train_block_partition {X Y} fs i (a : list X) (b : list Y) : length a = length b ->
  Permutation (combine (train_rows fs i a) (train_rows fs i b) ++ combine (block fs i a) (block fs i b))
              (combine a b).
Proof.
  intros H. rewrite train_rows_combine, block_combine by exact H.
  eapply Permutation_trans; [|apply (compl_block_perm fs i)].
  apply Permutation_app_tail. apply train_rows_perm.
Qed.
End IterFoldRows.

(** * Non-vacuity: n = 7, k = 3 (floor(7/3) = 2, one tail sample), and the finding about `len()` *)
Definition ds7 : dataset nat nat := mkDs [0; 1; 2; 3; 4; 5; 6] [10; 11; 12; 13; 14; 15; 16].

Example fold_7_3 :
  fold_model 3 ds7 =
  Some [(mkDs [2; 3; 4; 5; 6] [12; 13; 14; 15; 16], mkDs [0; 1] [10; 11]);
        (mkDs [0; 1; 4; 5; 6] [10; 11; 14; 15; 16], mkDs [2; 3] [12; 13]);
        (mkDs [0; 1; 2; 3; 6] [10; 11; 12; 13; 16], mkDs [4; 5] [14; 15])].
Proof. reflexivity. Qed.

Example fold_7_3_hypotheses : length (ds_records ds7) = 7 /\ length (ds_targets ds7) = 7 /\ 2 <= 3 <= 7.
Proof. repeat split; simpl; lia. Qed.

(** records of width 2, targets of width 1, as flat buffers *)
Example iter_fold_7_3 :
  iter_fold_model (fun a : list nat * list nat => a) 3 7 2 1
     [0; 1; 2; 3; 4; 5; 6; 7; 8; 9; 10; 11; 12; 13] [20; 21; 22; 23; 24; 25; 26] =
  Some ([(([4; 5; 6; 7; 8; 9; 10; 11; 12; 13], [22; 23; 24; 25; 26]), ([0; 1; 2; 3], [20; 21]));
         (([0; 1; 2; 3; 8; 9; 10; 11; 12; 13], [20; 21; 24; 25; 26]), ([4; 5; 6; 7], [22; 23]));
         (([4; 5; 6; 7; 0; 1; 2; 3; 12; 13], [22; 23; 20; 21; 26]), ([8; 9; 10; 11], [24; 25]))],
        ([0; 1; 2; 3; 4; 5; 6; 7; 8; 9; 10; 11; 12; 13], [20; 21; 22; 23; 24; 25; 26])).
Proof. reflexivity. Qed.

Example swap_blocks_example : swap_blocks [0; 1; 2; 3; 4; 5; 6; 7; 8; 9] 2 1 2 = Some [4; 5; 2; 3; 0; 1; 6; 7; 8; 9].
Proof. reflexivity. Qed.

(** Finding F36: before the repair the fold size was targets.len() / k, and len() of an (n, t) array
    is n * t.  With 6 samples, 2 target columns and k = 3 the chunk vector has 2 entries and
    Vec::swap(0, 2) panics; with k = 2 there is a single chunk and nothing to concatenate. *)
Definition ds6 : dataset nat (list nat) :=
  mkDs [0; 1; 2; 3; 4; 5] [[10; 11]; [12; 13]; [14; 15]; [16; 17]; [18; 19]; [20; 21]].
Example fold_len_based_panics :
  fold_model_len 2 3 ds6 = None /\ fold_model_len 2 2 ds6 = None /\
  exists r, fold_model 3 ds6 = Some r /\ length r = 3.
Proof. repeat split. eexists. split; reflexivity. Qed.
(** one-column targets are not affected *)
Example fold_len_based_single_column : fold_model_len 1 3 ds7 = fold_model 3 ds7.
Proof. reflexivity. Qed.

Example cv_mock_7_3 :
  let fit (m : nat) (train : list nat * list nat) : unit + nat := inr (m + length (fst train)) in
  let predict (mdl : nat) (vr : list nat) : nat := mdl in
  let eval (p : nat) (vt : list nat) : unit + list R := inr [INR p; 5%R] in
  forall i m, i < 3 -> m < 2 ->
    eval (predict (m + 10)
                  (block (7 / 3 * 2) i [0; 1; 2; 3; 4; 5; 6; 7; 8; 9; 10; 11; 12; 13]))
         (block (7 / 3 * 2) i [20; 21; 22; 23; 24; 25; 26; 27; 28; 29; 30; 31; 32; 33]) = inr [INR (m + 10); 5%R]
    /\ length [INR (m + 10); 5%R] = 2.
Proof. intros; split; reflexivity. Qed.

(** sample_chunks / ChunksIter: floor(n/size) consecutive blocks; the documented panics of iter_fold *)
Lemma sample_chunks_spec {A B} (size n w t : nat) (rb : list A) (tb : list B) : size > 0 ->
  sample_chunks size n w t rb tb =
  Some (map (fun i => (block (size * w) i rb, block (size * t) i tb)) (seq 0 (n / size))).
Proof.
  intros H. unfold sample_chunks. destruct (size =? 0) eqn:E; [apply Nat.eqb_eq in E; lia|].
  f_equal. apply map_ext. intros i. now rewrite !slice_rows_block.
Qed.

Lemma iter_fold_bad_k {A B Obj} (fit : list A * list B -> Obj) (k n w t : nat) rb tb :
  k = 0 \/ n < k -> iter_fold_model fit k n w t rb tb = None.
Proof.
  intros [->|H]; [reflexivity|]. unfold iter_fold_model.
  destruct (k =? 0); [reflexivity|]. apply Nat.ltb_lt in H. now rewrite H.
Qed.
