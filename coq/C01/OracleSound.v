(** C01 - the property oracle of C01/Corr.v is sound: whenever it returns 0 on an observed output,
    that output satisfies the Prop-level statements (validation parts are the consecutive blocks, every
    (training, validation) pair is a permutation of the samples with records attached to their targets,
    the dataset is restored).  The cross-validation part of the oracle is in C01/CvSound.v. *)
From Coq Require Import List Arith NArith Bool Lia Permutation.
From LinfaVerif Require Import Common.Num Common.Run C01.Model C01.Corr.
Import ListNotations.

(** the quantities of a case *)
Definition case_n (c : case) : nat := N.to_nat (c_n c).
Definition case_w (c : case) : nat := N.to_nat (c_w c).
Definition case_tw (c : case) : nat := if N.eqb (c_tdim c) 0 then 1 else N.to_nat (c_tdim c).
Definition case_k (c : case) : nat := N.to_nat (c_k c).
Definition case_fs (c : case) : nat := case_n c / case_k c.
Definition case_rrows (c : case) : list (list N) := rows_of (case_w c) (c_recs c).
Definition case_trows (c : case) : list (list N) := rows_of (case_tw c) (c_tgts c).
Definition case_in_domain (c : case) : Prop := 2 <= case_k c <= case_n c.

Lemma flag_zero b code : flag b code = 0%N -> code <> 0%N -> b = true.
Proof. destruct b; simpl; congruence. Qed.

Lemma lN_eqb_eq a b : lN_eqb a b = true -> a = b.
Proof. apply list_eqb_eq. intros x y H. now apply N.eqb_eq. Qed.

Lemma pair_eqb_eq p q : pair_eqb p q = true -> p = q.
Proof.
  destruct p as [a b], q as [a' b']. unfold pair_eqb; simpl. intros H.
  apply andb_true_iff in H as [H1 H2]. apply lN_eqb_eq in H1, H2. congruence.
Qed.

Lemma arr_is_sound a cols data : arr_is a cols data = true ->
  a_cols a = N.of_nat cols /\ (a_rows a * a_cols a)%N = N.of_nat (length data) /\ a_data a = data.
Proof.
  unfold arr_is. intros H. apply andb_true_iff in H as [H H3]. apply andb_true_iff in H as [H1 H2].
  apply N.eqb_eq in H1, H2. apply lN_eqb_eq in H3. auto.
Qed.

Lemma forall_i_sound {X} (f : nat -> X -> bool) : forall l s, forall_i f s l = true ->
  forall i x, nth_error l i = Some x -> f (s + i) x = true.
Proof.
  induction l as [|y l IH]; intros s H i x Hn; [destruct i; discriminate|].
  simpl in H. apply andb_true_iff in H as [H1 H2]. destruct i as [|i]; simpl in Hn.
  - inversion Hn; subst. now rewrite Nat.add_0_r.
  - rewrite <- Nat.add_succ_comm. now apply (IH (S s)).
Qed.

Section MSet.
Context {X : Type} (eqX : X -> X -> bool).
Hypothesis eqX_eq : forall a b, eqX a b = true -> a = b.

Lemma remove1_sound x : forall l l', remove1 eqX x l = Some l' -> Permutation l (x :: l').
Proof.
  induction l as [|y l IH]; intros l' H; [discriminate|]. simpl in H.
  destruct (eqX x y) eqn:E.
  - apply eqX_eq in E. inversion H; subst. apply Permutation_refl.
  - destruct (remove1 eqX x l) as [r|] eqn:Er; [|discriminate]. simpl in H. inversion H; subst.
    eapply Permutation_trans; [apply perm_skip; apply IH; reflexivity|]. apply perm_swap.
Qed.

Lemma mset_eqb_sound : forall a b, mset_eqb eqX a b = true -> Permutation a b.
Proof.
  induction a as [|x a IH]; intros b H; simpl in H.
  - destruct b; [apply perm_nil | discriminate].
  - destruct (remove1 eqX x b) as [b'|] eqn:Er; [|discriminate].
    apply Permutation_sym. eapply Permutation_trans; [apply remove1_sound; exact Er|].
    apply perm_skip. apply Permutation_sym. now apply IH.
Qed.
End MSet.

Section Sound.
Variable c : case.

Definition is_block_of_case (i : nat) (vr vt : arr) : Prop :=
  a_data vr = concat (block (case_fs c) i (case_rrows c)) /\
  a_data vt = concat (block (case_fs c) i (case_trows c)) /\
  a_rows vr = N.of_nat (case_fs c) /\ a_rows vt = N.of_nat (case_fs c) /\
  a_cols vr = N.of_nat (case_w c) /\ a_cols vt = N.of_nat (case_tw c).

(** training part + validation part = the samples of the case, each record with its own target *)
Definition is_partition_of_case (ar at_ vr vt : arr) : Prop :=
  Permutation (combine (arr_rows ar) (arr_rows at_) ++ combine (arr_rows vr) (arr_rows vt))
              (combine (case_rrows c) (case_trows c)).

Lemma valid_is_block_sound i vr vt : valid_is_block c i vr vt = true -> is_block_of_case i vr vt.
Proof.
  unfold valid_is_block. intros H.
  apply andb_true_iff in H as [H H4]. apply andb_true_iff in H as [H H3]. apply andb_true_iff in H as [H1 H2].
  apply arr_is_sound in H1 as [A1 [_ A3]]. apply arr_is_sound in H2 as [B1 [_ B3]].
  apply N.eqb_eq in H3, H4. unfold is_block_of_case. repeat split; assumption.
Qed.

Lemma split_is_partition_sound ar at_ vr vt :
  split_is_partition c ar at_ vr vt = true -> is_partition_of_case ar at_ vr vt.
Proof.
  unfold split_is_partition. intros H. apply andb_true_iff in H as [_ H].
  apply (mset_eqb_sound pair_eqb pair_eqb_eq) in H. exact H.
Qed.

Lemma domain_bool : case_in_domain c ->
  negb ((2 <=? N.to_nat (c_k c)) && (N.to_nat (c_k c) <=? N.to_nat (c_n c))) = false.
Proof.
  intros [H1 H2]. unfold case_k, case_n in *.
  apply Nat.leb_le in H1, H2. now rewrite H1, H2.
Qed.

(** a panic of fold / iter_fold on a valid input is always rejected *)
Theorem oracle_rejects_panics : case_in_domain c ->
  oracle_fold c None <> 0%N /\ oracle_ifold c None <> 0%N.
Proof.
  intros Hd. unfold oracle_fold, oracle_ifold. rewrite (domain_bool Hd). split; discriminate.
Qed.

Theorem oracle_fold_sound (il : list foldpair) : case_in_domain c -> oracle_fold c (Some il) = 0%N ->
  length il = case_k c /\
  forall i p, nth_error il i = Some p ->
    is_block_of_case i (fp_vr p) (fp_vt p) /\ is_partition_of_case (fp_tr p) (fp_tt p) (fp_vr p) (fp_vt p).
Proof.
  intros Hd H. unfold oracle_fold in H. rewrite (domain_bool Hd) in H.
  apply N.eq_add_0 in H as [H H3]. apply N.eq_add_0 in H as [H1 H2].
  apply flag_zero in H1, H2, H3; try discriminate.
  split; [now apply Nat.eqb_eq in H1|].
  intros i p Hp. split.
  - apply valid_is_block_sound. apply (forall_i_sound _ il 0 H2 i p Hp).
  - apply split_is_partition_sound. rewrite forallb_forall in H3. apply H3. eapply nth_error_In; eauto.
Qed.

Theorem oracle_ifold_sound (ir : ifres) : case_in_domain c -> oracle_ifold c (Some ir) = 0%N ->
  length (ir_items ir) = case_k c /\
  (forall i it, nth_error (ir_items ir) i = Some it ->
     is_block_of_case i (ii_vr it) (ii_vt it) /\
     is_partition_of_case (ii_ar it) (ii_at it) (ii_vr it) (ii_vt it)) /\
  ir_rec ir = c_recs c /\ ir_tgt ir = c_tgts c /\ ir_outside_ok ir = true.
Proof.
  intros Hd H. unfold oracle_ifold in H. rewrite (domain_bool Hd) in H.
  apply N.eq_add_0 in H as [H H4]. apply N.eq_add_0 in H as [H H3]. apply N.eq_add_0 in H as [H1 H2].
  apply flag_zero in H1, H2, H3, H4; try discriminate.
  split; [now apply Nat.eqb_eq in H1|]. split.
  - intros i it Hp. split.
    + apply valid_is_block_sound. apply (forall_i_sound _ _ 0 H2 i it Hp).
    + apply split_is_partition_sound. rewrite forallb_forall in H3. apply H3. eapply nth_error_In; eauto.
  - apply andb_true_iff in H4 as [H4 H6]. apply andb_true_iff in H4 as [H4 H5].
    apply lN_eqb_eq in H4, H5. auto.
Qed.
End Sound.

(** non-vacuity: 5 samples, 2 folds (fold size 2, one tail sample), what `fold` and `iter_fold` return *)
Definition ex_case : case :=
  {| c_id := 0%N; c_n := 5%N; c_w := 1%N; c_tdim := 0%N; c_k := 2%N;
     c_recs := (runs [(1, 5)])%N; c_tgts := (runs [(11, 5)])%N;
     c_fold := []; c_ifold := []; c_chunks := []; c_cv := []; c_cv32 := []; c_lay := [] |}.
Definition ex_fold : list foldpair :=
  [FP (A 3 1 [(3, 3)])%N (A 3 1 [(13, 3)])%N (A 2 1 [(1, 2)])%N (A 2 1 [(11, 2)])%N;
   FP (A 3 1 [(1, 2); (5, 1)])%N (A 3 1 [(11, 2); (15, 1)])%N (A 2 1 [(3, 2)])%N (A 2 1 [(13, 2)])%N].
Definition ex_ifold : ifres :=
  {| ir_items := [II (A 3 1 [(3, 3)])%N (A 3 1 [(13, 3)])%N (A 2 1 [(1, 2)])%N (A 2 1 [(11, 2)])%N;
                  II (A 3 1 [(1, 2); (5, 1)])%N (A 3 1 [(11, 2); (15, 1)])%N (A 2 1 [(3, 2)])%N (A 2 1 [(13, 2)])%N];
     ir_rec := (runs [(1, 5)])%N; ir_tgt := (runs [(11, 5)])%N; ir_outside_ok := true |}.
Example oracle_example :
  case_in_domain ex_case /\ oracle_fold ex_case (Some ex_fold) = 0%N /\ oracle_ifold ex_case (Some ex_ifold) = 0%N
  /\ corr_fold ex_case (Some ex_fold) = 0%N /\ corr_ifold ex_case (Some ex_ifold) = 0%N.
Proof. split; [unfold case_in_domain, case_k, case_n; simpl; lia|]. repeat split; vm_compute; reflexivity. Qed.
(** and a wrong output (the two validation parts exchanged) is rejected *)
Example oracle_example_rejects :
  oracle_fold ex_case (Some (rev ex_fold)) <> 0%N.
Proof. vm_compute. discriminate. Qed.
