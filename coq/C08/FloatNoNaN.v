(** C08 - on finite coordinates no computed binary64 distance is NaN (overflow of a difference, of a
    square or of the sum gives +infinity, never infinity - infinity): every term |x - y| resp.
    (x - y)^2 is non-negative and not NaN, and sums, maxima and the square root of such values are
    again non-negative and not NaN.  Through Flocq's specification of the primitive operations
    (IEEE754.PrimFloat: sub_equiv, mul_equiv, add_equiv, sqrt_equiv, abs_equiv and the *_correct
    theorems of BinarySingleNaN).  Hence [nonan_dists] - the hypothesis of the OPTICS float theorem -
    holds for every batch of finite rows. *)
From Coq Require Import List ZArith NArith Bool Arith Floats Reals Lra Lia Permutation.
From Flocq Require Import Core BinarySingleNaN.
From Flocq Require PrimFloat.
From LinfaVerif Require Import Common.Num Common.QF C08.Model C08.Proofs C08.Compose C08.FloatSym C08.OpticsOrder C08.FloatOrder.
Import ListNotations.

Module FP := Flocq.IEEE754.PrimFloat.

Notation bf := (binary_float FloatOps.prec FloatOps.emax).

(* non-negative and not NaN *)
Definition pos (b : bf) : bool := negb (is_nan b) && negb (Bsign b).
Definition nn (x : PrimFloat.float) : bool := pos (FP.Prim2B x).

Lemma B2SF_inf (z : bf) s : B2SF z = SpecFloat.S754_infinity s -> z = B754_infinity s.
Proof. destruct z; simpl; intros H; try discriminate. inversion H; reflexivity. Qed.

Lemma overflow_NE s : binary_overflow FloatOps.prec FloatOps.emax mode_NE s = SpecFloat.S754_infinity s.
Proof. reflexivity. Qed.

Lemma finite_Prim2B x : f64_finite x = true -> is_finite (FP.Prim2B x) = true.
Proof. unfold f64_finite. rewrite <- FP.B2SF_Prim2B. destruct (FP.Prim2B x); auto. Qed.

Lemma sub_nonan x y : f64_finite x = true -> f64_finite y = true -> PrimFloat.is_nan (x - y) = false.
Proof.
  intros Hx Hy. rewrite FP.is_nan_equiv, FP.sub_equiv.
  pose proof (Bminus_correct _ _ FP.Hprec FP.Hmax mode_NE _ _ (finite_Prim2B x Hx) (finite_Prim2B y Hy)) as H.
  destruct (Rlt_bool _ _).
  - destruct H as [_ [H _]]. destruct (Bminus _ _ _); auto; discriminate.
  - destruct H as [H _]. rewrite overflow_NE in H. apply B2SF_inf in H. rewrite H. reflexivity.
Qed.

Lemma abs_nn z : PrimFloat.is_nan z = false -> nn (PrimFloat.abs z) = true.
Proof.
  rewrite FP.is_nan_equiv. unfold nn. rewrite FP.abs_equiv. destruct (FP.Prim2B z); simpl; auto.
Qed.

Lemma sq_nn z : PrimFloat.is_nan z = false -> nn (z * z) = true.
Proof.
  rewrite FP.is_nan_equiv. unfold nn. rewrite FP.mul_equiv. intros Hz.
  pose proof (Bmult_correct _ _ FP.Hprec FP.Hmax mode_NE (FP.Prim2B z) (FP.Prim2B z)) as H.
  destruct (FP.Prim2B z) as [s|s| |s m e Hb] eqn:E; try discriminate.
  - simpl. destruct s; reflexivity.
  - simpl. destruct s; reflexivity.
  - destruct (Rlt_bool _ _).
    + destruct H as [_ [H1 H2]]. unfold pos.
      match goal with |- context [is_nan ?r] => set (rr := r) in * end.
      assert (N : is_nan rr = false) by (destruct rr; auto; discriminate).
      rewrite N, (H2 N). simpl. destruct s; reflexivity.
    + rewrite overflow_NE in H. apply B2SF_inf in H. rewrite H. simpl. destruct s; reflexivity.
Qed.

Lemma pos_cases (b : bf) : pos b = true ->
  b = B754_zero false \/ b = B754_infinity false \/ exists m e H, b = B754_finite false m e H.
Proof.
  destruct b as [s|s| |s m e H]; unfold pos; simpl; try discriminate; destruct s; try discriminate; intros _; auto.
  right; right. exists m, e, H. reflexivity.
Qed.

Lemma add_nn a b : nn a = true -> nn b = true -> nn (a + b) = true.
Proof.
  unfold nn. rewrite FP.add_equiv. intros Ha Hb.
  destruct (pos_cases _ Ha) as [Ea|[Ea|[ma [ea [Ha' Ea]]]]]; destruct (pos_cases _ Hb) as [Eb|[Eb|[mb [eb [Hb' Eb]]]]];
    rewrite Ea, Eb; try reflexivity.
  pose proof (Bplus_correct _ _ FP.Hprec FP.Hmax mode_NE (B754_finite false ma ea Ha') (B754_finite false mb eb Hb') eq_refl eq_refl) as H.
  destruct (Rlt_bool _ _).
  - destruct H as [_ [H1 H2]]. unfold pos.
    match goal with |- context [is_nan ?r] => set (rr := r) in * end.
    assert (N : is_nan rr = false) by (destruct rr; auto; discriminate).
    rewrite N, H2. 
    assert (P : (0 < B2R (B754_finite false ma ea Ha') + B2R (B754_finite false mb eb Hb'))%R).
    { simpl. apply Rplus_lt_0_compat; apply F2R_gt_0; reflexivity. }
    rewrite (Rcompare_Gt _ _ P). reflexivity.
  - destruct H as [H _]. rewrite overflow_NE in H. apply B2SF_inf in H. rewrite H. reflexivity.
Qed.

Lemma sqrt_nonan a : nn a = true -> PrimFloat.is_nan (PrimFloat.sqrt a) = false.
Proof.
  unfold nn. rewrite FP.is_nan_equiv, FP.sqrt_equiv. intros Ha.
  destruct (pos_cases _ Ha) as [Ea|[Ea|[ma [ea [Ha' Ea]]]]]; rewrite Ea; try reflexivity.
  destruct (Bsqrt_correct _ _ FP.Hprec FP.Hmax mode_NE (B754_finite false ma ea Ha')) as [_ [H _]].
  match goal with |- is_nan ?r = false => destruct r; auto; discriminate end.
Qed.

Lemma nn_nonan a : nn a = true -> PrimFloat.is_nan a = false.
Proof. unfold nn, pos. rewrite FP.is_nan_equiv. intros H. apply andb_true_iff in H as [H _]. apply negb_true_iff in H. exact H. Qed.

Lemma zero_nn : nn 0%float = true.
Proof. reflexivity. Qed.

Lemma fold2_nn (f : PrimFloat.float -> PrimFloat.float -> PrimFloat.float -> PrimFloat.float) :
  (forall acc x y, nn acc = true -> f64_finite x = true -> f64_finite y = true -> nn (f acc x y) = true) ->
  forall a b acc, forallb f64_finite a = true -> forallb f64_finite b = true -> nn acc = true ->
  nn (fold2 f a b acc) = true.
Proof.
  intros Hf. induction a as [|x a IH]; intros [|y b] acc Ha Hb Hacc; simpl; auto.
  simpl in Ha, Hb. apply andb_true_iff in Ha as [Hx Ha]. apply andb_true_iff in Hb as [Hy Hb].
  apply IH; auto.
Qed.

Lemma rdist_nn m a b : forallb f64_finite a = true -> forallb f64_finite b = true ->
  nn (rdist B64_ops m a b) = true.
Proof.
  intros Ha Hb. destruct m; simpl; unfold l1d, sq_l2, linfd; apply fold2_nn; auto; try apply zero_nn;
    intros acc x y Hacc Hx Hy; simpl.
  - apply add_nn; auto. apply abs_nn. apply sub_nonan; auto.
  - apply add_nn; auto. apply sq_nn. apply sub_nonan; auto.
  - destruct (PrimFloat.ltb acc (PrimFloat.abs (x - y))); auto. apply abs_nn. apply sub_nonan; auto.
Qed.

Lemma dist_finite_nonan m a b : forallb f64_finite a = true -> forallb f64_finite b = true ->
  PrimFloat.is_nan (dist B64_ops m a b) = false.
Proof.
  intros Ha Hb. pose proof (rdist_nn m a b Ha Hb) as H. destruct m; simpl in *.
  - apply nn_nonan; auto.
  - apply sqrt_nonan; auto.
  - apply nn_nonan; auto.
Qed.

Lemma finite_nonan_dists m X : forallb (forallb f64_finite) X = true -> nonan_dists m X = true.
Proof.
  intros H. rewrite forallb_forall in H. unfold nonan_dists.
  apply forallb_forall. intros a Ha. apply forallb_forall. intros b Hb.
  apply negb_true_iff. apply dist_finite_nonan; auto.
Qed.

(** * the binary64 OPTICS result does not depend on the order in which the index lists the neighbours *)
Lemma sqrt_nn a : nn a = true -> nn (PrimFloat.sqrt a) = true.
Proof.
  unfold nn. rewrite FP.sqrt_equiv. intros Ha.
  destruct (pos_cases _ Ha) as [Ea|[Ea|[ma [ea [Ha' Ea]]]]]; rewrite Ea; try reflexivity.
  destruct (Bsqrt_correct _ _ FP.Hprec FP.Hmax mode_NE (B754_finite false ma ea Ha')) as [_ [H1 H2]].
  unfold pos. match goal with |- context [is_nan ?r] => set (rr := r) in * end.
  assert (N : is_nan rr = false) by (destruct rr; auto; discriminate).
  rewrite N, (H2 N). reflexivity.
Qed.

Lemma dist_nn m a b : forallb f64_finite a = true -> forallb f64_finite b = true ->
  nn (dist B64_ops m a b) = true.
Proof.
  intros Ha Hb. pose proof (rdist_nn m a b Ha Hb) as H. destruct m; simpl in *; auto.
  apply sqrt_nn; auto.
Qed.

(* on non-negative values that are not NaN the order embedding is injective *)
Lemma f64_ord_inj a b : nn a = true -> nn b = true -> f64_ord a = f64_ord b -> a = b.
Proof.
  unfold nn, f64_ord. intros Ha Hb E. apply FP.Prim2B_inj.
  assert (Hbig : (0 < big)%R) by (unfold big; apply bpow_gt_0).
  destruct (pos_cases _ Ha) as [Ea|[Ea|[ma [ea [Ha' Ea]]]]]; destruct (pos_cases _ Hb) as [Eb|[Eb|[mb [eb [Hb' Eb]]]]];
    rewrite Ea, Eb in *; auto;
    try pose proof (B2R_inside (B754_finite false ma ea Ha')) as I1;
    try pose proof (B2R_inside (B754_finite false mb eb Hb')) as I2;
    try (assert (P1 : (0 < B2R (B754_finite false ma ea Ha'))%R) by (apply F2R_gt_0; reflexivity));
    try (assert (P2 : (0 < B2R (B754_finite false mb eb Hb'))%R) by (apply F2R_gt_0; reflexivity));
    cbv iota in E; try (assert (Z0 : B2R (B754_zero false : bf) = 0%R) by reflexivity);
    try (exfalso; lra).
  apply B2R_Bsign_inj; auto.
Qed.

Section FloatIndep.
Variable m : metric.
Variable X : list (list PrimFloat.float).
Variables nbrs nbrs' : nat -> list nat.
Variable minpts n : nat.
Hypothesis X_finite : forallb (forallb f64_finite) X = true.
Hypothesis minpts_pos : 1 <= minpts.
Hypothesis nb_range : forall i j, In j (nbrs i) -> j < n.
Hypothesis nb_nodup : forall i, NoDup (nbrs i).
Hypothesis nb_perm : forall i, Permutation (nbrs i) (nbrs' i).

Let d (i j : nat) : PrimFloat.float := dist B64_ops m (nth i X []) (nth j X []).

Lemma row_finite i : forallb f64_finite (nth i X []) = true.
Proof.
  destruct (Nat.lt_ge_cases i (length X)) as [H|H].
  - rewrite forallb_forall in X_finite. apply X_finite. apply nth_In. exact H.
  - rewrite nth_overflow by exact H. reflexivity.
Qed.
Lemma d_nn i j : nn (d i j) = true.
Proof. unfold d. apply dist_nn; apply row_finite. Qed.
Lemma d_nonan' i j : PrimFloat.is_nan (d i j) = false.
Proof. apply nn_nonan. apply d_nn. Qed.
Lemma d_sym' i j : d i j = d j i.
Proof. unfold d. apply dist_B64_sym. Qed.

Let fR (p : nat * nat) : R := f64_ord (pval d p).

Lemma fR_lt a b : ltb R_ops (fR a) (fR b) = ltb (pair_ops d) a b.
Proof. symmetry. apply pair_ltb. exact d_nonan'. Qed.

Lemma smap_inj (s s' : sample (nat * nat)) : smap fR s = smap fR s' -> smap (pval d) s = smap (pval d) s'.
Proof.
  destruct s as [i c r], s' as [i' c' r']. unfold smap. cbn [s_index s_core s_reach]. intros H.
  inversion H as [[Hi Hc Hr]]. f_equal.
  - destruct c as [[a b]|], c' as [[a' b']|]; simpl in *; try discriminate; auto.
    inversion Hc as [Hc']. f_equal. apply f64_ord_inj; auto; apply d_nn.
  - destruct r as [[a b]|], r' as [[a' b']|]; simpl in *; try discriminate; auto.
    inversion Hr as [Hr']. f_equal. apply f64_ord_inj; auto; apply d_nn.
Qed.

Lemma map_smap_inj : forall l l', map (smap fR) l = map (smap fR) l' -> map (smap (pval d)) l = map (smap (pval d)) l'.
Proof.
  induction l as [|s l IH]; intros [|s' l'] H; try discriminate; auto.
  cbn [map] in H |- *.
  assert (H1 : smap fR s = smap fR s') by congruence.
  assert (H2 : map (smap fR) l = map (smap fR) l') by congruence.
  f_equal; [exact (smap_inj _ _ H1) | exact (IH _ H2)].
Qed.

Theorem optics_float_order_independent :
  optics B64_ops nbrs d minpts n = optics B64_ops nbrs' d minpts n.
Proof.
  rewrite (optics_pairs nbrs d minpts n), (optics_pairs nbrs' d minpts n).
  pose proof (optics_embed R_ops (pair_ops d) fR fR_lt nbrs (fun i j => (i, j)) minpts n) as E1.
  pose proof (optics_embed R_ops (pair_ops d) fR fR_lt nbrs' (fun i j => (i, j)) minpts n) as E2.
  assert (E3 : optics R_ops nbrs (fun i j => fR (i, j)) minpts n = optics R_ops nbrs' (fun i j => fR (i, j)) minpts n).
  { apply optics_order_independent; auto. intros i j. unfold fR, pval. simpl. rewrite d_sym'. reflexivity. }
  rewrite E1, E2 in E3.
  destruct (optics (pair_ops d) nbrs _ minpts n) as [l|], (optics (pair_ops d) nbrs' _ minpts n) as [l'|];
    simpl in *; try discriminate; auto.
  inversion E3 as [E]. f_equal. apply map_smap_inj. exact E.
Qed.
End FloatIndep.
