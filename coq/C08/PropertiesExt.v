(** C08 - property theorems, second part: composition with the neighbour indices of C07 and the float
    level (statements only; proofs are in C08/Compose.v, FloatSym.v, OpticsOrder.v, FloatOrder.v).

    Vocabulary:
      lin_nbrs o m X eps i   - the row positions that C07's linear-scan model [linear_range] returns for
                               row i of the batch X and radius eps in the arithmetic o (what
                               LinearSearchIndex::within_range hands to find_neighbors); [] for i >= |X|;
      idx_nbrs X answer i    - the same for an arbitrary index whose answer for row i is [answer i];
      density_clustering nbrs minpts n lab
                             - lab has n entries; labels are 0..c-1 without gaps; a sample is unlabelled
                               iff it is neither core nor in the neighbourhood of a core sample; a labelled
                               non-core sample carries the label of a core sample that reaches it; core
                               samples carry the same label iff they are density-connected
                               (core i := minpts <= |nbrs i|, the sample itself included);
      density_ordering o nbrs d minpts n out
                             - out lists every sample once; each listed core distance is [cdist] (the
                               distance to the min_points-th entry of the neighbour list sorted by distance,
                               undefined if shorter); each reachability is undefined or max(core distance
                               of ob, distance to ob) for an earlier core sample ob that reaches the sample;
                               and whenever an unlisted sample is reached by a listed core sample, the next
                               listed sample has a reachability that is at most that candidate
                               (walk by minimal reachability, reachabilities minimal);
      rdist / dist / to_r    - Distance::rdistance / ::distance / ::dist_to_rdist of linfa-nn (C08/Model.v). *)
From Coq Require Import List NArith Bool Arith Permutation Reals Floats.
From LinfaVerif Require Import Common.Num Common.B32 Common.QF C08.Model C08.Proofs C08.Compose C08.FloatSym
  C08.OpticsOrder C08.FloatOrder C08.FloatNoNaN C08.Corr C08.RunSound.
From LinfaVerif Require C07.Model C07.Proofs C07.Properties.
Import ListNotations.

(** * 1. Composition with C07 over the reals (metrics L1, L2, Linf): no hypothesis on the index left *)

(** DBSCAN over the linear index: the neighbourhoods are the open balls of radius eps (first clause,
    from C07's [linear_range_correct]) and the result is their density clustering. *)
Theorem dbscan_over_linear_index_is_density_clustering :
  forall (m : metric) (X : list (list R)) (eps : R) (minpts : nat),
  let n := length X in
  let nbrs := lin_nbrs R_ops m X eps in
  (forall i j, i < n ->
     (In j (nbrs i) <-> j < n /\ (rdist R_ops m (nth i X []) (nth j X []) < to_r R_ops m eps)%R)) /\
  exists lab, dbscan nbrs minpts n = Some lab /\ density_clustering nbrs minpts n lab.
Proof.
  intros m X eps minpts n nbrs. split.
  - intros i j Hi. exact (lin_nbrs_R_spec m X eps i j Hi).
  - exact (dbscan_linear_R m X eps minpts).
Qed.

(** for a positive tolerance "inside the radius on reduced distances" is "distance below the tolerance",
    and every row lies in its own neighbourhood *)
Theorem within_tolerance_iff_distance_below : forall (m : metric) (a b : list R) (eps : R), (0 < eps)%R ->
  ((rdist R_ops m a b < to_r R_ops m eps)%R <-> (dist R_ops m a b < eps)%R).
Proof. exact within_iff_dist. Qed.

Theorem linear_neighbourhood_reflexive : forall (m : metric) (X : list (list R)) (eps : R) (i : nat),
  (0 < eps)%R -> i < length X -> In i (lin_nbrs R_ops m X eps i).
Proof. exact lin_nbrs_R_refl. Qed.

(** ANY index that answers range queries correctly in the sense of C07 ([is_range]: exactly the rows
    strictly inside the radius, each once, in any order) gives the same labelling as the linear index,
    numbering included, and that labelling is the density clustering of its own answers. *)
Theorem dbscan_over_any_correct_index_is_density_clustering :
  forall (m : metric) (X : list (list R)) (eps : R) (minpts : nat) (answer : nat -> list (list R * N)),
  (forall i, i < length X ->
     C07.Proofs.is_range (C07.Model.dq_of R_ops (m7 m) (nth i X [])) (C07.Model.to_r R_ops (m7 m) eps) X (answer i)) ->
  exists lab, dbscan (idx_nbrs X answer) minpts (length X) = Some lab /\
              dbscan (lin_nbrs R_ops m X eps) minpts (length X) = Some lab /\
              density_clustering (idx_nbrs X answer) minpts (length X) lab.
Proof. exact dbscan_any_index_R. Qed.

(** in particular the ball tree of C07's model (construction and best-first search, any leaf size >= 1,
    any non-negative safety margin factor), by C07's [bt_search_correct_range] *)
Theorem dbscan_over_ball_tree_is_density_clustering :
  forall (m : metric) (marg : R) (leaf dm : nat) (X : list (list R)) (eps : R) (minpts : nat),
  (0 <= marg)%R -> 1 <= leaf -> (forall x, In x X -> length x = dm) ->
  let answer := fun i => C07.Model.bt_range R_ops marg (m7 m) (C07.Model.bt_new R_ops (m7 m) leaf X)
                           (length X) (nth i X []) eps in
  exists lab, dbscan (idx_nbrs X answer) minpts (length X) = Some lab /\
              dbscan (lin_nbrs R_ops m X eps) minpts (length X) = Some lab /\
              density_clustering (idx_nbrs X answer) minpts (length X) lab.
Proof.
  intros m marg leaf dm X eps minpts Hm Hl HX answer. apply dbscan_any_index_R.
  intros i Hi. apply (C07.Properties.bt_search_correct_range (m7 m) marg leaf dm); auto.
  apply HX. apply nth_In. exact Hi.
Qed.

(** OPTICS over the linear index, distances d i j = dist(row i, row j): the result is the density
    ordering, and the core distance is the min_points-th smallest distance from the sample to the
    points within its tolerance (undefined exactly when fewer than min_points points are). *)
Theorem optics_over_linear_index_is_density_ordering :
  forall (m : metric) (X : list (list R)) (eps : R) (minpts : nat), 1 <= minpts ->
  let n := length X in
  let nbrs := lin_nbrs R_ops m X eps in
  let d := fun i j => dist R_ops m (nth i X []) (nth j X []) in
  exists out, optics R_ops nbrs d minpts n = Some out /\ density_ordering R_ops nbrs d minpts n out /\
  forall i,
    (forall c, cdist R_ops nbrs d minpts i = Some c ->
       (exists x, In x (nbrs i) /\ c = d i x) /\
       count (fun y => Rltb (d i y) c) (nbrs i) < minpts <= count (fun y => Rleb (d i y) c) (nbrs i)) /\
    (cdist R_ops nbrs d minpts i = None <-> length (nbrs i) < minpts).
Proof. intros m X eps minpts Hm. exact (optics_linear_R m X eps minpts Hm). Qed.

(** ... and every correct index gives the identical OPTICS result *)
Theorem optics_over_any_correct_index_equals_linear :
  forall (m : metric) (X : list (list R)) (eps : R) (minpts : nat) (answer : nat -> list (list R * N)),
  1 <= minpts ->
  (forall i, i < length X ->
     C07.Proofs.is_range (C07.Model.dq_of R_ops (m7 m) (nth i X [])) (C07.Model.to_r R_ops (m7 m) eps) X (answer i)) ->
  let d := fun i j => dist R_ops m (nth i X []) (nth j X []) in
  optics R_ops (idx_nbrs X answer) d minpts (length X) = optics R_ops (lin_nbrs R_ops m X eps) d minpts (length X).
Proof. intros m X eps minpts answer Hm H. exact (optics_any_index_R m X eps minpts answer Hm H). Qed.

(** * 2. The float level *)

(** The one place where floats could differ from reals in DBSCAN: symmetry of the computed distance.
    It holds in IEEE arithmetic for ALL operands (signed zeros, subnormals, overflow, NaN): |x - y| and
    |y - x| are the same float, (x - y)^2 and (y - x)^2 are the same float - so the sums of L1 / L2 / Linf
    have the same terms one by one (for every summation order) - binary64 and binary32. *)
Theorem computed_distance_symmetric_f64 : forall (m : metric) (a b : list float),
  rdist B64_ops m a b = rdist B64_ops m b a /\ dist B64_ops m a b = dist B64_ops m b a.
Proof. intros m a b. split; [apply rdist_B64_sym | apply dist_B64_sym]. Qed.

Theorem computed_distance_symmetric_f32 : forall (m : metric) (a b : list SpecFloat.spec_float),
  rdist B32_ops m a b = rdist B32_ops m b a /\ dist B32_ops m a b = dist B32_ops m b a.
Proof. intros m a b. split; [apply rdist_B32_sym | apply dist_B32_sym]. Qed.

(** the linear index in ANY arithmetic returns the open ball decided on the computed reduced
    distances, in row order: the [range_spec] against which the correspondence compares every index *)
Theorem linear_index_is_computed_open_ball : forall F (o : NumOps F) (m : metric) (dim : nat) (X : list (list F)) (eps : F) (i : nat),
  i < length X -> lin_nbrs o m X eps i = range_spec o m (S dim) X eps i.
Proof. intros F o m dim X eps i. apply lin_nbrs_range_spec. Qed.

(** DBSCAN in binary64, for EVERY batch (no finiteness assumption, no rounding gap): with
    within i j := rdist_B64(row i, row j) < dist_to_rdist_B64(eps) as computed, the neighbour lists are
    exactly the samples within, [within] is symmetric, and the labelling is the density clustering of
    that computed relation. *)
Theorem dbscan_float_is_density_clustering_of_computed_distances :
  forall (m : metric) (X : list (list float)) (eps : float) (minpts : nat),
  let n := length X in
  let within := fun i j => PrimFloat.ltb (rdist B64_ops m (nth i X []) (nth j X [])) (to_r B64_ops m eps) in
  let nbrs := lin_nbrs B64_ops m X eps in
  (forall i j, In j (nbrs i) <-> i < n /\ j < n /\ within i j = true) /\
  (forall i j, within i j = within j i) /\
  exists lab, dbscan nbrs minpts n = Some lab /\ density_clustering nbrs minpts n lab.
Proof.
  intros m X eps minpts n within nbrs.
  destruct (dbscan_lin_density B64_ops m X eps minpts (rdist_B64_sym m)) as [A B].
  split; [exact A|split; [|exact B]].
  intros i j. unfold within. rewrite rdist_B64_sym. reflexivity.
Qed.

(** the same in binary32 *)
Theorem dbscan_float32_is_density_clustering_of_computed_distances :
  forall (m : metric) (X : list (list SpecFloat.spec_float)) (eps : SpecFloat.spec_float) (minpts : nat),
  let n := length X in
  let within := fun i j => SpecFloat.SFltb (rdist B32_ops m (nth i X []) (nth j X [])) (to_r B32_ops m eps) in
  let nbrs := lin_nbrs B32_ops m X eps in
  (forall i j, In j (nbrs i) <-> i < n /\ j < n /\ within i j = true) /\
  (forall i j, within i j = within j i) /\
  exists lab, dbscan nbrs minpts n = Some lab /\ density_clustering nbrs minpts n lab.
Proof.
  intros m X eps minpts n within nbrs.
  destruct (dbscan_lin_density B32_ops m X eps minpts (rdist_B32_sym m)) as [A B].
  split; [exact A|split; [|exact B]].
  intros i j. unfold within. rewrite rdist_B32_sym. reflexivity.
Qed.

(** whatever index produced the neighbour lists: if each list holds the computed open ball as a set
    (the correspondence checks exactly this for LinearSearch, KdTree and BallTree on every case:
    oracle bit 64), the labelling is the one above, numbering included *)
Theorem dbscan_float_any_index : forall (m : metric) (X : list (list float)) (eps : float) (minpts : nat)
  (nbrs' : nat -> list nat),
  (forall i, Permutation (lin_nbrs B64_ops m X eps i) (nbrs' i)) ->
  exists lab, dbscan nbrs' minpts (length X) = Some lab /\
              dbscan (lin_nbrs B64_ops m X eps) minpts (length X) = Some lab /\
              density_clustering nbrs' minpts (length X) lab.
Proof.
  intros m X eps minpts nbrs' HP.
  exact (dbscan_same_sets _ nbrs' minpts (length X) (lin_nbrs_B64_ok m X eps) HP).
Qed.

(** on finite coordinates the computed reduced distance of a row to itself is +0, so with a computed
    reduced tolerance above +0 every row counts itself (the tolerance guard eps > 0 gives this for L1
    and Linf; for L2 the square eps*eps may underflow to +0: then every neighbourhood is empty and all
    samples are noise - [ex_tiny_tolerance] in C08/FloatSym.v) *)
Theorem computed_self_distance_zero : forall (m : metric) (a : list float),
  forallb f64_finite a = true -> rdist B64_ops m a a = 0%float.
Proof. exact rdist_B64_refl. Qed.

Theorem float_neighbourhood_reflexive : forall (m : metric) (X : list (list float)) (eps : float) (i : nat),
  i < length X -> forallb f64_finite (nth i X []) = true -> PrimFloat.ltb 0 (to_r B64_ops m eps) = true ->
  In i (lin_nbrs B64_ops m X eps i).
Proof. exact lin_nbrs_B64_refl. Qed.

(** OPTICS sees the distances only through comparisons: an order-preserving translation f of the
    arithmetic o' into o carries the whole result over (same ordering; core distances and
    reachabilities mapped by f) ... *)
Theorem optics_sees_only_the_order :
  forall F F' (o : NumOps F) (o' : NumOps F') (f : F' -> F),
  (forall a b, ltb o (f a) (f b) = ltb o' a b) ->
  forall nbrs (d' : nat -> nat -> F') minpts n,
  optics o nbrs (fun i j => f (d' i j)) minpts n = option_map (map (smap f)) (optics o' nbrs d' minpts n).
Proof. intros F F' o o' f Hf nbrs d' minpts n. exact (optics_embed o o' f Hf nbrs d' minpts n). Qed.

(** ... in particular the result is invariant under strictly increasing rescalings of the distances *)
Theorem optics_invariant_under_monotone_rescaling : forall (g : R -> R) nbrs (d : nat -> nat -> R) minpts n,
  (forall a b, (a < b)%R <-> (g a < g b)%R) ->
  optics R_ops nbrs (fun i j => g (d i j)) minpts n = option_map (map (smap g)) (optics R_ops nbrs d minpts n).
Proof. exact optics_monotone_invariant. Qed.

(** binary64 values that are not NaN are ordered like real numbers: [f64_ord] (the value of a finite
    float, +-2^1024 for the infinities) turns the primitive comparison into the real one *)
Theorem f64_order_embedding : forall a b : float,
  PrimFloat.is_nan a = false -> PrimFloat.is_nan b = false ->
  PrimFloat.ltb a b = Rltb (f64_ord a) (f64_ord b).
Proof. exact f64_ltb_ord. Qed.

(** OPTICS in binary64 on the computed distances d i j = dist_B64(row i, row j) with the computed
    neighbourhoods of the linear index: whenever no computed distance of the batch is NaN (a decidable
    condition on the input: [nonan_dists]; overflow to infinity is allowed), the result is the density
    ordering with respect to the computed values - core distance = the min_points-th smallest computed
    distance within the tolerance, reachability = the computed max(core distance, distance), walk by
    minimal reachability - with comparisons and max being the binary64 ones. *)
Theorem optics_float_is_density_ordering_of_computed_distances :
  forall (m : metric) (X : list (list float)) (eps : float) (minpts : nat),
  1 <= minpts -> nonan_dists m X = true ->
  let n := length X in
  let d := fun i j => dist B64_ops m (nth i X []) (nth j X []) in
  let nbrs := lin_nbrs B64_ops m X eps in
  exists out, optics B64_ops nbrs d minpts n = Some out /\ density_ordering B64_ops nbrs d minpts n out /\
  forall i,
    (forall c, cdist B64_ops nbrs d minpts i = Some c ->
       (exists x, In x (nbrs i) /\ c = d i x) /\
       count (fun y => PrimFloat.ltb (d i y) c) (nbrs i) < minpts /\
       minpts <= count (fun y => negb (PrimFloat.ltb c (d i y))) (nbrs i)) /\
    (cdist B64_ops nbrs d minpts i = None <-> length (nbrs i) < minpts).
Proof. exact optics_float_density. Qed.

(** on finite coordinates no computed distance is NaN (differences, squares and sums may overflow to
    +infinity, never to NaN): the condition above holds for every batch of finite rows ... *)
Theorem finite_rows_have_no_nan_distance : forall (m : metric) (X : list (list float)),
  forallb (forallb f64_finite) X = true -> nonan_dists m X = true.
Proof. exact finite_nonan_dists. Qed.

(** ... so for finite data the OPTICS statement has no hypothesis on the computed numbers left *)
Theorem optics_float_finite_data_is_density_ordering :
  forall (m : metric) (X : list (list float)) (eps : float) (minpts : nat),
  1 <= minpts -> forallb (forallb f64_finite) X = true ->
  let n := length X in
  let d := fun i j => dist B64_ops m (nth i X []) (nth j X []) in
  let nbrs := lin_nbrs B64_ops m X eps in
  exists out, optics B64_ops nbrs d minpts n = Some out /\ density_ordering B64_ops nbrs d minpts n out.
Proof.
  intros m X eps minpts Hm Hf n d nbrs.
  destruct (optics_float_density m X eps minpts Hm (finite_nonan_dists m X Hf)) as [out [A [B _]]].
  exists out. split; assumption.
Qed.

(** ... and the binary64 OPTICS result (ordering, core distances, reachabilities, bit for bit) does not
    depend on the order in which the index lists the neighbours: whatever index produced lists that
    hold the computed open balls as sets gives the result of the linear index. *)
Theorem optics_float_index_independent :
  forall (m : metric) (X : list (list float)) (eps : float) (minpts : nat) (nbrs' : nat -> list nat),
  1 <= minpts -> forallb (forallb f64_finite) X = true ->
  (forall i, Permutation (lin_nbrs B64_ops m X eps i) (nbrs' i)) ->
  let d := fun i j => dist B64_ops m (nth i X []) (nth j X []) in
  optics B64_ops (lin_nbrs B64_ops m X eps) d minpts (length X) = optics B64_ops nbrs' d minpts (length X).
Proof.
  intros m X eps minpts nbrs' Hm Hf HP d.
  destruct (lin_nbrs_B64_ok m X eps) as [H1 [_ H3]].
  exact (optics_float_order_independent m X _ nbrs' minpts (length X) Hf Hm H1 H3 HP).
Qed.

(** * 3. What a clean correspondence run certifies, by theorem *)

(** For a run of a case (one neighbour index): if the index returned the computed open balls as
    duplicate-free sets (oracle bit 64 clear) and the DBSCAN correspondence bits 1 and 4 are clear
    (the implementation's labels equal the model's), then the implementation's labels ARE the density
    clustering of the computed binary64 distances of the case's points - by the theorems above,
    independently of the evaluated oracle bits 2..32 (which recompute the same conditions). *)
Theorem clean_run_labels_are_density_clustering : forall (c : case) (r : runcase) (dim' : nat),
  let m := c_metric c in let X := c_X c in let n := length X in
  let minpts := N.to_nat (c_minpts c) in
  nbrs_set_ok n (balls m (S dim') X (c_eps c)) r = true ->
  N.land (corr_run (S dim') n minpts (dmatrix m X) r) 5 = 0%N ->
  exists lab, map (option_map N.of_nat) lab = r_labels r /\
              dbscan (lin_nbrs B64_ops m X (c_eps c)) minpts n = Some lab /\
              density_clustering (lin_nbrs B64_ops m X (c_eps c)) minpts n lab.
Proof. exact clean_run_dbscan. Qed.

(** the two `transform` wrappers: with at least one feature they are the scans above; with zero
    features no index can be built and everything is noise / undefined *)
Theorem transforms_unfold : forall F (o : NumOps F) dim n nbrs (d : nat -> nat -> F) minpts,
  dbscan_transform (S dim) n nbrs minpts = dbscan nbrs minpts n /\
  optics_transform o (S dim) n nbrs d minpts = optics o nbrs d minpts n /\
  dbscan_transform 0 n nbrs minpts = Some (repeat None n) /\
  optics_transform o 0 n nbrs d minpts = Some (map (fun i => mkSample i None None) (seq 0 n)).
Proof. intros. repeat split. Qed.
